---------------------------- MODULE RadiusClient ----------------------------
(* Growth task X02: the RADIUS client of liblcb (src/proto/radius_client.c, include/proto/radius_client.h)
   on top of the thread pool, its timers and the datagram receiver task.

   Properties (what a user of the client relies on, for all histories, interleavings of the pool thread with
   API callers and the network, message loss / duplication / reordering / forgery, send failures):

   P1  CompleteOnce    every accepted query completes exactly once - by a reply, by exhausting its servers
                       (ETIMEDOUT / the send error), by cancellation or by destruction of the client (EINTR) -
                       and its callback runs at most once, never after radius_client_query_cancel() returned,
                       and always on the pool thread the query was given to.
   P2  TxBound         a query is transmitted to one server at most MRC times (retrans_count_max), the retransmission
                       time starts at IRT, doubles, is capped by MRT, and the sum of the armed times never exceeds MRD;
                       nothing is transmitted for a query after it completed (incl. after it was cancelled).
   P3  IdExclusive     on one socket an identifier is held by at most one query in flight; a query holds exactly
                       one (socket, identifier) slot and one timer while it is in flight and none afterwards.
   P4  MatchSound      a query completes with success only through a datagram that arrived on the query's socket,
                       carries the query's identifier, comes from the address of the server the query is
                       currently sent to, and carries the Response Authenticator computed with that server's
                       secret over the query's Request Authenticator (late, duplicate, re-ordered and forged
                       datagrams complete nothing else).
   P5  Delivered       on success the callback is given the reply that was matched (not the request).
   P6  Failover        a query fails with ETIMEDOUT / a send error only after every configured server from its
                       starting server on has been tried; the request sent to server k is signed with k's secret.
   P7  Resources       when no query is in flight all identifier slots and timers are free and at most
                       thr_sockets_max sockets exist per thread and family; after radius_client_destroy() no socket,
                       timer or query block of the client is left and every query in flight got EINTR.
   P8  Armed           while a query is in flight its retransmission timer is armed (a disarmed timer with a lost
                       reply is a query that never completes);  liveness: under fairness of the pool thread and
                       its timers every query eventually completes (Termination).
   P9  NasIdentifier   an Access-Request leaves the client with the configured NAS-Identifier.
   P10 MemorySafe      no path touches a socket / task / query after it was freed, no NULL dereference on a failing
                       socket() (observed by ASan / signals in the driver, modelled as the flag st.unsafe).
   P11 BufferUnits     the client's sockets get the send / receive buffer sizes of the settings, which are in kilobytes
                       (a 256-byte receive buffer makes the kernel drop back-to-back replies).
   The invariants are PCompleteOnce, PNoTxAfterDone, PTxBound (+ IDuration in MC_X02), PSlots, PMatch, PDelivered, PFailover,
   PQuiescent, PDestroyed, PArmed, PNas, PMemSafe, PBufUnits; the liveness formula is Termination in MC_X02.
   "Callback on the owning thread", "exactly the predicted transmissions / timer values / sockets" and "no leak" (ledger
   of query blocks, timerfds, sockets) are enforced line by line on the real client by X02Trace.

   The module is a state machine shaped like the implementation: one handler per entry point of the client on the
   pool thread (query message, timer expiry, datagram arrival, destroy message) and per API call (query, cancel),
   written as a pure function  state -> [st, o, e, pts, used]  where o is the sequence of externally visible
   effects of that run (socket creation, timer programming, sendto, user callback) in program order.  The model
   checker (MC_X02) ignores o; the trace validator (X02Trace) requires the real client to produce exactly o.

   Deviations of the unchanged code from the properties are NAMED switches (the set dv given to a handler): with a
   name in dv the handler follows the code as it is, without it the handler follows the repaired design
   (proposed_fixes/X02-*.diff).  MC_X02 with Dev = {} satisfies every invariant; each name alone breaks one. *)
EXTENDS Naturals, Integers, Sequences, FiniteSets, TLC

CONSTANTS NIds,     \* identifiers per socket (real code: 256)
          Ident     \* TRUE: datagrams are numbered (trace validation); FALSE: anonymous datagrams (model checking)

None == 0
EINTR == 4   EAGAIN == 11   EEXIST == 17   EDESTADDRREQ == 89   ETIMEDOUT == 110   ECONNREFUSED == 111   ECANCELED == 125

DvReply      == "reply-not-delivered-to-callback"
DvNas        == "nas-identifier-not-added"
DvNoFoTime   == "no-failover-after-timeout"
DvNoFoStart  == "no-failover-when-first-send-fails"
DvResign     == "failover-resign-fails-eexist"
DvCancel     == "cancel-leaves-query-retransmitting"
DvReqCode    == "request-code-datagram-accepted-without-authenticator"
DvZeroRt     == "zero-retransmission-time-disarms-timer"
DvSockNull   == "socket-create-failure-null-deref"
DvSelfFree   == "socket-freed-inside-its-receive-callback"
DvDestroyHalf == "destroy-frees-every-other-socket"
DvDestroyTmr == "destroy-leaves-timers-of-pending-queries"
DvBufUnits   == "socket-buffer-kilobytes-passed-as-bytes"
AllDevs == {DvReply, DvNas, DvNoFoTime, DvNoFoStart, DvResign, DvCancel, DvReqCode, DvZeroRt, DvSockNull, DvSelfFree,
            DvDestroyHalf, DvDestroyTmr, DvBufUnits}

Min(S) == CHOOSE x \in S : \A y \in S : x <= y
EmptyMap == [x \in {} |-> 0]
MapDel(f, k) == [x \in (DOMAIN f) \ {k} |-> f[x]]
MapPut(f, k, v) == [x \in (DOMAIN f) \cup {k} |-> IF x = k THEN v ELSE f[x]]

(* ---------------------------------------------------------------- state *)
Fams == {4, 6}
NewQuery(thr, idany, id, nonce, pwd) ==
  [st |-> "queued", thr |-> thr, idany |-> idany, id |-> id, nonce |-> nonce, pwd |-> pwd,
   s |-> None, fam |-> 4, k |-> 1, rc |-> 0, rt |-> 0, rd |-> 0, txc |-> 0, txall |-> 0, tried |-> {},
   signed |-> FALSE, sig |-> 0, canc |-> FALSE, cbs |-> 0, res |-> -1, match |-> 0, deliv |-> FALSE]
NewSock(u) == [u |-> u, slot |-> EmptyMap, tm |-> EmptyMap, qidx |-> 0, cnt |-> 0]
InitState(smin, smax, nas, nthr) ==
  [cfg |-> [smin |-> smin, smax |-> smax, nas |-> nas, nthr |-> nthr, rcvkb |-> 256, sndkb |-> 128],
   srv |-> << >>, unreach |-> << >>, sockfail |-> 0,
   qs |-> EmptyMap,
   sk |-> [key \in (0..(nthr - 1)) \X Fams |-> << >>],
   msgs |-> [t \in 0..(nthr - 1) |-> << >>],
   netq |-> {}, netr |-> {}, nextu |-> 1, nextx |-> 1,
   up |-> TRUE, leaktm |-> 0, leaksk |-> 0,
   unsafe |-> {}, txac |-> FALSE, offarm |-> FALSE, nasbad |-> FALSE, bufbad |-> FALSE]
NewServer(fam, irt, mrt, mrd, mrc, sec) == [fam |-> fam, irt |-> irt, mrt |-> mrt, mrd |-> mrd, mrc |-> mrc, sec |-> sec]

(* jitter: radius_client_rnd_factor(data) = +-(data / k), k in 1..127.  J = [def |-> class, map |-> <<<<d, class>>...>>] *)
JClass(J, d) == IF \E n \in 1..Len(J.map) : J.map[n][1] = d
                THEN J.map[CHOOSE n \in 1..Len(J.map) : J.map[n][1] = d][2] ELSE J.def
Rnd(J, d) == LET c == JClass(J, d) IN IF c = "zero" THEN 0 ELSE IF c = "pos1" THEN d ELSE 0 - d

(* ---------------------------------------------------------------- results of (parts of) handlers *)
Mk(s, o, e, p, u) == [st |-> s, o |-> o, e |-> e, pts |-> p, used |-> u]
Then(r1, r2) == [st |-> r2.st, o |-> r1.o \o r2.o, e |-> r2.e, pts |-> r1.pts \cup r2.pts, used |-> r1.used \cup r2.used]
Ok(s) == Mk(s, << >>, 0, {}, {})
NoRep == [d |-> 0, code |-> 1]

OTmr(t, s, f, i, op, ms, had) == [e |-> "tmr", t |-> t, s |-> s, fam |-> f, i |-> i, op |-> op, ms |-> ms, had |-> had]

(* radius_client_socket_free() of the LAST socket of a list that holds no query (the only case reached from unlink) *)
SockFreeLast(st, t, f) ==
  LET key == <<t, f>>  L == st.sk[key]  s == Len(L) IN
  Mk([st EXCEPT !.sk[key] = SubSeq(L, 1, s - 1)],
     << [e |-> "skt.close", t |-> t, u |-> L[s].u, s |-> s, fam |-> f] >>, 0, {}, {})

(* radius_client_query_unlink_skt() *)
Unlink(st, q) ==
  LET Q == st.qs[q] IN
  IF Q.s = None THEN Ok(st)
  ELSE LET t == Q.thr  f == Q.fam  s == Q.s  i == Q.id  key == <<t, f>>
           sock == st.sk[key][s]
           had == IF i \in DOMAIN sock.tm THEN 1 ELSE 0
           sock1 == [sock EXCEPT !.slot = MapDel(@, i), !.tm = MapDel(@, i), !.cnt = @ - 1]
           st1 == [st EXCEPT !.qs[q].s = None, !.sk[key][s] = sock1]
           r1 == Mk(st1, << OTmr(t, s, f, i, "del", 0, had) >>, 0, {}, {})
       IN IF sock1.cnt = 0 /\ Len(st.sk[key]) > st.cfg.smin /\ s = Len(st.sk[key])
          THEN Then(r1, SockFreeLast(st1, t, f))
          ELSE r1

(* radius_client_query_done(): unlink, then the user callback unless cancelled, then the query block is freed *)
Done(st, q, err, rep, dv) ==
  LET r1 == Unlink(st, q)
      Q == r1.st.qs[q] IN
  IF Q.canc
  THEN Then(r1, Ok([r1.st EXCEPT !.qs[q].st = "done"]))
  ELSE LET lost == err = 0 /\ DvReply \in dv
           dd == IF err = 0 /\ ~lost THEN rep.d ELSE 0
           cc == IF err = 0 /\ ~lost THEN rep.code ELSE 1
           st2 == [r1.st EXCEPT !.qs[q].st = "done", !.qs[q].cbs = @ + 1, !.qs[q].res = err,
                                !.qs[q].match = IF err = 0 THEN rep ELSE 0,
                                !.qs[q].deliv = (err = 0 /\ ~lost)]
       IN Then(r1, Mk(st2, << [e |-> "cb", t |-> Q.thr, q |-> q, err |-> err, d |-> dd, code |-> cc] >>, 0,
                      IF err = 0 THEN {DvReply} ELSE {}, IF lost THEN {DvReply} ELSE {}))

(* radius_client_send(): arm the timer with the current retransmission time, sendto(), disarm on failure *)
Send(st, q, dv) ==
  LET Q == st.qs[q]  t == Q.thr  f == Q.fam  s == Q.s  i == Q.id  k == Q.k  key == <<t, f>>
      sock == st.sk[key][s]
      x == IF Ident THEN st.nextx ELSE 0
      err == st.unreach[k]
      nas == IF st.cfg.nas = 1 /\ DvNas \notin dv THEN 1 ELSE 0
      oen == OTmr(t, s, f, i, "en", Q.rt, 1)
      otx == [e |-> "tx", t |-> t, x |-> x, u |-> sock.u, s |-> s, fam |-> f, k |-> k, i |-> i, nonce |-> Q.nonce,
              nas |-> nas, sig |-> Q.sig, pwd |-> IF Q.pwd = 1 THEN 1 ELSE -1, rc |-> err]
      st1 == [st EXCEPT !.nextx = IF Ident THEN @ + 1 ELSE @, !.qs[q].txc = @ + 1, !.qs[q].txall = @ + 1, !.qs[q].tried = @ \cup {k},
                        !.txac = @ \/ Q.canc \/ Q.st # "active",
                        !.nasbad = @ \/ (st.cfg.nas = 1 /\ nas = 0)]
      pn == IF st.cfg.nas = 1 THEN {DvNas} ELSE {}
      un == IF st.cfg.nas = 1 /\ DvNas \in dv THEN {DvNas} ELSE {}
  IN IF err # 0
     THEN Mk([st1 EXCEPT !.sk[key][s].tm[i] = 0], << oen, otx, OTmr(t, s, f, i, "dis", 0, 1) >>, err, pn, un)
     ELSE Mk([st1 EXCEPT !.sk[key][s].tm[i] = Q.rt,
                         !.offarm = @ \/ Q.rt = 0,
                         !.netq = @ \cup {[x |-> x, k |-> k, u |-> sock.u, id |-> i, nonce |-> Q.nonce, sec |-> Q.sig]}],
             << oen, otx >>, 0, pn \cup (IF Q.rt = 0 THEN {DvZeroRt} ELSE {}), un \cup (IF Q.rt = 0 THEN {DvZeroRt} ELSE {}))

(* sign_and_send: of radius_client_send_new(): sign for the current server, fresh retransmission state, send *)
SignSend(st, q, J, dv) ==
  LET Q == st.qs[q]  S == st.srv[Q.k] IN
  IF Q.signed /\ DvResign \in dv
  THEN Mk(st, << >>, EEXIST, {DvResign}, {DvResign})   \* radius_pkt_sign(add_msg_authr = 1) finds its own attribute
  ELSE LET rt0 == S.irt - Rnd(J, S.irt)
           rt == IF S.mrt # 0 /\ rt0 > S.mrt THEN S.mrt - Rnd(J, S.mrt) ELSE rt0
           st1 == [st EXCEPT !.qs[q].signed = TRUE, !.qs[q].sig = S.sec, !.qs[q].rt = rt,
                             !.qs[q].rc = 0, !.qs[q].rd = 0, !.qs[q].txc = 0]
           r == Send(st1, q, dv)
       IN [r EXCEPT !.pts = @ \cup (IF Q.signed THEN {DvResign} ELSE {})]

(* first free identifier of a socket, searched from queries_index, wrapping *)
FreeIdFrom(sock) ==
  LET hi == {i \in sock.qidx..(NIds - 1) : i \notin DOMAIN sock.slot} IN
  IF hi # {} THEN Min(hi) ELSE Min({i \in 0..(sock.qidx - 1) : i \notin DOMAIN sock.slot})

(* link the query to (socket s, identifier id) and create its timer *)
Attach(st, q, f, s, id, o0) ==
  LET Q == st.qs[q]  t == Q.thr  key == <<t, f>>  sock == st.sk[key][s]  irt == st.srv[Q.k].irt
      sock1 == [sock EXCEPT !.slot = MapPut(@, id, q), !.cnt = @ + 1, !.tm = MapPut(@, id, irt),
                            !.qidx = IF Q.idany THEN id + 1 ELSE @]
      st1 == [st EXCEPT !.sk[key][s] = sock1, !.qs[q].s = s, !.qs[q].fam = f, !.qs[q].id = id]
  IN Mk(st1, o0 \o << OTmr(t, s, f, id, "add", irt, 1) >>, 0, {}, {})

(* slot allocation of radius_client_send_new(), incl. radius_client_socket_alloc() *)
Link(st, q, f, dv) ==
  LET Q == st.qs[q]  t == Q.thr  key == <<t, f>>  L == st.sk[key]
      cand == IF Q.idany THEN {s \in 1..Len(L) : L[s].cnt < NIds}
              ELSE {s \in 1..Len(L) : Q.id \notin DOMAIN L[s].slot}
  IN IF cand # {}
     THEN LET s == Min(cand) IN Attach(st, q, f, s, IF Q.idany THEN FreeIdFrom(L[s]) ELSE Q.id, << >>)
     ELSE IF Len(L) >= st.cfg.smax THEN Mk(st, << >>, EAGAIN, {}, {})
     ELSE IF st.sockfail # 0
     THEN Mk([st EXCEPT !.unsafe = IF DvSockNull \in dv THEN @ \cup {"null-deref"} ELSE @],
             << [e |-> "skt.new", t |-> t, u |-> 0, fam |-> f, rc |-> st.sockfail],
                [e |-> "maycrash", t |-> t, dev |-> DvSockNull] >>,
             st.sockfail, {DvSockNull}, IF DvSockNull \in dv THEN {DvSockNull} ELSE {})
     ELSE LET u == st.nextu
              bad == DvBufUnits \in dv
              mul == IF bad THEN 1 ELSE 1024       \* the settings are documented in kilobytes
              st1 == [st EXCEPT !.nextu = @ + 1, !.sk[key] = Append(@, NewSock(u)), !.bufbad = @ \/ bad]
              r == Attach(st1, q, f, Len(L) + 1, IF Q.idany THEN 0 ELSE Q.id,
                    << [e |-> "skt.new", t |-> t, u |-> u, fam |-> f, rc |-> 0],
                       [e |-> "skt.buf", t |-> t, u |-> u, opt |-> "snd", val |-> st.cfg.sndkb * mul],
                       [e |-> "skt.buf", t |-> t, u |-> u, opt |-> "rcv", val |-> st.cfg.rcvkb * mul] >>)
          IN [r EXCEPT !.pts = @ \cup {DvBufUnits}, !.used = @ \cup (IF bad THEN {DvBufUnits} ELSE {})]

(* radius_client_send_new() *)
SendNew(st, q, J, dv) ==
  LET Q == st.qs[q]  NS == Len(st.srv) IN
  IF NS = 0 THEN Mk(st, << >>, EDESTADDRREQ, {}, {})
  ELSE IF Q.k > NS THEN Mk(st, << >>, ECONNREFUSED, {}, {})
  ELSE LET f == st.srv[Q.k].fam IN
       IF Q.s # None /\ Q.fam = f THEN SignSend(st, q, J, dv)
       ELSE LET r1 == Unlink(st, q)
                r2 == Then(r1, Link(r1.st, q, f, dv))
            IN IF r2.e # 0 THEN r2 ELSE Then(r2, SignSend(r2.st, q, J, dv))

(* "while ((cur_srv_idx + 1) < cli_srv_count && 0 != error) { cur_srv_idx ++; error = send_new(); }" *)
RECURSIVE FailLoop(_, _, _, _)
FailLoop(r, q, J, dv) ==
  IF r.e # 0 /\ r.st.qs[q].k + 1 <= Len(r.st.srv)
  THEN LET st1 == [r.st EXCEPT !.qs[q].k = @ + 1]
       IN FailLoop(Then(r, SendNew(st1, q, J, dv)), q, J, dv)
  ELSE r
MoreServers(st, q) == st.qs[q].k + 1 <= Len(st.srv)

(* ---------------------------------------------------------------- handlers (pool thread) *)
(* radius_client_query_tpt_msg_cb(): the message posted by radius_client_query() runs on thread t *)
HStart(st, t, J, dv) ==
  LET q == Head(st.msgs[t])
      st0 == [st EXCEPT !.msgs[t] = Tail(@), !.qs[q].st = "active"]
      Q == st0.qs[q]
      pc == IF Q.canc THEN {DvCancel} ELSE {} IN
  IF Q.canc /\ DvCancel \notin dv
  THEN Mk([st0 EXCEPT !.qs[q].st = "done"], << >>, 0, pc, {})
  ELSE LET r1 == SendNew(st0, q, J, dv)
           more == r1.e # 0 /\ MoreServers(r1.st, q)
           r2 == IF more /\ DvNoFoStart \notin dv THEN FailLoop(r1, q, J, dv) ELSE r1
           r3 == IF r2.e # 0 THEN Then(r2, Done(r2.st, q, r2.e, NoRep, dv)) ELSE r2
       IN [r3 EXCEPT !.e = 0,
                     !.pts = @ \cup pc \cup (IF more THEN {DvNoFoStart} ELSE {}),
                     !.used = @ \cup pc \cup (IF more /\ DvNoFoStart \in dv THEN {DvNoFoStart} ELSE {})]

(* radius_client_query_timeout_cb(): the timer of (socket s, identifier i) of thread t and family f fired *)
FireEnabled(st, t, f, s, i) ==
  /\ s \in 1..Len(st.sk[<<t, f>>])
  /\ i \in DOMAIN st.sk[<<t, f>>][s].tm
  /\ st.sk[<<t, f>>][s].tm[i] > 0
HFire(st, t, f, s, i, J, dv) ==
  LET key == <<t, f>>
      st0 == [st EXCEPT !.sk[key][s].tm[i] = 0]
      odis == << OTmr(t, s, f, i, "dis", 0, 1) >>
      q == st.sk[key][s].slot[i]
      Q == st.qs[q]  S == st.srv[Q.k]
      rc1 == Q.rc + 1
      rd1 == Q.rd + Q.rt
      st1 == [st0 EXCEPT !.qs[q].rc = rc1, !.qs[q].rd = rd1]
      rtA == (2 * Q.rt) - Rnd(J, Q.rt)
      rtB == IF S.mrt # 0 /\ rtA > S.mrt THEN S.mrt - Rnd(J, S.mrt) ELSE rtA
      clamp == S.mrd # 0 /\ (rd1 + rtB) >= S.mrd
      rtC == IF clamp THEN S.mrd - rd1 ELSE rtB
      exhausted == \/ (S.mrc # 0 /\ rc1 >= S.mrc)
                   \/ (S.mrd # 0 /\ rd1 >= S.mrd)
                   \/ (clamp /\ rtC < S.irt)
      more == MoreServers(st1, q)
      r1 == IF exhausted
            THEN Mk(st1, odis, ETIMEDOUT, IF more THEN {DvNoFoTime} ELSE {}, IF more /\ DvNoFoTime \in dv THEN {DvNoFoTime} ELSE {})
            ELSE Then(Mk(st1, odis, 0, {}, {}), Send([st1 EXCEPT !.qs[q].rt = rtC], q, dv))
      r2 == IF r1.e # 0 /\ ~(exhausted /\ DvNoFoTime \in dv) THEN FailLoop(r1, q, J, dv) ELSE r1
      r3 == IF r2.e # 0 THEN Then(r2, Done(r2.st, q, r2.e, NoRep, dv)) ELSE r2
  IN [r3 EXCEPT !.e = 0]

(* radius_client_recv_cb(): datagram rep was read from socket s of thread t / family f *)
HRecv(st, t, f, s, rep, dv) ==
  LET key == <<t, f>>  sock == st.sk[key][s]
      st0 == IF Ident THEN [st EXCEPT !.netr = @ \ {rep}] ELSE st IN
  IF ~rep.wf \/ rep.id \notin DOMAIN sock.slot THEN Ok(st0)
  ELSE LET q == sock.slot[rep.id]  Q == st.qs[q]  S == st.srv[Q.k]
           unauth == rep.code \in {1, 13}
           authok == rep.nonce = Q.nonce /\ rep.sec = S.sec /\ rep.ok
           match == rep.src = Q.k /\ (IF unauth THEN DvReqCode \in dv ELSE authok)
           p1 == IF rep.src = Q.k /\ unauth THEN {DvReqCode} ELSE {}
           u1 == IF rep.src = Q.k /\ unauth /\ DvReqCode \in dv THEN {DvReqCode} ELSE {}
       IN IF ~match THEN Mk(st0, << >>, 0, p1, u1)
          ELSE LET r == Done(st0, q, 0, rep, dv)
                   selffree == Len(r.st.sk[key]) < Len(st.sk[key])  \* the socket whose receive task is running was freed
                   r2 == IF selffree
                         THEN Then(r, Mk([r.st EXCEPT !.unsafe = IF DvSelfFree \in dv THEN @ \cup {"use-after-free"} ELSE @],
                                         << [e |-> "maycrash", t |-> t, dev |-> DvSelfFree] >>, 0, {DvSelfFree},
                                         IF DvSelfFree \in dv THEN {DvSelfFree} ELSE {}))
                         ELSE r
               IN [r2 EXCEPT !.pts = @ \cup p1, !.used = @ \cup u1]

(* radius_client_query_cancel() called on the owning thread *)
CancelEnabled(st, q) == q \in DOMAIN st.qs /\ st.qs[q].st \in {"queued", "active"} /\ ~st.qs[q].canc
HCancel(st, q, dv) ==
  LET Q == st.qs[q]
      st1 == [st EXCEPT !.qs[q].canc = TRUE] IN
  IF Q.st = "queued" THEN Ok(st1)                      \* dropped when its message runs
  ELSE IF DvCancel \in dv THEN Mk(st1, << >>, 0, {DvCancel}, {DvCancel})
  ELSE LET r == Done(st1, q, ECANCELED, NoRep, dv) IN [r EXCEPT !.pts = @ \cup {DvCancel}]

(* radius_client_destroy_tpt_msg_cb() on thread t: free the thread's sockets, completing their queries with EINTR *)
RECURSIVE SortedIds(_)
SortedIds(S) == IF S = {} THEN << >> ELSE LET m == Min(S) IN << m >> \o SortedIds(S \ {m})
RECURSIVE DestroyQueries(_, _, _, _, _, _)
DestroyQueries(r, ids, sock, t, fs, dv) ==     \* fs = <<f, s>>
  IF ids = << >> THEN r
  ELSE LET i == Head(ids)  q == sock.slot[i]
           keep == DvDestroyTmr \in dv
           otm == IF keep THEN << >> ELSE << OTmr(t, fs[2], fs[1], i, "del", 0, 1) >>
           st1 == [r.st EXCEPT !.qs[q].s = None, !.leaktm = IF keep THEN @ + 1 ELSE @]
           r1 == Then(r, Mk(st1, otm, 0, {DvDestroyTmr}, IF keep THEN {DvDestroyTmr} ELSE {}))
       IN DestroyQueries(Then(r1, Done(r1.st, q, EINTR, NoRep, dv)), Tail(ids), sock, t, fs, dv)
RECURSIVE DestroySocks(_, _, _, _, _, _)
DestroySocks(r, L, s, n, tf, dv) ==           \* frees sockets s..n of the list L (original positions), tf = <<t, f>>
  IF s > n THEN r
  ELSE LET sock == L[s]
           r1 == Then(r, Mk(r.st, << [e |-> "skt.close", t |-> tf[1], u |-> sock.u, s |-> s, fam |-> tf[2]] >>, 0, {}, {}))
           r2 == DestroyQueries(r1, SortedIds(DOMAIN sock.slot), sock, tf[1], <<tf[2], s>>, dv)
       IN DestroySocks(r2, L, s + 1, n, tf, dv)
DestroyFam(r, t, f, dv) ==
  LET key == <<t, f>>  L == r.st.sk[key]  n == Len(L)
      half == DvDestroyHalf \in dv /\ n >= 2
      nfree == IF half THEN (n + 1) \div 2 ELSE n         \* "for (i = 0; i < skt_count; i ++)" while skt_count shrinks
      r1 == DestroySocks(r, L, 1, nfree, key, dv)
      st2 == [r1.st EXCEPT !.sk[key] = SubSeq(L, nfree + 1, n), !.leaksk = @ + (n - nfree)]
  IN Then(r1, Mk(st2, << >>, 0, IF n >= 2 THEN {DvDestroyHalf} ELSE {}, IF half THEN {DvDestroyHalf} ELSE {}))
HDestroyThr(st, t, dv) == DestroyFam(DestroyFam(Ok(st), t, 4, dv), t, 6, dv)

(* ---------------------------------------------------------------- API calls and environment *)
Submit(st, q, Q) == [st EXCEPT !.qs = MapPut(@, q, Q), !.msgs[Q.thr] = Append(@, q)]

ReplyKinds == {"good", "badauth", "wrongsecret", "wrongid", "wrongsrc", "reqcode", "stcode", "malformed", "short", "reject"}
(* the datagram a server (or somebody else) produces from request r *)
MkReply(st, r, kind, d, u) ==
  [d |-> d, u |-> u,
   id |-> IF kind = "wrongid" THEN (r.id + 1) % NIds ELSE r.id,
   nonce |-> r.nonce,
   sec |-> IF kind = "wrongsecret" THEN 0 ELSE st.srv[r.k].sec,
   src |-> IF kind = "wrongsrc" THEN 0 ELSE r.k,
   code |-> IF kind = "reqcode" THEN 1 ELSE IF kind = "stcode" THEN 13 ELSE IF kind = "reject" THEN 3 ELSE 2,
   ok |-> kind \notin {"badauth", "reqcode", "stcode"},
   wf |-> kind \notin {"malformed", "short"}]

(* ---------------------------------------------------------------- state predicates (the properties) *)
Active(st) == {q \in DOMAIN st.qs : st.qs[q].st = "active"}
Pending(st) == {q \in DOMAIN st.qs : st.qs[q].st \in {"queued", "active"}}
Keys(st) == DOMAIN st.sk
RECURSIVE SumTm(_, _)
SumTm(L, n) == IF n = 0 THEN 0 ELSE Cardinality(DOMAIN L[n].tm) + SumTm(L, n - 1)
RECURSIVE SumKeys(_, _, _)
SumKeys(st, S, tm) == IF S = {} THEN 0
                      ELSE LET k == CHOOSE k \in S : TRUE IN
                           (IF tm THEN SumTm(st.sk[k], Len(st.sk[k])) ELSE Len(st.sk[k])) + SumKeys(st, S \ {k}, tm)
NTimers(st) == SumKeys(st, Keys(st), TRUE) + st.leaktm
NSocks(st) == SumKeys(st, Keys(st), FALSE)

PCompleteOnce(st) == /\ \A q \in DOMAIN st.qs : st.qs[q].cbs <= 1 /\ (st.qs[q].cbs = 1 => st.qs[q].st = "done")
PNoTxAfterDone(st) == ~st.txac
PTxBound(st) == \A q \in Active(st) : LET Q == st.qs[q] IN
                   Q.k <= Len(st.srv) => (st.srv[Q.k].mrc # 0 => Q.txc <= st.srv[Q.k].mrc)
PSlots(st) == st.up =>
  /\ \A key \in Keys(st) : \A s \in 1..Len(st.sk[key]) :
        LET sock == st.sk[key][s] IN
        /\ sock.cnt = Cardinality(DOMAIN sock.slot)
        /\ DOMAIN sock.tm = DOMAIN sock.slot
        /\ \A i \in DOMAIN sock.slot :
              LET q == sock.slot[i] IN
              /\ q \in DOMAIN st.qs /\ st.qs[q].st = "active"
              /\ st.qs[q].s = s /\ st.qs[q].id = i /\ <<st.qs[q].thr, st.qs[q].fam>> = key
  /\ \A q \in DOMAIN st.qs : LET Q == st.qs[q] IN
        Q.s # None => /\ Q.st = "active"
                      /\ Q.s <= Len(st.sk[<<Q.thr, Q.fam>>])
                      /\ Q.id \in DOMAIN st.sk[<<Q.thr, Q.fam>>][Q.s].slot
                      /\ st.sk[<<Q.thr, Q.fam>>][Q.s].slot[Q.id] = q
  /\ \A key \in Keys(st) : Len(st.sk[key]) <= st.cfg.smax
PArmed(st) == /\ ~st.offarm
              /\ \A q \in Active(st) : LET Q == st.qs[q] IN
                   (st.up /\ Q.s # None) => st.sk[<<Q.thr, Q.fam>>][Q.s].tm[Q.id] > 0
PMatch(st) == \A q \in DOMAIN st.qs : LET Q == st.qs[q] IN
                 (Q.st = "done" /\ Q.res = 0) =>
                    LET m == Q.match IN
                    /\ m.ok /\ m.wf /\ m.code \notin {1, 13}
                    /\ m.nonce = Q.nonce /\ m.src = Q.k /\ m.sec = st.srv[Q.k].sec
PDelivered(st) == \A q \in DOMAIN st.qs : LET Q == st.qs[q] IN (Q.st = "done" /\ Q.res = 0) => Q.deliv
LocalErrors == {0, EINTR, EAGAIN, 24, EDESTADDRREQ, ECONNREFUSED, ECANCELED}   \* 24 = EMFILE (socket() failed)
PFailover(st) == \A q \in DOMAIN st.qs : LET Q == st.qs[q] IN
                    (Q.st = "done" /\ Q.cbs = 1 /\ Q.res \notin LocalErrors) => Q.tried = 1..Len(st.srv)
PQuiescent(st) == (Pending(st) = {}) =>
                     /\ NTimers(st) = 0
                     /\ \A key \in Keys(st) : \A s \in 1..Len(st.sk[key]) : st.sk[key][s].cnt = 0
PDestroyed(st) == ~st.up => (NSocks(st) = 0 /\ NTimers(st) = 0 /\ Active(st) = {})
PMemSafe(st) == st.unsafe = {}
PNas(st) == ~st.nasbad
PBufUnits(st) == ~st.bufbad
=============================================================================
