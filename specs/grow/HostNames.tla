------------------------------ MODULE HostNames ------------------------------
(* The host name list  /repo/include/net/hostname_list.h  (growth task X09): an ordered set of host names with an
   "any name" flag; the HTTP server keeps one per server and per bind and asks it whether the Host of a request is
   local.  Single threaded object; the list owns a pointer array and one block per name.

   Properties  (what a user of hostname_list_* relies on, for every history of calls and allocation failures):
   HN1 set        the list never holds two names that are equal without regard to ASCII case, and never the name "*";
                  hostname_list_add(n) = 0 leaves n present; adding a name that is present changes nothing; names
                  keep their insertion order and spelling.                                       [HnInv, AddPost]
   HN2 matching   hostname_list_find(n) = 0 iff some stored name has the same length as n and equals it without
                  regard to ASCII case, ENOENT otherwise: whole-name matching only - no wildcard pattern, no
                  leading-dot suffix rule; "*" is a flag, not a pattern ("*.example.org" is an ordinary name).
                                                                                                 [FindPost]
   HN3 any        hostname_list_check_any() = 0 iff "*" was added to this list (or to the list it was cloned from);
                  hostname_list_check(n) = 0 iff check_any() = 0 or find(n) = 0.                 [AnyPost, CheckPost]
                  DEVIATION "anyinv": the shipped check_any() answers ENOENT when the flag is SET and 0 when it is
                  clear, so check() accepts every name on a list without "*" and falls back to the listed names on a
                  list with "*" (finding X09 hostname_list_check_any:inverted).
   HN4 failure    NULL list / NULL name / size 0 => EINVAL; an allocation failure inside add() => ENOMEM and the set
                  of names and the flag are unchanged (the pointer array may have grown).        [AddPost]
   HN5 clone      hostname_list_clone() returns an independent list with the same names, order and flag: later calls
                  on either list do not change the other; on allocation failure it returns NULL.  [ClonePost]
   HN6 ownership  the blocks owned by the library are exactly: one per heap list, one pointer array per list that ever
                  stored a name (or was cloned), one per stored name; free/deinit release all of them, a failed call
                  keeps no block.                                                                [MemOK]
                  DEVIATION "cloneleak": when the malloc of the k-th name (k >= 2) fails, the shipped clone frees the
                  array and the list but not the k-1 names already copied (finding X09 hostname_list_clone:leak).

   Object o: [names: sequence of strings, alloc: capacity of the pointer array, any: 0/1, arr: array allocated]
   or HnDead.  `fail` = k: the k-th allocation made by the call fails (0: none).  Arguments "@null" / "@empty" stand for
   a NULL name pointer / size 0.  dev: set of deviation names switched on (shipped code = {"anyinv", "cloneleak"}). *)
EXTENDS Integers, Sequences, FiniteSets
CONSTANTS PREALLOC      \* HOSTNAME_PREALLOC

HnENOENT == 2
HnENOMEM == 12
HnEINVAL == 22
HnDead == [dead |-> 1]
HnIsObj(o) == "names" \in DOMAIN o
HnBadArg(n) == n \in {"@null", "@empty"}

HnUp == << "A","B","C","D","E","F","G","H","I","J","K","L","M","N","O","P","Q","R","S","T","U","V","W","X","Y","Z" >>
HnLo == << "a","b","c","d","e","f","g","h","i","j","k","l","m","n","o","p","q","r","s","t","u","v","w","x","y","z" >>
HnLower1(ch) == LET I == {i \in 1..26 : HnUp[i] = ch} IN IF I = {} THEN ch ELSE HnLo[CHOOSE i \in I : TRUE]
RECURSIVE HnFold(_)
HnFold(s) == IF s = "" THEN "" ELSE HnLower1(SubSeq(s, 1, 1)) \o HnFold(SubSeq(s, 2, Len(s)))
HnSame(a, b) == Len(a) = Len(b) /\ HnFold(a) = HnFold(b)

HnHas(o, n) == {i \in 1..Len(o.names) : HnSame(o.names[i], n)} # {}
HnBlocks(o, heap) == IF HnIsObj(o) THEN (IF heap THEN 1 ELSE 0) + (IF o.arr THEN 1 ELSE 0) + Len(o.names) ELSE 0

HnNew(kind, fail) ==      \* kind "h": hostname_list_alloc (one allocation), "e": caller owned struct + hostname_list_init
  IF kind = "h" /\ fail = 1 THEN [o |-> HnDead, rc |-> HnENOMEM]
  ELSE [o |-> [names |-> << >>, alloc |-> 0, any |-> 0, arr |-> FALSE], rc |-> 0]

HnGrows(o) == ~(o.arr /\ o.alloc > Len(o.names) /\ o.alloc <= Len(o.names) + PREALLOC)
HnNewAlloc(o) == ((Len(o.names) \div PREALLOC) + 1) * PREALLOC
HnAdd(o, n, fail) ==
  IF HnBadArg(n) THEN [o |-> o, rc |-> HnEINVAL]
  ELSE IF n = "*" THEN [o |-> [o EXCEPT !.any = 1], rc |-> 0]
  ELSE IF HnHas(o, n) THEN [o |-> o, rc |-> 0]
  ELSE LET g == HnGrows(o)
           o1 == IF g THEN [o EXCEPT !.alloc = HnNewAlloc(o), !.arr = TRUE] ELSE o
           nameAlloc == IF g THEN 2 ELSE 1 IN
       IF g /\ fail = 1 THEN [o |-> o, rc |-> HnENOMEM]
       ELSE IF fail = nameAlloc THEN [o |-> o1, rc |-> HnENOMEM]
       ELSE [o |-> [o1 EXCEPT !.names = Append(@, n)], rc |-> 0]

HnFind(o, n) == IF HnBadArg(n) THEN HnEINVAL ELSE IF HnHas(o, n) THEN 0 ELSE HnENOENT
HnCheckAny(o, dev) ==
  IF "anyinv" \in dev THEN (IF o.any # 0 THEN HnENOENT ELSE 0)
  ELSE (IF o.any # 0 THEN 0 ELSE HnENOENT)
HnCheck(o, n, dev) == IF HnBadArg(n) THEN HnEINVAL ELSE IF HnCheckAny(o, dev) = 0 THEN 0 ELSE HnFind(o, n)

(* clone: allocation 1 = the list, 2 = the pointer array, 2 + k = the k-th name.  leak: blocks lost by the call *)
HnClone(o, fail, dev) ==
  IF fail >= 1 /\ fail <= 2 + Len(o.names)
  THEN [o |-> HnDead, rc |-> HnENOMEM, leak |-> IF "cloneleak" \in dev /\ fail > 3 THEN fail - 3 ELSE 0]
  ELSE [o |-> [o EXCEPT !.arr = TRUE], rc |-> 0, leak |-> 0]

(* ---- state predicates *)
HnInv(o) ==
  HnIsObj(o) =>
    /\ \A i, j \in 1..Len(o.names) : i # j => ~HnSame(o.names[i], o.names[j])
    /\ \A i \in 1..Len(o.names) : o.names[i] # "*" /\ o.names[i] # ""
    /\ o.any \in {0, 1}
    /\ Len(o.names) <= o.alloc /\ (o.alloc > 0 => o.arr) /\ o.alloc % PREALLOC = 0
HnSet(o) == {HnFold(o.names[i]) : i \in 1..Len(o.names)}
=============================================================================
