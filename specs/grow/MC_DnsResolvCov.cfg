SPECIFICATION SpecC
CONSTANTS
  Names = {"a", "b"}
  Lookups = {1, 2}
  MaxId = 2
  MaxCyc = 3
  Fix = {"negdata", "queuedrx", "destroychain", "cancelfree", "errcb", "qcheck", "sendfail"}
  NSrv = 1
  Retry = 0
  NegTTL = 4
  MaxRep = 1
  MaxDup = 1
  MaxTick = 1
  MaxFail = 1
  MaxForge = 1
  WithDestroy = TRUE
  WithCancel = TRUE
  Shapes = {"A", "NX"}
INVARIANTS NotAllTaken
CHECK_DEADLOCK FALSE
