SPECIFICATION Spec
CONSTANTS
  Names = {"a", "b"}
  Lookups = {1, 2}
  MaxId = 2
  MaxCyc = 3
  Fix = {"negdata", "queuedrx", "destroychain", "cancelfree", "errcb", "qcheck", "sendfail"}
  NSrv = 2
  Retry = 1
  NegTTL = 4
  MaxRep = 1
  MaxDup = 0
  MaxTick = 1
  MaxFail = 0
  MaxForge = 0
  WithDestroy = TRUE
  WithCancel = TRUE
  Shapes = {"A", "NX", "FAIL", "NODATA", "CN", "CNA", "BAD"}
INVARIANTS NoViol NoCrash CbOnce Chain Entry Lookup TxBound Destroyed
CHECK_DEADLOCK FALSE
PROPERTIES Answered
