---------------------------- MODULE MC_DataCache ----------------------------
(* Exhaustive exploration of the data cache state machine (single thread, one step per API call / user write / clock
   tick).  Postconditions of every step are collected in bad; with Emit = TRUE every state is printed so that the
   rig can replay the behaviours on the real data_cache.c. *)
EXTENDS DataCache, TLC, Json
CONSTANTS NB, NK, MaxItems, Ivs, MaxNow, MaxRc, Emit
VARIABLES dc, now, ev, bad
vars == << dc, now, ev, bad >>
Keys == 0..(NK - 1)

KeysIn(S) == {S.it[s].key : s \in S.live}
\* DC1 / DC5
AddPost(e, S, S2) ==
  e.op = "dadd" =>
    IF e.k \in KeysIn(S) THEN S2 = S /\ e.rc = 0 /\ e.i \in S.live /\ S.it[e.i].key = e.k
    ELSE IF e.fail = 1 \/ Cardinality(S.live) >= MaxItems THEN S2 = S /\ e.rc = ENOMEM /\ e.i = NoItem
    ELSE /\ e.rc = 0 /\ e.i \notin S.live /\ S2.live = S.live \cup {e.i}
         /\ S2.it[e.i] = [key |-> e.k, vu |-> 0, upd |-> 0, rc |-> 0]
         /\ Head(S2.bl[e.k % NB]) = e.i
         /\ \A s \in S.live : S2.it[s] = S.it[s]
         /\ \A b \in 0..(NB - 1) : SelectSeq(S2.bl[b], LAMBDA x : x # e.i) = S.bl[b]
GetPost(e, S, S2) ==
  e.op = "dget" => /\ S2 = S
                   /\ IF e.k \in KeysIn(S) THEN e.rc = 0 /\ e.i \in S.live /\ S.it[e.i].key = e.k
                      ELSE e.rc = -1 /\ e.i = NoItem
\* DC2
CleanPost(e, S, S2, t) ==
  e.op = "dclean" =>
    IF t < S.nclean THEN S2 = S /\ e.freed = << >>
    ELSE LET keep == {s \in S.live : S.iv + S.it[s].vu > t \/ S.it[s].upd # 0} IN
         /\ S2.live = keep /\ DRangeOf(e.freed) = S.live \ keep /\ Len(e.freed) = Cardinality(S.live \ keep)
         /\ S2.nclean = t + S.iv
         /\ \A b \in 0..(NB - 1) : S2.bl[b] = SelectSeq(S.bl[b], LAMBDA x : x \in keep)
         /\ \A s \in keep : S2.it[s] = S.it[s]
\* DC3
Pairing(e, S, S2) ==
  (S.alive /\ e.op # "dnew") =>
    /\ Len(e.freed) = Cardinality(DRangeOf(e.freed)) /\ DRangeOf(e.freed) \subseteq S.live
    /\ S2.live = (S.live \ DRangeOf(e.freed)) \cup (IF e.op = "dadd" /\ e.rc = 0 THEN {e.i} ELSE {})
    /\ (e.op = "ddestroy" => S2.live = {})
    /\ (e.op \notin {"dfree", "dclean", "ddestroy"} => e.freed = << >>)
\* DC4
EnumPost(e, S, S2) ==
  e.op = "denum" =>
    /\ S2 = S /\ e.rc = 0 /\ Len(e.vis) = Cardinality(DRangeOf(e.vis))
    /\ (e.stop \notin S.live => DRangeOf(e.vis) = S.live)
    /\ (e.stop \in S.live => e.vis[Len(e.vis)] = e.stop)
    /\ e.vis = DPrefix(AllItems(S, 0), e.stop)
Viol(e, S, S2, t) ==
  (IF AddPost(e, S, S2) THEN {} ELSE {"AddPost"}) \cup (IF GetPost(e, S, S2) THEN {} ELSE {"GetPost"})
  \cup (IF CleanPost(e, S, S2, t) THEN {} ELSE {"CleanPost"}) \cup (IF Pairing(e, S, S2) THEN {} ELSE {"Pairing"})
  \cup (IF EnumPost(e, S, S2) THEN {} ELSE {"EnumPost"})

Step(e, S2) == /\ dc' = S2 /\ ev' = (IF Emit THEN e ELSE << >>) /\ bad' = bad \cup Viol(e, dc, S2, now)

Init == dc = DDead /\ ev = << >> /\ now = 0 /\ bad = {}      \* every behaviour starts with data_cache_create
DoNew(iv) == ~dc.alive /\ Step([op |-> "dnew", iv |-> iv, nb |-> NB, now |-> now, rc |-> 0], DNew(iv, NB, now)) /\ UNCHANGED now
DoAdd(k, fail) ==
  /\ dc.alive /\ LET r == DAdd(dc, k, fail = 1, MaxItems) IN
                 Step([op |-> "dadd", k |-> k, fail |-> fail, rc |-> r.rc, i |-> r.i, freed |-> r.freed], r.S)
  /\ UNCHANGED now
DoGet(k) == /\ dc.alive /\ LET r == DGet(dc, k) IN Step([op |-> "dget", k |-> k, rc |-> r.rc, i |-> r.i, freed |-> r.freed], r.S)
            /\ UNCHANGED now
DoGet0(k) == /\ dc.alive /\ LET r == DGetNoKey(dc) IN Step([op |-> "dget0", k |-> k, rc |-> r.rc, i |-> r.i, freed |-> r.freed], r.S)
             /\ UNCHANGED now
DoFree(i) == /\ dc.alive /\ LET r == DFree(dc, i) IN Step([op |-> "dfree", i |-> i, freed |-> r.freed], r.S) /\ UNCHANGED now
DoSet(i, vu, upd, inc) ==
  /\ dc.alive /\ i \in dc.live /\ dc.it[i].rc + inc <= MaxRc
  /\ Step([op |-> "dset", i |-> i, vu |-> vu, upd |-> upd, inc |-> inc, freed |-> << >>], DSet(dc, i, vu, upd, inc))
  /\ UNCHANGED now
DoClean == /\ dc.alive /\ LET r == DClean(dc, now) IN Step([op |-> "dclean", freed |-> r.freed], r.S) /\ UNCHANGED now
DoEnum(stop) ==
  /\ dc.alive /\ LET r == DEnum(dc, stop) IN Step([op |-> "denum", stop |-> stop, rc |-> r.rc, vis |-> r.vis, freed |-> << >>], dc)
  /\ UNCHANGED now
DoDestroy == /\ dc.alive /\ LET r == DDestroy(dc) IN Step([op |-> "ddestroy", freed |-> r.freed], r.S) /\ UNCHANGED now
DoTick == /\ dc.alive /\ now < MaxNow /\ now' = now + 1 /\ Step([op |-> "dtick", dt |-> 1, freed |-> << >>], dc)

Next ==
  \/ \E iv \in Ivs : DoNew(iv)
  \/ \E k \in Keys, fail \in {0, 1} : DoAdd(k, fail)
  \/ \E k \in Keys : DoGet(k) \/ DoGet0(k)
  \/ \E i \in 0..MaxItems : DoFree(i)
  \/ \E i \in 1..MaxItems, vu \in {now - 1, now, now + 1}, upd \in {0, 1}, inc \in {0, 1} : DoSet(i, vu, upd, inc)
  \/ DoClean \/ DoDestroy \/ DoTick
  \/ \E stop \in 0..MaxItems : DoEnum(stop)
Spec == Init /\ [][Next]_vars

(* random walks for the replay on the real code: ONE successor per step *)
CallsOf(o) ==
  CASE o = "dnew" -> {[op |-> o, a |-> iv, b |-> 0, c |-> 0, d |-> 0] : iv \in Ivs}
    [] o = "dadd" -> {[op |-> o, a |-> k, b |-> f, c |-> 0, d |-> 0] : k \in Keys, f \in {0, 0, 0, 1}}
    [] o \in {"dget", "dget0"} -> {[op |-> o, a |-> k, b |-> 0, c |-> 0, d |-> 0] : k \in Keys}
    [] o = "dfree" -> {[op |-> o, a |-> i, b |-> 0, c |-> 0, d |-> 0] : i \in 0..MaxItems}
    [] o = "dset" -> {[op |-> o, a |-> i, b |-> vu, c |-> u, d |-> inc] : i \in 1..MaxItems, vu \in {now - 1, now, now + 1}, u \in {0, 1}, inc \in {0, 1}}
    [] o = "denum" -> {[op |-> o, a |-> i, b |-> 0, c |-> 0, d |-> 0] : i \in 0..MaxItems}
    [] OTHER -> {[op |-> o, a |-> 0, b |-> 0, c |-> 0, d |-> 0]}
Do(c) ==
  CASE c.op = "dnew" -> DoNew(c.a)
    [] c.op = "dadd" -> DoAdd(c.a, c.b)
    [] c.op = "dget" -> DoGet(c.a)
    [] c.op = "dget0" -> DoGet0(c.a)
    [] c.op = "dfree" -> DoFree(c.a)
    [] c.op = "dset" -> DoSet(c.a, c.b, c.c, c.d)
    [] c.op = "dclean" -> DoClean
    [] c.op = "dtick" -> DoTick
    [] c.op = "denum" -> DoEnum(c.a)
    [] c.op = "ddestroy" -> DoDestroy
OpBag == << "dnew", "dadd", "dadd", "dadd", "dadd", "dget", "dget", "dget0", "dfree", "dset", "dset", "dset", "dset",
            "dclean", "dclean", "dclean", "dtick", "dtick", "dtick", "denum", "denum", "ddestroy" >>
Gd(c) == CASE c.op = "dnew" -> ~dc.alive
           [] c.op = "dset" -> dc.alive /\ c.a \in dc.live /\ dc.it[c.a].rc + c.d <= MaxRc
           [] c.op = "dtick" -> dc.alive /\ now < MaxNow
           [] OTHER -> dc.alive
EnabledCalls(o) == {c \in CallsOf(o) : Gd(c)}
SimNext ==
  \E i \in {RandomElement({x \in 1..Len(OpBag) : EnabledCalls(OpBag[x]) # {}})} :
    \E c \in {RandomElement(EnabledCalls(OpBag[i]))} : Do(c)
SimSpec == Init /\ [][SimNext]_vars

Inv == DcInv(dc) /\ (~dc.alive => dc.live = {})
PostOK == bad = {}
EmitInv == Emit => PrintT(ToJson([lvl |-> TLCGet("level"), ev |-> ev, st |-> DProj(dc, now)]))
=============================================================================
