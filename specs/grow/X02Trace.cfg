SPECIFICATION Spec
CONSTANTS
  NIds = 256
  Ident = TRUE
CHECK_DEADLOCK FALSE
POSTCONDITION MaxLine
