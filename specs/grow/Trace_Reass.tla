---------------------------- MODULE Trace_Reass ----------------------------
(* Trace validation for reass_helper.h: every line written by harness/x10_drv.c is one call on the real struct
   (Init = reass_hlp_init, Frag = reass_hlp_handle_frag, Reset = reass_hlp_reset, Alloc = reass_hlp_alloc), in the
   order of the calls, with the arguments, the result and the WHOLE state afterwards (struct fields, every octet of
   the buffer, every bit of the bitmap, guard zones, SIGFPE).  A Frag line is accepted when some variant
   v \subseteq AllFix of ReassHelper!HandleFrag, applied to the state the specification holds and the logged
   arguments, gives exactly the logged result and state.  `alive` is the set of variants that explained every line so
   far: one tree is one variant, so a line that only other variants explain is reported ("mixed"); a line no variant
   explains is a conformance failure ("nomatch", with the names of the fields that differ from the first alive
   variant) and the specification adopts the logged state so that the rest of the trace is still checked.
   After every accepted line the step properties R1..R7 are evaluated on what the REAL call did; a violated property
   is reported with the deviations exercised at this step or earlier in the same history ("bad").  The rig turns the
   printed records into keyed findings; the last record ("end") carries the number of lines consumed and `alive`. *)
EXTENDS ReassHelper, Json, IOUtils, TLC
VARIABLES l, S, alive, sticky
Tr == ndJsonDeserialize(IOEnv.TRACE)
Variants == SUBSET AllFix
SeqRange(q) == {q[i] : i \in 1..Len(q)}
LogCore(e) == [buf |-> e.st.buf, bits |-> SeqRange(e.st.bits), blk |-> e.st.blk, cnt |-> e.st.cnt, recv |-> e.st.recv,
               seqsz |-> e.st.seqsz, dup |-> e.st.dup, reord |-> e.st.reord, first |-> e.st.first,
               last |-> e.st.last, cur |-> e.st.cur]
FragOf(e) == [seq |-> e.seq, first |-> e.first = 1, last |-> e.last = 1, size |-> e.size, tag |-> e.tag]
Adopt(G, c) == [G EXCEPT !.buf = c.buf, !.bits = c.bits, !.blk = c.blk, !.cnt = c.cnt, !.recv = c.recv, !.seqsz = c.seqsz,
                         !.dup = c.dup, !.reord = c.reord, !.first = c.first, !.last = c.last, !.cur = c.cur]
Matches(r, e) == r.rc = e.rc /\ r.crash = (e.crash = 1) /\ r.oob = (e.oob = 1) /\ Core(r.s) = LogCore(e)
DiffNames(r, e) ==
  LET a == Core(r.s)  b == LogCore(e) IN
  (IF r.rc # e.rc THEN {"rc"} ELSE {}) \cup (IF r.crash # (e.crash = 1) THEN {"crash"} ELSE {})
  \cup (IF r.oob # (e.oob = 1) THEN {"oob"} ELSE {})
  \cup {k \in DOMAIN a : a[k] # b[k]}
Say(x) == PrintT(ToJson(x))
(* which deviation can violate which property: established with TLC on MC_Reass (AllFix minus one name, every
   property; the rig re-checks the primary pairs as negative controls on every run) *)
Cause(p) == CASE p = "R1-completion-sound" -> {"hole", "wrap"}
              [] p = "R3-memory-safety" -> {"div0", "sumovf"}
              [] p = "R6-placement" -> {"wrap"}
              [] p = "R7-bitmap-contract" -> {"bmunits"}
              [] OTHER -> {}
Keys(props, devs) == UNION {IF Cause(p) \cap devs = {} THEN {<<p, "unexplained">>} ELSE {<<p, d>> : d \in Cause(p) \cap devs} : p \in props}

TInit == l = 1 /\ S = InitState(1, NoBitmap) /\ alive = Variants /\ sticky = {}
TStep ==
  /\ l <= Len(Tr) /\ l' = l + 1
  /\ LET e == Tr[l] IN
     CASE e.e = "Init" ->
            /\ S' = InitState(e.bufsz, e.bmsz) /\ sticky' = {} /\ UNCHANGED alive
            /\ (e.rc # 0 \/ Core(InitState(e.bufsz, e.bmsz)) # LogCore(e))
                 => Say([k |-> "nomatch", line |-> l, op |-> "init", fields |-> {"state"}])
       [] e.e = "Reset" ->
            /\ S' = Adopt(Reset(S), LogCore(e)) /\ UNCHANGED <<alive, sticky>>
            /\ (Core(Reset(S)) # LogCore(e))
                 => Say([k |-> "nomatch", line |-> l, op |-> "reset",
                         fields |-> {k \in DOMAIN LogCore(e) : Core(Reset(S))[k] # LogCore(e)[k]}])
       [] e.e = "Alloc" ->
            /\ UNCHANGED <<S, alive, sticky>>
            /\ LET z == AllocSizes(e.bufsz, e.minfrag) IN
               (e.null = 0 /\ ~(e.rbufsz = z.bufsz /\ e.rbmsz = z.bmsz /\ e.bufoff = 0 /\ e.bmoff = z.bufsz /\ e.blk = 0
                                /\ e.cnt = 0 /\ e.recv = 0 /\ e.seqsz = 0 /\ e.bmclear = 1))
                 => Say([k |-> "nomatch", line |-> l, op |-> "alloc", fields |-> {"sizes"}])
       [] e.e = "Frag" ->
            LET f == FragOf(e)
                A == {v \in alive : Matches(HandleFrag(v, S, f), e)}
                M == IF A # {} THEN A ELSE {v \in Variants : Matches(HandleFrag(v, S, f), e)}
                v0 == IF M # {} THEN CHOOSE v \in M : TRUE ELSE CHOOSE v \in alive : TRUE
                r == HandleFrag(v0, S, f)
                T == IF M # {} THEN r.s ELSE Adopt(r.s, LogCore(e))
                devs == r.dev \cup sticky
                badp == IF M # {} THEN StepBad(S, f, r) ELSE {}
            IN /\ S' = T
               /\ alive' = IF A # {} THEN A ELSE alive
               /\ sticky' = devs
               /\ (M = {}) => Say([k |-> "nomatch", line |-> l, op |-> "frag", fields |-> DiffNames(r, e)])
               /\ (M # {} /\ A = {}) => Say([k |-> "mixed", line |-> l, explained_by |-> M])
               /\ (badp # {}) => Say([k |-> "bad", line |-> l, keys |-> Keys(badp, devs)])
TEnd == /\ l = Len(Tr) + 1 /\ l' = l + 1 /\ UNCHANGED <<S, alive, sticky>>
        /\ Say([k |-> "end", lines |-> Len(Tr), alive |-> alive])
TNext == TStep \/ TEnd
TSpec == TInit /\ [][TNext]_<<l, S, alive, sticky>>
=============================================================================
