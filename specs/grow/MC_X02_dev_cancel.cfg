SPECIFICATION Spec
CONSTANTS
  NIds = 2
  Ident = FALSE
  Dev = {"cancel-leaves-query-retransmitting"}
  JitClasses = {"zero"}
  Plan = "one"
  Kinds = {"good", "badauth", "wrongid", "wrongsrc", "reqcode"}
  MaxFlips = 1
  MaxReplies = 3
  AllowCancel = TRUE
  AllowDestroy = TRUE
  PortReuse = TRUE
INVARIANTS INoTxAfterDone
CHECK_DEADLOCK FALSE
