------------------------------- MODULE Ssdp -------------------------------
(***************************************************************************************************************
 X07 (growth) - the UPnP SSDP announcer / responder of liblcb: src/proto/upnp_ssdp.c + include/proto/upnp_ssdp.h.

 PROPERTIES (what a user of the object relies on, for every history of API calls - create with any settings,
 dev_add, svc_add, dev_if_add, dev_del, if_del, send_notify, counts, destroy -, announce-timer expiries, M-SEARCH
 and other datagrams arriving on the multicast sockets - valid, for other search targets, malformed, hostile -,
 failing allocations, failing group joins, failing transmissions; everything on the one thread that owns the object):

  P1 registries       the root-device registry, the interface registry and the (device, interface) link registry
                      behave like maps with exact counts: upnp_ssdp_root_dev_count / upnp_ssdp_if_count are the
                      numbers of registered objects; every link is listed exactly once by its device and exactly
                      once by its interface, both of which are registered (no dangling link); deleting a device
                      removes its services and all its links, deleting an interface removes all its links and
                      leaves its multicast groups (InvReg, InvGroups).
  P2 announce-set     each expiry of a device's announce timer, and upnp_ssdp_send_notify() for every device,
                      multicasts for EVERY link of the device, on the link's interface, to every enabled group
                      (239.255.255.250:1900; [FF05::C]:1900 and [FF02::C]:1900) for which the link has a LOCATION,
                      the complete UPnP 1.1 set of ssdp:alive NOTIFYs: upnp:rootdevice, uuid:<device-UUID>,
                      urn:<domain>:device:<type>:<ver>, and one urn:<domain>:service:<type>:<ver> per service -
                      3 + k datagrams, each exactly once, each with the required header fields (HOST of the group,
                      CACHE-CONTROL max-age, LOCATION of that link and family, NT, NTS, SERVER "OS/version UPnP/1.1
                      product/version" (viol "server-field"), USN = uuid:<UUID>[::<NT>], BOOTID/CONFIGID,
                      SEARCHPORT iff not 1900) (viol "announce-set"; the field values are compared in the binding).
  P3 nothing-stale    no datagram ever names a device, service or link that is not registered at that moment
                      (viol "stale-object"); nothing is sent for a family that is disabled.
  P4 byebye-once      when the object was created with the byebye flag, removing a link (dev_del, if_del, destroy)
                      multicasts the ssdp:byebye set of P2 for it exactly once, before the link disappears; without
                      the flag nothing is sent (viol "byebye-set").
  P5 search           a datagram gets responses iff it is an M-SEARCH * HTTP/1.1 with MAN: "ssdp:discover", an MX
                      field and an ST field, received on a registered interface; the responses are unicast to the
                      requester's address and port, from the receiving family's socket, one per match, for every
                      link of THAT interface (never of another one): ssdp:all -> the 3 + k set; upnp:rootdevice -> 1;
                      uuid:<UUID> -> 1 if equal; urn:<domain>:device|service:<type>:<v> -> 1 per device/service
                      of exactly that domain and type whose version is >= v (v a decimal number), with ST echoing
                      the request; anything else (other targets, NOTIFYs and responses of other devices, missing
                      MAN / MX / ST, malformed or truncated text, control characters, oversized ST) is ignored
                      (viol "search-set").
  P6 buffers          no datagram is built past its buffer, no request is read past its end (observed with
                      ASan/UBSan in the binding; in the model a memory error is "crashed").
  P7 ledger           create on failure and destroy always release everything: every socket closed exactly once,
                      every timer deleted, every group left, every allocation freed; dev_del/if_del free exactly
                      what the object owned (InvLedger; the binding compares timer / socket / allocation counts
                      after every call).
  P8 quiet-after      no timer expiry and no receive callback touches the object after destroy, nor a device after
                      dev_del or after a failed dev_add (a timer that is still armed for a freed object is a
                      "zombie": viol "zombie-timer"; its expiry is a use-after-free).
  P9 defaults         upnp_ssdp_create(tp, NULL) and upnp_ssdp_def_settings() yield a working announcer (both
                      families, byebye) whose SERVER field has the UPnP 1.1 form (viol "dead-default").

 The model is shaped like the implementation: one operator per function (Send = upnp_ssdp_send, DevNotify =
 upnp_ssdp_dev_notify_sendto, DevNotifyMc, IfaceNotifyEx, IfAdd, IfDel, DevIfDel, DevAdd, SvcAdd, DevIfAdd, DevDel,
 RecvOne = one iteration of the loop of upnp_ssdp_mc_recv_cb, TimerCb, SendNotify, Create, Destroy), evaluated
 atomically per API call / datagram / expiry.  The object is ONE record s; operators map s to s; outputs (datagrams,
 group joins / leaves, timer arm / disarm, socket close, in order) are appended to s.out.  The properties are stated
 independently (set-wise, from UPnP DA 1.1 section 1.2 / 1.3) and compared with what the loops produce.

 Where the shipped code does not have a property the model has a SWITCH: s.fx is the set of repairs applied
 (AllFix; one patch each in /verif/proposed_fixes/X07-*.diff).  fx = AllFix is the specification proper.

 ACCEPTED DEVIATIONS (the author's simplifications where UPnP leaves room; modelled as they are, not findings):
  A1 no embedded devices: there is no API to register them (deviceList is never filled), so the "embedded device x2"
     part of the UPnP set is empty.
  A2 MX is only required to be present: its value is not validated (0, text) and responses are sent at once instead
     of after a random delay in [0, MX] (SHOULD in UPnP 1.1).
  A3 no announcement at dev_add / dev_if_add time: the first ssdp:alive set goes out at the first timer expiry
     (the caller may use upnp_ssdp_send_notify()); byebye is sent for a link even if it was never announced.
  A4 the link registry is a multiset: adding the same (device, interface) pair twice announces it twice.
  A5 the initial 3x repetition / ssdp:update / unicast M-SEARCH (no MX) are not implemented.
  A6 IPv6: every link is announced to the site-local and then the link-local group; a device NT longer than 350
     octets is never announced; a datagram that does not fit 4096 octets is silently not sent.
  A7 the request filter is stricter than UPnP asks: requests with an octet > 126 or a control character anywhere in
     the header, with "SP:" , with bare LF line ends, with two HOST fields or a lower-case method are dropped
     (http_req_sec_chk / http_parse_req_line); MAN must be exactly "ssdp:discover" with the quotes; HTTP/1.0 and a
     body after the header are tolerated.  Field names are matched case-insensitively, values are trimmed.
  A8 max_age (UPnP: >= 1800) and ann_interval (UPnP: < max_age / 2) are taken as given; the multicast hop limit
     defaults to 1 (UPnP 1.1: SHOULD default to 2).
 ***************************************************************************************************************)
EXTENDS Naturals, Integers, Sequences, FiniteSets, TLC

CONSTANTS Devs        \* device handles of the scenario (positive integers)

AllFix == {"destroyall",  \* upnp_ssdp_destroy deletes EVERY device / interface (the shipped loops skip every second one)
           "server",      \* upnp_ssdp_def_settings keeps the OS/version token in front of "UPnP/1.1 product/version"
           "defflags",    \* the default flags enable IPv4 and IPv6 (shipped: no family: create(NULL) is dead, def_settings is EINVAL)
           "stver",       \* the version of a device/service search target must be a decimal number (shipped: non-digits skipped, wraps mod 2^32)
           "adderr"}      \* upnp_ssdp_dev_add deletes the timer it armed when it fails afterwards

Has(s, f)  == f \in s.fx
Emit(s, o) == [s EXCEPT !.out = Append(@, o)]
Viol(s, v) == [s EXCEPT !.viol = @ \cup {v}]
Crash(s)   == [s EXCEPT !.crashed = TRUE]

NoDev == [used |-> FALSE, uuid |-> "", dom |-> "", type |-> "", ver |-> 0, boot |-> 0, conf |-> 0, age |-> 0, ms |-> 0,
          svcs |-> << >>, svcarr |-> FALSE, links |-> << >>, linkarr |-> FALSE]

InitS(fx) == [fx |-> fx, alive |-> FALSE, crashed |-> FALSE, v4 |-> FALSE, v6 |-> FALSE, byebye |-> FALSE, sp |-> 1900,
              srvf |-> "cfg", ifs |-> << >>, ifsarr |-> FALSE, devs |-> << >>, devsarr |-> FALSE,
              dev |-> [d \in Devs |-> NoDev], link |-> << >>, zomb |-> 0, joined |-> {}, socks |-> {}, allocs |-> 0,
              sendfail |-> 0, joinfail |-> 0, allocfail |-> 0, out |-> << >>, viol |-> {}]

(* ------------------------------------------------------------------ sequences as the C arrays *)
IdxOf(q, x) == IF \E i \in 1..Len(q) : q[i] = x THEN CHOOSE i \in 1..Len(q) : q[i] = x /\ \A j \in 1..(i - 1) : q[j] # x ELSE 0
(* "cnt--; a[i] = a[cnt]" *)
SwapRemoveAt(q, i) == LET n == Len(q) IN
  IF i = 0 THEN q ELSE SubSeq(q, 1, i - 1) \o (IF i < n THEN <<q[n]>> ELSE << >>) \o SubSeq(q, i + 1, n - 1)
SwapRemove(q, x) == SwapRemoveAt(q, IdxOf(q, x))
Range(q) == {q[i] : i \in 1..Len(q)}

(* ------------------------------------------------------------------ fault injection *)
(* the k-th allocation from now fails: -> [s, ok] *)
Alloc(s) == IF s.allocfail = 1 THEN [s |-> [s EXCEPT !.allocfail = 0], ok |-> FALSE]
            ELSE [s |-> [s EXCEPT !.allocfail = IF @ > 1 THEN @ - 1 ELSE 0], ok |-> TRUE]

(* ------------------------------------------------------------------ text *)
Pre(st, p) == Len(st) >= Len(p) /\ SubSeq(st, 1, Len(p)) = p
Digit(c) == CASE c = "0" -> 0 [] c = "1" -> 1 [] c = "2" -> 2 [] c = "3" -> 3 [] c = "4" -> 4 [] c = "5" -> 5
              [] c = "6" -> 6 [] c = "7" -> 7 [] c = "8" -> 8 [] c = "9" -> 9 [] OTHER -> -1
Ch(t, i) == SubSeq(t, i, i)
AllDigits(t) == Len(t) >= 1 /\ \A i \in 1..Len(t) : Digit(Ch(t, i)) >= 0
(* ustr2u32 as shipped: non-digits skipped, value mod 2^32 - kept as two 16-bit limbs <<hi, lo>> (TLC integers are 32 bit) *)
RECURSIVE Lenient(_, _, _)
Lenient(t, i, acc) ==
  IF i > Len(t) THEN acc
  ELSE LET d == Digit(Ch(t, i)) IN
       IF d < 0 THEN Lenient(t, i + 1, acc)
       ELSE LET lo == acc[2] * 10 + d
                hi == acc[1] * 10 + (lo \div 65536)
            IN Lenient(t, i + 1, <<hi % 65536, lo % 65536>>)
LenientLe(t, ver) == LET v == Lenient(t, 1, <<0, 0>>) IN v[1] = 0 /\ v[2] <= ver
(* decimal number <= ver (ver < 65536): at most 5 significant digits *)
RECURSIVE StripZ(_)
StripZ(t) == IF Len(t) > 1 /\ Ch(t, 1) = "0" THEN StripZ(SubSeq(t, 2, Len(t))) ELSE t
NumLe(t, ver) == AllDigits(t) /\ LET u == StripZ(t) IN Len(u) <= 5 /\ LenientLe(u, ver)

NtUuid(d)     == "uuid:" \o d.uuid
NtDev(d)      == "urn:" \o d.dom \o ":device:" \o d.type \o ":" \o ToString(d.ver)
NtSvc(v)      == "urn:" \o v.dom \o ":service:" \o v.type \o ":" \o ToString(v.ver)
Usn(d, nt)    == IF Pre(nt, "uuid:") /\ Len(nt) > 5 THEN "uuid:" \o d.uuid ELSE "uuid:" \o d.uuid \o "::" \o nt
HostOf(grp)   == CASE grp = "mc4" -> "239.255.255.250:1900" [] grp = "site" -> "[FF05::C]:1900" [] grp = "link" -> "[FF02::C]:1900"
                   [] OTHER -> ""
FamOf(grp)    == IF grp = "mc4" THEN 4 ELSE 6
DstOf(grp, ix) == IF grp = "link" THEN "link%" \o ToString(ix) ELSE grp

TxOut(fam, ix, dst, k, nt, usn, loc, age, boot, conf, host, sp, srvf, fail) ==
  [e |-> "tx", sk |-> fam, ifx |-> ix, dst |-> dst, k |-> k, nt |-> nt, usn |-> usn, loc |-> loc, age |-> age,
   boot |-> boot, conf |-> conf, host |-> host, sp |-> sp, srvf |-> srvf, fail |-> fail]
OptOut(fam, o, ix, grp, fail) == [e |-> "opt", sk |-> fam, o |-> o, ifx |-> ix, grp |-> grp, fail |-> fail]

(* ------------------------------------------------------------------ upnp_ssdp_send *)
(* act: "alive" | "byebye" | "resp"; dst: group name or the requester; host: HOST field ("" for a response) *)
Send(s, fam, ix, dst, host, act, lk, nt) ==
  LET L == s.link[lk]
      d == s.dev[L.dev]
      url == IF fam = 4 THEN L.u4 ELSE L.u6
  IN IF (fam = 4 /\ ~s.v4) \/ (fam = 6 /\ ~s.v6) THEN s
     ELSE IF Len(nt) >= 351 THEN s                     \* sizeof(nt_loc) <= nt_size
     ELSE IF url = "" THEN s                           \* no LOCATION of this family for this link
     ELSE IF url = "HUGE" /\ act # "byebye" THEN s     \* does not fit the 4096 byte buffer: io_buf_printf fails (A6)
     ELSE LET f == IF s.sendfail > 0 THEN 1 ELSE 0
              s1 == [s EXCEPT !.sendfail = IF @ > 0 THEN @ - 1 ELSE 0]
              o == TxOut(fam, ix, dst, act, nt, Usn(d, nt),
                         IF act = "byebye" THEN "" ELSE url, IF act = "byebye" THEN 0 ELSE d.age, d.boot, d.conf,
                         IF act = "resp" THEN "" ELSE host,
                         IF act # "byebye" /\ s.sp # 1900 THEN s.sp ELSE 0,
                         IF act = "byebye" THEN "" ELSE s.srvf, f)
              s2 == Emit(s1, o)
              s3 == IF act # "byebye" /\ s.srvf \notin {"cfg", "os-upnp-product"} THEN Viol(s2, "server-field") ELSE s2
          IN IF ~d.used \/ ~L.live THEN Viol(s3, "stale-object") ELSE s3

(* the complete set for one link: rootdevice, uuid, device type, services - upnp_ssdp_dev_notify_sendto's body *)
RECURSIVE SendSvcs(_, _, _, _, _, _, _, _)
SendSvcs(s, fam, ix, dst, host, act, lk, j) ==
  LET d == s.dev[s.link[lk].dev] IN
  IF j > Len(d.svcs) THEN s
  ELSE SendSvcs(Send(s, fam, ix, dst, host, act, lk, NtSvc(d.svcs[j])), fam, ix, dst, host, act, lk, j + 1)
SendAllOf(s, fam, ix, dst, host, act, lk) ==
  LET d == s.dev[s.link[lk].dev]
      s1 == Send(s, fam, ix, dst, host, act, lk, "upnp:rootdevice")
      s2 == Send(s1, fam, ix, dst, host, act, lk, NtUuid(d))
      s3 == Send(s2, fam, ix, dst, host, act, lk, NtDev(d))
  IN SendSvcs(s3, fam, ix, dst, host, act, lk, 1)

(* upnp_ssdp_dev_notify_sendto: all links of the device, in dev->dev_ifs order *)
RECURSIVE DevNotify(_, _, _, _, _)
DevNotify(s, d, grp, act, i) ==
  LET D == s.dev[d] IN
  IF (grp = "mc4" /\ ~s.v4) \/ (grp # "mc4" /\ ~s.v6) \/ ~D.linkarr THEN s
  ELSE IF i > Len(D.links) THEN s
  ELSE LET lk == D.links[i]
           ix == s.link[lk].ix
       IN DevNotify(SendAllOf(s, FamOf(grp), ix, DstOf(grp, ix), HostOf(grp), act, lk), d, grp, act, i + 1)
(* upnp_ssdp_dev_notify_sendto_mc *)
DevNotifyMc(s, d, act) ==
  LET s1 == IF s.v4 THEN DevNotify(s, d, "mc4", act, 1) ELSE s
  IN IF s.v6 THEN DevNotify(DevNotify(s1, d, "site", act, 1), d, "link", act, 1) ELSE s1

(* ------------------------------------------------------------------ search-target matching *)
(* "urn:<dom>:<kind>:<type>:<v>" against one device or service; the shipped code parses <v> leniently *)
TypedMatch(s, st, kind, dom, type, ver) ==
  LET p == "urn:" \o dom \o ":" \o kind \o ":" \o type \o ":" IN
  /\ Len(st) >= Len(p) + 1
  /\ Pre(st, p)
  /\ LET rest == SubSeq(st, Len(p) + 1, Len(st)) IN
     IF Has(s, "stver") THEN NumLe(rest, ver) ELSE LenientLe(rest, ver)

(* upnp_ssdp_iface_notify_ex: st = AllSt means NULL search target (everything) *)
AllSt == "*"
RECURSIVE INSvcs(_, _, _, _, _, _, _, _, _)
INSvcs(s, fam, ix, dst, host, act, lk, st, j) ==
  LET d == s.dev[s.link[lk].dev] IN
  IF j > Len(d.svcs) \/ ~d.svcarr THEN s
  ELSE LET v == d.svcs[j]
           s1 == IF st = AllSt THEN Send(s, fam, ix, dst, host, act, lk, NtSvc(v))
                 ELSE IF TypedMatch(s, st, "service", v.dom, v.type, v.ver) THEN Send(s, fam, ix, dst, host, act, lk, st)
                 ELSE s
       IN INSvcs(s1, fam, ix, dst, host, act, lk, st, j + 1)
RECURSIVE INLinks(_, _, _, _, _, _, _, _)
INLinks(s, fam, ifpos, dst, host, act, st, i) ==
  LET F == s.ifs[ifpos] IN
  IF i > Len(F.links) THEN s
  ELSE LET lk == F.links[i]
           d == s.dev[s.link[lk].dev]
           ix == F.ix
           all == st = AllSt
           root == st = "upnp:rootdevice"
           s1 == IF all \/ root THEN Send(s, fam, ix, dst, host, act, lk, "upnp:rootdevice") ELSE s
       IN IF root THEN INLinks(s1, fam, ifpos, dst, host, act, st, i + 1)
          ELSE LET s2 == IF all \/ st = NtUuid(d) THEN Send(s1, fam, ix, dst, host, act, lk, NtUuid(d)) ELSE s1
                   s3 == IF all THEN Send(s2, fam, ix, dst, host, act, lk, NtDev(d))
                         ELSE IF TypedMatch(s, st, "device", d.dom, d.type, d.ver) THEN Send(s2, fam, ix, dst, host, act, lk, st)
                         ELSE s2
                   s4 == INSvcs(s3, fam, ix, dst, host, act, lk, st, 1)
               IN INLinks(s4, fam, ifpos, dst, host, act, st, i + 1)
IfaceNotifyEx(s, ifpos, fam, dst, host, act, st0) ==
  LET F == s.ifs[ifpos]
      st == IF st0 = "ssdp:all" THEN AllSt ELSE st0
  IN IF ~F.arr \/ Len(st0) > 350 THEN s
     ELSE IF (fam = 4 /\ ~s.v4) \/ (fam = 6 /\ ~s.v6) THEN s
     ELSE INLinks(s, fam, ifpos, dst, host, act, st, 1)

(* ------------------------------------------------------------------ the UPnP 1.1 sets, stated independently *)
(* what one link must put on the wire for one family/destination: a set of <<nt, usn>> and the expected count *)
Enabled4(s, lk) == s.v4 /\ s.link[lk].u4 # ""
Enabled6(s, lk) == s.v6 /\ s.link[lk].u6 # ""
NtFits(nt) == Len(nt) <= 350                       \* A6: longer notification types are never sent
NtList(d) == <<"upnp:rootdevice", NtUuid(d), NtDev(d)>> \o [j \in 1..Len(d.svcs) |-> NtSvc(d.svcs[j])]
NtCount(d) == Cardinality({j \in 1..(3 + Len(d.svcs)) : NtFits(NtList(d)[j])})
FullSet(s, lk) ==
  LET d == s.dev[s.link[lk].dev] IN
  {<<NtList(d)[j], IF j = 2 THEN "uuid:" \o d.uuid ELSE "uuid:" \o d.uuid \o "::" \o NtList(d)[j]>> :
      j \in {k \in 1..(3 + Len(d.svcs)) : NtFits(NtList(d)[k])}}
DistinctSvcs(d) == Cardinality({NtSvc(d.svcs[j]) : j \in 1..Len(d.svcs)}) = Len(d.svcs)
(* outputs of kind act for link lk (recognised by its LOCATION-independent identity: ifx + usn prefix) *)
TxOf(out, fam, dst, act) == {i \in 1..Len(out) : out[i].e = "tx" /\ out[i].sk = fam /\ out[i].dst = dst /\ out[i].k = act}
(* the multicast of one device: for every link and enabled group exactly the full set, each member once *)
GroupsOf(s, lk) == (IF Enabled4(s, lk) THEN {"mc4"} ELSE {}) \cup (IF Enabled6(s, lk) THEN {"site", "link"} ELSE {})
Sendable(s, lk, act) == LET L == s.link[lk] IN
  {g \in GroupsOf(s, lk) : act = "byebye" \/ (IF g = "mc4" THEN L.u4 ELSE L.u6) # "HUGE"}
(* expected number of datagrams of a multicast of the links in lks *)
RECURSIVE SumFn(_)
SumFn(F) == IF DOMAIN F = {} THEN 0 ELSE LET x == CHOOSE x \in DOMAIN F : TRUE IN F[x] + SumFn([y \in (DOMAIN F) \ {x} |-> F[y]])
McCount(s, lks, act) ==
  SumFn([lk \in lks |-> Cardinality(Sendable(s, lk, act)) * NtCount(s.dev[s.link[lk].dev])])
(* every <<link, group, member>> appears in out exactly once (when NTs are distinct and links distinguishable) *)
McComplete(s0, out, lks, act) ==
  /\ Len(SelectSeq(out, LAMBDA o : o.e = "tx")) = McCount(s0, lks, act)
  /\ \A lk \in lks : \A g \in Sendable(s0, lk, act) :
       LET L == s0.link[lk]
           dst == DstOf(g, L.ix)
           mine == {i \in TxOf(out, FamOf(g), dst, act) : out[i].ifx = L.ix /\ Pre(out[i].usn, "uuid:" \o s0.dev[L.dev].uuid)}
       IN \A m \in FullSet(s0, lk) : \E i \in mine : out[i].nt = m[1] /\ out[i].usn = m[2] /\ out[i].host = HostOf(g)
LinkSetOfDev(s, d) == Range(s.dev[d].links)

(* the responses UPnP 1.1 (1.3.2 / 1.3.3) prescribes for a search target on one link: set of <<st-out, usn>> *)
IsVer(t, ver) == NumLe(t, ver)
TypedOk(st, kind, dom, type, ver) ==
  LET p == "urn:" \o dom \o ":" \o kind \o ":" \o type \o ":" IN
  Len(st) > Len(p) /\ Pre(st, p) /\ IsVer(SubSeq(st, Len(p) + 1, Len(st)), ver)
SearchSet(s, lk, st) ==
  LET d == s.dev[s.link[lk].dev]
      u == "uuid:" \o d.uuid
  IN IF st = "ssdp:all" THEN FullSet(s, lk)
     ELSE (IF st = "upnp:rootdevice" THEN {<<st, u \o "::" \o st>>} ELSE {})
          \cup (IF st = NtUuid(d) THEN {<<st, u>>} ELSE {})
          \cup (IF TypedOk(st, "device", d.dom, d.type, d.ver) THEN {<<st, u \o "::" \o st>>} ELSE {})
          \cup (IF \E j \in 1..Len(d.svcs) : TypedOk(st, "service", d.svcs[j].dom, d.svcs[j].type, d.svcs[j].ver)
                THEN {<<st, u \o "::" \o st>>} ELSE {})
(* number of responses for one link: one per matching device / service *)
SearchCount(s, lk, st) ==
  LET d == s.dev[s.link[lk].dev] IN
  IF st = "ssdp:all" THEN NtCount(d)
  ELSE (IF st = "upnp:rootdevice" THEN 1 ELSE 0) + (IF st = NtUuid(d) THEN 1 ELSE 0)
       + (IF TypedOk(st, "device", d.dom, d.type, d.ver) THEN 1 ELSE 0)
       + Cardinality({j \in 1..Len(d.svcs) : TypedOk(st, "service", d.svcs[j].dom, d.svcs[j].type, d.svcs[j].ver)})

(* ------------------------------------------------------------------ interfaces *)
IfIndex(name) == CASE name = "lan0" -> 2 [] name = "lan1" -> 3 [] name = "wan0" -> 5 [] OTHER -> 0   \* the fake interface table
IfPos(s, ix) == IF \E i \in 1..Len(s.ifs) : s.ifs[i].ix = ix THEN CHOOSE i \in 1..Len(s.ifs) : s.ifs[i].ix = ix /\ \A j \in 1..(i - 1) : s.ifs[j].ix # ix ELSE 0

(* skt_mc_join: -> [s, ok] *)
Join(s, ix, grp) ==
  IF s.joinfail = 1 THEN [s |-> Emit([s EXCEPT !.joinfail = 0], OptOut(FamOf(grp), "join", ix, grp, 1)), ok |-> FALSE]
  ELSE [s |-> Emit([s EXCEPT !.joinfail = IF @ > 1 THEN @ - 1 ELSE 0, !.joined = @ \cup {<<ix, grp>>}], OptOut(FamOf(grp), "join", ix, grp, 0)),
        ok |-> TRUE]
Leave(s, ix, grp) == Emit([s EXCEPT !.joined = @ \ {<<ix, grp>>}], OptOut(FamOf(grp), "leave", ix, grp, 0))
LeaveAll(s, ix) ==
  LET s1 == IF s.v4 THEN Leave(s, ix, "mc4") ELSE s
  IN IF s.v6 THEN Leave(Leave(s1, ix, "site"), ix, "link") ELSE s1

(* upnp_ssdp_if_add: -> [s, rc] ; on success the interface is the last of s.ifs *)
IfAdd(s, name) ==
  LET ix == IfIndex(name) IN
  IF Len(name) >= 16 THEN [s |-> s, rc |-> "EINVAL"]
  ELSE IF ix = 0 THEN [s |-> s, rc |-> "ESPIPE"]
  ELSE LET a1 == Alloc(s) IN
  IF ~a1.ok THEN [s |-> a1.s, rc |-> "ENOMEM"]
  ELSE LET j1 == IF s.v4 THEN Join(a1.s, ix, "mc4") ELSE [s |-> a1.s, ok |-> TRUE]
           j2 == IF j1.ok /\ s.v6 THEN Join(j1.s, ix, "link") ELSE j1
           j3 == IF j2.ok /\ s.v6 THEN Join(j2.s, ix, "site") ELSE j2
       IN IF ~j3.ok THEN [s |-> LeaveAll(j3.s, ix), rc |-> "ENODEV"]
          ELSE LET a2 == Alloc(j3.s) IN
               IF ~a2.ok THEN [s |-> LeaveAll(a2.s, ix), rc |-> "ENOMEM"]
               ELSE [s |-> [a2.s EXCEPT !.ifs = Append(@, [ix |-> ix, links |-> << >>, arr |-> FALSE]),
                                        !.allocs = @ + 1 + (IF s.ifsarr THEN 0 ELSE 1), !.ifsarr = TRUE],
                     rc |-> "0"]

(* upnp_ssdp_dev_if_del with one side already cleared: free the link, take it off the OTHER side's array *)
UnlinkFromIf(s, lk) ==
  LET p == IfPos(s, s.link[lk].ix) IN
  IF p = 0 THEN s ELSE [s EXCEPT !.ifs[p].links = SwapRemove(@, lk)]
UnlinkFromDev(s, lk) == LET d == s.link[lk].dev IN [s EXCEPT !.dev[d].links = SwapRemove(@, lk)]
FreeLink(s, lk) == [s EXCEPT !.link[lk].live = FALSE, !.allocs = @ - 1]

(* upnp_ssdp_if_del *)
RECURSIVE IfDelLinks(_, _, _)
IfDelLinks(s, links, i) == IF i > Len(links) THEN s ELSE IfDelLinks(FreeLink(UnlinkFromDev(s, links[i]), links[i]), links, i + 1)
IfDel(s, ix) ==
  LET p == IfPos(s, ix)
      F == s.ifs[p]
      bye(st, grp) == IF s.byebye THEN IfaceNotifyEx(st, p, FamOf(grp), DstOf(grp, ix), HostOf(grp), "byebye", AllSt) ELSE st
      s1 == IF s.v4 THEN Leave(bye(s, "mc4"), ix, "mc4") ELSE s
      s2 == IF s.v6 THEN Leave(bye(Leave(bye(s1, "site"), ix, "site"), "link"), ix, "link") ELSE s1
      expect == IF s.byebye THEN Range(F.links) ELSE {}
      okset == McComplete(s, SubSeq(s2.out, Len(s.out) + 1, Len(s2.out)), expect, "byebye")
      s3 == [s2 EXCEPT !.ifs = SwapRemoveAt(@, p)]
      s4 == IfDelLinks(s3, F.links, 1)
      s5 == [s4 EXCEPT !.allocs = @ - 1 - (IF F.arr THEN 1 ELSE 0)]
  IN IF okset THEN s5 ELSE Viol(s5, "byebye-set")

(* ------------------------------------------------------------------ devices *)
(* p = [uuid, dom, type, ver, boot, conf, age, ann] as passed by the caller *)
DevAdd(s, d, p) ==
  LET a1 == Alloc(s) IN
  IF ~a1.ok THEN [s |-> a1.s, rc |-> "ENOMEM"]
  ELSE LET age == IF p.age = 0 THEN 1800 ELSE p.age
           ms == (IF p.ann = 0 THEN 60 ELSE p.ann) * 1000
           s1 == Emit(a1.s, [e |-> "arm", ms |-> ms])
           a2 == Alloc(s1)
       IN IF ~a2.ok
          THEN IF Has(s, "adderr") THEN [s |-> Emit(a2.s, [e |-> "disarm"]), rc |-> "ENOMEM"]
               ELSE [s |-> Viol([a2.s EXCEPT !.zomb = @ + 1], "zombie-timer"), rc |-> "ENOMEM"]
          ELSE [s |-> [a2.s EXCEPT !.dev[d] = [NoDev EXCEPT !.used = TRUE, !.uuid = p.uuid, !.dom = p.dom, !.type = p.type,
                                                 !.ver = p.ver, !.boot = p.boot, !.conf = p.conf, !.age = age, !.ms = ms],
                                   !.devs = Append(@, d), !.allocs = @ + 1 + (IF s.devsarr THEN 0 ELSE 1), !.devsarr = TRUE],
                rc |-> "0"]

(* the other natural repair of "adderr": grow the array BEFORE arming the timer - a failure then leaves no output at all *)
DevAddAlt(s, d, p) ==
  LET x == DevAdd(s, d, p) IN
  IF x.rc = "ENOMEM" /\ Has(s, "adderr") /\ Len(x.s.out) = Len(s.out) + 2 THEN [s |-> [x.s EXCEPT !.out = s.out], rc |-> "ENOMEM"] ELSE x

SvcAdd(s, d, v) ==
  LET a1 == Alloc(s) IN
  IF ~a1.ok THEN [s |-> a1.s, rc |-> "ENOMEM"]
  ELSE LET a2 == Alloc(a1.s) IN
       IF ~a2.ok THEN [s |-> a2.s, rc |-> "ENOMEM"]
       ELSE [s |-> [a2.s EXCEPT !.dev[d].svcs = Append(@, v), !.allocs = @ + 1 + (IF s.dev[d].svcarr THEN 0 ELSE 1),
                                !.dev[d].svcarr = TRUE], rc |-> "0"]

(* upnp_ssdp_dev_if_add; u4 / u6: "" = NULL *)
DevIfAdd(s, d, name, u4, u6) ==
  IF name = "" \/ (u4 = "" /\ u6 = "") \/ Len(name) >= 16 THEN [s |-> s, rc |-> "EINVAL"]
  ELSE LET ix == IfIndex(name)
           p0 == IF ix = 0 THEN 0 ELSE IfPos(s, ix)
           r1 == IF p0 # 0 THEN [s |-> s, rc |-> "0"] ELSE IfAdd(s, name)
       IN IF r1.rc # "0" THEN r1
          ELSE LET s1 == r1.s
                   p == IfPos(s1, ix)
                   a1 == Alloc(s1)
               IN IF ~a1.ok THEN [s |-> a1.s, rc |-> "ENOMEM"]
                  ELSE LET lk == Len(s.link) + 1
                           a2 == Alloc(a1.s)
                       IN IF ~a2.ok THEN [s |-> a2.s, rc |-> "ENOMEM"]
                          ELSE LET s2 == [a2.s EXCEPT !.allocs = @ + (IF s.dev[d].linkarr THEN 0 ELSE 1), !.dev[d].linkarr = TRUE]
                                   a3 == Alloc(s2)
                               IN IF ~a3.ok THEN [s |-> a3.s, rc |-> "ENOMEM"]
                                  ELSE [s |-> [a3.s EXCEPT !.link = Append(@, [dev |-> d, ix |-> ix, u4 |-> u4, u6 |-> u6, live |-> TRUE]),
                                                           !.dev[d].links = Append(@, lk),
                                                           !.ifs[p].links = Append(@, lk),
                                                           !.allocs = @ + 1 + (IF s1.ifs[p].arr THEN 0 ELSE 1),
                                                           !.ifs[p].arr = TRUE],
                                        rc |-> "0"]

RECURSIVE DevDelLinks(_, _, _)
DevDelLinks(s, links, i) == IF i > Len(links) THEN s ELSE DevDelLinks(FreeLink(UnlinkFromIf(s, links[i]), links[i]), links, i + 1)
DevDel(s, d) ==
  LET D == s.dev[d]
      s1 == Emit(s, [e |-> "disarm"])
      s2 == IF s.byebye THEN DevNotifyMc(s1, d, "byebye") ELSE s1
      expect == IF s.byebye THEN Range(D.links) ELSE {}
      okset == McComplete(s, SubSeq(s2.out, Len(s.out) + 1, Len(s2.out)), expect, "byebye")
      s3 == [s2 EXCEPT !.devs = SwapRemove(@, d)]
      s4 == DevDelLinks(s3, D.links, 1)
      s5 == [s4 EXCEPT !.dev[d] = NoDev,
                       !.allocs = @ - 1 - (IF D.linkarr THEN 1 ELSE 0) - (IF D.svcarr THEN 1 ELSE 0) - Len(D.svcs)]
  IN IF okset THEN s5 ELSE Viol(s5, "byebye-set")

(* ------------------------------------------------------------------ timer, notify, receive *)
TimerCb(s, d) ==
  LET s1 == DevNotifyMc(s, d, "alive") IN
  IF McComplete(s, SubSeq(s1.out, Len(s.out) + 1, Len(s1.out)), LinkSetOfDev(s, d), "alive") THEN s1 ELSE Viol(s1, "announce-set")
RECURSIVE NotifyFrom(_, _)
NotifyFrom(s, i) == IF i > Len(s.devs) THEN s ELSE NotifyFrom(DevNotifyMc(s, s.devs[i], "alive"), i + 1)
SendNotify(s) ==
  LET s1 == NotifyFrom(s, 1)
      all == UNION {LinkSetOfDev(s, s.devs[i]) : i \in 1..Len(s.devs)}
  IN IF McComplete(s, SubSeq(s1.out, Len(s.out) + 1, Len(s1.out)), all, "alive") THEN s1 ELSE Viol(s1, "announce-set")

(* request shapes (rendered to octets by the rig, rig/checks/x07.py render(); the label says what the text is):
   ok = the UPnP 1.1 M-SEARCH; lcase = lower-case field names; extra = more fields, other order; mxbig = MX: 120;
   pad = blanks around the values; mx0 / mxtext = MX: 0 / MX: soon (A2); body = octets after the header; v10 = HTTP/1.0 (A7);
   notify / resp = traffic of other devices on the group; get, path = other method / request target; noman, badman
   (no quotes), nomx, nost = missing or wrong required field; noterm = no empty line; empty, short, bin = not a
   request at all; ctl, hi, spcolon, lf, twohost, lmethod = dropped by the request filter (A7) *)
AnsweredShapes == {"ok", "lcase", "extra", "mxbig", "pad", "mx0", "mxtext", "body", "v10"}
IgnoredShapes  == {"notify", "resp", "get", "path", "noman", "badman", "nomx", "nost", "noterm", "empty", "short", "ctl",
                   "bin", "hi", "spcolon", "lf", "twohost", "lmethod"}
(* one datagram: dg = [sk, ifx, src, shape, st] *)
RecvOne(s, dg) ==
  LET p == IfPos(s, dg.ifx) IN
  IF p = 0 \/ dg.shape \notin AnsweredShapes THEN s
  ELSE LET s1 == IfaceNotifyEx(s, p, dg.sk, dg.src, "", "resp", dg.st)
           lks == Range(s.ifs[p].links)
           on(lk) == IF dg.sk = 4 THEN Enabled4(s, lk) /\ s.link[lk].u4 # "HUGE" ELSE Enabled6(s, lk) /\ s.link[lk].u6 # "HUGE"
           live == {lk \in lks : on(lk)}
           tx == SelectSeq(SubSeq(s1.out, Len(s.out) + 1, Len(s1.out)), LAMBDA o : o.e = "tx")
           ok == /\ Len(tx) = (IF Len(dg.st) > 350 THEN 0 ELSE SumFn([lk \in live |-> SearchCount(s, lk, dg.st)]))
                 /\ \A i \in 1..Len(tx) : tx[i].dst = dg.src /\ tx[i].sk = dg.sk /\ tx[i].ifx = dg.ifx /\ tx[i].k = "resp"
                 /\ Len(dg.st) <= 350 =>
                      \A lk \in live : \A m \in SearchSet(s, lk, dg.st) :
                         \E i \in 1..Len(tx) : tx[i].nt = m[1] /\ tx[i].usn = m[2]
                 /\ \A i \in 1..Len(tx) : \E lk \in live : <<tx[i].nt, tx[i].usn>> \in SearchSet(s, lk, dg.st)
       IN IF ok THEN s1 ELSE Viol(s1, "search-set")

(* ------------------------------------------------------------------ create / destroy *)
(* cfg = [kind, v4, v6, byebye, sp, sockfail]; kind: "custom" (own SERVER string), "default" (def_settings + the flags),
   "asis" (def_settings unchanged), "null" (settings pointer NULL), "nofam" (flags without a family) *)
Create(s0, cfg) ==
  LET s == InitS(s0.fx)
      dflt == cfg.kind \in {"asis", "null"}
      v4 == IF dflt THEN Has(s, "defflags") ELSE cfg.v4
      v6 == IF dflt THEN Has(s, "defflags") ELSE cfg.v6
      bye == IF dflt THEN TRUE ELSE cfg.byebye
      srvf == IF cfg.kind = "custom" THEN "cfg" ELSE IF Has(s, "server") THEN "os-upnp-product" ELSE "upnp-product"
      base == [s EXCEPT !.v4 = v4, !.v6 = v6, !.byebye = bye, !.sp = IF dflt THEN 1900 ELSE cfg.sp, !.srvf = srvf]
  IN IF cfg.kind = "asis" /\ ~v4 /\ ~v6 THEN [s |-> Viol(s, "dead-default"), rc |-> "EINVAL"]
     ELSE IF cfg.kind # "null" /\ ~v4 /\ ~v6 THEN [s |-> s, rc |-> "EINVAL"]
     ELSE IF v4 /\ cfg.sockfail = 4 THEN [s |-> s, rc |-> "EMFILE"]
     ELSE IF v6 /\ cfg.sockfail = 6
          THEN [s |-> IF v4 THEN Emit(s, [e |-> "close", sk |-> 4]) ELSE s, rc |-> "EMFILE"]
     ELSE LET s1 == [base EXCEPT !.alive = TRUE, !.socks = (IF v4 THEN {4} ELSE {}) \cup (IF v6 THEN {6} ELSE {})]
          IN [s |-> IF ~v4 /\ ~v6 THEN Viol(s1, "dead-default") ELSE s1, rc |-> "0"]

(* the shipped loops: for (i = 0; i < cnt; i ++) del(a[i]) while del() swap-removes: every second object is skipped *)
RECURSIVE DestroyDevsShipped(_, _)
DestroyDevsShipped(s, i) == IF i > Len(s.devs) THEN s ELSE DestroyDevsShipped(DevDel(s, s.devs[i]), i + 1)
RECURSIVE DestroyIfsShipped(_, _)
DestroyIfsShipped(s, i) == IF i > Len(s.ifs) THEN s ELSE DestroyIfsShipped(IfDel(s, s.ifs[i].ix), i + 1)
(* repaired: every device and interface is deleted.  The order is not part of the property; the proposed patch deletes
   the last element until the array is empty ("rev"), deleting slot 0 until empty ("fwd") is as good - the exhaustive
   model uses "rev", trace validation accepts either *)
RECURSIVE DestroyDevsAll(_, _)
DestroyDevsAll(s, ord) == IF Len(s.devs) = 0 THEN s ELSE DestroyDevsAll(DevDel(s, s.devs[IF ord = "rev" THEN Len(s.devs) ELSE 1]), ord)
RECURSIVE DestroyIfsAll(_, _)
DestroyIfsAll(s, ord) == IF Len(s.ifs) = 0 THEN s ELSE DestroyIfsAll(IfDel(s, s.ifs[IF ord = "rev" THEN Len(s.ifs) ELSE 1].ix), ord)
DestroyOrd(s, ord) ==
  LET s1 == IF ~s.devsarr THEN s ELSE IF Has(s, "destroyall") THEN DestroyDevsAll(s, ord) ELSE DestroyDevsShipped(s, 1)
      s2 == [s1 EXCEPT !.allocs = @ - (IF s.devsarr THEN 1 ELSE 0)]
      s3 == IF ~s.ifsarr THEN s2 ELSE IF Has(s, "destroyall") THEN DestroyIfsAll(s2, ord) ELSE DestroyIfsShipped(s2, 1)
      s4 == [s3 EXCEPT !.allocs = @ - (IF s.ifsarr THEN 1 ELSE 0)]
      s5 == IF 4 \in s.socks THEN Emit(s4, [e |-> "close", sk |-> 4]) ELSE s4
      s6 == IF 6 \in s.socks THEN Emit(s5, [e |-> "close", sk |-> 6]) ELSE s5
      left == Len(s6.devs)
      s7 == [s6 EXCEPT !.alive = FALSE, !.socks = {}, !.zomb = @ + left]
  IN IF left > 0 \/ Len(s7.ifs) > 0 THEN Viol(s7, IF left > 0 THEN "zombie-timer" ELSE "destroy-leak") ELSE s7
Destroy(s) == DestroyOrd(s, "rev")

(* ------------------------------------------------------------------ ledger as the binding observes it *)
Timers(s)  == (IF s.alive THEN Len(s.devs) ELSE 0) + s.zomb
NSocks(s)  == Cardinality(s.socks)
NDevs(s)   == Len(s.devs)
NIfs(s)    == Len(s.ifs)

(* ------------------------------------------------------------------ invariants *)
LiveLinks(s) == {lk \in 1..Len(s.link) : s.link[lk].live}
InvReg(s) ==
  /\ \A i, j \in 1..Len(s.devs) : i # j => s.devs[i] # s.devs[j]
  /\ \A d \in Devs : s.dev[d].used <=> d \in Range(s.devs)
  /\ \A i, j \in 1..Len(s.ifs) : i # j => s.ifs[i].ix # s.ifs[j].ix
  /\ \A lk \in LiveLinks(s) :
        LET L == s.link[lk] IN
        /\ s.dev[L.dev].used /\ IfPos(s, L.ix) # 0
        /\ Cardinality({i \in 1..Len(s.dev[L.dev].links) : s.dev[L.dev].links[i] = lk}) = 1
        /\ Cardinality({i \in 1..Len(s.ifs[IfPos(s, L.ix)].links) : s.ifs[IfPos(s, L.ix)].links[i] = lk}) = 1
  /\ \A d \in Range(s.devs) : \A i \in 1..Len(s.dev[d].links) :
        s.dev[d].links[i] \in LiveLinks(s) /\ s.link[s.dev[d].links[i]].dev = d
  /\ \A p \in 1..Len(s.ifs) : \A i \in 1..Len(s.ifs[p].links) :
        s.ifs[p].links[i] \in LiveLinks(s) /\ s.link[s.ifs[p].links[i]].ix = s.ifs[p].ix
InvGroups(s) ==
  s.joined = {<<s.ifs[p].ix, g>> : p \in 1..Len(s.ifs), g \in (IF s.v4 THEN {"mc4"} ELSE {}) \cup (IF s.v6 THEN {"site", "link"} ELSE {})}
(* allocation count of the registries (beyond what create itself allocated) *)
InvAllocs(s) ==
  s.allocs = (IF s.devsarr /\ s.alive THEN 1 ELSE 0) + (IF s.ifsarr /\ s.alive THEN 1 ELSE 0)
             + SumFn([d \in Range(s.devs) |-> 1 + (IF s.dev[d].svcarr THEN 1 ELSE 0) + Len(s.dev[d].svcs) + (IF s.dev[d].linkarr THEN 1 ELSE 0)])
             + SumFn([p \in 1..Len(s.ifs) |-> 1 + (IF s.ifs[p].arr THEN 1 ELSE 0)])
             + Cardinality(LiveLinks(s))
InvLedger(s) ==
  /\ s.alive => (s.zomb = 0 /\ s.socks = (IF s.v4 THEN {4} ELSE {}) \cup (IF s.v6 THEN {6} ELSE {}))
  /\ ~s.alive => (s.zomb = 0 /\ s.socks = {} /\ s.joined = {} /\ s.allocs = 0 /\ s.devs = << >> /\ s.ifs = << >>)
=============================================================================
