SPECIFICATION Spec
CONSTANTS
  NIds = 2
  Ident = FALSE
  Dev = {"socket-create-failure-null-deref"}
  JitClasses = {"zero"}
  Plan = "one"
  Kinds = {"good", "badauth", "wrongid", "wrongsrc", "reqcode"}
  MaxFlips = 1
  MaxReplies = 3
  AllowCancel = TRUE
  AllowDestroy = TRUE
  PortReuse = TRUE
INVARIANTS IMemSafe
CHECK_DEADLOCK FALSE
