SPECIFICATION TSpec
CHECK_DEADLOCK FALSE
