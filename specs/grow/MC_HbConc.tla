------------------------------ MODULE MC_HbConc ------------------------------
(* Concurrent model of hash_bucket.h: threads run usage protocols; every step is ONE critical section of the
   implementation (what happens between taking and releasing a zone mutex, or one unprotected access):
     get            lock, scan, unlock-per-flags                                      (1 step, blocks on the mutex)
     add            [lock] link at head, zone->count++, read hbskt->count | write hbskt->count, [unlock]   (2 steps)
     remove         read entry->zone | lock, unlink, zone->count--, read hbskt->count | write it,
                    entry->zone = NULL, unlock                                                             (3 steps)
     zone enum      lock, walk with callbacks (callback may remove + free the visited entry), unlock       (1 step)
   hbskt->count is shared by all zones and only protected by the zone mutex of the caller: AtomicTotal = FALSE is the
   shipped code (read and write are separate steps), TRUE a code whose counter update is atomic.
   Protocols (constant Protos):
     uadd  documented unique add: get(F_LOCK) -> found: use, zone_unlock | not found: add(NO_LOCK)
     del   get(0) -> found (zone locked): remove, zone_unlock, free the entry
     look  get(0) -> found: use the entry, zone_unlock
     enum  hbucket_entry_enum; the callback removes and frees the entries whose key is in rk
     nadd  (negative control) get(0) -> not found (unlocked!) -> add(0)       => duplicate keys
     cdel  (negative control) get(S_UNLOCK) "be careful" -> remove -> free    => use after free / remove of unlinked
   Entry objects are used once: free -> in the table -> freed (a freed object is never handed out again, so any
   later access to it is a use after free). *)
EXTENDS HashBucket, TLC
CONSTANTS NZ, NE, NK, Threads, Protos, AtomicTotal, EnumRks
VARIABLES hb, th, est, bad
vars == << hb, th, est, bad >>

Keys == 0..(NK - 1)
KeySeq == [e \in 1..NE |-> (e - 1) % NK]
Ents == 1..NE
Zones == 0..(NZ - 1)
Idle == [pc |-> "idle", k |-> 0, e |-> None, z |-> 0, zr |-> 0, tmp |-> 0, fl |-> 0, hold |-> FALSE,
         zi |-> 0, rk |-> {}, live0 |-> {}, seen |-> << >>, dist |-> {}]

Init == /\ hb = New(TRUE, NZ, KeySeq) /\ th = [t \in Threads |-> Idle]
        /\ est = [e \in Ents |-> "free"] /\ bad = {}

\* entries other threads added or removed while thread u enumerates
Disturb(T, t, es) == [u \in Threads |-> IF u # t /\ T[u].pc = "en" THEN [T[u] EXCEPT !.dist = @ \cup es] ELSE T[u]]
Uaf(es) == IF \E e \in es : est[e] = "freed" THEN {"use-after-free"} ELSE {}
SetTh(t, r) == th' = [th EXCEPT ![t] = r]

(* ---- start of a protocol unit: the get *)
Begin(t) ==
  /\ th[t].pc = "idle"
  /\ \E p \in Protos :
       \/ /\ p \in {"uadd", "del", "look", "nadd", "cdel"}
          /\ \E k \in Keys :
               LET fl == CASE p = "uadd" -> GET_F_LOCK [] p = "cdel" -> GET_S_UNLOCK [] OTHER -> 0
                   z == ZoneOfKey(hb, k) IN
               /\ CanLock(hb, t, z)
               /\ LET r == Get(hb, t, k, fl)
                      pc == CASE p = "uadd" -> IF r.e # None THEN "use" ELSE "ua_nf"
                              [] p = "del"  -> IF r.e # None THEN "rm0" ELSE "idle"
                              [] p = "look" -> IF r.e # None THEN "use" ELSE "idle"
                              [] p = "nadd" -> IF r.e # None THEN "use" ELSE "na_nf"
                              [] p = "cdel" -> IF r.e # None THEN "rm0" ELSE "idle" IN
                  /\ hb' = r.S
                  /\ SetTh(t, [Idle EXCEPT !.pc = pc, !.k = k, !.e = r.e, !.z = z, !.hold = (p = "del")])
                  /\ UNCHANGED << est, bad >>
       \/ /\ p = "enum"
          /\ \E rk \in EnumRks :
               SetTh(t, [Idle EXCEPT !.pc = "en", !.rk = rk, !.live0 = InTable(hb)])
          /\ UNCHANGED << hb, est, bad >>

(* ---- found, zone locked: use the entry, unlock *)
Use(t) ==
  /\ th[t].pc = "use"
  /\ bad' = bad \cup Uaf({th[t].e})
  /\ hb' = Unlock(hb, t, th[t].z) /\ SetTh(t, Idle) /\ UNCHANGED est

(* ---- add, first critical section (uadd: the zone is still locked from the get; nadd: it is not) *)
FreeEnt(k) == {e \in Ents : est[e] = "free" /\ KeySeq[e] = k}
AddBegin(t) ==
  /\ th[t].pc \in {"ua_nf", "na_nf"}
  /\ LET U == th[t]  fl == IF U.pc = "ua_nf" THEN ADD_NO_LOCK ELSE 0 IN
     IF FreeEnt(U.k) = {}
     THEN /\ hb' = (IF U.pc = "ua_nf" THEN Unlock(hb, t, U.z) ELSE hb) /\ SetTh(t, Idle) /\ UNCHANGED << est, bad >>
     ELSE LET e == MinOfSet(FreeEnt(U.k))  S1 == Add1(hb, t, e, fl, U.z) IN
          /\ (fl = 0 => CanLock(hb, t, U.z))
          /\ hb' = (IF AtomicTotal THEN [S1 EXCEPT !.total = @ + 1] ELSE S1)
          /\ est' = [est EXCEPT ![e] = "in"]
          /\ th' = Disturb([th EXCEPT ![t] = [U EXCEPT !.pc = "add2", !.e = e, !.fl = fl, !.tmp = S1.total]], t, {e})
          /\ UNCHANGED bad
AddEnd(t) ==
  /\ th[t].pc = "add2"
  /\ hb' = Add2(hb, t, th[t].fl, th[t].z, IF AtomicTotal THEN hb.total ELSE th[t].tmp + 1)
  /\ SetTh(t, Idle) /\ UNCHANGED << est, bad >>

(* ---- remove: unprotected read of entry->zone | locked section | write-back of the total, unlock *)
Rm0(t) ==
  /\ th[t].pc = "rm0"
  /\ bad' = bad \cup Uaf({th[t].e})
  /\ LET zr == hb.ez[th[t].e] IN
     SetTh(t, [th[t] EXCEPT !.pc = IF zr = NoZone THEN (IF th[t].hold THEN "unl" ELSE "free") ELSE "rm1", !.zr = zr])
  /\ UNCHANGED << hb, est >>
RmLocked(t) ==
  /\ th[t].pc = "rm1" /\ CanLock(hb, t, th[t].zr)
  /\ LET U == th[t] IN
     IF hb.ez[U.e] = NoZone                 \* TAILQ_REMOVE(&entry->zone->entry_head ...) with entry->zone == NULL
     THEN /\ bad' = bad \cup {"remove-of-unlinked-entry"} \cup Uaf({U.e})
          /\ SetTh(t, Idle) /\ UNCHANGED << hb, est >>
     ELSE LET S1 == Rm1(hb, t, U.e, U.zr) IN
          /\ hb' = (IF AtomicTotal THEN [S1 EXCEPT !.total = @ - 1] ELSE S1)
          /\ th' = Disturb([th EXCEPT ![t] = [U EXCEPT !.pc = "rm2", !.tmp = S1.total]], t, {U.e})
          /\ bad' = bad \cup Uaf({U.e}) /\ UNCHANGED est
RmEnd(t) ==
  /\ th[t].pc = "rm2"
  /\ hb' = Rm2(hb, t, th[t].e, th[t].zr, IF AtomicTotal THEN hb.total ELSE th[t].tmp - 1)
  /\ SetTh(t, [th[t] EXCEPT !.pc = IF th[t].hold THEN "unl" ELSE "free"])
  /\ UNCHANGED << est, bad >>
UnlockAfterRm(t) ==
  /\ th[t].pc = "unl"
  /\ hb' = Unlock(hb, t, th[t].z) /\ SetTh(t, [th[t] EXCEPT !.pc = "free"]) /\ UNCHANGED << est, bad >>
FreeEntry(t) ==
  /\ th[t].pc = "free"
  /\ bad' = bad \cup (IF est[th[t].e] = "freed" THEN {"double-free"} ELSE {})
                \cup (IF hb.ez[th[t].e] # NoZone THEN {"freed-while-linked"} ELSE {})
  /\ est' = [est EXCEPT ![th[t].e] = "freed"] /\ SetTh(t, Idle) /\ UNCHANGED hb

(* ---- hbucket_entry_enum: one zone per step *)
EnumOK(U) ==
  /\ Len(U.seen) = Cardinality(RangeOf(U.seen))                       \* nothing twice
  /\ \A e \in U.live0 \ U.dist : e \in RangeOf(U.seen)               \* stayed in the table => visited
  /\ RangeOf(U.seen) \subseteq U.live0 \cup U.dist                   \* nothing that never was there
EnumZone(t) ==
  /\ th[t].pc = "en" /\ CanLock(hb, t, th[t].zi)
  /\ LET U == th[t]
         rm == {e \in Ents : KeySeq[e] \in U.rk}
         r == ZEnum(hb, t, U.zi, rm, None)
         gone == rm \cap RangeOf(r.vis)
         U2 == [U EXCEPT !.seen = @ \o r.vis, !.zi = @ + 1] IN
     /\ hb' = r.S
     /\ est' = [e \in Ents |-> IF e \in gone THEN "freed" ELSE est[e]]
     /\ bad' = bad \cup Uaf(RangeOf(r.vis))
                   \cup (IF U.zi + 1 = NZ /\ ~EnumOK(U2) THEN {"enumeration"} ELSE {})
     /\ th' = Disturb([th EXCEPT ![t] = IF U.zi + 1 = NZ THEN Idle ELSE U2], t, gone)

ThreadStep(t) == \/ Begin(t) \/ Use(t) \/ AddBegin(t) \/ AddEnd(t) \/ Rm0(t) \/ RmLocked(t) \/ RmEnd(t)
                 \/ UnlockAfterRm(t) \/ FreeEntry(t) \/ EnumZone(t)
Next == \E t \in Threads : ThreadStep(t)
Spec == Init /\ [][Next]_vars
FairSpec == Spec /\ \A t \in Threads : SF_vars(ThreadStep(t))

(* ---------------- properties *)
\* HB1: structure; between the two halves of a remove the entry is already unlinked but still names its zone
MidRemove == {th[t].e : t \in {u \in Threads : th[u].pc = "rm2"}}
Struct == StructOK([hb EXCEPT !.ez = [e \in Ents |-> IF e \in MidRemove THEN NoZone ELSE hb.ez[e]]])
\* HB2
ZoneCounts == ZoneCountsOK(hb) /\ \A z \in Zones : hb.zc[z] >= 0
TotalNonNeg == hb.total >= 0
TotalQuiescent == (\A t \in Threads : th[t].pc = "idle") => hb.total = SumLen(hb, 0)
TotalAlways == AtomicTotal => hb.total = SumLen(hb, 0)
\* HB3
UniqueKeys == \A e1, e2 \in InTable(hb) : e1 # e2 => KeySeq[e1] # KeySeq[e2]
\* HB5
Holding(t) == \/ th[t].pc \in {"use", "ua_nf", "unl"}
              \/ th[t].pc \in {"rm0", "rm1", "rm2"} /\ th[t].hold
              \/ th[t].pc = "add2"
Locks ==
  /\ LocksOK(hb)
  /\ \A z \in Zones : hb.own[z] # None =>
        LET t == hb.own[z] IN th[t].pc # "idle" /\ (th[t].pc = "en" \/ (Holding(t) /\ th[t].z = z) \/ th[t].pc = "rm2")
  /\ \A t \in Threads : Holding(t) => hb.own[th[t].z] = t
IdleHoldsNothing == \A t \in Threads : th[t].pc = "idle" => \A z \in Zones : hb.own[z] # t
\* HB4 + HB6
NoBad == bad = {}
\* every started unit ends (strong fairness: a thread that can take the mutex again and again gets it eventually)
Live == \A t \in Threads : (th[t].pc # "idle") ~> (th[t].pc = "idle")
=============================================================================
