SPECIFICATION Spec
CONSTANTS
  Origins <- OriginsSmall
  NameIdx = {1, 2}
  Cts = {2}
  Ccis = {0, 1}
  Ticks = {1, 1000}
  MaxNow = 2001
  MaxRc = 2
  Dev = {}
  Emit = FALSE
  Unsafe = TRUE
INVARIANTS Inv PostOK FdOK
CHECK_DEADLOCK FALSE
