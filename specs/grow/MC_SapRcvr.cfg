SPECIFICATION Spec
CONSTANTS
  SapNB = 8
  Mode = "filter"
  Origins <- OriginsOne
  NameIdx = {1, 2}
  Cts = {0, 2}
  Ccis = {0, 1}
  Times <- TimesSmall
  MaxNow = 2003
  MaxRc = 2
  Dev = {}
  Emit = FALSE
  Unsafe = TRUE
INVARIANTS Inv PostOK FdOK
CHECK_DEADLOCK FALSE
