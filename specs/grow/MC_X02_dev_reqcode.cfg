SPECIFICATION Spec
CONSTANTS
  NIds = 2
  Ident = FALSE
  Dev = {"request-code-datagram-accepted-without-authenticator"}
  JitClasses = {"zero"}
  Plan = "one"
  Kinds = {"good", "badauth", "wrongid", "wrongsrc", "reqcode"}
  MaxFlips = 1
  MaxReplies = 3
  AllowCancel = TRUE
  AllowDestroy = TRUE
  PortReuse = TRUE
INVARIANTS IMatch
CHECK_DEADLOCK FALSE
