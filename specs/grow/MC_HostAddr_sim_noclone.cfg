SPECIFICATION SimSpec
CONSTANTS
  HAPREALLOC = 8
  NObj = 3
  Texts = {"h", "example.org", "example.org:8080", "h:81", "[::1]", "[::1]:81", "::1", "fe80::2", "[fe80::2]", "[2001:db8::7]:443", "h:", ":80", "h:8a0", "h:70000", "a.b.c.d.e.f.g.h.i.j.k.l.m.n.o.p.q.r.s.t.u.v.w.x.y.z.a.b.c.d.e.f.g.h.i.j.k.l.m.n.o.p.q.r.s.t.u.v.w.x.y.z:1", "@null", "@empty"}
  DefPorts = {0, 80}
  Addrs <- AddrsBig
  Answers <- AnswersBig
  MaxAddrs = 20
  Dev = {}
  Emit = TRUE
  WithClone = FALSE
INVARIANTS Inv PostOK EmitInv
CHECK_DEADLOCK FALSE
