----------------------------- MODULE TpApiGenSet -----------------------------
(* Generator for property group D of TpApi: setting texts over a small alphabet (xml / ini), the structure
   tp_settings_load_xml / _ini must leave behind, and what tp_create must make of it.
   x.items is the text as a sequence of (name, value) pairs; the rig renders  <name>value</name>...  or
   [section] name=value lines.  Expectation fields say "any" where the text is not well formed enough for the
   property to demand a particular result (the library's choice is recorded as an observation, not judged). *)
EXTENDS TpApi, Json
CONSTANT Tier

Quick == Tier = "quick"
BindVals == {"yes", "no", "1", "0", "true", "false", "Y", "N", "t", "f", "", "maybe", "on", "2", "nope", "10"}
NumVals  == {"0", "1", "3", "8", "007", "", "x", "12x", "-1", "300", "4294967296", "18446744073709551615"}
It(k, v) == [k |-> k, v |-> v]
X(fam, fmt, init, nulls, lookup, where, items, ncpu) ==
    [fam |-> fam, fmt |-> fmt, init |-> init, nulls |-> nulls, lookup |-> lookup, where |-> where, items |-> items, ncpu |-> ncpu]
Fmts == {"xml", "ini"}
FamOne == { X("one", f, i, "none", "tp", "tp", << It(k, v) >>, 3) : f \in Fmts, i \in {"def", "preset", "presetb"},
              k \in {"fBindToCPU", "fbindtocpu"}, v \in BindVals }
          \cup { X("one", f, i, "none", "tp", "tp", << It(k, v) >>, 3) : f \in Fmts, i \in {"def", "preset", "presetb"},
              k \in {"threadsCountMax", "THREADSCOUNTMAX"}, v \in NumVals }
          \cup { X("one", f, i, "none", "tp", "tp", << It("somethingElse", "1") >>, 3) : f \in Fmts, i \in {"def", "preset", "presetb"} }
          \cup { X("one", f, i, "none", "tp", "tp", << >>, 3) : f \in Fmts, i \in {"def", "preset", "presetb"} }
FamPair == { X("pair", f, i, "none", "tp", "tp", IF o = 0 THEN << It("fBindToCPU", b), It("threadsCountMax", n) >>
                                                           ELSE << It("threadsCountMax", n), It("somethingElse", "9"), It("fBindToCPU", b) >>, 3) :
              f \in Fmts, i \in {"preset", "presetb"}, o \in {0, 1}, b \in (IF Quick THEN {"yes", "no", "maybe", ""} ELSE BindVals),
              n \in (IF Quick THEN {"0", "3", "8", "12x", "300", "18446744073709551615"} ELSE NumVals) }
FamCpu == { X("cpu", "xml", "def", "none", "tp", "tp", << It("fBindToCPU", b), It("threadsCountMax", n) >>, c) :
              b \in {"yes", "no"}, n \in {"0", "1", "3", "8"}, c \in {3, 1, -1, 8} }
FamNull == { X("null", f, "presetb", nl, "tp", "tp", << It("fBindToCPU", "no"), It("threadsCountMax", "5") >>, 3) :
              f \in Fmts, nl \in {"buf", "size", "s", "sect"} }
FamSect == { X("sect", "ini", "presetb", "none", lk, wh, << It("fBindToCPU", "no"), It("threadsCountMax", "5") >>, 3) :
              lk \in {"tp", "TP", "zz"}, wh \in {"tp", "other"} }
Cases == FamOne \cup FamPair \cup FamCpu \cup { x \in FamNull : x.nulls = "sect" => x.fmt = "ini" } \cup FamSect
         \cup { X("def", "def", "def", "none", "tp", "tp", << >>, 3) }

(* ---- the reference ---- *)
InitBind(i) == i \in {"def", "presetb"}
InitCount(i) == IF i = "def" THEN "0" ELSE "7"
Visible(x) == x.fmt = "xml" \/ SectMatches(x.lookup, x.where)
FirstIdx(x, keys) == LET S == {j \in 1..Len(x.items) : x.items[j].k \in keys} IN IF S = {} THEN 0 ELSE CHOOSE j \in S : \A q \in S : j <= q
BindExp(x) == LET j == FirstIdx(x, BindKeys(x.fmt)) IN
              IF ~Visible(x) \/ j = 0 THEN (IF InitBind(x.init) THEN "T" ELSE "F")
              ELSE CASE FlagEffect(x.items[j].v) = "set" -> "T"
                     [] FlagEffect(x.items[j].v) = "clear" -> "F"
                     [] FlagEffect(x.items[j].v) = "keep" -> (IF InitBind(x.init) THEN "T" ELSE "F")
                     [] OTHER -> "any"
CountExp(x) == LET j == FirstIdx(x, CountKeys(x.fmt)) IN
               IF ~Visible(x) \/ j = 0 THEN InitCount(x.init)
               ELSE IF NumEffect(x.items[j].v)[1] = "exact" THEN NumEffect(x.items[j].v)[2] ELSE "any"
CountText(x) == LET j == FirstIdx(x, CountKeys(x.fmt)) IN IF ~Visible(x) \/ j = 0 THEN "" ELSE x.items[j].v
Cpus(x) == IF x.ncpu < 1 THEN 1 ELSE x.ncpu
CreateExp(x) ==
    LET b == BindExp(x)  t == CountExp(x) IN
    IF x.nulls # "none" THEN [class |-> "skip", n |-> 0, cpus |-> << >>]
    ELSE IF CountText(x) = "18446744073709551615" THEN [class |-> "refuse", n |-> 0, cpus |-> << >>]      \* cannot exist: must be refused, not corrupt memory
    ELSE IF b = "any" \/ t = "any" THEN [class |-> "skip", n |-> 0, cpus |-> << >>]
    ELSE IF Len(t) <= 1 /\ NatOf(t) <= 8
         THEN LET n == CountMax(NatOf(t), Cpus(x)) IN
              [class |-> "exact", n |-> n, cpus |-> [k \in 1..n |-> CpuOf(b = "T", Cpus(x), k - 1)]]
    ELSE IF t = "300" THEN [class |-> "may-refuse", n |-> 300, cpus |-> << >>]     \* more threads than descriptors allow: refused or exact
    ELSE [class |-> "skip", n |-> 0, cpus |-> << >>]
Expect(x) ==
    IF x.fmt = "def" THEN [rc |-> 0, bind |-> "T", count |-> "0", cloexec |-> FALSE, oflags |-> 0, name |-> "TP", create |-> [class |-> "skip", n |-> 0, cpus |-> << >>]]
    ELSE IF x.nulls # "none"
    THEN [rc |-> EINVAL, bind |-> IF InitBind(x.init) THEN "T" ELSE "F", count |-> InitCount(x.init),
          cloexec |-> x.init = "preset", oflags |-> IF x.init = "def" THEN 0 ELSE 16, name |-> "", create |-> CreateExp(x)]
    ELSE [rc |-> 0, bind |-> BindExp(x), count |-> CountExp(x),
          cloexec |-> x.init = "preset", oflags |-> IF x.init = "def" THEN 0 ELSE 16, name |-> "", create |-> CreateExp(x)]

VARIABLES gs, fresh
Init == gs = X("init", "xml", "def", "none", "tp", "tp", << >>, 3) /\ fresh = TRUE
Next == /\ fresh /\ fresh' = FALSE
        /\ \E x \in Cases : gs' = x
Spec == Init /\ [][Next]_<<gs, fresh>>

(* ---- algebra of the reference ---- *)
EX == Expect(gs)
AbsentKeeps == (gs.fmt # "def" /\ gs.items = << >>) => (EX.bind = (IF InitBind(gs.init) THEN "T" ELSE "F") /\ EX.count = InitCount(gs.init))
WorkersInRange == EX.create.class = "exact" => (EX.create.n >= 1 /\ Len(EX.create.cpus) = EX.create.n
                    /\ \A k \in 1..EX.create.n : EX.create.cpus[k] \in -1..(Cpus(gs) - 1))
BindingIsRotation == (EX.create.class = "exact" /\ EX.bind = "T") =>
                        \A k \in 1..EX.create.n : EX.create.cpus[k] = (k - 1) % Cpus(gs)
NoBindingNoCpu == (EX.create.class = "exact" /\ EX.bind = "F") => \A k \in 1..EX.create.n : EX.create.cpus[k] = -1
ZeroMeansCpus == (EX.create.class = "exact" /\ EX.count = "0") => EX.create.n = Cpus(gs)
Emit == PrintT(ToJson([x |-> gs, exp |-> EX]))
=============================================================================
