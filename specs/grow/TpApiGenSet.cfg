SPECIFICATION Spec
CONSTANT Tier = "quick"
INVARIANTS AbsentKeeps WorkersInRange BindingIsRotation NoBindingNoCpu ZeroMeansCpus
CONSTRAINT Emit
CHECK_DEADLOCK FALSE
