SPECIFICATION Spec
CONSTANTS BufSz = 6 BmSzP1 = 0 MaxFrags = 3 SeqNeg = 3 SeqHi = 3 MaxSize = 3
CONSTANT Fix <- FixNoSum
INVARIANT NoR3
CHECK_DEADLOCK FALSE
