------------------------------ MODULE HostAddr ------------------------------
(* The host address object  /repo/include/net/host_address.h  (growth task X09): a host name, a port and the list of
   socket addresses the name stands for; the HTTP client keeps one per connection (host_addr_alloc from the URL host,
   host_addr_add_addr / host_addr_resolv to fill it, host_addr_clone to hand it over).  Single threaded object that owns
   two blocks: the object (name stored behind it) and the address array.

   Properties  (for every history of calls, resolver answers and allocation failures):
   HA1 parse      host_addr_alloc(text, def_port) stores name[:port]: "name" -> (name, def_port); "name:port" ->
                  (name, port); an IPv6 literal is never cut: "[v6]:port" -> ("[v6]", port), "[v6]" and a bare "v6"
                  (two or more colons, no brackets) -> (text, def_port).  NULL / empty text -> NULL.   [ParsePost]
                  The port text is read as the shipped ustr2u16 reads it (digits only, other characters skipped, value
                  modulo 65536, "" -> 0): leniency modelled as it is.
                  DEVIATION "v6split": the shipped code cuts at the LAST colon whatever the text is, so "[::1]" becomes
                  name "[:" port 1 and "fe80::2" becomes name "fe80:" port 2 (finding X09 host_addr_alloc:ipv6-literal).
   HA2 add        host_addr_add_addr(a) stores the EFFECTIVE address: a with port 0 replaced by the object's port.  The
                  list never holds two entries with the same family, address and port; adding an address whose effective
                  form is present changes nothing; entries keep their insertion order.           [HaInv, AddPost]
                  DEVIATION "dedup": the shipped code looks for the address BEFORE it fills in the default port, so the
                  same port-less address is stored again by every call (finding X09 host_addr_add_addr:duplicate).
   HA3 queries    host_addr_is_host_addr(a) = 1 iff an entry has the family and address of a (port ignored);
                  host_addr_is_host_soaddr(a) = 1 iff an entry has family, address and port of a; NULL object or NULL
                  address -> 0.                                                                  [QueryPost]
   HA4 clone      host_addr_clone() returns an independent object with the same name, port, addresses (order kept) and
                  capacity; NULL for NULL and on allocation failure; nothing is leaked.            [ClonePost]
                  The shipped code swaps the two allocation sizes (object <- array size, array <- object size): it writes
                  outside both blocks for every object that holds an address (finding X09 host_addr_clone:heap-overflow);
                  no as-is model exists for that, the check runs clone in probes until the finding is gone.
   HA5 resolv     host_addr_resolv() asks getaddrinfo for (name, decimal port, PF_UNSPEC, AI_NUMERICSERV); an error of
                  the resolver is returned as it is and the list is untouched; otherwise every AF_INET / AF_INET6 answer
                  is added in order with the add rule HA2, other families are skipped, the answer list is given to
                  freeaddrinfo exactly once and the result is 0 (allocation failures of single adds are swallowed:
                  leniency modelled as it is).                                                    [ResolvPost]
   HA6 ownership  allocation failure in add -> ENOMEM, list unchanged; the library owns one block per object plus one
                  per object that ever stored an address; host_addr_free releases both.           [blocks-owned]

   Object o: [name, port, addrs: sequence of <<family (4/6), address index, port>>, alloc, arr] or HaDead.
   `fail` = k: the k-th allocation of the call fails (0: none).  dev: deviations switched on. *)
EXTENDS Integers, Sequences, FiniteSets, TLC
CONSTANTS HAPREALLOC      \* HOST_ADDR_PREALLOC

HaENOMEM == 12
HaEINVAL == 22
HaDead == [dead |-> 1]
HaIsObj(o) == "addrs" \in DOMAIN o
HaBadArg(t) == t \in {"@null", "@empty"}
HaRange(L) == {L[i] : i \in 1..Len(L)}

(* ---- text *)
HaIdx(s, ch) == {i \in 1..Len(s) : SubSeq(s, i, i) = ch}
HaMax(I) == CHOOSE i \in I : \A j \in I : j <= i
HaDigits == << "0", "1", "2", "3", "4", "5", "6", "7", "8", "9" >>
HaDigit(ch) == LET I == {i \in 1..10 : HaDigits[i] = ch} IN IF I = {} THEN -1 ELSE (CHOOSE i \in I : TRUE) - 1
RECURSIVE HaU16(_, _)
HaU16(s, acc) ==        \* ustr2u16: digits only, everything else skipped, arithmetic modulo 2^16
  IF s = "" THEN acc
  ELSE LET d == HaDigit(SubSeq(s, 1, 1)) IN HaU16(SubSeq(s, 2, Len(s)), IF d < 0 THEN acc ELSE ((acc * 10) + d) % 65536)
HaCutAt(text, k) == [name |-> SubSeq(text, 1, k - 1), port |-> HaU16(SubSeq(text, k + 1, Len(text)), 0)]
HaParse(text, def, dev) ==
  LET C == HaIdx(text, ":")  B == HaIdx(text, "]")  k == IF C = {} THEN 0 ELSE HaMax(C) IN
  IF C = {} THEN [name |-> text, port |-> def]
  ELSE IF "v6split" \in dev THEN HaCutAt(text, k)
  ELSE IF SubSeq(text, 1, 1) = "[" THEN (IF B # {} /\ k < HaMax(B) THEN [name |-> text, port |-> def] ELSE HaCutAt(text, k))
  ELSE IF Cardinality(C) >= 2 THEN [name |-> text, port |-> def]
  ELSE HaCutAt(text, k)

HaNew(text, def, fail, dev) ==
  IF HaBadArg(text) \/ fail = 1 THEN [o |-> HaDead, rc |-> HaENOMEM]
  ELSE LET p == HaParse(text, def, dev) IN
       [o |-> [name |-> p.name, port |-> p.port, addrs |-> << >>, alloc |-> 0, arr |-> FALSE], rc |-> 0]

(* ---- addresses *)
HaEff(o, a) == IF a[3] = 0 THEN << a[1], a[2], o.port >> ELSE a
HaIs(o, a) == IF {i \in 1..Len(o.addrs) : o.addrs[i][1] = a[1] /\ o.addrs[i][2] = a[2]} # {} THEN 1 ELSE 0
HaIsSo(o, a) == IF a \in HaRange(o.addrs) THEN 1 ELSE 0
HaGrows(o) == ~(o.arr /\ o.alloc > Len(o.addrs) /\ o.alloc <= Len(o.addrs) + HAPREALLOC)
HaNewAlloc(o) == ((Len(o.addrs) \div HAPREALLOC) + 1) * HAPREALLOC
(* used: number of allocations the call made (for the fail index of a following add inside resolv) *)
HaAdd(o, a, fail, dev) ==
  IF HaIsSo(o, IF "dedup" \in dev THEN a ELSE HaEff(o, a)) = 1 THEN [o |-> o, rc |-> 0, used |-> 0]
  ELSE IF HaGrows(o) /\ fail = 1 THEN [o |-> o, rc |-> HaENOMEM, used |-> 1]
  ELSE [o |-> [o EXCEPT !.addrs = Append(@, HaEff(o, a)), !.alloc = IF HaGrows(o) THEN HaNewAlloc(o) ELSE @, !.arr = TRUE],
        rc |-> 0, used |-> IF HaGrows(o) THEN 1 ELSE 0]

HaClone(o, fail) ==
  IF fail = 1 \/ (fail = 2 /\ o.alloc > 0) THEN [o |-> HaDead, rc |-> HaENOMEM]
  ELSE [o |-> o, rc |-> 0]

RECURSIVE HaAddAll(_, _, _, _)
HaAddAll(o, ans, fail, dev) ==
  IF ans = << >> THEN o
  ELSE LET a == Head(ans) IN
       IF a[1] \notin {4, 6} THEN HaAddAll(o, Tail(ans), fail, dev)
       ELSE LET r == HaAdd(o, a, fail, dev) IN HaAddAll(r.o, Tail(ans), IF fail > 0 THEN fail - r.used ELSE 0, dev)
(* fail - used can reach 0 only when the failing allocation was just consumed; a spent counter must not re-arm *)
HaResolv(o, gairc, ans, fail, dev) ==
  IF gairc # 0 THEN [o |-> o, rc |-> gairc, frees |-> 0]
  ELSE [o |-> HaAddAll(o, ans, fail, dev), rc |-> 0, frees |-> 1]
HaServ(o) == ToString(o.port)

HaBlocks(o) == IF HaIsObj(o) THEN 1 + (IF o.arr THEN 1 ELSE 0) ELSE 0
HaInv(o) ==
  HaIsObj(o) =>
    /\ \A i, j \in 1..Len(o.addrs) : i # j => o.addrs[i] # o.addrs[j]
    /\ Len(o.addrs) <= o.alloc /\ (o.alloc > 0) = o.arr /\ o.alloc % HAPREALLOC = 0
    /\ o.port \in 0..65535
=============================================================================
