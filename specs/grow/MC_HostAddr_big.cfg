SPECIFICATION Spec
CONSTANTS
  HAPREALLOC = 2
  NObj = 2
  Texts = {"h", "h:81", "[::1]", "[::1]:81", "::1", "h:", "@empty"}
  DefPorts = {0, 80}
  Addrs <- AddrsSmall
  Answers <- AnswersSmall
  MaxAddrs = 3
  Dev = {}
  Emit = FALSE
  WithClone = TRUE
INVARIANTS Inv PostOK
CHECK_DEADLOCK TRUE
