SPECIFICATION Spec
CONSTANTS
  NIds = 2
  Ident = FALSE
  Dev = {"socket-freed-inside-its-receive-callback"}
  JitClasses = {"zero"}
  Plan = "fixed"
  Kinds = {"good", "badauth", "wrongid", "wrongsrc", "reqcode"}
  MaxFlips = 1
  MaxReplies = 3
  AllowCancel = TRUE
  AllowDestroy = TRUE
  PortReuse = TRUE
INVARIANTS IMemSafe
CHECK_DEADLOCK FALSE
