SPECIFICATION Spec
CONSTANTS
  MaxSlot = 64
INVARIANTS Conforms
CHECK_DEADLOCK FALSE
