SPECIFICATION Spec
CONSTANT Tier = "quick"
INVARIANTS RefusalKeepsState ValidationBeforeKernel NullFirst InstalledShape DisableSilences ReadWriteDisjoint TimerShape ClockFollowsLastCall DeleteRemoves ShortFormsZero
CONSTRAINT Emit
CHECK_DEADLOCK FALSE
