SPECIFICATION Spec
CONSTANTS
  NIds = 2
  Ident = FALSE
  Dev = {}
  JitClasses = {"zero"}
  Plan = "mixed"
  Kinds = {"good", "wrongsrc", "badauth"}
  MaxFlips = 2
  MaxReplies = 3
  AllowCancel = TRUE
  AllowDestroy = TRUE
  PortReuse = TRUE
INVARIANTS ICompleteOnce INoTxAfterDone ITxBound ISlots IArmed IMatch IDelivered IFailover IQuiescent IDestroyed IMemSafe INas IBufUnits IDuration
CHECK_DEADLOCK FALSE
