SPECIFICATION Spec
CONSTANTS
  MT = TRUE
  NZ = 2
  NE = 3
  NK = 2
  Threads = {1, 2}
  MaxDep = 2
  EnumRm = {{}, {1}, {2, 3}}
  Emit = FALSE
INVARIANTS Inv PostOK
CHECK_DEADLOCK TRUE
