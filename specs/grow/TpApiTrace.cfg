SPECIFICATION TSpec
CONSTANTS Pools = {0, 1, 2}
 MaxN = 8
POSTCONDITION Consumed
CHECK_DEADLOCK FALSE
