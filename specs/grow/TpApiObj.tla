------------------------------- MODULE TpApiObj -------------------------------
(* The object machine behind property groups B, C, E of TpApi: pools, their worker states, the per-thread
   slots, the round-robin cursor and the signal table, as ONE record `s` with pure operators
     Ok<Event>(s, observed fields)   what an observation of the real pool must look like in state s
     <Event>(s, ...)                 the state after the event
   MC_TpApiObj explores the machine exhaustively (invariants at the end); TpApiTrace replays the observations of the
   real library (harness/x08_drv.c `life`) against it.   Thread index n of a pool with n workers is its virtual thread. *)
EXTENDS TpApi
CONSTANTS Pools, MaxN            \* pool ids (small integers), largest worker count

ThrIdx == 0..MaxN                \* workers 0..n-1, virtual thread n
NoPool == [alive |-> FALSE, n |-> 0, bind |-> FALSE, ncpu |-> 1, name |-> "",
           th |-> [t \in ThrIdx |-> "stop"], tls |-> [t \in ThrIdx |-> [i \in 0..(TLS_COUNT - 1) |-> 0]],
           rr |-> -1, shut |-> FALSE, affd |-> {}, started |-> {}, stopped |-> {}]
NoSig == [active |-> FALSE, want |-> NOPOOL, seen |-> FALSE]
Obj0 == [pool |-> [p \in Pools |-> NoPool], slot |-> NOPOOL, sig |-> NoSig]

Alive(s, p) == p \in Pools /\ s.pool[p].alive
Workers(s, p) == 0..(s.pool[p].n - 1)
Count(s, p) == Cardinality({t \in Workers(s, p) : Counted(s.pool[p].th[t])})
(* a thread named by (pool q, index t) as the scenario addresses it: -1 = NULL, n = virtual thread *)
ThrExists(s, q, t) == Alive(s, q) /\ t \in 0..s.pool[q].n

(* ---- create / destroy ---- *)
Create(s, p, n, bind, ncpu, name) ==
    LET nc == IF ncpu < 1 THEN 1 ELSE ncpu IN
    [s EXCEPT !.pool[p] = [NoPool EXCEPT !.alive = TRUE, !.n = CountMax(n, nc), !.bind = bind, !.ncpu = nc, !.name = name]]
OkCreated(s, p, rc, max) == rc = 0 /\ max = s.pool[p].n                                                \* B4
OkDestroy(s, p, rc) == rc = 0 => \A t \in Workers(s, p) : s.pool[p].th[t] = "stop"
Destroy(s, p) == [s EXCEPT !.pool[p] = NoPool, !.slot = IF s.slot = p THEN NOPOOL ELSE s.slot]          \* E: never a destroyed pool

(* ---- B1 / B3 identity ---- *)
OkGet(s, p, k, null, num, cpu, tpok) ==
    LET t == IF k = -2 THEN NULLT ELSE ThreadGet(s.pool[p].n, k) IN
    IF t = NULLT THEN null /\ num = -1 /\ cpu = -1 /\ ~tpok
    ELSE ~null /\ num = k /\ cpu = CpuOf(s.pool[p].bind, s.pool[p].ncpu, k) /\ tpok
OkPvt(s, p, null, cpu, distinct, tpok) == ~null /\ cpu = -1 /\ distinct /\ tpok
(* ---- B4 counts ---- *)
OkCount(s, p, max, cnt) == max = s.pool[p].n /\ cnt = Count(s, p)
LegalStep(from, to, t) == \/ from = "stop" /\ to = "starting"
                          \/ from = "starting" /\ to \in {"running", "stop"}
                          \/ from = "stop" /\ to = "running" /\ t = 0            \* attached first thread
                          \/ from = "running" /\ to = "stoping"
                          \/ from = "stoping" /\ to = "stop"
OkSt(s, p, t, to) == Alive(s, p) /\ t \in Workers(s, p) /\ LegalStep(s.pool[p].th[t], to, t)
St(s, p, t, to) == [s EXCEPT !.pool[p].th[t] = to]
(* ---- B5 current thread ---- *)
OkCur(s, bp, bt, null, p, num, same) == IF bp = -1 THEN null ELSE (~null /\ p = bp /\ num = bt /\ same)
OkIs(s, bp, p, q, t, r) ==
    r = IF p = -1 \/ ~Alive(s, p) THEN FALSE
        ELSE IF t = -1 THEN bp = p                        \* NULL thread: the caller's own pool decides
        ELSE ThrExists(s, q, t) /\ q = p
(* ---- B6 binding ---- *)
OkAff(s, p, t, ncpus, cpu, self, szok) ==
    /\ Alive(s, p) /\ s.pool[p].bind /\ t \in Workers(s, p) /\ t \notin s.pool[p].affd
    /\ ncpus = 1 /\ cpu = CpuOf(TRUE, s.pool[p].ncpu, t) /\ self /\ szok
Aff(s, p, t) == [s EXCEPT !.pool[p].affd = @ \cup {t}]
(* start hook: the thread is running, knows itself, (workers) carries the pool's name and - when asked to - is bound *)
ThreadName(s, p, t) == s.pool[p].name \o ": " \o ToString(t)
OkHookStart(s, p, t, worker, name, run, curself, curnull) ==
    IF worker THEN /\ t \in Workers(s, p) /\ t \notin s.pool[p].started /\ run /\ curself
                   /\ (Len(ThreadName(s, p, t)) <= 15 => name = ThreadName(s, p, t))
                   /\ (s.pool[p].bind <=> t \in s.pool[p].affd)
    ELSE t = s.pool[p].n /\ run /\ curnull
HookStart(s, p, t) == [s EXCEPT !.pool[p].started = @ \cup {t}]
OkHookStop(s, p, t, worker, run, curself) ==
    IF worker THEN t \in s.pool[p].started /\ t \notin s.pool[p].stopped /\ ~run /\ curself ELSE t = s.pool[p].n /\ ~run
HookStop(s, p, t) == [s EXCEPT !.pool[p].stopped = @ \cup {t}]
(* ---- B2 rotation (sequential) ---- *)
OkRR(s, p, num) == RRInRange(s.pool[p].n, num) /\ (s.pool[p].rr # -1 => RRSucc(s.pool[p].n, s.pool[p].rr, num))
RR(s, p, num) == [s EXCEPT !.pool[p].rr = num]
(* ---- C slots ---- *)
TIdx(s, p, t) == IF Alive(s, p) /\ t \in 0..s.pool[p].n THEN t ELSE NULLT
OkTlsSet(s, p, t, i, rc) == rc = TlsSetRc(TIdx(s, p, t), i)
TlsSetP(s, p, t, i, v) == IF Alive(s, p) THEN [s EXCEPT !.pool[p].tls = TlsSet(@, TIdx(s, p, t), i, v)] ELSE s
OkTlsGet(s, p, t, i, v, sz) == v = (IF Alive(s, p) THEN TlsGet(s.pool[p].tls, TIdx(s, p, t), i) ELSE 0) /\ sz = v
(* ---- shutdown / wait ---- *)
ShutdownSet(s, p) == [s EXCEPT !.pool[p].shut = TRUE]
OkWait(s, p, rc) == rc = 0 => (s.pool[p].shut /\ Count(s, p) = 0 /\ \A t \in Workers(s, p) : s.pool[p].th[t] = "stop")
(* ---- E signal table ---- *)
OkSigAdd(s, p, rc) == rc = 0
SigAddP(s, p) == [s EXCEPT !.slot = SigAdd(s.slot, p)]
SigCall(s, sg) == [s EXCEPT !.sig = [active |-> TRUE, want |-> SigShuts(s.slot, sg), seen |-> FALSE], !.slot = SigSlotAfter(s.slot, sg)]
(* tp_shutdown entered on pool p: inside the handler only the registered pool, once *)
OkShutdownCheck(s, p) == s.sig.active => (p = s.sig.want /\ ~s.sig.seen)
ShutdownCheck(s, p) == IF s.sig.active THEN [s EXCEPT !.sig.seen = TRUE] ELSE s
OkSigRet(s) == s.sig.active /\ (s.sig.want # NOPOOL => s.sig.seen)
SigRet(s) == [s EXCEPT !.sig = NoSig]
(* the handler run with nothing alive registered (slot cleared by destroy) touches nothing: it cannot crash *)
OkSigDead(s, crash) == (s.slot = NOPOOL) => ~crash

=============================================================================
