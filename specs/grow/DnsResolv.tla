----------------------------- MODULE DnsResolv -----------------------------
(***************************************************************************************************************
 X03 (growth) - the asynchronous DNS resolver of liblcb: src/proto/dns_resolv.c + include/proto/dns_resolv.h.

 PROPERTIES (what a user of the resolver relies on, for every history of API calls, datagram arrivals - valid,
 wrong id, wrong source, for another question, truncated, duplicated, reordered, late -, timer expiries, clock
 steps, send failures and for every interleaving of them on the resolver's thread):

  P1 answered-once      every lookup started with dns_resolv_hostaddr() gets its callback exactly once (with a
                        result or an error), on the resolver's thread, unless it was cancelled or the resolver
                        was destroyed first; never twice, never after dns_resolv_cancel(), never after destroy.
                        (safety part: ncb <= 1, a lookup that is still running always has a task that works for it
                        - viol "lookup-lost"; liveness part: Answered, under fair timers.)
  P2 chain-notified     lookups for a name whose cache entry is being resolved are chained on that entry; when the
                        entry leaves the in-progress state every chained task has been taken off the chain and
                        re-driven exactly once (InvChain: a task is in exactly one place - owner of one in-progress
                        entry or member of exactly one chain; an in-progress entry has exactly one owner whose timer
                        is armed; no orphan tasks).
  P3 entry-states       a cache entry is in exactly one state (absent / in progress / valid until t), its data has
                        exactly one type (none, address list, alias name) and the type flag agrees with the data
                        (InvEntry); expired data is never handed out as a result (viol "stale-address-served");
                        nothing of the cache or of a task is touched after it was freed (crashed = memory error
                        observed by the sanitizer in the binding, undefined behaviour in the model).
  P4 bounded-tx         at most 1 + retry_count transmissions per server for one question of one task, servers are
                        tried in order, no transmission for a task after it completed (viol "too-many-transmissions";
                        every transmission of the real code must be predicted by the model in the binding).
  P5 reply-match        a datagram completes or advances a task only if it comes from the server the task is
                        waiting for, carries the task's id AND answers the task's question
                        (viol "reply-for-other-question-accepted"); everything else is ignored and changes nothing.
  P6 destroy            dns_resolver_destroy() with lookups in flight drops every task exactly once (no callback
                        afterwards), leaves no task and no cache entry behind (InvDestroyed) and touches nothing
                        that was already freed.
  P7 termination        with fair timers every started lookup terminates (Answered) - datagrams may all be lost.

 The model is shaped like the implementation: one operator per function of dns_resolv.c (Hai =
 dns_resolv_hostaddr_int, DataAdd = dns_rslvr_cache_entry_data_add, Notify = dns_rslvr_task_notify_chain,
 TaskDone, Send, TimeoutCb, RecvCb with its answer scan, Destroy), evaluated atomically per API call / datagram /
 timer expiry - which is how the code runs on the single thread that owns the resolver.  The resolver state is ONE
 record r; every operator maps r to r (outputs - transmissions and callbacks, in order - are appended to r.out).

 Where the shipped code does not have the property the model has a SWITCH: r.fx is the set of repairs applied
 (names in AllFix; each is a patch in /verif/proposed_fixes/X03-*.diff).  fx = AllFix is the specification proper,
 on which TLC proves the properties; fx = AllFix \ {f} reproduces the shipped behaviour of one spot and TLC
 finds the violated property (rig/checks/x03.py runs both).  Trace validation (Trace_DnsResolv) runs all variants
 side by side on a recorded execution of the real code and reports which ones explain it.
 ***************************************************************************************************************)
EXTENDS Naturals, Integers, Sequences, FiniteSets, TLC

CONSTANTS Names,      \* host names (strings); "-" = none
          Lookups,    \* lookup identities of the scenario (positive integers)
          MaxId,      \* task slots modelled (message ids 1..MaxId); the real table has 65535
          MaxCyc      \* DNS_MAX_NAME_CYCLES (64 in the code; small in exhaustive runs)

AllFix == {"negdata",       \* negative update of an entry drops its old data (addresses / alias)
           "queuedrx",      \* a datagram whose id belongs to a chained (queued) task is ignored
           "destroychain",  \* destroy does not re-drive chained tasks it already freed
           "cancelfree",    \* a cancelled task that is re-driven is freed instead of leaked
           "errcb",         \* the error path of hostaddr_int reports to the callback when called from recv_cb
           "qcheck",        \* the question of a reply must be the question of the task
           "sendfail"}      \* a failed first transmission finishes the entry (negative) instead of leaving it in progress

MinS(S) == CHOOSE x \in S : \A y \in S : x <= y
Clamp(ttl) == IF ttl < 4 THEN 4 ELSE IF ttl > 604800 THEN 604800 ELSE ttl    \* DNS_RESOLVER_TTL_MIN .. DNS_TTL_MAX

NoEntry == [present |-> FALSE, upd |-> FALSE, cname |-> FALSE, kind |-> "none", addrs |-> << >>,
            alias |-> "-", until |-> 0, chain |-> << >>]
NoTask  == [used |-> FALSE, l |-> 0, ent |-> "-", queued |-> FALSE, tmo |-> 0, srv |-> 0, loops |-> 0,
            live |-> FALSE, armed |-> FALSE, txc |-> <<0, 0, 0, 0>>]
NoLk    == [st |-> "new", name |-> "-", ncb |-> 0, cancelled |-> FALSE, task |-> 0]

InitR(fx, nsrv, retry, neg) ==
  [fx |-> fx, nsrv |-> nsrv, retry |-> retry, neg |-> neg,
   now |-> 0, cache |-> [n \in Names |-> NoEntry], task |-> [i \in 1..MaxId |-> NoTask], tix |-> 0,
   lk |-> [l \in Lookups |-> NoLk], sendfail |-> 0, failerr |-> "-", alive |-> TRUE, crashed |-> FALSE,
   out |-> << >>, viol |-> {}]

Has(r, f)  == f \in r.fx
Emit(r, o) == [r EXCEPT !.out = Append(@, o)]
Viol(r, v) == [r EXCEPT !.viol = @ \cup {v}]
Crash(r)   == [r EXCEPT !.crashed = TRUE]
Vs(addrs)  == [j \in 1..Len(addrs) |-> addrs[j].v]
TxOut(srv, id, q, fail) == [e |-> "tx", srv |-> srv, id |-> id, q |-> q, fail |-> fail]
CbOut(l, err, vs)       == [e |-> "cb", l |-> l, err |-> err, addrs |-> vs]

(* the user callback *)
Cb(r, l, err, vs) ==
  LET r1 == Emit(r, CbOut(l, err, vs))
      r2 == [r1 EXCEPT !.lk[l].ncb = @ + 1, !.lk[l].st = "done"]
  IN IF r.lk[l].ncb >= 1 THEN Viol(r2, "callback-twice")
     ELSE IF r.lk[l].cancelled THEN Viol(r2, "callback-after-cancel")
     ELSE IF ~r.alive THEN Viol(r2, "callback-after-destroy") ELSE r2

(* dns_rslvr_task_free; ghost: a lookup that loses its task without having been answered is lost *)
FreeTask(r, id, why) ==
  LET l == r.task[id].l
      lost == r.lk[l].ncb = 0 /\ ~r.lk[l].cancelled /\ why # "destroy"
      r1 == [r EXCEPT !.task[id] = NoTask, !.lk[l].task = 0,
                      !.lk[l].st = IF lost THEN "lost" ELSE IF why = "destroy" /\ @ = "run" THEN "aborted" ELSE @]
  IN IF lost THEN Viol(r1, "lookup-lost") ELSE r1

(* dns_rslvr_task_alloc: first free slot at or after tasks_index (slot 0 is never used) *)
FreeIds(r) == {i \in 1..MaxId : ~r.task[i].used /\ i >= r.tix}
AllocId(r) == MinS(FreeIds(r))

(* dns_resolver_send: -> [r, ok, err] *)
Send(r, id) ==
  LET t == r.task[id] IN
  IF t.srv >= r.nsrv THEN [r |-> r, ok |-> FALSE, err |-> "EINVAL"]
  ELSE IF t.ent = "-" THEN [r |-> Crash(r), ok |-> FALSE, err |-> "CRASH"]    \* task->cache_entry == NULL dereferenced
  ELSE IF r.sendfail > 0
       THEN [r |-> Emit([r EXCEPT !.sendfail = @ - 1], TxOut(t.srv, id, t.ent, 1)), ok |-> FALSE, err |-> r.failerr]
  ELSE LET r1 == Emit([r EXCEPT !.task[id].armed = TRUE, !.task[id].txc[t.srv + 1] = @ + 1], TxOut(t.srv, id, t.ent, 0))
       IN [r |-> IF t.txc[t.srv + 1] + 1 > r.retry + 1 THEN Viol(r1, "too-many-transmissions") ELSE r1,
           ok |-> TRUE, err |-> "0"]

(* merge of new addresses into the stored list: same address -> refresh its expiry, else append *)
RECURSIVE MergeA(_, _)
MergeA(cur, new) ==
  IF new = << >> THEN cur
  ELSE LET a == Head(new)
           idx == {j \in 1..Len(cur) : cur[j].v = a.v}
       IN IF idx # {} THEN MergeA([cur EXCEPT ![MinS(idx)].until = a.until], Tail(new))
          ELSE MergeA(Append(cur, a), Tail(new))

(* cache search of dns_resolv_hostaddr_int: follows aliases; -> [k, n, lc] *)
RECURSIVE Search(_, _, _)
Search(r, n, lc) ==
  IF lc >= MaxCyc THEN [k |-> "loop", n |-> n, lc |-> lc]
  ELSE LET e == r.cache[n] IN
       IF ~e.present THEN [k |-> "miss", n |-> n, lc |-> lc]
       ELSE IF e.upd THEN [k |-> "queue", n |-> n, lc |-> lc]
       ELSE IF e.until < r.now THEN [k |-> "refresh", n |-> n, lc |-> lc]
       ELSE IF e.cname THEN (IF e.kind = "alias" THEN Search(r, e.alias, lc + 1) ELSE [k |-> "crash", n |-> n, lc |-> lc])
       ELSE [k |-> "hit", n |-> n, lc |-> lc]

RECURSIVE Hai(_, _, _, _, _), DataAdd(_, _, _, _, _), Notify(_, _, _), TaskDone(_, _, _, _, _, _)

(* dns_resolver_task_done: update the entry (which re-drives its chain), report, free *)
TaskDone(r, id, err, kind, data, until) ==
  LET t  == r.task[id]
      r1 == DataAdd(r, t.ent, kind, data, until)
      r2 == IF t.live THEN Cb(r1, t.l, err, IF kind = "addrs" THEN Vs(data) ELSE << >>) ELSE r1
  IN IF r1.crashed THEN r1 ELSE FreeTask(r2, id, "done")

(* dns_rslvr_cache_entry_data_add *)
DataAdd(r, n, kind, data, until) ==
  LET e == r.cache[n] IN
  IF kind = "addrs" /\ e.kind = "alias" /\ ~e.cname THEN Crash(r)     \* alias bytes read as an address array
  ELSE
  LET e1 == CASE kind = "neg" ->
                   IF Has(r, "negdata")
                   THEN [e EXCEPT !.kind = "none", !.addrs = << >>, !.alias = "-", !.until = until, !.cname = FALSE, !.upd = FALSE]
                   ELSE [e EXCEPT !.until = until, !.cname = FALSE, !.upd = FALSE]       \* old data stays behind
             [] kind = "cname" ->
                   [e EXCEPT !.kind = "alias", !.alias = data, !.addrs = << >>, !.until = until, !.cname = TRUE, !.upd = FALSE]
             [] kind = "addrs" ->
                   LET merged == MergeA(IF e.cname THEN << >> ELSE e.addrs, data)
                       kept   == SelectSeq(merged, LAMBDA a : a.until >= r.now)
                       u      == MinS({merged[1].until} \cup {kept[j].until : j \in 1..Len(kept)})
                   IN [e EXCEPT !.kind = "addrs", !.alias = "-", !.addrs = kept, !.until = u, !.cname = FALSE, !.upd = FALSE]
  IN Notify([r EXCEPT !.cache[n] = [e1 EXCEPT !.chain = << >>]], e.chain, n)

(* dns_rslvr_task_notify_chain: every chained task repeats the search for the name *)
Notify(r, chain, n) ==
  IF chain = << >> \/ r.crashed THEN r
  ELSE LET id == Head(chain)
           r1 == [r EXCEPT !.task[id].queued = FALSE]
       IN Notify(Hai(r1, id, 0, n, 1).r, Tail(chain), n)

(* dns_resolv_hostaddr_int(rslvr, send_request, name, ..., &task): -> [r, rc, err, set]
   rc "OK" | "RESTART" | "ERR"; set = the task handle was stored through task_ret *)
Hai(r, id0, l0, name0, sreq) ==
  LET has  == id0 # 0
      l    == IF has THEN r.task[id0].l ELSE l0
      live == IF has THEN r.task[id0].live ELSE TRUE
      ErrOut(rr, id, err) ==          \* err_out:
         LET r1 == IF sreq # 0 \/ Has(rr, "errcb") THEN Cb(rr, l, err, << >>) ELSE rr
         IN [r |-> IF id # 0 THEN FreeTask(r1, id, "err") ELSE r1, rc |-> "ERR", err |-> err, set |-> FALSE]
  IN
  IF ~live      \* cb_func == NULL after dns_resolv_cancel: EINVAL before anything is done
  THEN [r |-> IF Has(r, "cancelfree") THEN FreeTask(r, id0, "cancel") ELSE r, rc |-> "ERR", err |-> "EINVAL", set |-> FALSE]
  ELSE
  LET s == Search(r, name0, IF has THEN r.task[id0].loops ELSE 0) IN
  CASE s.k = "crash" -> [r |-> Crash(r), rc |-> "ERR", err |-> "CRASH", set |-> FALSE]
    [] s.k = "loop"  -> ErrOut(r, id0, "ELOOP")
    [] s.k = "hit"   ->
         LET e == r.cache[s.n] IN
         IF e.kind = "alias" THEN [r |-> Crash(r), rc |-> "ERR", err |-> "CRASH", set |-> FALSE]   \* alias bytes copied out as addresses
         ELSE LET stale == \E j \in 1..Len(e.addrs) : e.addrs[j].until < r.now
                  r1 == Cb(IF stale THEN Viol(r, "stale-address-served") ELSE r, l, "0", Vs(e.addrs))
              IN [r |-> IF has THEN FreeTask(r1, id0, "done") ELSE r1, rc |-> "OK", err |-> "0", set |-> FALSE]
    [] OTHER ->      \* miss / refresh / queue : task_alloc:
         LET upding == s.k = "queue"
             rA == IF s.k = "miss"
                   THEN [r EXCEPT !.cache[s.n] = [NoEntry EXCEPT !.present = TRUE, !.upd = TRUE, !.until = r.now]]
                   ELSE IF s.k = "refresh" THEN [r EXCEPT !.cache[s.n].upd = TRUE] ELSE r
         IN IF ~has /\ FreeIds(rA) = {} THEN ErrOut(rA, 0, "EAGAIN")
            ELSE
            LET id == IF has THEN id0 ELSE AllocId(rA)
                rB == IF has THEN rA
                      ELSE [rA EXCEPT !.task[id] = [NoTask EXCEPT !.used = TRUE, !.l = l, !.live = TRUE],
                                      !.tix = id, !.lk[l].task = id]
                rC == [rB EXCEPT !.task[id].ent = s.n, !.task[id].tmo = 0, !.task[id].srv = 0,
                                 !.task[id].loops = s.lc, !.task[id].txc = <<0, 0, 0, 0>>]
            IN IF upding
               THEN [r |-> [rC EXCEPT !.task[id].ent = "-", !.task[id].queued = TRUE, !.task[id].armed = FALSE,
                                      !.cache[s.n].chain = <<id>> \o @],
                     rc |-> "OK", err |-> "0", set |-> TRUE]
               ELSE IF sreq = 0 THEN [r |-> rC, rc |-> "RESTART", err |-> "ERESTART", set |-> FALSE]
               ELSE LET sd == Send(rC, id) IN
                    IF sd.ok THEN [r |-> sd.r, rc |-> "OK", err |-> "0", set |-> TRUE]
                    ELSE IF sd.r.crashed THEN [r |-> sd.r, rc |-> "ERR", err |-> "CRASH", set |-> FALSE]
                    ELSE IF Has(r, "sendfail")
                         THEN [r |-> TaskDone(sd.r, id, sd.err, "neg", << >>, r.now + r.neg), rc |-> "ERR", err |-> sd.err, set |-> FALSE]
                         ELSE ErrOut(sd.r, id, sd.err)          \* the entry stays in progress without an owner

(* ---- timer expiry: dns_resolver_task_timeout_cb ---- *)
RECURSIVE TryNext(_, _)
TryNext(sd, id) ==
  IF sd.ok \/ sd.r.crashed THEN sd.r
  ELSE LET t == sd.r.task[id] IN
       IF t.srv + 1 < sd.r.nsrv
       THEN TryNext(Send([sd.r EXCEPT !.task[id].tmo = 0, !.task[id].srv = @ + 1], id), id)
       ELSE TaskDone(sd.r, id, sd.err, "neg", << >>, sd.r.now + sd.r.neg)
TimeoutOk(r, id) == id \in 1..MaxId /\ r.task[id].used /\ r.task[id].armed
TimeoutCb(r, id) ==
  LET r0 == [r EXCEPT !.task[id].armed = FALSE, !.task[id].tmo = @ + 1] IN
  TryNext(IF r0.task[id].tmo <= r0.retry THEN Send(r0, id) ELSE [r |-> r0, ok |-> FALSE, err |-> "ETIMEDOUT"], id)

(* ---- datagram arrival: dns_resolver_recv_cb ----
   d = [srv, id, q, rcode, bad, rrs, soa]; rrs[i] = <<owner name, "A"|"C"|other, address token | alias target, ttl>> *)
NextSrv(r, id) ==
  LET sd == Send([r EXCEPT !.task[id].srv = @ + 1], id) IN
  IF sd.ok \/ sd.r.crashed THEN sd.r ELSE TaskDone(sd.r, id, sd.err, "neg", << >>, r.now + r.neg)

RECURSIVE Scan(_, _, _, _, _, _)
Scan(r, id, rrs, addrs, restarted, i) ==
  LET t == r.task[id] IN
  IF i > Len(rrs)
  THEN IF addrs # << >> THEN TaskDone(r, id, "0", "addrs", addrs, r.now + r.neg)
       ELSE IF restarted                     \* alias without address in the answer: ask for the alias
            THEN LET sd == Send(r, id) IN
                 IF sd.ok \/ sd.r.crashed THEN sd.r ELSE TaskDone(sd.r, id, sd.err, "neg", << >>, r.now + r.neg)
            ELSE TaskDone(r, id, "0", "neg", << >>, r.now + r.neg)      \* nothing for the name: negative, error 0
  ELSE LET rr == rrs[i] IN
       IF rr[1] # t.ent THEN Scan(r, id, rrs, addrs, restarted, i + 1)
       ELSE IF rr[2] = "A"
            THEN Scan(r, id, rrs, Append(addrs, [v |-> rr[3], until |-> r.now + Clamp(rr[4])]), restarted, i + 1)
       ELSE IF rr[2] = "C" /\ addrs = << >>
            THEN IF rr[3] = t.ent THEN TaskDone(r, id, "ELOOP", "neg", << >>, r.now + r.neg)
                 ELSE LET r1 == DataAdd(r, t.ent, "cname", rr[3], r.now + Clamp(rr[4]))
                          r2 == [r1 EXCEPT !.task[id].ent = "-", !.task[id].loops = @ + 1]
                          h  == Hai(r2, id, 0, rr[3], 0)
                      IN IF r1.crashed THEN r1
                         ELSE IF h.rc # "RESTART" THEN h.r
                         ELSE Scan(h.r, id, rrs, << >>, TRUE, 1)
       ELSE Scan(r, id, rrs, addrs, restarted, i + 1)

RecvCb(r, d) ==
  IF d.bad = 1 \/ d.id \notin 1..MaxId THEN r
  ELSE LET t == r.task[d.id] IN
  IF ~t.used \/ d.srv # t.srv THEN r
  ELSE IF t.ent = "-" THEN (IF Has(r, "queuedrx") THEN r ELSE Crash(r))     \* chained task: cache_entry == NULL
  ELSE IF Has(r, "qcheck") /\ d.q # t.ent THEN r
  ELSE LET ra == [r EXCEPT !.task[d.id].armed = FALSE]
           r0 == IF d.q # t.ent THEN Viol(ra, "reply-for-other-question-accepted") ELSE ra
       IN IF Len(d.rrs) = 0 \/ d.rcode # 0
          THEN IF d.rcode # 3 THEN NextSrv(r0, d.id)
               ELSE TaskDone(r0, d.id, "EFAULT", "neg", << >>,
                             r.now + (IF d.soa[1] >= 0 THEN MinS({d.soa[1], d.soa[2]}) ELSE r.neg))
          ELSE Scan(r0, d.id, d.rrs, << >>, FALSE, 1)

(* ---- API ---- *)
ResolveOk(r, l) == r.alive /\ l \in Lookups /\ r.lk[l].st = "new"
Resolve(r, l, n) ==
  LET h == Hai([r EXCEPT !.lk[l].st = "run", !.lk[l].name = n], 0, l, n, 1)
  IN Emit(h.r, [e |-> "ret", l |-> l, rc |-> h.err, task |-> IF h.set THEN 1 ELSE 0])

CancelOk(r, l) == r.alive /\ l \in Lookups /\ r.lk[l].st \in {"run", "cancelled"} /\ r.lk[l].task # 0   \* idempotent
Cancel(r, l) == [r EXCEPT !.task[r.lk[l].task].live = FALSE, !.lk[l].cancelled = TRUE, !.lk[l].st = "cancelled"]

RECURSIVE FreeAll(_, _)
FreeAll(r, ids) == IF ids = {} THEN r ELSE LET i == MinS(ids) IN FreeAll(FreeTask(r, i, "destroy"), ids \ {i})
Destroy(r) ==
  LET chained == \E n \in Names : r.cache[n].chain # << >>
      r1 == FreeAll(r, {i \in 1..MaxId : r.task[i].used})
      r2 == [r1 EXCEPT !.cache = [n \in Names |-> NoEntry], !.alive = FALSE]
  IN IF chained /\ ~Has(r, "destroychain") THEN Crash(r2) ELSE r2      \* freed tasks re-driven from the entry's chain

Tick(r, k) == [r EXCEPT !.now = @ + k]
ArmSendFail(r, k, err) == [r EXCEPT !.sendfail = k, !.failerr = err]
NEntries(r) == Cardinality({n \in Names : r.cache[n].present})
NTasks(r)   == Cardinality({i \in 1..MaxId : r.task[i].used})

(* ---- invariants over a resolver state (checked between steps) ---- *)
Owners(r, n)  == {i \in 1..MaxId : r.task[i].used /\ r.task[i].ent = n}
InChain(r, i) == {n \in Names : \E j \in 1..Len(r.cache[n].chain) : r.cache[n].chain[j] = i}
InvCbOnce(r) == \A l \in Lookups : r.lk[l].ncb <= 1
InvChain(r) ==
  /\ \A n \in Names : LET e == r.cache[n] IN
        /\ (~e.present => (~e.upd /\ e.chain = << >>))
        /\ (e.chain # << >> => e.upd)
        /\ (e.upd => Cardinality(Owners(r, n)) = 1)
        /\ (~e.upd => Owners(r, n) = {})
        /\ \A j, k \in 1..Len(e.chain) : j # k => e.chain[j] # e.chain[k]
  /\ \A i \in 1..MaxId : LET t == r.task[i] IN
        IF ~t.used THEN InChain(r, i) = {}
        ELSE IF t.queued THEN t.ent = "-" /\ ~t.armed /\ Cardinality(InChain(r, i)) = 1
        ELSE t.ent # "-" /\ r.cache[t.ent].upd /\ t.armed /\ InChain(r, i) = {}     \* owner, timer running; no orphans
InvEntry(r) ==
  \A n \in Names : LET e == r.cache[n] IN
     /\ e.cname = (e.kind = "alias")
     /\ (e.kind = "alias") = (e.alias # "-")
     /\ (e.kind = "addrs") = (e.addrs # << >>)
     /\ (e.present /\ ~e.upd /\ e.until >= r.now) => \A j \in 1..Len(e.addrs) : e.addrs[j].until >= r.now
InvLookup(r) ==
  /\ \A i \in 1..MaxId : r.task[i].used =>
        LET l == r.task[i].l IN r.lk[l].task = i /\ r.lk[l].st \in {"run", "cancelled"} /\ r.task[i].live = ~r.lk[l].cancelled
  /\ \A l \in Lookups : (r.lk[l].st = "run" /\ r.alive) => (r.lk[l].task # 0 /\ r.task[r.lk[l].task].used)
InvTx(r) == \A i \in 1..MaxId : \A s \in 1..4 : r.task[i].txc[s] <= r.retry + 1
InvDestroyed(r) == ~r.alive => (NTasks(r) = 0 /\ NEntries(r) = 0)
=============================================================================
