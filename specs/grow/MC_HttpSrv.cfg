SPECIFICATION Spec
CONSTANTS
  Conns = {1}
  Binds = {1}
  Fix = {"reallocptrs", "realloctr", "pipebody", "pipeasync", "resumetr", "hdrgrow", "halfclose", "eofbody", "errpage", "sndagain", "shutdown", "destroyall", "destroylive"}
  Scns = {"pipeline"}
  Init0 = 4
  Max0 = 8
  ReqConn = TRUE
  RespClose = FALSE
  RcvTmo = TRUE
  SndTmo = TRUE
  AccFilter = FALSE
  ReqCbOn = TRUE
  SndCbOn = TRUE
  ConnCbOn = FALSE
  ReqRcs = {"C"}
  SndRcs = {"C"}
  ConnRcs = {"C"}
  UserClose = FALSE
  ShortReads = FALSE
  MaxAgain = 0
  MaxErr = 0
  MaxPart = 1
  SrvOps = {}
  NBinds = 1
INVARIANTS Inv TypeOK
CHECK_DEADLOCK FALSE
