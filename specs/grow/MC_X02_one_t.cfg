SPECIFICATION Spec
CONSTANTS
  NIds = 2
  Ident = FALSE
  Dev = {}
  JitClasses = {"zero"}
  Plan = "one"
  Kinds = {"good", "badauth", "wrongsecret", "wrongid", "wrongsrc", "reqcode", "malformed"}
  MaxFlips = 2
  MaxReplies = 4
  AllowCancel = TRUE
  AllowDestroy = TRUE
  PortReuse = TRUE
INVARIANTS ICompleteOnce INoTxAfterDone ITxBound ISlots IArmed IMatch IDelivered IFailover IQuiescent IDestroyed IMemSafe INas IBufUnits IDuration
CHECK_DEADLOCK FALSE
