SPECIFICATION FairSpec
CONSTANTS
  NIds = 2
  Ident = FALSE
  Dev = {}
  JitClasses = {"zero"}
  Plan = "one"
  Kinds = {"good", "badauth", "wrongid", "wrongsrc", "reqcode"}
  MaxFlips = 1
  MaxReplies = 2
  AllowCancel = TRUE
  AllowDestroy = TRUE
  PortReuse = TRUE
CHECK_DEADLOCK FALSE
PROPERTIES Termination
