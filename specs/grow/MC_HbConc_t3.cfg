SPECIFICATION Spec
CONSTANTS
  NZ = 2
  NE = 3
  NK = 2
  Threads = {1, 2, 3}
  Protos = {"uadd", "del", "look", "enum"}
  AtomicTotal = TRUE
  EnumRks = {{0}}
INVARIANTS Struct ZoneCounts TotalNonNeg TotalQuiescent TotalAlways UniqueKeys Locks IdleHoldsNothing NoBad
CHECK_DEADLOCK TRUE
