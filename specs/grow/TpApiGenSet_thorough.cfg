SPECIFICATION Spec
CONSTANT Tier = "thorough"
INVARIANTS AbsentKeeps WorkersInRange BindingIsRotation NoBindingNoCpu ZeroMeansCpus
CONSTRAINT Emit
CHECK_DEADLOCK FALSE
