-------------------------- MODULE Trace_HttpSrv --------------------------
(* Trace validation of the real HTTP server (harness/x05_drv.c) against HttpSrv.
   The ndjson file is a concatenation of scenario executions; each starts with a "create" line and ends with "eos".
   Lines that carry an answer of the environment (ev, ev.l, acc, conn, rx, tx, req, snt, api) are applied with the
   LOGGED answer only, after the model checked that this is the step the code has to make now (run.pc) with the
   arguments it has to use (wanted byte counts, request number, sizes, flags).  Pure outputs (dst, cls, cls.l, api.ret)
   must be exactly the ones the model queued (s.pend), in that order, none missing when the next step comes.
   state / stat / c.eos / fin lines compare the registrations, the buffer, the counters, what every client received
   and the ledger with the model.  ORDER and COUNT only - no wall-clock value is in the log.
   Every variant of the model listed in the VARIANTS file (sets of repairs, HttpSrv!AllFix) runs side by side; each
   prints one verdict per scenario: ACCEPT (with the properties the history violates in that variant) or REJECT
   (line and reason).  A variant that reached undefined behaviour (crashed) accepts what follows, but the log must
   then contain the sanitizer's "crash" line. *)
EXTENDS HttpSrv, Json, IOUtils
Tr == ndJsonDeserialize(IOEnv.TRACE)
VarList == ndJsonDeserialize(IOEnv.VARIANTS)           \* one line per variant: {"fx": [names]}
SeqSet(q) == {q[j] : j \in 1..Len(q)}
Variants == {SeqSet(VarList[j].fx) : j \in 1..Len(VarList)}
VARIABLES s, i, mode, sc, sawcrash
tvars == <<s, i, mode, sc, sawcrash>>

Ok(s1)   == [ok |-> TRUE, s |-> s1, why |-> ""]
Rej(why) == [ok |-> FALSE, s |-> s, why |-> why]
B(x) == x = 1
Skip == {"c.send", "c.shut", "c.close", "c.rst", "c.connfail", "script.miss", "dbg"}
Outputs == {"dst", "cls", "cls.l", "api.ret"}
Exp(p) == IF p = << >> THEN "nothing" ELSE ToString(Head(p))

CfgOf(e) == [init |-> e.init, max |-> e.max, snd |-> e.snd, hdrs |-> e.hdrs, reqconn |-> B(e.reqconn), respclose |-> B(e.respclose),
             rcvtmo |-> B(e.rcvtmo), sndtmo |-> B(e.sndtmo), accfilter |-> B(e.accfilter), reqcb |-> B(e.reqcb), sndcb |-> B(e.sndcb),
             dstcb |-> B(e.dstcb), conncb |-> B(e.conncb)]
ScriptOf(e) == [j \in 1..Len(e.reqs) |-> [kind |-> e.reqs[j].kind, hl |-> e.reqs[j].hl, cl |-> e.reqs[j].cl, bl |-> e.reqs[j].bl,
                                          ver |-> e.reqs[j].ver, conn |-> e.reqs[j].conn]]
RespsOk(rs, lg, prefix) ==
  /\ IF prefix THEN Len(lg) <= Len(rs) ELSE Len(rs) = Len(lg)
  /\ \A j \in 1..Len(lg) : /\ lg[j][1] = rs[j].status /\ lg[j][2] = rs[j].hdr /\ lg[j][3] = rs[j].k
                           /\ lg[j][5] = 1 /\ B(lg[j][7]) = rs[j].wf

Step(s0, e) ==
  IF e.e \in Skip THEN Ok(s0)
  ELSE IF e.e = "crash" THEN (IF s0.crashed THEN Ok(s0) ELSE Rej("memory error / crash of the real code that this variant does not predict"))
  ELSE IF e.e = "hang" THEN Rej("the real code hung")
  ELSE IF s0.crashed THEN Ok(s0)
  ELSE IF e.e \in Outputs
  THEN LET sp == IF s0.pend = << >> /\ ErrPageMayFail(s0) THEN SndNoSpace(s0) ELSE s0 IN     \* (http_srv_snd may fail before its sendmsg)
       IF sp.pend = << >> THEN Rej("output " \o e.e \o " not predicted")
       ELSE LET h == Head(sp.pend)  s1 == [sp EXCEPT !.pend = Tail(@)] IN
            IF h.e # e.e THEN Rej("the model expects the output " \o ToString(h))
            ELSE CASE e.e \in {"dst", "cls"} -> IF e.c = h.c /\ e.thr = 0 /\ (e.e = "dst" => e.cli = 1) THEN Ok(s1) ELSE Rej("the model expects the output " \o ToString(h))
                   [] e.e = "cls.l" -> IF e.b = h.b THEN Ok(s1) ELSE Rej("the model expects the output " \o ToString(h))
                   [] OTHER -> IF e.f = h.f THEN Ok(s1) ELSE Rej("the model expects the output " \o ToString(h))
  ELSE IF s0.pend # << >> THEN Rej("the model expects the output " \o Exp(s0.pend) \o " before the next step")
  ELSE
  CASE e.e = "c.open" ->
         IF e.c \in Conns /\ s0.c[e.c].st = "new" THEN Ok([s0 EXCEPT !.c[e.c].script = ScriptOf(e)]) ELSE Rej("scenario outside the model")
    [] e.e = "ev.l" -> IF EvLOk(s0, e.b) THEN Ok(EvL(s0, e.b)) ELSE Rej("event for a listening socket the model has not registered")
    [] e.e = "acc" ->
         IF s0.run.pc # "accept" \/ s0.run.b # e.b THEN Rej("accept4 outside an accept handler run")
         ELSE IF e.c # 0 /\ e.err = "0" THEN (IF e.c \in Conns /\ s0.c[e.c].st = "new" /\ e.nb = 1 THEN Ok(Acc(s0, e.c, "0")) ELSE Rej("scenario outside the model"))
         ELSE IF e.c = 0 /\ e.err = "EAGAIN" THEN Ok(Acc(s0, 0, e.err))
         ELSE Rej("scenario outside the model")
    [] e.e = "conn" -> IF s0.run.pc = "conncb" /\ s0.run.c = e.c /\ e.thr = 0 THEN Ok(ConnCb(s0, e.rc)) ELSE Rej("on_conn not predicted")
    [] e.e = "ev" ->
         IF ~EvOk(s0, e.c, e.k) THEN Rej("event " \o e.k \o " for a registration the model does not have")
         ELSE Ok(Ev(s0, e.c, e.k, B(e.eof), B(e.err)))
    [] e.e = "rx" ->
         IF s0.run.pc # "recv" \/ s0.run.c # e.c THEN Rej("recv not predicted")
         ELSE IF e.want # RecvWant(s0) \/ e.dw # 1 THEN Rej("recv asks for " \o ToString(e.want) \o " bytes, the model for " \o ToString(RecvWant(s0)))
         ELSE Ok(Recv(s0, e.ret, e.err))
    [] e.e = "req" ->
         IF s0.run.pc # "reqcb" \/ s0.run.c # e.c THEN Rej("on_req_rcv not predicted")
         ELSE LET cr == s0.c[e.c]  rq == Rq(cr)  whole == cr.dsize <= cr.rb.used - rq.hl IN
              IF e.k # cr.ri \/ e.hs # rq.hl \/ e.ds # cr.dsize THEN Rej("on_req_rcv: request number / header size / body size differ from the model")
              ELSE IF B(e.cc) # cr.cclose \/ B(e.pc) # cr.resp.close \/ B(e.half) # cr.half THEN Rej("on_req_rcv: close flags differ from the model")
              ELSE IF e.hdrok # 1 \/ e.sizeok # 1 \/ e.nulok # 1 \/ (whole /\ e.bodyok # 1) \/ e.thr # 0 THEN Rej("on_req_rcv: the request bytes are not the bytes the client sent")
              ELSE Ok(ReqCb(s0, e.rc, e.status, B(e.rclose), e.blen))
    [] e.e = "tx" ->
         IF s0.run.c # e.c THEN Rej("send not predicted")
         ELSE IF e.fn = "sendmsg" THEN (IF s0.run.pc = "sendmsg" /\ e.want > s0.c[e.c].resp.blen THEN Ok(SendMsg(s0, e.want, e.ret, e.err)) ELSE Rej("sendmsg not predicted"))
         ELSE IF s0.run.pc # "send" THEN Rej("send not predicted")
         ELSE IF e.want = SendWant(s0) THEN Ok(Send(s0, e.ret, e.err))
         ELSE IF e.want = s0.c[e.c].leftalt THEN Ok(Send([s0 EXCEPT !.c[e.c].left = e.want], e.ret, e.err))
         ELSE Rej("send offers " \o ToString(e.want) \o " bytes, the model " \o ToString(SendWant(s0)))
    [] e.e = "snt" ->
         IF s0.run.pc = "sndcb" /\ s0.run.c = e.c /\ (s0.c[e.c].resp.k = 0 \/ e.k = s0.c[e.c].resp.k) /\ e.thr = 0 THEN Ok(SndCb(s0, e.rc)) ELSE Rej("on_rep_snd not predicted")
    [] e.e = "api" ->
         CASE e.f = "resume" -> IF ResumeOk(s0, e.c) THEN Ok(Resume(s0, e.c, e.status, B(e.rclose), e.blen)) ELSE Rej("scenario outside the model")
           [] e.f = "resume_next" -> IF ResumeNextOk(s0, e.c) THEN Ok(ApiResumeNext(s0, e.c)) ELSE Rej("scenario outside the model")
           [] e.f = "cli_free" -> IF CliFreeOk(s0, e.c) THEN Ok(CliFree(s0, e.c)) ELSE Rej("scenario outside the model")
           [] e.f = "bind_add" -> IF BindAddOk(s0, e.b) THEN Ok([s0 EXCEPT !.run.pc = "bind_add", !.run.b = e.b]) ELSE Rej("scenario outside the model")
           [] e.f = "bind_shutdown" -> IF BindShutdownOk(s0, e.b) THEN Ok(Out(BindShutdown(s0, e.b), [e |-> "api.ret", f |-> e.f, c |-> 0])) ELSE Rej("scenario outside the model")
           [] e.f = "bind_remove" -> IF BindShutdownOk(s0, e.b) THEN Ok(Out(BindRemove(s0, e.b), [e |-> "api.ret", f |-> e.f, c |-> 0])) ELSE Rej("scenario outside the model")
           [] e.f = "srv_shutdown" -> IF SrvShutdownOk(s0) THEN Ok(Out(SrvShutdown(s0), [e |-> "api.ret", f |-> e.f, c |-> 0])) ELSE Rej("scenario outside the model")
           [] e.f = "srv_destroy" -> IF SrvShutdownOk(s0) THEN Ok(Out(SrvDestroy(s0), [e |-> "api.ret", f |-> e.f, c |-> 0])) ELSE Rej("scenario outside the model")
           [] OTHER -> Rej("unknown api line")
    [] e.e = "state" ->
         IF s0.run.pc # "idle" THEN Rej("state line inside a handler run")
         ELSE IF e.c \notin Conns \/ s0.c[e.c].st # "live" THEN Rej("the real server has a client object the model has destroyed")
         ELSE LET cr == s0.c[e.c] IN
              IF e.io = cr.io /\ B(e.tmr) = cr.tmr /\ e.used = cr.rb.used /\ e.size = cr.rb.size THEN Ok(CheckInv(s0))
              ELSE Rej("registrations / buffer differ: the model has " \o ToString(<<cr.io, cr.tmr, cr.rb.used, cr.rb.size>>))
    [] e.e = "stat" ->
         IF e.connections = s0.stat.conns /\ e.requests = s0.stat.reqs /\ e.timeouts = s0.stat.tmo /\ e.binds = Len(s0.srv.order) THEN Ok(s0)
         ELSE Rej("statistics differ: the model has " \o ToString(<<s0.stat, Len(s0.srv.order)>>))
    [] e.e = "c.eos" ->
         LET cr == s0.c[e.c]
             \* a generated page that was cut in the middle of sending can not be told from a whole malformed one by the client
             cut == /\ Len(e.resps) = Len(cr.resps) + 1 /\ cr.cur # << >> /\ e.resps[Len(e.resps)][7] = 0
                    /\ e.resps[Len(e.resps)][1] = cr.cur[1].status
             lg == IF cut THEN SubSeq(e.resps, 1, Len(cr.resps)) ELSE e.resps IN
         IF ~RespsOk(cr.resps, lg, e.cclosed = 1 \/ e.rst = 1 \/ e.unread = 1) THEN Rej("the client received other responses than the model sent: " \o ToString(cr.resps))
         ELSE IF e.partial # 0 /\ cr.cur = << >> /\ e.rst = 0 /\ e.unread = 0 THEN Rej("the client received bytes after the last complete response")
         ELSE IF e.cclosed = 1 THEN Ok(s0)                                  \* the client closed its own end: it cannot tell
         ELSE IF cr.st = "live" /\ (e.eof = 1 \/ e.rst = 1) THEN Rej("connection closed under a client the model keeps alive")
         ELSE IF cr.st \in {"dead", "refused"} /\ e.eof = 0 /\ e.rst = 0 THEN Rej("the model closed the connection, the client sees it open")
         ELSE Ok(s0)
    [] e.e = "fin" ->
         IF e.live = NLive(s0) /\ e.openfd = NOpenFd(s0) /\ e.openl = NOpenL(s0) /\ B(e.srv) = s0.srv.alive
            /\ (e.leaks = -1 \/ B(e.leaks) = LeakExpected(s0)) THEN Ok(s0)
         ELSE Rej("ledger differs: the model has " \o ToString(<<NLive(s0), NOpenFd(s0), NOpenL(s0), s0.srv.alive, LeakExpected(s0)>>))
    [] e.e = "eos" -> IF s0.run.pc = "idle" THEN Ok(CheckInv(s0)) ELSE Rej("the scenario ends inside a handler run: " \o s0.run.pc)
    [] OTHER -> Rej("unknown trace line " \o e.e)

(* bind_add returns: the only API whose result is an input *)
StepBindRet(s0, e) ==
  IF e.e = "api.ret" /\ e.f = "bind_add" /\ e.b = s0.run.b
  THEN LET s1 == BindAdd([s0 EXCEPT !.run = IdleRun], e.b, e.rc = "0") IN
       IF e.count = Len(s1.srv.order) /\ (e.rc = "0" => e.nl = 1) THEN Ok(s1) ELSE Rej("bind count differs")
  ELSE Rej("the model expects the return of http_srv_bind_add")

Init == /\ \E fx \in Variants : s = InitS(fx, [init |-> 0, max |-> 0, snd |-> 0, hdrs |-> 0, reqconn |-> FALSE, respclose |-> FALSE,
                                               rcvtmo |-> FALSE, sndtmo |-> FALSE, accfilter |-> FALSE, reqcb |-> FALSE, sndcb |-> FALSE,
                                               dstcb |-> FALSE, conncb |-> FALSE])
        /\ i = 1 /\ mode = "skip" /\ sc = 0 /\ sawcrash = FALSE

Verdict(v, why, sx) == PrintT(ToJson([sc |-> sc, verdict |-> v, fx |-> s.fx, line |-> i, why |-> why, crashed |-> sx.crashed, viol |-> sx.viol]))
Next ==
  /\ i <= Len(Tr)
  /\ i' = i + 1
  /\ LET e == Tr[i] IN
     IF e.e = "create"
     THEN /\ s' = InitS(s.fx, CfgOf(e)) /\ mode' = "run" /\ sc' = sc + 1 /\ sawcrash' = FALSE
     ELSE IF mode = "skip" THEN UNCHANGED <<s, mode, sc, sawcrash>>
     ELSE LET x == IF s.run.pc = "bind_add" /\ e.e \notin Skip THEN StepBindRet(s, e) ELSE Step(s, e)
              sawc == sawcrash \/ e.e = "crash" IN
          /\ sawcrash' = sawc
          /\ IF ~x.ok THEN /\ Verdict("REJECT", x.why, s) /\ mode' = "skip" /\ UNCHANGED <<s, sc>>
             ELSE IF e.e = "eos" /\ s.crashed /\ ~sawc
                  THEN /\ Verdict("REJECT", "the model predicts a memory error, the real code ran on", s) /\ mode' = "skip" /\ UNCHANGED <<s, sc>>
             ELSE IF e.e = "eos" /\ x.s.pend # << >> /\ ~s.crashed
                  THEN /\ Verdict("REJECT", "output missing at the end: " \o Exp(x.s.pend), s) /\ mode' = "skip" /\ UNCHANGED <<s, sc>>
             ELSE /\ s' = x.s /\ UNCHANGED sc
                  /\ IF e.e = "eos" THEN Verdict("ACCEPT", "", x.s) /\ mode' = "skip" ELSE mode' = "run"
Spec == Init /\ [][Next]_tvars
=============================================================================
