-------------------------- MODULE MC_DnsResolvCov --------------------------
(* Vacuity probe for MC_DnsResolv: a ghost set records which actions have been taken on the way to a state; the
   "invariant" NotAllTaken must be VIOLATED - one behaviour of the model takes every action of the environment and
   of the resolver (so none of them is dead in the exhaustive runs). *)
EXTENDS MC_DnsResolv
VARIABLE seen
Acts == {"DoResolve", "DoCancel", "DoTimeout", "SrvReply", "Forge", "Deliver", "DupDeliver", "DoTick", "DoArmFail", "DoDestroy"}
InitC == Init /\ seen = {}
T(a, A) == A /\ seen' = seen \cup {a}
NextC == \/ T("DoResolve", DoResolve) \/ T("DoCancel", DoCancel) \/ T("DoTimeout", \E id \in 1..MaxId : DoTimeout(id))
         \/ T("SrvReply", SrvReply) \/ T("Forge", Forge) \/ T("Deliver", Deliver) \/ T("DupDeliver", DupDeliver)
         \/ T("DoTick", DoTick) \/ T("DoArmFail", DoArmFail) \/ T("DoDestroy", DoDestroy)
SpecC == InitC /\ [][NextC]_<<vars, seen>>
NotAllTaken == seen # Acts
=============================================================================
