---------------------------- MODULE Trace_Ssdp ----------------------------
(* Trace validation of the real announcer (harness/x07_drv.c) against Ssdp.
   The ndjson file is a concatenation of scenario executions; each starts with a "create" line and ends with "eos".
   Input lines (create, dev_add, svc_add, link, dev_del, if_del, notify, count, timer, rx, destroy, firez and the armed
   faults) are taken with the LOGGED ARGUMENTS only; the model computes the new state and the outputs of the step
   (datagrams, group joins / leaves, timer arm / disarm, socket close - in order), and the following output lines must
   be exactly those, field by field, in that order, none missing when the next input arrives; every "*.ret" line
   carries the return value and the ledger the driver observed (open timers, open sockets, live allocations of the
   object, the two public counts), which must be the model's.
   All variants of the model in Variants (sets of repairs, see Ssdp!AllFix) run side by side; each prints one verdict
   per scenario: ACCEPT (with the properties the history violates in that variant and whether a memory error was
   reached) or REJECT (line and reason).  A variant that reached a memory error accepts whatever follows.
   Where a repair has two equally good shapes (destroy deleting from the end or from the front; dev_add deleting its
   timer on the error path or growing the array first) the step is nondeterministic: a variant ACCEPTS a scenario
   when one of its branches does (the rig takes the disjunction of the verdicts of one variant). *)
EXTENDS Ssdp, Json, IOUtils
CONSTANTS VariantFamily      \* "core" : AllFix, {}, AllFix minus one; "all" : every subset
Tr == ndJsonDeserialize(IOEnv.TRACE)
Variants == IF VariantFamily = "all" THEN SUBSET AllFix
            ELSE {AllFix, {}} \cup {AllFix \ {f} : f \in AllFix}
VARIABLES r, i, pend, mode, sc
tvars == <<r, i, pend, mode, sc>>

Ok(r1, p)  == [ok |-> TRUE, r |-> r1, pend |-> p, why |-> ""]
Rej(why)   == [ok |-> FALSE, r |-> r, pend |-> << >>, why |-> why]
Clear(r0)  == [r0 EXCEPT !.out = << >>]
Exp(p)     == IF p = << >> THEN "nothing" ELSE ToString(Head(p))
Inputs     == {"dev_add", "svc_add", "link", "dev_del", "if_del", "notify", "count", "timer", "rx", "destroy", "firez",
               "sendfail", "joinfail", "allocfail", "fire"}
Ret(op, rc) == [e |-> "ret", op |-> op, rc |-> rc]
B(x) == x = 1
(* the ledger of a "*.ret" line against the model state *)
LedgerOk(r0, e) == e.tmrs = Timers(r0) /\ e.socks = NSocks(r0) /\ e.allocs = r0.allocs
                   /\ e.devs = (IF r0.alive THEN NDevs(r0) ELSE 0) /\ e.ifs = (IF r0.alive THEN NIfs(r0) ELSE 0)
LedgerStr(r0) == ToString([tmrs |-> Timers(r0), socks |-> NSocks(r0), allocs |-> r0.allocs,
                           devs |-> IF r0.alive THEN NDevs(r0) ELSE 0, ifs |-> IF r0.alive THEN NIfs(r0) ELSE 0])
DevOk(r0, d) == d \in Devs /\ r0.alive /\ r0.dev[d].used
SkOf(v4, v6) == (IF v4 THEN << <<4, 1900, 1, 1, 0>> >> ELSE << >>) \o (IF v6 THEN << <<6, 1900, 1, 1, 0>> >> ELSE << >>)

RetStep(r0, p, e, op, rc) ==
  IF p = << >> \/ Head(p) # Ret(op, rc) THEN Rej("return of " \o op \o " differs; the model expects " \o Exp(p))
  ELSE IF ~LedgerOk(r0, e) THEN Rej("ledger after " \o op \o " differs; the model has " \o LedgerStr(r0))
  ELSE Ok(r0, Tail(p))

(* alt: the other admissible shape of a repair (order of deletions in destroy, dev_add growing the array first) *)
Step(r0, p, e, alt) ==
  IF r0.crashed THEN Ok(r0, << >>)
  ELSE IF e.e \in Inputs /\ p # << >> THEN Rej("output missing before the next input: the model expects " \o Exp(p))
  ELSE
  CASE e.e = "dev_add" ->
         IF e.d \notin Devs \/ ~r0.alive \/ r0.dev[e.d].used \/ e.ver > 65535 THEN Rej("scenario outside the model")
         ELSE LET pp == [uuid |-> e.uuid, dom |-> e.dom, type |-> e.type, ver |-> e.ver, boot |-> e.boot,
                         conf |-> e.conf, age |-> e.age, ann |-> e.ann]
                  x == IF alt THEN DevAddAlt(Clear(r0), e.d, pp) ELSE DevAdd(Clear(r0), e.d, pp)
              IN Ok(Clear(x.s), x.s.out \o <<Ret("dev_add", x.rc)>>)
    [] e.e = "svc_add" ->
         IF ~DevOk(r0, e.d) \/ e.ver > 65535 THEN Rej("scenario outside the model")
         ELSE LET x == SvcAdd(Clear(r0), e.d, [dom |-> e.dom, type |-> e.type, ver |-> e.ver])
              IN Ok(Clear(x.s), x.s.out \o <<Ret("svc_add", x.rc)>>)
    [] e.e = "link" ->
         IF ~DevOk(r0, e.d) THEN Rej("scenario outside the model")
         ELSE LET x == DevIfAdd(Clear(r0), e.d, e.ifn, e.u4, e.u6)
              IN Ok(Clear(x.s), x.s.out \o <<Ret("link", x.rc)>>)
    [] e.e = "dev_del" ->
         IF ~DevOk(r0, e.d) THEN Rej("scenario outside the model")
         ELSE LET r1 == DevDel(Clear(r0), e.d) IN Ok(Clear(r1), r1.out \o <<Ret("dev_del", "-")>>)
    [] e.e = "if_del" ->
         IF ~r0.alive \/ IfPos(r0, e.ifx) = 0 THEN Rej("if_del of an interface the model has not registered")
         ELSE LET r1 == IfDel(Clear(r0), e.ifx) IN Ok(Clear(r1), r1.out \o <<Ret("if_del", "-")>>)
    [] e.e = "notify" ->
         IF ~r0.alive THEN Rej("scenario outside the model")
         ELSE LET r1 == SendNotify(Clear(r0)) IN Ok(Clear(r1), r1.out \o <<Ret("notify", "-")>>)
    [] e.e = "count" -> Ok(r0, <<Ret("count", "-")>>)
    [] e.e = "fire" ->
         IF DevOk(r0, e.d) /\ e.ms = r0.dev[e.d].ms THEN Ok(r0, << >>)
         ELSE Rej("the armed period of the device's timer is not ann_interval (default 60 s) in milliseconds")
    [] e.e = "timer" ->
         IF DevOk(r0, e.d) THEN LET r1 == TimerCb(Clear(r0), e.d) IN Ok(Clear(r1), r1.out)
         ELSE IF r0.zomb > 0 THEN Ok(Crash(r0), << >>)
         ELSE Rej("timer expiry for a device whose timer the model has deleted")
    [] e.e = "rx" ->
         IF ~r0.alive \/ e.sk \notin r0.socks \/ e.shape \notin (AnsweredShapes \cup IgnoredShapes) THEN Rej("scenario outside the model")
         ELSE LET r1 == RecvOne(Clear(r0), [sk |-> e.sk, ifx |-> e.ifx, src |-> IF e.sk = 6 /\ SubSeq(e.src, 1, 3) = "l6:"
                                                                                     THEN e.src \o "%" \o ToString(e.ifx) ELSE e.src,
                                            shape |-> e.shape, st |-> e.st])
              IN Ok(Clear(r1), r1.out)
    [] e.e = "sendfail"  -> Ok([r0 EXCEPT !.sendfail = e.k], << >>)
    [] e.e = "joinfail"  -> Ok([r0 EXCEPT !.joinfail = e.k], << >>)
    [] e.e = "allocfail" -> Ok([r0 EXCEPT !.allocfail = e.k], << >>)
    [] e.e = "destroy" ->
         IF ~r0.alive THEN Rej("scenario outside the model")
         ELSE LET r1 == DestroyOrd(Clear(r0), IF alt THEN "fwd" ELSE "rev") IN Ok(Clear(r1), r1.out \o <<Ret("destroy", "-")>>)
    [] e.e = "firez" ->
         IF e.n # r0.zomb THEN Rej(ToString(e.n) \o " armed timers outlive their device / the object; the model has " \o ToString(r0.zomb))
         ELSE IF e.n > 0 THEN Ok(Crash(r0), << >>) ELSE Ok(r0, << >>)
    [] e.e = "tx" ->
         IF e.wf # 1 THEN Rej("datagram not well formed (start line, CRLF structure, terminator, octets outside 32..126, EXT)")
         ELSE IF p # << >> /\ Head(p) = TxOut(e.sk, e.ifx, e.dst, e.k, e.nt, e.usn, e.loc, e.age, e.boot, e.conf, e.host, e.sp, e.srvf, e.fail)
         THEN Ok(r0, Tail(p))
         ELSE Rej("datagram not predicted; the model expects " \o Exp(p))
    [] e.e = "opt" ->
         IF p # << >> /\ Head(p) = OptOut(e.sk, e.o, e.ifx, e.grp, e.fail) THEN Ok(r0, Tail(p))
         ELSE Rej("group membership change not predicted; the model expects " \o Exp(p))
    [] e.e \in {"arm", "disarm", "close"} ->
         IF p # << >> /\ Head(p) = (CASE e.e = "arm" -> [e |-> "arm", ms |-> e.ms] [] e.e = "disarm" -> [e |-> "disarm"]
                                      [] OTHER -> [e |-> "close", sk |-> e.sk])
            /\ (e.e = "arm" => e.per = e.ms)
         THEN Ok(r0, Tail(p))
         ELSE Rej("timer arm / disarm or socket close not predicted (or timer not periodic); the model expects " \o Exp(p))
    [] e.e = "dev_add.ret" -> RetStep(r0, p, e, "dev_add", e.rc)
    [] e.e = "svc_add.ret" -> RetStep(r0, p, e, "svc_add", e.rc)
    [] e.e = "link.ret"    -> RetStep(r0, p, e, "link", e.rc)
    [] e.e = "dev_del.ret" -> RetStep(r0, p, e, "dev_del", "-")
    [] e.e = "if_del.ret"  -> RetStep(r0, p, e, "if_del", "-")
    [] e.e = "notify.ret"  -> RetStep(r0, p, e, "notify", "-")
    [] e.e = "count.ret"   -> RetStep(r0, p, e, "count", "-")
    [] e.e = "destroy.ret" -> RetStep(r0, p, e, "destroy", "-")
    [] e.e = "create.ret" ->
         IF p = << >> \/ Head(p) # Ret("create", e.rc) THEN Rej("return of upnp_ssdp_create differs; the model expects " \o Exp(p))
         ELSE IF e.sks # SkOf(4 \in r0.socks, 6 \in r0.socks)
              THEN Rej("sockets after create (family, port 1900, wildcard, pktinfo on, multicast loop off) differ; the model expects " \o ToString(SkOf(4 \in r0.socks, 6 \in r0.socks)))
         ELSE IF ~LedgerOk(r0, e) THEN Rej("ledger after create differs; the model has " \o LedgerStr(r0))
         ELSE Ok(r0, Tail(p))
    [] e.e = "firez.survived" -> Ok(r0, p)
    [] e.e = "crash" -> Rej("memory error / crash of the real code that this variant does not predict")
    [] e.e = "hang" -> Rej("the real code hung")
    [] e.e = "script.miss" -> Ok(r0, p)
    [] e.e = "eos" -> IF p = << >> THEN Ok(r0, p) ELSE Rej("output missing at the end: " \o Exp(p))
    [] OTHER -> Rej("unknown trace line")

Init == /\ \E fx \in Variants : r = InitS(fx)
        /\ i = 1 /\ pend = << >> /\ mode = "skip" /\ sc = 0

Verdict(v, why) == PrintT(ToJson([sc |-> sc, verdict |-> v, fx |-> r.fx, line |-> i, why |-> why,
                                  crashed |-> r.crashed, viol |-> r.viol]))
Next ==
  /\ i <= Len(Tr)
  /\ i' = i + 1
  /\ LET e == Tr[i] IN
     IF e.e = "create"
     THEN LET x == Create(r, [kind |-> e.kind, v4 |-> B(e.v4), v6 |-> B(e.v6), byebye |-> B(e.byebye), sp |-> e.sp, sockfail |-> e.sockfail])
          IN /\ r' = Clear(x.s) /\ pend' = x.s.out \o <<Ret("create", x.rc)>> /\ mode' = "run" /\ sc' = sc + 1
     ELSE IF mode = "skip" THEN UNCHANGED <<r, pend, mode, sc>>
     ELSE \E x \in {Step(r, pend, e, FALSE)} \cup (IF e.e \in {"destroy", "dev_add"} THEN {Step(r, pend, e, TRUE)} ELSE {}) :
          IF ~x.ok THEN /\ Verdict("REJECT", x.why) /\ mode' = "skip" /\ UNCHANGED <<r, pend, sc>>
          ELSE /\ r' = x.r /\ pend' = x.pend /\ UNCHANGED sc
               /\ IF e.e = "eos" THEN Verdict("ACCEPT", "") /\ mode' = "skip" ELSE mode' = "run"
Spec == Init /\ [][Next]_tvars
(* the model's own invariants along the real history, for the fully repaired variant *)
Sane == (r.fx = AllFix /\ mode = "run" /\ pend = << >> /\ ~r.crashed) =>
           (InvReg(r) /\ (r.alive => InvGroups(r)) /\ InvAllocs(r) /\ InvLedger(r) /\ r.viol = {})
=============================================================================
