SPECIFICATION FairSpec
CONSTANTS
  NIds = 2
  Ident = FALSE
  Dev = {}
  JitClasses = {"zero"}
  Plan = "two"
  Kinds = {"good", "wrongsrc", "badauth"}
  MaxFlips = 1
  MaxReplies = 1
  AllowCancel = TRUE
  AllowDestroy = TRUE
  PortReuse = FALSE
CHECK_DEADLOCK FALSE
PROPERTIES Termination
