--------------------------- MODULE Trace_SapRcvr ---------------------------
(* Trace validation for sap_rcvr.c: every line written by harness/x09_drv.c (create with an armed fail point, one
   datagram delivered through the real socket to the callback on the pool thread, callback error, clock tick, destroy)
   is one step of SapRcvr; `d` is the abstract datagram the rig rendered.  After every event the projected state of the
   real receiver (per bucket: origin, valid_untill, updating, returned_count, flags, name, media_proto, family, address,
   port, interface, NUL termination; next_clean_time, clean_interval, cache_time; open descriptors; blocks owned; clock)
   is compared with the specification.  Lines that only match with a named deviation of the shipped code are accepted
   and reported. *)
EXTENDS SapRcvr, Json, IOUtils
VARIABLES R, now, l, skip
Tr == ndJsonDeserialize(IOEnv.TRACE)
D(c, name) == IF c THEN {} ELSE {name}
Cands == << {}, {"createfdleak"}, {"dcachenull"} >>

Eval(S, t, e, dev) ==
  CASE e.op = "sap.create" ->
         LET r == SapCreate(S, e.ct, e.cci, e.fp, t, dev) IN
         [R |-> r.R, now |-> t, ok |-> ~S.alive,
          diff |-> D(r.rc = e.rc, "rc") \cup D(e.ok = (IF r.rc = 0 THEN 1 ELSE 0), "result-object") \cup D(e.wrote = (IF r.rc = 0 THEN 1 ELSE 0), "result-pointer-written")
                   \cup D(e.fp \in {"srcvr", "socket"} \/ e.bind = << 1, 4, 1, 9875 >>, "bind-address")]
    [] e.op = "sap.dgram" ->
         LET r == SapRecv(S, e.d, t, e.rf, e.af) IN
         [R |-> r.R, now |-> t, ok |-> S.alive /\ (~S.dcnull \/ SapDrop(e.d, e.rf) # ""), diff |-> D(e.n = e.d.n, "datagram-size")]
    [] e.op = "sap.skip" -> [R |-> S, now |-> t, ok |-> ~S.alive, diff |-> {}]
    [] e.op = "sap.cberr" -> [R |-> S, now |-> t, ok |-> S.alive, diff |-> D(e.cont = 1, "callback-result")]
    [] e.op = "sap.tick" -> [R |-> S, now |-> t + e.dt, ok |-> TRUE, diff |-> {}]
    [] e.op = "sap.destroy" -> [R |-> SapDestroy(S), now |-> t, ok |-> S.alive, diff |-> {}]
    [] e.op = "sap.nullcalls" -> [R |-> S, now |-> t, ok |-> TRUE, diff |-> D(e.create_nopool = 22 /\ e.create_noret = 22 /\ e.add4 = 22, "rc")]

StDiff(S, t, e) ==
  IF "st" \notin DOMAIN e THEN {}
  ELSE LET p == SapProj(S, t) IN
       IF DOMAIN p # DOMAIN e.st THEN {"st.alive"}
       ELSE {"st." \o f : f \in {g \in DOMAIN p : p[g] # e.st[g]}}

Res(S, t, e, k) == LET r == Eval(S, t, e, Cands[k]) IN r @@ [all |-> r.diff \cup StDiff(r.R, r.now, e)]
Init == R = SapDead(0) /\ now = 1000 /\ l = 1 /\ skip = FALSE
Step ==
  /\ l <= Len(Tr)
  /\ LET e == Tr[l] IN
     IF e.op = "reset" THEN R' = SapDead(0) /\ now' = 1000 /\ skip' = FALSE
     ELSE IF skip THEN UNCHANGED << R, now, skip >>
     ELSE LET r1 == Res(R, now, e, 1) IN
          IF r1.ok /\ r1.all = {} THEN R' = r1.R /\ now' = r1.now /\ skip' = FALSE
          ELSE LET good == IF r1.ok THEN {k \in 2..Len(Cands) : Res(R, now, e, k).all = {}} ELSE {} IN
               IF good = {}
               THEN /\ PrintT(ToJson([v |-> "MISMATCH", l |-> l, f |-> IF r1.ok THEN r1.all ELSE {"call-not-allowed-by-spec"}]))
                    /\ skip' = TRUE /\ UNCHANGED << R, now >>
               ELSE LET k == CHOOSE x \in good : \A y \in good : x <= y
                        r == Res(R, now, e, k) IN
                    /\ R' = r.R /\ now' = r.now /\ skip' = FALSE
                    /\ PrintT(ToJson([v |-> "DEVIATION", l |-> l, f |-> Cands[k]]))
  /\ (l = Len(Tr) => PrintT(ToJson([v |-> "TRACE-END", l |-> l, f |-> {}])))
  /\ l' = l + 1
Spec == Init /\ [][Step]_<< R, now, l, skip >>
=============================================================================
