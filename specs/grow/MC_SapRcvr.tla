---------------------------- MODULE MC_SapRcvr ----------------------------
(* Exhaustive exploration of the SAP receiver (SapRcvr.tla over DataCache.tla): one step per create / datagram event
   (with receive error, allocation failure) / callback error / clock tick / destroy.  The postconditions SR1..SR7 are
   evaluated in every step (violations collected in `bad`); Dev selects deviations of the shipped code (negative
   controls).  With Emit = TRUE the events of a random walk are printed and replayed on the real receiver (in process,
   on the real thread pool) by rig/checks/x09.py.  Unsafe = FALSE keeps the walks away from the datagram shapes on which
   the shipped callback writes outside its buffers (SR8; they are run as probes). *)
EXTENDS SapRcvr, Json
CONSTANTS Mode, Origins, NameIdx, Cts, Ccis, Times, MaxNow, MaxRc, Dev, Emit, Unsafe
VARIABLES R, now, ev, bad
vars == << R, now, ev, bad >>
D(c, name) == IF c THEN {} ELSE {name}
FailPoints == {"none", "srcvr", "socket", "bind", "rcvbuf", "lowat", "pktinfo", "dcache", "task"}

Base(o, s) == [shape |-> "full", n |-> 200, v |-> 1, a |-> 0, t |-> 0, e |-> 0, c |-> 0, auth |-> 0, hash |-> 1, mime |-> "sdp", sdp |-> "ok",
               o |-> o, s |-> s, mt |-> "video", mf |-> 4, mp |-> "RTP/AVP", port |-> 5004, cf |-> "ok", ad |-> 1]
AddrLen(d) == IF d.a = 0 THEN 4 ELSE 16
Shaped(d, shape) == [d EXCEPT !.shape = shape, !.n = CASE shape = "hdr3" -> 3 [] shape = "pay15" -> 4 + AddrLen(d) + d.auth + 15 [] shape = "big" -> 4096 [] shape = "huge" -> 5000 [] OTHER -> d.n]
SdpDefects == {"short", "nov0", "ctl", "badline", "dupo", "dups", "not", "noc", "nom", "dupv"}
ConnBad == {"fields2", "nettype", "atypelen", "shortaddr", "atype", "badaddr", "fam-mismatch"}
Variants(b) ==     \* every way of spoiling or decorating a good announcement, one field at a time
  {b, Shaped(b, "hdr3"), Shaped(b, "pay15"), [b EXCEPT !.v = 2], [b EXCEPT !.v = 0], [b EXCEPT !.hash = 0], [b EXCEPT !.auth = 255],
   [b EXCEPT !.e = 1], [b EXCEPT !.c = 1], [b EXCEPT !.mt = "application"], [b EXCEPT !.mf = 3],
   [b EXCEPT !.t = 1], [b EXCEPT !.a = 1], [b EXCEPT !.auth = 4], [b EXCEPT !.mime = "other"], [b EXCEPT !.mime = "none"],
   [b EXCEPT !.mp = "udp"], [b EXCEPT !.mp = "RTP/SAVP", !.port = 6000], [b EXCEPT !.mp = "TCP"], [b EXCEPT !.mt = "audio", !.cf = "okttl", !.ad = 3]}
  \cup {[b EXCEPT !.sdp = x] : x \in SdpDefects} \cup {[b EXCEPT !.cf = x] : x \in ConnBad}
OriginSet == {Origins[i] : i \in 1..Len(Origins)}
DgramsMC ==        \* Mode "filter": every variant, one origin;  "cache": few datagram kinds, all origins
  IF Mode = "filter" THEN Variants(Base(Origins[1], 1)) \cup {Base(Origins[1], s) : s \in NameIdx}
  ELSE {Base(o, s) : o \in OriginSet, s \in NameIdx} \cup {[Base(o, 1) EXCEPT !.cf = "badaddr"] : o \in OriginSet}

(* shapes on which the shipped callback leaves its buffers *)
UnsafeDgram(S, d) ==
  \/ d.n >= 4096
  \/ d.cf = "long"
  \/ /\ S.alive /\ ~S.dcnull /\ SapDrop(d, 0) = "" /\ SapUnusable(d) = ""
     /\ LET i == FindItem(S.dc, SapKey(d.o)) IN i # NoItem /\ S.rec[i].fl = 0 /\ Len(SapNames[d.s]) > S.rec[i].cap + 13
  \/ S.alive /\ S.dcnull /\ SapDrop(d, 0) = ""

Grows(S, d) ==     \* an incomplete entry would be completed with a name longer than the one its record was allocated for
  /\ S.alive /\ ~S.dcnull /\ SapDrop(d, 0) = "" /\ SapUnusable(d) = ""
  /\ LET i == FindItem(S.dc, SapKey(d.o)) IN i # NoItem /\ S.rec[i].fl = 0 /\ Len(SapNames[d.s]) > S.rec[i].cap
KeysOf(S) == {S.dc.it[s].key : s \in S.dc.live}
ItemOf(S, k) == CHOOSE s \in S.dc.live : S.dc.it[s].key = k
IgnorePost(S, d, rf, af, r) ==
  (SapDrop(d, rf) # "" \/ (af \in {1, 2} /\ SapKey(d.o) \notin KeysOf(S))) => r.R = S
AcceptPost(S, d, rf, af, r, t) ==
  (SapDrop(d, rf) = "" /\ ~(af \in {1, 2} /\ SapKey(d.o) \notin KeysOf(S))) =>
    LET k == SapKey(d.o)  T == r.R
        gone == KeysOf(S) \ KeysOf(T)
        completes == SapUnusable(d) = "" /\ (k \notin KeysOf(S) \/ S.rec[ItemOf(S, k)].fl = 0) IN
    /\ KeysOf(T) \subseteq KeysOf(S) \cup {k}
    /\ (k \in KeysOf(T) => LET i == ItemOf(T, k) IN
          /\ T.dc.it[i].vu = t + S.ct
          /\ T.dc.it[i].rc = (IF k \in KeysOf(S) THEN S.dc.it[ItemOf(S, k)].rc ELSE 0) + 1
          /\ (completes => T.rec[i].fl = 1 /\ T.rec[i].name = SapNames[d.s] /\ T.rec[i].port = d.port /\ T.rec[i].addr = SapAddrs[d.ad].t)
          /\ (~completes /\ k \notin KeysOf(S) => T.rec[i].fl = 0))
    /\ (~completes => gone = {})                                                     \* SR5: only a completion cleans
    /\ (completes /\ t < S.dc.nclean => gone = {})
    /\ (completes /\ t >= S.dc.nclean =>
          /\ \A x \in gone \ {k} : S.dc.it[ItemOf(S, x)].vu + S.dc.iv <= t
          /\ \A x \in KeysOf(S) \ (gone \cup {k}) : S.dc.it[ItemOf(S, x)].vu + S.dc.iv > t
          /\ T.dc.nclean = t + S.dc.iv)
    /\ \A x \in (KeysOf(S) \cap KeysOf(T)) \ {k} : T.dc.it[ItemOf(T, x)] = S.dc.it[ItemOf(S, x)] /\ T.rec[ItemOf(T, x)] = S.rec[ItemOf(S, x)]
    /\ (k \in KeysOf(S) \cap KeysOf(T) /\ S.rec[ItemOf(S, k)].fl = 1 => T.rec[ItemOf(T, k)] = S.rec[ItemOf(S, k)])   \* SR4: never rewritten
CreatePost(S, fp, r) ==
  /\ (r.rc = 0) = (fp = "none")
  /\ (r.rc = 0 => r.R.alive /\ ~r.R.dcnull /\ r.R.dc.live = {} /\ r.R.fds = S.fds + 1)
  /\ (r.rc # 0 => ~r.R.alive /\ r.R.fds = S.fds)

TimesSmall == << 1000, 1001, 1002, 2001, 2003 >>     \* the clock of the exhaustive models walks along this list
OriginsOne == << 1 >>
OriginsTwo == << 2, 3 >>            \* same bucket
OriginsSmall == << 1, 2, 3 >>          \* 2 and 3 share a bucket
OriginsAll == << 1, 2, 3, 4, 5, 6, 7, 8 >>   \* 2/3 and 7/8 share a bucket and a length; 7/8 differ in the last two octets only
Step(e, S2, v) == /\ R' = S2 /\ ev' = (IF Emit THEN e ELSE << >>) /\ bad' = bad \cup v
Init == R = SapDead(0) /\ now = 1000 /\ ev = << >> /\ bad = {}
DoCreate(ct, cci, fp) ==
  /\ ~R.alive
  /\ LET r == SapCreate(R, ct, cci, fp, now, Dev) IN
     Step([op |-> "sap.create", ct |-> ct, cci |-> cci, fp |-> fp], r.R, D(CreatePost(R, fp, r), "CreatePost"))
  /\ UNCHANGED now
DoDgram(d, rf, af) ==
  /\ R.alive /\ (Unsafe \/ ~UnsafeDgram(R, d))
  /\ LET r == SapRecv(R, d, now, rf, af) IN
     /\ (R.dcnull \/ \A x \in r.R.dc.live : r.R.dc.it[x].rc <= MaxRc) = TRUE
     /\ Step([op |-> "sap.dgram", d |-> d, rf |-> rf, af |-> af, out |-> r.out], r.R,
          D(IgnorePost(R, d, rf, af, r), "IgnorePost") \cup D(AcceptPost(R, d, rf, af, r, now), "AcceptPost"))
  /\ UNCHANGED now
DoCbErr == R.alive /\ Step([op |-> "sap.cberr", err |-> 5], R, {}) /\ UNCHANGED now
DoTick(dt) == now + dt <= MaxNow /\ now' = now + dt /\ Step([op |-> "sap.tick", dt |-> dt], R, {})
DoDestroy == R.alive /\ Step([op |-> "sap.destroy"], SapDestroy(R), {}) /\ UNCHANGED now

Next ==
  \/ \E ct \in Cts, cci \in Ccis, fp \in FailPoints : DoCreate(ct, cci, fp)
  \/ \E d \in DgramsMC : DoDgram(d, 0, 0)
  \/ \E o \in OriginSet, q \in 1..3 : DoDgram(Base(o, 1), IF q = 3 THEN 1 ELSE 0, IF q = 3 THEN 0 ELSE q)
  \/ DoCbErr \/ DoDestroy
  \/ \E i \in 1..(Len(Times) - 1) : now = Times[i] /\ DoTick(Times[i + 1] - Times[i])
Spec == Init /\ [][Next]_vars

(* ---- random walks: ONE successor per step; a datagram is a good announcement with (often) one field spoiled *)
Pick(seq) == seq[RandomElement(1..Len(seq))]
RandBase(z) ==      \* z: any state-dependent value (keeps TLC from caching the random choice as a constant)
  [Base(Pick(Origins), Pick(<< 1, 1, 2, 2, 3, 4, 5, 6 >>)) EXCEPT
     !.a = Pick(<< 0, 0, 0, 1 >>), !.t = Pick(<< 0, 0, 0, 0, 1 >>), !.auth = Pick(<< 0, 0, 0, 4 >>), !.mime = Pick(<< "sdp", "sdp", "sdp", "other", "none" >>),
     !.mt = Pick(<< "video", "audio" >>), !.mp = Pick(<< "udp", "RTP/AVP", "RTP/SAVP", "TCP" >>), !.port = Pick(<< 5004, 6000, 1, 65535 >>),
     !.cf = Pick(<< "ok", "ok", "okttl" >>), !.ad = Pick(<< 1, 2 >>)]
FixFam(d) == IF Pick(<< 0, 0, 1 >>) = 1 THEN [d EXCEPT !.ad = Pick(<< 3, 4 >>)] ELSE d
RandDgram(z) ==
  LET b == FixFam(RandBase(z))  k == RandomElement(1..(10 + (0 * z))) IN
  IF k <= 6 THEN b
  ELSE Pick(<< Shaped(b, "hdr3"), Shaped(b, "pay15"), [b EXCEPT !.v = Pick(<< 0, 2, 3, 7 >>)], [b EXCEPT !.hash = 0], [b EXCEPT !.auth = 255],
               [b EXCEPT !.e = 1], [b EXCEPT !.c = 1], [b EXCEPT !.e = 1, !.c = 1], [b EXCEPT !.mt = Pick(<< "application", "text", "vide" >>)],
               [b EXCEPT !.mf = 3], [b EXCEPT !.mf = 3], [b EXCEPT !.sdp = Pick(<< "short", "nov0", "ctl", "badline", "dupo", "dups", "not", "noc", "nom", "dupv" >>)],
               [b EXCEPT !.sdp = Pick(<< "short", "nov0", "ctl", "badline", "dupo", "dups", "not", "noc", "nom", "dupv" >>)],
               [b EXCEPT !.cf = Pick(<< "fields2", "nettype", "atypelen", "shortaddr", "atype", "badaddr", "fam-mismatch" >>)],
               [b EXCEPT !.cf = Pick(<< "fields2", "nettype", "atypelen", "shortaddr", "atype", "badaddr", "fam-mismatch" >>)],
               [b EXCEPT !.cf = "badaddr"] >> \o (IF Unsafe THEN << [b EXCEPT !.cf = "long"], Shaped(b, "big"), Shaped([b EXCEPT !.sdp = "nom"], "huge") >> ELSE << >>))
Kinds == << "create", "dgram", "dgram", "dgram", "dgram", "dgram", "dgram", "dgram", "dgram", "dgram", "dgram", "dgram", "dgram", "cberr", "tick", "tick", "tick", "destroy" >>
KindOK(kd) == CASE kd = "create" -> ~R.alive [] kd = "tick" -> R.alive /\ now + 1 <= MaxNow [] OTHER -> R.alive
SimNext ==
  \E x \in {RandomElement({y \in 1..Len(Kinds) : KindOK(Kinds[y])})} :
    CASE Kinds[x] = "create" -> \E fp \in {Pick(<< "none", "none", "none", "none", "none", "none", "none", "none", "srcvr", "socket", "bind", "rcvbuf", "lowat", "pktinfo", "task" >>)} :
                                   DoCreate(Pick(<< 0, 5, 30 >>), Pick(<< 0, 1, 1 >>), fp)
      [] Kinds[x] = "dgram" -> \E d \in {RandDgram(TLCGet("level"))} : \E q \in {Pick(<< 0, 0, 0, 0, 0, 0, 0, 0, 0, 0, 1, 2, 3 >>)} :
                                   IF Unsafe \/ ~UnsafeDgram(R, d)
                                   THEN DoDgram(d, IF q = 3 THEN 1 ELSE 0, IF q \in {1, 2} /\ ~Grows(R, d) THEN q ELSE 0)   \* how a too small record is replaced is left open
                                   ELSE DoCbErr
      [] Kinds[x] = "cberr" -> DoCbErr
      [] Kinds[x] = "tick" -> \E dt \in {Pick(<< 1, 1, 4, 6, 29, 1000, 1003 >>)} : IF now + dt <= MaxNow THEN DoTick(dt) ELSE DoTick(1)
      [] Kinds[x] = "destroy" -> DoDestroy
SimSpec == Init /\ [][SimNext]_vars

Inv == SapInv(R) = TRUE
PostOK == bad = {}
FdOK == R.fds = (IF R.alive THEN 1 ELSE 0)
EmitInv == Emit => PrintT(ToJson([lvl |-> TLCGet("level"), ev |-> ev]))
=============================================================================
