---------------------------- MODULE MC_SsdpCov ----------------------------
(* Vacuity probe for MC_Ssdp: a ghost set records which actions have been taken on the way to a state; the
   "invariant" NotAllTaken must be VIOLATED - one behaviour of the model takes every action of the environment and
   of the object (so none of them is dead in the exhaustive runs). *)
EXTENDS MC_Ssdp
VARIABLE seen
Acts == {"DoCreate", "DoDevAdd", "DoSvcAdd", "DoLink", "DoDevDel", "DoIfDel", "DoTimer", "DoNotify", "DoRecv", "DoDestroy", "DoFault"}
InitC == Init /\ seen = {}
T(a, A) == A /\ seen' = seen \cup {a}
NextC == \/ T("DoCreate", DoCreate) \/ T("DoDevAdd", DoDevAdd) \/ T("DoSvcAdd", DoSvcAdd) \/ T("DoLink", DoLink)
         \/ T("DoDevDel", DoDevDel) \/ T("DoIfDel", DoIfDel) \/ T("DoTimer", DoTimer) \/ T("DoNotify", DoNotify)
         \/ T("DoRecv", DoRecv) \/ T("DoDestroy", DoDestroy) \/ T("DoFault", DoFault)
SpecC == InitC /\ [][NextC]_<<vars, seen>>
NotAllTaken == seen # Acts
=============================================================================
