---------------------------- MODULE ReassHelper ----------------------------
(* Growth check X10: include/utils/reass_helper.h - the fragment reassembly helper (sequence-numbered fragments are
   copied into one buffer; an optional bitmap detects duplicates; completion is announced by return value 0).

   The module is shaped like the implementation: HandleFrag is reass_hlp_handle_frag() statement by statement,
   including the state that is already changed when an error is returned.  It is a pure operator
   (state, fragment) -> (state, rc, crash, oob), shared by the model (MC_Reass) and the trace specification
   (Trace_Reass) that validates every call of the real code.

   64-bit words.  uint64_t / size_t values are represented by the integer of smallest magnitude congruent to them
   modulo 2^64 (so UINT64_MAX is -1, and "huge" values are small negative integers).  All values of the model and
   of the driver stay within a few units of 0 or of 2^64, for which +, - in Z ARE + and - modulo 2^64; the unsigned
   order is ULt; a product idx * blk with a huge idx overflows exactly when blk >= 2.

   Properties (stated for the repaired design, Fix = AllFix; each named deviation of the shipped code violates one):
     R1 completion is sound      (bitmap mode) rc = 0 only when every block 0..n of the message whose last
                                 fragment has index n was accepted exactly once, nothing beyond n was accepted and
                                 every octet below sequence_size was written exactly once
     R2 completion is announced  (bitmap mode) the call that accepts the final missing block of such a message
                                 returns 0
     R3 memory safety            every octet is written inside buf, the bitmap is touched inside its bytes, and
                                 no input makes the call fault (division by zero)
     R4 counters                 blk_cnt / recv_cnt are the number / total size of the accepted fragments since the
                                 reset, dup_cnt the number of duplicates refused (bitmap mode)
     R5 refusal is clean         a non-first fragment refused with EINVAL / ERANGE / EAGAIN(dup) leaves buffer, bitmap,
                                 blk_cnt, recv_cnt, sequence_size untouched
     R6 placement                an accepted fragment is stored at (seq - first) * blk_size, and a fragment is
                                 refused as a duplicate only if a fragment with the same distance was accepted
     R7 bitmap contract          when the first fragment was accepted with the caller's bitmap (no ENOBUFS), none of
                                 the buf_size / blk_size blocks that test counted, lying inside the buffer, is refused
                                 with ERANGE (an empty last fragment exactly at the end of a buffer whose bitmap has
                                 no spare bit may be)

   Named deviations of the shipped code (a variant v \subseteq AllFix says which are repaired):
     "wrap"     reass_hlp_seq_calc_diff: across the 2^64 wrap the distance is one too small (MAX - first, not
                MAX - first + 1): the block after the wrap lands on its predecessor (R6; no-bitmap: overwritten data)
     "div0"     a non-first fragment while blk_size = 0 (nothing received since the reset) whose distance has a bit
                above 2^32: (offset / blk_size) divides by zero (R3)
     "sumovf"   (offset + data_size) > buf_size wraps for offsets just below 2^64 (blk_size 1, or blk_size 0 after
                "div0"): with no bitmap the last fragment is copied in front of the buffer (R3)
     "hole"     completion is decided by counting (blk_cnt reached the last index + 1 and recv_cnt = sequence_size):
                an accepted block BEYOND the last fragment stands in for a block that never arrived, and 0 is
                returned over a hole (R1); so does a second fragment flagged "last" (its size is not checked) in
                the middle; repaired = a second, different last fragment is refused and the bitmap is consulted for
                0..last before 0 is returned
     "bmunits"  the duplicate test refuses blk_idx >= bitmap_size (octets) although the first-fragment test
                promised bitmap_size * 8 blocks (R7) *)
EXTENDS Integers, Sequences, FiniteSets

AllFix == {"wrap", "div0", "sumovf", "bmunits", "hole"}
EINVAL == 22  EAGAIN == 11  ENOBUFS == 105  ERANGE == 34  EBADMSG == 74

ULt(a, b) == IF (a >= 0) = (b >= 0) THEN a < b ELSE a >= 0
ULe(a, b) == a = b \/ ULt(a, b)

(* reass_hlp_seq_calc_diff *)
Diff(v, f, s) == IF ULe(f, s) \/ "wrap" \in v THEN s - f ELSE s - f - 1

NoBitmap == -1
(* reass_hlp_init + the driver's zeroed cur_seq_no (reass_hlp_reset leaves cur_seq_no alone) *)
InitState(bufsz, bmsz) ==
  [bufsz |-> bufsz, bmsz |-> bmsz, buf |-> [i \in 1..bufsz |-> 0], bits |-> {},
   blk |-> 0, cnt |-> 0, recv |-> 0, seqsz |-> 0, dup |-> 0, reord |-> 0, first |-> 0, last |-> 0, cur |-> 0,
   \* ghosts (not in the C struct)
   acc |-> {},                           \* accepted since the reset: [d |-> true distance, off, size]
   wc |-> [i \in 1..bufsz |-> 0],        \* writes per octet since the reset (capped at 2)
   dups |-> 0, promised |-> FALSE]       \* duplicates refused; first fragment passed the bitmap size test
(* reass_hlp_alloc(buf_size, min_frag_size): only the sizes *)
AllocSizes(bufsz, minfrag) ==
  LET mf == IF minfrag = 0 THEN 1 ELSE minfrag   b == bufsz + 128 IN [bufsz |-> b, bmsz |-> (b \div mf) + 128]

Reset(S) ==
  [S EXCEPT !.recv = 0, !.cnt = 0, !.blk = 0, !.seqsz = 0, !.dup = 0, !.reord = 0, !.first = 0, !.last = 0,
            !.bits = {}, !.acc = {}, !.wc = [i \in 1..S.bufsz |-> 0], !.dups = 0, !.promised = FALSE]

R(S, rc, dev) == [s |-> S, rc |-> rc, crash |-> FALSE, oob |-> FALSE, dev |-> dev, accepted |-> FALSE, isdup |-> FALSE]

(* the tail of the function from "Prepare: calc block index and offset" on; S1 = state after the is_first block *)
Place(v, S1, f) ==
  LET idx == Diff(v, S1.first, f.seq)
      td  == f.seq - S1.first                       \* the true distance
      dW  == IF idx # td THEN {"wrap"} ELSE {}
      hi  == idx < 0                                \* some bit above 2^32 set (blk_size is always small here)
  IN
  IF hi /\ S1.blk = 0 /\ "div0" \notin v THEN [R(S1, 0, dW \cup {"div0"}) EXCEPT !.crash = TRUE]
  ELSE IF hi /\ S1.blk >= 2 THEN R(S1, EINVAL, dW)       \* size_t overflow detected
  ELSE
  LET off == idx * S1.blk                           \* idx >= 0, or huge with blk 1 (off = idx) / blk 0 (off = 0)
      sum == off + f.size
      wrapsum == off < 0 /\ sum >= 0                \* the 64-bit sum wrapped
      dS  == IF wrapsum THEN {"sumovf"} ELSE {}
  IN
  IF (IF "sumovf" \in v THEN off < 0 \/ sum > S1.bufsz ELSE ULt(S1.bufsz, sum)) THEN R(S1, EINVAL, dW)
  ELSE
  LET bm == S1.bmsz # NoBitmap
      limit == IF "bmunits" \in v THEN S1.bmsz * 8 ELSE S1.bmsz
      dB == IF bm /\ idx >= 0 /\ idx >= S1.bmsz /\ idx < S1.bmsz * 8 THEN {"bmunits"} ELSE {}
  IN
  IF bm /\ ULe(limit, idx) THEN R(S1, ERANGE, dW \cup dS \cup dB)
  ELSE IF bm /\ idx \in S1.bits
       THEN [R([S1 EXCEPT !.dup = @ + 1, !.dups = @ + 1], EAGAIN, dW \cup dS) EXCEPT !.isdup = TRUE]
  ELSE
  LET S2 == IF bm THEN [S1 EXCEPT !.bits = @ \cup {idx}] ELSE S1
      setsz == f.last /\ S2.seqsz = 0
      S3 == IF setsz THEN [S2 EXCEPT !.seqsz = sum, !.last = f.seq] ELSE S2
  IN
  IF setsz /\ ULt(S3.bufsz, S3.seqsz) THEN R(S3, ENOBUFS, dW \cup dS)    \* unreachable after the range test; kept
  ELSE
  LET cells == {c \in 1..S3.bufsz : c - 1 >= off /\ c - 1 < sum}
      S4 == [S3 EXCEPT !.buf = [c \in 1..S3.bufsz |-> IF c \in cells THEN f.tag ELSE @[c]],
                       !.wc = [c \in 1..S3.bufsz |-> IF c \in cells /\ @[c] < 2 THEN @[c] + 1 ELSE @[c]],
                       !.recv = @ + f.size, !.cnt = @ + 1, !.cur = f.seq,
                       !.acc = @ \cup {[d |-> td, off |-> off, size |-> f.size]}]
      need == Diff(v, S4.first, S4.last) + 1
      holes == bm /\ need >= 0 /\ \E d \in 0..(need - 1) : d \notin S4.bits
      cnt0 == ~(S4.seqsz = 0 \/ ULt(S4.cnt, need)) /\ S4.seqsz = S4.recv    \* the shipped completion test
      rc == IF S4.seqsz = 0 \/ ULt(S4.cnt, need) THEN EAGAIN
            ELSE IF S4.seqsz # S4.recv THEN EBADMSG
            ELSE IF "hole" \in v /\ holes THEN EBADMSG ELSE 0
      dH == IF cnt0 /\ holes THEN {"hole"} ELSE {}
  IN [R(S4, rc, dW \cup dS \cup dH) EXCEPT !.oob = (off < 0), !.accepted = TRUE]

(* reass_hlp_handle_frag(reass_hlp, seq_no, is_first, is_last, data, data_size); f = [seq, first, last, size, tag] *)
HandleFrag(v, S, f) ==
  IF f.first THEN
    IF f.size = 0 THEN R(S, EINVAL, {})
    ELSE LET S1 == [Reset(S) EXCEPT !.blk = f.size, !.first = f.seq] IN
         IF S1.bmsz # NoBitmap /\ (S1.bufsz \div S1.blk) > S1.bmsz * 8 THEN R(S1, ENOBUFS, {})
         ELSE Place(v, [S1 EXCEPT !.promised = (S1.bmsz # NoBitmap)], f)
  ELSE
    IF ~f.last /\ S.blk # f.size THEN R(S, EINVAL, {})
    ELSE IF "hole" \in v /\ f.last /\ S.seqsz # 0 /\ f.seq # S.last THEN R(S, EINVAL, {})   \* a second, different last fragment
    ELSE LET r == Place(v, IF S.cur + 1 # f.seq THEN [S EXCEPT !.reord = @ + 1] ELSE S, f) IN
         IF f.last /\ S.seqsz # 0 /\ f.seq # S.last /\ r.accepted THEN [r EXCEPT !.dev = @ \cup {"hole"}] ELSE r

(* ---- what the C struct shows (the driver logs exactly this) *)
Core(S) == [buf |-> S.buf, bits |-> S.bits, blk |-> S.blk, cnt |-> S.cnt, recv |-> S.recv, seqsz |-> S.seqsz,
            dup |-> S.dup, reord |-> S.reord, first |-> S.first, last |-> S.last, cur |-> S.cur]
Payload(S) == [buf |-> S.buf, bits |-> S.bits, cnt |-> S.cnt, recv |-> S.recv, seqsz |-> S.seqsz]

(* ---- properties of one step: S = state before, f = fragment, r = HandleFrag(.., S, f); result = names violated *)
Ds(S) == {a.d : a \in S.acc}
RECURSIVE SumSizes(_)
SumSizes(A) == IF A = {} THEN 0 ELSE LET a == CHOOSE x \in A : TRUE IN a.size + SumSizes(A \ {a})
LastD(S) == S.last - S.first
AllIn(S) == /\ S.seqsz # 0 /\ LastD(S) >= 0
            /\ Ds(S) = 0..LastD(S)
            /\ Cardinality(S.acc) = LastD(S) + 1
            /\ \A a \in S.acc : a.off = a.d * S.blk /\ (a.d < LastD(S) => a.size = S.blk)
Covered(S) == /\ S.seqsz # 0 /\ LastD(S) >= 0
              /\ \A d \in 0..LastD(S) :
                    /\ Cardinality({a \in S.acc : a.d = d}) = 1
                    /\ \A a \in S.acc : a.d = d => a.off = d * S.blk /\ (d < LastD(S) => a.size = S.blk)
StepBad(S, f, r) ==
  LET T == r.s  bm == T.bmsz # NoBitmap IN
     (IF bm /\ r.rc = 0 /\ ~r.crash /\ ~(Covered(T) /\ \A c \in 1..T.bufsz : (c <= T.seqsz) => T.wc[c] = 1)
        THEN {"R1-completion-sound"} ELSE {})
  \cup (IF bm /\ r.accepted /\ AllIn(T) /\ r.rc # 0 THEN {"R2-completion-announced"} ELSE {})
  \cup (IF r.crash \/ r.oob THEN {"R3-memory-safety"} ELSE {})
  \cup (IF bm /\ ~(T.cnt = Cardinality(T.acc) /\ T.recv = SumSizes(T.acc) /\ T.dup = T.dups)
        THEN {"R4-counters"} ELSE {})
  \cup (IF ~f.first /\ ~r.accepted /\ ~r.crash /\ Payload(T) # Payload(S) THEN {"R5-refusal-clean"} ELSE {})
  \cup (IF (r.accepted /\ \E a \in T.acc \ S.acc : a.off # a.d * T.blk)
           \/ (r.isdup /\ (f.seq - T.first) \notin Ds(T))
        THEN {"R6-placement"} ELSE {})
  \cup (IF bm /\ T.promised /\ r.rc = ERANGE /\ (f.seq - T.first) >= 0
           /\ (f.seq - T.first) < T.bufsz \div T.blk             \* one of the blocks the first-fragment test counted
           /\ (f.seq - T.first) * T.blk + f.size <= T.bufsz
        THEN {"R7-bitmap-contract"} ELSE {})
=============================================================================
