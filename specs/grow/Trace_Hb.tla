------------------------------ MODULE Trace_Hb ------------------------------
(* Trace validation for hash_bucket.h: every line of the ndjson file written by harness/x01_drv.c (one line per call on
   the real hbucket_t, in the real order of the calls) is one step of HashBucket.  The step is taken with the LOGGED
   ARGUMENTS only; what the real call returned and (when the line carries "st") the whole projected state - zone lists,
   zone counts, total count, entry->zone of every entry object, owner and depth of every zone mutex - are compared
   with what the specification computes (mismatch = names of the fields that differ, INVARIANT Conforms).
   A call the specification says would block (zone mutex owned by another thread) is not a step: the trace is then not
   accepted.  Lines without "st" come from the free running mode (no rig lock): they are ordered by tickets taken
   while the zone mutex was held, and end with a "quiesce" line carrying the state.  hbskt->count is the one field
   the zone mutexes do not protect: a wrong total at quiesce is recorded as class "total-count" in seen (reported by
   the rig as the finding it is) instead of ending the validation. *)
EXTENDS HashBucket, Json, IOUtils, TLC, FiniteSets
VARIABLES hb, l, mismatch, seen
Tr == ndJsonDeserialize(IOEnv.TRACE)

Dead == [alive |-> FALSE]
D(c, name) == IF c THEN {} ELSE {name}
HasF(e, f) == f \in DOMAIN e

Apply(S, e) ==
  CASE e.op = "new" ->
         [S |-> New(e.mt = 1, e.nz, e.keys), ok |-> TRUE, diff |-> D(e.rc = 0, "rc")]
    [] e.op = "get" ->
         LET r == Get(S, e.t, e.k, e.fl) IN
         [S |-> r.S, ok |-> S.alive /\ (GetNeedsLock(e.fl) => CanLock(S, e.t, ZoneOfKey(S, e.k))),
          diff |-> D(r.rc = e.rc, "rc") \cup D(r.e = e.e, "entry") \cup D(r.z = e.z, "zone")
                   \cup (IF HasF(e, "zcz") THEN D(r.S.zc[r.z] = e.zcz, "zone-count") ELSE {})]
    [] e.op = "add" ->
         [S |-> Add(S, e.t, e.e, e.fl, e.zarg),
          ok |-> S.alive /\ S.ez[e.e] = NoZone
                 /\ (~Has(e.fl, ADD_NO_LOCK) => CanLock(S, e.t, AddZone(S, e.e, e.zarg))),
          diff |-> D(e.rc = 0, "rc")]
    [] e.op = "rm" ->
         [S |-> Remove(S, e.t, e.e), ok |-> S.alive /\ (S.ez[e.e] # NoZone => CanLock(S, e.t, S.ez[e.e])), diff |-> {}]
    [] e.op = "zlock" -> [S |-> Lock(S, e.t, e.z), ok |-> S.alive /\ CanLock(S, e.t, e.z), diff |-> {}]
    [] e.op = "zunlock" -> [S |-> Unlock(S, e.t, e.z), ok |-> S.alive, diff |-> {}]
    [] e.op = "elock" ->
         [S |-> ELock(S, e.t, e.e), ok |-> S.alive /\ (S.ez[e.e] # NoZone => CanLock(S, e.t, S.ez[e.e])), diff |-> {}]
    [] e.op = "eunlock" -> [S |-> EUnlock(S, e.t, e.e), ok |-> S.alive, diff |-> {}]
    [] e.op = "zenum" ->
         LET r == ZEnum(S, e.t, e.z, RangeOf(e.rm), e.stop) IN
         [S |-> r.S, ok |-> S.alive /\ CanLock(S, e.t, e.z),
          diff |-> D(r.ret = e.ret, "ret") \cup D(r.vis = e.vis, "visited")
                   \cup (IF HasF(e, "zcz") THEN D(r.S.zc[e.z] = e.zcz, "zone-count") ELSE {})]
    [] e.op = "enum" ->
         LET r == Enum(S, e.t, RangeOf(e.rm), e.stop) IN
         [S |-> r.S, ok |-> S.alive /\ \A z \in EnumZones(S, e.stop) : CanLock(S, e.t, z),
          diff |-> D(r.ret = e.ret, "ret") \cup D(r.vis = e.vis, "visited")]
    [] e.op = "destroy" ->
         LET r == Destroy(S) IN
         [S |-> Dead, ok |-> S.alive /\ \A z \in ZonesOf(S) : S.own[z] = None,
          diff |-> D(r.vis = e.vis, "visited") \cup D(e.znull = 1, "entry-zone-not-cleared")]
    [] e.op = "quiesce" -> [S |-> S, ok |-> S.alive, diff |-> {}]
    [] e.op = "bigcreate" ->      \* 2^log2 zones: the table is made or the call says ENOMEM (memory safety: ASan)
         [S |-> S, ok |-> TRUE, diff |-> D(e.rc \in {0, 12}, "rc")]
    [] e.op = "createrc" ->
         [S |-> S, ok |-> TRUE,
          diff |-> D(\A i \in 1..Len(e.rows) :
                       LET w == e.rows[i]  rc == CreateRc(w[1], w[2] = 1, w[3] = 1, w[4] = 1) IN
                       w[5] = rc /\ ((w[6] = 1) <=> (rc = 0)), "rc")]

StDiff(S, e) ==
  IF ~HasF(e, "st") THEN {}
  ELSE IF ~S.alive THEN D(HasF(e.st, "dead"), "alive")
  ELSE IF HasF(e.st, "dead") THEN {"alive"}
  ELSE LET p == Proj(S)  s == e.st IN
       D(p.zl = s.zl, "zone-lists") \cup D(p.zc = s.zc, "zone-counts") \cup D(p.ez = s.ez, "entry-zone")
       \cup D(p.own = s.own, "lock-owner") \cup D(p.dep = s.dep, "lock-depth")
       \cup (IF e.op = "quiesce" THEN {} ELSE D(p.total = s.total, "total-count"))
Classes(S, e) ==
  IF e.op = "quiesce" /\ HasF(e, "st") /\ S.alive /\ ~HasF(e.st, "dead")
  THEN (IF e.st.total # S.total THEN {"total-count"} ELSE {}) \cup (IF e.st.total < 0 THEN {"total-negative"} ELSE {})
  ELSE {}

(* lock / unlock calls on zone mutexes the real call made (lines of the serialised modes carry lk, ul) *)
LkDiff(S, e) ==
  IF ~HasF(e, "lk") \/ e.op = "new" THEN {}
  ELSE LET rmv == IF e.op \in {"zenum", "enum"} THEN Cardinality(RangeOf(e.rm) \cap RangeOf(e.vis)) ELSE 0
           nzs == CASE e.op = "zenum" -> 1 [] e.op = "enum" -> Cardinality(EnumZones(S, e.stop)) [] e.op = "destroy" -> S.nz [] OTHER -> 0
           e1 == IF e.op \in {"rm", "elock", "eunlock"} THEN e.e ELSE 1
           x == LockOps(S, e.op, IF e.op \in {"get", "add"} THEN e.fl ELSE 0, e.op = "get" /\ e.rc = 0, S.alive /\ S.ez[e1] # NoZone, rmv, nzs)
       IN D(x[1] = e.lk, "mutex-lock-calls") \cup D(x[2] = e.ul, "mutex-unlock-calls")

Init == hb = Dead /\ l = 1 /\ mismatch = {} /\ seen = {}
Step ==
  /\ l <= Len(Tr)
  /\ LET e == Tr[l]  r == Apply(hb, e) IN
     /\ r.ok
     /\ hb' = r.S
     /\ mismatch' = { e.op \o ":" \o f : f \in r.diff \cup StDiff(r.S, e) \cup (IF hb.alive THEN LkDiff(hb, e) ELSE {}) }
     /\ seen' = seen \cup { << c, l >> : c \in { v \in Classes(r.S, e) : \A x \in seen : x[1] # v } }
     /\ (l = Len(Tr)) => PrintT(<< "TRACE-ACCEPTED", l, seen' >>)
  /\ l' = l + 1
Spec == Init /\ [][Step]_<< hb, l, mismatch, seen >>
Conforms == mismatch = {}
=============================================================================
