-------------------------- MODULE TraceTpConnectEx --------------------------
(* Trace validation of the real connector (harness/x04_drv.c) against TpConnectEx: one trace action per logged event.
   Model steps are driven by: call/ret.create, sys.socket, sys.connect, io.ctl add (the registration of the attempt, with
   addrs_cur read from the task), loop.cb (which object the loop delivered), cb.begin/cb.end, call/ret.stop,
   call/ret.destroy, clock.jump, loop.turn (the handler returned).  The other system calls (close, timerfd_settime,
   timerfd_create, epoll_ctl del, getsockopt) update a passive mirror `m` of what is open / registered / programmed;
   at every rest point and at every callback the mirror is compared with the model (Sync).
   Hard guards (no action fits = the trace is rejected at that line): the ORDER of the steps, the arguments of the
   callback, the return code of create.  Clauses that can be followed further are reported as notes. *)
EXTENDS TpConnectEx, Json, IOUtils

Tr == ndJsonDeserialize(IOEnv.TRACE)
VARIABLES s, l, m, api
tvars == <<s, l, m, api>>

M0 == [open |-> {}, ioreg |-> FALSE, tmr |-> 0, tfd |-> FALSE, soerr |-> 0]
IsEv(e) == l <= Len(Tr) /\ Tr[l].e = e /\ l' = l + 1
E == Tr[l]
PrmOf(e) == [n |-> e.n, mt |-> e.mt, rr |-> e.rr = 1, idelay |-> e.idelay = 1, rd |-> e.rd, tmo |-> e.tmo, tl |-> e.tl,
             every |-> e.every = 1, cod |-> e.cod = 1]

Sync(t, mm) ==
  LET t1 == Chk(t, mm.open = ExpectOpen(t), "PROPERTY:Sockets:open-sockets-differ-from-the-expected-set")
      t2 == Chk(t1, mm.ioreg = t.ioreg, "PROPERTY:Arming:socket-registration-differs")
  IN Chk(t2, mm.tmr = (CASE t.timer = "delay" -> t.prm.rd [] t.timer = "timeout" -> t.prm.tmo [] OTHER -> 0),
         "PROPERTY:Arming:timer-programming-differs")

TInit == s = New /\ l = 1 /\ m = M0 /\ api = ""
Um == UNCHANGED m
Ua == UNCHANGED api

TCallCreate == IsEv("call.create") /\ s.pc = "none" /\ s' = ApiCreate(PrmOf(E)) /\ m' = M0 /\ Ua
TRetCreate == IsEv("ret.create") /\ s.pc = "ret" /\ s.ctx = "create" /\ E.rc = s.rc /\ E.task = (IF s.rc = 0 THEN 1 ELSE 0)
              /\ s' = ToWait(Sync(s, m)) /\ Um /\ Ua
TSocket == IsEv("sys.socket") /\ s.pc = "sock" /\ E.sid = s.natt + 1
           /\ s' = SockResult(Chk(Chk(s, m.open = ExpectOpen(s), "PROPERTY:Sockets:socket-of-a-failed-attempt-still-open-at-the-next-attempt"),
                                  E.nonblock = 1, "PROPERTY:Arming:blocking-socket"), E.rc = 0, E.err)
           /\ m' = [m EXCEPT !.open = IF E.rc = 0 THEN @ \cup {E.sid} ELSE @] /\ Ua
TConnect == IsEv("sys.connect") /\ s.pc = "conn" /\ E.sid = s.sock
            /\ s' = ConnResult(Chk(s, E.ai = s.cur /\ E.alen = 16, "PROPERTY:Schedule:connect-to-an-address-that-is-not-next"), E.rc, E.err)
            /\ Um /\ Ua
TIoCtl == /\ IsEv("io.ctl") /\ Ua
          /\ IF E.op = "del" THEN UNCHANGED s /\ m' = [m EXCEPT !.ioreg = IF E.rc = 0 THEN FALSE ELSE @]
             ELSE /\ s.pc = "arm" /\ E.sid = s.sock
                  /\ s' = ArmResult(Chk(s, E.out = 1 /\ E.oneshot = 1, "PROPERTY:Arming:registration-is-not-one-shot-write"), E.rc = 0, E.err, E.cur)
                  /\ m' = [m EXCEPT !.ioreg = (E.rc = 0)]
TTmrCreate == IsEv("tmr.create") /\ m' = [m EXCEPT !.tfd = TRUE, !.tmr = 0] /\ UNCHANGED s /\ Ua
TTmrSecond == IsEv("tmr.second") /\ s' = Note(s, "PROPERTY:Cancel:second-timer-descriptor-created-while-one-exists") /\ Um /\ Ua
TTmrSet == IsEv("tmr.set") /\ m' = [m EXCEPT !.tmr = E.ms] /\ Ua
           /\ s' = Chk(s, E.exact = 1 /\ E.abs = 0 /\ E.ims = 0 /\ E.rc = 0, "PROPERTY:Arming:timer-not-relative-one-shot-milliseconds")
TTmrClose == IsEv("tmr.close") /\ m' = [m EXCEPT !.tfd = FALSE, !.tmr = 0] /\ UNCHANGED s /\ Ua
TClose == IsEv("sys.close") /\ m' = [m EXCEPT !.open = @ \ {E.sid}] /\ Ua
          /\ s' = Chk(s, E.sid \in m.open, "PROPERTY:Sockets:socket-closed-twice")
TSockErr == IsEv("sys.sockerr") /\ m' = [m EXCEPT !.soerr = E.err] /\ UNCHANGED s /\ Ua
TLoopCb == /\ IsEv("loop.cb") /\ s.pc = "wait" /\ api = "" /\ Ua
           /\ IF E.o = "tmr"
              THEN /\ m' = [m EXCEPT !.tmr = 0]
                   /\ IF s.phase = "delay" /\ s.timer = "delay" THEN s' = EvDelay(s)
                      ELSE s.phase = "connecting" /\ s.timer = "timeout" /\ s' = EvTimeout(s)
              ELSE /\ E.o = "io" /\ s.phase = "connecting" /\ s.ioreg /\ E.ev = 1
                   /\ s' = EvIo(s, IF E.err = 1 THEN (IF m.soerr = 0 THEN EINVAL ELSE m.soerr) ELSE 0)
                   /\ m' = [m EXCEPT !.soerr = 0]
TCbBegin == /\ IsEv("cb.begin") /\ s.pc = "cb" /\ Um /\ Ua
            /\ E.err = s.rep.err /\ (E.err = GIVEUP \/ E.ai = s.rep.ai) /\ E.same = 1 /\ E.cur = E.t
            /\ E.sock = (IF E.err = 0 THEN s.sock ELSE 0)
            /\ s' = CbBegin(Sync(s, m))
TCbEnd == IsEv("cb.end") /\ s.pc = "incb" /\ api = "" /\ s' = CbEnd(s, E.ret) /\ Um /\ Ua
TCallStop == IsEv("call.stop") /\ s.pc \in {"wait", "incb"} /\ api = "" /\ api' = "stop" /\ UNCHANGED s /\ Um
TRetStop == IsEv("ret.stop") /\ api = "stop" /\ api' = "" /\ s' = Sync(ApiStop(s, E.tmr_armed = 1), m) /\ Um
TCallDestroy == IsEv("call.destroy") /\ s.pc \in {"wait", "incb"} /\ api = "" /\ api' = "destroy" /\ E.sock = s.sock /\ UNCHANGED s /\ Um
TRetDestroy == /\ IsEv("ret.destroy") /\ api = "destroy" /\ api' = ""
               /\ m' = [m EXCEPT !.tfd = FALSE, !.tmr = 0]          \* (a descriptor that was left is taken away by the rig after it was seen)
               /\ s' = Sync(ApiDestroy(s, E.tmr_open = 1, E.tmr_armed = 1), m')
TDrvClose == IsEv("drv.close") /\ E.sid = s.owned /\ E.sid \in m.open /\ Ua
             /\ s' = [s EXCEPT !.owned = 0, !.open = @ \ {E.sid}, !.closed = @ \cup {E.sid}]
             /\ m' = [m EXCEPT !.open = @ \ {E.sid}]
TDrvLeaked == IsEv("drv.leaked") /\ Ua /\ m' = [m EXCEPT !.open = @ \ {E.sid}]
              /\ s' = Note([s EXCEPT !.open = @ \ {E.sid}], "PROPERTY:Sockets:socket-left-open-after-destroy")
TDrvRelease == IsEv("drv.release") /\ UNCHANGED <<s, m, api>>
TClock == IsEv("clock.jump") /\ s' = ClockMove(s, E.to) /\ Um /\ Ua
TLoopTurn == /\ IsEv("loop.turn") /\ api = "" /\ Um /\ Ua
             /\ IF s.pc = "ret" /\ s.ctx = "handler" THEN s' = ToWait(Sync(s, m))
                ELSE s.pc \in {"wait", "none"} /\ UNCHANGED s
TStalled == IsEv("stalled") /\ s' = Note(s, "PROPERTY:Terminates:nothing-pending-and-no-final-report") /\ Um /\ Ua
TEnd == /\ IsEv("end") /\ Um /\ Ua /\ s.pc \in {"wait", "none"}
        /\ s' = Chk(Chk(Chk(s, E.open = 0 /\ m.open = {}, "PROPERTY:Sockets:socket-left-open-at-the-end"),
                        E.tfd = 0, "PROPERTY:Cancel:timer-descriptor-left-at-the-end"),
                    s.phase \in {"dead", "failed", "none"}, "PROPERTY:Cancel:task-not-at-rest-at-the-end")
TReset == IsEv("Reset") /\ s' = New /\ m' = M0 /\ api' = ""

Report == \A n \in s'.notes \ s.notes : PrintT(ToJson([note |-> n, line |-> l]))
TNext == /\ \/ TCallCreate \/ TRetCreate \/ TSocket \/ TConnect \/ TIoCtl \/ TTmrCreate \/ TTmrSecond \/ TTmrSet \/ TTmrClose \/ TClose \/ TSockErr
            \/ TLoopCb \/ TCbBegin \/ TCbEnd \/ TCallStop \/ TRetStop \/ TCallDestroy \/ TRetDestroy \/ TDrvClose \/ TDrvLeaked \/ TDrvRelease
            \/ TClock \/ TLoopTurn \/ TStalled \/ TEnd \/ TReset
         /\ Report
TSpec == TInit /\ [][TNext]_tvars

TAccepted == IF TLCGet("stats").diameter - 1 = Len(Tr) THEN TRUE
             ELSE Print(<<"REJECTED_AT_LINE", TLCGet("stats").diameter, Tr[TLCGet("stats").diameter]>>, FALSE)
(* the clauses of TpConnectEx hold along the behaviour the real code produced (as long as it follows no known deviation) *)
TInv == s.devs # {} \/ s.notes # {} \/
        (InvOneFinal(s) /\ InvFailReports(s) /\ InvSchedule(s) /\ InvSockets(s) /\ InvCancel(s) /\ InvArming(s) /\ InvInitialDelay(s))
=============================================================================
