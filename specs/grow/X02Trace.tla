------------------------------ MODULE X02Trace ------------------------------
(* Trace validation of the real RADIUS client (harness/x02_drv.c) against RadiusClient.

   One ndjson line per observation.  Lines of the scenario (main thread) are API calls and environment steps
   (servers receive / answer, reachability, socket() failure, jitter class); lines of a pool thread are either a
   TRIGGER - the pool is about to run one of the client's entry points: "start" (query message), "fire" (timer
   callback), "rx" (recvfrom returned a datagram to the receiver task), "destroy.thr", "call.cancel" - or an
   OUTPUT of the entry point that is running: timer programming, socket()/close(), sendto(), the user callback.
   A trigger executes the corresponding handler of RadiusClient, whose output sequence is appended to owed[t];
   every output line must equal the head of owed[t]; a trigger needs owed[t] empty (the previous entry point
   produced exactly what the specification said, no more, no less).

   Named deviations of the unchanged code: where a handler has a deviation point the validator follows BOTH the
   repaired and the deviating branch (the next lines decide), output-only deviations are recognised when the line is
   matched, crashes are accepted only where the specification says the code touches freed memory / NULL.  devs
   collects the names used on the accepted branch; the check reports them as known findings. *)
EXTENDS RadiusClient, Json, IOUtils

VARIABLES st, owed, l, devs, J, reqs, dthr
tvars == <<st, owed, l, devs, J, reqs, dthr>>

Tr == ndJsonDeserialize(IOEnv.TRACE)
E == Tr[l]
IsEv(e) == l <= Len(Tr) /\ Tr[l].e = e /\ l' = l + 1

BranchDevs == {DvNoFoTime, DvNoFoStart, DvResign, DvCancel, DvReqCode, DvDestroyHalf, DvDestroyTmr}
J0 == [def |-> "zero", map |-> << >>]
Blank == InitState(1, 1, 0, 1)

Init == /\ st = Blank /\ owed = [t \in 0..0 |-> << >>] /\ l = 1 /\ devs = {} /\ J = J0 /\ reqs = EmptyMap /\ dthr = {}

Keep(vs) == UNCHANGED vs

(* a handler run: follow the repaired branch and, where the run met deviation points, also the deviating ones *)
Apply(H(_), t) ==
  LET r0 == H({}) IN
  \E dv \in (IF r0.pts \cap BranchDevs = {} THEN {{}} ELSE SUBSET BranchDevs) :
     LET r == IF dv = {} THEN r0 ELSE H(dv) IN
     /\ r.used \cap BranchDevs = dv
     /\ st' = r.st
     /\ owed' = [owed EXCEPT ![t] = @ \o r.o]
     /\ devs' = devs \cup r.used

(* ---- scenario lines ---- *)
TSkip == /\ l <= Len(Tr) /\ E.e \in {"pool", "poolstop", "Reset", "call.destroy", "ret.query", "ret.cancel"}
         /\ (E.e = "ret.query" => E.rc = 0)
         /\ (E.e = "ret.cancel" => owed[E.t] = << >>)
         /\ l' = l + 1 /\ Keep(<<st, owed, devs, J, reqs, dthr>>)
TClient == /\ IsEv("client") /\ E.rc = 0
           /\ st' = [InitState(E.smin, E.smax, E.nas, E.nthr) EXCEPT !.cfg.rcvkb = E.rcvkb, !.cfg.sndkb = E.sndkb]
           /\ owed' = [t \in 0..(E.nthr - 1) |-> << >>]
           /\ J' = J0 /\ reqs' = EmptyMap /\ dthr' = {} /\ Keep(<<devs>>)
TServer == /\ IsEv("server") /\ E.rc = 0 /\ E.k = Len(st.srv) + 1
           /\ st' = [st EXCEPT !.srv = Append(@, NewServer(E.fam, E.irt, E.mrt, E.mrd, E.mrc, E.sec)), !.unreach = Append(@, 0)]
           /\ Keep(<<owed, devs, J, reqs, dthr>>)
TRnd == /\ IsEv("rnd") /\ E.found = 1
        /\ J' = [def |-> "zero", map |-> E.map]
        /\ Keep(<<st, owed, devs, reqs, dthr>>)
TUnreach == /\ IsEv("unreach") /\ st' = [st EXCEPT !.unreach[E.k] = E.err] /\ Keep(<<owed, devs, J, reqs, dthr>>)
TSockfail == /\ IsEv("sockfail") /\ st' = [st EXCEPT !.sockfail = E.err] /\ Keep(<<owed, devs, J, reqs, dthr>>)
TCallQuery == /\ IsEv("call.query") /\ st.up /\ E.q \notin DOMAIN st.qs
              /\ st' = Submit(st, E.q, NewQuery(E.thr, E.idany = 1, E.i, E.nonce, E.pwd))
              /\ Keep(<<owed, devs, J, reqs, dthr>>)
TSrvRx == /\ IsEv("srv.rx")
          /\ \E r \in st.netq : /\ r.x = E.x /\ r.k = E.k /\ r.id = E.i /\ r.nonce = E.nonce
                                /\ st' = [st EXCEPT !.netq = @ \ {r}]
                                /\ reqs' = MapPut(reqs, E.x, r)
          /\ Keep(<<owed, devs, J, dthr>>)
TSrvTx == /\ IsEv("srv.tx") /\ E.x \in DOMAIN reqs /\ E.kind \in ReplyKinds
          /\ st' = [st EXCEPT !.netr = @ \cup {MkReply(st, reqs[E.x], E.kind, IF E.kind = "short" THEN 0 ELSE E.d, E.u)}]
          /\ Keep(<<owed, devs, J, reqs, dthr>>)
AllQuiet == \A t \in DOMAIN owed : owed[t] = << >> \/ (\A n \in 1..Len(owed[t]) : owed[t][n].e = "maycrash")
TSettled == /\ IsEv("settled") /\ AllQuiet
            /\ E.qmem = Cardinality(Pending(st)) /\ E.tfds = NTimers(st) /\ E.skts = NSocks(st)
            /\ E.unread = 0          \* the client reads what arrives on its sockets (the scenario waited for it)
            /\ owed' = [t \in DOMAIN owed |-> << >>]
            /\ Keep(<<st, devs, J, reqs, dthr>>)
TRetDestroy == /\ IsEv("ret.destroy") /\ AllQuiet /\ dthr = DOMAIN owed
               /\ E.qmem = Cardinality(Pending(st)) /\ E.tfds = NTimers(st) /\ E.skts = NSocks(st)
               /\ st' = [st EXCEPT !.up = FALSE]
               /\ owed' = [t \in DOMAIN owed |-> << >>]
               /\ Keep(<<devs, J, reqs, dthr>>)
(* a bounded wait of the scenario expired: legitimate only for a query whose timer the client itself disarmed *)
THang == /\ IsEv("Hang") /\ E.where = "waitcb" /\ E.q \in DOMAIN st.qs
         /\ LET Q == st.qs[E.q] IN
            /\ Q.st = "active" /\ Q.s # None
            /\ st.sk[<<Q.thr, Q.fam>>][Q.s].tm[Q.id] = 0
         /\ devs' = devs \cup {DvZeroRt}
         /\ (IF l = Len(Tr) THEN TRUE ELSE Tr[l + 1].e = "pool")
         /\ Keep(<<st, owed, J, reqs, dthr>>)

(* ---- triggers on a pool thread ---- *)
Quiet(t) == t \in DOMAIN owed /\ (owed[t] = << >> \/ \A n \in 1..Len(owed[t]) : owed[t][n].e = "maycrash")
Drop(t) == [owed EXCEPT ![t] = << >>]
TStart == /\ IsEv("start") /\ st.up /\ Quiet(E.t)
          /\ st.msgs[E.t] # << >> /\ Head(st.msgs[E.t]) = E.q
          /\ LET t == E.t IN
             Apply(LAMBDA d : HStart(st, t, J, d), t) /\ Keep(<<J, reqs, dthr>>)
TFire == /\ IsEv("fire") /\ st.up /\ Quiet(E.t)
         /\ FireEnabled(st, E.t, E.fam, E.s + 1, E.i)
         /\ LET t == E.t  f == E.fam  s == E.s + 1  i == E.i IN
            Apply(LAMBDA d : HFire(st, t, f, s, i, J, d), t) /\ Keep(<<J, reqs, dthr>>)
TRx == /\ IsEv("rx") /\ st.up /\ Quiet(E.t)
       /\ E.s + 1 \in 1..Len(st.sk[<<E.t, E.fam>>])
       /\ st.sk[<<E.t, E.fam>>][E.s + 1].u = E.u
       /\ \E rep \in st.netr :
             /\ rep.u = E.u /\ rep.d = E.d
             /\ LET t == E.t  f == E.fam  s == E.s + 1 IN
                Apply(LAMBDA d : HRecv(st, t, f, s, rep, d), t)
       /\ Keep(<<J, reqs, dthr>>)
TCancel == /\ IsEv("call.cancel") /\ st.up /\ Quiet(E.t)
           /\ CancelEnabled(st, E.q) /\ st.qs[E.q].thr = E.t
           /\ LET t == E.t  q == E.q IN Apply(LAMBDA d : HCancel(st, q, d), t)
           /\ Keep(<<J, reqs, dthr>>)
TDestroyThr == /\ IsEv("destroy.thr") /\ st.up /\ Quiet(E.t) /\ E.t \notin dthr
               /\ st.msgs[E.t] = << >>
               /\ LET t == E.t IN Apply(LAMBDA d : HDestroyThr(st, t, d), t)
               /\ dthr' = dthr \cup {E.t}
               /\ Keep(<<J, reqs>>)

(* ---- outputs ---- *)
NoMatch == {"NOMATCH"}
MatchOut(o, e) ==
  IF o.e # e.e \/ o.t # e.t THEN NoMatch
  ELSE CASE o.e = "tmr" ->
              IF <<o.s - 1, o.fam, o.i, o.op, o.ms, o.had>> = <<e.s, e.fam, e.i, e.op, e.ms, e.had>> THEN {} ELSE NoMatch
         [] o.e = "skt.new" -> IF <<o.u, o.fam, o.rc>> = <<e.u, e.fam, e.rc>> THEN {} ELSE NoMatch
         [] o.e = "skt.buf" ->
              IF <<o.u, o.opt>> # <<e.u, e.opt>> THEN NoMatch
              ELSE IF o.val = e.val THEN {} ELSE IF o.val = e.val * 1024 THEN {DvBufUnits} ELSE NoMatch
         [] o.e = "skt.close" -> IF <<o.u, o.s - 1, o.fam>> = <<e.u, e.s, e.fam>> THEN {} ELSE NoMatch
         [] o.e = "tx" ->
              IF <<o.x, o.u, o.s - 1, o.fam, o.k, o.i, o.nonce, o.sig, o.pwd, o.rc>> # <<e.x, e.u, e.s, e.fam, e.k, e.i, e.nonce, e.sig, e.pwd, e.rc>>
                 \/ e.code # 1
              THEN NoMatch
              ELSE IF o.nas = e.nas THEN {} ELSE IF o.nas = 1 /\ e.nas = 0 THEN {DvNas} ELSE NoMatch
         [] o.e = "cb" ->
              IF <<o.q, o.err>> # <<e.q, e.err>> \/ e.cur # o.t \/ e.own # o.t \/ e.h # 1 \/ e.ubuf # 1 THEN NoMatch
              ELSE IF <<o.d, o.code>> = <<e.d, e.code>> THEN {}
              ELSE IF o.err = 0 /\ e.d = 0 /\ e.code = 1 THEN {DvReply} ELSE NoMatch
         [] OTHER -> NoMatch
OutKinds == {"tmr", "skt.new", "skt.buf", "skt.close", "tx", "cb"}
RECURSIVE SkipMarks(_)
SkipMarks(q) == IF q # << >> /\ Head(q).e = "maycrash" THEN SkipMarks(Tail(q)) ELSE q
TOut == /\ l <= Len(Tr) /\ E.e \in OutKinds /\ E.t \in DOMAIN owed
        /\ LET q == SkipMarks(owed[E.t]) IN
           /\ q # << >>
           /\ LET m == MatchOut(Head(q), E) IN
              /\ m # NoMatch
              /\ devs' = devs \cup m
              /\ owed' = [owed EXCEPT ![E.t] = Tail(q)]
        /\ l' = l + 1 /\ Keep(<<st, J, reqs, dthr>>)
(* the process died here (signal or sanitizer report): accepted only where the specification predicts the fault *)
TCrash == /\ IsEv("Crash") /\ E.t \in DOMAIN owed
          /\ owed[E.t] # << >> /\ Head(owed[E.t]).e = "maycrash"
          /\ devs' = devs \cup {Head(owed[E.t]).dev}
          /\ (IF l = Len(Tr) THEN TRUE ELSE Tr[l + 1].e = "pool")
          /\ Keep(<<st, owed, J, reqs, dthr>>)
(* without a sanitizer the same fault shows as a pool thread that stops serving (undefined behaviour): a bounded wait of
   the scenario expires while the specification has a predicted fault pending on some thread; the execution ends here *)
THangUB == /\ IsEv("Hang")
           /\ \E t \in DOMAIN owed : /\ owed[t] # << >> /\ Head(owed[t]).e = "maycrash"
                                      /\ devs' = devs \cup {Head(owed[t]).dev}
           /\ (IF l = Len(Tr) THEN TRUE ELSE Tr[l + 1].e = "pool")
           /\ Keep(<<st, owed, J, reqs, dthr>>)

Step == \/ TSkip \/ TClient \/ TServer \/ TRnd \/ TUnreach \/ TSockfail \/ TCallQuery \/ TSrvRx \/ TSrvTx
        \/ TSettled \/ TRetDestroy \/ THang \/ THangUB \/ TStart \/ TFire \/ TRx \/ TCancel \/ TDestroyThr \/ TOut \/ TCrash
Next == /\ l <= Len(Tr)
        /\ Step
        /\ (l = Len(Tr)) => PrintT(<<"TRACE-ACCEPTED", l, devs'>>)
        /\ TLCSet(42, IF l > TLCGet(42) THEN l ELSE TLCGet(42))
Spec == (Init /\ TLCSet(42, 0)) /\ [][Next]_tvars

(* the properties, evaluated on the real history *)
Props == /\ PCompleteOnce(st) /\ PTxBound(st) /\ PSlots(st) /\ PQuiescent(st)
MaxLine == PrintT(<<"MAXLINE", TLCGet(42)>>)
=============================================================================
