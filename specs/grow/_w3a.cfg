SPECIFICATION Spec
CONSTANTS
  NIds = 2
  Ident = FALSE
  Dev = {}
  JitClasses = {"zero"}
  Plan = "three"
  Kinds = {"good", "wrongid"}
  MaxFlips = 1
  AllowCancel = FALSE
  AllowDestroy = TRUE
  PortReuse = TRUE
INVARIANTS WTwoSocks
CHECK_DEADLOCK FALSE
