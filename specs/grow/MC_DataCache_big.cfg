SPECIFICATION Spec
CONSTANTS
  NB = 2
  NK = 4
  MaxItems = 3
  Ivs = {0, 1}
  MaxNow = 2
  MaxRc = 0
  Emit = FALSE
INVARIANTS Inv PostOK
CHECK_DEADLOCK TRUE
