SPECIFICATION Spec
CONSTANT Tier = "thorough"
INVARIANTS RefusalKeepsState ValidationBeforeKernel NullFirst InstalledShape DisableSilences ReadWriteDisjoint TimerShape ClockFollowsLastCall DeleteRemoves ShortFormsZero
CONSTRAINT Emit
CHECK_DEADLOCK FALSE
