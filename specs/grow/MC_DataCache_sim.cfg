SPECIFICATION SimSpec
CONSTANTS
  NB = 3
  NK = 7
  MaxItems = 5
  Ivs = {0, 1, 2}
  MaxNow = 6
  MaxRc = 3
  Emit = TRUE
INVARIANTS Inv PostOK EmitInv
CHECK_DEADLOCK FALSE
