-------------------------- MODULE Trace_DnsResolv --------------------------
(* Trace validation of the real resolver (harness/x03_drv.c) against DnsResolv.
   The ndjson file is a concatenation of scenario executions; each starts with a "create" line and ends with "eos".
   Input lines (resolve, cancel, rx, timer, tick, sendfail, dump, destroy) are taken with the LOGGED ARGUMENTS only;
   the model computes the new resolver state and the outputs of the step (transmissions and callbacks, in order),
   and the following output lines (tx, cb, resolve.ret, destroy.ret) must be exactly those, in that order, none
   missing when the next input arrives (ORDER and COUNT; no wall-clock value is in the log).
   All variants of the model in Variants (sets of repairs, see DnsResolv!AllFix) run side by side; each prints one
   verdict per scenario: ACCEPT (with the properties the history violates in that variant, and whether undefined
   behaviour was reached) or REJECT (line and reason).  A variant that reached undefined behaviour (crashed)
   accepts whatever follows - so does a C program. *)
EXTENDS DnsResolv, Json, IOUtils
CONSTANTS VariantFamily      \* "core" : AllFix, {}, AllFix minus one; "all" : every subset
Tr == ndJsonDeserialize(IOEnv.TRACE)
Variants == IF VariantFamily = "all" THEN SUBSET AllFix
            ELSE {AllFix, {}} \cup {AllFix \ {f} : f \in AllFix}
VARIABLES r, i, pend, mode, sc
tvars == <<r, i, pend, mode, sc>>

Ok(r1, p)  == [ok |-> TRUE, r |-> r1, pend |-> p, why |-> ""]
Rej(why)   == [ok |-> FALSE, r |-> r, pend |-> << >>, why |-> why]
Clear(r0)  == [r0 EXCEPT !.out = << >>]
Exp(p)     == IF p = << >> THEN "nothing" ELSE ToString(Head(p))
Inputs     == {"resolve", "cancel", "rx", "timer", "tick", "sendfail", "dump", "destroy"}

Step(r0, p, e) ==
  IF r0.crashed THEN Ok(r0, << >>)
  ELSE IF e.e \in Inputs /\ p # << >> THEN Rej("the model expects the output " \o Exp(p) \o " before the next input")
  ELSE
  CASE e.e = "resolve" ->
         IF ~ResolveOk(r0, e.l) \/ e.name \notin Names THEN Rej("scenario outside the model")
         ELSE LET r1 == Resolve(Clear(r0), e.l, e.name) IN Ok(Clear(r1), r1.out)
    [] e.e = "tx" ->
         IF p # << >> /\ Head(p) = TxOut(e.srv, e.id, e.q, e.fail) THEN Ok(r0, Tail(p))
         ELSE Rej("transmission not predicted; the model expects " \o Exp(p))
    [] e.e = "cb" ->
         IF p # << >> /\ Head(p) = CbOut(e.l, e.err, e.addrs) /\ e.thr = 0 THEN Ok(r0, Tail(p))
         ELSE Rej("callback not predicted (or on a foreign thread); the model expects " \o Exp(p))
    [] e.e = "resolve.ret" ->
         IF p # << >> /\ Head(p) = [e |-> "ret", l |-> e.l, rc |-> e.rc, task |-> e.task] THEN Ok(r0, Tail(p))
         ELSE Rej("return of dns_resolv_hostaddr differs; the model expects " \o Exp(p))
    [] e.e = "cancel" ->
         IF ~CancelOk(r0, e.l) THEN Rej("scenario outside the model") ELSE Ok(Cancel(r0, e.l), << >>)
    [] e.e = "rx" ->
         IF \E k \in 1..Len(e.rrs) : e.rrs[k][2] = "C" /\ e.rrs[k][3] \notin Names THEN Rej("scenario outside the model")
         ELSE LET r1 == RecvCb(Clear(r0), [srv |-> e.srv, id |-> e.id, q |-> e.q, rcode |-> e.rcode, bad |-> e.bad,
                                           rrs |-> e.rrs, soa |-> e.soa])
              IN Ok(Clear(r1), r1.out)
    [] e.e = "timer" ->
         IF ~TimeoutOk(r0, e.id) THEN Rej("timer expiry for a slot whose timer the model has not armed")
         ELSE LET r1 == TimeoutCb(Clear(r0), e.id) IN Ok(Clear(r1), r1.out)
    [] e.e = "tick" -> Ok(Tick(r0, e.k), << >>)
    [] e.e = "sendfail" -> Ok(ArmSendFail(r0, e.k, e.err), << >>)
    [] e.e = "dump" ->
         IF e.rc = 0 /\ e.entries = NEntries(r0) /\ e.tasks = NTasks(r0) THEN Ok(r0, << >>)
         ELSE Rej("cache dump differs: the model has " \o ToString(<<NEntries(r0), NTasks(r0)>>) \o " entries/tasks")
    [] e.e = "destroy" ->
         IF ~r0.alive THEN Rej("scenario outside the model")
         ELSE LET r1 == Destroy(Clear(r0)) IN Ok(Clear(r1), r1.out \o << [e |-> "destroy.ret"] >>)
    [] e.e = "destroy.ret" ->
         IF p # << >> /\ Head(p) = [e |-> "destroy.ret"] THEN Ok(r0, Tail(p))
         ELSE Rej("return of destroy; the model expects " \o Exp(p))
    [] e.e = "crash" -> Rej("memory error / crash of the real code that this variant does not predict")
    [] e.e = "hang" -> Rej("the real code hung")
    [] e.e = "script.miss" -> Ok(r0, p)
    [] e.e = "eos" -> IF p = << >> THEN Ok(r0, p) ELSE Rej("output missing at the end: " \o Exp(p))
    [] OTHER -> Rej("unknown trace line")

Init == /\ \E fx \in Variants : r = InitR(fx, 1, 0, 4)
        /\ i = 1 /\ pend = << >> /\ mode = "skip" /\ sc = 0

Verdict(v, why) == PrintT(ToJson([sc |-> sc, verdict |-> v, fx |-> r.fx, line |-> i, why |-> why,
                                  crashed |-> r.crashed, viol |-> r.viol]))
Next ==
  /\ i <= Len(Tr)
  /\ i' = i + 1
  /\ LET e == Tr[i] IN
     IF e.e = "create"
     THEN /\ r' = InitR(r.fx, e.nsrv, e.retry, e.neg) /\ pend' = << >> /\ mode' = "run" /\ sc' = sc + 1
     ELSE IF mode = "skip" THEN UNCHANGED <<r, pend, mode, sc>>
     ELSE LET x == Step(r, pend, e) IN
          IF ~x.ok THEN /\ Verdict("REJECT", x.why) /\ mode' = "skip" /\ UNCHANGED <<r, pend, sc>>
          ELSE /\ r' = x.r /\ pend' = x.pend /\ UNCHANGED sc
               /\ IF e.e = "eos" THEN Verdict("ACCEPT", "") /\ mode' = "skip" ELSE mode' = "run"
Spec == Init /\ [][Next]_tvars
(* the model's own invariants along the real history, for the fully repaired variant *)
Sane == (r.fx = AllFix /\ mode = "run" /\ pend = << >> /\ ~r.crashed) =>
           (InvCbOnce(r) /\ InvChain(r) /\ InvEntry(r) /\ InvLookup(r) /\ InvTx(r) /\ InvDestroyed(r) /\ r.viol = {})
=============================================================================
