SPECIFICATION Spec
CONSTANTS
  NIds = 2
  Ident = FALSE
  Dev = {}
  JitClasses = {"zero"}
  Plan = "fixed"
  Kinds = {"good", "wrongid"}
  MaxFlips = 1
  MaxReplies = 2
  AllowCancel = TRUE
  AllowDestroy = TRUE
  PortReuse = TRUE
INVARIANTS ICompleteOnce INoTxAfterDone ITxBound ISlots IArmed IMatch IDelivered IFailover IQuiescent IDestroyed IMemSafe INas IBufUnits IDuration
CHECK_DEADLOCK FALSE
