SPECIFICATION Spec
CONSTANTS BufSz = 8 BmSzP1 = 2 MaxFrags = 3 SeqNeg = 1 SeqHi = 9 MaxSize = 3
CONSTANT Fix <- FixAll
INVARIANT NoBad
CHECK_DEADLOCK FALSE
