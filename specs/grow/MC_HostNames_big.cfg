SPECIFICATION Spec
CONSTANTS
  PREALLOC = 2
  NObj = 2
  Names = {"a", "A", "b", "ab", "*", "@null"}
  MaxNames = 4
  Dev = {}
  Emit = FALSE
INVARIANTS Inv PostOK MemOK
CHECK_DEADLOCK TRUE
