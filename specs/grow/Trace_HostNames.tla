--------------------------- MODULE Trace_HostNames ---------------------------
(* Trace validation for hostname_list.h: every line written by harness/x09_drv.c (one per call on the real lists)
   is one step of HostNames, taken with the logged arguments; the result code and the projected state of ALL list
   objects (names in order, capacity, flag, array present, NUL termination, number of blocks the library owns) are
   compared with what the specification computes.  A line that only matches with a named deviation of the shipped
   code switched on is accepted, reported as <<"DEVIATION", name, line>> and the validation goes on. *)
EXTENDS HostNames, Json, IOUtils, TLC
CONSTANTS NObj
VARIABLES objs, heap, leak, l, skip
Tr == ndJsonDeserialize(IOEnv.TRACE)
D(c, name) == IF c THEN {} ELSE {name}
Cands == << {}, {"anyinv"}, {"cloneleak"} >>

Obj(W, e) == W.objs[e.i + 1]
Same(W) == [objs |-> W.objs, heap |-> W.heap, leak |-> W.leak]
Eval(W, e, dev) ==
  CASE e.op = "hn.new" ->
         LET r == HnNew(e.kind, e.fail) IN
         [objs |-> [W.objs EXCEPT ![e.i + 1] = r.o], heap |-> [W.heap EXCEPT ![e.i + 1] = (e.kind = "h")], leak |-> W.leak,
          ok |-> ~HnIsObj(Obj(W, e)), diff |-> D(r.rc = e.rc, "rc")]
    [] e.op = "hn.add" ->
         LET r == HnAdd(Obj(W, e), e.name, e.fail) IN
         [objs |-> [W.objs EXCEPT ![e.i + 1] = r.o], heap |-> W.heap, leak |-> W.leak, ok |-> HnIsObj(Obj(W, e)), diff |-> D(r.rc = e.rc, "rc")]
    [] e.op = "hn.find" -> Same(W) @@ [ok |-> HnIsObj(Obj(W, e)), diff |-> D(HnFind(Obj(W, e), e.name) = e.rc, "rc")]
    [] e.op = "hn.check" -> Same(W) @@ [ok |-> HnIsObj(Obj(W, e)), diff |-> D(HnCheck(Obj(W, e), e.name, dev) = e.rc, "rc")]
    [] e.op = "hn.any" -> Same(W) @@ [ok |-> HnIsObj(Obj(W, e)), diff |-> D(HnCheckAny(Obj(W, e), dev) = e.rc, "rc")]
    [] e.op = "hn.clone" ->
         LET r == HnClone(Obj(W, e), e.fail, dev) IN
         [objs |-> [W.objs EXCEPT ![e.j + 1] = r.o], heap |-> [W.heap EXCEPT ![e.j + 1] = TRUE], leak |-> W.leak + r.leak,
          ok |-> HnIsObj(Obj(W, e)) /\ ~HnIsObj(W.objs[e.j + 1]), diff |-> D(r.rc = e.rc, "rc")]
    [] e.op = "hn.del" ->
         [objs |-> [W.objs EXCEPT ![e.i + 1] = HnDead], heap |-> W.heap, leak |-> W.leak, ok |-> HnIsObj(Obj(W, e)), diff |-> {}]
    [] e.op = "hn.nullcalls" ->
         Same(W) @@ [ok |-> TRUE, diff |-> D(e.init = HnEINVAL /\ e.add = HnEINVAL /\ e.find = HnEINVAL /\ e.check = HnEINVAL /\ e.any = HnEINVAL, "rc")]
    [] e.op = "hn.clonenull" -> Same(W) @@ [ok |-> TRUE, diff |-> D(e.rc = HnENOMEM, "rc")]

ProjObj(o) ==
  IF HnIsObj(o) THEN [names |-> o.names, alloc |-> o.alloc, any |-> o.any, arr |-> IF o.arr THEN 1 ELSE 0, term |-> 1] ELSE HnDead
RECURSIVE SumBlocks(_, _)
SumBlocks(R, i) == IF i = 0 THEN 0 ELSE HnBlocks(R.objs[i], R.heap[i]) + SumBlocks(R, i - 1)
StDiff(R, e) ==
  IF "st" \notin DOMAIN e THEN {}
  ELSE D(e.st.o = [i \in 1..NObj |-> ProjObj(R.objs[i])], "state") \cup D(e.st.mem = SumBlocks(R, NObj) + R.leak, "blocks-owned")

Res(W, e, k) == LET r == Eval(W, e, Cands[k]) IN r @@ [all |-> r.diff \cup StDiff(r, e)]
Fresh == [objs |-> [i \in 1..NObj |-> HnDead], heap |-> [i \in 1..NObj |-> FALSE], leak |-> 0]
Init == objs = Fresh.objs /\ heap = Fresh.heap /\ leak = 0 /\ l = 1 /\ skip = FALSE
(* a line that no candidate explains is reported and the rest of that history (up to the next "reset") is skipped *)
Step ==
  /\ l <= Len(Tr)
  /\ LET e == Tr[l]  W == [objs |-> objs, heap |-> heap, leak |-> leak] IN
     IF e.op = "reset" THEN objs' = Fresh.objs /\ heap' = Fresh.heap /\ leak' = 0 /\ skip' = FALSE
     ELSE IF skip THEN UNCHANGED << objs, heap, leak, skip >>
     ELSE LET r1 == Res(W, e, 1) IN
          IF r1.ok /\ r1.all = {} THEN objs' = r1.objs /\ heap' = r1.heap /\ leak' = r1.leak /\ skip' = FALSE
          ELSE LET good == IF r1.ok THEN {k \in 2..Len(Cands) : Res(W, e, k).all = {}} ELSE {} IN
               IF good = {}
               THEN /\ PrintT(ToJson([v |-> "MISMATCH", l |-> l, f |-> IF r1.ok THEN r1.all ELSE {"call-not-allowed-by-spec"}]))
                    /\ skip' = TRUE /\ UNCHANGED << objs, heap, leak >>
               ELSE LET k == CHOOSE x \in good : \A y \in good : x <= y
                        r == Res(W, e, k) IN
                    /\ objs' = r.objs /\ heap' = r.heap /\ leak' = r.leak /\ skip' = FALSE
                    /\ PrintT(ToJson([v |-> "DEVIATION", l |-> l, f |-> Cands[k]]))
  /\ (l = Len(Tr) => PrintT(ToJson([v |-> "TRACE-END", l |-> l, f |-> {}])))
  /\ l' = l + 1
Spec == Init /\ [][Step]_<< objs, heap, leak, l, skip >>
=============================================================================
