SPECIFICATION Spec
CONSTANTS
  HAPREALLOC = 2
  NObj = 2
  Texts = {"h:81", "[::1]"}
  DefPorts = {80}
  Addrs <- AddrsSmall
  Answers <- AnswersSmall
  MaxAddrs = 3
  Dev = {"dedup"}
  Emit = FALSE
  WithClone = TRUE
INVARIANTS Inv PostOK
CHECK_DEADLOCK TRUE
