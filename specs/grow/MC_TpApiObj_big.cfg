SPECIFICATION Spec
CONSTANTS Pools = {0}
 MaxN = 2
 TlsPools = {0}
 TlsThreads = {0, 1, 2}
 TlsVals = {0, 7}
 Binds = {TRUE, FALSE}
 NOf <- NOfS
INVARIANTS CountInRange CursorInside SlotNeverDead HandlerIdle DeadPoolsBlank OutOfRangeNeverStored
PROPERTIES TlsFrame ShutStaysShut SignalEmptiesTable
CHECK_DEADLOCK FALSE
