------------------------------- MODULE MC_X02 -------------------------------
(* Exhaustive model checking of RadiusClient: a plan of queries against a plan of servers, the pool thread's
   handlers interleaved with API calls (query, cancel, destroy) and a hostile environment: the network keeps every
   datagram (delivery at any time, any number of times, in any order = delay, duplication, reordering; never
   delivering = loss), servers answer or do not, anybody may send wrong-identifier / wrong-authenticator /
   wrong-secret / wrong-source / request-typed datagrams derived from a seen request, servers become unreachable
   (sendto fails) and socket() fails.
   Dev = {} is the repaired design: every invariant and Termination hold.  Dev = {name} follows the unchanged code at
   that point: the configuration MC_X02_dev_* must VIOLATE the invariant named in the cfg file name (sensitivity). *)
EXTENDS RadiusClient

CONSTANTS Dev,          \* deviations the handlers may take
          JitClasses,   \* jitter classes of radius_client_rnd_factor the environment may choose per handler run
          Plan,         \* which plan of servers / queries (string)
          Kinds,        \* kinds of datagrams the environment builds from a request it saw
          MaxFlips,     \* how often the environment changes reachability / socket() failure
          MaxReplies,   \* how many distinct datagrams the environment creates in one behaviour
          AllowCancel, AllowDestroy, PortReuse

VARIABLES st, flips
vars == <<st, flips>>

(* plans: servers <<fam, irt, mrt, mrd, mrc, sec>>, client <<smin, smax>>, queries <<idany, id, nonce>> *)
SrvPlan == CASE Plan = "one"    -> << NewServer(4, 1, 2, 0, 3, 1) >>
             [] Plan = "one2"   -> << NewServer(4, 1, 2, 0, 2, 1) >>
             [] Plan = "mrd"    -> << NewServer(4, 2, 8, 7, 0, 1) >>
             [] Plan = "two"    -> << NewServer(4, 1, 2, 0, 2, 1), NewServer(4, 1, 1, 0, 2, 2) >>
             [] Plan = "mixed"  -> << NewServer(4, 1, 2, 0, 2, 1), NewServer(6, 1, 2, 0, 2, 2) >>
             [] Plan = "three"  -> << NewServer(4, 1, 2, 0, 2, 1) >>
             [] Plan = "fixed"  -> << NewServer(4, 1, 2, 0, 2, 1) >>
             [] Plan = "thr2"   -> << NewServer(4, 1, 2, 0, 2, 1) >>
CliPlan == CASE Plan = "three" -> <<1, 2>>
             [] Plan = "fixed" -> <<1, 2>>
             [] Plan = "mixed" -> <<1, 2>>
             [] OTHER -> <<1, 2>>
QPlan == CASE Plan = "three" -> << <<TRUE, 0, 1>>, <<TRUE, 0, 2>>, <<TRUE, 0, 3>> >>
           [] Plan = "fixed" -> << <<FALSE, 1, 1>>, <<FALSE, 1, 2>> >>
           [] Plan = "mrd"   -> << <<TRUE, 0, 1>> >>
           [] OTHER -> << <<TRUE, 0, 1>>, <<TRUE, 0, 1>> >>      \* two queries with the SAME request authenticator
NQ == Len(QPlan)
NThr == IF Plan = "thr2" THEN 2 ELSE 1                 \* "thr2": the two queries belong to two pool threads
QThr(q) == IF Plan = "thr2" THEN q - 1 ELSE 0

RECURSIVE AddServers(_, _)
AddServers(s, n) == IF n > Len(SrvPlan) THEN s
                    ELSE AddServers([s EXCEPT !.srv = Append(@, SrvPlan[n]), !.unreach = Append(@, 0)], n + 1)
Init == /\ st = AddServers(InitState(CliPlan[1], CliPlan[2], 1, NThr), 1)
        /\ flips = 0

Js == {[def |-> c, map |-> << >>] : c \in JitClasses}
Dvs == SUBSET Dev

DoSubmit == /\ st.up
            /\ Cardinality(DOMAIN st.qs) < NQ
            /\ LET q == Cardinality(DOMAIN st.qs) + 1 IN
               st' = Submit(st, q, NewQuery(QThr(q), QPlan[q][1], QPlan[q][2], QPlan[q][3], 0))
            /\ UNCHANGED flips
DoStart == /\ st.up
           /\ \E t \in DOMAIN st.msgs : /\ st.msgs[t] # << >>
                                        /\ \E J \in Js, dv \in Dvs : st' = HStart(st, t, J, dv).st
           /\ UNCHANGED flips
DoFire == /\ st.up
          /\ \E key \in Keys(st) : \E s \in 1..Len(st.sk[key]) : \E i \in DOMAIN st.sk[key][s].tm :
                /\ FireEnabled(st, key[1], key[2], s, i)
                /\ \E J \in Js, dv \in Dvs : st' = HFire(st, key[1], key[2], s, i, J, dv).st
          /\ UNCHANGED flips
DoRecv == /\ st.up
          /\ \E key \in Keys(st) : \E s \in 1..Len(st.sk[key]) : \E rep \in st.netr :
                /\ rep.u = st.sk[key][s].u
                /\ \E dv \in Dvs : st' = HRecv(st, key[1], key[2], s, rep, dv).st
          /\ UNCHANGED flips
Targets(r) == IF PortReuse
              THEN {r.u} \cup UNION {{st.sk[key][s].u : s \in 1..Len(st.sk[key])} : key \in Keys(st)}
              ELSE {r.u}
DoReply == /\ Cardinality(st.netr) < MaxReplies
           /\ \E r \in st.netq, kind \in Kinds : \E u \in Targets(r) :
                LET rep == MkReply(st, r, kind, 0, u) IN
                /\ rep \notin st.netr
                /\ st' = [st EXCEPT !.netr = @ \cup {rep}]
           /\ UNCHANGED flips
DoEnv == /\ flips < MaxFlips
         /\ flips' = flips + 1
         /\ \/ \E k \in 1..Len(st.srv) : st' = [st EXCEPT !.unreach[k] = IF @ = 0 THEN 113 ELSE 0]
            \/ st' = [st EXCEPT !.sockfail = IF @ = 0 THEN 24 ELSE 0]
DoCancel == /\ AllowCancel /\ st.up
            /\ \E q \in DOMAIN st.qs : /\ CancelEnabled(st, q)
                                       /\ \E dv \in Dvs : st' = HCancel(st, q, dv).st
            /\ UNCHANGED flips
RECURSIVE DestroyAll(_, _, _)
DestroyAll(s, t, dv) == IF t >= NThr THEN s ELSE DestroyAll(HDestroyThr(s, t, dv).st, t + 1, dv)
DoDestroy == /\ AllowDestroy /\ st.up
             /\ \A t \in DOMAIN st.msgs : st.msgs[t] = << >>      \* the destroy message queues behind pending query messages
             /\ \E dv \in Dvs : st' = [DestroyAll(st, 0, dv) EXCEPT !.up = FALSE]
             /\ UNCHANGED flips
Next == DoSubmit \/ DoStart \/ DoFire \/ DoRecv \/ DoReply \/ DoEnv \/ DoCancel \/ DoDestroy

Spec == Init /\ [][Next]_vars
FairSpec == Spec /\ WF_vars(DoStart) /\ WF_vars(DoFire)

(* ---- invariants ---- *)
ICompleteOnce == PCompleteOnce(st)
INoTxAfterDone == PNoTxAfterDone(st)
ITxBound == PTxBound(st)
ISlots == PSlots(st)
IArmed == PArmed(st)
IMatch == PMatch(st)
IDelivered == PDelivered(st)
IFailover == PFailover(st)
IQuiescent == PQuiescent(st)
IDestroyed == PDestroyed(st)
IMemSafe == PMemSafe(st)
INas == PNas(st)
IBufUnits == PBufUnits(st)
(* the sum of the armed retransmission times of one server visit stays within MRD (zero jitter) *)
IDuration == \A q \in Active(st) : LET Q == st.qs[q] IN
                (Q.s # None /\ st.srv[Q.k].mrd # 0 /\ st.srv[Q.k].irt <= st.srv[Q.k].mrd /\ JitClasses = {"zero"})
                   => Q.rd + Q.rt <= st.srv[Q.k].mrd

(* ---- liveness: every submitted query completes ---- *)
Termination == <>[](Pending(st) = {})

(* reachability witnesses (vacuity): each must be VIOLATED, i.e. the situation is reachable *)
WReplyOk   == ~(\E q \in DOMAIN st.qs : st.qs[q].res = 0)
WTimeout   == ~(\E q \in DOMAIN st.qs : st.qs[q].res = ETIMEDOUT)
WTwoSocks  == ~(\E key \in Keys(st) : Len(st.sk[key]) = 2)
WFailover  == ~(\E q \in DOMAIN st.qs : st.qs[q].res = 0 /\ st.qs[q].k = 2)
WIdReuse   == ~(\E q \in DOMAIN st.qs : st.qs[q].st = "active" /\ st.qs[q].s # None /\
                  \E p \in DOMAIN st.qs : p # q /\ st.qs[p].st = "done" /\ st.qs[p].id = st.qs[q].id /\ st.qs[p].txall > 0)
=============================================================================
