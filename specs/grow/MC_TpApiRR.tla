------------------------------ MODULE MC_TpApiRR ------------------------------
(* Property B2 of TpApi on the round-robin counter, for k concurrent callers.
   Variant "asis":   tp_thread_get_rr as written -  tp->rr_idx ++;  if (max <= tp->rr_idx) tp->rr_idx = 0;
                     return &tp->threads[tp->rr_idx];  - rr_idx is volatile, not atomic: every access is one memory
                     operation of its own (load, store, load, [store 0], load), any interleaving between callers.
   Variant "atomic": one indivisible  idx = (idx + 1) mod max  per call (the proposed repair).
   Workers are 0..N-1; index N is the pool's virtual thread (still inside the allocation), N+1.. lies behind it. *)
EXTENDS TpApi
CONSTANTS N, Callers, CallsEach, Variant

VARIABLES idx,    \* tp->rr_idx
          pc,     \* caller -> "idle" | "store" | "cmp" | "reset" | "ret"
          reg,    \* caller -> private copy of the counter
          left,   \* caller -> calls still to make
          cnt,    \* result index -> how often it was handed out
          last    \* the result returned most recently (-1: none yet)
vars == <<idx, pc, reg, left, cnt, last>>
Top == N + Cardinality(Callers) + 1

Init == /\ idx = 0 /\ pc = [c \in Callers |-> "idle"] /\ reg = [c \in Callers |-> 0]
        /\ left = [c \in Callers |-> CallsEach] /\ cnt = [r \in 0..Top |-> 0] /\ last = -1
Ret(c, r) == /\ cnt' = [cnt EXCEPT ![r] = @ + 1] /\ last' = r
             /\ left' = [left EXCEPT ![c] = @ - 1] /\ pc' = [pc EXCEPT ![c] = "idle"]
(* as written *)
Load1(c)  == /\ Variant = "asis" /\ pc[c] = "idle" /\ left[c] > 0
             /\ reg' = [reg EXCEPT ![c] = idx] /\ pc' = [pc EXCEPT ![c] = "store"] /\ UNCHANGED <<idx, left, cnt, last>>
Store1(c) == /\ pc[c] = "store" /\ idx' = reg[c] + 1 /\ pc' = [pc EXCEPT ![c] = "cmp"] /\ UNCHANGED <<reg, left, cnt, last>>
Cmp(c)    == /\ pc[c] = "cmp" /\ pc' = [pc EXCEPT ![c] = IF N <= idx THEN "reset" ELSE "ret"] /\ UNCHANGED <<idx, reg, left, cnt, last>>
Reset(c)  == /\ pc[c] = "reset" /\ idx' = 0 /\ pc' = [pc EXCEPT ![c] = "ret"] /\ UNCHANGED <<reg, left, cnt, last>>
Load3(c)  == /\ pc[c] = "ret" /\ Ret(c, idx) /\ UNCHANGED <<idx, reg>>
(* repaired *)
Atomic(c) == /\ Variant = "atomic" /\ pc[c] = "idle" /\ left[c] > 0
             /\ idx' = (idx + 1) % N /\ Ret(c, (idx + 1) % N) /\ UNCHANGED reg
Next == \E c \in Callers : Load1(c) \/ Store1(c) \/ Cmp(c) \/ Reset(c) \/ Load3(c) \/ Atomic(c)
Spec == Init /\ [][Next]_vars

Done == \A c \in Callers : left[c] = 0 /\ pc[c] = "idle"
(* B2 *)
InRange == \A r \in 0..Top : cnt[r] > 0 => RRInRange(N, r)            \* always one of the workers
InAlloc == \A r \in 0..Top : cnt[r] > 0 => r <= N                      \* weaker: at least an object of this pool
Rotation == [][last' # last \/ cnt' # cnt => (last = -1 \/ RRSucc(N, last, last'))]_vars     \* successor of k is k+1 mod N
EqualShares == Done => \A a, b \in 0..(N - 1) : cnt[a] - cnt[b] \in {-1, 0, 1}
IdxBounded == idx <= Top
=============================================================================
