SPECIFICATION Spec
CONSTANTS
  Conns = {1, 2, 3, 4, 5, 6, 7, 8}
  Binds = {1, 2, 3, 4}
CHECK_DEADLOCK FALSE
