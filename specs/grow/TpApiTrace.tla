------------------------------ MODULE TpApiTrace ------------------------------
(* Trace validation for property groups B, C, E of TpApi: the observations of scripted real pools
   (harness/x08_drv.c `life`: return values of the public functions, the library's guarded hooks for thread states
   and tp_shutdown, link-time wrappers for the affinity call) must be what the object machine TpApiObj says.
   One step per trace line.  A line the machine does not allow is REPORTED (PrintT of a JSON note with the line) and
   validation goes on with the machine's own successor state, so one run yields every departure, each keyed by its
   call shape in rig/checks/x08.py.  Executions are concatenated with Reset lines. *)
EXTENDS TpApiObj, Json, IOUtils

Tr == ndJsonDeserialize(IOEnv.TRACE)
VARIABLES os, l, nbad
tv == <<os, l, nbad>>
B(x) == x = 1
R(ok, s) == [ok |-> ok, s |-> s]
Known(s, e) == e.p \in Pools /\ Alive(s, e.p)

Ev(s, e) ==
  CASE e.e = "Reset"        -> R(TRUE, Obj0)
    [] e.e = "create.call"  -> R(e.p \in Pools /\ ~Alive(s, e.p) /\ e.n <= MaxN, Create(s, e.p, e.n, B(e.bind), e.ncpu, e.name))
    [] e.e = "create"       -> R(Known(s, e) /\ OkCreated(s, e.p, e.rc, e.max) /\ B(e.udata_ok), s)
    [] e.e = "get"          -> R(Known(s, e) /\ OkGet(s, e.p, e.k, B(e.null), e.num, e.cpu, B(e.tpok)), s)
    [] e.e = "pvt"          -> R(Known(s, e) /\ OkPvt(s, e.p, B(e.null), e.cpu, B(e.distinct), B(e.tpok)), s)
    [] e.e = "nullargs"     -> R(B(e.get) /\ B(e.rr) /\ B(e.pvt) /\ e.max = 0 /\ e.cnt = 0 /\ B(e.num_m1) /\ e.cpu = -1 /\ B(e.tp)
                                 /\ e.is = 0 /\ e.run = 0 /\ B(e.udget) /\ e.udset = EINVAL /\ B(e.mq), s)
    [] e.e = "count"        -> R(Known(s, e) /\ OkCount(s, e.p, e.max, e.cnt), s)
    [] e.e = "st"           -> IF Known(s, e) /\ OkSt(s, e.p, e.t, e.s) THEN R(TRUE, St(s, e.p, e.t, e.s)) ELSE R(FALSE, s)
    [] e.e = "start.ret"    -> R(Known(s, e) /\ e.rc = 0, s)
    [] e.e = "aff"          -> IF Known(s, e) /\ OkAff(s, e.p, e.t, e.ncpus, e.cpu, B(e.self), B(e.szok)) THEN R(TRUE, Aff(s, e.p, e.t)) ELSE R(FALSE, s)
    [] e.e = "hook.start"   -> IF Known(s, e) /\ OkHookStart(s, e.p, e.t, B(e.worker), e.name, B(e.run), B(e.curself), B(e.curnull))
                               THEN R(TRUE, HookStart(s, e.p, e.t)) ELSE R(FALSE, s)
    [] e.e = "hook.stop"    -> IF Known(s, e) /\ OkHookStop(s, e.p, e.t, B(e.worker), B(e.run), B(e.curself))
                               THEN R(TRUE, HookStop(s, e.p, e.t)) ELSE R(FALSE, s)
    [] e.e = "cur"          -> R(OkCur(s, e.bp, e.bt, B(e.null), e.p, e.num, B(e.same)), s)
    [] e.e = "is"           -> R(OkIs(s, e.bp, e.p, e.q, e.t, B(e.r)), s)
    [] e.e = "rr"           -> IF Known(s, e) /\ OkRR(s, e.p, e.num) THEN R(TRUE, RR(s, e.p, e.num)) ELSE R(FALSE, s)
    [] e.e = "tls.set"      -> R(e.p \in Pools /\ OkTlsSet(s, e.p, e.t, e.i, e.rc), IF e.p \in Pools THEN TlsSetP(s, e.p, e.t, e.i, e.v) ELSE s)
    [] e.e = "tls.get"      -> R(e.p \in Pools /\ OkTlsGet(s, e.p, e.t, e.i, e.v, e.sz), s)
    [] e.e = "attach.ret"   -> R(e.rc = 0 /\ B(e.curnull), s)
    [] e.e = "sig.add"      -> R(OkSigAdd(s, e.p, e.rc), SigAddP(s, e.p))
    [] e.e = "sig.call"     -> R(~s.sig.active, SigCall(s, e.s))
    [] e.e = "shutdown.check" -> R(e.p \in Pools /\ OkShutdownCheck(s, e.p), ShutdownCheck(s, e.p))
    [] e.e = "shutdown.set" -> R(Known(s, e) /\ ~s.pool[e.p].shut, IF e.p \in Pools THEN ShutdownSet(s, e.p) ELSE s)
    [] e.e = "sig.ret"      -> R(OkSigRet(s), SigRet(s))
    [] e.e = "sig.dead"     -> R(OkSigDead(s, B(e.crash)), [s EXCEPT !.slot = SigSlotAfter(s.slot, e.s)])
    [] e.e \in {"shutdown.call", "shutdown.ret"} -> R(TRUE, s)
    [] e.e = "wait.ret"     -> R(Known(s, e) /\ e.rc = 0 /\ OkWait(s, e.p, e.rc), s)
    [] e.e = "destroy"      -> R(Known(s, e) /\ e.rc = 0 /\ OkDestroy(s, e.p, e.rc), IF e.p \in Pools THEN Destroy(s, e.p) ELSE s)
    [] OTHER                -> R(FALSE, s)

TInit == os = Obj0 /\ l = 1 /\ nbad = 0
TNext == /\ l <= Len(Tr)
         /\ LET r == Ev(os, Tr[l]) IN
              /\ os' = r.s /\ l' = l + 1
              /\ nbad' = IF r.ok THEN nbad ELSE nbad + 1
              /\ (r.ok \/ PrintT(ToJson([bad |-> l, ev |-> Tr[l]])))
TSpec == TInit /\ [][TNext]_tv
(* every line was consumed; the number of reported lines is printed once at the end *)
Consumed == IF TLCGet("stats").diameter - 1 = Len(Tr) THEN TRUE
            ELSE Print(<<"STOPPED_AT_LINE", TLCGet("stats").diameter>>, FALSE)
=============================================================================
