--------------------------- MODULE Trace_DataCache ---------------------------
(* Trace validation for data_cache.c: every line written by harness/x01_drv.c (one per call on the real cache,
   user write or clock tick) is one step of DataCache, taken with the logged arguments; the results (rc, item,
   visited items, the data objects free_data_fn received, in order) and the projected state (bucket lists with the
   item fields, next_clean_time, outstanding data objects, no item in a bucket no key maps to, no foreign pointer
   given to free_data_fn) are compared with what the specification computes. *)
EXTENDS DataCache, Json, IOUtils, TLC
CONSTANTS MaxSlot
VARIABLES dc, now, l, mismatch
Tr == ndJsonDeserialize(IOEnv.TRACE)
D(c, name) == IF c THEN {} ELSE {name}

Apply(S, t, e) ==
  CASE e.op = "dnew" -> [S |-> DNew(e.iv, e.nb, e.now), now |-> e.now, ok |-> TRUE, diff |-> D(e.rc = 0, "rc")]
    [] e.op = "dadd" ->
         LET r == DAdd(S, e.k, e.fail = 1, MaxSlot) IN
         [S |-> r.S, now |-> t, ok |-> S.alive, diff |-> D(r.rc = e.rc, "rc") \cup D(r.i = e.i, "item") \cup D(r.freed = e.freed, "freed")]
    [] e.op = "dget" ->
         LET r == DGet(S, e.k) IN
         [S |-> r.S, now |-> t, ok |-> S.alive, diff |-> D(r.rc = e.rc, "rc") \cup D(r.i = e.i, "item") \cup D(r.freed = e.freed, "freed")]
    [] e.op = "dget0" ->
         LET r == DGetNoKey(S) IN
         [S |-> r.S, now |-> t, ok |-> S.alive, diff |-> D(r.rc = e.rc, "rc") \cup D(r.i = e.i, "item") \cup D(r.freed = e.freed, "freed")]
    [] e.op = "dfree" ->
         LET r == DFree(S, e.i) IN [S |-> r.S, now |-> t, ok |-> S.alive, diff |-> D(r.freed = e.freed, "freed")]
    [] e.op = "dset" ->
         [S |-> DSet(S, e.i, e.vu, e.upd, e.inc), now |-> t, ok |-> S.alive, diff |-> D(e.freed = << >>, "freed")]
    [] e.op = "dclean" ->
         LET r == DClean(S, t) IN [S |-> r.S, now |-> t, ok |-> S.alive, diff |-> D(r.freed = e.freed, "freed")]
    [] e.op = "dtick" -> [S |-> S, now |-> t + e.dt, ok |-> TRUE, diff |-> D(e.freed = << >>, "freed")]
    [] e.op = "denum" ->
         LET r == DEnum(S, e.stop) IN
         [S |-> S, now |-> t, ok |-> S.alive, diff |-> D(r.vis = e.vis, "visited") \cup D(r.rc = e.rc, "rc") \cup D(e.freed = << >>, "freed")]
    [] e.op = "denumrm" ->
         LET r == DEnumRm(S, e.i) IN
         [S |-> r.S, now |-> t, ok |-> S.alive, diff |-> D(r.vis = e.vis, "visited") \cup D(r.rc = e.rc, "rc") \cup D(r.freed = e.freed, "freed")]
    [] e.op = "daddnull-before" ->  \* NULL cache: get and enum answer EINVAL, clean and destroy return
         [S |-> S, now |-> t, ok |-> TRUE, diff |-> D(e.rc_get = DEINVAL, "rc") \cup D(e.rc_enum = DEINVAL, "rc")]
    [] e.op = "daddnull" -> [S |-> S, now |-> t, ok |-> TRUE, diff |-> D(e.rc = DEINVAL, "rc")]
    [] e.op = "ddestroy" ->
         LET r == DDestroy(S) IN [S |-> r.S, now |-> t, ok |-> S.alive, diff |-> D(r.freed = e.freed, "freed")]

StDiff(S, t, e) ==
  LET p == DProj(S, t)  s == e.st IN
  IF "st" \notin DOMAIN e THEN {}
  ELSE IF ~S.alive THEN D("dead" \in DOMAIN s, "alive") \cup D(s.live = << >>, "data-objects-outstanding") \cup D(s.badfree = 0, "foreign-free")
  ELSE IF "dead" \in DOMAIN s THEN {"alive"}
  ELSE D(p.bl = s.bl, "buckets") \cup D(s.stray = 0, "item-in-foreign-bucket") \cup D(p.nclean = s.nclean, "next_clean_time")
       \cup D(p.iv = s.iv, "clean_interval") \cup D(p.live = s.live, "data-objects-outstanding")
       \cup D(p.now = s.now, "clock") \cup D(s.badfree = 0, "foreign-free")

Init == dc = DDead /\ now = 0 /\ l = 1 /\ mismatch = {}
Step ==
  /\ l <= Len(Tr)
  /\ LET e == Tr[l]  r == Apply(dc, now, e) IN
     /\ r.ok
     /\ dc' = r.S /\ now' = r.now
     /\ mismatch' = { e.op \o ":" \o f : f \in r.diff \cup StDiff(r.S, r.now, e) }
     /\ (l = Len(Tr)) => PrintT(<< "TRACE-ACCEPTED", l >>)
  /\ l' = l + 1
Spec == Init /\ [][Step]_<< dc, now, l, mismatch >>
Conforms == mismatch = {}
=============================================================================
