------------------------------ MODULE MC_Ssdp ------------------------------
(* Exhaustive exploration of Ssdp: a user that creates the object with any of a few settings, registers devices,
   services and links on the interfaces of the fake interface table (one name is unknown), deletes devices and
   interfaces, lets timers expire, calls send_notify and destroys; a network that delivers M-SEARCH requests of every
   shape for a family of search targets on any interface and family; allocations, group joins and transmissions
   that fail.  Budgets bound the environment, not the object.  Every operator of Ssdp records a violated property
   in s.viol; the invariants below are checked in every reachable state. *)
EXTENDS Ssdp
CONSTANTS Fix,           \* repairs applied (AllFix = the specification proper)
          MaxLinks,      \* links ever created
          MaxSvcs,       \* services ever added per device
          MaxRecv,       \* datagrams delivered
          MaxFault,      \* faults armed
          Cfgs,          \* subset of 1..Len(CfgTab)
          UrlKinds,      \* subset of 1..Len(UrlTab)
          Targets        \* subset of 1..Len(StTab)
VARIABLES s, bud
vars == <<s, bud>>

U1 == "11111111-1111-1111-1111-111111111111"
U2 == "22222222-2222-2222-2222-222222222222"
U3 == "33333333-3333-3333-3333-333333333333"
DevTab == <<[uuid |-> U1, dom |-> "a", type |-> "T", ver |-> 2, boot |-> 7, conf |-> 3, age |-> 0, ann |-> 0],
            [uuid |-> U2, dom |-> "a", type |-> "T", ver |-> 1, boot |-> 1, conf |-> 1, age |-> 100, ann |-> 5],
            [uuid |-> U3, dom |-> "a", type |-> "TT", ver |-> 1, boot |-> 1, conf |-> 1, age |-> 100, ann |-> 5]>>
SvcTab == <<[dom |-> "a", type |-> "S", ver |-> 2], [dom |-> "b", type |-> "SS", ver |-> 1]>>
UrlTab == << <<"http://h/4", "http://h/6">>, <<"http://h/4", "">>, <<"", "http://h/6">>, <<"HUGE", "http://h/6">> >>
CfgTab == <<[kind |-> "custom", v4 |-> TRUE, v6 |-> TRUE, byebye |-> TRUE, sp |-> 1900, sockfail |-> 0],
            [kind |-> "custom", v4 |-> TRUE, v6 |-> FALSE, byebye |-> FALSE, sp |-> 50000, sockfail |-> 0],
            [kind |-> "default", v4 |-> FALSE, v6 |-> TRUE, byebye |-> TRUE, sp |-> 1900, sockfail |-> 0],
            [kind |-> "null", v4 |-> FALSE, v6 |-> FALSE, byebye |-> FALSE, sp |-> 0, sockfail |-> 0],
            [kind |-> "asis", v4 |-> FALSE, v6 |-> FALSE, byebye |-> FALSE, sp |-> 0, sockfail |-> 0],
            [kind |-> "custom", v4 |-> TRUE, v6 |-> TRUE, byebye |-> TRUE, sp |-> 1900, sockfail |-> 6],
            [kind |-> "custom", v4 |-> FALSE, v6 |-> FALSE, byebye |-> TRUE, sp |-> 1900, sockfail |-> 0]>>
StTab == <<"ssdp:all", "upnp:rootdevice", "uuid:" \o U1, "urn:a:device:T:1", "urn:a:device:T:2", "urn:a:device:T:3",
           "urn:a:service:S:1", "urn:a:service:S:3", "urn:a:device:T:x", "urn:a:device:T:4294967297", "urn:a:device:T:",
           "urn:a:device:T", "urn:a:device:TT:1", "urn:b:service:SS:01", "uuid:" \o U1 \o "x", "ssdp:al", "">>
Names == {"lan0", "lan1", "nope"}
Shapes == {"ok", "nomx", "notify"}

Init == s = InitS(Fix) /\ bud = [recv |-> 0, fault |-> 0, created |-> FALSE]
Take(r) == s' = [r EXCEPT !.out = << >>]
Live == s.alive /\ ~s.crashed

DoCreate  == /\ ~bud.created /\ \E c \in Cfgs : Take(Create(s, CfgTab[c]).s)
             /\ bud' = [bud EXCEPT !.created = TRUE]
DoDevAdd  == /\ Live /\ \E d \in Devs : ~s.dev[d].used /\ Take(DevAdd(s, d, DevTab[d]).s) /\ UNCHANGED bud
DoSvcAdd  == /\ Live /\ \E d \in Devs, v \in 1..Len(SvcTab) :
                  s.dev[d].used /\ Len(s.dev[d].svcs) < MaxSvcs /\ Take(SvcAdd(s, d, SvcTab[v]).s)
             /\ UNCHANGED bud
DoLink    == /\ Live /\ Len(s.link) < MaxLinks
             /\ \E d \in Devs, n \in Names, u \in UrlKinds : s.dev[d].used /\ Take(DevIfAdd(s, d, n, UrlTab[u][1], UrlTab[u][2]).s)
             /\ UNCHANGED bud
DoDevDel  == /\ Live /\ \E d \in Devs : s.dev[d].used /\ Take(DevDel(s, d)) /\ UNCHANGED bud
DoIfDel   == /\ Live /\ \E p \in 1..Len(s.ifs) : Take(IfDel(s, s.ifs[p].ix)) /\ UNCHANGED bud
DoTimer   == /\ Live /\ \E d \in Devs : s.dev[d].used /\ Take(TimerCb(s, d)) /\ UNCHANGED bud
DoNotify  == /\ Live /\ Len(s.devs) > 0 /\ Take(SendNotify(s)) /\ UNCHANGED bud
(* a datagram changes nothing in the object (but consumes armed transmission failures): delivered as an action only
   for one target; the search property itself is checked in EVERY reachable state for every family, interface,
   shape and target by the invariant Search (one evaluation per distinct state instead of one successor each) *)
DoRecv    == /\ Live /\ bud.recv < MaxRecv /\ s.sendfail > 0
             /\ \E fam \in s.socks, ix \in {2, 3} :
                  Take(RecvOne(s, [sk |-> fam, ifx |-> ix, src |-> "u", shape |-> "ok", st |-> "ssdp:all"]))
             /\ bud' = [bud EXCEPT !.recv = @ + 1]
DoDestroy == /\ Live /\ Take(Destroy(s)) /\ UNCHANGED bud
(* a timer that outlived its object expires: use-after-free *)
DoZombie  == /\ ~s.crashed /\ s.zomb > 0 /\ Take(Crash(s)) /\ UNCHANGED bud
DoFault   == /\ Live /\ bud.fault < MaxFault /\ s.allocfail = 0 /\ s.joinfail = 0 /\ s.sendfail = 0
             /\ \/ \E k \in 1..5 : Take([s EXCEPT !.allocfail = k])
                \/ \E k \in 1..3 : Take([s EXCEPT !.joinfail = k])
                \/ Take([s EXCEPT !.sendfail = 2])
             /\ bud' = [bud EXCEPT !.fault = @ + 1]

Next == DoCreate \/ DoDevAdd \/ DoSvcAdd \/ DoLink \/ DoDevDel \/ DoIfDel \/ DoTimer \/ DoNotify \/ DoRecv \/ DoDestroy
        \/ DoZombie \/ DoFault
Spec == Init /\ [][Next]_vars

NoViol  == s.viol = {}
NoCrash == ~s.crashed
Reg     == s.crashed \/ InvReg(s)
Groups  == s.crashed \/ ~s.alive \/ InvGroups(s)
Allocs  == s.crashed \/ InvAllocs(s)
Ledger  == s.crashed \/ (~bud.created) \/ InvLedger(s)
Search  == (Live /\ s.sendfail = 0) =>
             \A fam \in s.socks, ix \in {2, 3, 5}, sh \in Shapes, t \in Targets :
                "search-set" \notin RecvOne(s, [sk |-> fam, ifx |-> ix, src |-> "u", shape |-> sh, st |-> StTab[t]]).viol
(* the announce set and its fields, for every registered device in every reachable state *)
Announce == (Live /\ s.sendfail = 0) => \A d \in Devs : s.dev[d].used => TimerCb(s, d).viol = {}
=============================================================================
