------------------------------ MODULE SapRcvr ------------------------------
(* The SAP (RFC 2974) announcement receiver  /repo/src/proto/sap_rcvr.c  (growth task X09) on top of the data cache
   (DataCache.tla, growth task X01 - reused, not re-modelled).  sap_receiver_create() binds one UDP socket to ANY:9875,
   tunes it, creates a data cache and a read-notify task on a pool thread; the task's callback reads ONE datagram per
   readiness event and records the announced session in the cache.  The object has NO user callback and NO accessor
   (sap_receiver_cache_text_dump is commented out): the cache is only observable by reading the private structs, which
   is what the driver's projection does.  Single threaded (everything runs on the pool thread that owns the task).

   Properties  (for every history of datagrams, clock values, receive errors and allocation failures):
   SR1 filter     a datagram changes the cache only if ALL of this holds: >= 4 octets, version 1, message id hash # 0,
                  size >= 4 + (A ? 16 : 4) + auth_len + 16, E = 0, C = 0, and the payload - the octets after the first
                  NUL that follows the header (the payload-type string, WHATEVER it says) or, without any NUL, directly
                  after the header - passes sdp_msg_sec_chk (>= 16 octets, starts "v=0" CRLF, no control characters,
                  every line "<a-z>=", exactly one v= o= s=, at least one t= c= m=) and its FIRST m= line starts
                  "video " or "audio " and has >= 8 octets.  Everything else (truncated, hostile lengths, wrong version,
                  encrypted, compressed, other media) is dropped without any effect.            [IgnorePost]
                  As it is, not filed: the T bit (session deletion) is not looked at - a deletion packet refreshes or
                  creates the entry it should delete; auth_len is counted in octets (RFC: 32-bit words); the payload
                  type string is not compared with "application/sdp".
   SR2 key        the cache holds at most one entry per distinct o= value (the whole origin line is the key: a new
                  session version is a new entry); the entry lives in bucket XOR(octets of the o= value) of the 256
                  buckets, newest first.  Message id hash and source address play no role.        [SapInv, DataCache!DcInv]
   SR3 refresh    every datagram that passes SR1 finds or creates the entry of its origin, sets valid_untill = now +
                  cache_time and adds 1 to returned_count - also when the rest of it is unusable.  [AcceptPost]
   SR4 record     an entry is INCOMPLETE (flags = 0) until a datagram of its origin has >= 4 fields in the first m=
                  line and a first c= line "IN IP4|IP6 <address>[/ttl]" with a textual address of >= 7 octets that
                  inet_pton accepts for that family.  That datagram completes the record: name = its s= value,
                  media_proto = 1 udp / 2 RTP/AVP / 3 RTP/SAVP / 0 other, address = c= address, port = m= port, if_index
                  = receiving interface.  A complete record is never rewritten: later announcements only refresh it.
   SR5 expiry     entries are removed by data_cache_clean only, and the receiver calls it only after completing a record:
                  when now >= next_clean_time it removes exactly the entries with valid_untill + clean_interval <= now
                  (clean_interval = cache_clean_interval * 1000 seconds, as it is) and sets next_clean_time = now +
                  clean_interval.  Refreshes and ignored datagrams never remove anything.            [AcceptPost]
   SR6 failure    a receive error, an error reported to the callback, an allocation failure while adding the entry:
                  cache unchanged; the callback always answers TP_TASK_CB_CONTINUE.                   [IgnorePost]
   SR7 lifecycle  sap_receiver_create: NULL pool / NULL result pointer -> EINVAL; it binds AF_INET ANY:9875; when any
                  step fails it returns an error, does not write the result pointer and keeps nothing - no descriptor,
                  no block.  sap_receiver_destroy releases everything (socket closed, no block left).  [CreatePost]
                  DEVIATION "createfdleak": when SO_RCVBUF / SO_RCVLOWAT / IP_PKTINFO or the allocation of the task fails
                  the shipped code frees the object but leaves the bound socket open (finding X09 sap_receiver_create:
                  socket-leak).  DEVIATION "dcachenull": the result of data_cache_create is not looked at; when it
                  fails create still returns 0 and the first acceptable datagram dereferences the NULL cache (finding
                  X09 sap_receiver_create:data_cache_create-unchecked).
   SR8 memory     no datagram of any size up to and beyond the 4096 octet receive buffer, and no sequence of them, makes
                  the callback touch memory outside its buffers (observed with ASan in the driver).  Shipped code:
                  buf[4096] = 0 for a datagram that fills the buffer; memcpy of the c= address into char[46]; memcpy of
                  a longer s= value into the record of an entry that stayed incomplete (findings X09 sap_receiver_recv_cb:...).

   Datagram d (abstract, rendered to octets by the rig):
     n size in octets, v version, a address type bit, t message type bit, e, c, auth = auth_len octet, hash 0/1,
     mime "sdp" | "other" | "none", sdp "ok" | <defect>, o origin index, s name index, mt media type of the first m= line,
     mf number of fields of that line, mp transport, port, cf form of the first c= line, ad address index.
   Receiver R: [alive, fds] and when alive [ct, dcnull, dc (DataCache state), rec: data object slot -> record]. *)
EXTENDS DataCache, TLC
CONSTANTS SapNB        \* number of buckets: DATA_CACHE_BUCKETS = 256 in the real cache; the exhaustive models fold it to 8

SapMaxSlot == 64
(* ---- the corpus of origins, names and addresses the abstract datagrams point into *)
SapOriginIds == << "- 1 1 IN IP4 h", "- 1 2 IN IP4 h", "- 2 1 IN IP4 h", "- 22 1 IN IP4 h", "alice 2890844526 2890842807 IN IP6 2001:db8::1", "o", "- 1 1 IN IP4 ab", "- 1 1 IN IP4 ba" >>
SapNames == << "N", "Second", "A much longer session name 0123456789 0123456789 0123456789", "", "exactly14chars", "exactly15chars." >>
SapAddrs == << [f |-> 4, t |-> "239.255.1.1"], [f |-> 4, t |-> "224.2.127.254"], [f |-> 6, t |-> "ff0e::2:7ffe"], [f |-> 6, t |-> "ff02::2:7ffe"] >>

SapAscii == " !\"#$%&'()*+,-./0123456789:;<=>?@ABCDEFGHIJKLMNOPQRSTUVWXYZ[\\]^_`abcdefghijklmnopqrstuvwxyz{|}~"
SapCode(ch) == 31 + (CHOOSE i \in 1..Len(SapAscii) : SubSeq(SapAscii, i, i) = ch)
RECURSIVE SapXor(_, _, _)
SapXor(x, y, bit) == IF bit > 128 THEN 0 ELSE (IF ((x \div bit) % 2) # ((y \div bit) % 2) THEN bit ELSE 0) + SapXor(x, y, bit * 2)
RECURSIVE SapHash(_)
SapHash(s) == IF s = "" THEN 0 ELSE SapXor(SapCode(SubSeq(s, 1, 1)), SapHash(SubSeq(s, 2, Len(s))), 1)
SapBuckets == [i \in 1..Len(SapOriginIds) |-> SapHash(SapOriginIds[i])]
(* key of an origin in the DataCache model: BucketOf(S, key) = key % 256 is the XOR hash *)
SapKey(o) == (o * SapNB) + (SapBuckets[o] % SapNB)
SapOriginOf(key) == key \div SapNB
SapProto(mp) == CASE mp = "udp" -> 1 [] mp = "RTP/AVP" -> 2 [] mp = "RTP/SAVP" -> 3 [] OTHER -> 0

(* ---- SR1: why a datagram is dropped ("" = it is not) *)
SapDrop(d, rf) ==
  IF rf # 0 THEN "recv-error"
  ELSE IF d.n < 4 THEN "short"
  ELSE IF d.v # 1 THEN "version"
  ELSE IF d.hash = 0 THEN "hash0"
  ELSE IF d.n < 4 + (IF d.a = 0 THEN 4 ELSE 16) + d.auth + 16 THEN "length"
  ELSE IF d.e # 0 \/ d.c # 0 THEN "encrypted-or-compressed"
  ELSE IF d.sdp # "ok" THEN "sdp:" \o d.sdp
  ELSE IF d.mt \notin {"video", "audio"} THEN "media"
  ELSE ""
(* SR4: why an accepted datagram does not complete the record ("" = it does) *)
SapUnusable(d) ==
  IF d.mf < 4 THEN "m-fields"
  ELSE IF d.cf \in {"fields2", "nettype", "atypelen", "shortaddr", "atype", "badaddr", "fam-mismatch", "long"} THEN "c:" \o d.cf
  ELSE ""

SapDead(fds) == [alive |-> FALSE, fds |-> fds]
SapCreate(R, ct, cci, fp, now, dev) ==
  IF fp = "none"
  THEN [R |-> [alive |-> TRUE, fds |-> R.fds + 1, ct |-> ct, dcnull |-> FALSE, dc |-> DNew(cci * 1000, SapNB, now), rec |-> [s \in {} |-> 0]], rc |-> 0]
  ELSE IF fp = "dcache" /\ "dcachenull" \in dev
  THEN [R |-> [alive |-> TRUE, fds |-> R.fds + 1, ct |-> ct, dcnull |-> TRUE, dc |-> DDead, rec |-> [s \in {} |-> 0]], rc |-> 0]
  ELSE IF fp \in {"rcvbuf", "lowat", "pktinfo", "task"} /\ "createfdleak" \in dev
  THEN [R |-> SapDead(R.fds + 1), rc |-> 1]
  ELSE [R |-> SapDead(R.fds), rc |-> 1]
SapDestroy(R) == SapDead(R.fds - 1)

SapFill(R, i, d) ==
  [R.rec[i] EXCEPT !.fl = 1, !.name = SapNames[d.s], !.proto = SapProto(d.mp), !.fam = SapAddrs[d.ad].f, !.addr = SapAddrs[d.ad].t, !.port = d.port]
(* the callback on one datagram.  af = k: the k-th allocation of the callback fails *)
SapRecv(R, d, now, rf, af) ==
  LET why == SapDrop(d, rf) IN
  IF why # "" THEN [R |-> R, out |-> "dropped:" \o why]
  ELSE LET r == DAdd(R.dc, SapKey(d.o), af \in {1, 2}, SapMaxSlot) IN
       IF r.rc # 0 THEN [R |-> R, out |-> "dropped:enomem"]
       ELSE LET new == r.i \notin R.dc.live
                rec1 == IF new THEN [s \in R.dc.live \cup {r.i} |-> IF s = r.i THEN [fl |-> 0, cap |-> Len(SapNames[d.s]), name |-> "", proto |-> 0, fam |-> 0, addr |-> "", port |-> 0] ELSE R.rec[s]]
                        ELSE R.rec
                dc1 == DSet(r.S, r.i, now + R.ct, 0, 1)
                R1 == [R EXCEPT !.dc = dc1, !.rec = rec1]
                un == SapUnusable(d) IN
            IF rec1[r.i].fl # 0 THEN [R |-> R1, out |-> "refreshed"]
            ELSE IF un # "" THEN [R |-> R1, out |-> "incomplete:" \o un]
            ELSE LET rec2 == [rec1 EXCEPT ![r.i] = SapFill(R1, r.i, d)]
                     c == DClean(dc1, now) IN
                 [R |-> [R1 EXCEPT !.dc = c.S, !.rec = [s \in c.S.live |-> rec2[s]]], out |-> IF c.freed = << >> THEN "completed" ELSE "completed+cleaned"]

SapBlocks(R) == IF ~R.alive THEN 0 ELSE IF R.dcnull THEN 2 ELSE 3 + (2 * Cardinality(R.dc.live))

(* ---- state predicates *)
SapInv(R) ==
  (R.alive /\ ~R.dcnull) =>
    /\ DcInv(R.dc) /\ DOMAIN R.rec = R.dc.live /\ R.dc.nb = SapNB
    /\ \A s \in R.dc.live : /\ SapOriginOf(R.dc.it[s].key) \in 1..Len(SapOriginIds) /\ R.dc.it[s].upd = 0
                            /\ (R.rec[s].fl = 0 => R.dc.it[s].rc >= 1)

(* ---- projection compared with the real receiver after every event *)
SapItem(R, s) ==
  LET it == R.dc.it[s]  x == R.rec[s]  id == SapOriginIds[SapOriginOf(it.key)] IN
  IF x.fl = 0 THEN << id, it.vu, it.upd, it.rc, 0 >>
  ELSE << id, it.vu, it.upd, it.rc, 1, x.name, x.proto, x.fam, x.addr, x.port, 1, 1 >>
RECURSIVE SapBucketList(_, _)
SapBucketList(R, b) ==
  IF b >= SapNB THEN << >>
  ELSE (IF R.dc.bl[b] = << >> THEN << >> ELSE << << b, [j \in 1..Len(R.dc.bl[b]) |-> SapItem(R, R.dc.bl[b][j])] >> >>) \o SapBucketList(R, b + 1)
SapProj(R, now) ==
  IF ~R.alive THEN [alive |-> 0, b |-> << >>, fds |-> R.fds, mem |-> 0, now |-> now]
  ELSE IF R.dcnull THEN [alive |-> 1, ct |-> R.ct, dcnull |-> 1, iv |-> 0, nclean |-> 0, b |-> << >>, fds |-> R.fds, mem |-> SapBlocks(R), now |-> now]
  ELSE [alive |-> 1, ct |-> R.ct, dcnull |-> 0, iv |-> R.dc.iv, nclean |-> R.dc.nclean, b |-> SapBucketList(R, 0),
        fds |-> R.fds, mem |-> SapBlocks(R), now |-> now]
=============================================================================
