------------------------------ MODULE HashBucket ------------------------------
(* State machine of the hash bucket template  /repo/include/utils/hash_bucket.h  (growth task X01).

   Properties  (what a user of hbucket_* relies on, for all histories / interleavings):

   HB1 structure     An entry object is linked into at most one zone list, at most once, and  entry->zone  names
                     exactly that zone (NULL when the entry is not in the table).                       [StructOK]
   HB2 counters      zone->count equals the length of the zone list; hbskt->count equals the number of entries in
                     the table whenever no call is in progress; no counter ever goes below zero.
                                                                    [CountsOK, NonNeg, MC_HbConc!TotalQuiescent]
   HB3 map           hbucket_entry_get(key) looks in zone  hash(key) & hashmask  only and returns the most recently
                     added, not yet removed entry whose data compares equal to the key, else -1/NULL.  With the
                     documented protocol  get(F_LOCK) -> add(NO_LOCK)  two threads never insert the same key twice.
                                                                    [MC_HbApi!MapSem, MC_HbConc!UniqueKeys]
   HB4 enumeration   hbucket_zone_entry_enum / hbucket_entry_enum / hbucket_destroy call the callback for every
                     entry that is in the (zone) table exactly once, in list order (newest first), also when the
                     callback removes (and frees) the entry it is visiting; a non-zero callback result stops the walk
                     and is returned.  Concurrently: an entry that stays in the table during the whole walk is visited
                     exactly once, nothing is visited twice.          [MC_HbApi!EnumExact, MC_HbConc!EnumOK]
   HB5 locks         The effect of every call on the recursive zone mutex is the one the flags document:
                     enum/remove/add(0)/get(0, not found) leave the depth unchanged; get: "found => locked unless
                     S_UNLOCK, not found => unlocked unless F_LOCK"; add: NO_LOCK/NO_UNLOCK.  Locks exclude each other
                     between threads; a thread that finished a protocol unit holds nothing; every started call ends
                     (no deadlock, no lost wake-up).    [MC_HbApi!LockDelta, LocksOK, MC_HbConc!IdleHoldsNothing, Live]
   HB6 life time     Under the locking discipline (operate on an entry only between a get that returned it locked and
                     the zone unlock) no thread touches an entry another thread already removed and freed, and remove
                     never runs on an unlinked entry.                 [MC_HbConc!NoBad]

   The module holds the pure step functions (one per critical section of the implementation); MC_HbApi composes them
   into atomic API calls (sequential / serialised histories, generator for the replay on the real code), MC_HbConc
   runs them one critical section at a time from several threads, Trace_Hb validates histories logged by
   harness/x01_drv.c.  A state S is a record:
     alive  table exists           mt     created with multi_thread != 0 (pmtx != NULL)
     nz     hashsize               key    key[e] = key the data of entry object e compares equal to (e in 1..Len(key))
     zl     [zone -> Seq(entry)]   zc     [zone -> zone->count]        total   hbskt->count
     ez     entry->zone (NoZone = NULL)      own/dep   owner thread (None = free) and recursion depth of zone mutex *)
EXTENDS Integers, Sequences, FiniteSets

None == 0
NoZone == -1
EINVAL == 22
GET_NO_LOCK == 1
GET_S_UNLOCK == 2
GET_F_LOCK == 4
ADD_NO_LOCK == 1
ADD_NO_UNLOCK == 2
Has(fl, b) == (fl \div b) % 2 = 1

ZonesOf(S) == 0..(S.nz - 1)
EntsOf(S) == 1..Len(S.key)
MinOfSet(X) == CHOOSE i \in X : \A j \in X : i <= j
RangeOf(L) == {L[i] : i \in 1..Len(L)}
IsPow2(n) == n \in {1, 2, 4, 8, 16, 32, 64, 128, 256, 512, 1024, 2048, 4096}

(* hbucket_create: argument validation (hashsize, hash_fn, cmp_fn, hbskt_ret given as booleans) *)
CreateRc(hashsize, hasHash, hasCmp, hasRet) ==
  IF hashsize = 0 \/ ~hasHash \/ ~hasCmp \/ ~hasRet \/ ~IsPow2(hashsize) THEN EINVAL ELSE 0

New(mt, nz, keys) ==
  [alive |-> TRUE, mt |-> mt, nz |-> nz, key |-> keys,
   zl |-> [z \in 0..(nz - 1) |-> << >>], zc |-> [z \in 0..(nz - 1) |-> 0], total |-> 0,
   ez |-> [e \in 1..Len(keys) |-> NoZone],
   own |-> [z \in 0..(nz - 1) |-> None], dep |-> [z \in 0..(nz - 1) |-> 0]]

ZoneOfKey(S, k) == k % S.nz              \* hash_fn(key) & hashmask; the driver's hash_fn is congruent to the key

(* ---- recursive zone mutex (pthread PTHREAD_MUTEX_RECURSIVE): unlock by a non-owner is EPERM and changes nothing *)
CanLock(S, t, z) == IF S.mt THEN S.own[z] \in {None, t} ELSE TRUE   \* (no disjunction: TLC would split the action)
Lock(S, t, z) == IF ~S.mt THEN S ELSE [S EXCEPT !.own[z] = t, !.dep[z] = @ + 1]
Unlock(S, t, z) ==
  IF ~S.mt \/ S.own[z] # t THEN S
  ELSE [S EXCEPT !.dep[z] = @ - 1, !.own[z] = IF S.dep[z] = 1 THEN None ELSE t]

(* ---- hbucket_entry_get: one critical section *)
Find(S, z, k) ==
  LET L == S.zl[z]  idx == {i \in 1..Len(L) : S.key[L[i]] = k}
  IN IF idx = {} THEN None ELSE L[MinOfSet(idx)]
GetNeedsLock(fl) == ~Has(fl, GET_NO_LOCK)
Get(S, t, k, fl) ==
  LET z == ZoneOfKey(S, k)
      S1 == IF Has(fl, GET_NO_LOCK) THEN S ELSE Lock(S, t, z)
      e == Find(S1, z, k)
      S2 == IF e # None THEN (IF Has(fl, GET_S_UNLOCK) THEN Unlock(S1, t, z) ELSE S1)
            ELSE (IF Has(fl, GET_F_LOCK) THEN S1 ELSE Unlock(S1, t, z))
  IN [S |-> S2, e |-> e, rc |-> IF e # None THEN 0 ELSE -1, z |-> z]

(* ---- hbucket_entry_add: [lock] insert at head, zone->count++, read hbskt->count | write hbskt->count, [unlock]
        (hbskt->count is shared by all zones but only the zone mutex is held: the read and the write are two steps) *)
AddZone(S, e, zarg) == IF zarg # NoZone THEN zarg ELSE ZoneOfKey(S, S.key[e])
Add1(S, t, e, fl, z) ==
  LET S1 == IF Has(fl, ADD_NO_LOCK) THEN S ELSE Lock(S, t, z)
  IN [S1 EXCEPT !.zl[z] = << e >> \o @, !.zc[z] = @ + 1, !.ez[e] = z]
Add2(S, t, fl, z, newtotal) ==
  LET S1 == [S EXCEPT !.total = newtotal]
  IN IF Has(fl, ADD_NO_UNLOCK) THEN S1 ELSE Unlock(S1, t, z)
Add(S, t, e, fl, zarg) ==
  LET z == AddZone(S, e, zarg)  S1 == Add1(S, t, e, fl, z) IN Add2(S1, t, fl, z, S1.total + 1)

(* ---- hbucket_entry_remove: read entry->zone (no lock) | lock that zone's mutex, unlink from the list of the zone
        entry->zone names NOW, zone->count--, read hbskt->count | write it, entry->zone = NULL, unlock *)
Without(L, e) == SelectSeq(L, LAMBDA x : x # e)
Rm1(S, t, e, zr) ==
  LET S1 == Lock(S, t, zr)  zcur == S1.ez[e]
  IN [S1 EXCEPT !.zl[zcur] = Without(@, e), !.zc[zcur] = @ - 1]
Rm2(S, t, e, zr, newtotal) == Unlock([S EXCEPT !.total = newtotal, !.ez[e] = NoZone], t, zr)
Remove(S, t, e) ==
  IF S.ez[e] = NoZone THEN S
  ELSE LET zr == S.ez[e]  S1 == Rm1(S, t, e, zr) IN Rm2(S1, t, e, zr, S1.total - 1)

(* ---- hbucket_zone_entry_enum: one critical section; the callback removes the visited entry when it is in rm and
        returns non-zero at entry `stop` (TAILQ_FOREACH_SAFE: the successor was read before the callback ran) *)
Prefix(L, stop) ==
  LET idx == {i \in 1..Len(L) : L[i] = stop} IN IF idx = {} THEN L ELSE SubSeq(L, 1, MinOfSet(idx))
RECURSIVE RemoveSeq(_, _, _, _)
RemoveSeq(S, t, L, rm) ==
  IF L = << >> THEN S
  ELSE RemoveSeq(IF Head(L) \in rm THEN Remove(S, t, Head(L)) ELSE S, t, Tail(L), rm)
ZEnum(S, t, z, rm, stop) ==
  LET S1 == Lock(S, t, z)
      vis == Prefix(S1.zl[z], stop)
      S2 == RemoveSeq(S1, t, vis, rm)
  IN [S |-> Unlock(S2, t, z), vis |-> vis, ret |-> IF stop \in RangeOf(vis) THEN 1 ELSE 0]
RECURSIVE EnumFrom(_, _, _, _, _, _)
EnumFrom(S, t, z, rm, stop, acc) ==
  IF z >= S.nz THEN [S |-> S, vis |-> acc, ret |-> 0]
  ELSE LET r == ZEnum(S, t, z, rm, stop)
       IN IF r.ret # 0 THEN [S |-> r.S, vis |-> acc \o r.vis, ret |-> r.ret]
          ELSE EnumFrom(r.S, t, z + 1, rm, stop, acc \o r.vis)
Enum(S, t, rm, stop) == EnumFrom(S, t, 0, rm, stop, << >>)
EnumZones(S, stop) ==    \* zones whose mutex hbucket_entry_enum takes (it stops after the zone holding `stop`)
  LET hit == {z \in ZonesOf(S) : stop \in RangeOf(S.zl[z])}
  IN IF hit = {} THEN ZonesOf(S) ELSE 0..MinOfSet(hit)

(* ---- hbucket_destroy: every entry is unlinked (entry->zone = NULL) and handed to the callback; table is gone *)
RECURSIVE AllFrom(_, _)
AllFrom(S, z) == IF z >= S.nz THEN << >> ELSE S.zl[z] \o AllFrom(S, z + 1)
Destroy(S) ==
  [S |-> [S EXCEPT !.alive = FALSE, !.zl = [z \in ZonesOf(S) |-> << >>],
                   !.ez = [e \in EntsOf(S) |-> NoZone]],
   vis |-> AllFrom(S, 0)]

(* ---- hbucket_zone_lock/unlock, hbucket_entry_lock/unlock (entry->zone == NULL: nothing happens) *)
ELockZone(S, e) == S.ez[e]
ELock(S, t, e) == IF S.ez[e] = NoZone THEN S ELSE Lock(S, t, S.ez[e])
EUnlock(S, t, e) == IF S.ez[e] = NoZone THEN S ELSE Unlock(S, t, S.ez[e])

(* ---- number of lock / unlock calls on zone mutexes a call makes (what is done under which mutex: the driver counts
        the real pthread calls).  c: [op, t, a, b, c] as in MC_HbApi!CallsOf; found / nrm / nzones: outcome of the call *)
LockOps(S, op, fl, found, intable, nrm, nzones) ==
  IF ~S.mt THEN << 0, 0 >>
  ELSE CASE op = "get" -> << IF Has(fl, GET_NO_LOCK) THEN 0 ELSE 1,
                             IF found THEN (IF Has(fl, GET_S_UNLOCK) THEN 1 ELSE 0) ELSE (IF Has(fl, GET_F_LOCK) THEN 0 ELSE 1) >>
         [] op = "add" -> << IF Has(fl, ADD_NO_LOCK) THEN 0 ELSE 1, IF Has(fl, ADD_NO_UNLOCK) THEN 0 ELSE 1 >>
         [] op = "rm" -> IF intable THEN << 1, 1 >> ELSE << 0, 0 >>
         [] op = "zlock" -> << 1, 0 >>
         [] op = "zunlock" -> << 0, 1 >>
         [] op = "elock" -> IF intable THEN << 1, 0 >> ELSE << 0, 0 >>
         [] op = "eunlock" -> IF intable THEN << 0, 1 >> ELSE << 0, 0 >>
         [] op \in {"zenum", "enum", "destroy"} -> << nzones + nrm, nzones + nrm >>
         [] OTHER -> << 0, 0 >>

(* ---- state predicates *)
InTable(S) == UNION {RangeOf(S.zl[z]) : z \in ZonesOf(S)}
StructOK(S) ==
  /\ \A z \in ZonesOf(S) : Cardinality(RangeOf(S.zl[z])) = Len(S.zl[z])
  /\ \A z1, z2 \in ZonesOf(S) : z1 # z2 => RangeOf(S.zl[z1]) \cap RangeOf(S.zl[z2]) = {}
  /\ \A e \in EntsOf(S) : \A z \in ZonesOf(S) : (S.ez[e] = z) <=> (e \in RangeOf(S.zl[z]))
  /\ \A e \in EntsOf(S) : S.ez[e] \in ZonesOf(S) \cup {NoZone}
RECURSIVE SumLen(_, _)
SumLen(S, z) == IF z >= S.nz THEN 0 ELSE Len(S.zl[z]) + SumLen(S, z + 1)
ZoneCountsOK(S) == \A z \in ZonesOf(S) : S.zc[z] = Len(S.zl[z])
CountsOK(S) == ZoneCountsOK(S) /\ S.total = SumLen(S, 0)
NonNeg(S) == S.total >= 0 /\ \A z \in ZonesOf(S) : S.zc[z] >= 0
LocksOK(S) ==
  \A z \in ZonesOf(S) : /\ S.dep[z] >= 0
                        /\ (S.own[z] = None) <=> (S.dep[z] = 0)
                        /\ (~S.mt => S.own[z] = None)

(* projection compared with the real structures after every call (sequences: JSON arrays) *)
Proj(S) ==
  [zl |-> [i \in 1..S.nz |-> S.zl[i - 1]], zc |-> [i \in 1..S.nz |-> S.zc[i - 1]], total |-> S.total,
   ez |-> S.ez, own |-> [i \in 1..S.nz |-> S.own[i - 1]], dep |-> [i \in 1..S.nz |-> S.dep[i - 1]]]
=============================================================================
