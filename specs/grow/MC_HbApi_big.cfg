SPECIFICATION Spec
CONSTANTS
  MT = TRUE
  NZ = 2
  NE = 4
  NK = 3
  Threads = {1, 2}
  MaxDep = 2
  EnumRm = {{}, {1}, {2, 3}, {1, 2, 3, 4}}
  Emit = FALSE
INVARIANTS Inv PostOK
CHECK_DEADLOCK TRUE
