SPECIFICATION Spec
CONSTANTS Pools = {0, 1, 2}
 MaxN = 2
 TlsPools = {}
 TlsThreads = {0, 2}
 TlsVals = {0, 7}
 Binds = {TRUE}
 NOf <- NOf3
INVARIANTS CountInRange CursorInside SlotNeverDead HandlerIdle DeadPoolsBlank OutOfRangeNeverStored
PROPERTIES TlsFrame ShutStaysShut SignalEmptiesTable
CHECK_DEADLOCK FALSE
