SPECIFICATION Spec
CONSTANTS
  HAPREALLOC = 8
  NObj = 3
CHECK_DEADLOCK FALSE
