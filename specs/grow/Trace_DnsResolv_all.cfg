SPECIFICATION Spec
CONSTANTS
  Names = {"a", "b", "c", "d"}
  Lookups = {1, 2, 3, 4, 5, 6, 7, 8, 9, 10, 11, 12}
  MaxId = 12
  MaxCyc = 64
  VariantFamily = "all"
INVARIANTS Sane
CHECK_DEADLOCK FALSE
