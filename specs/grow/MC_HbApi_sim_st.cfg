SPECIFICATION SimSpec
CONSTANTS
  MT = FALSE
  NZ = 4
  NE = 5
  NK = 3
  Threads = {1, 2}
  MaxDep = 3
  EnumRm = {{}, {1}, {2, 3}, {1, 2, 3, 4}, {4}}
  Emit = TRUE
INVARIANTS Inv PostOK EmitInv
CHECK_DEADLOCK FALSE
