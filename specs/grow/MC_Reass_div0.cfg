SPECIFICATION Spec
CONSTANTS BufSz = 6 BmSzP1 = 2 MaxFrags = 3 SeqNeg = 3 SeqHi = 3 MaxSize = 3
CONSTANT Fix <- FixNoDiv0
INVARIANT NoR3
CHECK_DEADLOCK FALSE
