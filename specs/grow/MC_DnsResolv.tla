--------------------------- MODULE MC_DnsResolv ---------------------------
(* Exhaustive exploration of DnsResolv: the environment is a set of name servers and a network that may lose,
   duplicate, delay (across completion of the query and re-use of its id) and reorder datagrams, forge a datagram
   with another id or from a foreign source, truncate; a user that starts lookups, cancels, destroys; a clock; a
   transmission that fails.  Budgets bound the environment, not the resolver. *)
EXTENDS DnsResolv
CONSTANTS Fix, NSrv, Retry, NegTTL,
          MaxRep, MaxDup, MaxTick, MaxFail, MaxForge, WithDestroy, WithCancel, Shapes
VARIABLES r, sent, wire, bud
vars == <<r, sent, wire, bud>>

Other(x) == IF \E y \in Names : y # x THEN CHOOSE y \in Names : y # x ELSE x
Dg(srv, id, q, shape) ==
  LET y == Other(q) IN
  [srv |-> srv, id |-> id, q |-> q, soa |-> <<-1, -1>>,
   bad |-> IF shape = "BAD" THEN 1 ELSE 0,
   rcode |-> CASE shape = "NX" -> 3 [] shape = "FAIL" -> 2 [] OTHER -> 0,
   rrs |-> CASE shape = "A" -> << <<q, "A", 1, 4>> >>
             [] shape = "NODATA" -> << <<y, "A", 2, 4>> >>
             [] shape = "CN" -> << <<q, "C", y, 4>> >>
             [] shape = "CNA" -> << <<q, "C", y, 4>>, <<y, "A", 2, 4>> >>
             [] OTHER -> << >>]

Init == /\ r = InitR(Fix, NSrv, Retry, NegTTL) /\ sent = {} /\ wire = {}
        /\ bud = [rep |-> 0, dup |-> 0, tick |-> 0, fail |-> 0, forge |-> 0]

(* take the outputs of a step: transmissions that left the host reach their server *)
Absorb(r1) ==
  /\ r' = [r1 EXCEPT !.out = << >>]
  /\ sent' = sent \cup {[srv |-> r1.out[j].srv, id |-> r1.out[j].id, q |-> r1.out[j].q] :
                        j \in {k \in 1..Len(r1.out) : r1.out[k].e = "tx" /\ r1.out[k].fail = 0}}
Live == r.alive /\ ~r.crashed

DoResolve == /\ Live /\ \E l \in Lookups : /\ ResolveOk(r, l) /\ \A k \in Lookups : k < l => r.lk[k].st # "new"
                                           /\ \E n \in Names : Absorb(Resolve(r, l, n))
             /\ UNCHANGED <<wire, bud>>
DoCancel  == /\ Live /\ WithCancel /\ \E l \in Lookups : CancelOk(r, l) /\ Absorb(Cancel(r, l)) /\ UNCHANGED <<wire, bud>>
DoTimeout(id) == /\ Live /\ TimeoutOk(r, id) /\ Absorb(TimeoutCb(r, id)) /\ UNCHANGED <<wire, bud>>
SrvReply  == /\ bud.rep < MaxRep
             /\ \E q \in sent, sh \in Shapes : /\ wire' = wire \cup {Dg(q.srv, q.id, q.q, sh)} /\ sent' = sent \ {q}
             /\ bud' = [bud EXCEPT !.rep = @ + 1] /\ UNCHANGED r
Forge     == /\ bud.forge < MaxForge
             /\ \E q \in sent : \/ \E i \in (1..MaxId) \ {q.id} : wire' = wire \cup {Dg(q.srv, i, q.q, "A")}
                                \/ wire' = wire \cup {Dg(-1, q.id, q.q, "A")}
             /\ bud' = [bud EXCEPT !.forge = @ + 1] /\ UNCHANGED <<r, sent>>
Deliver   == /\ Live /\ \E d \in wire : Absorb(RecvCb(r, d)) /\ wire' = wire \ {d}
             /\ UNCHANGED bud
DupDeliver == /\ Live /\ bud.dup < MaxDup /\ \E d \in wire : Absorb(RecvCb(r, d))
              /\ bud' = [bud EXCEPT !.dup = @ + 1] /\ UNCHANGED wire
DoTick    == /\ Live /\ bud.tick < MaxTick /\ Absorb(Tick(r, 5)) /\ bud' = [bud EXCEPT !.tick = @ + 1] /\ UNCHANGED wire
DoArmFail == /\ Live /\ bud.fail < MaxFail /\ r.sendfail = 0 /\ Absorb(ArmSendFail(r, 1, "ENETUNREACH"))
             /\ bud' = [bud EXCEPT !.fail = @ + 1] /\ UNCHANGED wire
DoDestroy == /\ Live /\ WithDestroy /\ Absorb(Destroy(r)) /\ UNCHANGED <<wire, bud>>

Next == DoResolve \/ DoCancel \/ (\E id \in 1..MaxId : DoTimeout(id)) \/ SrvReply \/ Forge \/ Deliver \/ DupDeliver
        \/ DoTick \/ DoArmFail \/ DoDestroy
Spec == Init /\ [][Next]_vars /\ \A id \in 1..MaxId : WF_vars(DoTimeout(id))

NoViol   == r.viol = {}
NoCrash  == ~r.crashed
CbOnce   == InvCbOnce(r)
Chain    == r.crashed \/ InvChain(r)
Entry    == r.crashed \/ InvEntry(r)
Lookup   == r.crashed \/ InvLookup(r)
TxBound  == InvTx(r)
Destroyed == r.crashed \/ InvDestroyed(r)
Answered == \A l \in Lookups : (r.lk[l].st = "run") ~> (r.lk[l].st # "run")
=============================================================================
