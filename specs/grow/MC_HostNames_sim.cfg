SPECIFICATION SimSpec
CONSTANTS
  PREALLOC = 8
  NObj = 3
  Names = {"a", "A", "b", "B", "ab", "Ab", "c", "d", "e", "f", "g", "h", "i", "j", "example.org", "EXAMPLE.Org", "*.example.org", ".example.org", "*", "**", "@null", "@empty"}
  MaxNames = 10
  Dev = {}
  Emit = TRUE
INVARIANTS Inv PostOK MemOK EmitInv
CHECK_DEADLOCK FALSE
