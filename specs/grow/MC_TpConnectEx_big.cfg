SPECIFICATION Spec
CONSTANTS
  Ns = {1, 2, 3}
  Mts = {0, 1, 2, 3}
  Rds = {0, 300}
  Tmos = {0, 7000}
  Tls = {0, 600000}
  MaxAtt = 9
  OwnerOps = TRUE
  DevReset = FALSE
  DevStop = FALSE
INVARIANTS NoFinding OneFinal FailReports Schedule Sockets Cancel Arming InitialDelay
CHECK_DEADLOCK FALSE
