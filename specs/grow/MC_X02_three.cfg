SPECIFICATION Spec
CONSTANTS
  NIds = 2
  Ident = FALSE
  Dev = {}
  JitClasses = {"zero"}
  Plan = "three"
  Kinds = {"good", "wrongid"}
  MaxFlips = 0
  MaxReplies = 2
  AllowCancel = FALSE
  AllowDestroy = TRUE
  PortReuse = TRUE
INVARIANTS ICompleteOnce INoTxAfterDone ITxBound ISlots IArmed IMatch IDelivered IFailover IQuiescent IDestroyed IMemSafe INas IBufUnits IDuration
CHECK_DEADLOCK FALSE
