SPECIFICATION Spec
CONSTANTS N = 3
 Callers = {c1}
 CallsEach = 7
 Variant = "asis"
INVARIANTS InRange InAlloc EqualShares IdxBounded
PROPERTY Rotation
CHECK_DEADLOCK FALSE
