---------------------------- MODULE MC_HostAddr ----------------------------
(* Exhaustive exploration of the host address object (HostAddr.tla): NObj objects, one step per API call, allocation
   failure at every allocation of a call, scripted resolver answers.  The postconditions HA1..HA6 are evaluated in every
   step (violations collected in `bad`); Dev selects deviations of the shipped code (negative controls).  With
   Emit = TRUE the calls of a random walk are printed and replayed on the real header by rig/checks/x09.py.
   WithClone = FALSE leaves host_addr_clone out (the shipped clone is memory-unsafe, see HA4). *)
EXTENDS HostAddr, Json
CONSTANTS NObj, Texts, DefPorts, Addrs, Answers, MaxAddrs, Dev, Emit, WithClone
VARIABLES objs, ev, bad
vars == << objs, ev, bad >>
Idx == 1..NObj
Live(i) == HaIsObj(objs[i])
D(c, name) == IF c THEN {} ELSE {name}
Cnt(s, ch) == Cardinality(HaIdx(s, ch))

ParsePost(text, def, fail, r) ==
  IF HaBadArg(text) \/ fail = 1 THEN r.rc # 0 /\ r.o = HaDead
  ELSE /\ r.rc = 0 /\ r.o.addrs = << >>
       /\ Cnt(r.o.name, "[") = Cnt(r.o.name, "]")                                   \* a bracketed literal stays whole
       /\ (Cnt(text, "[") = 0 /\ Cnt(text, ":") >= 2 => r.o.name = text /\ r.o.port = def)   \* bare IPv6 literal
       /\ (Cnt(text, ":") = 0 => r.o.name = text /\ r.o.port = def)
       /\ (r.o.name # text => /\ Len(r.o.name) < Len(text) /\ SubSeq(text, 1, Len(r.o.name) + 1) = r.o.name \o ":"
                              /\ r.o.port = HaU16(SubSeq(text, Len(r.o.name) + 2, Len(text)), 0))
       /\ (r.o.name = text => r.o.port = def)
       /\ (Cnt(text, "[") = 0 /\ Cnt(text, ":") = 1 => r.o.name # text)                  \* name:port is cut
       /\ (SubSeq(text, 1, 1) = "[" /\ Cnt(text, "]") = 1 /\ Cnt(text, ":") > 0 =>
             (IF HaMax(HaIdx(text, ":")) > HaMax(HaIdx(text, "]")) THEN r.o.name = SubSeq(text, 1, HaMax(HaIdx(text, ":")) - 1) ELSE r.o.name = text))
AddPost(o, a, fail, r) ==
  LET e == HaEff(o, a) IN
  /\ (r.rc = 0 => /\ HaIsSo(r.o, e) = 1 /\ HaRange(r.o.addrs) = HaRange(o.addrs) \cup {e}
                  /\ SubSeq(r.o.addrs, 1, Len(o.addrs)) = o.addrs /\ r.o.name = o.name /\ r.o.port = o.port
                  /\ (HaIsSo(o, e) = 1 => r.o = o))
  /\ (r.rc # 0 => r.rc = HaENOMEM /\ fail # 0 /\ r.o = o)
  /\ (fail = 0 => r.rc = 0)
QueryPost(o, a) ==
  /\ (HaIs(o, a) = 1) = (\E x \in HaRange(o.addrs) : x[1] = a[1] /\ x[2] = a[2])
  /\ (HaIsSo(o, a) = 1) = (a \in HaRange(o.addrs))
  /\ (HaIsSo(o, a) = 1 => HaIs(o, a) = 1)
ClonePost(o, fail, r) == (r.rc = 0 => r.o = o) /\ (r.rc # 0 => fail # 0 /\ r.o = HaDead) /\ (fail = 0 => r.rc = 0)
ResolvPost(o, gairc, ans, fail, r) ==
  IF gairc # 0 THEN r.rc = gairc /\ r.o = o /\ r.frees = 0
  ELSE /\ r.rc = 0 /\ r.frees = 1 /\ SubSeq(r.o.addrs, 1, Len(o.addrs)) = o.addrs
       /\ HaRange(r.o.addrs) \subseteq HaRange(o.addrs) \cup {HaEff(o, ans[i]) : i \in {j \in 1..Len(ans) : ans[j][1] \in {4, 6}}}
       /\ (fail = 0 => HaRange(r.o.addrs) = HaRange(o.addrs) \cup {HaEff(o, ans[i]) : i \in {j \in 1..Len(ans) : ans[j][1] \in {4, 6}}})

AddrsSmall == { << 4, 1, 0 >>, << 4, 1, 80 >>, << 4, 2, 80 >>, << 6, 1, 0 >> }
AnswersSmall == << << >>, << << 4, 1, 0 >>, << 1, 0, 0 >>, << 6, 1, 81 >> >>, << << 4, 2, 80 >>, << 4, 2, 80 >> >> >>
AddrsBig == {<< f, a, p >> : f \in {4, 6}, a \in 1..6, p \in {0, 80, 8080}}
AnswersBig == << << >>, << << 4, 1, 0 >> >>, << << 4, 1, 0 >>, << 1, 0, 0 >>, << 6, 1, 81 >> >>, << << 4, 2, 80 >>, << 4, 2, 80 >> >>,
                 << << 6, 2, 0 >>, << 6, 3, 0 >>, << 4, 3, 0 >>, << 4, 4, 0 >>, << 4, 5, 443 >> >>,
                 << << 4, 1, 8080 >>, << 4, 2, 8080 >>, << 4, 3, 8080 >>, << 4, 4, 8080 >>, << 4, 5, 8080 >>, << 4, 6, 8080 >>, << 6, 1, 8080 >>, << 6, 2, 8080 >>, << 6, 3, 8080 >> >> >>

Step(e, o2, v) == /\ objs' = o2 /\ ev' = (IF Emit THEN e ELSE << >>) /\ bad' = bad \cup v
Init == objs = [i \in Idx |-> HaDead] /\ ev = << >> /\ bad = {}
DoNew(i, text, def, fail) ==
  /\ ~Live(i)
  /\ LET r == HaNew(text, def, fail, Dev) IN
     Step([op |-> "ha.new", i |-> i - 1, text |-> text, port |-> def, fail |-> fail], [objs EXCEPT ![i] = r.o], D(ParsePost(text, def, fail, r), "ParsePost"))
DoAdd(i, a, fail) ==
  /\ Live(i)
  /\ LET r == HaAdd(objs[i], a, fail, Dev) IN
     /\ Len(r.o.addrs) <= MaxAddrs
     /\ Step([op |-> "ha.add", i |-> i - 1, a |-> a, fail |-> fail], [objs EXCEPT ![i] = r.o], D(AddPost(objs[i], a, fail, r), "AddPost"))
DoQuery(i, a, which) ==
  /\ Live(i)
  /\ Step([op |-> which, i |-> i - 1, a |-> a, fail |-> 0], objs, D(QueryPost(objs[i], a), "QueryPost"))
DoClone(i, j, fail) ==
  /\ WithClone /\ Live(i) /\ ~Live(j)
  /\ LET r == HaClone(objs[i], fail) IN
     Step([op |-> "ha.clone", i |-> i - 1, j |-> j - 1, fail |-> fail], [objs EXCEPT ![j] = r.o], D(ClonePost(objs[i], fail, r), "ClonePost"))
DoResolv(i, gairc, ans, fail) ==
  /\ Live(i)
  /\ LET r == HaResolv(objs[i], gairc, ans, fail, Dev) IN
     /\ Len(r.o.addrs) <= MaxAddrs
     /\ Step([op |-> "ha.resolv", i |-> i - 1, gairc |-> gairc, ans |-> ans, fail |-> fail], [objs EXCEPT ![i] = r.o],
             D(ResolvPost(objs[i], gairc, ans, fail, r), "ResolvPost"))
DoDel(i) == Live(i) /\ Step([op |-> "ha.del", i |-> i - 1], [objs EXCEPT ![i] = HaDead], {})

Next ==
  \/ \E i \in Idx, t \in Texts, d \in DefPorts, fail \in {0, 1} : DoNew(i, t, d, fail)
  \/ \E i \in Idx, a \in Addrs, fail \in {0, 1} : DoAdd(i, a, fail)
  \/ \E i \in Idx, a \in Addrs : DoQuery(i, a, "ha.is") \/ DoQuery(i, a, "ha.isso")
  \/ \E i, j \in Idx, fail \in 0..2 : DoClone(i, j, fail)
  \/ \E i \in Idx, g \in {0, -2}, x \in 1..Len(Answers), fail \in 0..2 : DoResolv(i, g, Answers[x], fail)
  \/ \E i \in Idx : DoDel(i)
Spec == Init /\ [][Next]_vars

(* random walks: ONE successor per step; the call kind is drawn first, then its arguments *)
Fail8 == << 0, 0, 0, 0, 0, 0, 0, 1 >>
Fail12 == << 0, 0, 0, 0, 0, 0, 0, 0, 0, 1, 1, 2 >>
OpBag == << "ha.new", "ha.new", "ha.add", "ha.add", "ha.add", "ha.add", "ha.add", "ha.add", "ha.is", "ha.isso", "ha.isso", "ha.clone", "ha.clone",
            "ha.resolv", "ha.resolv", "ha.del" >>
Pick(seq) == seq[RandomElement(1..Len(seq))]
SimNext ==
  LET live == {i \in Idx : Live(i)}  dead == Idx \ live
      ok(kd) == CASE kd = "ha.new" -> dead # {} [] kd = "ha.clone" -> WithClone /\ live # {} /\ dead # {} [] OTHER -> live # {} IN
  \E kd \in {Pick(SelectSeq(OpBag, ok))} :
    CASE kd = "ha.new" -> \E i \in {RandomElement(dead)}, t \in {RandomElement(Texts)}, d \in {RandomElement(DefPorts)}, f \in {Pick(Fail8)} : DoNew(i, t, d, f)
      [] kd = "ha.add" -> \E i \in {RandomElement(live)}, a \in {RandomElement(Addrs)}, f \in {Pick(Fail12)} :
                            IF Len(HaAdd(objs[i], a, f, Dev).o.addrs) <= MaxAddrs THEN DoAdd(i, a, f) ELSE DoQuery(i, a, "ha.is")
      [] kd \in {"ha.is", "ha.isso"} -> \E i \in {RandomElement(live)}, a \in {RandomElement(Addrs)} : DoQuery(i, a, kd)
      [] kd = "ha.clone" -> \E i \in {RandomElement(live)}, j \in {RandomElement(dead)}, f \in {Pick(Fail12)} : DoClone(i, j, f)
      [] kd = "ha.resolv" -> \E i \in {RandomElement(live)}, g \in {Pick(<< 0, 0, 0, 0, -2 >>)}, x \in {RandomElement(1..Len(Answers))}, f \in {Pick(Fail12)} :
                            IF Len(HaResolv(objs[i], g, Answers[x], f, Dev).o.addrs) <= MaxAddrs THEN DoResolv(i, g, Answers[x], f) ELSE DoQuery(i, << 4, 1, 0 >>, "ha.isso")
      [] kd = "ha.del" -> \E i \in {RandomElement(live)} : DoDel(i)
SimSpec == Init /\ [][SimNext]_vars

Inv == (\A i \in Idx : HaInv(objs[i])) = TRUE
PostOK == bad = {}
EmitInv == Emit => PrintT(ToJson([lvl |-> TLCGet("level"), ev |-> ev]))
=============================================================================
