SPECIFICATION Spec
CONSTANTS
  Devs = {1, 2, 3, 4, 5, 6, 7}
  VariantFamily = "core"
INVARIANTS Sane
CHECK_DEADLOCK FALSE
