SPECIFICATION Spec
CONSTANTS N = 4
 Callers = {c1, c2, c3, c4}
 CallsEach = 4
 Variant = "atomic"
INVARIANTS InRange InAlloc EqualShares IdxBounded
PROPERTY Rotation
CHECK_DEADLOCK FALSE
