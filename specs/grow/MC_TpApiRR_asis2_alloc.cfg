SPECIFICATION Spec
CONSTANTS N = 3
 Callers = {c1, c2}
 CallsEach = 3
 Variant = "asis"
INVARIANTS InAlloc IdxBounded
CHECK_DEADLOCK FALSE
