--------------------------- MODULE Trace_HostAddr ---------------------------
(* Trace validation for host_address.h: every line written by harness/x09_drv.c (one per call on the real objects)
   is one step of HostAddr with the logged arguments; the result and the projected state of ALL objects (name, port,
   addresses in order, capacity, array present, NUL termination), the number of blocks the library owns, what the
   scripted getaddrinfo was asked (node, service, hints) and how often freeaddrinfo was called are compared with the
   specification.  Lines that only match with a named deviation of the shipped code are accepted and reported. *)
EXTENDS HostAddr, Json, IOUtils
CONSTANTS NObj
VARIABLES objs, l, skip
Tr == ndJsonDeserialize(IOEnv.TRACE)
D(c, name) == IF c THEN {} ELSE {name}
Cands == << {}, {"v6split"}, {"dedup"} >>

Obj(W, e) == W[e.i + 1]
Eval(W, e, dev) ==
  CASE e.op = "ha.new" ->
         LET r == HaNew(e.text, e.port, e.fail, dev) IN
         [objs |-> [W EXCEPT ![e.i + 1] = r.o], ok |-> ~HaIsObj(Obj(W, e)), diff |-> D(r.rc = e.rc, "rc")]
    [] e.op = "ha.add" ->
         LET r == HaAdd(Obj(W, e), e.a, e.fail, dev) IN
         [objs |-> [W EXCEPT ![e.i + 1] = r.o], ok |-> HaIsObj(Obj(W, e)), diff |-> D(r.rc = e.rc, "rc")]
    [] e.op = "ha.is" -> [objs |-> W, ok |-> HaIsObj(Obj(W, e)), diff |-> D(HaIs(Obj(W, e), e.a) = e.rc, "rc")]
    [] e.op = "ha.isso" -> [objs |-> W, ok |-> HaIsObj(Obj(W, e)), diff |-> D(HaIsSo(Obj(W, e), e.a) = e.rc, "rc")]
    [] e.op = "ha.clone" ->
         LET r == HaClone(Obj(W, e), e.fail) IN
         [objs |-> [W EXCEPT ![e.j + 1] = r.o], ok |-> HaIsObj(Obj(W, e)) /\ ~HaIsObj(W[e.j + 1]), diff |-> D(r.rc = e.rc, "rc")]
    [] e.op = "ha.resolv" ->
         LET o == Obj(W, e)  r == HaResolv(o, e.gairc, e.ans, e.fail, dev) IN
         [objs |-> [W EXCEPT ![e.i + 1] = r.o], ok |-> HaIsObj(o),
          diff |-> D(r.rc = e.rc, "rc") \cup D(e.calls = 1, "getaddrinfo-calls") \cup D(e.frees = r.frees, "freeaddrinfo-calls")
                   \cup D(e.node = o.name, "getaddrinfo-node") \cup D(e.serv = HaServ(o), "getaddrinfo-service")
                   \cup D(e.unspec = 1 /\ e.numserv = 1, "getaddrinfo-hints")]
    [] e.op = "ha.del" -> [objs |-> [W EXCEPT ![e.i + 1] = HaDead], ok |-> HaIsObj(Obj(W, e)), diff |-> {}]
    [] e.op = "ha.nullcalls" ->
         [objs |-> W, ok |-> TRUE,
          diff |-> D(e.clone = 0 /\ e.add = HaEINVAL /\ e.is = 0 /\ e.isso = 0 /\ e.isnulla = 0 /\ e.issonulla = 0 /\ e.resolv = HaEINVAL, "rc")]

ProjObj(o) ==
  IF HaIsObj(o) THEN [name |-> o.name, port |-> o.port, addrs |-> o.addrs, alloc |-> o.alloc, arr |-> IF o.arr THEN 1 ELSE 0, term |-> 1] ELSE HaDead
RECURSIVE SumBlocks(_, _)
SumBlocks(W, i) == IF i = 0 THEN 0 ELSE HaBlocks(W[i]) + SumBlocks(W, i - 1)
StDiff(W, e) ==
  IF "st" \notin DOMAIN e THEN {}
  ELSE D(e.st.o = [i \in 1..NObj |-> ProjObj(W[i])], "state") \cup D(e.st.mem = SumBlocks(W, NObj), "blocks-owned")
       \cup D(e.st.gai = 0, "addrinfo-lists-outstanding")

Res(W, e, k) == LET r == Eval(W, e, Cands[k]) IN r @@ [all |-> r.diff \cup StDiff(r.objs, e)]
Fresh == [i \in 1..NObj |-> HaDead]
Init == objs = Fresh /\ l = 1 /\ skip = FALSE
Step ==
  /\ l <= Len(Tr)
  /\ LET e == Tr[l] IN
     IF e.op = "reset" THEN objs' = Fresh /\ skip' = FALSE
     ELSE IF skip THEN UNCHANGED << objs, skip >>
     ELSE LET r1 == Res(objs, e, 1) IN
          IF r1.ok /\ r1.all = {} THEN objs' = r1.objs /\ skip' = FALSE
          ELSE LET good == IF r1.ok THEN {k \in 2..Len(Cands) : Res(objs, e, k).all = {}} ELSE {} IN
               IF good = {}
               THEN /\ PrintT(ToJson([v |-> "MISMATCH", l |-> l, f |-> IF r1.ok THEN r1.all ELSE {"call-not-allowed-by-spec"}]))
                    /\ skip' = TRUE /\ UNCHANGED objs
               ELSE LET k == CHOOSE x \in good : \A y \in good : x <= y
                        r == Res(objs, e, k) IN
                    /\ objs' = r.objs /\ skip' = FALSE
                    /\ PrintT(ToJson([v |-> "DEVIATION", l |-> l, f |-> Cands[k]]))
  /\ (l = Len(Tr) => PrintT(ToJson([v |-> "TRACE-END", l |-> l, f |-> {}])))
  /\ l' = l + 1
Spec == Init /\ [][Step]_<< objs, l, skip >>
=============================================================================
