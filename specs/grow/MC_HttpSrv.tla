----------------------------- MODULE MC_HttpSrv -----------------------------
(* Exhaustive exploration of HttpSrv with an adversarial environment: clients that cut their byte stream anywhere,
   half-close, reset or go silent; a kernel that answers recv / sendmsg / send with any legal result (short reads,
   short writes, EAGAIN, error); timers that may expire whenever they are armed; a user whose callbacks return any
   code it may return and who resumes deferred work whenever it likes; server calls (shutdown, bind remove, destroy)
   at any moment between two handler runs.
   Fix = AllFix : the specification proper - every invariant below holds and every client terminates.
   Fix = AllFix \ {f} : the shipped behaviour of one spot - TLC finds the violated property (rig/checks/x05.py runs
   both; the properties are not vacuous). *)
EXTENDS HttpSrv

CONSTANTS Fix,          \* set of repairs applied
          Scns,         \* names of the scripted byte streams explored (below); one is chosen in the initial state
          Init0, Max0,  \* rcv_io_buf_init_size / rcv_io_buf_max_size (bytes of the small world)
          ReqConn, RespClose, RcvTmo, SndTmo, AccFilter, ReqCbOn, SndCbOn, ConnCbOn,
          ReqRcs, SndRcs, ConnRcs,   \* return codes the user callbacks may give: subsets of {"C", "D", "N"}
          UserClose,    \* the user may set "Connection: close" in a response
          ShortReads,   \* recv may return less than what is there
          MaxAgain, MaxErr, MaxPart,   \* budget of EAGAIN / error / short-write answers
          SrvOps,       \* server calls explored: subset of {"shutdown", "bind_remove", "destroy", "cli_free"}
          NBinds        \* binds added at the start

R(kind, hl, cl, bl, ver, conn) == [kind |-> kind, hl |-> hl, cl |-> cl, bl |-> bl, ver |-> ver, conn |-> conn]
Script(Scn, c) ==
  CASE Scn = "pipeline" -> <<R("GET", 2, 0, 0, 11, "none"), R("POST", 2, 3, 3, 11, "none"), R("GET", 2, 0, 0, 11, "close")>>
    [] Scn = "twoget" -> <<R("GET", 2, 0, 0, 11, "none"), R("GET", 2, 0, 0, 11, "none")>>
    [] Scn = "pipeline2" -> <<R("POST", 2, 1, 1, 11, "none"), R("POST", 2, 2, 2, 11, "none")>>
    [] Scn = "bigbody" -> <<R("POST", 2, 5, 5, 11, "none"), R("GET", 2, 0, 0, 11, "none")>>
    [] Scn = "toobig" -> <<R("POST", 2, 9, 9, 11, "none")>>
    [] Scn = "bighdr" -> <<R("GET", 6, 0, 0, 11, "none"), R("GET", 2, 0, 0, 11, "none")>>
    [] Scn = "hugehdr" -> <<R("GET", 10, 0, 0, 11, "none")>>
    [] Scn = "errors" -> IF c = 1 THEN <<R("GET", 2, 0, 0, 11, "none"), R("BADLINE", 2, 0, 0, 11, "none")>>
                         ELSE <<R("POSTNOCL", 2, 0, 0, 11, "none")>>
    [] Scn = "nohdr" -> <<R("NOHDR", 3, 0, 0, 11, "none")>>
    [] Scn = "http10" -> <<R("GET", 2, 0, 0, 10, "none"), R("GET", 2, 0, 0, 11, "none")>>
    [] Scn = "http10ka" -> <<R("GET", 2, 0, 0, 10, "ka"), R("POST", 2, 1, 1, 10, "close")>>
    [] Scn = "truncated" -> <<R("POST", 2, 3, 2, 11, "none")>>
    [] OTHER -> <<R("GET", 2, 0, 0, 11, "none")>>
RECURSIVE Total(_, _)
Total(q, j) == IF j > Len(q) THEN 0 ELSE q[j].hl + q[j].bl + Total(q, j + 1)
RespLen == 3          \* bytes of every response in the small world

VARIABLES s, bud
vars == <<s, bud>>

Cfg0 == [init |-> Init0, max |-> Max0, snd |-> 4, hdrs |-> 1, reqconn |-> ReqConn, respclose |-> RespClose, rcvtmo |-> RcvTmo,
         sndtmo |-> SndTmo, accfilter |-> AccFilter, reqcb |-> ReqCbOn, sndcb |-> SndCbOn, dstcb |-> TRUE, conncb |-> ConnCbOn]
RECURSIVE AddBinds(_, _)
AddBinds(st, n) == IF n = 0 THEN st ELSE BindAdd(AddBinds(st, n - 1), n, TRUE)
Init == /\ \E scn \in Scns : s = [AddBinds(InitS(Fix, Cfg0), NBinds) EXCEPT !.c = [c \in Conns |-> [NoConn EXCEPT !.script = Script(scn, c)]]]
        /\ bud = [again |-> MaxAgain, err |-> MaxErr, part |-> MaxPart, ops |-> SrvOps]

Clr(st) == [st EXCEPT !.pend = << >>]           \* outputs are consumed by the (always listening) observer
Live(st) == ~st.crashed
Idle == Live(s) /\ s.run.pc = "idle"

(* ---- the clients *)
Connected(c) == s.c[c].st \in {"pending", "accepted", "live", "foreign"}
ClientConnect(c) == /\ Live(s) /\ s.c[c].st = "new"
                    /\ \E b \in Binds : s.b[b].lfd = "open" /\ s' = [s EXCEPT !.c[c].st = "pending", !.c[c].b = b]
                    /\ UNCHANGED bud
ClientSend(c) == /\ Live(s) /\ Connected(c) /\ ~s.c[c].pshut /\ ~s.c[c].prst
                 /\ \E n \in 1..(Total(s.c[c].script, 1) - s.c[c].sent) :
                       s' = [s EXCEPT !.c[c].sent = @ + n, !.c[c].avail = @ + n]
                 /\ UNCHANGED bud
ClientShut(c) == /\ Live(s) /\ Connected(c) /\ ~s.c[c].pshut /\ ~s.c[c].prst /\ s' = [s EXCEPT !.c[c].pshut = TRUE] /\ UNCHANGED bud
ClientRst(c) == /\ Live(s) /\ Connected(c) /\ ~s.c[c].prst /\ "rst" \in SrvOps /\ s' = [s EXCEPT !.c[c].prst = TRUE] /\ UNCHANGED bud

(* ---- the pool thread takes an event *)
Readable(c) == s.c[c].avail > 0 \/ s.c[c].pshut \/ s.c[c].prst
PollL(b) == /\ Idle /\ EvLOk(s, b) /\ (\E c \in Conns : s.c[c].st = "pending" /\ s.c[c].b = b)
            /\ s' = Clr(EvL(s, b)) /\ UNCHANGED bud
PollR(c) == /\ Idle /\ EvOk(s, c, "R") /\ Readable(c)
            /\ s' = Clr(Ev(s, c, "R", s.c[c].pshut \/ s.c[c].prst, s.c[c].prst)) /\ UNCHANGED bud
PollW(c) == /\ Idle /\ EvOk(s, c, "W") /\ s' = Clr(Ev(s, c, "W", s.c[c].prst, s.c[c].prst)) /\ UNCHANGED bud
PollT(c) == /\ Idle /\ EvOk(s, c, "T") /\ s' = Clr(Ev(s, c, "T", FALSE, FALSE)) /\ UNCHANGED bud

(* ---- one system call / user callback inside the handler run *)
StepAccept == /\ Live(s) /\ s.run.pc = "accept"
              /\ LET P == {c \in Conns : s.c[c].st = "pending" /\ s.c[c].b = s.run.b} IN
                 IF P = {} THEN s' = Clr(Acc(s, 0, "EAGAIN"))
                 ELSE \E c \in P : s' = Clr(Acc([s EXCEPT !.c[c].st = "new"], c, "0"))
              /\ UNCHANGED bud
StepConnCb == /\ Live(s) /\ s.run.pc = "conncb" /\ \E rc \in ConnRcs : s' = Clr(ConnCb(s, rc)) /\ UNCHANGED bud
StepRecv ==
  /\ Live(s) /\ s.run.pc = "recv"
  /\ LET c == s.run.c  cr == s.c[c]  want == RecvWant(s)  m == Min(want, cr.avail) IN
     IF cr.prst THEN s' = Clr(Recv(s, -1, "ECONNRESET"))
     ELSE IF cr.avail > 0
          THEN \E n \in (IF ShortReads THEN 1..m ELSE {m}) : s' = Clr(Recv([s EXCEPT !.c[c].avail = @ - n], n, "0"))
     ELSE IF cr.pshut THEN s' = Clr(Recv(s, 0, "0"))
     ELSE s' = Clr(Recv(s, -1, "EAGAIN"))
  /\ UNCHANGED bud
StepReqCb == /\ Live(s) /\ s.run.pc = "reqcb"
             /\ \E rc \in ReqRcs : \E cl \in (IF UserClose /\ rc = "C" THEN BOOLEAN ELSE {FALSE}) : s' = Clr(ReqCb(s, rc, 200, cl, 1))
             /\ UNCHANGED bud
StepSendMsg ==
  /\ Live(s) /\ s.run.pc = "sendmsg"
  /\ \/ s' = Clr(SendMsg(s, RespLen, RespLen, "0")) /\ UNCHANGED bud
     \/ bud.part > 0 /\ (\E n \in {0, 1} : s' = Clr(SendMsg(s, RespLen, n, "0"))) /\ bud' = [bud EXCEPT !.part = @ - 1]
     \/ bud.again > 0 /\ s' = Clr(SendMsg(s, RespLen, -1, "EAGAIN")) /\ bud' = [bud EXCEPT !.again = @ - 1]
     \/ bud.err > 0 /\ s' = Clr(SendMsg(s, RespLen, -1, "EPIPE")) /\ bud' = [bud EXCEPT !.err = @ - 1]
     \/ ErrPageMayFail(s) /\ s' = Clr(SndNoSpace(s)) /\ UNCHANGED bud
StepSend ==
  /\ Live(s) /\ s.run.pc = "send"
  /\ \/ s' = Clr(Send(s, SendWant(s), "0")) /\ UNCHANGED bud
     \/ bud.part > 0 /\ SendWant(s) > 1 /\ s' = Clr(Send(s, 1, "0")) /\ bud' = [bud EXCEPT !.part = @ - 1]
     \/ bud.again > 0 /\ s' = Clr(Send(s, -1, "EAGAIN")) /\ bud' = [bud EXCEPT !.again = @ - 1]
     \/ bud.err > 0 /\ s' = Clr(Send(s, -1, "EPIPE")) /\ bud' = [bud EXCEPT !.err = @ - 1]
StepSndCb == /\ Live(s) /\ s.run.pc = "sndcb" /\ \E rc \in SndRcs : s' = Clr(SndCb(s, rc)) /\ UNCHANGED bud

(* ---- the user, between handler runs *)
UserResume(c) == /\ Live(s) /\ ResumeOk(s, c) /\ \E cl \in (IF UserClose THEN BOOLEAN ELSE {FALSE}) : s' = Clr(Resume(s, c, 200, cl, 1)) /\ UNCHANGED bud
UserResumeNext(c) == /\ Live(s) /\ ResumeNextOk(s, c) /\ s' = Clr(ApiResumeNext(s, c)) /\ UNCHANGED bud
UserCliFree(c) == /\ Live(s) /\ CliFreeOk(s, c) /\ "cli_free" \in bud.ops /\ s.c[c].wait # "none"
                  /\ s' = Clr(CliFree(s, c)) /\ UNCHANGED bud
UserShutdown == /\ Live(s) /\ SrvShutdownOk(s) /\ "shutdown" \in bud.ops
                /\ s' = Clr(SrvShutdown(s)) /\ bud' = [bud EXCEPT !.ops = @ \ {"shutdown"}]
UserBindRemove(b) == /\ Live(s) /\ BindShutdownOk(s, b) /\ "bind_remove" \in bud.ops
                     /\ s' = Clr(BindRemove(s, b)) /\ bud' = [bud EXCEPT !.ops = @ \ {"bind_remove"}]
UserDestroy == /\ Live(s) /\ SrvShutdownOk(s) /\ "destroy" \in bud.ops
               /\ s' = Clr(SrvDestroy(s)) /\ bud' = [bud EXCEPT !.ops = @ \ {"destroy"}]

ServerStep == \/ StepAccept \/ StepConnCb \/ StepRecv \/ StepReqCb \/ StepSendMsg \/ StepSend \/ StepSndCb
              \/ \E b \in Binds : PollL(b)
              \/ \E c \in Conns : PollR(c) \/ PollW(c)
Next == \/ ServerStep
        \/ \E c \in Conns : ClientConnect(c) \/ ClientSend(c) \/ ClientShut(c) \/ ClientRst(c) \/ PollT(c)
        \/ \E c \in Conns : UserResume(c) \/ UserResumeNext(c) \/ UserCliFree(c)
        \/ UserShutdown \/ UserDestroy \/ \E b \in Binds : UserBindRemove(b)
Spec == Init /\ [][Next]_vars
LiveSpec == Spec /\ WF_vars(ServerStep) /\ \A c \in Conns : WF_vars(PollT(c)) /\ WF_vars(UserResume(c)) /\ WF_vars(UserResumeNext(c))

(* ---- properties *)
Inv == /\ InvDestroyOnce(s) /\ InvRequestOnce(s) /\ InvResponses(s) /\ InvLimits(s) /\ InvNoOrphan(s) /\ InvNoStall(s) /\ InvServer(s)
       /\ NoViol(s)
(* P9: every client object is eventually destroyed (timers armed: RcvTmo = SndTmo = TRUE) *)
Terminates == \A c \in Conns : (s.c[c].st = "live") ~> (s.c[c].st # "live")
(* the small world stays small *)
TypeOK == /\ s.run.pc \in {"idle", "accept", "conncb", "recv", "reqcb", "sendmsg", "send", "sndcb"}
          /\ \A c \in Conns : s.c[c].io \in {"-", "R", "W"} /\ s.c[c].wait \in {"none", "resp", "next"}
=============================================================================
