SPECIFICATION Spec
INVARIANTS Conforms
CHECK_DEADLOCK FALSE
