SPECIFICATION Spec
CONSTANTS N = 3
 Callers = {c1, c2}
 CallsEach = 2
 Variant = "asis"
INVARIANTS InRange IdxBounded
CHECK_DEADLOCK FALSE
