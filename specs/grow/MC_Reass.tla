------------------------------ MODULE MC_Reass ------------------------------
(* Model of reass_helper.h: every history of at most MaxFrags calls of reass_hlp_handle_frag over the fragment
   alphabet below, on a buffer of BufSz octets with a bitmap of BmSz octets (-1: no bitmap).  Fix = the repaired
   deviations (AllFix: the repaired design, on which R1..R7 hold; AllFix minus one name: the negative controls, each
   of which must violate the property named in ReassHelper). *)
EXTENDS ReassHelper, TLC
CONSTANTS BufSz, BmSzP1, MaxFrags, Fix, SeqNeg, SeqHi, MaxSize
BmSz == BmSzP1 - 1   \* cfg files cannot hold negative numbers: BmSzP1 = 0 is "no bitmap"
VARIABLES S, bad, n, stop

Frags == [seq : (0 - SeqNeg)..SeqHi, first : BOOLEAN, last : BOOLEAN, size : 0..MaxSize, tag : 1..2]
Init == S = InitState(BufSz, BmSz) /\ bad = {} /\ n = 0 /\ stop = FALSE
Next == /\ n < MaxFrags /\ ~stop
        /\ \E f \in Frags :
             LET r == HandleFrag(Fix, S, f) IN
             /\ S' = r.s /\ bad' = StepBad(S, f, r) /\ n' = n + 1 /\ stop' = (r.crash \/ r.oob)
Spec == Init /\ [][Next]_<<S, bad, n, stop>>

NoBad == bad = {}
NoR1 == "R1-completion-sound" \notin bad
NoR2 == "R2-completion-announced" \notin bad
NoR3 == "R3-memory-safety" \notin bad
NoR4 == "R4-counters" \notin bad
NoR5 == "R5-refusal-clean" \notin bad
NoR6 == "R6-placement" \notin bad
NoR7 == "R7-bitmap-contract" \notin bad
(* vacuity witnesses: these must be VIOLATED (a complete message / an EBADMSG are reachable) *)
NeverComplete == ~(S.seqsz # 0 /\ S.cnt >= 3 /\ S.recv = S.seqsz /\ AllIn(S))
FixAll == AllFix
FixNoWrap == AllFix \ {"wrap"}
FixNoDiv0 == AllFix \ {"div0"}
FixNoSum == AllFix \ {"sumovf"}
FixNoBm == AllFix \ {"bmunits"}
FixNoHole == AllFix \ {"hole"}
FixNone == {}
=============================================================================
