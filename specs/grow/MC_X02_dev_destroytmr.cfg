SPECIFICATION Spec
CONSTANTS
  NIds = 2
  Ident = FALSE
  Dev = {"destroy-leaves-timers-of-pending-queries"}
  JitClasses = {"zero"}
  Plan = "one"
  Kinds = {"good", "badauth", "wrongid", "wrongsrc", "reqcode"}
  MaxFlips = 1
  MaxReplies = 3
  AllowCancel = TRUE
  AllowDestroy = TRUE
  PortReuse = TRUE
INVARIANTS IDestroyed
CHECK_DEADLOCK FALSE
