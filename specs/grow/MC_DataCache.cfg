SPECIFICATION Spec
CONSTANTS
  NB = 2
  NK = 3
  MaxItems = 2
  Ivs = {0, 1}
  MaxNow = 2
  MaxRc = 1
  Emit = FALSE
INVARIANTS Inv PostOK
CHECK_DEADLOCK TRUE
