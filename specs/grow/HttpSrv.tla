------------------------------- MODULE HttpSrv -------------------------------
(***************************************************************************************************************
 X05 (growth) - the HTTP server of liblcb: src/proto/http_server.c + include/proto/http_server.h on top of the
 I/O tasks of the thread pool (src/threadpool/threadpool_task.c).  The life of one accepted client connection
 and of the server object.

 PROPERTIES (what a user of the server relies on - for every split of the request bytes into reads, every
 short write / EAGAIN / send error, peer half-close / close / reset, I/O timeout, every return code of the user
 callbacks, deferred replies, and every order of these on the server's thread):

  P1 destroy-once      every accepted connection that became a client object is destroyed exactly once: on_destroy
                       fires exactly once, its descriptor is closed exactly once, no callback and no I/O for it
                       afterwards (InvDestroyOnce; in the binding every callback / syscall line of a dead client
                       is rejected).
  P2 request-once      on_req_rcv is called at most once per request, only when header AND body (Content-Length)
                       are completely in the buffer, with the bytes of exactly that request, and never for a
                       malformed / insecure / oversized one (viol "incomplete-request-delivered"; hdrok / bodyok
                       flags in the binding).
  P3 response-order    responses leave in request order; a delivered request gets at most one response; a
                       generated response is a well-formed HTTP message (viol "malformed-response").
  P4 no-loss           the bytes of a pipelined request are neither lost nor duplicated nor left unprocessed: a
                       client that is idle on the server's side never has a complete request sitting in its
                       receive buffer (viol "request-stalled") and is never left without any I/O registration
                       while nobody owes it a resume call (viol "client-orphaned"); a request that fits the limits
                       is not refused (viol "request-within-limits-refused").
  P5 limits            the receive buffer never grows beyond max(rcv_io_buf_init_size, rcv_io_buf_max_size); a body
                       above the limit gets 413, POST without length 411, bad / insecure request 400, nobody
                       listening 404 - each followed by close (InvLimits + binding).
  P6 keep-alive        the connection is closed after a response iff the response carries "Connection: close":
                       forced by the server settings, the user, the peer's half-close, "Connection: close" or
                       HTTP/1.0 without keep-alive (when the server is told to look), or an error status.
  P7 server-lifecycle  http_srv_shutdown stops accepting (viol "accept-after-shutdown"); http_srv_destroy removes
                       every bind and closes every listening descriptor (viol "bind-leaked"); destroying the server
                       or a bind with clients alive touches no freed memory (crashed = memory error: undefined
                       behaviour in the model, sanitizer report in the binding); nothing is leaked (ledger).
  P8 memory-safety     no step touches freed or foreign memory (crashed).
  P9 termination       with fair timers, fair I/O and a user that eventually resumes what it deferred, every
                       client is eventually destroyed (Terminates, MC_HttpSrv).

 The model is shaped like the implementation: one operator per function / label of http_server.c (RD =
 http_srv_recv_done_cb with its labels NoHdr / ContRecv / HdrFound / ReqReceived / StopAndDrop, Snd + SendMsg =
 http_srv_snd, SndResult = the tail of http_srv_send_responce, NextReq = http_srv_cli_next_req, SndDone =
 http_srv_snd_done_cb, ResumeNext / Resume = http_srv_resume_next_request / http_srv_resume_responce, Free =
 http_srv_cli_free, Alloc = http_srv_cli_alloc + the tail of http_srv_new_conn_cb, the bind / server calls) and one
 step per system call or user callback inside a handler run (run.pc: accept, conncb, recv, reqcb, sendmsg, send,
 sndcb), which is where the environment answers.  The whole state is ONE record s; every operator maps s to s.
 Pure outputs of a step (on_destroy, close, return of an API call) are appended to s.pend in order.

 Where the shipped code does not have a property the model has a SWITCH: s.fx is the set of repairs applied (names
 in AllFix; each is a patch /verif/proposed_fixes/X05-*.diff).  fx = AllFix is the specification proper, on which
 TLC proves the properties; fx = AllFix \ {f} shows the violated property; fx = {} is the shipped code, which the
 binding (Trace_HttpSrv) follows line by line.
 ***************************************************************************************************************)
EXTENDS Integers, Sequences, FiniteSets, TLC

CONSTANTS Conns, Binds          \* connection / bind identities (small positive integers)

AllFix == {"reallocptrs",   \* the request pointers follow the receive buffer when it is reallocated
           "realloctr",     \* io_buf_realloc does not cut the wanted transfer size down to the used size
           "pipebody",      \* a pipelined request whose body is incomplete re-registers the (stopped) task
           "pipeasync",     \* after an asynchronous send the request that is already buffered is processed
           "resumetr",      \* http_srv_resume_responce keeps the transfer size / flags set by the receive callback
           "hdrgrow",       \* a header that fills the initial buffer makes the buffer grow (up to the limit)
           "halfclose",     \* the peer's FIN is not taken for "no more data" while data is still unread
           "eofbody",       \* end of stream inside an announced body is an error, not a complete request
           "errpage",       \* generated error pages: Content-Length of the page, blank line after the headers
           "sndagain",      \* EAGAIN of the first sendmsg() schedules the write instead of dropping the client
           "shutdown",      \* http_srv_shutdown closes the listening sockets (the test is inverted)
           "destroyall",    \* http_srv_destroy removes every bind (the loop skips every second one)
           "destroylive"}   \* a bind / server destroyed with clients alive stays valid for them

Min(a, b) == IF a < b THEN a ELSE b
Has(s, f) == f \in s.fx
Viol(s, v) == [s EXCEPT !.viol = @ \cup {v}]
Crash(s, why) == [s EXCEPT !.crashed = TRUE, !.viol = @ \cup {"crash:" \o why}]
Out(s, o) == [s EXCEPT !.pend = Append(@, o)]

NoResp == [status |-> 0, close |-> FALSE, gen |-> FALSE, k |-> 0, blen |-> 0]
NoConn == [st |-> "new", b |-> 0, script |-> << >>, avail |-> 0, sent |-> 0, pshut |-> FALSE, prst |-> FALSE, fd |-> "none",
           rb |-> [size |-> 0, used |-> 0, off |-> 0, tr |-> 0], ri |-> 1, hasReq |-> FALSE, dsize |-> 0, cclose |-> FALSE,
           dangling |-> FALSE, bufstale |-> FALSE, every |-> FALSE, half |-> FALSE, io |-> "-", tmr |-> FALSE, tev |-> "R", sep |-> FALSE,
           resp |-> NoResp, sbuf |-> 0, left |-> 0, leftalt |-> 0, cur |-> << >>, wait |-> "none",
           ndst |-> 0, deliv |-> << >>, resps |-> << >>, refused |-> FALSE]
NoBind == [st |-> "none", lfd |-> "none", reg |-> FALSE]
IdleRun == [pc |-> "idle", c |-> 0, b |-> 0, mode |-> "pool", ctx |-> "rdcb", after |-> "idle", ab |-> 0, api |-> "",
            n |-> 0, eofs |-> FALSE, perr |-> FALSE, second |-> FALSE]

InitS(fx, cfg) ==
  [fx |-> fx, cfg |-> cfg, srv |-> [alive |-> TRUE, shut |-> FALSE, order |-> << >>],
   b |-> [i \in Binds |-> NoBind], c |-> [i \in Conns |-> NoConn], run |-> IdleRun, pend |-> << >>,
   viol |-> {}, crashed |-> FALSE, stat |-> [conns |-> 0, reqs |-> 0, tmo |-> 0]]

(* ------------------------------------------------------------------------------------------------ helpers *)
BndFreed(s, b) == b # 0 /\ s.b[b].st = "freed" /\ ~Has(s, "destroylive")
Rq(cr) == cr.script[cr.ri]
HdrIn(cr) == cr.ri <= Len(cr.script) /\ Rq(cr).kind # "NOHDR" /\ cr.rb.used >= Rq(cr).hl
\* a whole request (header and announced body) is in the buffer
ReqIn(cr) == HdrIn(cr) /\ (Rq(cr).kind \in {"POST", "UNKCL"} => cr.rb.used >= Rq(cr).hl + Rq(cr).cl)
TmoOn(s, c) == IF s.c[c].tev = "R" THEN s.cfg.rcvtmo ELSE s.cfg.sndtmo
Stop(s, c) == [s EXCEPT !.c[c].io = "-", !.c[c].tmr = FALSE]                                   \* tp_task_stop
Restart(s, c) == [s EXCEPT !.c[c].io = s.c[c].tev, !.c[c].tmr = TmoOn(s, c)]                  \* tp_task_restart
StatErr(s, err) == IF err = "ETIMEDOUT" THEN [s EXCEPT !.stat.tmo = @ + 1] ELSE s

(* the handler run is over: back to whoever started it *)
End(s) ==
  CASE s.run.after = "idle" -> [s EXCEPT !.run = IdleRun]
    [] s.run.after = "accept" -> [s EXCEPT !.run = [IdleRun EXCEPT !.pc = "accept", !.b = s.run.ab]]
    [] s.run.after = "api" -> Out([s EXCEPT !.run = IdleRun], [e |-> "api.ret", f |-> s.run.api, c |-> s.run.c])

(* http_srv_resume_responce after http_srv_recv_done_cb returned TP_TASK_CB_CONTINUE *)
ResumeClobber(s, c) ==
  IF Has(s, "resumetr") THEN s
  ELSE [s EXCEPT !.c[c].rb.off = s.c[c].rb.used, !.c[c].rb.tr = s.c[c].rb.size - s.c[c].rb.used, !.c[c].every = TRUE]

(* the receive / send callback returns `ret` to the I/O task layer *)
Ret(s, ret) ==
  LET r == s.run  c == r.c IN
  IF s.crashed THEN s
  ELSE IF ret # "CONTINUE" THEN End(s)
  \* the callback had stopped the task itself (second request of a pipeline): the repaired code re-registers it and returns NONE
  ELSE IF r.second /\ Has(s, "pipebody") THEN End(Restart(s, c))
  ELSE CASE r.mode = "pool" ->
              \* tp_task_handler_post_int: the timer is enabled again; the persistent registration is taken to be
              \* still there - it is not when the callback had stopped the task
              End([s EXCEPT !.c[c].tmr = TmoOn(s, c)])
         [] r.mode = "direct" -> End(Restart(s, c))                   \* tail of tp_task_start_ex
         [] r.mode = "resume" -> End(Restart(ResumeClobber(s, c), c))
         [] r.mode = "prearmed" -> End(s)                             \* (repaired http_srv_resume_next_request: scheduled before the call)

(* http_srv_cli_free *)
Free(s, c) ==
  LET cr == s.c[c]
      s00 == IF BndFreed(s, cr.b) THEN Crash(s, "client-of-freed-bind") ELSE s          \* cli->bnd->srv->stat
      s0 == IF cr.bufstale THEN Crash(s00, "stale-alias-of-reallocated-buffer-freed") ELSE s00   \* io_buf_free(cli->buf) != rcv_buf
      s1 == [s0 EXCEPT !.stat.conns = @ - 1]
      s2 == IF s.cfg.dstcb THEN Out([s1 EXCEPT !.c[c].ndst = @ + 1], [e |-> "dst", c |-> c]) ELSE s1
  IN Out([s2 EXCEPT !.c[c].st = "dead", !.c[c].io = "-", !.c[c].tmr = FALSE, !.c[c].fd = "closed", !.c[c].wait = "none"],
         [e |-> "cls", c |-> c])

(* http_srv_cli_next_req: drop the answered request from the head of the receive buffer *)
NextReq(s, c) ==
  LET cr == s.c[c]  consumed == Rq(cr).hl + cr.dsize IN
  IF ~cr.hasReq THEN [s EXCEPT !.c[c].rb.used = 0, !.c[c].rb.off = 0, !.c[c].resp = NoResp]
  ELSE IF consumed > cr.rb.used THEN Crash(s, "next-req-memmove-size-wraps")
  ELSE [s EXCEPT !.c[c].rb.used = cr.rb.used - consumed, !.c[c].rb.off = cr.rb.used - consumed, !.c[c].ri = @ + 1,
                 !.c[c].hasReq = FALSE, !.c[c].dangling = FALSE, !.c[c].dsize = 0, !.c[c].cclose = FALSE, !.c[c].resp = NoResp]

(* the Connection header of a response: http_srv_snd *)
RespHdr(s, c) ==
  LET cr == s.c[c]  ver == IF cr.ri <= Len(cr.script) /\ Rq(cr).kind # "BADLINE" THEN Rq(cr).ver ELSE 0 IN
  IF cr.resp.close \/ cr.half THEN "close" ELSE IF ver = 11 /\ s.cfg.rcvtmo THEN "ka" ELSE "none"
IsErrPage(r) == r.gen /\ r.status >= 400 /\ r.status < 600
RespRec(s, c) == [status |-> s.c[c].resp.status, hdr |-> RespHdr(s, c), k |-> s.c[c].resp.k,
                  wf |-> IF IsErrPage(s.c[c].resp) THEN Has(s, "errpage") ELSE TRUE]

(* http_srv_snd up to its sendmsg(): the environment answers in SendMsg *)
Snd(s, c) ==
  LET s1 == [s EXCEPT !.c[c].resp.close = @ \/ s.c[c].half, !.run.pc = "sendmsg"]
      r == RespRec(s1, c)
  IN IF BndFreed(s, s.c[c].b) THEN Crash(s, "client-of-freed-bind")
     ELSE IF s.c[c].bufstale THEN Crash(s, "stale-alias-of-reallocated-buffer-used")           \* cli->buf
     ELSE [IF r.wf THEN s1 ELSE Viol(s1, "malformed-response") EXCEPT !.c[c].cur = <<r>>]

(* continue_recv: *)
ContRecv(s, c) ==
  LET cr == s.c[c]  rb == cr.rb  free == rb.size - rb.used  tm == rb.tr + rb.used IN
  IF free # 0 /\ rb.tr <= free THEN Ret(s, "CONTINUE")
  ELSE IF tm > s.cfg.max THEN Ret(Free(s, c), "NONE")                                    \* "Request too big": dropped
  ELSE LET nb == [size |-> tm, used |-> Min(rb.used, tm), off |-> Min(rb.off, tm),
                  tr |-> IF Has(s, "realloctr") THEN rb.tr ELSE Min(rb.tr, Min(rb.used, tm))]     \* io_buf_realloc
           \* the block moves: cli->req.* and (as long as no send buffer was allocated) cli->buf still point to the old one
       IN Ret([s EXCEPT !.c[c].rb = nb, !.c[c].dangling = cr.hasReq /\ ~Has(s, "reallocptrs"),
                        !.c[c].bufstale = @ \/ (~cr.sep /\ ~Has(s, "reallocptrs"))], "CONTINUE")

(* stop_and_drop_with_http_err: *)
StopAndDrop(s, c, status) ==
  Snd([Stop(s, c) EXCEPT !.c[c].resp = [NoResp EXCEPT !.status = status, !.close = TRUE, !.gen = TRUE]], c)

(* req_received: *)
ReqReceived(s, c) ==
  LET cr == s.c[c]  rq == Rq(cr)
      cclose == s.cfg.reqconn /\ (rq.conn = "close" \/ (rq.conn = "none" /\ rq.ver < 11))
      s1 == [Stop(s, c) EXCEPT !.stat.reqs = @ + 1, !.c[c].cclose = cclose]
  IN IF cr.dangling /\ (s.cfg.reqconn \/ s.cfg.reqcb) THEN Crash(s, "request-pointers-into-reallocated-buffer")
     ELSE IF cr.bufstale /\ s.cfg.reqcb THEN Crash(s, "stale-alias-of-reallocated-buffer-used")     \* IO_BUF_BUSY_SIZE_SET(cli->buf)
     ELSE IF s.cfg.reqcb
     THEN LET s2 == [s1 EXCEPT !.c[c].sep = TRUE, !.c[c].sbuf = 0, !.c[c].resp.close = @ \/ cr.half \/ cclose, !.c[c].resp.k = cr.ri,
                               !.c[c].deliv = Append(@, cr.ri), !.run.pc = "reqcb"]
          IN IF cr.dsize > cr.rb.used - rq.hl THEN Viol(s2, "incomplete-request-delivered") ELSE s2
     ELSE Snd([s1 EXCEPT !.c[c].resp = [NoResp EXCEPT !.status = 404, !.close = TRUE, !.gen = TRUE]], c)

(* http_hdr_found: the end of the headers of request ri is in the buffer *)
HdrFound(s, c, action, fake) ==
  LET cr == s.c[c]  rq == Rq(cr)
      s1 == [s EXCEPT !.c[c].hasReq = TRUE, !.c[c].dsize = 0, !.c[c].cclose = FALSE,
                      !.c[c].resp = [NoResp EXCEPT !.close = s.cfg.respclose]]
  IN CASE rq.kind \in {"BADLINE", "INSEC"} -> StopAndDrop(s1, c, 400)
       [] rq.kind \in {"GET", "UNK"} -> ReqReceived(s1, c)
       [] rq.kind = "POSTNOCL" -> StopAndDrop(s1, c, 411)
       [] OTHER ->                                                             \* handle_content_length:
            LET have == cr.rb.used - rq.hl
                s2 == [s1 EXCEPT !.c[c].dsize = rq.cl] IN
            IF rq.cl <= have THEN ReqReceived(s2, c)
            ELSE IF rq.cl > s.cfg.max THEN StopAndDrop(s2, c, 413)
            ELSE IF action \notin {"CONTINUE", "NONE"} \/ (cr.half /\ ~Has(s, "halfclose"))
                 THEN StopAndDrop(IF (fake \/ action \in {"CONTINUE", "NONE"}) /\ rq.bl >= rq.cl THEN Viol(s2, "request-within-limits-refused") ELSE s2, c, 400)
            ELSE ContRecv([s2 EXCEPT !.c[c].every = FALSE, !.c[c].rb.tr = rq.cl - have], c)

(* http_srv_recv_done_cb(error, eof, transfered_size); es = TP_TASK_IOF_F_SYS (the poller saw the FIN),
   eb = TP_TASK_IOF_F_BUF (recv returned 0) *)
RD(s, c, err, es, eb, n) ==
  LET cr == s.c[c]
      eofAny == IF Has(s, "halfclose") THEN eb ELSE (es \/ eb)
      action == IF cr.rb.tr = 0 THEN "NONE" ELSE IF eofAny THEN "EOF" ELSE IF n = 0 THEN "ERROR" ELSE "CONTINUE"   \* tp_task_cb_check
  IN IF BndFreed(s, cr.b) THEN Crash(s, "client-of-freed-bind")
     ELSE IF err # "0" \/ action = "ERROR" THEN Ret(Free(StatErr(s, err), c), "NONE")
     ELSE LET s1 == IF es THEN [s EXCEPT !.c[c].half = TRUE] ELSE s IN
          IF cr.hasReq
          THEN IF action = "CONTINUE" /\ cr.rb.tr # 0 THEN ContRecv(s1, c)
               ELSE IF Has(s, "eofbody") /\ cr.rb.tr # 0                       \* "Have HTTP headers and (all data / EOF)"
                    THEN StopAndDrop([s1 EXCEPT !.c[c].every = TRUE, !.c[c].resp = [NoResp EXCEPT !.close = s.cfg.respclose]], c, 400)
               ELSE ReqReceived([s1 EXCEPT !.c[c].every = TRUE], c)
          ELSE IF HdrIn(cr) THEN HdrFound(s1, c, action, action = "EOF" /\ ~eb)
          ELSE \* no end of headers yet
               LET grow == Has(s, "hdrgrow") /\ action = "NONE" /\ ~eb /\ cr.rb.size < s.cfg.max IN
               IF action = "CONTINUE" \/ grow
               THEN LET free == cr.rb.size - cr.rb.used
                        tr1 == IF free = 0 THEN Min(s.cfg.init, s.cfg.max - cr.rb.size) ELSE free
                    IN ContRecv([s1 EXCEPT !.c[c].rb.off = cr.rb.used, !.c[c].rb.tr = tr1], c)
               ELSE LET fits == action = "NONE" /\ ~eb /\ cr.rb.size < s.cfg.max /\ cr.ri <= Len(cr.script) /\ Rq(cr).kind # "NOHDR"
                                /\ Rq(cr).hl <= s.cfg.max
                        pend == action = "EOF" /\ ~eb /\ cr.ri <= Len(cr.script) /\ Rq(cr).kind # "NOHDR"
                    IN Ret(Free(IF fits \/ pend THEN Viol(s1, "request-within-limits-refused") ELSE s1, c), "NONE")   \* drop_cli_without_hdr

(* the rest of http_srv_send_responce once http_srv_snd returned (failed = it returned an error) *)
SndResult(s, c, failed) ==
  LET cr == s.c[c] IN
  IF cr.half \/ cr.cclose \/ cr.resp.close \/ failed THEN Ret(Free(s, c), "NONE")
  ELSE LET s1 == NextReq(s, c) IN
       IF s1.crashed THEN s1
       ELSE IF HdrIn(s1.c[c])                       \* TP_TASK_CB_CONTINUE: the next request's headers are already here
       THEN IF s.run.ctx = "rdcb" THEN HdrFound([s1 EXCEPT !.run.second = TRUE], c, "CONTINUE", FALSE)
            ELSE RD([s1 EXCEPT !.run.ctx = "rdcb", !.run.mode = "resume"], c, "0", FALSE, FALSE, s1.c[c].rb.used)
       ELSE Ret(Restart([s1 EXCEPT !.c[c].rb.off = s1.c[c].rb.used, !.c[c].rb.tr = s1.c[c].rb.size - s1.c[c].rb.used,
                                   !.c[c].every = TRUE], c), "NONE")

(* http_srv_resume_next_request *)
ResumeNext(s, c) ==
  LET s1 == NextReq(s, c) IN
  IF s1.crashed THEN s1
  ELSE IF BndFreed(s, s.c[c].b) THEN Crash(s, "client-of-freed-bind")
  ELSE IF Has(s, "pipeasync") /\ HdrIn(s1.c[c])           \* repaired: schedule the read, then look at what is already buffered
  THEN LET used == s1.c[c].rb.used
           s2 == [s1 EXCEPT !.c[c].rb.off = used, !.c[c].rb.tr = s1.c[c].rb.size - used, !.c[c].every = TRUE, !.c[c].tev = "R"]
       IN RD([Restart(s2, c) EXCEPT !.run.ctx = "rdcb", !.run.mode = "prearmed"], c, "0", FALSE, FALSE, used)
  ELSE LET used == s1.c[c].rb.used
           s2 == [s1 EXCEPT !.c[c].rb.off = used, !.c[c].rb.tr = s1.c[c].rb.size - used, !.c[c].every = TRUE, !.c[c].tev = "R"]
       IN IF used # 0 /\ s2.c[c].rb.tr # 0
          THEN [s2 EXCEPT !.run.pc = "recv", !.run.mode = "direct", !.run.ctx = "rdcb", !.run.n = 0, !.run.eofs = FALSE, !.run.perr = FALSE]
          ELSE Ret(Restart(s2, c), "NONE")

(* http_srv_snd_done_cb after the user's on_rep_snd answered rc *)
SndDone2(s, c, rc) ==
  LET cr == s.c[c]  act == IF cr.half \/ cr.cclose \/ cr.resp.close THEN "D" ELSE rc IN
  CASE act = "D" -> Ret(Free(s, c), "NONE")
    [] act = "N" -> Ret([Stop(s, c) EXCEPT !.c[c].wait = "next"], "NONE")
    [] OTHER -> ResumeNext(Stop(s, c), c)
SndDone(s, c, err, es) ==
  IF BndFreed(s, s.c[c].b) THEN Crash(s, "client-of-freed-bind")
  ELSE IF err # "0" THEN Ret(Free(StatErr(s, err), c), "NONE")
  ELSE LET s1 == IF es THEN [s EXCEPT !.c[c].half = TRUE] ELSE s IN
       IF s.cfg.sndcb THEN [s1 EXCEPT !.run.pc = "sndcb"] ELSE SndDone2(s1, c, "C")

(* ------------------------------------------------------------------------------------------------ steps
   Each step below is one line of the binding's log; the *Ok predicates say when the line can come. *)

(* the pool thread calls the handler of the client's registration: k = "R" | "W" | "T" *)
EvOk(s, c, k) == /\ s.run.pc = "idle" /\ s.pend = << >> /\ c \in Conns /\ s.c[c].st = "live"
                 /\ (IF k = "T" THEN s.c[c].tmr ELSE s.c[c].io = k)
Ev(s, c, k, eof, err) ==
  LET cr == s.c[c]
      r0 == [IdleRun EXCEPT !.c = c, !.eofs = eof, !.perr = err] IN
  CASE k = "T" -> LET s1 == [s EXCEPT !.run = r0, !.c[c].io = "-"] IN                       \* pre_int: the I/O event is disabled
                  IF cr.tev = "R" THEN RD(s1, c, "ETIMEDOUT", FALSE, FALSE, 0) ELSE SndDone(s1, c, "ETIMEDOUT", FALSE)
    [] k = "R" -> LET s1 == [s EXCEPT !.run = r0, !.c[c].tmr = FALSE] IN
                  IF cr.rb.tr = 0 THEN RD(s1, c, IF err THEN "EIO" ELSE "0", eof, FALSE, 0)
                  ELSE [s1 EXCEPT !.run.pc = "recv"]
    [] k = "W" -> [s EXCEPT !.run = [r0 EXCEPT !.pc = "send"], !.c[c].tmr = FALSE]

(* recv() on the client's socket answered: ret > 0 bytes, 0 = end of stream, -1 with err *)
RecvWant(s) == s.c[s.run.c].rb.tr
Recv(s, ret, err) ==
  LET c == s.run.c  cr == s.c[c]  rb == cr.rb IN
  IF ret > 0
  THEN LET nb == [rb EXCEPT !.used = Min(rb.size, @ + ret), !.off = Min(rb.size, @ + ret), !.tr = IF @ > ret THEN @ - ret ELSE 0]
           s1 == [s EXCEPT !.c[c].rb = nb, !.run.n = @ + ret]
       IN IF nb.tr = 0 \/ cr.every THEN RD(s1, c, IF s.run.perr THEN "EIO" ELSE "0", s.run.eofs, FALSE, s1.run.n) ELSE s1
  ELSE IF ret = 0 THEN RD(s, c, IF s.run.perr THEN "EIO" ELSE "0", s.run.eofs, TRUE, s.run.n)
  ELSE IF err \in {"EAGAIN", "EINTR"} THEN Ret(s, "CONTINUE")
  ELSE RD(s, c, err, s.run.eofs, FALSE, s.run.n)

(* on_req_rcv answered: rc = "C" (with what it put into the response) | "D" | "N" *)
ReqCb(s, rc, status, rclose, blen) ==
  LET c == s.run.c IN
  CASE rc = "D" -> Ret(Free(s, c), "NONE")
    [] rc = "N" -> Ret([s EXCEPT !.c[c].wait = "resp"], "NONE")
    [] OTHER -> Snd([s EXCEPT !.c[c].resp.status = status, !.c[c].resp.close = @ \/ rclose, !.c[c].resp.blen = blen, !.c[c].sbuf = blen], c)

(* a generated error page is printed behind whatever the send buffer still holds from the previous response (the buffer is
   not reset on this path): when it does not fit, http_srv_snd fails before sendmsg() and the client is dropped *)
ErrPageMayFail(s) == /\ s.run.pc = "sendmsg" /\ ~Has(s, "errpage")
                     /\ IsErrPage(s.c[s.run.c].resp) /\ s.c[s.run.c].sep /\ s.c[s.run.c].sbuf > 0
SndNoSpace(s) == SndResult(s, s.run.c, TRUE)

(* sendmsg() of http_srv_snd answered *)
SendMsg(s, want, ret, err) ==
  LET c == s.run.c  cr == s.c[c]
      again == ret < 0 /\ err = "EAGAIN" /\ Has(s, "sndagain")
      r == IF again THEN 0 ELSE ret IN
  IF r < 0 THEN SndResult(IF err = "EAGAIN" THEN Viol(s, "response-dropped-on-full-socket-buffer") ELSE s, c, TRUE)
  ELSE IF r = want THEN SndResult([s EXCEPT !.c[c].resps = @ \o cr.cur, !.c[c].cur = << >>], c, FALSE)
  ELSE \* part of the response left: tp_task_start(TP_EV_WRITE, snd_timeout, http_srv_snd_done_cb); EINPROGRESS
       \* (a generated page printed behind stale send-buffer bytes: when the headers went out completely the write task
       \*  is given everything from the offset to `used`, i.e. the stale bytes more - s.c[c].leftalt)
       LET stale == IF ~Has(s, "errpage") /\ IsErrPage(cr.resp) /\ cr.sep THEN cr.sbuf ELSE 0 IN
       Ret(Restart([s EXCEPT !.c[c].left = want - r, !.c[c].leftalt = want - r + stale, !.c[c].tev = "W"], c), "NONE")

(* send() of the write handler answered *)
SendWant(s) == s.c[s.run.c].left
Send(s, ret, err) ==
  LET c == s.run.c  cr == s.c[c] IN
  IF ret > 0
  THEN IF cr.left - ret <= 0
       THEN SndDone([s EXCEPT !.c[c].left = 0, !.c[c].resps = @ \o cr.cur, !.c[c].cur = << >>], c, IF s.run.perr THEN "EIO" ELSE "0", s.run.eofs)
       ELSE [s EXCEPT !.c[c].left = @ - ret, !.c[c].leftalt = cr.left - ret]
  ELSE IF ret < 0 /\ err \in {"EAGAIN", "EINTR"} THEN Ret(s, "CONTINUE")
  ELSE SndDone(s, c, IF ret = 0 THEN "0" ELSE err, s.run.eofs)

(* on_rep_snd answered *)
SndCb(s, rc) == SndDone2(s, s.run.c, rc)

(* ---- accepting *)
EvLOk(s, b) == s.run.pc = "idle" /\ s.pend = << >> /\ b \in Binds /\ s.b[b].reg
EvL(s, b) == [s EXCEPT !.run = [IdleRun EXCEPT !.pc = "accept", !.b = b]]

(* http_srv_cli_alloc + the tail of http_srv_new_conn_cb *)
Alloc(s, c, b) ==
  LET init == s.cfg.init
      s1 == [s EXCEPT !.c[c] = [@ EXCEPT !.st = "live", !.b = b, !.rb = [size |-> init, used |-> 0, off |-> 0, tr |-> init],
                                         !.every = TRUE, !.tev = "R", !.ri = 1],
                      !.stat.conns = @ + 1]
      s2 == IF s.srv.shut THEN Viol(s1, "accept-after-shutdown") ELSE s1
  IN IF s.cfg.accfilter /\ init # 0
     THEN [s2 EXCEPT !.run = [IdleRun EXCEPT !.pc = "recv", !.c = c, !.mode = "direct", !.after = "accept", !.ab = b]]
     ELSE [Restart(s2, c) EXCEPT !.run = [IdleRun EXCEPT !.pc = "accept", !.b = b]]
(* accept4() answered: c = the scripted client that was accepted, 0 = nothing there (EAGAIN) *)
Acc(s, c, err) ==
  LET b == s.run.b IN
  IF c = 0 THEN [s EXCEPT !.run = IdleRun]
  ELSE IF ~s.srv.alive THEN Crash(s, "accept-on-bind-of-destroyed-server")        \* bnd->srv dangles
  ELSE LET s1 == [s EXCEPT !.c[c].st = "accepted", !.c[c].fd = "open", !.c[c].b = b] IN
       IF s.cfg.conncb THEN [s1 EXCEPT !.run.pc = "conncb", !.run.c = c] ELSE Alloc(s1, c, b)
ConnCb(s, rc) ==
  LET c == s.run.c  b == s.run.b  back == [IdleRun EXCEPT !.pc = "accept", !.b = b] IN
  CASE rc = "D" -> Out([s EXCEPT !.c[c].st = "refused", !.c[c].fd = "closed", !.run = back], [e |-> "cls", c |-> c])
    [] rc = "N" -> [s EXCEPT !.c[c].st = "foreign", !.run = back]
    [] OTHER -> Alloc(s, c, b)

(* ---- API calls of the user (on the server's thread, between handler runs) *)
ApiOk(s) == s.run.pc = "idle" /\ s.pend = << >>
ApiRun(c, f) == [IdleRun EXCEPT !.c = c, !.after = "api", !.api = f]
ResumeOk(s, c) == ApiOk(s) /\ c \in Conns /\ s.c[c].st = "live" /\ s.c[c].wait = "resp"
Resume(s, c, status, rclose, blen) ==
  Snd([s EXCEPT !.run = [ApiRun(c, "resume") EXCEPT !.mode = "resume", !.ctx = "resume"], !.c[c].wait = "none",
                !.c[c].resp.status = status, !.c[c].resp.close = @ \/ rclose, !.c[c].resp.blen = blen, !.c[c].sbuf = blen], c)
ResumeNextOk(s, c) == ApiOk(s) /\ c \in Conns /\ s.c[c].st = "live" /\ s.c[c].wait = "next"
ApiResumeNext(s, c) == ResumeNext([s EXCEPT !.run = [ApiRun(c, "resume_next") EXCEPT !.mode = "direct"], !.c[c].wait = "none"], c)
CliFreeOk(s, c) == ApiOk(s) /\ c \in Conns /\ s.c[c].st = "live"
CliFree(s, c) == End(Free([s EXCEPT !.run = ApiRun(c, "cli_free")], c))

BindAddOk(s, b) == ApiOk(s) /\ s.srv.alive /\ b \in Binds /\ s.b[b].st = "none"
BindAdd(s, b, ok) ==
  IF ok THEN [s EXCEPT !.b[b] = [st |-> "live", lfd |-> "open", reg |-> TRUE], !.srv.order = Append(@, b)] ELSE s
CloseL(s, b) == IF s.b[b].lfd = "open" THEN Out([s EXCEPT !.b[b].lfd = "closed", !.b[b].reg = FALSE], [e |-> "cls.l", b |-> b])
                ELSE [s EXCEPT !.b[b].reg = FALSE]
BindShutdownOk(s, b) == ApiOk(s) /\ s.srv.alive /\ b \in Binds /\ s.b[b].st = "live"
BindShutdown(s, b) == CloseL(s, b)                                                        \* tp_task_ident_close
BindRemove(s, b) ==                                                                       \* unlink, tp_task_destroy, free
  LET s1 == CloseL(s, b) IN
  [s1 EXCEPT !.b[b].st = "freed", !.srv.order = SelectSeq(@, LAMBDA x : x # b)]
RECURSIVE ShutAll(_, _)
ShutAll(s, bs) == IF bs = << >> THEN s ELSE ShutAll(CloseL(s, Head(bs)), Tail(bs))
SrvShutdownOk(s) == ApiOk(s) /\ s.srv.alive
SrvShutdown(s) ==
  LET s1 == [s EXCEPT !.srv.shut = TRUE] IN
  IF Has(s, "shutdown") THEN ShutAll(s1, s.srv.order) ELSE s1           \* "NULL == srv || NULL != srv->bnd": returns at once
RECURSIVE RemoveAll(_, _), RemoveOdd(_, _)
RemoveAll(s, bs) == IF bs = << >> THEN s ELSE RemoveAll(BindRemove(s, Head(bs)), Tail(bs))
\* for (i = 0; i < srv->bind_count; i ++) http_srv_bind_remove(srv->bnd[i]) - and every removal shifts the array down
RemoveOdd(s, i) == IF i > Len(s.srv.order) THEN s ELSE RemoveOdd(BindRemove(s, s.srv.order[i]), i + 1)
SrvDestroy(s) ==
  LET s1 == IF Has(s, "destroyall") THEN RemoveAll(s, s.srv.order) ELSE RemoveOdd(s, 1)
      s2 == IF s1.srv.order # << >> THEN Viol(s1, "bind-leaked") ELSE s1
  IN [s2 EXCEPT !.srv.alive = FALSE]

(* ---- what the ledger of the binding must show at the end *)
NLive(s) == Cardinality({c \in Conns : s.c[c].st = "live"})
NOpenFd(s) == Cardinality({c \in Conns : s.c[c].fd = "open"})
NOpenL(s) == Cardinality({b \in Binds : s.b[b].lfd = "open"})
LeakExpected(s) == s.srv.alive \/ NLive(s) > 0 \/ \E b \in Binds : s.b[b].st = "live"

(* ------------------------------------------------------------------------------------------------ invariants *)
InvDestroyOnce(s) ==
  \A c \in Conns : LET cr == s.c[c] IN
     /\ cr.ndst <= 1
     /\ (cr.st = "dead" => (cr.fd = "closed" /\ cr.io = "-" /\ ~cr.tmr /\ (s.cfg.dstcb => cr.ndst = 1)))
     /\ (cr.st = "live" => (cr.fd = "open" /\ cr.ndst = 0))
InvRequestOnce(s) ==
  \A c \in Conns : LET d == s.c[c].deliv IN
     /\ \A i, j \in 1..Len(d) : i < j => d[i] < d[j]                                       \* in order, never twice
     /\ \A i \in 1..Len(d) : s.c[c].script[d[i]].kind \notin {"BADLINE", "INSEC", "POSTNOCL", "NOHDR"}
InvResponses(s) ==
  \A c \in Conns : LET rs == s.c[c].resps IN
     /\ \A i, j \in 1..Len(rs) : (i < j /\ rs[i].k # 0 /\ rs[j].k # 0) => rs[i].k < rs[j].k
     /\ \A i \in 1..Len(rs) : rs[i].k # 0 => \E j \in 1..Len(s.c[c].deliv) : s.c[c].deliv[j] = rs[i].k
     /\ \A i \in 1..Len(rs) : i < Len(rs) => rs[i].hdr # "close"                           \* nothing is sent after "Connection: close"
InvLimits(s) ==
  \A c \in Conns : LET rb == s.c[c].rb IN
     /\ rb.size <= (IF s.cfg.max > s.cfg.init THEN s.cfg.max ELSE s.cfg.init)
     /\ rb.used <= rb.size /\ rb.off <= rb.size
     /\ (s.c[c].st = "live" /\ s.run.pc = "idle" => rb.off + rb.tr <= rb.size)
\* a client nobody is working for: idle thread, no resume owed
Quiet(s, c) == s.run.pc = "idle" /\ s.pend = << >> /\ s.c[c].st = "live" /\ s.c[c].wait = "none" /\ ~s.crashed
InvNoOrphan(s) == \A c \in Conns : Quiet(s, c) => s.c[c].io # "-"
InvNoStall(s) == \A c \in Conns : (Quiet(s, c) /\ s.c[c].io # "W") =>
                    IF s.c[c].hasReq THEN s.c[c].rb.used < Rq(s.c[c]).hl + s.c[c].dsize ELSE ~ReqIn(s.c[c])
InvServer(s) == /\ (~s.srv.alive => \A b \in Binds : s.b[b].st # "live")
                /\ \A b \in Binds : (s.b[b].reg => s.b[b].lfd = "open")
NoViol(s) == s.viol = {} /\ ~s.crashed
InvNames(s) == (IF InvDestroyOnce(s) THEN {} ELSE {"inv:destroy-once"}) \cup (IF InvRequestOnce(s) THEN {} ELSE {"inv:request-once"})
               \cup (IF InvResponses(s) THEN {} ELSE {"inv:responses"}) \cup (IF InvLimits(s) THEN {} ELSE {"inv:limits"})
               \cup (IF InvNoOrphan(s) THEN {} ELSE {"client-orphaned"}) \cup (IF InvNoStall(s) THEN {} ELSE {"request-stalled"})
               \cup (IF InvServer(s) THEN {} ELSE {"inv:server"})
CheckInv(s) == IF s.crashed THEN s ELSE [s EXCEPT !.viol = @ \cup InvNames(s)]
=============================================================================
