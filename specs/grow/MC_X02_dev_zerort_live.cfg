SPECIFICATION FairSpec
CONSTANTS
  NIds = 2
  Ident = FALSE
  Dev = {}
  JitClasses = {"zero", "pos1"}
  Plan = "one"
  Kinds = {"good", "badauth", "wrongid", "wrongsrc", "reqcode"}
  MaxFlips = 0
  MaxReplies = 1
  AllowCancel = FALSE
  AllowDestroy = FALSE
  PortReuse = TRUE
CHECK_DEADLOCK FALSE
PROPERTIES Termination
