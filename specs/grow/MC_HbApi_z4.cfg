SPECIFICATION Spec
CONSTANTS
  MT = TRUE
  NZ = 4
  NE = 3
  NK = 4
  Threads = {1, 2}
  MaxDep = 2
  EnumRm = {{}, {1}, {2, 3}, {1, 2, 3, 4}}
  Emit = FALSE
INVARIANTS Inv PostOK
CHECK_DEADLOCK TRUE
