SPECIFICATION Spec
CONSTANTS
  MT = TRUE
  NZ = 4
  NE = 3
  NK = 3
  Threads = {1, 2}
  MaxDep = 1
  EnumRm = {{}, {1, 2}}
  Emit = FALSE
INVARIANTS Inv PostOK
CHECK_DEADLOCK TRUE
