SPECIFICATION Spec
CONSTANTS N = 3
 Callers = {c1, c2, c3}
 CallsEach = 3
 Variant = "atomic"
INVARIANTS InRange InAlloc EqualShares IdxBounded
PROPERTY Rotation
CHECK_DEADLOCK FALSE
