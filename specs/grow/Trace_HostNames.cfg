SPECIFICATION Spec
CONSTANTS
  PREALLOC = 8
  NObj = 3
CHECK_DEADLOCK FALSE
