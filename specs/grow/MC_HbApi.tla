------------------------------ MODULE MC_HbApi ------------------------------
(* API level model of hash_bucket.h: every call is one atomic step (sequential histories and histories of several
   threads whose calls are serialised).  A call that would block on a zone mutex held by another thread is not
   enabled.  Checked exhaustively: structure, counters, lock book-keeping as invariants; map semantics, exact
   enumeration and the lock effect table as postconditions of every step (state, call, state'), collected in bad.  With Emit = TRUE every
   state is printed (call + results + projected state): the rig replays these behaviours on the real containers. *)
EXTENDS HashBucket, TLC, Json
CONSTANTS MT,        \* multi_thread flag of hbucket_create
          NZ, NE, NK,\* hashsize, number of entry objects, number of keys (entry e carries key (e-1) % NK)
          Threads, MaxDep,
          EnumRm,    \* sets of entries an enumeration callback removes
          Emit
VARIABLES hb, order,   \* order: ghost, entries in the table, most recently added first
          ev,          \* last call and its results (only kept when Emit, so that it does not multiply the states)
          bad          \* names of the call postconditions (below) that some step violated
vars == << hb, ev, order, bad >>

Keys == 0..(NK - 1)
KeySeq == [e \in 1..NE |-> (e - 1) % NK]
Ents == 1..NE
Zones == 0..(NZ - 1)
DepOK(S) == \A z \in Zones : S.dep[z] <= MaxDep
NewEv == [op |-> "new", mt |-> IF MT THEN 1 ELSE 0, nz |-> NZ, keys |-> KeySeq, rc |-> 0]

(* ---------------- postconditions of a call e that leads from S (ghost ord) to S2 *)
InZoneNewestFirst(S, ord, z) == SelectSeq(ord, LAMBDA x : S.ez[x] = z)
RECURSIVE ExpectAll(_, _, _)
ExpectAll(S, ord, z) == IF z >= NZ THEN << >> ELSE InZoneNewestFirst(S, ord, z) \o ExpectAll(S, ord, z + 1)
\* HB3: get looks in zone key % hashsize only, returns the newest live entry with that key, changes no table data
MapSem(e, S, S2, ord) ==
  e.op = "get" =>
    LET want == SelectSeq(InZoneNewestFirst(S, ord, e.k % NZ), LAMBDA x : KeySeq[x] = e.k) IN
    /\ e.z = e.k % NZ
    /\ e.e = (IF want = << >> THEN None ELSE Head(want))
    /\ e.rc = (IF want = << >> THEN -1 ELSE 0)
    /\ S2.zl = S.zl /\ S2.ez = S.ez /\ S2.zc = S.zc /\ S2.total = S.total
\* HB4: the callback sees every entry of the zone / table exactly once, newest first, up to the stop entry; exactly
\*      the visited entries the callback removed are gone afterwards
EnumExact(e, S, S2, ord) ==
  e.op \in {"zenum", "enum", "destroy"} =>
    LET full == IF e.op = "zenum" THEN InZoneNewestFirst(S, ord, e.z) ELSE ExpectAll(S, ord, 0)
        stop == IF e.op = "destroy" THEN None ELSE e.stop
        rm == IF e.op = "destroy" THEN {} ELSE e.rm
        vis == e.vis IN
    /\ vis = Prefix(full, stop)
    /\ Len(vis) = Cardinality(RangeOf(vis))
    /\ (stop = None => RangeOf(vis) = RangeOf(full))
    /\ e.op # "destroy" =>
         /\ e.ret = (IF stop \in RangeOf(full) THEN 1 ELSE 0)
         /\ \A x \in Ents : S2.ez[x] = (IF x \in rm /\ x \in RangeOf(vis) THEN NoZone ELSE S.ez[x])
         /\ \A z \in Zones : S2.zl[z] = SelectSeq(S.zl[z], LAMBDA x : ~(x \in rm /\ x \in RangeOf(vis)))
\* HB5: effect of a call on the recursion depth of zone z's mutex, as the header documents it
B(b) == IF b THEN 1 ELSE 0
Delta(e, S, z) ==
  IF ~MT THEN 0 ELSE
  CASE e.op = "get" ->
         IF z # e.z THEN 0
         ELSE LET lk == ~Has(e.fl, GET_NO_LOCK)
                  ul == IF e.rc = 0 THEN Has(e.fl, GET_S_UNLOCK) ELSE ~Has(e.fl, GET_F_LOCK)
              IN B(lk) - B(ul /\ (lk \/ S.own[z] = e.t))
    [] e.op = "add" ->
         IF z # AddZone(S, e.e, e.zarg) THEN 0
         ELSE LET lk == ~Has(e.fl, ADD_NO_LOCK)  ul == ~Has(e.fl, ADD_NO_UNLOCK)
              IN B(lk) - B(ul /\ (lk \/ S.own[z] = e.t))
    [] e.op = "zlock" -> B(z = e.z)
    [] e.op = "zunlock" -> 0 - B(z = e.z /\ S.own[z] = e.t)
    [] e.op = "elock" -> B(z = S.ez[e.e])
    [] e.op = "eunlock" -> 0 - B(z = S.ez[e.e] /\ S.own[z] = e.t)
    [] OTHER -> 0                                   \* rm, zenum, enum: every zone as before
LockDelta(e, S, S2) ==
  (S.alive /\ S2.alive /\ e.op # "new") =>
    \A z \in Zones : /\ S2.dep[z] - S.dep[z] = Delta(e, S, z)
                     /\ (S2.dep[z] > 0 /\ S2.own[z] # S.own[z]) => (S2.own[z] = e.t /\ S.own[z] = None)
\* absolute form for a caller that finds the zone free: found => it holds the zone afterwards unless S_UNLOCK;
\* not found => it holds nothing unless F_LOCK
GetPost(e, S, S2) ==
  (e.op = "get" /\ MT /\ ~Has(e.fl, GET_NO_LOCK) /\ S.own[e.z] = None) =>
    IF e.rc = 0 THEN (S2.own[e.z] = e.t) <=> ~Has(e.fl, GET_S_UNLOCK)
    ELSE (S2.own[e.z] = e.t) <=> Has(e.fl, GET_F_LOCK)
Viol(e, S, S2, ord) ==
  (IF MapSem(e, S, S2, ord) THEN {} ELSE {"MapSem"}) \cup (IF EnumExact(e, S, S2, ord) THEN {} ELSE {"EnumExact"})
  \cup (IF LockDelta(e, S, S2) THEN {} ELSE {"LockDelta"}) \cup (IF GetPost(e, S, S2) THEN {} ELSE {"GetPost"})

LkOf(e, S, S2) ==
  LET rmv == IF e.op \in {"zenum", "enum"} THEN Cardinality(e.rm \cap RangeOf(e.vis)) ELSE 0
      nzs == CASE e.op = "zenum" -> 1 [] e.op = "enum" -> Cardinality(EnumZones(S, e.stop)) [] e.op = "destroy" -> NZ [] OTHER -> 0
      e1 == IF e.op \in {"rm", "elock", "eunlock"} THEN e.e ELSE 1
  IN LockOps(S, e.op, IF e.op \in {"get", "add"} THEN e.fl ELSE 0, e.op = "get" /\ e.rc = 0, S.alive /\ S.ez[e1] # NoZone, rmv, nzs)
Step(e, S2, ord2) ==
  /\ hb' = S2 /\ order' = ord2
  /\ ev' = (IF Emit THEN [x \in DOMAIN e \cup {"lk", "ul"} |-> IF x = "lk" THEN LkOf(e, hb, S2)[1] ELSE IF x = "ul" THEN LkOf(e, hb, S2)[2] ELSE e[x]]
            ELSE << >>)
  /\ bad' = bad \cup Viol(e, hb, S2, order)

Init == hb = New(MT, NZ, KeySeq) /\ ev = (IF Emit THEN NewEv ELSE << >>) /\ order = << >> /\ bad = {}

DoGet(t, k, fl) ==
  /\ hb.alive /\ (GetNeedsLock(fl) => CanLock(hb, t, ZoneOfKey(hb, k)))
  /\ LET r == Get(hb, t, k, fl) IN
     /\ DepOK(r.S)
     /\ Step([op |-> "get", t |-> t, k |-> k, fl |-> fl, rc |-> r.rc, e |-> r.e, z |-> r.z], r.S, order)
DoAdd(t, e, fl, zarg) ==
  /\ hb.alive /\ hb.ez[e] = NoZone
  /\ (~Has(fl, ADD_NO_LOCK) => CanLock(hb, t, AddZone(hb, e, zarg)))
  /\ LET S == Add(hb, t, e, fl, zarg) IN
     /\ DepOK(S)
     /\ Step([op |-> "add", t |-> t, e |-> e, fl |-> fl, zarg |-> zarg, rc |-> 0], S, << e >> \o order)
DoRm(t, e) ==
  /\ hb.alive /\ (hb.ez[e] # NoZone => CanLock(hb, t, hb.ez[e]))
  /\ Step([op |-> "rm", t |-> t, e |-> e], Remove(hb, t, e), Without(order, e))
DoZLock(t, z) ==
  /\ hb.alive /\ CanLock(hb, t, z) /\ hb.dep[z] < MaxDep
  /\ Step([op |-> "zlock", t |-> t, z |-> z], Lock(hb, t, z), order)
DoZUnlock(t, z) ==
  /\ hb.alive /\ Step([op |-> "zunlock", t |-> t, z |-> z], Unlock(hb, t, z), order)
DoELock(t, e) ==
  /\ hb.alive /\ (hb.ez[e] # NoZone => CanLock(hb, t, hb.ez[e]) /\ hb.dep[hb.ez[e]] < MaxDep)
  /\ Step([op |-> "elock", t |-> t, e |-> e], ELock(hb, t, e), order)
DoEUnlock(t, e) ==
  /\ hb.alive /\ Step([op |-> "eunlock", t |-> t, e |-> e], EUnlock(hb, t, e), order)
DoZEnum(t, z, rm, stop) ==
  /\ hb.alive /\ CanLock(hb, t, z)
  /\ LET r == ZEnum(hb, t, z, rm, stop) IN
     Step([op |-> "zenum", t |-> t, z |-> z, rm |-> rm, stop |-> stop, ret |-> r.ret, vis |-> r.vis], r.S,
          SelectSeq(order, LAMBDA x : ~(x \in rm /\ x \in RangeOf(r.vis))))
DoEnum(t, rm, stop) ==
  /\ hb.alive /\ \A z \in EnumZones(hb, stop) : CanLock(hb, t, z)
  /\ LET r == Enum(hb, t, rm, stop) IN
     Step([op |-> "enum", t |-> t, rm |-> rm, stop |-> stop, ret |-> r.ret, vis |-> r.vis], r.S,
          SelectSeq(order, LAMBDA x : ~(x \in rm /\ x \in RangeOf(r.vis))))
DoDestroy(t) ==
  /\ hb.alive /\ \A z \in Zones : hb.own[z] = None
  /\ LET r == Destroy(hb) IN Step([op |-> "destroy", t |-> t, znull |-> 1, vis |-> r.vis], r.S, << >>)
DoNew == ~hb.alive /\ Step(NewEv, New(MT, NZ, KeySeq), << >>)

Next ==
  \/ \E t \in Threads, k \in Keys, fl \in 0..7 : DoGet(t, k, fl)
  \/ \E t \in Threads, e \in Ents, fl \in 0..3, zarg \in Zones \cup {NoZone} : DoAdd(t, e, fl, zarg)
  \/ \E t \in Threads, e \in Ents : DoRm(t, e)
  \/ \E t \in Threads, z \in Zones : DoZLock(t, z)
  \/ \E t \in Threads, z \in Zones : DoZUnlock(t, z)
  \/ \E t \in Threads, e \in Ents : DoELock(t, e)
  \/ \E t \in Threads, e \in Ents : DoEUnlock(t, e)
  \/ \E t \in Threads, z \in Zones, rm \in EnumRm, stop \in Ents \cup {None} : DoZEnum(t, z, rm, stop)
  \/ \E t \in Threads, rm \in EnumRm, stop \in Ents \cup {None} : DoEnum(t, rm, stop)
  \/ \E t \in Threads : DoDestroy(t)
  \/ DoNew
Spec == Init /\ [][Next]_vars

(* ---------------- random walks for the replay on the real code: ONE successor per step (first the kind of call,
   then its arguments, uniformly among the enabled ones), so that EmitInv prints exactly the walk *)
CallsOf(o) ==
  CASE o = "get" -> {[op |-> o, t |-> t, a |-> k, b |-> fl, c |-> 0] : t \in Threads, k \in Keys, fl \in 0..7}
    [] o = "add" -> {[op |-> o, t |-> t, a |-> e, b |-> fl, c |-> za] : t \in Threads, e \in Ents, fl \in 0..3, za \in Zones \cup {NoZone}}
    [] o \in {"rm", "elock", "eunlock"} -> {[op |-> o, t |-> t, a |-> e, b |-> 0, c |-> 0] : t \in Threads, e \in Ents}
    [] o \in {"zlock", "zunlock"} -> {[op |-> o, t |-> t, a |-> z, b |-> 0, c |-> 0] : t \in Threads, z \in Zones}
    [] o = "zenum" -> {[op |-> o, t |-> t, a |-> z, b |-> rm, c |-> st] : t \in Threads, z \in Zones, rm \in EnumRm, st \in Ents \cup {None}}
    [] o = "enum" -> {[op |-> o, t |-> t, a |-> 0, b |-> rm, c |-> st] : t \in Threads, rm \in EnumRm, st \in Ents \cup {None}}
    [] o = "destroy" -> {[op |-> o, t |-> t, a |-> 0, b |-> 0, c |-> 0] : t \in Threads}
    [] o = "new" -> {[op |-> o, t |-> 1, a |-> 0, b |-> 0, c |-> 0]}
Do(c) ==
  CASE c.op = "get" -> DoGet(c.t, c.a, c.b)
    [] c.op = "add" -> DoAdd(c.t, c.a, c.b, c.c)
    [] c.op = "rm" -> DoRm(c.t, c.a)
    [] c.op = "zlock" -> DoZLock(c.t, c.a)
    [] c.op = "zunlock" -> DoZUnlock(c.t, c.a)
    [] c.op = "elock" -> DoELock(c.t, c.a)
    [] c.op = "eunlock" -> DoEUnlock(c.t, c.a)
    [] c.op = "zenum" -> DoZEnum(c.t, c.a, c.b, c.c)
    [] c.op = "enum" -> DoEnum(c.t, c.b, c.c)
    [] c.op = "destroy" -> DoDestroy(c.t)
    [] c.op = "new" -> DoNew
OpBag == << "get", "get", "get", "add", "add", "add", "add", "rm", "rm", "zlock", "zunlock", "zunlock", "elock", "eunlock",
            "zenum", "zenum", "enum", "enum", "destroy", "new" >>
Gd(c) ==      \* enabling condition of Do(c), without computing the postconditions
  CASE c.op = "new" -> ~hb.alive
    [] OTHER ->
       hb.alive /\
       CASE c.op = "get" -> (GetNeedsLock(c.b) => CanLock(hb, c.t, ZoneOfKey(hb, c.a))) /\ DepOK(Get(hb, c.t, c.a, c.b).S)
         [] c.op = "add" -> /\ hb.ez[c.a] = NoZone
                            /\ (~Has(c.b, ADD_NO_LOCK) => CanLock(hb, c.t, AddZone(hb, c.a, c.c)))
                            /\ DepOK(Add(hb, c.t, c.a, c.b, c.c))
         [] c.op = "rm" -> (hb.ez[c.a] # NoZone => CanLock(hb, c.t, hb.ez[c.a]))
         [] c.op = "zlock" -> CanLock(hb, c.t, c.a) /\ hb.dep[c.a] < MaxDep
         [] c.op = "elock" -> (hb.ez[c.a] # NoZone => CanLock(hb, c.t, hb.ez[c.a]) /\ hb.dep[hb.ez[c.a]] < MaxDep)
         [] c.op = "zenum" -> CanLock(hb, c.t, c.a)
         [] c.op = "enum" -> \A z \in EnumZones(hb, c.c) : CanLock(hb, c.t, z)
         [] c.op = "destroy" -> \A z \in Zones : hb.own[z] = None
         [] OTHER -> TRUE
EnabledCalls(o) == {c \in CallsOf(o) : Gd(c)}
SimNext ==
  \E i \in {RandomElement({x \in 1..Len(OpBag) : EnabledCalls(OpBag[x]) # {}})} :
    \E c \in {RandomElement(EnabledCalls(OpBag[i]))} : Do(c)
SimSpec == Init /\ [][SimNext]_vars

(* ---------------- invariants *)
Inv == hb.alive => /\ StructOK(hb) /\ CountsOK(hb) /\ NonNeg(hb) /\ LocksOK(hb)
                   /\ RangeOf(order) = InTable(hb) /\ Len(order) = Cardinality(InTable(hb))
PostOK == bad = {}
EmitInv == Emit => PrintT(ToJson([lvl |-> TLCGet("level"), ev |-> ev,
                                  st |-> IF hb.alive THEN Proj(hb) ELSE [dead |-> 1]]))
=============================================================================
