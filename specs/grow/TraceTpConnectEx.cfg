SPECIFICATION TSpec
INVARIANTS TInv
POSTCONDITION TAccepted
CHECK_DEADLOCK FALSE
