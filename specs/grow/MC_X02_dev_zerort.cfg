SPECIFICATION Spec
CONSTANTS
  NIds = 2
  Ident = FALSE
  Dev = {}
  JitClasses = {"zero", "pos1"}
  Plan = "one"
  Kinds = {"good", "badauth", "wrongid", "wrongsrc", "reqcode"}
  MaxFlips = 1
  MaxReplies = 3
  AllowCancel = TRUE
  AllowDestroy = TRUE
  PortReuse = TRUE
INVARIANTS IArmed
CHECK_DEADLOCK FALSE
