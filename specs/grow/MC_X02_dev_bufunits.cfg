SPECIFICATION Spec
CONSTANTS
  NIds = 2
  Ident = FALSE
  Dev = {"socket-buffer-kilobytes-passed-as-bytes"}
  JitClasses = {"zero"}
  Plan = "one"
  Kinds = {"good", "badauth", "wrongid", "wrongsrc", "reqcode"}
  MaxFlips = 1
  MaxReplies = 3
  AllowCancel = TRUE
  AllowDestroy = TRUE
  PortReuse = TRUE
INVARIANTS IBufUnits
CHECK_DEADLOCK FALSE
