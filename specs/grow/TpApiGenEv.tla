----------------------------- MODULE TpApiGenEv -----------------------------
(* Generator for property group A of TpApi: the reachable states ARE the decision table of the event operations.
   One state per case:  x = the call as a user writes it (entry point, enable value, which argument is NULL, ident class,
   event, flags, fflags, data), prec = the accepted calls issued on the same object before it (its history), other =
   another object already installed the same ident.  Every state is emitted with the expectation EvStep computes.
   Families:  val  = validation matrix on a fresh object (every event x flags x fflags x ident class x operation)
              nul  = the same with one argument / member NULL
              hist = every operation after every history (add, add one-shot, add dispatch, add+disable, add+delete,
                     absolute one-shot timer, other object on the ident)
              ent  = every entry point with every enable value                                                   *)
EXTENDS TpApi, Json
CONSTANT Tier

Quick == Tier = "quick"
EvSet == {0, 1, 2, 3, 4, 65535}
FlSet == IF Quick THEN {0, 1, 2, 3, 4, 8, 16, 256} ELSE {0, 1, 2, 3, 4, 5, 6, 7, 8, 9, 10, 11, 12, 15, 16, 17, 32, 256, 512, 32768}
FfSet == IF Quick THEN {0, 1, 2, 4, 7, 8, 1073741824} ELSE {0, 1, 2, 3, 4, 5, 6, 7, 8, 9, 16, 65536, 1073741824}
DataSet == {0, 1, 1500, 2000000000}
IdentsOf(ev) == CASE ev \in {0, 1} -> {"A", "edge", "closed", "file", "big", "huge", "m1"}
                  [] ev = 2 -> {"A", "big", "huge", "m1"}
                  [] ev = 3 -> {"A", "nopid", "m1"}
                  [] OTHER -> {"A", "big", "m1"}
OpForms == {<<"add", 1>>, <<"del", 1>>, <<"enable", 1>>, <<"enable", 0>>}
X(fam, of, pre, nul, idc, ev, fl, ff, d) ==
    [cx |-> FALSE, fam |-> fam, entry |-> of[1], en |-> of[2], pre |-> pre, nul |-> nul, identc |-> idc, event |-> ev, flags |-> fl, fflags |-> ff, data |-> d]

FamVal == { X("val", of, "none", "none", idc, ev, fl, ff, 1) :
              of \in OpForms, idc \in {"A", "edge", "closed", "file", "big", "huge", "m1", "nopid"}, ev \in EvSet, fl \in FlSet, ff \in FfSet }
FamValOk == { x \in FamVal : x.identc \in IdentsOf(x.event) }
FamNul == { X("nul", of, "none", nul, idc, ev, fl, ff, 1) :
              of \in OpForms, nul \in {"ev", "ud", "cb", "tpt"}, idc \in {"A", "big", "m1"},
              ev \in (IF Quick THEN {0, 2, 4} ELSE EvSet), fl \in (IF Quick THEN {0, 3} ELSE FlSet), ff \in (IF Quick THEN {0, 8} ELSE {0, 1, 8}) }
PresOf(ev) == CASE ev \in {0, 1} -> {"none", "add", "add1", "add2", "addD", "addX", "other"}
                [] ev = 2 -> {"none", "add", "add1", "add2", "addD", "addX", "addAbs"}
                [] OTHER -> {"none", "add", "addX"}
GoodFf(ev) == CASE ev \in {0, 1} -> {0, 1} [] ev = 2 -> 0..7 [] OTHER -> {0, 1}
FamHist == { X("hist", of, pre, "none", "A", ev, fl, ff, d) :
              of \in OpForms, pre \in {"none", "add", "add1", "add2", "addD", "addX", "addAbs", "other"}, ev \in 0..3,
              fl \in {0, 1, 2, 4}, ff \in 0..7, d \in DataSet }
FamHistOk == { x \in FamHist : x.pre \in PresOf(x.event) /\ x.fflags \in GoodFf(x.event)
                               /\ (x.event \in {1, 3} => x.data = 1) /\ (x.event = 0 /\ x.fflags = 0 => x.data = 1) }
FamEnt == { X("ent", <<e, en>>, pre, nul, "A", ev, fl, ff, d) :
              e \in Entries, en \in {0, 1, -1, 2}, pre \in {"none", "add"}, nul \in {"none", "ud"}, ev \in {0, 1, 2, 3, 4},
              fl \in {0, 1, 3, 16}, ff \in {0, 1, 8}, d \in (IF Quick THEN {5} ELSE {0, 5}) }
FamEntOk == { x \in FamEnt : (x.entry \notin {"enable", "enable_args", "enable_args1"} => x.en = 1) /\ (x.nul = "ud" => x.pre = "none") }
FamCx == { [X("cx", of, pre, "none", "A", ev, fl, ff, 1500) EXCEPT !.cx = TRUE] :
              of \in OpForms, pre \in {"none", "add"}, ev \in {0, 2, 3}, fl \in {0, 1}, ff \in {0, 1, 4} }
FamCxOk == { x \in FamCx : x.fflags \in GoodFf(x.event) }
Cases == FamValOk \cup FamNul \cup FamHistOk \cup FamEntOk \cup FamCxOk

(* histories as accepted calls on the object *)
PC(cx, op, ev, fl, ff, d) == [cx |-> cx, op |-> op, evnull |-> FALSE, udnull |-> FALSE, cbnull |-> FALSE, tptnull |-> FALSE, identc |-> "A",
                          event |-> ev, flags |-> fl, fflags |-> ff, data |-> d]
PreEv(x) == IF x.event \in 0..3 THEN x.event ELSE 0
PreCalls(x) == LET ev == PreEv(x) IN
    CASE x.pre = "add"    -> << PC(x.cx, OP_ADD, ev, 0, 0, 60) >>
      [] x.pre = "add1"   -> << PC(x.cx, OP_ADD, ev, 1, 0, 60) >>
      [] x.pre = "add2"   -> << PC(x.cx, OP_ADD, ev, 2, 0, 60) >>
      [] x.pre = "addD"   -> << PC(x.cx, OP_ADD, ev, 0, 0, 60), PC(x.cx, OP_DISABLE, ev, 0, 0, 0) >>
      [] x.pre = "addX"   -> << PC(x.cx, OP_ADD, ev, 0, 0, 60), PC(x.cx, OP_DEL, ev, 0, 0, 0) >>
      [] x.pre = "addAbs" -> << PC(x.cx, OP_ADD, 2, 1, 4, 2000000000) >>
      [] OTHER -> << >>
St0(x) == IF x.pre = "other" THEN [EvSt0 EXCEPT !.inst = TRUE, !.evs = RwEvents(OP_ADD, PreEv(x), 0), !.by = "other"] ELSE EvSt0
StBefore(x) == LET p == PreCalls(x) IN
               IF Len(p) = 0 THEN St0(x)
               ELSE IF Len(p) = 1 THEN EvStep(St0(x), p[1]).st
               ELSE EvStep(EvStep(St0(x), p[1]).st, p[2]).st
Expect(x) == EvStep(StBefore(x), Norm(x))

VARIABLES gc, fresh
Dummy == X("init", <<"add", 1>>, "none", "none", "A", 0, 0, 0, 0)
Init == gc = Dummy /\ fresh = TRUE
Next == /\ fresh /\ fresh' = FALSE
        /\ \E x \in Cases : gc' = x
Spec == Init /\ [][Next]_<<gc, fresh>>

(* ---- the table's own algebra (checked by TLC on every case) ---- *)
E == Expect(gc)
B == StBefore(gc)
N == Norm(gc)
Refused == 0 \notin E.rcs
(* A1: a refused call changes nothing; a call refused by validation reaches no system call *)
RefusalKeepsState == Refused => E.st = B
ValidationBeforeKernel == ValFaults(N) # {} => (E.kernel = "none" /\ ~E.settime.has /\ ~E.create.has /\ E.lowat = 0 /\ E.rcs = ValFaults(N))
NullFirst == (N.evnull \/ N.udnull) => E.rcs = {EINVAL}
(* A2: whatever is installed carries HUP and ERR; a disabled registration can report neither readable nor writable *)
InstalledShape == E.st.inst => ({"HUP", "ERR"} \subseteq E.st.evs /\ E.st.by \in {"self", "other"})
DisableSilences == (~Refused /\ N.op = OP_DISABLE /\ N.event \in {0, 1}) => (E.st.evs \cap {"IN", "OUT", "PRI", "RDHUP"} = {})
ReadWriteDisjoint == (~Refused /\ N.op \in {OP_ADD, OP_ENABLE} /\ N.event = 0 => "OUT" \notin E.st.evs)
                     /\ (~Refused /\ N.op \in {OP_ADD, OP_ENABLE} /\ N.event = 1 => "IN" \notin E.st.evs)
(* A3: one-shot timers have no interval, periodic ones repeat their value; nanoseconds stay below one second;
       the clock of the timer is the clock the LAST accepted add/enable asked for *)
TimerShape == E.settime.has =>
                /\ E.settime.nsec < 1000000000 /\ E.settime.insec < 1000000000
                /\ (N.op \in {OP_ADD, OP_ENABLE} /\ (Bit(N.flags, 0) \/ Bit(N.flags, 1)) => E.settime.isec = 0 /\ E.settime.insec = 0)
                /\ (N.op \in {OP_ADD, OP_ENABLE} /\ ~(Bit(N.flags, 0) \/ Bit(N.flags, 1)) => E.settime.isec = E.settime.sec /\ E.settime.insec = E.settime.nsec)
                /\ (N.op = OP_DISABLE => E.settime.sec = 0 /\ E.settime.nsec = 0)
ClockFollowsLastCall == (~Refused /\ N.event = 2 /\ N.op \in {OP_ADD, OP_ENABLE}) => (E.st.tm.real = Bit(N.fflags, 2) /\ E.settime.abs = Bit(N.fflags, 2))
(* delete always ends without a registration of that kind *)
DeleteRemoves == (~Refused /\ N.op = OP_DEL) => CASE N.event \in {0, 1} -> ~E.st.inst [] N.event = 2 -> ~E.st.tm.has [] OTHER -> ~E.st.pf
(* A5: the short entry points cannot pass flags *)
ShortFormsZero == gc.entry \in ZeroEntries => (N.fflags = 0 /\ N.data = 0)
Emit == PrintT(ToJson([x |-> gc, prec |-> PreCalls(gc), other |-> (gc.pre = "other"), exp |-> E]))
=============================================================================
