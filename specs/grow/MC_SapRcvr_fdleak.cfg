SPECIFICATION Spec
CONSTANTS
  SapNB = 8
  Mode = "cache"
  Origins <- OriginsTwo
  NameIdx = {1}
  Cts = {2}
  Ccis = {0, 1}
  Times <- TimesSmall
  MaxNow = 2003
  MaxRc = 2
  Dev = {"createfdleak"}
  Emit = FALSE
  Unsafe = TRUE
INVARIANTS Inv PostOK FdOK
CHECK_DEADLOCK FALSE
