SPECIFICATION Spec
CONSTANTS
  Names = {"a", "b"}
  Lookups = {1, 2, 3}
  MaxId = 3
  MaxCyc = 3
  Fix = {}
  NSrv = 1
  Retry = 0
  NegTTL = 4
  MaxRep = 2
  MaxDup = 1
  MaxTick = 1
  MaxFail = 1
  MaxForge = 1
  WithDestroy = TRUE
  WithCancel = TRUE
  Shapes = {"A", "NX", "FAIL", "NODATA", "CN", "CNA", "BAD"}
INVARIANTS NoViol NoCrash CbOnce Chain Entry Lookup TxBound Destroyed
CHECK_DEADLOCK FALSE
