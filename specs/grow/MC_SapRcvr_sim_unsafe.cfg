SPECIFICATION SimSpec
CONSTANTS
  SapNB = 256
  Mode = "cache"
  Origins <- OriginsAll
  NameIdx = {1, 2}
  Cts = {2}
  Ccis = {0, 1}
  Times <- TimesSmall
  MaxNow = 100000
  MaxRc = 1000
  Dev = {}
  Emit = TRUE
  Unsafe = TRUE
INVARIANTS Inv PostOK FdOK EmitInv
CHECK_DEADLOCK FALSE
