SPECIFICATION SpecC
CONSTANTS
  Devs = {1}
  Fix = {"destroyall", "server", "defflags", "stver", "adderr"}
  MaxLinks = 1
  MaxSvcs = 1
  MaxRecv = 1
  MaxFault = 1
  Cfgs = {1}
  UrlKinds = {1}
  Targets = {1}
INVARIANTS NotAllTaken
CHECK_DEADLOCK FALSE
