SPECIFICATION Spec
CONSTANTS
  NZ = 2
  NE = 4
  NK = 3
  Threads = {1, 2}
  Protos = {"uadd", "del", "look", "enum"}
  AtomicTotal = TRUE
  EnumRks = {{}, {0, 2}}
INVARIANTS Struct ZoneCounts TotalNonNeg TotalQuiescent TotalAlways UniqueKeys Locks IdleHoldsNothing NoBad
CHECK_DEADLOCK TRUE
