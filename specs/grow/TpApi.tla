-------------------------------- MODULE TpApi --------------------------------
(* X08 (growth task): the parts of the liblcb thread pool API (src/threadpool/threadpool.c,
   include/threadpool/threadpool.h, epoll back end) that TpMsg / TpBcast / TpLife / TpEvent do not describe.

   Properties  (what a user of the API relies on; "for all" = every argument combination, every history)

   A. event operations  tpt_ev_add/_add_args/_add_args2, tpt_ev_del/_del_args1, tpt_ev_enable/_enable_args/_enable_args1
     A1  refusal      a call with a NULL event / NULL user object / NULL callback / ident == -1 / no owner thread /
                      unknown flag bits / ONESHOT together with DISPATCH / an event kind above TP_EV_LAST / fflags outside
                      the mask of the event kind returns EINVAL, a read/write ident that cannot be a descriptor of this
                      process (>= descriptor table size) returns EBADF; when several of these apply the result is one of
                      them.  A refused call reaches neither epoll_ctl nor timerfd_create/settime nor setsockopt and changes nothing.
     A2  read/write   an accepted add / enable installs exactly  HUP|ERR | (READ: IN|RDHUP|PRI, WRITE: OUT) |
                      (ONESHOT or DISPATCH: EPOLLONESHOT)  for the ident in the owner's epoll set with the user object as
                      data, whatever was installed before (by this or another object); disable installs HUP|ERR|ET; delete
                      removes the ident (ENOENT when it is not installed); kernel refusals (EBADF closed descriptor, EPERM
                      not pollable) are returned as they are.  TP_FF_RW_LOWAT on READ sets SO_RCVLOWAT to max(1, data).
     A3  timer        add / enable creates the timer descriptor on first use (CLOCK_REALTIME iff TP_FF_T_ABSTIME, non
                      blocking, close-on-exec iff the pool asks for it), installs it with IN|HUP|ERR, and programs
                      value = data in the requested unit, interval = value unless ONESHOT/DISPATCH, TFD_TIMER_ABSTIME iff
                      TP_FF_T_ABSTIME.  An enable on an existing timer re-programs it EXACTLY like a fresh add with the same
                      arguments would (clock, remembered flags).  disable disarms (zero itimerspec), delete closes;
                      both answer ENOENT without a timer.
     A4  process      add / enable opens a pidfd for ident and installs it IN|ONESHOT|HUP|ERR, EEXIST if the object
                      already has one, ESRCH for a pid that does not exist; delete / disable close it (ENOENT without).
     A5  entry points every _args entry point behaves like the pointer form with the same field values (the short forms
                      pass flags = fflags = data = 0); `enable` is a truth value (every non-zero value enables).
   B. thread selection and identity
     B1  tp_thread_get(tp, k) is thread k for k < tp_thread_count_max_get(tp) and NULL otherwise (also for NULL tp);
         tpt_get_num / tpt_get_tp / tpt_get_cpu_id give k / tp / the bound cpu; NULL thread: (size_t)-1 / NULL / -1.
     B2  tp_thread_get_rr always returns one of the worker threads 0..max-1 - under ANY interleaving of concurrent callers -
         and, called sequentially, walks the workers in rotation (successor of k is (k+1) mod max: equally often).
     B3  tp_thread_get_pvt is one further thread object, different from every worker, not bound to a cpu.
     B4  tp_thread_count_max_get is the configured number (number of configured CPUs when the setting is 0);
         tp_thread_count_get is the number of workers that are starting or running: 0 after create, the number of
         successfully created threads after tp_threads_create, 0 after tp_shutdown_wait; the virtual thread never counts.
     B5  tpt_get_current is the caller's own thread object on a pool thread (also on an attached first thread, until it
         leaves the pool) and NULL on every other thread - at any time, also before the first pool exists.
         tp_thread_is_tp_thr(tp, t) <=> t (or the current thread when t = NULL) belongs to tp.
     B6  with TP_S_F_BIND2CPU worker k is bound to the single cpu (k mod configured-cpus) by one
         pthread_setaffinity_np call from the thread itself; without the flag no affinity call is made and cpu id = -1.
   C. per-thread slots  tpt_tls_set / _get / _get_sz: a map (thread, index < TP_TPT_TLS_COUNT) -> value, all zero after
         create; set on a NULL thread or an index out of range returns EINVAL and changes nothing, get returns 0/NULL;
         a set changes exactly one cell (no bleed between threads, indices, pools, the virtual thread); values survive
         thread start / stop until tp_destroy.
   D. settings  tp_settings_def = {BIND2CPU, threads 0 (= cpus), name "TP", no hooks, no udata};  tp_settings_load_xml /
         _ini take fBindToCPU and threadsCountMax from the text when present and well formed and leave every other
         field (and the field itself when absent / not a yes-no word) untouched; NULL / empty arguments -> EINVAL;
         tp_create honours the loaded values (count, binding) or refuses - it never corrupts memory.
   E. signals   tp_signal_handler shuts down the registered pool on SIGINT / SIGTERM (SIGKILL is listed too) exactly
         once and ignores every other signal; the table holds ONE pool (the latest registration wins - modelled, see
         "observed"); the handler never touches a pool that has been destroyed.
   F. queued changes (the tpt_ev_q_ family): kqueue only and disabled there (#if 0 / NOT_YET__FreeBSD__); on Linux the names are
         macros for the direct calls - nothing to specify beyond A.

   This module holds the plain definitions (decision tables as operators, pure step functions of small state
   machines).  Generators: TpApiGenEv, TpApiGenSet.  Model checking: MC_TpApiRR, MC_TpApiObj.  Trace validation of
   the real pool: TpApiTrace. *)
EXTENDS Integers, Sequences, FiniteSets, TLC

EPERM == 1  ENOENT == 2  ESRCH == 3  EBADF == 9  EEXIST == 17  EINVAL == 22
Bit(x, k) == (x \div (2 ^ k)) % 2 = 1
OP_ADD == 0  OP_DEL == 1  OP_ENABLE == 2  OP_DISABLE == 3
EV_READ == 0  EV_WRITE == 1  EV_TIMER == 2  EV_PROC == 3

(* ------------------------------------------------------------------ A. event operations *)
(* entry points -> operation and effective field values (A5) *)
PtrEntries  == {"add", "del", "enable"}
ArgEntries  == {"add_args", "enable_args"}
ZeroEntries == {"add_args2", "del_args1", "enable_args1"}
Entries == PtrEntries \cup ArgEntries \cup ZeroEntries
OpOf(entry, en) == CASE entry \in {"add", "add_args", "add_args2"} -> OP_ADD
                     [] entry \in {"del", "del_args1"} -> OP_DEL
                     [] OTHER -> IF en # 0 THEN OP_ENABLE ELSE OP_DISABLE
(* a call as the library sees it.  x = the arguments as the generator states them *)
Norm(x) == [op      |-> OpOf(x.entry, x.en),
            evnull  |-> x.entry \in PtrEntries /\ x.nul = "ev",
            udnull  |-> x.nul = "ud",
            cbnull  |-> x.nul = "cb",
            tptnull |-> x.nul = "tpt",
            identc  |-> x.identc,
            cx      |-> x.cx,             \* the pool was created with TP_S_F_CLOEXEC
            event   |-> x.event,
            flags   |-> IF x.entry \in {"del_args1", "enable_args1"} THEN 0 ELSE x.flags,
            fflags  |-> IF x.entry \in ZeroEntries THEN 0 ELSE x.fflags,
            data    |-> IF x.entry \in ZeroEntries THEN 0 ELSE x.data]

FlagsBad(fl) == fl \notin 0..15 \/ (Bit(fl, 0) /\ Bit(fl, 1))
FflagsBad(ev, ff) == CASE ev \in {EV_READ, EV_WRITE} -> ff \notin 0..1
                       [] ev = EV_TIMER -> ff \notin 0..7
                       [] ev = EV_PROC -> ff \notin 0..1
                       [] OTHER -> FALSE
(* A1: the set of answers a refused call may give; {} = the call is accepted *)
ValFaults(c) ==
    IF c.evnull \/ c.udnull THEN {EINVAL}
    ELSE (IF FlagsBad(c.flags) THEN {EINVAL} ELSE {})
         \cup (IF c.cbnull \/ c.tptnull \/ c.identc = "m1" THEN {EINVAL} ELSE {})
         \cup (IF c.event \notin 0..3 THEN {EINVAL} ELSE {})
         \cup (IF c.event \in {EV_READ, EV_WRITE} /\ c.identc \in {"big", "huge"} THEN {EBADF} ELSE {})
         \cup (IF FflagsBad(c.event, c.fflags) THEN {EINVAL} ELSE {})

(* state of one user object + the ident it names, as far as the kernel and the object are concerned *)
NoTimer == [has |-> FALSE, real |-> FALSE, fl |-> 0, dis |-> FALSE]
EvSt0 == [inst  |-> FALSE,        \* the read/write ident is in the owner's epoll set
          evs   |-> {},           \* ... with these events
          by    |-> "none",       \* ... and this object as data: "self" | "other"
          tm    |-> NoTimer,      \* timer descriptor of the object: exists, clock, remembered ONESHOT/DISPATCH, disabled
          tmevs |-> {},           \* events the timer descriptor was installed with
          pf    |-> FALSE,        \* pidfd of the object exists
          pfevs |-> {}]
NoSet == [has |-> FALSE, abs |-> FALSE, sec |-> 0, nsec |-> 0, isec |-> 0, insec |-> 0]
NoCreate == [has |-> FALSE, real |-> FALSE, cloexec |-> FALSE]
(* what one call must do.  rcs: allowed results; kernel: "none" = no epoll_ctl / timerfd_create / timerfd_settime /
   setsockopt call at all, "some" = at least one, "any" = not specified *)
Out(rcs, kernel, st, settime, create, lowat) ==
    [rcs |-> rcs, kernel |-> kernel, st |-> st, settime |-> settime, create |-> create, lowat |-> lowat]
Refuse(rcs, st) == Out(rcs, "none", st, NoSet, NoCreate, 0)

RwEvents(op, ev, fl) ==
    IF op = OP_DISABLE THEN {"HUP", "ERR", "ET"}
    ELSE {"HUP", "ERR"} \cup (IF ev = EV_READ THEN {"IN", "RDHUP", "PRI"} ELSE {"OUT"})
                        \cup (IF Bit(fl, 0) \/ Bit(fl, 1) THEN {"ONESHOT"} ELSE {})
RwStep(st, c) ==
    LET lowat == IF c.op # OP_DEL /\ c.event = EV_READ /\ Bit(c.fflags, 0) THEN (IF c.data = 0 THEN 1 ELSE c.data) ELSE 0
    IN  CASE c.identc = "closed" -> Out({EBADF}, "some", st, NoSet, NoCreate, lowat)
          [] c.identc = "file"   -> Out({EPERM}, "some", st, NoSet, NoCreate, lowat)
          [] OTHER ->
             IF c.op = OP_DEL
             THEN IF st.inst THEN Out({0}, "some", [st EXCEPT !.inst = FALSE, !.evs = {}, !.by = "none"], NoSet, NoCreate, 0)
                             ELSE Out({ENOENT}, "some", st, NoSet, NoCreate, 0)
             ELSE Out({0}, "some", [st EXCEPT !.inst = TRUE, !.evs = RwEvents(c.op, c.event, c.flags), !.by = "self"],
                      NoSet, NoCreate, lowat)

(* unit conversion for the small values used here (the 64-bit table is GenTimer / C06) *)
TSec(unit, d)  == CASE unit = 0 -> d [] unit = 1 -> d \div 1000 [] unit = 2 -> d \div 1000000 [] OTHER -> d \div 1000000000
TNsec(unit, d) == CASE unit = 0 -> 0 [] unit = 1 -> (d % 1000) * 1000000 [] unit = 2 -> (d % 1000000) * 1000 [] OTHER -> d % 1000000000
TimerStep(st, c) ==
    CASE c.op = OP_DEL ->
           IF st.tm.has THEN Out({0}, "any", [st EXCEPT !.tm = NoTimer, !.tmevs = {}], NoSet, NoCreate, 0)
                        ELSE Refuse({ENOENT}, st)
      [] c.op = OP_DISABLE ->
           IF st.tm.has THEN Out({0}, "some", [st EXCEPT !.tm.dis = TRUE], [NoSet EXCEPT !.has = TRUE], NoCreate, 0)
                        ELSE Refuse({ENOENT}, st)
      [] OTHER ->
           LET abs == Bit(c.fflags, 2)
               once == Bit(c.flags, 0) \/ Bit(c.flags, 1)
               sec == TSec(c.fflags % 4, c.data)   nsec == TNsec(c.fflags % 4, c.data)
           IN  Out({0}, "some",
                   [st EXCEPT !.tm = [has |-> TRUE, real |-> abs, fl |-> c.flags % 4, dis |-> FALSE],   \* A3: like a fresh add
                              !.tmevs = {"IN", "HUP", "ERR"}],
                   [has |-> TRUE, abs |-> abs, sec |-> sec, nsec |-> nsec,
                    isec |-> IF once THEN 0 ELSE sec, insec |-> IF once THEN 0 ELSE nsec],
                   IF st.tm.has THEN NoCreate ELSE [has |-> TRUE, real |-> abs, cloexec |-> c.cx], 0)
ProcStep(st, c) ==
    IF c.op \in {OP_DEL, OP_DISABLE}
    THEN IF st.pf THEN Out({0}, "any", [st EXCEPT !.pf = FALSE, !.pfevs = {}], NoSet, NoCreate, 0) ELSE Refuse({ENOENT}, st)
    ELSE IF st.pf THEN Refuse({EEXIST}, st)
    ELSE IF c.identc = "nopid" THEN Refuse({ESRCH}, st)
    ELSE Out({0}, "some", [st EXCEPT !.pf = TRUE, !.pfevs = {"IN", "ONESHOT", "HUP", "ERR"}], NoSet, NoCreate, 0)

EvStep(st, c) == IF ValFaults(c) # {} THEN Refuse(ValFaults(c), st)
                 ELSE CASE c.event \in {EV_READ, EV_WRITE} -> RwStep(st, c)
                        [] c.event = EV_TIMER -> TimerStep(st, c)
                        [] OTHER -> ProcStep(st, c)

(* ------------------------------------------------------------------ B. selection and identity *)
NULLT == -1                                   \* the NULL thread / "no such thread"
ThreadGet(n, k) == IF k >= 0 /\ k < n THEN k ELSE NULLT                    \* B1
RRInRange(n, r) == r \in 0..(n - 1)                                       \* B2
RRSucc(n, prev, r) == r = (prev + 1) % n
CpuOf(bind, ncpu, k) == IF bind THEN k % ncpu ELSE -1                     \* B6 (ncpu >= 1)
CountMax(setting, ncpu) == IF setting = 0 THEN ncpu ELSE setting          \* B4
Counted(st) == st \in {"starting", "running"}

(* ------------------------------------------------------------------ C. slots *)
TLS_COUNT == 2
TlsOk(t, i) == t # NULLT /\ i \in 0..(TLS_COUNT - 1)
TlsSetRc(t, i) == IF TlsOk(t, i) THEN 0 ELSE EINVAL
TlsSet(m, t, i, v) == IF TlsOk(t, i) THEN [m EXCEPT ![t][i] = v] ELSE m
TlsGet(m, t, i) == IF TlsOk(t, i) THEN m[t][i] ELSE 0

(* ------------------------------------------------------------------ E. signal table (capacity one) *)
NOPOOL == -1
SIGHUP == 1  SIGINT == 2  SIGKILL == 9  SIGUSR1 == 10  SIGUSR2 == 12  SIGTERM == 15
ShutSignals == {SIGINT, SIGTERM, SIGKILL}
SigAdd(slot, p) == p                                             \* latest registration wins (observed: one slot)
SigShuts(slot, sig) == IF sig \in ShutSignals THEN slot ELSE NOPOOL   \* pool on which tp_shutdown must be called
SigSlotAfter(slot, sig) == IF sig \in ShutSignals THEN NOPOOL ELSE slot

(* ------------------------------------------------------------------ D. settings texts *)
Ch(s, i) == SubSeq(s, i, i)
Digits == {"0", "1", "2", "3", "4", "5", "6", "7", "8", "9"}
IsDigits(v) == Len(v) > 0 /\ \A i \in 1..Len(v) : Ch(v, i) \in Digits
RECURSIVE StripZeros(_)
StripZeros(v) == IF Len(v) > 1 /\ Ch(v, 1) = "0" THEN StripZeros(SubSeq(v, 2, Len(v))) ELSE v
YesWords == {"1", "y", "Y", "yes", "Yes", "YES", "true", "True", "t", "T"}
NoWords  == {"0", "n", "N", "no", "No", "NO", "false", "False", "f", "F"}
(* effect of a yes/no text on the flag: "set" | "clear" | "keep" (not a yes/no word: left as it was) |
   "lenient" (empty, or only the first letter looks like yes/no: what the library does is recorded, not judged) *)
FlagEffect(v) == IF v \in YesWords THEN "set" ELSE IF v \in NoWords THEN "clear"
                 ELSE IF v = "" THEN "lenient"
                 ELSE IF Ch(v, 1) \in {"0", "n", "N", "f", "F", "1", "y", "Y", "t", "T"} THEN "lenient" ELSE "keep"
(* effect of a number text: <<"exact", canonical decimal>> | <<"lenient", "">> (not a plain decimal that fits 63 bits) *)
NumEffect(v) == IF IsDigits(v) /\ Len(StripZeros(v)) <= 18 THEN <<"exact", StripZeros(v)>> ELSE <<"lenient", "">>
(* names: ini sections and value names are matched without regard to case (the "i" of ini_vali_get), XML tags exactly *)
BindKeys(fmt) == IF fmt = "ini" THEN {"fBindToCPU", "fbindtocpu", "FBINDTOCPU"} ELSE {"fBindToCPU"}
CountKeys(fmt) == IF fmt = "ini" THEN {"threadsCountMax", "threadscountmax", "THREADSCOUNTMAX"} ELSE {"threadsCountMax"}
SectMatches(lookup, where) == (lookup \in {"tp", "TP", "Tp"}) /\ where = "tp"
DigitVal(ch) == CASE ch = "0" -> 0 [] ch = "1" -> 1 [] ch = "2" -> 2 [] ch = "3" -> 3 [] ch = "4" -> 4 [] ch = "5" -> 5
                  [] ch = "6" -> 6 [] ch = "7" -> 7 [] ch = "8" -> 8 [] OTHER -> 9
RECURSIVE NatOf(_)
NatOf(v) == IF Len(v) = 0 THEN 0 ELSE NatOf(SubSeq(v, 1, Len(v) - 1)) * 10 + DigitVal(Ch(v, Len(v)))    \* short decimal texts only
=============================================================================
