SPECIFICATION Spec
CONSTANTS
  SapNB = 256
CHECK_DEADLOCK FALSE
