SPECIFICATION Spec
CONSTANTS
  NIds = 2
  Ident = FALSE
  Dev = {"reply-not-delivered-to-callback"}
  JitClasses = {"zero"}
  Plan = "one"
  Kinds = {"good", "badauth", "wrongid", "wrongsrc", "reqcode"}
  MaxFlips = 1
  MaxReplies = 3
  AllowCancel = TRUE
  AllowDestroy = TRUE
  PortReuse = TRUE
INVARIANTS IDelivered
CHECK_DEADLOCK FALSE
