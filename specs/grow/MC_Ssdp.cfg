SPECIFICATION Spec
CONSTANTS
  Devs = {1, 2}
  Fix = {"destroyall", "server", "defflags", "stver", "adderr"}
  MaxLinks = 2
  MaxSvcs = 1
  MaxRecv = 1
  MaxFault = 1
  Cfgs = {1, 2, 3, 4, 5, 6, 7}
  UrlKinds = {1, 2}
  Targets = {1, 2, 3, 4, 5, 6, 7, 8, 9, 10, 11, 12, 13, 14, 15, 16, 17}
INVARIANTS NoViol NoCrash Reg Groups Allocs Ledger Search Announce
CHECK_DEADLOCK FALSE
