------------------------------ MODULE MC_TpApiObj ------------------------------
(* Exhaustive exploration of the object machine TpApiObj: every order of create / thread state steps / slot writes /
   round-robin calls / signal registrations and deliveries / shutdown / destroy on two pools, with the invariants
   of property groups B, C, E. *)
EXTENDS TpApiObj
CONSTANTS TlsPools, TlsThreads, TlsVals, NOf, Binds

VARIABLE os
NOfQ == (0 :> 2) @@ (1 :> 1)
NOfB == (0 :> 0) @@ (1 :> 2)        \* 0 = as many workers as cpus (2)
NOfS == (0 :> 0)
NOf3 == (0 :> 1) @@ (1 :> 1) @@ (2 :> 2)
Init == os = Obj0
ACreate(p) == /\ ~Alive(os, p) /\ \E b \in Binds : os' = Create(os, p, NOf[p], b, 2, "TP")
AStep(p, t) == /\ Alive(os, p) /\ t \in Workers(os, p)
               /\ \E to \in {"starting", "running", "stoping", "stop"} :
                     /\ OkSt(os, p, t, to)
                     /\ (to = "starting" => ~os.pool[p].shut)
                     /\ (to = "stoping" => os.pool[p].shut)             \* only the shutdown message stops a worker
                     /\ os' = St(os, p, t, to)
ATls(p) == /\ Alive(os, p) /\ p \in TlsPools
           /\ \E t \in TlsThreads \cup {-1, MaxN + 1}, i \in {0, 1, 2, -2}, v \in TlsVals : os' = TlsSetP(os, p, t, i, v)
ARR(p) == /\ Alive(os, p) /\ \E num \in 0..MaxN : OkRR(os, p, num) /\ os' = RR(os, p, num)
ASigAdd == \E p \in Pools \cup {NOPOOL} : (p = NOPOOL \/ Alive(os, p)) /\ os' = SigAddP(os, p)
ASig == \E sg \in {SIGHUP, SIGINT, SIGTERM, SIGUSR1} :
          LET s1 == SigCall(os, sg)
              w == s1.sig.want
              s2 == IF w = NOPOOL THEN s1 ELSE ShutdownSet(ShutdownCheck(s1, w), w)
          IN  /\ (w # NOPOOL => OkShutdownCheck(s1, w))
              /\ OkSigRet(s2) /\ os' = SigRet(s2)
AShutdown(p) == Alive(os, p) /\ os' = ShutdownSet(os, p)
ADestroy(p) == /\ Alive(os, p) /\ os.pool[p].shut /\ OkDestroy(os, p, 0) /\ os' = Destroy(os, p)
Next == \/ \E p \in Pools : ACreate(p) \/ ATls(p) \/ ARR(p) \/ AShutdown(p) \/ ADestroy(p) \/ (\E t \in 0..(MaxN - 1) : AStep(p, t))
        \/ ASigAdd \/ ASig
Spec == Init /\ [][Next]_os

(* B4 *) CountInRange == \A p \in Pools : Alive(os, p) => (os.pool[p].n \in 1..MaxN /\ Count(os, p) \in 0..os.pool[p].n)
(* B2 *) CursorInside == \A p \in Pools : Alive(os, p) => os.pool[p].rr \in -1..(os.pool[p].n - 1)
(* E  *) SlotNeverDead == os.slot # NOPOOL => Alive(os, os.slot)
         HandlerIdle == ~os.sig.active
(* C  *) DeadPoolsBlank == \A p \in Pools : ~Alive(os, p) => os.pool[p] = NoPool
         OutOfRangeNeverStored == \A p \in Pools : \A t \in ThrIdx : t > os.pool[p].n => os.pool[p].tls[t] = NoPool.tls[t]
Cells(q) == { <<t, i>> \in ThrIdx \X (0..(TLS_COUNT - 1)) : os.pool[q].tls[t][i] # os'.pool[q].tls[t][i] }
(* C: one call changes at most one cell of one pool and nothing else of that pool *)
TlsFrame == [][\A q \in Pools : (Alive(os, q) /\ Alive(os', q)) =>
                  /\ Cardinality(Cells(q)) <= 1
                  /\ (Cells(q) # {} => (os'.pool[q].th = os.pool[q].th /\ os'.pool[q].rr = os.pool[q].rr /\ os'.slot = os.slot
                                        /\ \A r \in Pools \ {q} : os'.pool[r] = os.pool[r]))]_os
(* E: a pool is shut by a signal only if it is the registered one; the table is empty afterwards *)
ShutStaysShut == [][\A q \in Pools : (Alive(os, q) /\ Alive(os', q) /\ os.pool[q].shut) => os'.pool[q].shut]_os
SignalEmptiesTable == [][\A q \in Pools : (Alive(os, q) /\ Alive(os', q) /\ ~os.pool[q].shut /\ os'.pool[q].shut /\ os.slot = q)
                            => os'.slot \in {NOPOOL, q}]_os
=============================================================================
