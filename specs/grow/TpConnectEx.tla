----------------------------- MODULE TpConnectEx -----------------------------
(* The retrying connector of the liblcb thread pool (growth task X04):
     tp_task_connect_ex_create / tp_task_connect_ex_handler / tp_task_connect_ex_start
     (src/threadpool/threadpool_task.c, include/threadpool/threadpool_task.h, Linux/epoll back end).

   Properties  (what a user of tp_task_connect_ex_create() relies on, for every outcome of every attempt,
   every callback return code, every moment of stop/destroy and of the time limit):

     X04.1 OneFinal      After create() returned 0 and unless the user stops/destroys the task or declines a retry
                         (failure report answered with something else than TP_TASK_CB_CONTINUE), the callback gets
                         EXACTLY ONE final report: error 0 with the connected socket in the task (tp_task_ident_get)
                         and the index of the address that answered, or error -1 ("cannot continue").  Never two,
                         never none.  create() that fails (EINVAL, -1) makes no callback at all.
     X04.2 FailReports   With TP_TASK_F_CB_AFTER_EVERY_READ every attempt that fails after create() returned is
                         reported exactly once - its errno and its address index - before anything else is tried;
                         without the flag failed attempts are silent.
     X04.3 Schedule      The attempts and the pauses follow the documented order (header pseudo code):
                         round robin (flag, or max_tries = 0):  a0 a1 .. a(n-1)  pause  a0 a1 ..   max_tries rounds;
                         otherwise:  a0 pause a0 .. (max_tries times)  pause a1 ..;  a pause only if retry_delay # 0;
                         TP_TASK_CONNECT_F_INITIAL_DELAY puts one pause before the first attempt.
                         Hence  attempts <= max_tries * addrs_count  (max_tries # 0) and every address is tried.
     X04.4 TimeLimit     Once time_limit has run out no further attempt and no further pause is started (the failure
                         noticed after that moment is the last; the final report is -1); no pause is scheduled that
                         would end after the limit.
     X04.5 Sockets       Every socket opened for an attempt that failed is closed exactly once before the report /
                         the next attempt; the socket of the successful attempt stays open and is handed over once;
                         nothing is closed twice.
     X04.6 Cancel        tp_task_stop()/tp_task_destroy() during a pause or a pending connect cancels everything:
                         no timer stays armed, no registration stays, no later attempt, no later callback; destroy
                         with TP_TASK_F_CLOSE_ON_DESTROY closes the pending socket; destroy leaves no timer
                         descriptor behind.
     X04.7 Arming        While connecting the socket is registered one-shot for write and (timeout # 0) the timer is
                         programmed with `timeout`; while pausing only the timer is armed, with `retry_delay`.
     X04.8 Terminates    With max_tries # 0 (or a time limit that runs out) the connector comes to rest, under
                         fairness of the environment (every pending connect is answered or times out, every pause ends).

   Shape: the whole state is ONE record `s`; every step of the C code is a pure operator s -> s (idiom of
   specs/tp/TpTask.tla).  MC_TpConnectEx explores the operators against a nondeterministic environment,
   TraceTpConnectEx applies them to the events logged from the real code.  Findings travel in s.notes:
       "PROPERTY:<clause>:<what>"   a clause above does not hold,
       "DEVIATION:<name>"           a known defect of the code, modelled exactly (the state follows the code). *)
EXTENDS Integers, Sequences, FiniteSets, TLC

CB_CONTINUE == 2
ETIMEDOUT == 110   EINVAL == 22   EINPROGRESS == 115   EINTR == 4
GIVEUP == -1                 \* error of the final "cannot continue" report / of a create() that cannot even start
PAUSE == -1                  \* item of s.hist: a pause (retry_delay); items >= 0 are address indexes

Note(s, n) == [s EXCEPT !.notes = @ \cup {n}]
Chk(s, ok, n) == IF ok THEN s ELSE Note(s, n)

(* parameters: addrs_count n, max_tries mt, flags rr / idelay, retry_delay rd, per-try timeout tmo, time_limit tl (ms),
   task flags every (TP_TASK_F_CB_AFTER_EVERY_READ), cod (TP_TASK_F_CLOSE_ON_DESTROY) *)
NoPrm == [n |-> 1, mt |-> 1, rr |-> FALSE, idelay |-> FALSE, rd |-> 0, tmo |-> 0, tl |-> 0, every |-> FALSE, cod |-> FALSE]
EffRR(p) == p.mt = 0 \/ p.rr                      \* "0 - no limit, also set TP_TASK_CONNECT_F_ROUND_ROBIN"
Invalid(p) == \/ p.idelay /\ p.rd = 0
              \/ p.tl # 0 /\ (p.tmo = 0 \/ p.tmo >= p.tl \/ p.rd >= p.tl)

(* ---------------------------------------------------------------- X04.3: the documented schedule *)
Range(a, b) == [i \in 1..(b - a + 1) |-> a + i - 1]
RECURSIVE SchedRR(_, _, _)
SchedRR(p, rounds, r) ==          \* rounds r .. rounds-1
  IF r >= rounds THEN << >>
  ELSE (IF r > 0 /\ p.rd # 0 THEN <<PAUSE>> ELSE << >>) \o Range(0, p.n - 1) \o SchedRR(p, rounds, r + 1)
RECURSIVE SchedSeq(_, _)
SchedSeq(p, k) ==                 \* tries k .. n*mt-1 ; try k goes to address k \div mt
  IF k >= p.n * p.mt THEN << >>
  ELSE (IF k > 0 /\ p.rd # 0 THEN <<PAUSE>> ELSE << >>) \o <<k \div p.mt>> \o SchedSeq(p, k + 1)
Sched(p, maxRounds) ==
  (IF p.idelay /\ p.rd # 0 THEN <<PAUSE>> ELSE << >>) \o
  (IF EffRR(p) THEN SchedRR(p, IF p.mt = 0 THEN maxRounds ELSE p.mt, 0) ELSE SchedSeq(p, 0))
IsPrefix(a, b) == Len(a) <= Len(b) /\ a = SubSeq(b, 1, Len(a))
RoundsOf(h, p) == (Len(h) \div p.n) + 2

(* ---------------------------------------------------------------- state *)
New == [pc |-> "none",          \* none | sock | conn | arm | cb | incb | ret | wait
        ctx |-> "",             \* create | handler : who runs tp_task_connect_ex_start
        phase |-> "none",       \* none | delay | connecting | idle (retry declined) | done | failed (create) | stopped | dead
        prm |-> NoPrm, rc |-> 0,
        off |-> 0, cur |-> 0,   \* tptask->offset (try_no) / tptask->tot_transfered_size (addrs_cur)
        sock |-> 0,             \* tp_data.ident: socket id (= number of the attempt that opened it), 0 = (uintptr_t)-1
        timer |-> "none",       \* none | delay | timeout : what tp_timer is armed for
        ioreg |-> FALSE,        \* tp_data registered (EPOLLOUT, one-shot)
        clock |-> "ok",         \* ok | low (0 < remaining <= retry_delay) | expired (remaining <= 0); only read if tl # 0
        rep |-> [err |-> 0, ai |-> 0],     \* the report being delivered
        \* ghosts
        hist |-> << >>, natt |-> 0, lastAddr |-> 0, open |-> {}, closed |-> {}, handed |-> 0, owned |-> 0,
        nfinal |-> 0, nfail |-> 0, nfailrep |-> 0, ncb |-> 0, cancelled |-> FALSE, declined |-> FALSE,
        devs |-> {}, notes |-> {}]

Terminal == {"idle", "done", "failed", "stopped", "dead"}
Incr(s) == IF EffRR(s.prm) THEN [s EXCEPT !.cur = @ + 1] ELSE [s EXCEPT !.off = @ + 1]
Returned(s) == [s EXCEPT !.pc = "ret", !.rc = 0]
CloseSock(s) == [s EXCEPT !.open = @ \ {s.sock}, !.closed = @ \cup {s.sock}, !.sock = 0]
Hist(s, x) ==
  LET h == Append(s.hist, x)
      s1 == [s EXCEPT !.hist = h]
      ok == IsPrefix(h, Sched(s.prm, RoundsOf(h, s.prm)))
  IN IF ok THEN s1
     ELSE IF "index-reset" \in s.devs THEN Note(s1, "DEVIATION:schedule-broken:consequence-of-addr-index-reset")
     ELSE Note(s1, "PROPERTY:Schedule:attempt-or-pause-out-of-documented-order")

(* ---------------------------------------------------------------- tp_task_connect_ex_start *)
ToCb(s, e) == [s EXCEPT !.pc = "cb", !.rep = [err |-> e, ai |-> s.cur]]
CreateFailed(s, rc) ==           \* tp_task_destroy() inside create: nothing was armed, ident = -1
  [s EXCEPT !.pc = "ret", !.rc = rc, !.phase = "failed", !.timer = "none", !.ioreg = FALSE]
GiveUp(s) == IF s.ctx = "create" THEN CreateFailed(s, GIVEUP) ELSE ToCb(s, GIVEUP)
ToConnect(s) ==                  \* try_connect: the next step is socket()
  LET s1 == [s EXCEPT !.pc = "sock"]
      s2 == IF ~s.cancelled THEN s1
            ELSE IF "stop-left-timer" \in s.devs THEN Note(s1, "DEVIATION:attempt-after-stop:consequence-of-retry-delay-timer-left-armed")
            ELSE Note(s1, "PROPERTY:Cancel:attempt-after-stop")
  IN Chk(s2, s.nfinal = 0, "PROPERTY:OneFinal:attempt-after-final-report")
ArmDelay(s, low) ==              \* shedule_delay_timer
  IF low THEN GiveUp(s)
  ELSE Returned(Hist([s EXCEPT !.timer = "delay", !.phase = "delay"], PAUSE))
StartCheck(s, doConnect) ==
  LET p == s.prm IN
  IF doConnect THEN ToConnect(s)
  ELSE IF s.off = 0 /\ s.cur = 0
    THEN (IF p.idelay /\ p.rd # 0 THEN ArmDelay(s, FALSE) ELSE ToConnect(s))       \* first attempt: no time check
  ELSE IF p.tl # 0 /\ s.clock = "expired" THEN GiveUp(s)
  ELSE LET low == p.tl # 0 /\ s.clock = "low" IN
    IF EffRR(p)
    THEN IF s.cur >= p.n
         THEN LET s1 == [s EXCEPT !.cur = 0, !.off = @ + 1] IN
              IF p.mt # 0 /\ s1.off >= p.mt THEN GiveUp(s1)
              ELSE IF p.rd # 0 THEN ArmDelay(s1, low) ELSE ToConnect(s1)
         ELSE ToConnect(s)
    ELSE LET s1 == IF s.off >= p.mt THEN [s EXCEPT !.cur = @ + 1, !.off = 0] ELSE s IN
         IF s1.cur >= p.n THEN GiveUp(s1)
         ELSE IF p.rd # 0 THEN ArmDelay(s1, low) ELSE ToConnect(s1)
(* start() returned e > 0: an attempt failed on the spot *)
StartErr(s, e) ==
  IF s.ctx = "create" THEN StartCheck(Incr(s), FALSE)                       \* create(): silent, next one
  ELSE LET s1 == [s EXCEPT !.nfail = @ + 1] IN
       IF s.prm.every THEN ToCb(s1, e) ELSE StartCheck(Incr(s1), FALSE)

(* socket() of skt_connect *)
SockResult(s, ok, e) ==
  LET s1 == Hist([s EXCEPT !.natt = @ + 1, !.lastAddr = s.cur], s.cur)
      s2 == Chk(s1, s.prm.tl = 0 \/ s.clock # "expired", "PROPERTY:TimeLimit:attempt-after-expiry")
  IN IF ok THEN [s2 EXCEPT !.pc = "conn", !.sock = s2.natt, !.open = @ \cup {s2.natt}, !.phase = "connecting"]
     ELSE StartErr([s2 EXCEPT !.phase = "connecting"], e)
(* connect() of skt_connect: 0 / EINPROGRESS / EINTR go on, anything else closes the socket *)
ConnResult(s, rc, e) ==
  IF rc = 0 \/ e \in {EINPROGRESS, EINTR} THEN [s EXCEPT !.pc = "arm"]
  ELSE StartErr(CloseSock(s), e)
(* tp_task_start(): ok -> the attempt is pending; curAfter = addrs_cur after the call (must be unchanged) *)
ArmResult(s, ok, e, curAfter) ==
  LET s0 == IF curAfter = s.cur THEN s
            ELSE IF curAfter = 0
              THEN Note([s EXCEPT !.cur = 0, !.devs = @ \cup {"index-reset"}], "DEVIATION:tp_task_start-resets-addr-index")
            ELSE Note([s EXCEPT !.cur = curAfter], "PROPERTY:Schedule:addr-index-changed-by-arming")
  IN IF ~ok THEN StartErr(CloseSock(s0), e)
     ELSE Returned([s0 EXCEPT !.ioreg = TRUE, !.timer = IF s.prm.tmo # 0 THEN "timeout" ELSE "none", !.phase = "connecting"])

(* ---------------------------------------------------------------- events delivered by the loop *)
FailLoop(s, e) ==                 \* "Error, retry": the socket is closed first
  LET s1 == [CloseSock(s) EXCEPT !.nfail = @ + 1] IN
  IF s.prm.every THEN ToCb(s1, e) ELSE StartCheck(Incr(s1), FALSE)
EvDelay(s) == StartCheck([s EXCEPT !.ctx = "handler", !.timer = "none"], TRUE)
EvIo(s, e) ==                     \* tp_task_stop(), then the verdict
  LET s1 == [s EXCEPT !.ctx = "handler", !.ioreg = FALSE, !.timer = "none"] IN
  IF e = 0 THEN ToCb(s1, 0) ELSE FailLoop(s1, e)
EvTimeout(s) == FailLoop([s EXCEPT !.ctx = "handler", !.ioreg = FALSE, !.timer = "none"], ETIMEDOUT)

(* ---------------------------------------------------------------- the callback *)
CbBegin(s) ==
  LET fin == s.rep.err \in {0, GIVEUP}
      s1 == [s EXCEPT !.pc = "incb", !.ncb = @ + 1,
                      !.nfinal = IF fin THEN @ + 1 ELSE @, !.nfailrep = IF fin THEN @ ELSE @ + 1,
                      !.handed = IF s.rep.err = 0 THEN s.sock ELSE @]
      s2 == Chk(s1, ~fin \/ s.nfinal = 0, "PROPERTY:OneFinal:second-final-report")
      s3 == IF ~s.cancelled THEN s2
            ELSE IF "stop-left-timer" \in s.devs THEN Note(s2, "DEVIATION:callback-after-stop:consequence-of-retry-delay-timer-left-armed")
            ELSE Note(s2, "PROPERTY:Cancel:callback-after-stop")
      s4 == IF s.rep.err = GIVEUP \/ s.rep.ai = s.lastAddr THEN s3
            ELSE IF "index-reset" \in s.devs THEN Note(s3, "DEVIATION:report-carries-wrong-address-index:consequence-of-addr-index-reset")
            ELSE Note(s3, "PROPERTY:FailReports:report-carries-wrong-address-index")
      s5 == Chk(s4, s.rep.err # 0 \/ (s.sock # 0 /\ s.sock \in s.open), "PROPERTY:Sockets:success-without-open-socket")
  IN Chk(s5, fin \/ s.prm.every, "PROPERTY:FailReports:failure-reported-without-flag")
CbEnd(s, ret) ==
  IF s.phase = "dead" THEN [s EXCEPT !.pc = "wait"]                              \* destroyed inside the callback
  ELSE IF s.rep.err \in {0, GIVEUP} THEN [s EXCEPT !.pc = "ret", !.phase = IF s.cancelled THEN "stopped" ELSE "done"]
  ELSE IF ret = CB_CONTINUE THEN StartCheck(Incr(s), FALSE)
  ELSE [s EXCEPT !.pc = "ret", !.declined = TRUE, !.phase = IF s.cancelled THEN "stopped" ELSE "idle"]

(* ---------------------------------------------------------------- the owner (on the pool thread, between events or in a callback) *)
(* tp_task_stop; tmrArmedAfter = the timer is still programmed when the call returns *)
ApiStop(s, tmrArmedAfter) ==
  LET s1 == [s EXCEPT !.ioreg = FALSE, !.cancelled = TRUE] IN
  IF tmrArmedAfter /\ s.timer = "delay" /\ s.prm.tmo = 0
  THEN Note([s1 EXCEPT !.devs = @ \cup {"stop-left-timer"}], "DEVIATION:tp_task_stop-leaves-retry-delay-timer-armed:timeout-0")
  ELSE Chk([s1 EXCEPT !.timer = "none", !.phase = IF s.pc = "incb" THEN @ ELSE "stopped"],
           ~tmrArmedAfter, "PROPERTY:Cancel:timer-armed-after-stop")
(* tp_task_destroy; tmrOpenAfter = the task's timer descriptor still exists when the call returns *)
ApiDestroy(s, tmrOpenAfter, tmrArmedAfter) ==
  LET s1 == [s EXCEPT !.ioreg = FALSE, !.cancelled = TRUE, !.timer = "none", !.phase = "dead",
                      !.pc = IF s.pc = "incb" THEN "incb" ELSE "wait"]
      s2 == IF s.sock # 0 /\ s.prm.cod THEN CloseSock(s1) ELSE [s1 EXCEPT !.owned = s.sock, !.sock = 0]
  IN IF ~tmrOpenAfter THEN s2
     ELSE IF s.prm.tmo = 0
       THEN Note(s2, IF tmrArmedAfter THEN "DEVIATION:tp_task_destroy-leaves-retry-delay-timer-armed:timeout-0"
                                      ELSE "DEVIATION:tp_task_destroy-leaks-retry-delay-timer-descriptor:timeout-0")
     ELSE Note(s2, "PROPERTY:Cancel:timer-descriptor-left-after-destroy")

ClockMove(s, to) == [s EXCEPT !.clock = to]
ToWait(s) == [s EXCEPT !.pc = "wait"]                 \* create() returned / the handler returned to the loop

(* ---------------------------------------------------------------- tp_task_connect_ex_create *)
ApiCreate(p) ==
  LET s0 == [New EXCEPT !.prm = p, !.ctx = "create"] IN
  IF Invalid(p) THEN CreateFailed(s0, EINVAL) ELSE StartCheck(s0, FALSE)

(* ---------------------------------------------------------------- state predicates (invariants of the model) *)
Resting(s) == s.pc \in {"ret", "wait"}
ExpectOpen(s) == (IF s.sock # 0 THEN {s.sock} ELSE {}) \cup (IF s.owned # 0 THEN {s.owned} ELSE {})
InvNoFinding(s) == s.notes = {}
InvOneFinal(s) == /\ s.nfinal <= 1
                  /\ (Resting(s) /\ s.phase = "done" => s.nfinal = 1)
                  /\ (s.phase = "failed" => s.ncb = 0)
                  /\ (Resting(s) /\ s.nfinal = 1 => s.phase \in {"done", "stopped", "dead"})
                  /\ (Resting(s) /\ s.phase \in Terminal \ {"failed"} /\ ~s.cancelled /\ ~s.declined => s.nfinal = 1)   \* never none
InvFailReports(s) == Resting(s) \/ s.pc = "sock" => IF s.prm.every THEN s.nfailrep = s.nfail ELSE s.nfailrep = 0
InvSchedule(s) == /\ IsPrefix(s.hist, Sched(s.prm, RoundsOf(s.hist, s.prm)))
                  /\ (s.prm.mt # 0 => s.natt <= s.prm.mt * s.prm.n)
InvSockets(s) == /\ (Resting(s) \/ s.pc \in {"sock", "cb"} => s.open = ExpectOpen(s))
                 /\ s.open \cap s.closed = {}
                 /\ (s.handed # 0 => s.handed \in s.open \/ s.phase = "dead" \/ s.cancelled)
InvCancel(s) == /\ (Resting(s) /\ (s.phase \in Terminal \/ s.cancelled) => s.timer = "none" /\ ~s.ioreg)
                /\ (s.phase = "dead" /\ s.prm.cod => s.open = {})
InvArming(s) == Resting(s) => /\ (s.phase = "delay" => s.timer = "delay" /\ s.sock = 0 /\ ~s.ioreg)
                              /\ (s.phase = "connecting" => s.sock # 0 /\ s.ioreg /\ (s.timer = IF s.prm.tmo # 0 THEN "timeout" ELSE "none"))
InvInitialDelay(s) == s.prm.idelay /\ s.hist # << >> => s.hist[1] = PAUSE
=============================================================================
