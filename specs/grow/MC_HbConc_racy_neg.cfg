SPECIFICATION Spec
CONSTANTS
  NZ = 2
  NE = 3
  NK = 2
  Threads = {1, 2}
  Protos = {"uadd", "del", "look", "enum"}
  AtomicTotal = FALSE
  EnumRks = {{}, {0}}
INVARIANTS TotalNonNeg
CHECK_DEADLOCK TRUE
