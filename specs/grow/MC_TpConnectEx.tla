--------------------------- MODULE MC_TpConnectEx ---------------------------
(* Exhaustive exploration of ONE connector life (TpConnectEx) against a nondeterministic environment: every
   parameter combination of the configuration, every outcome of every attempt (socket() fails, connect() fails at
   once, the registration fails, refused later, timed out, connected), every callback return code, stop / destroy
   by the owner at every rest point and inside every callback, the time limit running low / out during any attempt.
   DevReset / DevStop switch the two known defects of the shipped code on (TLC must then find the violated clause). *)
EXTENDS TpConnectEx
CONSTANTS Ns, Mts, Rds, Tmos, Tls,    \* sets of addrs_count, max_tries, retry_delay, timeout, time_limit
          MaxAtt,                     \* bound on attempts (needed for max_tries = 0 and for DevReset)
          OwnerOps,                   \* BOOLEAN: stop/destroy are explored
          DevReset, DevStop           \* BOOLEAN: tp_task_start() clears addrs_cur / tp_task_stop() keeps the pause timer (timeout 0)
VARIABLE s
vars == <<s>>

Prms == {p \in [n : Ns, mt : Mts, rr : BOOLEAN, idelay : BOOLEAN, rd : Rds, tmo : Tmos, tl : Tls, every : BOOLEAN, cod : BOOLEAN] :
           (p.tl # 0 => p.tmo # 0)}       \* (the other invalid combinations stay in: create() must refuse them)
Init == s = New
Create == /\ s.pc = "none" /\ \E p \in Prms : s' = ApiCreate(p)
Ret == /\ s.pc = "ret" /\ s' = ToWait(s)
Sock == /\ s.pc = "sock" /\ s.natt < MaxAtt
        /\ \E ok \in BOOLEAN : s' = SockResult(s, ok, 24)
Conn == /\ s.pc = "conn"
        /\ \E r \in {<<0, 0>>, <<-1, EINPROGRESS>>, <<-1, 101>>} : s' = ConnResult(s, r[1], r[2])
Arm == /\ s.pc = "arm"
       /\ \E ok \in BOOLEAN : s' = ArmResult(s, ok, 12, IF DevReset THEN 0 ELSE s.cur)
DelayExpires == /\ s.pc = "wait" /\ s.phase = "delay" /\ s.timer = "delay" /\ s' = EvDelay(s)
ConnectSucceeds == /\ s.pc = "wait" /\ s.phase = "connecting" /\ s.ioreg /\ s' = EvIo(s, 0)
ConnectRefused == /\ s.pc = "wait" /\ s.phase = "connecting" /\ s.ioreg
                  /\ \E e \in {111, 113} : s' = EvIo(s, e)
ConnectTimesOut == /\ s.pc = "wait" /\ s.phase = "connecting" /\ s.timer = "timeout" /\ s' = EvTimeout(s)
TimeLimitExpires == /\ s.pc = "wait" /\ s.phase = "connecting" /\ s.prm.tl # 0        \* time passes while an attempt is pending
                    /\ \E to \in {"low", "expired"} : (s.clock = "ok" \/ (s.clock = "low" /\ to = "expired")) /\ s' = ClockMove(s, to)
StopLeaves(t) == DevStop /\ t.timer = "delay" /\ t.prm.tmo = 0
Callback == /\ s.pc = "cb"
            /\ LET s1 == CbBegin(s) IN
               \E act \in (IF OwnerOps THEN {"none", "stop", "destroy"} ELSE {"none"}), ret \in {0, CB_CONTINUE} :
                  /\ (act # "none" => ret = 0)           \* a task that was stopped/destroyed in the callback does not ask for more
                  /\ s' = CbEnd(CASE act = "stop" -> ApiStop(s1, FALSE) [] act = "destroy" -> ApiDestroy(s1, FALSE, FALSE) [] OTHER -> s1, ret)
Stop == /\ OwnerOps /\ s.pc = "wait" /\ s.phase \in {"delay", "connecting"} /\ ~s.cancelled
        /\ s' = ApiStop(s, StopLeaves(s))
Destroy == /\ OwnerOps /\ s.pc = "wait" /\ s.phase # "dead" /\ s.phase # "failed"
           /\ s' = ApiDestroy(s, DevStop /\ s.prm.tmo = 0 /\ \E i \in 1..Len(s.hist) : s.hist[i] = PAUSE, StopLeaves(s))
Next == Create \/ Ret \/ Sock \/ Conn \/ Arm \/ DelayExpires \/ ConnectSucceeds \/ ConnectRefused \/ ConnectTimesOut \/ TimeLimitExpires
        \/ Callback \/ Stop \/ Destroy
Spec == Init /\ [][Next]_vars /\ WF_vars(Next)

(* the clauses, as invariants over the ghosts *)
NoFinding == InvNoFinding(s)
OneFinal == InvOneFinal(s)
FailReports == InvFailReports(s)
Schedule == InvSchedule(s)
Sockets == InvSockets(s)
Cancel == InvCancel(s)
Arming == InvArming(s)
InitialDelay == InvInitialDelay(s)
Bounded == s.natt <= MaxAtt
(* X04.8: with a bound on the tries the connector comes to rest (MaxAtt does not cut such behaviours) *)
Terminates == (s.pc # "none" /\ s.prm.mt # 0) ~> (s.pc = "wait" /\ s.phase \in Terminal)
(* the connector rests without a final report only if a failure report was answered without CONTINUE *)
IdleOnlyByDeclining == [](s.pc = "wait" /\ s.phase = "idle" => s.prm.every /\ s.declined)
(* reachability (vacuity): each of these must be VIOLATED *)
ReachSuccessOnLast == ~(s.phase = "done" /\ s.rep.err = 0 /\ s.prm.mt # 0 /\ s.natt = s.prm.mt * s.prm.n /\ s.prm.n > 1)
ReachGiveUpByLimit == ~(s.phase = "done" /\ s.rep.err = GIVEUP /\ s.clock = "expired")
ReachGiveUpLow == ~(s.phase = "done" /\ s.rep.err = GIVEUP /\ s.clock = "low" /\ s.natt < s.prm.mt * s.prm.n)
ReachDestroyInPause == ~(s.phase = "dead" /\ s.hist # << >> /\ s.hist[Len(s.hist)] = PAUSE /\ s.ncb = 0)
=============================================================================
