SPECIFICATION Spec
CONSTANTS
  Devs = {1, 2, 3, 4, 5, 6, 7}
  VariantFamily = "all"
INVARIANTS Sane
CHECK_DEADLOCK FALSE
