---------------------------- MODULE MC_HostNames ----------------------------
(* Exhaustive exploration of the host name list (HostNames.tla): NObj list objects, one step per API call, allocation
   failures at every allocation of a call.  The postconditions HN1..HN6 are evaluated in every step (violations are
   collected in `bad`); Dev selects the deviations of the shipped code (negative controls).  With Emit = TRUE the calls
   of a random walk are printed and replayed on the real header by rig/checks/x09.py. *)
EXTENDS HostNames, TLC, Json
CONSTANTS NObj, Names, MaxNames, Dev, Emit
VARIABLES objs, heap, star, leak, ev, bad
vars == << objs, heap, star, leak, ev, bad >>
Idx == 1..NObj
Live(i) == HnIsObj(objs[i])
D(c, name) == IF c THEN {} ELSE {name}

AddPost(o, n, fail, r) ==
  /\ (HnBadArg(n) => r.rc = HnEINVAL /\ r.o = o)
  /\ (r.rc = 0 /\ n = "*" => r.o.any = 1 /\ r.o.names = o.names)
  /\ (r.rc = 0 /\ n # "*" => /\ HnHas(r.o, n) /\ HnSet(r.o) = HnSet(o) \cup {HnFold(n)} /\ r.o.any = o.any
                              /\ SubSeq(r.o.names, 1, Len(o.names)) = o.names
                              /\ (HnHas(o, n) => r.o = o))
  /\ (r.rc \notin {0, HnEINVAL} => r.rc = HnENOMEM /\ fail # 0 /\ r.o.names = o.names /\ r.o.any = o.any)
  /\ (fail = 0 => r.rc \in {0, HnEINVAL})
FindPost(o, n, rc) ==
  IF HnBadArg(n) THEN rc = HnEINVAL
  ELSE (rc = 0) = (\E i \in 1..Len(o.names) : Len(o.names[i]) = Len(n) /\ HnFold(o.names[i]) = HnFold(n)) /\ rc \in {0, HnENOENT}
ClonePost(o, fail, r) ==
  /\ (r.rc = 0 => r.o.names = o.names /\ r.o.any = o.any)
  /\ (r.rc # 0 => r.rc = HnENOMEM /\ fail # 0 /\ r.o = HnDead)
  /\ (fail = 0 => r.rc = 0)

Step(e, o2, v) == /\ objs' = o2 /\ ev' = (IF Emit THEN e ELSE << >>) /\ bad' = bad \cup v

Init == objs = [i \in Idx |-> HnDead] /\ heap = [i \in Idx |-> FALSE] /\ star = [i \in Idx |-> FALSE] /\ leak = 0 /\ ev = << >> /\ bad = {}
DoNew(i, kind, fail) ==
  /\ ~Live(i)
  /\ LET r == HnNew(kind, fail) IN
     /\ Step([op |-> "hn.new", i |-> i - 1, kind |-> kind, fail |-> fail], [objs EXCEPT ![i] = r.o], D((fail = 0 \/ kind = "e") = (r.rc = 0), "NewPost"))
     /\ heap' = [heap EXCEPT ![i] = (kind = "h")] /\ star' = [star EXCEPT ![i] = FALSE] /\ UNCHANGED leak
DoAdd(i, n, fail) ==
  /\ Live(i)
  /\ LET r == HnAdd(objs[i], n, fail) IN
     /\ Len(r.o.names) <= MaxNames
     /\ Step([op |-> "hn.add", i |-> i - 1, name |-> n, fail |-> fail], [objs EXCEPT ![i] = r.o], D(AddPost(objs[i], n, fail, r), "AddPost"))
     /\ star' = [star EXCEPT ![i] = @ \/ (n = "*" /\ r.rc = 0)] /\ UNCHANGED << heap, leak >>
DoFind(i, n) ==
  /\ Live(i)
  /\ Step([op |-> "hn.find", i |-> i - 1, name |-> n, fail |-> 0], objs, D(FindPost(objs[i], n, HnFind(objs[i], n)), "FindPost"))
  /\ UNCHANGED << heap, star, leak >>
DoCheck(i, n) ==
  /\ Live(i)
  /\ LET rc == HnCheck(objs[i], n, Dev) IN
     Step([op |-> "hn.check", i |-> i - 1, name |-> n, fail |-> 0], objs,
          D(IF HnBadArg(n) THEN rc = HnEINVAL ELSE (rc = 0) = (star[i] \/ HnFind(objs[i], n) = 0) /\ rc \in {0, HnENOENT}, "CheckPost"))
  /\ UNCHANGED << heap, star, leak >>
DoAny(i) ==
  /\ Live(i)
  /\ LET rc == HnCheckAny(objs[i], Dev) IN
     Step([op |-> "hn.any", i |-> i - 1], objs, D((rc = 0) = star[i] /\ rc \in {0, HnENOENT}, "AnyPost"))
  /\ UNCHANGED << heap, star, leak >>
DoClone(i, j, fail) ==
  /\ Live(i) /\ ~Live(j)
  /\ LET r == HnClone(objs[i], fail, Dev) IN
     /\ Step([op |-> "hn.clone", i |-> i - 1, j |-> j - 1, fail |-> fail], [objs EXCEPT ![j] = r.o], D(ClonePost(objs[i], fail, r), "ClonePost"))
     /\ heap' = [heap EXCEPT ![j] = TRUE] /\ star' = [star EXCEPT ![j] = star[i]] /\ leak' = leak + r.leak
DoDel(i) ==
  /\ Live(i)
  /\ Step([op |-> "hn.del", i |-> i - 1], [objs EXCEPT ![i] = HnDead], {})
  /\ UNCHANGED << heap, star, leak >>

Next ==
  \/ \E i \in Idx, kind \in {"h", "e"}, fail \in {0, 1} : DoNew(i, kind, fail)
  \/ \E i \in Idx, n \in Names, fail \in 0..2 : DoAdd(i, n, fail)
  \/ \E i \in Idx, n \in Names : DoFind(i, n) \/ DoCheck(i, n)
  \/ \E i \in Idx : DoAny(i) \/ DoDel(i)
  \/ \E i, j \in Idx, fail \in 0..(2 + MaxNames) : DoClone(i, j, fail)
Spec == Init /\ [][Next]_vars

(* random walks for the replay on the real code: ONE successor per step; the call kind is drawn first, then its arguments *)
NewFail == << 0, 0, 0, 0, 0, 0, 0, 1 >>
AddFail == << 0, 0, 0, 0, 0, 0, 0, 0, 0, 0, 1, 2 >>
OpBag == << "hn.new", "hn.new", "hn.add", "hn.add", "hn.add", "hn.add", "hn.add", "hn.add", "hn.find", "hn.find", "hn.check", "hn.check",
            "hn.any", "hn.clone", "hn.clone", "hn.del" >>
Pick(seq) == seq[RandomElement(1..Len(seq))]
SimNext ==
  LET live == {i \in Idx : Live(i)}  dead == Idx \ live
      ok(kd) == CASE kd = "hn.new" -> dead # {} [] kd = "hn.clone" -> live # {} /\ dead # {} [] OTHER -> live # {} IN
  \E kd \in {Pick(SelectSeq(OpBag, ok))} :
    CASE kd = "hn.new" -> \E i \in {RandomElement(dead)}, k \in {Pick(<< "h", "e" >>)}, f \in {Pick(NewFail)} : DoNew(i, k, f)
      [] kd = "hn.add" -> \E i \in {RandomElement(live)}, n \in {RandomElement(Names)}, f \in {Pick(AddFail)} :
                            IF Len(HnAdd(objs[i], n, f).o.names) <= MaxNames THEN DoAdd(i, n, f) ELSE DoFind(i, n)
      [] kd = "hn.find" -> \E i \in {RandomElement(live)}, n \in {RandomElement(Names)} : DoFind(i, n)
      [] kd = "hn.check" -> \E i \in {RandomElement(live)}, n \in {RandomElement(Names)} : DoCheck(i, n)
      [] kd = "hn.any" -> \E i \in {RandomElement(live)} : DoAny(i)
      [] kd = "hn.del" -> \E i \in {RandomElement(live)} : DoDel(i)
      [] kd = "hn.clone" -> \E i \in {RandomElement(live)}, j \in {RandomElement(dead)}, w \in {RandomElement(1..(2 * (3 + MaxNames)))} :
                              DoClone(i, j, IF w > 3 + MaxNames THEN 0 ELSE w - 1)
SimSpec == Init /\ [][SimNext]_vars

Inv == (\A i \in Idx : HnInv(objs[i])) = TRUE
PostOK == bad = {}
MemOK == leak = 0
EmitInv == Emit => PrintT(ToJson([lvl |-> TLCGet("level"), ev |-> ev]))
=============================================================================
