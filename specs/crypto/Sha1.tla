-------------------------------- MODULE Sha1 --------------------------------
(* FIPS 180-4 section 6.1 (SHA-1) as plain mathematics over byte sequences; reference for
   liblcb include/crypto/hash/sha1.h (C04, C07).   Sha1(msg) : bytes -> 20 digest bytes.
   Constants typed from FIPS 180-4 4.2.1 / 5.3.1; validated below against the FIPS 180 examples. *)
EXTENDS Words

Sha1BlockSize == 64
Sha1HashSize  == 20
Sha1Init == << <<26437, 8961>>, <<61389,43913>>, <<39098,56574>>, << 4146,21622>>, <<50130,57840>> >>
Sha1K == << <<23170,31129>>, <<28377,60321>>, <<36635,48348>>, <<51810,49622>> >>

Sha1Ch(x, y, z)     == W32Xor(W32And(x, y), W32And(W32Not(x), z))
Sha1Parity(x, y, z) == W32Xor(W32Xor(x, y), z)
Sha1Maj(x, y, z)    == W32Xor(W32Xor(W32And(x, y), W32And(x, z)), W32And(y, z))

\* 6.1.2 step 1: W_t = M_t (big endian) for t < 16, ROTL1(W_{t-3} xor W_{t-8} xor W_{t-14} xor W_{t-16}) after
RECURSIVE Sha1First16(_, _, _, _)
Sha1First16(m, off, t, w) == IF t = 16 THEN w
   ELSE Sha1First16(m, off, t + 1, Append(w, W32FromBE(m[off+4*t+1], m[off+4*t+2], m[off+4*t+3], m[off+4*t+4])))
RECURSIVE Sha1Sched(_, _)
Sha1Sched(w, t) == IF t = 80 THEN w     \* w holds W_0..W_{t-1} at positions 1..t
   ELSE Sha1Sched(Append(w, W32Rotl(W32Xor(W32Xor(w[t-2], w[t-7]), W32Xor(w[t-13], w[t-15])), 1)), t + 1)

Sha1Step(st, w, t) ==
   LET a == st[1]  b == st[2]  c == st[3]  d == st[4]  e == st[5]
       r == t \div 20
       f == IF r = 0 THEN Sha1Ch(b, c, d) ELSE IF r = 2 THEN Sha1Maj(b, c, d) ELSE Sha1Parity(b, c, d)
       tmp == W32Add5(W32Rotl(a, 5), f, e, Sha1K[r + 1], w[t + 1])
   IN << tmp, a, W32Rotl(b, 30), c, d >>
RECURSIVE Sha1Rounds(_, _, _)
Sha1Rounds(st, w, t) == IF t = 80 THEN st ELSE Sha1Rounds(Sha1Step(st, w, t), w, t + 1)

\* chaining value h, block = bytes off+1..off+64 of m
Sha1Compress(h, m, off) ==
   LET w == Sha1Sched(Sha1First16(m, off, 0, << >>), 16)
       r == Sha1Rounds(h, w, 0)
   IN << W32Add(h[1], r[1]), W32Add(h[2], r[2]), W32Add(h[3], r[3]), W32Add(h[4], r[4]), W32Add(h[5], r[5]) >>

\* 5.1.1: 0x80, zeros to 56 mod 64, 64-bit big-endian bit length
Sha1Pad(msg) == LET n == Len(msg) IN msg \o << 128 >> \o Zeros((119 - (n % 64)) % 64) \o BitLen8BE(n)
RECURSIVE Sha1Blocks(_, _, _, _)
Sha1Blocks(h, m, off, total) == IF off >= total THEN h ELSE Sha1Blocks(Sha1Compress(h, m, off), m, off + 64, total)
Sha1Absorb(h, m) == Sha1Blocks(h, m, 0, Len(m))
Sha1Out(h) == W32ToBE(h[1]) \o W32ToBE(h[2]) \o W32ToBE(h[3]) \o W32ToBE(h[4]) \o W32ToBE(h[5])
Sha1(msg) == Sha1Out(Sha1Absorb(Sha1Init, Sha1Pad(msg)))
Sha1Hex(msg) == HexOf(Sha1(msg))

(* ---- self validation: FIPS 180 example messages ---- *)
\* SHA1("abc") = a9993e364706816aba3e25717850c26c9cd0d89d
ASSUME Sha1(<< 97,98,99 >>) = << 169,153,62,54,71,6,129,106,186,62,37,113,120,80,194,108,156,208,216,157 >>
\* SHA1("") = da39a3ee5e6b4b0d3255bfef95601890afd80709
ASSUME Sha1(<< >>) = << 218,57,163,238,94,107,75,13,50,85,191,239,149,96,24,144,175,216,7,9 >>
\* SHA1("abcdbcdecdefdefgefghfghighijhijkijkljklmklmnlmnomnopnopq") = 84983e441c3bd26ebaae4aa1f95129e5e54670f1
ASSUME Sha1(<< 97,98,99,100,98,99,100,101,99,100,101,102,100,101,102,103,101,102,103,104,102,103,104,105,103,104,105,106,104,105,106,107,105,106,107,108,106,107,108,109,107,108,109,110,108,109,110,111,109,110,111,112,110,111,112,113 >>) = << 132,152,62,68,28,59,210,110,186,174,74,161,249,81,41,229,229,70,112,241 >>
\* SHA1(896-bit message "abcdefghbcdefghi...nopqrstu") = a49b2446a02c645bf419f995b67091253a04a259
ASSUME Sha1(<< 97,98,99,100,101,102,103,104,98,99,100,101,102,103,104,105,99,100,101,102,103,104,105,106,100,101,102,103,104,105,106,107,101,102,103,104,105,106,107,108,102,103,104,105,106,107,108,109,103,104,105,106,107,108,109,110,104,105,106,107,108,109,110,111,105,106,107,108,109,110,111,112,106,107,108,109,110,111,112,113,107,108,109,110,111,112,113,114,108,109,110,111,112,113,114,115,109,110,111,112,113,114,115,116,110,111,112,113,114,115,116,117 >>) = << 164,155,36,70,160,44,100,91,244,25,249,149,182,112,145,37,58,4,162,89 >>
=============================================================================
