-------------------------------- MODULE Hmac --------------------------------
(* RFC 2104 over an uninterpreted hash function (C07).
      HmacRFC(H, X, B, key, msg)   the RFC 2104 equation  H(K0 xor opad, H(K0 xor ipad, msg)),
                                   K0 = key (H(key) if longer than the block B) padded with zeros to B bytes
   H(_) maps a byte sequence to a digest (a byte sequence no longer than B); X(_,_) is the byte xor.  Both are
   operator parameters: MCHmac binds them to a free term algebra (so equality is syntactic and TLC checks the
   construction itself), TraceHash binds them to the concrete references Md5/Sha1/... and Bitwise xor.

   HmInit/HmUpdate/HmFinal is the implementation-shaped state machine of hmac_*_init/_update/_final in the liblcb
   headers, layered on HashStream: init decides the key>block branch, stores K0 xor opad in k_opad, feeds K0 xor ipad
   to the inner stream; update feeds the inner stream; final finishes the inner hash, runs the outer hash over
   k_opad then the inner digest, and wipes k_opad.  Properties (MCHmac, and TraceHash on recorded runs):
      at final   mac = HmacRFC(H, X, B, key, msg)   for every key length 0..3B, message and chunking
                 k_opad = zeros and the hash context holds nothing ("pads wiped") *)
EXTENDS HashStream

RECURSIVE HmMapXor(_, _, _, _, _)
HmMapXor(X(_, _), s, c, i, acc) == IF i > Len(s) THEN acc ELSE HmMapXor(X, s, c, i + 1, Append(acc, X(s[i], c)))
HmXorAll(X(_, _), s, c) == HmMapXor(X, s, c, 1, << >>)
HmIpad == 54       \* 0x36
HmOpad == 92       \* 0x5c
HmK0(H(_), B, key) == LET k == IF Len(key) > B THEN H(key) ELSE key IN k \o HsZeros(B - Len(k))
HmacRFC(H(_), X(_, _), B, key, msg) ==
   LET k0 == HmK0(H, B, key) IN H(HmXorAll(X, k0, HmOpad) \o H(HmXorAll(X, k0, HmIpad) \o msg))

(* the state machine; p is a HashStream parameter record of the underlying hash *)
HmInit(H(_), X(_, _), p, key) ==
   LET k0 == HmK0(H, p.B, key) IN
   [ key |-> key, msg |-> << >>,                                       \* ghosts
     kopad |-> HmXorAll(X, k0, HmOpad),
     inner |-> HsUpdate(HsInit(p), HmXorAll(X, k0, HmIpad)),
     mac |-> << >>, phase |-> "open" ]
HmUpdate(h, c) == [h EXCEPT !.inner = HsUpdate(@, c), !.msg = @ \o c]
\* By C04 (HsInvFinal) the digest a finished stream yields is H of the stream's message.
HmFinal(H(_), h) ==
   LET p  == h.inner.p
       fi == HsFinal(h.inner)
       d1 == H(fi.msg)
       fo == HsFinal(HsUpdate(HsUpdate(HsInit(p), h.kopad), d1))
   IN [h EXCEPT !.inner = fo, !.mac = H(fo.msg), !.kopad = HsZeros(p.B), !.phase = "final"]

HmInvMac(H(_), X(_, _), h)  == h.phase = "final" => h.mac = HmacRFC(H, X, h.inner.p.B, h.key, h.msg)
HmInvWiped(h) == h.phase = "final" => /\ h.kopad = HsZeros(h.inner.p.B)
                                       /\ h.inner.buf = << >> /\ h.inner.count = 0
HmInvInner(X(_, _), H(_), h) == h.phase = "open" =>
                    /\ HsInvCarry(h.inner)
                    /\ h.inner.msg = HmXorAll(X, HmK0(H, h.inner.p.B, h.key), HmIpad) \o h.msg
                    /\ Len(h.kopad) = h.inner.p.B
=============================================================================
