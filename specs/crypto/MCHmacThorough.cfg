SPECIFICATION Spec
CONSTANTS
  B = 4
  L = 1
  KeyAlphabet = {1, 2}
  MaxKeyLen = 7
  LongKeyLens = {8, 9, 10, 11, 12}
  MsgAlphabet = {0, 7}
  MaxMsgLen = 6
  MaxChunks = 4
INVARIANTS Inv_Mac Inv_Wiped Inv_Inner Inv_KeyBranch
CHECK_DEADLOCK FALSE
