----------------------------- MODULE HashStream -----------------------------
(* The streaming interface of the liblcb hash functions (md5_/sha1_/sha2_/gost3411_2012_ init/update/final),
   as a state machine over byte sequences, independent of the compression function (C04, streaming half).

   A parameter record p says which padding rule is in force:
      p.B     block size in bytes            p.L   size of the length field in bytes (Merkle-Damgaard kinds)
      p.kind  "MD"   : 0x80, zeros, message bit length in L bytes (p.be = TRUE big endian / FALSE little endian)
              "GOST" : GOST R 34.11-2012 stage 3: 0x01, zeros up to one block, ALWAYS exactly one more block,
                       no length field (the counter N and the checksum Sigma live in the compression reference)
   State record s:
      msg       (ghost) every byte handed to update so far
      count     number of bytes handed in (ctx->count; for GOST: counter/8 + buffer_usage)
      buf       the bytes waiting in ctx->buffer (the first count % B bytes of it)
      absorbed  sequence of B-byte blocks handed to the transform so far, in order
      phase     "open" | "final";  after final the context holds nothing (buf empty, count 0)

   HsUpdate is the three-way split all four *_update functions implement: (1) fill the partial block and flush it,
   (2) hand whole blocks to the transform straight from the caller's memory, (3) stash the tail.
   HsFinal is the "length does not fit -> one more block" rule.  The reference is HsPad/HsBlocks: plain mathematics
   on the whole message.  Properties (checked by TLC in MCHashStream for every message, content and chunking within
   the bound, and re-checked at real block sizes on every recorded trace by TraceHash):
      Inv_Carry   : Flatten(absorbed) \o buf = msg  /\  Len(buf) = count % B  /\ count = Len(msg)   after every update
      Inv_Final   : at final, absorbed = HsBlocks(HsPad(msg))   (hence the digest depends on msg only: chunking
                    independence, including empty updates)
      Inv_Zero    : after final buf = << >> and count = 0 (nothing of the message stays in the context) *)
EXTENDS Naturals, Sequences

RECURSIVE HsZeros(_)
HsZeros(n) == IF n = 0 THEN << >> ELSE << 0 >> \o HsZeros(n - 1)
RECURSIVE HsFlatten(_)
HsFlatten(bs) == IF bs = << >> THEN << >> ELSE Head(bs) \o HsFlatten(Tail(bs))
RECURSIVE HsBlocksAcc(_, _, _, _)
HsBlocksAcc(m, B, off, acc) == IF off >= Len(m) THEN acc ELSE HsBlocksAcc(m, B, off + B, Append(acc, SubSeq(m, off + 1, off + B)))
HsBlocks(m, B) == HsBlocksAcc(m, B, 0, << >>)                 \* Len(m) a multiple of B

\* bit length of an n-byte message as L bytes (n < 2^28, so only the low four bytes can be non-zero)
RECURSIVE HsLenLE(_, _)
HsLenLE(v, L) == IF L = 0 THEN << >> ELSE << v % 256 >> \o HsLenLE(v \div 256, L - 1)
RECURSIVE HsRev(_)
HsRev(s) == IF s = << >> THEN s ELSE Append(HsRev(Tail(s)), Head(s))
HsLenEnc(p, n) == LET v  == IF p.L >= 4 THEN n * 8 ELSE (n * 8) % (256 ^ p.L)       \* bit count modulo 2^(8L)
                      le == HsLenLE(v, p.L)
                  IN IF p.be THEN HsRev(le) ELSE le

(* ------------------------------------------------ reference: padding as the standards state it *)
HsPad(p, msg) ==
   LET n == Len(msg) IN
   IF p.kind = "GOST" THEN msg \o << 1 >> \o HsZeros(p.B - 1 - (n % p.B))
   ELSE msg \o << 128 >> \o HsZeros((2 * p.B - p.L - 1 - (n % p.B)) % p.B) \o HsLenEnc(p, n)

(* ------------------------------------------------ the implementation-shaped state machine *)
HsInit(p) == [p |-> p, msg |-> << >>, count |-> 0, buf |-> << >>, absorbed |-> << >>, phase |-> "open"]

HsUpdate(s, c) ==
   LET B == s.p.B
       n == Len(c)
       idx == s.count % B
       part == B - idx
   IN IF n = 0 THEN s                                             \* empty update: nothing changes
      ELSE IF n >= part
      THEN LET flush == IF idx # 0 THEN << s.buf \o SubSeq(c, 1, part) >> ELSE << >>       \* (1) fill + flush
               start == IF idx # 0 THEN part ELSE 0
               nb    == (n - start) \div B
               bulk  == HsBlocks(SubSeq(c, start + 1, start + nb * B), B)                  \* (2) zero-copy blocks
               tail  == SubSeq(c, start + nb * B + 1, n)                                   \* (3) stash
           IN [s EXCEPT !.msg = @ \o c, !.count = @ + n, !.absorbed = @ \o flush \o bulk, !.buf = tail]
      ELSE [s EXCEPT !.msg = @ \o c, !.count = @ + n, !.buf = @ \o c]

HsFinal(s) ==
   LET p == s.p
       B == p.B
       b1 == s.buf \o << IF p.kind = "GOST" THEN 1 ELSE 128 >>
       last == IF p.kind = "GOST" THEN << b1 \o HsZeros(B - Len(b1)) >>
               ELSE IF Len(b1) > B - p.L                                    \* length does not fit: extra block
                    THEN << b1 \o HsZeros(B - Len(b1)), HsZeros(B - p.L) \o HsLenEnc(p, s.count) >>
                    ELSE << b1 \o HsZeros(B - p.L - Len(b1)) \o HsLenEnc(p, s.count) >>
   IN [s EXCEPT !.absorbed = @ \o last, !.buf = << >>, !.count = 0, !.phase = "final"]

(* ------------------------------------------------ properties as state predicates on s *)
HsInvCarry(s) == s.phase = "open" =>
                    /\ HsFlatten(s.absorbed) \o s.buf = s.msg
                    /\ s.count = Len(s.msg)
                    /\ Len(s.buf) = s.count % s.p.B
                    /\ \A i \in 1..Len(s.absorbed) : Len(s.absorbed[i]) = s.p.B
HsInvFinal(s) == s.phase = "final" => s.absorbed = HsBlocks(HsPad(s.p, s.msg), s.p.B)
HsInvZero(s)  == s.phase = "final" => s.buf = << >> /\ s.count = 0
=============================================================================
