SPECIFICATION Spec
CONSTANTS
  B = 4
  L = 1
  KeyAlphabet = {1, 2}
  MaxKeyLen = 6
  LongKeyLens = {7, 8, 9, 10, 11, 12}
  MsgAlphabet = {0, 7}
  MaxMsgLen = 5
  MaxChunks = 3
INVARIANTS Reach_BlockKeyFinal
CHECK_DEADLOCK FALSE
