------------------------------- MODULE Words -------------------------------
(* Fixed-width machine words as plain mathematics that TLC can evaluate (TLC integers are 32-bit signed).
     16-bit "half"  : a natural 0..65535
     32-bit word    : << hi, lo >>              (two halves, most significant first)
     64-bit word    : << h3, h2, h1, h0 >>      (four halves, most significant first)
   and/or/xor on halves come from the community module Bitwise (Java overrides); shifts, rotations and
   additions are written with explicit powers of two and explicit carries so that no intermediate value
   leaves 0 .. 2^31-1.  Shared by Md5, Sha1, Sha256, Sha512, Streebog (C04/C07) and the cipher references. *)
EXTENDS Naturals, Sequences, Bitwise

M16 == 65536
P2tab == << 1, 2, 4, 8, 16, 32, 64, 128, 256, 512, 1024, 2048, 4096, 8192, 16384, 32768, 65536 >>
Pow2(n) == P2tab[n + 1]                        \* 0 <= n <= 16

Not16(x) == 65535 - x
\* rotate / shift a pair of halves: high part of (x:y) shifted left by n (0 <= n <= 16)
ShlPair(x, y, n) == ((x * Pow2(n)) % M16) + (y \div Pow2(16 - n))      \* x < 2^16, n <= 15 (n = 16 gives y)
ShlPair16(x, y, n) == IF n = 0 THEN x ELSE IF n = 16 THEN y ELSE ShlPair(x, y, n)

(* ------------------------------------------------------------------ 32 bit *)
W32(hi, lo) == << hi, lo >>
W32Zero == << 0, 0 >>
IsW32(a) == /\ Len(a) = 2 /\ a[1] \in 0..65535 /\ a[2] \in 0..65535
W32Xor(a, b) == << a[1] ^^ b[1], a[2] ^^ b[2] >>
W32And(a, b) == << a[1] & b[1], a[2] & b[2] >>
W32Or(a, b)  == << a[1] | b[1], a[2] | b[2] >>
W32Not(a)    == << 65535 - a[1], 65535 - a[2] >>
W32Add(a, b) == LET lo == a[2] + b[2]
                    hi == a[1] + b[1] + lo \div M16
                IN << hi % M16, lo % M16 >>
W32Add3(a, b, c) == LET lo == a[2] + b[2] + c[2]
                        hi == a[1] + b[1] + c[1] + lo \div M16
                    IN << hi % M16, lo % M16 >>
W32Add4(a, b, c, d) == LET lo == a[2] + b[2] + c[2] + d[2]
                           hi == a[1] + b[1] + c[1] + d[1] + lo \div M16
                       IN << hi % M16, lo % M16 >>
W32Add5(a, b, c, d, e) == LET lo == a[2] + b[2] + c[2] + d[2] + e[2]
                              hi == a[1] + b[1] + c[1] + d[1] + e[1] + lo \div M16
                          IN << hi % M16, lo % M16 >>
\* rotate left by n, 0 <= n <= 32
W32Rotl(a, n) == LET m == n % 16
                     x == IF (n \div 16) % 2 = 0 THEN a ELSE << a[2], a[1] >>
                 IN IF m = 0 THEN x
                    ELSE << ShlPair(x[1], x[2], m), ShlPair(x[2], x[1], m) >>
W32Rotr(a, n) == W32Rotl(a, 32 - n)             \* 0 <= n <= 32
\* logical shifts, 0 <= n <= 32
W32Shr(a, n) == IF n >= 32 THEN W32Zero
                ELSE IF n >= 16 THEN << 0, a[1] \div Pow2(n - 16) >>
                ELSE IF n = 0 THEN a
                ELSE << a[1] \div Pow2(n), a[2] \div Pow2(n) + (a[1] % Pow2(n)) * Pow2(16 - n) >>
W32Shl(a, n) == IF n >= 32 THEN W32Zero
                ELSE IF n >= 16 THEN << (a[2] * Pow2(n - 16)) % M16, 0 >>
                ELSE IF n = 0 THEN a
                ELSE << ShlPair(a[1], a[2], n), (a[2] * Pow2(n)) % M16 >>

\* bytes (0..255) <-> words
W32FromBE(b1, b2, b3, b4) == << b1 * 256 + b2, b3 * 256 + b4 >>
W32FromLE(b1, b2, b3, b4) == << b4 * 256 + b3, b2 * 256 + b1 >>
W32ToBE(a) == << a[1] \div 256, a[1] % 256, a[2] \div 256, a[2] % 256 >>
W32ToLE(a) == << a[2] % 256, a[2] \div 256, a[1] % 256, a[1] \div 256 >>
\* a small natural (< 2^31) as a word
W32OfNat(n) == << n \div M16, n % M16 >>

(* ------------------------------------------------------------------ 64 bit *)
W64Zero == << 0, 0, 0, 0 >>
W64Xor(a, b) == << a[1] ^^ b[1], a[2] ^^ b[2], a[3] ^^ b[3], a[4] ^^ b[4] >>
W64And(a, b) == << a[1] & b[1], a[2] & b[2], a[3] & b[3], a[4] & b[4] >>
W64Or(a, b)  == << a[1] | b[1], a[2] | b[2], a[3] | b[3], a[4] | b[4] >>
W64Not(a)    == << 65535 - a[1], 65535 - a[2], 65535 - a[3], 65535 - a[4] >>
W64Add(a, b) == LET s4 == a[4] + b[4]
                    s3 == a[3] + b[3] + s4 \div M16
                    s2 == a[2] + b[2] + s3 \div M16
                    s1 == a[1] + b[1] + s2 \div M16
                IN << s1 % M16, s2 % M16, s3 % M16, s4 % M16 >>
W64Add4(a, b, c, d) == LET s4 == a[4] + b[4] + c[4] + d[4]
                           s3 == a[3] + b[3] + c[3] + d[3] + s4 \div M16
                           s2 == a[2] + b[2] + c[2] + d[2] + s3 \div M16
                           s1 == a[1] + b[1] + c[1] + d[1] + s2 \div M16
                       IN << s1 % M16, s2 % M16, s3 % M16, s4 % M16 >>
W64Add5(a, b, c, d, e) == LET s4 == a[4] + b[4] + c[4] + d[4] + e[4]
                              s3 == a[3] + b[3] + c[3] + d[3] + e[3] + s4 \div M16
                              s2 == a[2] + b[2] + c[2] + d[2] + e[2] + s3 \div M16
                              s1 == a[1] + b[1] + c[1] + d[1] + e[1] + s2 \div M16
                          IN << s1 % M16, s2 % M16, s3 % M16, s4 % M16 >>
\* rotate right by whole halves q (0..3): result[i] = a[((i - 1 - q) mod 4) + 1]
W64RotrH(a, q) == IF q = 0 THEN a
                  ELSE IF q = 1 THEN << a[4], a[1], a[2], a[3] >>
                  ELSE IF q = 2 THEN << a[3], a[4], a[1], a[2] >>
                  ELSE << a[2], a[3], a[4], a[1] >>
\* rotate right by n, 0 <= n <= 63
W64Rotr(a, n) == LET x == W64RotrH(a, n \div 16)
                     r == n % 16
                     p == Pow2(r)
                     q == Pow2(16 - r)
                 IN IF r = 0 THEN x
                    ELSE << x[1] \div p + (x[4] % p) * q, x[2] \div p + (x[1] % p) * q,
                            x[3] \div p + (x[2] % p) * q, x[4] \div p + (x[3] % p) * q >>
\* logical shift right by n, 0 <= n <= 63
W64Shr(a, n) == LET k == n \div 16
                    x == IF k = 0 THEN a
                         ELSE IF k = 1 THEN << 0, a[1], a[2], a[3] >>
                         ELSE IF k = 2 THEN << 0, 0, a[1], a[2] >>
                         ELSE << 0, 0, 0, a[1] >>
                    r == n % 16
                    p == Pow2(r)
                    q == Pow2(16 - r)
                IN IF r = 0 THEN x
                   ELSE << x[1] \div p, x[2] \div p + (x[1] % p) * q,
                           x[3] \div p + (x[2] % p) * q, x[4] \div p + (x[3] % p) * q >>
W64FromBE(b) == << b[1] * 256 + b[2], b[3] * 256 + b[4], b[5] * 256 + b[6], b[7] * 256 + b[8] >>
W64FromLE(b) == << b[8] * 256 + b[7], b[6] * 256 + b[5], b[4] * 256 + b[3], b[2] * 256 + b[1] >>
W64ToBE(a) == << a[1] \div 256, a[1] % 256, a[2] \div 256, a[2] % 256,
                 a[3] \div 256, a[3] % 256, a[4] \div 256, a[4] % 256 >>
W64ToLE(a) == << a[4] % 256, a[4] \div 256, a[3] % 256, a[3] \div 256,
                 a[2] % 256, a[2] \div 256, a[1] % 256, a[1] \div 256 >>

(* ------------------------------------------------------------------ byte strings *)
RECURSIVE ZerosAcc(_, _)
ZerosAcc(n, acc) == IF n = 0 THEN acc ELSE ZerosAcc(n - 1, Append(acc, 0))
Zeros(n) == ZerosAcc(n, << >>)
\* message length n (bytes, n < 2^28) as the 8-byte bit count
BitLen8LE(n) == LET b == n * 8 IN
   << b % 256, (b \div 256) % 256, (b \div 65536) % 256, b \div 16777216, 0, 0, 0, 0 >>
BitLen8BE(n) == LET b == n * 8 IN
   << 0, 0, 0, 0, b \div 16777216, (b \div 65536) % 256, (b \div 256) % 256, b % 256 >>
\* lower-case hex text of a byte string, as character codes (the *_get_digest_str entry points)
HexDigit(v) == IF v < 10 THEN 48 + v ELSE 87 + v
RECURSIVE HexOfAcc(_, _, _)
HexOfAcc(b, i, acc) == IF i > Len(b) THEN acc
                       ELSE HexOfAcc(b, i + 1, Append(Append(acc, HexDigit(b[i] \div 16)), HexDigit(b[i] % 16)))
HexOf(b) == HexOfAcc(b, 1, << >>)

(* self-checks evaluated by TLC whenever the module is loaded *)
ASSUME W32Add(<<65535, 65535>>, <<0, 1>>) = <<0, 0>>
ASSUME W32Rotl(<<32768, 1>>, 1) = <<0, 3>>
ASSUME W32Rotl(<<4660, 22136>>, 20) = <<26497, 9029>>          \* 0x12345678 rotl 20 = 0x67812345
ASSUME W32Rotr(<<4660, 22136>>, 8) = <<30738, 13398>>          \* 0x78123456
ASSUME W32Shr(<<4660, 22136>>, 4) = <<291, 17767>>             \* 0x01234567
ASSUME W32Shl(<<4660, 22136>>, 4) = <<9029, 26496>>            \* 0x23456780
ASSUME W32Shr(<<4660, 22136>>, 20) = <<0, 291>>                \* 0x00000123
ASSUME W32Shl(<<4660, 22136>>, 20) = <<26496, 0>>              \* 0x67800000
ASSUME W64Rotr(<<1, 2, 3, 4>>, 16) = <<4, 1, 2, 3>>
ASSUME W64Rotr(<<0, 0, 0, 1>>, 1) = <<32768, 0, 0, 0>>
ASSUME W64Rotr(<<291, 17767, 35243, 52719>>, 28) = <<39612, 57072, 4660, 22136>>  \* 0x0123456789abcdef ror 28 = 0x9abcdef012345678
ASSUME W64Shr(<<291, 17767, 35243, 52719>>, 28) = <<0, 0, 4660, 22136>>           \* 0x0000000012345678
ASSUME W64Rotr(<<291, 17767, 35243, 52719>>, 61) = <<2330, 11068, 19806, 28536>>
ASSUME W64Shr(<<291, 17767, 35243, 52719>>, 7) = <<2, 18058, 53011, 22427>>
ASSUME W64Add(<<65535, 65535, 65535, 65535>>, <<0, 0, 0, 1>>) = W64Zero
ASSUME W32ToLE(W32FromLE(1, 2, 3, 4)) = <<1, 2, 3, 4>>
ASSUME W64ToLE(W64FromLE(<<1, 2, 3, 4, 5, 6, 7, 8>>)) = <<1, 2, 3, 4, 5, 6, 7, 8>>
ASSUME W64ToBE(W64FromBE(<<1, 2, 3, 4, 5, 6, 7, 8>>)) = <<1, 2, 3, 4, 5, 6, 7, 8>>
ASSUME HexOf(<<0, 171, 255>>) = <<48, 48, 97, 98, 102, 102>>
=============================================================================
