SPECIFICATION Spec
INVARIANT NoBad
CHECK_DEADLOCK FALSE
