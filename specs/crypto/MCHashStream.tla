---------------------------- MODULE MCHashStream ----------------------------
(* Exhaustive check of the streaming state machine at abstract scale: block size B, length field L, every message
   of length 0..MaxLen over Alphabet, every partition into at most MaxChunks update calls (empty ones included).
   The message is built by the update calls themselves, so the reachable states are exactly
   (message, chunking prefix) pairs.  Also the generator of abstract chunking shapes for the conformance driver:
   Shape (sequence of chunk lengths) is a history variable emitted at Final states when EmitShapes is the constraint. *)
EXTENDS HashStream, FiniteSets, TLC, Json
CONSTANTS B, L, Kind, BigEndian, Alphabet, MaxLen, MaxChunks, TrackShape
VARIABLES st, shape

P == [B |-> B, L |-> L, kind |-> Kind, be |-> BigEndian]
RECURSIVE SeqsOfLen(_)
SeqsOfLen(n) == IF n = 0 THEN { << >> } ELSE { Append(s, a) : s \in SeqsOfLen(n - 1), a \in Alphabet }
Chunks(maxn) == UNION { SeqsOfLen(n) : n \in 0..maxn }

Init == st = HsInit(P) /\ shape = << >>
Update == /\ st.phase = "open" /\ Len(shape) < MaxChunks
          /\ \E c \in Chunks(MaxLen - Len(st.msg)) :
                /\ st' = HsUpdate(st, c)
                /\ shape' = Append(shape, IF TrackShape THEN Len(c) ELSE 0)      \* only the number of calls unless TrackShape
Final == /\ st.phase = "open"
         /\ st' = HsFinal(st)
         /\ UNCHANGED shape
Next == Update \/ Final
Spec == Init /\ [][Next]_<<st, shape>>

Inv_Carry == HsInvCarry(st)
Inv_Final == HsInvFinal(st)
Inv_Zero  == HsInvZero(st)
\* chunking independence stated directly: what reaches the transform by the end is a function of the message alone
Inv_ChunkingIndependent == st.phase = "final" => st.absorbed = HsFinal(HsUpdate(HsInit(P), st.msg)).absorbed
\* the padded stream is a whole number of blocks, strictly longer than the message, and ends with the length
Inv_PadShape == LET pd == HsPad(P, st.msg) IN
                   /\ Len(pd) % B = 0 /\ Len(pd) > Len(st.msg) /\ Len(pd) <= Len(st.msg) + B + (IF Kind = "MD" THEN L ELSE 0)
                   /\ SubSeq(pd, 1, Len(st.msg)) = st.msg
\* vacuity witnesses (checked as negated invariants by the rig: each must be VIOLATED, i.e. reachable)
Reach_ExtraBlock == ~(st.phase = "final" /\ Len(st.absorbed) * B >= Len(st.msg) + B + 1)
Reach_FillFlushBulkTail == ~(TrackShape /\ st.phase = "open" /\ Len(shape) >= 2 /\ Len(st.absorbed) >= 3 /\ st.buf # << >>
                             /\ shape[1] % B # 0 /\ shape[2] > 2 * B)
\* corpus of abstract chunking shapes for the driver (TrackShape = TRUE, one-symbol alphabet, -workers 1)
EmitShapes == (TrackShape /\ st.phase = "final") => PrintT(ToJson(shape))
=============================================================================
