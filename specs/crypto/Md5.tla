-------------------------------- MODULE Md5 --------------------------------
(* RFC 1321 (MD5) as plain mathematics over byte sequences; reference for liblcb include/crypto/hash/md5.h
   (properties C04, C07) and for the RADIUS authenticators (C15).
      Md5(msg)    : sequence of bytes 0..255  ->  the 16 digest bytes
      Md5Hex(msg) : the digest as 32 lower-case hex character codes
   Words are pairs of 16-bit halves (module Words).  T[i] = floor(2^32 * abs(sin(i))) typed from RFC 1321
   section 3.4; the module validates itself against the RFC 1321 appendix A.5 test suite with ASSUMEs
   every time TLC loads it (needs -Xss256m for long messages only). *)
EXTENDS Words

Md5BlockSize == 64
Md5HashSize  == 16

Md5T == <<
   <<55146, 42104>>, <<59591, 46934>>, << 9248, 28891>>, <<49597, 52974>>,
   <<62844,  4015>>, <<18311, 50730>>, <<43056, 17939>>, <<64838, 38145>>,
   <<27008, 39128>>, <<35652, 63407>>, <<65535, 23473>>, <<35164, 55230>>,
   <<27536,  4386>>, <<64920, 29075>>, <<42617, 17294>>, <<18868,  2081>>,
   <<63006,  9570>>, <<49216, 45888>>, << 9822, 23121>>, <<59830, 51114>>,
   <<54831,  4189>>, <<  580,  5203>>, <<55457, 59009>>, <<59347, 64456>>,
   << 8673, 52710>>, <<49975,  2006>>, <<62677,  3463>>, <<17754,  5357>>,
   <<43491, 59653>>, <<64751, 41976>>, <<26479,   729>>, <<36138, 19594>>,
   <<65530, 14658>>, <<34673, 63105>>, <<28061, 24866>>, <<64997, 14348>>,
   <<42174, 59972>>, <<19422, 53161>>, <<63163, 19296>>, <<48831, 48240>>,
   <<10395, 32454>>, <<60065, 10234>>, <<54511, 12421>>, << 1160,  7429>>,
   <<55764, 53305>>, <<59099, 39397>>, << 8098, 31992>>, <<50348, 22117>>,
   <<62505,  8772>>, <<17194, 65431>>, <<43924,  9127>>, <<64659, 41017>>,
   <<25947, 22979>>, <<36620, 52370>>, <<65519, 62589>>, <<34180, 24017>>,
   <<28584, 32335>>, <<65068, 59104>>, <<41729, 17172>>, <<19976,  4513>>,
   <<63315, 32386>>, <<48442, 62005>>, <<10967, 53947>>, <<60294, 54161>>
>>
\* per-round left-rotation amounts (RFC 1321 S11..S44)
Md5S == << 7, 12, 17, 22,  5, 9, 14, 20,  4, 11, 16, 23,  6, 10, 15, 21 >>
Md5Init == << <<26437, 8961>>, <<61389, 43913>>, <<39098, 56574>>, <<4146, 21622>> >>   \* 67452301 efcdab89 98badcfe 10325476

Md5F(x, y, z) == W32Or(W32And(x, y), W32And(W32Not(x), z))
Md5G(x, y, z) == W32Or(W32And(x, z), W32And(y, W32Not(z)))
Md5H(x, y, z) == W32Xor(W32Xor(x, y), z)
Md5I(x, y, z) == W32Xor(y, W32Or(x, W32Not(z)))

\* the 16 little-endian words of one 64-byte block starting at offset off (0-based) of byte sequence m
Md5Words(m, off) == << W32FromLE(m[off+1],  m[off+2],  m[off+3],  m[off+4]),  W32FromLE(m[off+5],  m[off+6],  m[off+7],  m[off+8]),
                       W32FromLE(m[off+9],  m[off+10], m[off+11], m[off+12]), W32FromLE(m[off+13], m[off+14], m[off+15], m[off+16]),
                       W32FromLE(m[off+17], m[off+18], m[off+19], m[off+20]), W32FromLE(m[off+21], m[off+22], m[off+23], m[off+24]),
                       W32FromLE(m[off+25], m[off+26], m[off+27], m[off+28]), W32FromLE(m[off+29], m[off+30], m[off+31], m[off+32]),
                       W32FromLE(m[off+33], m[off+34], m[off+35], m[off+36]), W32FromLE(m[off+37], m[off+38], m[off+39], m[off+40]),
                       W32FromLE(m[off+41], m[off+42], m[off+43], m[off+44]), W32FromLE(m[off+45], m[off+46], m[off+47], m[off+48]),
                       W32FromLE(m[off+49], m[off+50], m[off+51], m[off+52]), W32FromLE(m[off+53], m[off+54], m[off+55], m[off+56]),
                       W32FromLE(m[off+57], m[off+58], m[off+59], m[off+60]), W32FromLE(m[off+61], m[off+62], m[off+63], m[off+64]) >>

\* step i (0..63) of RFC 1321 section 3.4:  a = b + ((a + f(b,c,d) + X[k] + T[i+1]) <<< s), then (a,b,c,d) rotate
Md5Step(st, x, i) ==
   LET a == st[1]  b == st[2]  c == st[3]  d == st[4]
       r == i \div 16
       f == IF r = 0 THEN Md5F(b, c, d) ELSE IF r = 1 THEN Md5G(b, c, d)
            ELSE IF r = 2 THEN Md5H(b, c, d) ELSE Md5I(b, c, d)
       k == IF r = 0 THEN i ELSE IF r = 1 THEN (5 * i + 1) % 16
            ELSE IF r = 2 THEN (3 * i + 5) % 16 ELSE (7 * i) % 16
       s == Md5S[4 * r + (i % 4) + 1]
   IN << d, W32Add(b, W32Rotl(W32Add4(a, f, x[k + 1], Md5T[i + 1]), s)), b, c >>

RECURSIVE Md5Rounds(_, _, _)
Md5Rounds(st, x, i) == IF i = 64 THEN st ELSE Md5Rounds(Md5Step(st, x, i), x, i + 1)

\* compression function: chaining value h (4 words) and 16 message words -> new chaining value
Md5Compress(h, x) == LET r == Md5Rounds(h, x, 0) IN
   << W32Add(h[1], r[1]), W32Add(h[2], r[2]), W32Add(h[3], r[3]), W32Add(h[4], r[4]) >>

\* RFC 1321 3.1/3.2: append 0x80, zeros up to 56 mod 64, then the bit length as 64-bit little endian
Md5Pad(msg) == LET n == Len(msg) IN msg \o << 128 >> \o Zeros((119 - (n % 64)) % 64) \o BitLen8LE(n)

RECURSIVE Md5Blocks(_, _, _, _)
Md5Blocks(h, m, off, total) == IF off >= total THEN h
                               ELSE Md5Blocks(Md5Compress(h, Md5Words(m, off)), m, off + 64, total)

\* chaining value after absorbing the whole blocks of m (Len(m) a multiple of 64), starting from h
Md5Absorb(h, m) == Md5Blocks(h, m, 0, Len(m))
Md5Out(h) == W32ToLE(h[1]) \o W32ToLE(h[2]) \o W32ToLE(h[3]) \o W32ToLE(h[4])

Md5(msg) == LET p == Md5Pad(msg) IN Md5Out(Md5Absorb(Md5Init, p))
Md5Hex(msg) == HexOf(Md5(msg))

(* ---- self validation: RFC 1321 appendix A.5 (ASCII codes typed out; digests from the RFC) ---- *)
LOCAL Rep(s, n) == LET RECURSIVE R(_, _)
                       R(k, acc) == IF k = 0 THEN acc ELSE R(k - 1, acc \o s)
                   IN R(n, << >>)
LOCAL Lower == << 97,98,99,100,101,102,103,104,105,106,107,108,109,110,111,112,113,114,115,116,117,118,119,120,121,122 >>
LOCAL Upper == << 65,66,67,68,69,70,71,72,73,74,75,76,77,78,79,80,81,82,83,84,85,86,87,88,89,90 >>
LOCAL Digits == << 48,49,50,51,52,53,54,55,56,57 >>
ASSUME Md5Pad(<< >>) = << 128 >> \o Zeros(63)
ASSUME Len(Md5Pad(Zeros(55))) = 64 /\ Len(Md5Pad(Zeros(56))) = 128 /\ Len(Md5Pad(Zeros(64))) = 128
\* MD5("") = d41d8cd98f00b204e9800998ecf8427e
ASSUME Md5(<< >>) = << 212,29,140,217,143,0,178,4,233,128,9,152,236,248,66,126 >>
\* MD5("a") = 0cc175b9c0f1b6a831c399e269772661
ASSUME Md5(<< 97 >>) = << 12,193,117,185,192,241,182,168,49,195,153,226,105,119,38,97 >>
\* MD5("abc") = 900150983cd24fb0d6963f7d28e17f72
ASSUME Md5(<< 97,98,99 >>) = << 144,1,80,152,60,210,79,176,214,150,63,125,40,225,127,114 >>
\* MD5("message digest") = f96b697d7cb7938d525a2f31aaf161d0
ASSUME Md5(<< 109,101,115,115,97,103,101,32,100,105,103,101,115,116 >>) = << 249,107,105,125,124,183,147,141,82,90,47,49,170,241,97,208 >>
\* MD5("abcdefghijklmnopqrstuvwxyz") = c3fcd3d76192e4007dfb496cca67e13b
ASSUME Md5(Lower) = << 195,252,211,215,97,146,228,0,125,251,73,108,202,103,225,59 >>
\* MD5("ABC...Zabc...z0123456789") = d174ab98d277d9f5a5611c2c9f419d9f
ASSUME Md5(Upper \o Lower \o Digits) = << 209,116,171,152,210,119,217,245,165,97,28,44,159,65,157,159 >>
\* MD5("1234567890" x 8) = 57edf4a22be3c955ac49da2e2107b67a
ASSUME Md5(Rep(<< 49,50,51,52,53,54,55,56,57,48 >>, 8)) = << 87,237,244,162,43,227,201,85,172,73,218,46,33,7,182,122 >>
ASSUME Md5Hex(<< 97,98,99 >>) = << 57,48,48,49,53,48,57,56,51,99,100,50,52,102,98,48,100,54,57,54,51,102,55,100,50,56,101,49,55,102,55,50 >>
=============================================================================
