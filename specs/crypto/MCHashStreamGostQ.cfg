SPECIFICATION Spec
CONSTANTS
  B = 4
  L = 1
  Kind = "GOST"
  BigEndian = TRUE
  Alphabet = {0, 7}
  MaxLen = 9
  MaxChunks = 4
  TrackShape = FALSE
INVARIANTS Inv_Carry Inv_Final Inv_Zero Inv_ChunkingIndependent Inv_PadShape
CHECK_DEADLOCK FALSE
