SPECIFICATION Spec
CONSTANTS
  B = 4
  L = 1
  Kind = "MD"
  BigEndian = TRUE
  Alphabet = {0}
  MaxLen = 13
  MaxChunks = 4
  TrackShape = TRUE
INVARIANTS Inv_Carry Inv_Final Inv_Zero Inv_ChunkingIndependent Inv_PadShape
CONSTRAINT EmitShapes
CHECK_DEADLOCK FALSE
