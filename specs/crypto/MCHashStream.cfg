SPECIFICATION Spec
CONSTANTS
  B = 4
  L = 1
  Kind = "MD"
  BigEndian = TRUE
  Alphabet = {0, 7}
  MaxLen = 13
  MaxChunks = 4
  TrackShape = FALSE
INVARIANTS Inv_Carry Inv_Final Inv_Zero Inv_ChunkingIndependent Inv_PadShape
CHECK_DEADLOCK FALSE
