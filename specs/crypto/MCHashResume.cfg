SPECIFICATION Spec
CONSTANTS
  Algs = {"md5", "sha1", "sha224", "sha256", "sha384", "sha512", "gost256", "gost512"}
  Js = {0, 1}
  BufKinds = {0, 1, 2, 3, 4}
  DataKinds = {0, 1, 2, 3, 4}
INVARIANTS Agrees PadAgrees
CHECK_DEADLOCK FALSE
