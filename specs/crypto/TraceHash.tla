------------------------------ MODULE TraceHash ------------------------------
(* Validation of recorded runs of the real liblcb hash / HMAC functions (harness/hash_drv.c) against the specs:
   mode A - every scenario is replayed through the HashStream / Hmac state machines at the REAL block size; after
            each update call the recorded ctx->count and the recorded bytes waiting in ctx->buffer must be the
            spec's; at final the stream the spec says reached the transform must be the standard's padded message;
   mode C - the recorded digests (streaming, one-shot, hex-string entry points) and MACs must equal the TLA+
            reference (Md5 / Sha1 / Sha256 / Sha512 / Streebog, HmacRFC over them) evaluated by TLC;
   plus the recorded "context is all zero after final" / "k_opad is all zero after final" flags must be 1.

   IOEnv.TRACE names an ndjson file, one scenario per line:
     hash: {"k":"hash","alg":A,"ups":[{"c":[bytes],"count":n,"buf":[bytes]},...],"dg":[..],"one":[..],"hex":[..],"zero":0|1}
     hmac: {"k":"hmac","alg":A,"key":[..],"kopad":[..],"count0":n,"ups":[...],"mac":[..],"one":[..],"hex":[..],
            "padzero":0|1,"zero":0|1}
   Every scenario is an independent behaviour  (tid, pos = 0) -> init -> one step per update -> final;  TLC explores
   all of them (workers share the scenarios).  A step that disagrees with the recording sets bad to a key naming
   WHAT disagreed, reports it with PrintT and violates NoBad; the scenario stops there.  The rig checks that the
   number of distinct states equals the number of steps + scenarios, i.e. every event was consumed. *)
EXTENDS Md5, Sha1, Sha256, Sha512, Streebog, Hmac, Json, IOUtils

T == ndJsonDeserialize(IOEnv.TRACE)
VARIABLES tid, pos, st, bad

Algs == { "md5", "sha1", "sha224", "sha256", "sha384", "sha512", "gost256", "gost512" }
Param(alg) == CASE alg = "md5"  -> [B |-> 64, L |-> 8, kind |-> "MD", be |-> FALSE]
                [] alg \in { "sha1", "sha224", "sha256" } -> [B |-> 64, L |-> 8, kind |-> "MD", be |-> TRUE]
                [] alg \in { "sha384", "sha512" } -> [B |-> 128, L |-> 16, kind |-> "MD", be |-> TRUE]
                [] alg \in { "gost256", "gost512" } -> [B |-> 64, L |-> 0, kind |-> "GOST", be |-> FALSE]
RefH(alg, m) == CASE alg = "md5" -> Md5(m) [] alg = "sha1" -> Sha1(m)
                  [] alg = "sha224" -> Sha224(m) [] alg = "sha256" -> Sha256(m)
                  [] alg = "sha384" -> Sha384(m) [] alg = "sha512" -> Sha512(m)
                  [] alg = "gost256" -> Streebog256(m) [] alg = "gost512" -> Streebog512(m)
\* the padded message exactly as the standard of each algorithm writes it
RefPad(alg, m) == CASE alg = "md5" -> Md5Pad(m) [] alg = "sha1" -> Sha1Pad(m)
                    [] alg \in { "sha224", "sha256" } -> Sha256Pad(m)
                    [] alg \in { "sha384", "sha512" } -> Sha512Pad(m)
                    [] alg \in { "gost256", "gost512" } -> StbPad(m)
BX(a, c) == a ^^ c

Sc == T[tid]
IsHmac == Sc.k = "hmac"
NSteps(i) == Len(T[i].ups) + 2
Inner(s) == IF IsHmac THEN s.inner ELSE s

Report(key, expected) == PrintT(ToJson([tid |-> tid, pos |-> pos + 1, bad |-> key, alg |-> Sc.alg, expected |-> expected]))
\* first failing check of a list << <<ok, key, expected>>, ... >>, or "" when all hold
RECURSIVE FirstBad(_, _)
FirstBad(cs, i) == IF i > Len(cs) THEN << "", << >> >>
                   ELSE IF cs[i][1] THEN FirstBad(cs, i + 1) ELSE << cs[i][2], cs[i][3] >>
Verdict(cs) == LET f == FirstBad(cs, 1) IN
               /\ bad' = f[1]
               /\ (f[1] = "" \/ Report(f[1], f[2]))

Init == /\ tid \in 1..Len(T) /\ pos = 0 /\ st = << >> /\ bad = ""

DoInit ==
   /\ pos = 0
   /\ IF IsHmac
      THEN LET h == HmInit(LAMBDA m : RefH(Sc.alg, m), BX, Param(Sc.alg), Sc.key) IN
           /\ st' = h
           /\ Verdict(<< << h.kopad = Sc.kopad, "hmac-init:k_opad", h.kopad >>,
                         << h.inner.count = Sc.count0, "hmac-init:count", << h.inner.count >> >>,
                         << HmInvInner(BX, LAMBDA m : RefH(Sc.alg, m), h), "spec:HmInvInner", << >> >> >>)
      ELSE st' = HsInit(Param(Sc.alg)) /\ bad' = ""

DoUpdate ==
   /\ pos >= 1 /\ pos <= Len(Sc.ups)
   /\ LET ev == Sc.ups[pos]
          s2 == IF IsHmac THEN HmUpdate(st, ev.c) ELSE HsUpdate(st, ev.c)
          in == Inner(s2)
      IN /\ st' = s2
         /\ Verdict(<< << in.count = ev.count, "update:count", << in.count >> >>,
                       << in.buf = ev.buf, "update:buffer", in.buf >>,
                       << HsInvCarry(in), "spec:HsInvCarry", << >> >> >>)

DoFinal ==
   /\ pos = Len(Sc.ups) + 1
   /\ IF IsHmac
      THEN LET H(m) == RefH(Sc.alg, m)
               h2 == HmFinal(H, st)
               exp == HmacRFC(H, BX, Param(Sc.alg).B, Sc.key, st.msg)
           IN /\ st' = << >>
              /\ Verdict(<< << h2.mac = exp, "spec:HmInvMac", exp >>,
                            << Sc.mac = exp, "hmac:streaming-mac", exp >>,
                            << Sc.one = exp, "hmac:oneshot-mac", exp >>,
                            << Sc.hex = HexOf(exp), "hmac:hex-mac", HexOf(exp) >>,
                            << Sc.padzero = 1, "hmac:k_opad-not-wiped", << >> >>,
                            << Sc.zero = 1, "hmac:context-not-zero-after-final", << >> >> >>)
      ELSE LET s2 == HsFinal(st)
               exp == RefH(Sc.alg, st.msg)
           IN /\ st' = << >>
              /\ Verdict(<< << HsFlatten(s2.absorbed) = RefPad(Sc.alg, st.msg), "spec:HsFinal-vs-standard-padding", << >> >>,
                            << Sc.dg = exp, "hash:streaming-digest", exp >>,
                            << Sc.one = exp, "hash:oneshot-digest", exp >>,
                            << Sc.hex = HexOf(exp), "hash:hex-digest", HexOf(exp) >>,
                            << Sc.zero = 1, "hash:context-not-zero-after-final", << >> >> >>)

Next == /\ bad = "" /\ pos < NSteps(tid)
        /\ tid' = tid /\ pos' = pos + 1
        /\ (DoInit \/ DoUpdate \/ DoFinal)
Spec == Init /\ [][Next]_<<tid, pos, st, bad>>
NoBad == bad = ""
=============================================================================
