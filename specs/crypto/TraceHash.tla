------------------------------ MODULE TraceHash ------------------------------
(* Validation of recorded runs of the real liblcb hash / HMAC functions (harness/hash_drv.c) against the specs:
   mode A - every scenario is replayed through the HashStream / Hmac state machines at the REAL block size; after
            each update call the recorded ctx->count and the recorded bytes waiting in ctx->buffer must be the
            spec's; at final the stream the spec says reached the transform must be the standard's padded message;
   mode C - the recorded digests (streaming, one-shot, hex-string entry points) and MACs must equal the TLA+
            reference (Md5 / Sha1 / Sha256 / Sha512 / Streebog, HmacRFC over them) evaluated by TLC;
   plus the recorded "context is all zero after final" / "k_opad is all zero after final" flags must be 1.

   mode C' - "resume" records: the driver PRIMED a real context after *_init with a chosen chaining value, byte
            counter(s) (Streebog: N and Sigma) and buffered bytes - a position of a stream that can not be reached by
            feeding bytes (totals around 2^29, 2^32, 2^61, 2^64 ... bytes) - then called update(data) and final; the
            recorded digest must equal HrResumeFrom (module HashResume) evaluated on the same state.  "ident" records
            carry no observation: they are instances of the identity HrResumeAgrees between HashResume's stream-state
            formulation and the whole-message definitions (a failure is a specification bug, "spec:..." key).
              {"k":"resume","alg":A,"h":[chaining value bytes],"cnt":[16-bit limbs],"sig":[limbs]|[],"buf":[..],"data":[..],
               "cs":[],"obs":[{"b":build,"dg":[..],"zero":0|1},...]}
              {"k":"ident","alg":A,"m":[..],"j":blocks,"b":bytes,"cs":[],"obs":[]}

   IOEnv.TRACE names an ndjson file, one scenario per line.  A scenario is one input (message, chunking into update
   calls, for HMAC a key) together with what EVERY build variant of the driver observed for it ("obs", one record per
   build), so the reference is evaluated once per input and compared with all builds:
     hash: {"k":"hash","alg":A,"cs":[[bytes],...],
            "obs":[{"b":build,"ups":[{"count":n,"buf":[bytes]},...],"dg":[..],"one":[..],"hex":[..],"zero":0|1},...]}
     hmac: {"k":"hmac","alg":A,"key":[..],"cs":[[bytes],...],
            "obs":[{"b":build,"kopad":[..],"count0":n,"ups":[...],"mac":[..],"one":[..],"hex":[..],"padzero":0|1,"zero":0|1},...]}
   Every scenario is an independent behaviour  (tid, pos = 0) -> init -> one step per update -> final;  TLC explores
   all of them (workers share the scenarios).  A step that disagrees with a recording sets bad to a key naming
   WHAT disagreed and reports it (with the build) through PrintT; the scenario stops there (the others go on, so one
   disagreement never hides another - that is why the cfg has no INVARIANT; NoBad is there for interactive use).  The
   rig checks that the number of distinct states equals steps + scenarios minus the states cut off by the reports,
   i.e. every event was consumed and no report was lost. *)
EXTENDS HashResume, Hmac, Json, IOUtils

T == ndJsonDeserialize(IOEnv.TRACE)
VARIABLES tid, pos, st, bad

Algs == { "md5", "sha1", "sha224", "sha256", "sha384", "sha512", "gost256", "gost512" }
Param(alg) == CASE alg = "md5"  -> [B |-> 64, L |-> 8, kind |-> "MD", be |-> FALSE]
                [] alg \in { "sha1", "sha224", "sha256" } -> [B |-> 64, L |-> 8, kind |-> "MD", be |-> TRUE]
                [] alg \in { "sha384", "sha512" } -> [B |-> 128, L |-> 16, kind |-> "MD", be |-> TRUE]
                [] alg \in { "gost256", "gost512" } -> [B |-> 64, L |-> 0, kind |-> "GOST", be |-> FALSE]
RefH(alg, m) == CASE alg = "md5" -> Md5(m) [] alg = "sha1" -> Sha1(m)
                  [] alg = "sha224" -> Sha224(m) [] alg = "sha256" -> Sha256(m)
                  [] alg = "sha384" -> Sha384(m) [] alg = "sha512" -> Sha512(m)
                  [] alg = "gost256" -> Streebog256(m) [] alg = "gost512" -> Streebog512(m)
\* the padded message exactly as the standard of each algorithm writes it
RefPad(alg, m) == CASE alg = "md5" -> Md5Pad(m) [] alg = "sha1" -> Sha1Pad(m)
                    [] alg \in { "sha224", "sha256" } -> Sha256Pad(m)
                    [] alg \in { "sha384", "sha512" } -> Sha512Pad(m)
                    [] alg \in { "gost256", "gost512" } -> StbPad(m)
BX(a, c) == a ^^ c

Sc == T[tid]
IsHmac == Sc.k = "hmac"
NSteps(i) == Len(T[i].cs) + 2
Inner(s) == IF IsHmac THEN s.inner ELSE s

Report(f) == PrintT(ToJson([tid |-> tid, pos |-> pos + 1, bad |-> f[2], alg |-> Sc.alg, build |-> f[4], expected |-> f[3]]))
\* first failing check of a list << <<ok, key, expected, build>>, ... >>, or none
RECURSIVE FirstBad(_, _)
FirstBad(cs, i) == IF i > Len(cs) THEN << TRUE, "", << >>, "" >>
                   ELSE IF cs[i][1] THEN FirstBad(cs, i + 1) ELSE cs[i]
Verdict(cs) == LET f == FirstBad(cs, 1) IN
               /\ bad' = f[2]
               /\ (f[2] = "" \/ Report(f))
\* the checks C(o) of every build observation o, concatenated
RECURSIVE ForObs(_, _, _)
ForObs(C(_), i, acc) == IF i > Len(Sc.obs) THEN acc ELSE ForObs(C, i + 1, acc \o C(Sc.obs[i]))

Init == /\ tid \in 1..Len(T) /\ pos = 0 /\ st = << >> /\ bad = ""

DoInit ==
   /\ pos = 0
   /\ IF IsHmac
      THEN LET h == HmInit(LAMBDA m : RefH(Sc.alg, m), BX, Param(Sc.alg), Sc.key)
               C(o) == << << h.kopad = o.kopad, "hmac-init:k_opad", h.kopad, o.b >>,
                          << h.inner.count = o.count0, "hmac-init:count", << h.inner.count >>, o.b >> >>
           IN /\ st' = h
              /\ Verdict(<< << HmInvInner(BX, LAMBDA m : RefH(Sc.alg, m), h), "spec:HmInvInner", << >>, "" >> >> \o ForObs(C, 1, << >>))
      ELSE st' = HsInit(Param(Sc.alg)) /\ bad' = ""

DoUpdate ==
   /\ pos >= 1 /\ pos <= Len(Sc.cs)
   /\ LET s2 == IF IsHmac THEN HmUpdate(st, Sc.cs[pos]) ELSE HsUpdate(st, Sc.cs[pos])
          ins == Inner(s2)
          C(o) == << << ins.count = o.ups[pos].count, "update:count", << ins.count >>, o.b >>,
                     << ins.buf = o.ups[pos].buf, "update:buffer", ins.buf, o.b >> >>
      IN /\ st' = s2
         /\ Verdict(<< << HsInvCarry(ins), "spec:HsInvCarry", << >>, "" >> >> \o ForObs(C, 1, << >>))

DoFinal ==
   /\ pos = Len(Sc.cs) + 1
   /\ IF IsHmac
      THEN LET H(m) == RefH(Sc.alg, m)
               exp == HmacRFC(H, BX, Param(Sc.alg).B, Sc.key, st.msg)      \* (HmFinal = HmacRFC is MCHmac's job)
               C(o) == << << o.mac = exp, "hmac:streaming-mac", exp, o.b >>,
                          << o.one = exp, "hmac:oneshot-mac", exp, o.b >>,
                          << o.hex = HexOf(exp), "hmac:hex-mac", HexOf(exp), o.b >>,
                          << o.padzero = 1, "hmac:k_opad-not-wiped", << >>, o.b >>,
                          << o.zero = 1, "hmac:context-not-zero-after-final", << >>, o.b >> >>
           IN /\ st' = << >>
              /\ Verdict(ForObs(C, 1, << >>))
      ELSE IF Sc.k = "resume"
      THEN LET exp == HrResumeFrom(Sc.alg, HrHOfBytes(Sc.alg, Sc.h), Sc.cnt, Sc.sig, Sc.buf, Sc.data)
               C(o) == << << o.dg = exp, "resume:digest", exp, o.b >>,
                          << o.zero = 1, "resume:context-not-zero-after-final", << >>, o.b >> >>
           IN /\ st' = << >>
              /\ Verdict(<< << HrStateOk(Sc.alg, Sc.buf, Sc.cnt) /\ Len(Sc.cnt) = HrCntLimbs(Sc.alg),
                               "spec:resume-precondition", << >>, "" >> >> \o ForObs(C, 1, << >>))
      ELSE IF Sc.k = "ident"
      THEN /\ st' = << >>
           /\ Verdict(<< << HrResumeAgrees(Sc.alg, Sc.m, Sc.j, Sc.b), "spec:HrResumeAgrees", << >>, "" >> >>)
      ELSE LET s2 == HsFinal(st)
               exp == RefH(Sc.alg, st.msg)
               C(o) == << << o.dg = exp, "hash:streaming-digest", exp, o.b >>,
                          << o.one = exp, "hash:oneshot-digest", exp, o.b >>,
                          << o.hex = HexOf(exp), "hash:hex-digest", HexOf(exp), o.b >>,
                          << o.zero = 1, "hash:context-not-zero-after-final", << >>, o.b >> >>
           IN /\ st' = << >>
              /\ Verdict(<< << HsFlatten(s2.absorbed) = RefPad(Sc.alg, st.msg) /\ HsInvZero(s2),
                               "spec:HsFinal-vs-standard-padding", << >>, "" >> >> \o ForObs(C, 1, << >>))

Next == /\ bad = "" /\ pos < NSteps(tid)
        /\ tid' = tid /\ pos' = pos + 1
        /\ (DoInit \/ DoUpdate \/ DoFinal)
Spec == Init /\ [][Next]_<<tid, pos, st, bad>>
NoBad == bad = ""
=============================================================================
