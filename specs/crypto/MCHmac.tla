------------------------------- MODULE MCHmac -------------------------------
(* Exhaustive check of the HMAC state machine against the RFC 2104 equation over an UNINTERPRETED hash:
   H(s) is the free term <<"H", s>> (a one-"byte" digest) and xor with a pad constant is the free term <<"x", t, c>>.  Keys: every sequence over KeyAlphabet of length 0..MaxKeyLen
   plus one key of each length in LongKeyLens (up to 3B); messages over MsgAlphabet up to MaxMsgLen in at most
   MaxChunks update calls (empty ones included). *)
EXTENDS Hmac, TLC
CONSTANTS B, L, KeyAlphabet, MaxKeyLen, LongKeyLens, MsgAlphabet, MaxMsgLen, MaxChunks
VARIABLES h, nch

P == [B |-> B, L |-> L, kind |-> "MD", be |-> TRUE]
H(s) == << << "H", s >> >>
X(a, c) == << "x", a, c >>            \* free: xor is never evaluated, equality is syntactic

RECURSIVE SeqsOver(_, _)
SeqsOver(A, n) == IF n = 0 THEN { << >> } ELSE { Append(s, a) : s \in SeqsOver(A, n - 1), a \in A }
RECURSIVE Ramp(_)
Ramp(n) == IF n = 0 THEN << >> ELSE Append(Ramp(n - 1), n)
Keys == UNION { SeqsOver(KeyAlphabet, n) : n \in 0..MaxKeyLen } \cup { Ramp(n) : n \in LongKeyLens }
Chunks(maxn) == UNION { SeqsOver(MsgAlphabet, n) : n \in 0..maxn }

Init == nch = 0 /\ \E k \in Keys : h = HmInit(H, X, P, k)
Update == /\ h.phase = "open" /\ nch < MaxChunks
          /\ \E c \in Chunks(MaxMsgLen - Len(h.msg)) : h' = HmUpdate(h, c)
          /\ nch' = nch + 1
Final == h.phase = "open" /\ h' = HmFinal(H, h) /\ UNCHANGED nch
Next == Update \/ Final
Spec == Init /\ [][Next]_<<h, nch>>

Inv_Mac    == HmInvMac(H, X, h)
Inv_Wiped  == HmInvWiped(h)
Inv_Inner  == HmInvInner(X, H, h)
\* the key-hashing branch is taken exactly for keys longer than the block, and such keys collapse to H(key)
Inv_KeyBranch == LET k0 == HmK0(H, B, h.key) IN
                    /\ Len(k0) = B
                    /\ (Len(h.key) <= B => SubSeq(k0, 1, Len(h.key)) = h.key)
                    /\ (Len(h.key) > B  => k0[1] = << "H", h.key >> /\ \A i \in 2..B : k0[i] = 0)
Reach_LongKeyFinal == ~(h.phase = "final" /\ Len(h.key) = 3 * B)
Reach_BlockKeyFinal == ~(h.phase = "final" /\ Len(h.key) = B /\ Len(h.msg) > B)
=============================================================================
