SPECIFICATION Spec
CONSTANTS
  B = 4
  L = 1
  Kind = "MD"
  BigEndian = TRUE
  Alphabet = {0, 7}
  MaxLen = 5
  MaxChunks = 4
  TrackShape = FALSE
INVARIANTS Reach_ExtraBlock
CHECK_DEADLOCK FALSE
