---------------------------- MODULE MCHashResume ----------------------------
(* TLC-checked identity between the two formulations of HashResume: for every algorithm and every cut
   (j absorbed blocks, b buffered bytes, d further bytes) of a short message, resuming from the stream state
   reached on the prefix gives the whole-message digest (INVARIANT Agrees), and the paddings agree as byte
   strings.  The states are the instances; there is no behaviour (Next is never enabled). *)
EXTENDS HashResume, TLC
CONSTANTS Algs, Js, BufKinds, DataKinds
VARIABLES vAlg, vJ, vBk, vDk

\* buffered bytes: nothing / one byte / the last fill for which the length field still fits / one more / full minus one
BufLen(alg, k) == CASE k = 0 -> 0 [] k = 1 -> 1 [] k = 2 -> HrB(alg) - HrL(alg) - 1 [] k = 3 -> HrB(alg) - HrL(alg)
                    [] k = 4 -> HrB(alg) - 1
\* data: nothing / one byte / exactly up to the block boundary / across it / a whole block and a bit more
DataLen(alg, b, k) == CASE k = 0 -> 0 [] k = 1 -> 1 [] k = 2 -> HrB(alg) - b [] k = 3 -> HrB(alg) - b + 1
                        [] k = 4 -> 2 * HrB(alg) - b + 3
Bv == BufLen(vAlg, vBk)
Nv == vJ * HrB(vAlg) + Bv + DataLen(vAlg, Bv, vDk)
Init == vAlg \in Algs /\ vJ \in Js /\ vBk \in BufKinds /\ vDk \in DataKinds
Next == FALSE /\ UNCHANGED << vAlg, vJ, vBk, vDk >>
Spec == Init /\ [][Next]_<< vAlg, vJ, vBk, vDk >>
Agrees == HrResumeAgrees(vAlg, HrRamp(Nv), vJ, Bv)
PadAgrees == HrIsGost(vAlg) \/ HrPadAgrees(vAlg, HrRamp(Nv))
=============================================================================
