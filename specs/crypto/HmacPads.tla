------------------------------ MODULE HmacPads ------------------------------
(* Two pieces of the HMAC interface contract (C07) that the rig needs BEFORE it drives the real code, stated and
   evaluated on the specification side (rig/checks/c07.py never derives them from the headers' behaviour):

   1. HpArgs - how a caller may name the hash variant.  md5.h and sha1.h have one variant and no argument.  The
      SHA-2 entry points (sha2_init, hmac_sha2_init, sha2_hmac_get_digest[_str]) and the GOST R 34.11-2012 entry
      points (gost3411_2012_init, hmac_gost3411_2012_init, gost3411_2012_hmac_get_digest[_str]) take one size_t that
      names the variant by its DIGEST SIZE, and the interface accepts that size written in BITS (224/256/384/512;
      256/512) or in BYTES (SHA2_224_HASH_SIZE = 28 ... 64; GOST3411_2012_256_HASH_SIZE = 32, _512_ = 64).  Both
      spellings denote the same function: everything C07 demands (RFC 2104 for every key length, pads wiped) is
      demanded under every spelling.  HpUnambiguous: within one entry point no two variants share a spelling.
      The table is printed once (ASSUME ... PrintT) and the rig drives every scenario under every spelling.

   2. HpPads - the two keyed pads of RFC 2104 for a concrete key over the concrete hash references:
      K0 xor ipad, K0 xor opad (B bytes each; K0 = key, or H(key) when the key is longer than the block, zero
      padded).  These byte strings are what "the keyed pads are wiped when the computation finishes" is about:
      harness/hmac_drv.c searches the dead stack below the finished computation and the context for them.

   IOEnv.TRACE names an ndjson file, one {"alg":A,"key":[bytes]} per line; one behaviour per line (workers share
   them), each prints {"tid":i,"ipad":[..],"opad":[..]}.  Distinct states = 2 * lines (checked by the rig). *)
EXTENDS Md5, Sha1, Sha256, Sha512, Streebog, Hmac, Json, IOUtils

HpAlgs == << "md5", "sha1", "sha224", "sha256", "sha384", "sha512", "gost256", "gost512" >>
HpAlgSet == { HpAlgs[i] : i \in 1..Len(HpAlgs) }
HpH(alg, m) == CASE alg = "md5" -> Md5(m) [] alg = "sha1" -> Sha1(m)
                 [] alg = "sha224" -> Sha224(m) [] alg = "sha256" -> Sha256(m)
                 [] alg = "sha384" -> Sha384(m) [] alg = "sha512" -> Sha512(m)
                 [] alg = "gost256" -> Streebog256(m) [] alg = "gost512" -> Streebog512(m)
HpBlock(alg) == IF alg \in { "sha384", "sha512" } THEN 128 ELSE 64
HpDigestLen(alg) == CASE alg = "md5" -> 16 [] alg = "sha1" -> 20 [] alg = "sha224" -> 28 [] alg = "sha256" -> 32
                      [] alg = "sha384" -> 48 [] alg = "sha512" -> 64 [] alg = "gost256" -> 32 [] alg = "gost512" -> 64
\* the header entry point a variant is reached through
HpEntry(alg) == CASE alg = "md5" -> "md5" [] alg = "sha1" -> "sha1"
                  [] alg \in { "sha224", "sha256", "sha384", "sha512" } -> "sha2"
                  [] alg \in { "gost256", "gost512" } -> "gost3411_2012"
HpHasArg(alg) == HpEntry(alg) \in { "sha2", "gost3411_2012" }
\* accepted spellings of the variant argument: digest size in bits, digest size in bytes (none: no such argument)
HpArgSeq(alg) == IF HpHasArg(alg) THEN << 8 * HpDigestLen(alg), HpDigestLen(alg) >> ELSE << >>
HpArgs(alg) == { HpArgSeq(alg)[i] : i \in 1..Len(HpArgSeq(alg)) }
HpUnambiguous == \A a, b \in HpAlgSet : (a # b /\ HpEntry(a) = HpEntry(b)) => HpArgs(a) \cap HpArgs(b) = {}
ASSUME HpUnambiguous
ASSUME \A a \in HpAlgSet : Len(HpH(a, << >>)) = HpDigestLen(a) /\ HpDigestLen(a) <= HpBlock(a)
ASSUME \A a \in HpAlgSet : HpHasArg(a) => HpArgSeq(a)[1] # HpArgSeq(a)[2]
ASSUME PrintT(ToJson([variants |-> [i \in 1..Len(HpAlgs) |->
                        [alg |-> HpAlgs[i], entry |-> HpEntry(HpAlgs[i]), block |-> HpBlock(HpAlgs[i]),
                         digest |-> HpDigestLen(HpAlgs[i]), args |-> HpArgSeq(HpAlgs[i])]]]))

HpX(a, c) == a ^^ c
HpPads(alg, key) == LET H(m) == HpH(alg, m)
                        k0 == HmK0(H, HpBlock(alg), key)
                    IN [ipad |-> HmXorAll(HpX, k0, HmIpad), opad |-> HmXorAll(HpX, k0, HmOpad)]
\* the pads are what the RFC 2104 equation is built from (ties HpPads to HmacRFC; checked on every evaluated key)
HpPadsAreRFC(alg, key, p) == LET H(m) == HpH(alg, m) IN
                             /\ Len(p.ipad) = HpBlock(alg) /\ Len(p.opad) = HpBlock(alg)
                             /\ HmacRFC(H, HpX, HpBlock(alg), key, << >>) = H(p.opad \o H(p.ipad))

T == ndJsonDeserialize(IOEnv.TRACE)
VARIABLES tid, done
Init == tid \in 1..Len(T) /\ done = FALSE
Next == /\ ~done /\ done' = TRUE /\ tid' = tid
        /\ LET p == HpPads(T[tid].alg, T[tid].key) IN
           PrintT(ToJson([tid |-> tid, ipad |-> p.ipad, opad |-> p.opad,
                          rfc |-> HpPadsAreRFC(T[tid].alg, T[tid].key, p)]))
Spec == Init /\ [][Next]_<<tid, done>>
=============================================================================
