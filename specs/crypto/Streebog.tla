------------------------------ MODULE Streebog ------------------------------
(* GOST R 34.11-2012 ("Streebog", RFC 6986) as plain mathematics over byte sequences; reference for
   liblcb include/crypto/hash/gost3411-2012.h (C04, C07).
      Streebog512(msg) -> 64 bytes,  Streebog256(msg) -> 32 bytes
   Byte order: msg[1] is the first octet handed to the hash function (the LAST octet of the hexadecimal strings
   printed in RFC 6986, which writes vectors most significant octet first); digests are returned the same way
   (the order every implementation outputs them).  A 512-bit vector is held as 32 16-bit halves, least
   significant first: half k (0-based) = octet 2k + 256 * octet 2k+1.
   pi (S-box) and tau are typed from RFC 6986 sections 5.2/5.3; the matrix A and the constants C_1..C_12 live in
   the frozen module StreebogTables.  Two definitions of L.P.S are given: StbLPSdef straight from the standard
   (S, then P, then l on every 64-bit part, bit by bit) and StbLPS through per-octet tables derived from A and pi
   inside TLC (TabP); ASSUMEs check that they agree and that the RFC 6986 section 10 examples come out. *)
EXTENDS Words, StreebogTables, TLC

StbBlockSize == 64
StbPi == <<
   252, 238, 221,  17, 207, 110,  49,  22, 251, 196, 250, 218,  35, 197,   4,  77,
   233, 119, 240, 219, 147,  46, 153, 186,  23,  54, 241, 187,  20, 205,  95, 193,
   249,  24, 101,  90, 226,  92, 239,  33, 129,  28,  60,  66, 139,   1, 142,  79,
     5, 132,   2, 174, 227, 106, 143, 160,   6,  11, 237, 152, 127, 212, 211,  31,
   235,  52,  44,  81, 234, 200,  72, 171, 242,  42, 104, 162, 253,  58, 206, 204,
   181, 112,  14,  86,   8,  12, 118,  18, 191, 114,  19,  71, 156, 183,  93, 135,
    21, 161, 150,  41,  16, 123, 154, 199, 243, 145, 120, 111, 157, 158, 178, 177,
    50, 117,  25,  61, 255,  53, 138, 126, 109,  84, 198, 128, 195, 189,  13,  87,
   223, 245,  36, 169,  62, 168,  67, 201, 215, 121, 214, 246, 124,  34, 185,   3,
   224,  15, 236, 222, 122, 148, 176, 188, 220, 232,  40,  80,  78,  51,  10,  74,
   167, 151,  96, 115,  30,   0,  98,  68,  26, 184,  56, 130, 100, 159,  38,  65,
   173,  69,  70, 146,  39,  94,  85,  47, 140, 163, 165, 125, 105, 213, 149,  59,
     7,  88, 179,  64, 134, 172,  29, 247,  48,  55, 107, 228, 136, 217, 231, 137,
   225,  27, 131,  73,  76,  63, 248, 254, 141,  83, 170, 144, 202, 216, 133,  97,
    32, 113, 103, 164,  45,  43,   9,  91, 203, 155,  37, 208, 190, 229, 108,  82,
    89, 166, 116, 210, 230, 244, 180, 192, 209, 102, 175, 194,  57,  75,  99, 182
>>
StbTau == <<
     0,   8,  16,  24,  32,  40,  48,  56,   1,   9,  17,  25,  33,  41,  49,  57,
     2,  10,  18,  26,  34,  42,  50,  58,   3,  11,  19,  27,  35,  43,  51,  59,
     4,  12,  20,  28,  36,  44,  52,  60,   5,  13,  21,  29,  37,  45,  53,  61,
     6,  14,  22,  30,  38,  46,  54,  62,   7,  15,  23,  31,  39,  47,  55,  63
>>

(* ---------------- 512-bit vectors as 32 halves (least significant first) ---------------- *)
StbZero == << 0,0,0,0,0,0,0,0, 0,0,0,0,0,0,0,0, 0,0,0,0,0,0,0,0, 0,0,0,0,0,0,0,0 >>
StbOnes == << 257,257,257,257,257,257,257,257, 257,257,257,257,257,257,257,257,
              257,257,257,257,257,257,257,257, 257,257,257,257,257,257,257,257 >>       \* IV of the 256-bit variant: (00000001)^64
StbX(a, b) == << a[1] ^^ b[1], a[2] ^^ b[2], a[3] ^^ b[3], a[4] ^^ b[4], a[5] ^^ b[5], a[6] ^^ b[6], a[7] ^^ b[7], a[8] ^^ b[8]
      , a[9] ^^ b[9], a[10] ^^ b[10], a[11] ^^ b[11], a[12] ^^ b[12], a[13] ^^ b[13], a[14] ^^ b[14], a[15] ^^ b[15], a[16] ^^ b[16]
      , a[17] ^^ b[17], a[18] ^^ b[18], a[19] ^^ b[19], a[20] ^^ b[20], a[21] ^^ b[21], a[22] ^^ b[22], a[23] ^^ b[23], a[24] ^^ b[24]
      , a[25] ^^ b[25], a[26] ^^ b[26], a[27] ^^ b[27], a[28] ^^ b[28], a[29] ^^ b[29], a[30] ^^ b[30], a[31] ^^ b[31], a[32] ^^ b[32] >>
\* octet k (0..63) of vector v
StbByte(v, k) == IF k % 2 = 0 THEN v[(k \div 2) + 1] % 256 ELSE v[(k \div 2) + 1] \div 256
RECURSIVE StbFromBytesAcc(_, _, _, _)
StbFromBytesAcc(m, off, k, acc) == IF k = 32 THEN acc
   ELSE StbFromBytesAcc(m, off, k + 1, Append(acc, m[off + 2*k + 1] + 256 * m[off + 2*k + 2]))
StbFromBytes(m, off) == StbFromBytesAcc(m, off, 0, << >>)          \* octets off+1..off+64 of m
RECURSIVE StbToBytesAcc(_, _, _)
StbToBytesAcc(v, k, acc) == IF k > 32 THEN acc ELSE StbToBytesAcc(v, k + 1, Append(Append(acc, v[k] % 256), v[k] \div 256))
StbToBytes(v) == StbToBytesAcc(v, 1, << >>)
\* addition in the ring Z_{2^512}
RECURSIVE StbAddAcc(_, _, _, _, _)
StbAddAcc(a, b, k, carry, acc) == IF k > 32 THEN acc
   ELSE LET s == a[k] + b[k] + carry IN StbAddAcc(a, b, k + 1, s \div 65536, Append(acc, s % 65536))
StbAdd(a, b) == StbAddAcc(a, b, 1, 0, << >>)
StbOfNat(n) == << n % 65536, n \div 65536 >> \o SubSeq(StbZero, 3, 32)          \* n < 2^31

(* ---------------- the standard's S, P, l, L (definition; slow) ---------------- *)
\* vector whose octet k is F(k) -- F given as a 64-tuple of octet values (1-based)
StbVecOfOctets(o) == StbFromBytes(o, 0)
StbS(v) == StbVecOfOctets([k \in 1..64 |-> StbPi[StbByte(v, k - 1) + 1]])
StbP(v) == StbVecOfOctets([k \in 1..64 |-> StbByte(v, StbTau[k])])
\* l: 64-bit part b (four halves, most significant first); bit 63-j selects row j of A
StbBit(w, j) == (w[(j \div 16) + 1] \div Pow2(15 - (j % 16))) % 2          \* j = 0 is the most significant bit
RECURSIVE StbLAcc(_, _, _)
StbLAcc(w, j, acc) == IF j = 64 THEN acc
   ELSE StbLAcc(w, j + 1, IF StbBit(w, j) = 1 THEN W64Xor(acc, StbA[j + 1]) ELSE acc)
Stbl(w) == StbLAcc(w, 0, W64Zero)
\* 64-bit part i (0..7) of v, most significant half first, and back
StbPart(v, i) == << v[4*i + 4], v[4*i + 3], v[4*i + 2], v[4*i + 1] >>
StbL(v) == LET q(i) == Stbl(StbPart(v, i))
               r(i) == LET x == q(i) IN << x[4], x[3], x[2], x[1] >>
           IN r(0) \o r(1) \o r(2) \o r(3) \o r(4) \o r(5) \o r(6) \o r(7)
StbLPSdef(v) == StbL(StbP(StbS(v)))

(* ---------------- the same through per-octet tables (fast) ----------------
   TabP[b+1][x+1] (b = 0..7 octet position inside a 64-bit part, x = octet value BEFORE the S-box):
   the contribution l( pi(x) * 2^(8b) ), as four halves least significant first. *)
RECURSIVE StbTabEntry(_, _, _, _)
StbTabEntry(b, y, m, acc) == IF m = 8 THEN << acc[4], acc[3], acc[2], acc[1] >>
   ELSE StbTabEntry(b, y, m + 1, IF (y \div Pow2(m)) % 2 = 1 THEN W64Xor(acc, StbA[64 - 8*b - m]) ELSE acc)
RECURSIVE StbTabRow(_, _, _)
StbTabRow(b, x, acc) == IF x = 256 THEN acc ELSE StbTabRow(b, x + 1, Append(acc, StbTabEntry(b, StbPi[x + 1], 0, W64Zero)))
StbTabPdef == << StbTabRow(0, 0, << >>), StbTabRow(1, 0, << >>), StbTabRow(2, 0, << >>), StbTabRow(3, 0, << >>),
                StbTabRow(4, 0, << >>), StbTabRow(5, 0, << >>), StbTabRow(6, 0, << >>), StbTabRow(7, 0, << >>) >>
\* TLC does not cache a constant whose definition uses the Bitwise operators (measured: the table was rebuilt on every
\* reference), so the literal copy StbTabP in StreebogTables is what StbLPS indexes; it must equal the derivation:
ASSUME StbTabP = StbTabPdef
StbXor4(p, q) == << p[1] ^^ q[1], p[2] ^^ q[2], p[3] ^^ q[3], p[4] ^^ q[4] >>
\* part i of LPS(v): octet i of every 64-bit part b of v is moved by P to octet b of part i
StbLPSPart(v, i) ==
   LET T == StbTabP
       e(b) == T[b + 1][StbByte(v, 8*b + i) + 1]
   IN StbXor4(StbXor4(StbXor4(e(0), e(1)), StbXor4(e(2), e(3))), StbXor4(StbXor4(e(4), e(5)), StbXor4(e(6), e(7))))
StbLPS(v) == StbLPSPart(v, 0) \o StbLPSPart(v, 1) \o StbLPSPart(v, 2) \o StbLPSPart(v, 3) \o
             StbLPSPart(v, 4) \o StbLPSPart(v, 5) \o StbLPSPart(v, 6) \o StbLPSPart(v, 7)

(* ---------------- E, g_N, the three stages (RFC 6986 sections 7, 8) ---------------- *)
RECURSIVE StbE(_, _, _)
\* i = 1..12: state := LPS(state xor K_i), K_{i+1} := LPS(K_i xor C_i); finally xor K_13
StbE(k, st, i) == IF i = 13 THEN StbX(k, st)
                  ELSE StbE(StbLPS(StbX(k, StbC[i])), StbLPS(StbX(k, st)), i + 1)
StbG(n, h, m) == StbX(StbX(StbE(StbLPS(StbX(h, n)), m, 1), h), m)
StbV512 == StbOfNat(512)

\* stage 2 over the whole 64-octet blocks of msg; state = << h, N, Sigma >>
RECURSIVE StbStage2(_, _, _, _)
StbStage2(st, msg, off, n) ==
   IF n - off < 64 THEN st
   ELSE LET m == StbFromBytes(msg, off)
        IN StbStage2(<< StbG(st[2], st[1], m), StbAdd(st[2], StbV512), StbAdd(st[3], m) >>, msg, off + 64, n)
\* the padded message: 0x01 then zeros up to the next block boundary (always at least one octet, RFC 6986 stage 3)
StbPad(msg) == msg \o << 1 >> \o Zeros(63 - (Len(msg) % 64))
\* stage 3: the remaining r < 64 octets, padded with 0x01 then zeros
StbStage3(st, msg, n) ==
   LET r == n % 64
       m == StbFromBytes(SubSeq(msg, n - r + 1, n) \o << 1 >> \o Zeros(63 - r), 0)
       h1 == StbG(st[2], st[1], m)
       n1 == StbAdd(st[2], StbOfNat(8 * r))
       s1 == StbAdd(st[3], m)
       h2 == StbG(StbZero, h1, n1)
   IN StbG(StbZero, h2, s1)
StbHash(iv, msg) == LET n == Len(msg) IN StbStage3(StbStage2(<< iv, StbZero, StbZero >>, msg, 0, n), msg, n)
Streebog512(msg) == StbToBytes(StbHash(StbZero, msg))
Streebog256(msg) == SubSeq(StbToBytes(StbHash(StbOnes, msg)), 33, 64)

(* ---- self validation ---- *)
RECURSIVE StbRev(_)
StbRev(s) == IF s = << >> THEN s ELSE Append(StbRev(Tail(s)), Head(s))
ASSUME \A k \in 0..63 : StbTau[k + 1] = 8 * (k % 8) + (k \div 8)                 \* tau is the 8x8 transposition
ASSUME \A x \in 0..255 : \E y \in 1..256 : StbPi[y] = x                           \* pi is a permutation
ASSUME StbToBytes(StbFromBytes(StbPi, 64)) = SubSeq(StbPi, 65, 128)
ASSUME StbAdd(StbX(StbZero, [k \in 1..32 |-> 65535]), StbOfNat(1)) = StbZero     \* 2^512 - 1 + 1 = 0
\* table form = definition, on three unrelated vectors
ASSUME StbLPS(StbZero) = StbLPSdef(StbZero)
ASSUME StbLPS(StbC[1]) = StbLPSdef(StbC[1])
ASSUME StbLPS(StbFromBytes(StbPi, 100)) = StbLPSdef(StbFromBytes(StbPi, 100))
\* RFC 6986 section 10.1 (M1, 504 bits) and 10.2 (M2, 576 bits); the RFC prints most significant octet first
StbM1 == StbRev(<< 50, 49, 48, 57, 56, 55, 54, 53, 52, 51, 50, 49, 48, 57, 56, 55, 54, 53, 52, 51, 50, 49, 48, 57, 56, 55, 54, 53, 52, 51, 50, 49, 48, 57, 56, 55, 54, 53, 52, 51, 50, 49, 48, 57, 56, 55, 54, 53, 52, 51, 50, 49, 48, 57, 56, 55, 54, 53, 52, 51, 50, 49, 48 >>)
StbM2 == StbRev(<< 251, 226, 229, 240, 238, 227, 200, 32, 251, 234, 250, 235, 239, 32, 255, 251, 240, 225, 224, 240, 245, 32, 224, 237, 32, 232, 236, 224, 235, 229, 240, 242, 241, 32, 255, 240, 238, 236, 32, 241, 32, 250, 242, 254, 229, 226, 32, 44, 232, 246, 243, 237, 226, 32, 232, 230, 238, 225, 232, 240, 242, 209, 32, 44, 232, 240, 242, 229, 226, 32, 229, 209 >>)
ASSUME Streebog512(StbM1) = StbRev(<< 72, 111, 100, 193, 145, 120, 121, 65, 127, 239, 8, 43, 51, 129, 164, 226, 17, 195, 36, 240, 116, 101, 76, 56, 130, 58, 123, 118, 248, 48, 173, 0, 250, 31, 186, 228, 43, 18, 133, 192, 53, 47, 34, 117, 36, 188, 154, 177, 98, 84, 40, 141, 214, 134, 61, 204, 213, 185, 245, 74, 26, 208, 84, 27 >>)
ASSUME Streebog256(StbM1) = StbRev(<< 0, 85, 123, 229, 229, 132, 253, 82, 164, 73, 177, 107, 2, 81, 208, 93, 39, 249, 74, 183, 108, 186, 166, 218, 137, 11, 89, 216, 239, 30, 21, 157 >>)
ASSUME Streebog512(StbM2) = StbRev(<< 40, 251, 201, 186, 218, 3, 59, 20, 96, 100, 43, 220, 221, 185, 12, 63, 179, 229, 108, 73, 124, 205, 15, 98, 184, 162, 173, 73, 53, 232, 95, 3, 118, 19, 150, 109, 228, 238, 0, 83, 26, 230, 15, 59, 90, 71, 248, 218, 224, 105, 21, 213, 242, 241, 148, 153, 111, 202, 191, 38, 34, 230, 136, 30 >>)
ASSUME Streebog256(StbM2) = StbRev(<< 80, 143, 126, 85, 60, 6, 80, 29, 116, 154, 102, 252, 40, 198, 202, 192, 176, 5, 116, 109, 151, 83, 127, 168, 93, 158, 64, 144, 78, 254, 210, 157 >>)
\* M1 is "012345678901234567890123456789012345678901234567890123456789012" in ASCII
ASSUME StbM1[1] = 48 /\ StbM1[2] = 49 /\ StbM1[63] = 50 /\ Len(StbM1) = 63 /\ Len(StbM2) = 72
=============================================================================
