SPECIFICATION Spec
CONSTANTS
  B = 4
  L = 1
  Kind = "MD"
  BigEndian = TRUE
  Alphabet = {0}
  MaxLen = 13
  MaxChunks = 4
  TrackShape = TRUE
INVARIANTS Reach_FillFlushBulkTail
CHECK_DEADLOCK FALSE
