----------------------------- MODULE HashResume -----------------------------
(* The hash functions of C04 as functions of the STREAM STATE, next to the whole-message definitions of
   Md5 / Sha1 / Sha256 / Sha512 / Streebog.

   A Merkle-Damgaard style hash is a fold: after j whole blocks the only things the rest of the computation
   depends on are the chaining value H, the bytes not yet compressed and the number of bytes seen so far.  The
   whole-message definitions hide the last item in Len(msg) - so a message long enough to exercise the upper
   bytes of the length field (>= 2^29 bytes: bit count >= 2^32; SHA-384/512: >= 2^61 bytes: upper 64 bits)
   can not be written down, let alone evaluated.  Here the byte total is an explicit argument, a wide natural
   held as 16-bit limbs (least significant first; TLC integers are 32-bit), so the finalisation can be
   evaluated - and the real *_final can be bound - at ANY position of a stream:

      HrFinalFrom(alg, H, tail, total)            the digest when the stream ends in a context that holds chaining
                                                  value H, the Len(tail) = total mod B buffered bytes `tail`, and
                                                  has seen `total` bytes
      HrResumeFrom(alg, H, cnt, sig, buf, data)   the digest when a context in state (H, count cnt, buffer buf)
                                                  is given `data` and then finalised

   Length encodings (each family has its own):
      MD5           bit count modulo 2^64, 8 bytes little endian      (RFC 1321 3.2: "low-order 64 bits")
      SHA-1/224/256 bit count, 8 bytes big endian, total < 2^61 bytes (FIPS 180-4 5.1.1: l < 2^64)
      SHA-384/512   bit count, 16 bytes big endian, total < 2^125     (FIPS 180-4 5.1.2: l < 2^128)
      Streebog      no length field: the state is (h, N, Sigma); N counts BITS modulo 2^512 and is folded in
                    by g_0 at the end together with the 512-bit checksum Sigma (RFC 6986 8.2/8.3).  For this
                    family `H` = h, `cnt` = N, `sig` = Sigma as 512-bit vectors (32 limbs) and `total` is N.

   The two formulations are proved to agree by TLC: HrPadAgrees (byte-string identity of the paddings, every
   length 0..2B+1, module ASSUMEs below) and HrResumeAgrees (digest identity for a message cut into absorbed
   blocks / buffered bytes / data; instances enumerated by MCHashResume and re-checked on "ident" records of
   every TraceHash run). *)
EXTENDS Md5, Sha1, Sha256, Sha512, Streebog

(* ------------------------------------------------ wide naturals: 16-bit limbs, least significant first *)
RECURSIVE WnOfNatAcc(_, _, _)
WnOfNatAcc(n, k, acc) == IF k = 0 THEN acc ELSE WnOfNatAcc(n \div M16, k - 1, Append(acc, n % M16))
WnOfNat(n, k) == WnOfNatAcc(n, k, << >>)                     \* n < 2^31 as k limbs
RECURSIVE WnAddAcc(_, _, _, _)
WnAddAcc(x, c, i, acc) == IF i > Len(x) THEN acc
                          ELSE LET s == x[i] + c IN WnAddAcc(x, s \div M16, i + 1, Append(acc, s % M16))
WnAddSmall(x, n) == WnAddAcc(x, n, 1, << >>)                 \* (x + n) mod 2^(16 Len(x)),  0 <= n < 2^30
RECURSIVE WnMul8Acc(_, _, _, _)
WnMul8Acc(x, c, i, acc) == IF i > Len(x) THEN acc
                           ELSE LET s == x[i] * 8 + c IN WnMul8Acc(x, s \div M16, i + 1, Append(acc, s % M16))
WnMul8(x) == WnMul8Acc(x, 0, 1, << >>)                       \* 8x mod 2^(16 Len(x))
RECURSIVE WnBytesLEAcc(_, _, _)
WnBytesLEAcc(x, i, acc) == IF i > Len(x) THEN acc ELSE WnBytesLEAcc(x, i + 1, Append(Append(acc, x[i] % 256), x[i] \div 256))
WnBytesLE(x) == WnBytesLEAcc(x, 1, << >>)
RECURSIVE WnBytesBEAcc(_, _, _)
WnBytesBEAcc(x, i, acc) == IF i = 0 THEN acc ELSE WnBytesBEAcc(x, i - 1, Append(Append(acc, x[i] \div 256), x[i] % 256))
WnBytesBE(x) == WnBytesBEAcc(x, Len(x), << >>)
WnModPow2(x, b) == x[1] % b                                   \* b a power of two <= 65536

(* ------------------------------------------------ parameters of the eight algorithms *)
HrAlgs == { "md5", "sha1", "sha224", "sha256", "sha384", "sha512", "gost256", "gost512" }
HrIsGost(alg) == alg \in { "gost256", "gost512" }
HrB(alg) == IF alg \in { "sha384", "sha512" } THEN 128 ELSE 64          \* block size
HrL(alg) == IF alg \in { "sha384", "sha512" } THEN 16 ELSE 8            \* length field size (not Streebog)
HrBE(alg) == alg # "md5"
HrCntLimbs(alg) == IF HrIsGost(alg) THEN 32 ELSE HrL(alg) \div 2         \* limbs of the byte counter / of N
HrInit(alg) == CASE alg = "md5" -> Md5Init [] alg = "sha1" -> Sha1Init
                 [] alg = "sha224" -> Sha224Init [] alg = "sha256" -> Sha256Init
                 [] alg = "sha384" -> Sha384Init [] alg = "sha512" -> Sha512Init
                 [] alg = "gost256" -> StbOnes [] alg = "gost512" -> StbZero
\* chaining value after the whole blocks of m (Len(m) a multiple of B), starting from H  (not Streebog)
HrAbsorb(alg, H, m) == CASE alg = "md5" -> Md5Absorb(H, m) [] alg = "sha1" -> Sha1Absorb(H, m)
                         [] alg \in { "sha224", "sha256" } -> Sha256Absorb(H, m)
                         [] alg \in { "sha384", "sha512" } -> Sha512Absorb(H, m)
\* digest bytes of a final chaining value
HrOut(alg, H) == CASE alg = "md5" -> Md5Out(H) [] alg = "sha1" -> Sha1Out(H)
                   [] alg = "sha224" -> SubSeq(Sha256Out(H), 1, 28) [] alg = "sha256" -> Sha256Out(H)
                   [] alg = "sha384" -> SubSeq(Sha512Out(H), 1, 48) [] alg = "sha512" -> Sha512Out(H)
                   [] alg = "gost256" -> SubSeq(StbToBytes(H), 33, 64) [] alg = "gost512" -> StbToBytes(H)
\* a whole chaining value written like a digest (all words, the byte order of HrOut) and back
HrHBytes(alg, H) == CASE alg = "md5" -> Md5Out(H) [] alg = "sha1" -> Sha1Out(H)
                      [] alg \in { "sha224", "sha256" } -> Sha256Out(H)
                      [] alg \in { "sha384", "sha512" } -> Sha512Out(H)
                      [] HrIsGost(alg) -> StbToBytes(H)
HrHOfBytes(alg, b) ==
   CASE alg = "md5" -> << W32FromLE(b[1], b[2], b[3], b[4]), W32FromLE(b[5], b[6], b[7], b[8]),
                          W32FromLE(b[9], b[10], b[11], b[12]), W32FromLE(b[13], b[14], b[15], b[16]) >>
     [] alg = "sha1" -> << W32FromBE(b[1], b[2], b[3], b[4]), W32FromBE(b[5], b[6], b[7], b[8]),
                           W32FromBE(b[9], b[10], b[11], b[12]), W32FromBE(b[13], b[14], b[15], b[16]),
                           W32FromBE(b[17], b[18], b[19], b[20]) >>
     [] alg \in { "sha224", "sha256" } ->
                        << W32FromBE(b[1], b[2], b[3], b[4]), W32FromBE(b[5], b[6], b[7], b[8]),
                           W32FromBE(b[9], b[10], b[11], b[12]), W32FromBE(b[13], b[14], b[15], b[16]),
                           W32FromBE(b[17], b[18], b[19], b[20]), W32FromBE(b[21], b[22], b[23], b[24]),
                           W32FromBE(b[25], b[26], b[27], b[28]), W32FromBE(b[29], b[30], b[31], b[32]) >>
     [] alg \in { "sha384", "sha512" } ->
                        << W64FromBE(SubSeq(b, 1, 8)), W64FromBE(SubSeq(b, 9, 16)), W64FromBE(SubSeq(b, 17, 24)),
                           W64FromBE(SubSeq(b, 25, 32)), W64FromBE(SubSeq(b, 33, 40)), W64FromBE(SubSeq(b, 41, 48)),
                           W64FromBE(SubSeq(b, 49, 56)), W64FromBE(SubSeq(b, 57, 64)) >>
     [] HrIsGost(alg) -> StbFromBytes(b, 0)
\* the whole-message definitions
HrWhole(alg, m) == CASE alg = "md5" -> Md5(m) [] alg = "sha1" -> Sha1(m)
                     [] alg = "sha224" -> Sha224(m) [] alg = "sha256" -> Sha256(m)
                     [] alg = "sha384" -> Sha384(m) [] alg = "sha512" -> Sha512(m)
                     [] alg = "gost256" -> Streebog256(m) [] alg = "gost512" -> Streebog512(m)
HrWholePad(alg, m) == CASE alg = "md5" -> Md5Pad(m) [] alg = "sha1" -> Sha1Pad(m)
                        [] alg \in { "sha224", "sha256" } -> Sha256Pad(m)
                        [] alg \in { "sha384", "sha512" } -> Sha512Pad(m)

(* ------------------------------------------------ finalisation as a function of the stream state *)
\* the length field: bit count = 8 * total modulo 2^(8L), L bytes in the family's byte order (total: >= L/2 limbs)
HrLenField(alg, total) == LET bits == WnMul8(SubSeq(total, 1, HrL(alg) \div 2))
                          IN IF HrBE(alg) THEN WnBytesBE(bits) ELSE WnBytesLE(bits)
\* what final appends to the buffered bytes: 0x80, zeros up to B-L modulo B, the length field
HrFinalPad(alg, tail, total) ==
   tail \o << 128 >> \o Zeros((2 * HrB(alg) - HrL(alg) - 1 - Len(tail)) % HrB(alg)) \o HrLenField(alg, total)
\* precondition of the MD families: the buffer holds exactly the bytes behind the last whole block
HrStateOk(alg, tail, total) == Len(tail) < HrB(alg) /\ (HrIsGost(alg) \/ Len(tail) = WnModPow2(total, HrB(alg)))

HrFinalFrom(alg, H, tail, total) == HrOut(alg, HrAbsorb(alg, H, HrFinalPad(alg, tail, total)))
\* Streebog: stage 3 of RFC 6986 from (h, N, Sigma) with the r < 64 buffered octets
HrGostFinalFrom(alg, h, N, Sigma, tail) == HrOut(alg, StbStage3(<< h, N, Sigma >>, tail, Len(tail)))

\* a context in state (H, cnt, [sig,] buf) is given data, then finalised
HrResumeFrom(alg, H, cnt, sig, buf, data) ==
   LET all == buf \o data
       n   == Len(all)
   IN IF HrIsGost(alg)
      THEN LET st2 == StbStage2(<< H, cnt, sig >>, all, 0, n)
           IN HrGostFinalFrom(alg, st2[1], st2[2], st2[3], SubSeq(all, n - (n % 64) + 1, n))
      ELSE LET nb == n \div HrB(alg)
               H1 == HrAbsorb(alg, H, SubSeq(all, 1, nb * HrB(alg)))
           IN HrFinalFrom(alg, H1, SubSeq(all, nb * HrB(alg) + 1, n), WnAddSmall(cnt, Len(data)))

(* ------------------------------------------------ the identities that tie the two formulations together *)
\* (1) paddings: the whole-message padding is the message's whole blocks followed by HrFinalPad of the rest
HrPadAgrees(alg, m) ==
   LET n == Len(m)
       k == (n \div HrB(alg)) * HrB(alg)
   IN HrWholePad(alg, m) = SubSeq(m, 1, k) \o HrFinalPad(alg, SubSeq(m, k + 1, n), WnOfNat(n, HrCntLimbs(alg)))
\* (2) digests: cut m after j whole blocks and b further bytes (b < B): the state reached on the prefix,
\*     resumed with the rest, gives the whole-message digest
HrResumeAgrees(alg, m, j, b) ==
   LET B    == HrB(alg)
       pre  == SubSeq(m, 1, j * B)
       buf  == SubSeq(m, j * B + 1, j * B + b)
       data == SubSeq(m, j * B + b + 1, Len(m))
   IN /\ j * B + b <= Len(m) /\ b < B
      /\ IF HrIsGost(alg)
         THEN LET st2 == StbStage2(<< HrInit(alg), StbZero, StbZero >>, pre, 0, j * B)
              IN HrWhole(alg, m) = HrResumeFrom(alg, st2[1], st2[2], st2[3], buf, data)
         ELSE HrWhole(alg, m) = HrResumeFrom(alg, HrAbsorb(alg, HrInit(alg), pre),
                                             WnOfNat(j * B + b, HrCntLimbs(alg)), << >>, buf, data)

(* ---- self validation (cheap: byte strings only, no compression function) ---- *)
RECURSIVE HrRampAcc(_, _, _)
HrRampAcc(n, i, acc) == IF i > n THEN acc ELSE HrRampAcc(n, i + 1, Append(acc, (i * 7 + 3) % 256))
HrRamp(n) == HrRampAcc(n, 1, << >>)
ASSUME WnOfNat(65536 * 3 + 5, 4) = << 5, 3, 0, 0 >>
ASSUME WnAddSmall(<< 65535, 65535, 0, 0 >>, 1) = << 0, 0, 1, 0 >>
ASSUME WnAddSmall(<< 65535, 65535, 65535, 65535 >>, 70000) = << 4463, 1, 0, 0 >>              \* wraps modulo 2^64
ASSUME WnMul8(<< 8192, 0, 0, 0 >>) = << 0, 1, 0, 0 >> /\ WnMul8(<< 0, 0, 0, 8192 >>) = << 0, 0, 0, 0 >>
ASSUME WnBytesLE(<< 513, 1027 >>) = << 1, 2, 3, 4 >> /\ WnBytesBE(<< 513, 1027 >>) = << 4, 3, 2, 1 >>
\* 2^29 bytes = 2^32 bits: the fifth byte of the field (RFC 1321: low word first; FIPS 180: big endian)
ASSUME HrLenField("md5", << 0, 8192, 0, 0 >>) = << 0, 0, 0, 0, 1, 0, 0, 0 >>
ASSUME HrLenField("sha1", << 0, 8192, 0, 0 >>) = << 0, 0, 0, 1, 0, 0, 0, 0 >>
ASSUME HrLenField("sha512", << 0, 0, 0, 8192, 0, 0, 0, 0 >>) = << 0, 0, 0, 0, 0, 0, 0, 1, 0, 0, 0, 0, 0, 0, 0, 0 >>   \* 2^61 bytes
ASSUME \A n \in 0..129 : HrPadAgrees("md5", HrRamp(n)) /\ HrPadAgrees("sha1", HrRamp(n)) /\ HrPadAgrees("sha256", HrRamp(n))
ASSUME \A n \in 0..257 : HrPadAgrees("sha512", HrRamp(n))
=============================================================================
