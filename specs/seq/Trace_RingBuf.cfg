SPECIFICATION Spec
CONSTANTS
  Size = 6
  MinBlock = 1
  Readers = {0}
  RoundMod = 65536
  TR0 = 65533
  Fix = {}
  Record = 1
  Allow = {}
INVARIANTS Conforms RoundsBound
CHECK_DEADLOCK FALSE
