\* thorough tier: small alphabet, stores of <= 5 lines
SPECIFICATION MCSpec
CONSTANTS
  RepairedFind = TRUE
  RepairedGen = TRUE
  Sections <- S_Aa
  Names <- N_kK
  Values <- V_3
  ExtraLines <- X_min
  Styles = {"lf", "mix"}
  MaxTextLines = 1
  MaxLines = 5
  MaxDepth = 1000
INVARIANTS TypeOK Inv_LookupS Inv_LookupI Inv_SetGet Inv_SetOrder EnumInFileOrder EnumIsFilter RoundTrip CalcEqualsGen GenRespectsCap
CHECK_DEADLOCK FALSE
