\* thorough tier: the full alphabet of DESIGN.md section 4 C17, stores of <= 3 lines
SPECIFICATION MCSpec
CONSTANTS
  RepairedFind = TRUE
  RepairedGen = TRUE
  Sections <- S_AaB
  Names <- N_kKn
  Values <- V_4
  ExtraLines <- X_all
  Styles = {"lf", "crlf", "mix"}
  MaxTextLines = 2
  MaxLines = 3
  MaxDepth = 1000
INVARIANTS TypeOK Inv_LookupS Inv_LookupI Inv_SetGet Inv_SetOrder EnumInFileOrder EnumIsFilter RoundTrip CalcEqualsGen GenRespectsCap
CHECK_DEADLOCK FALSE
