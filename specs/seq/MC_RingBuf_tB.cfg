\* thorough B: ring of 8, minimum block 2 (commits of 1 byte are refused), two readers
SPECIFICATION Spec
CONSTANTS
  Size = 8
  MinBlock = 2
  Readers = {0, 1}
  RoundMod = 8
  Fix = {}
  Record = 0
  R0s = {6}
  GetMins = {2, 5}
  BlockSizes = {1, 2, 3}
  Offsets = {0, 1}
  Set2Gaps = {0}
  Set2Sizes = {2}
  InitBacks = {0, 100}
  DataSizes = {4, 10000}
  IovCnts = {2, 64}
  MaxWritten = 8
  MaxRounds = 3
  Allow = {}
  EmitMode = FALSE
INVARIANTS PropertyHolds TypeOK
CONSTRAINT BoundEmit
CHECK_DEADLOCK FALSE
