----------------------------- MODULE IniMenu -----------------------------
(* Operation alphabet shared by the exhaustive (MC_IniStore) and the behaviour-emitting (Beh_IniStore) models:
   the menu of text lines, their rendering with the end-of-line styles, and the constant sets the cfg files name. *)
EXTENDS IniStore

CONSTANTS Sections, Names, Values, ExtraLines, Styles, MaxTextLines, MaxLines, MaxDepth

Menu == {<< LBR >> \o s \o << RBR >> : s \in Sections}
        \cup {n \o << EQC >> \o v : n \in Names, v \in Values}
        \cup ExtraLines
\* rendering of a sequence of lines with one of the end-of-line styles
RECURSIVE Render(_, _, _)
Render(ls, st, i) ==
   IF i > Len(ls) THEN << >>
   ELSE ls[i] \o (CASE st = "lf" -> << LF >>
                    [] st = "crlf" -> << CR, LF >>
                    [] st = "mix" -> IF i = Len(ls) THEN << >> ELSE IF i % 2 = 1 THEN << CR, LF >> ELSE << LF >>)
        \o Render(ls, st, i + 1)
Texts == UNION { { Render(ls, st, 1) : ls \in [1..k -> Menu], st \in Styles } : k \in 1..MaxTextLines }

\* ---- constant sets (cfg files cannot write tuples)
B(str) == str
S_Aa  == { <<65>>, <<97>> }
S_AaB == { <<65>>, <<97>>, <<66>> }
N_kK  == { <<107>>, <<75>> }
N_kKn == { <<107>>, <<75>>, <<110>> }
LongV == << 76,76,76,76,76,76,76,76,76,76,76,76,76,76,76,76,76,76,76,76 >>          \* 20 bytes > PAD
V_3   == { << >>, <<120>>, LongV }
V_4   == { << >>, <<120>>, <<121,121>>, LongV }
LongW == LongV \o << 87,87,87,87,87 >>                             \* 25 bytes: fits the slack a realloc to LongV leaves
V_4w  == { << >>, <<120>>, LongV, LongW }
V_5   == { << >>, <<120>>, <<121,121>>, LongV, LongW }
X_min == { << >>, <<59,99>> }                                      \* "", ";c"
X_all == { << >>, <<59,99>>, <<35>>, <<106>>, <<91,120>>, <<91,65,93,122>>, <<61,118>>, <<107,61,97,61,98>>, <<13>> }
   \* "", ";c", "#", "j", "[x", "[A]z", "=v", "k=a=b", CR
=============================================================================
