\* model of the code AS SHIPPED (ini_buf_gen tests each line against the whole capacity): TLC must find a violation
SPECIFICATION MCSpec
CONSTANTS
  RepairedFind = TRUE
  RepairedGen = FALSE
  Sections <- S_Aa
  Names <- N_kK
  Values <- V_3
  ExtraLines <- X_min
  Styles = {"lf"}
  MaxTextLines = 1
  MaxLines = 3
  MaxDepth = 1000
INVARIANTS GenRespectsCap
CHECK_DEADLOCK FALSE
