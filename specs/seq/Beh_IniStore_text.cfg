\* quick: Parse of every byte string of <= 4 bytes over LF CR [ ] = ; A k
SPECIFICATION TextSpec
CONSTANTS
  RepairedFind = TRUE
  RepairedGen = TRUE
  Sections <- S_Aa
  Names <- N_kK
  Values <- V_3
  ExtraLines <- X_min
  Styles = {"lf"}
  MaxTextLines = 1
  MaxLines = 1000
  MaxDepth = 4
  SimTextLines = 3
  Alphabet = {10, 13, 91, 93, 61, 59, 65, 107}
INVARIANTS TextInv RoundTrip CalcEqualsGen GenRespectsCap EnumIsFilter EmitInv
CHECK_DEADLOCK FALSE
