SPECIFICATION TSpec
CONSTANTS
  RepairedFind = TRUE
  RepairedGen = TRUE
  FindModels = {TRUE, FALSE}
  GenModels = {TRUE, FALSE}
INVARIANTS Accepted TypeOK
CHECK_DEADLOCK FALSE
