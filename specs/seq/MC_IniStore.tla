----------------------------- MODULE MC_IniStore -----------------------------
(* Exhaustive configurations for IniStore: every history of Parse/Set operations over stores of at most MaxLines
   lines (histories of any length when MaxDepth is large). *)
EXTENDS IniMenu

MCInit == Init
\* Parse(t): the two splittings of t are evaluated once per text (constant-level, cached by TLC), not once per
\* state, and texts are grouped by the number of lines they add so that the line bound is a guard
\* (TLC evaluates invariants also on successors that a CONSTRAINT would discard).
ParsedTexts == { << Items(t), MapClassify(Split(t)) >> : t \in Texts }
ParsedByLen == [k \in 0..(2 * MaxTextLines) |-> { p \in ParsedTexts : Len(p[1]) = k }]
ParseMC(p) == lines' = lines \o p[1] /\ model' = DParse(model, p[2])
ASSUME \A p \in ParsedTexts : p[1] = p[2] /\ Len(p[1]) <= 2 * MaxTextLines
Deeper == TLCGet("level") <= MaxDepth
MCParse == Deeper /\ \E k \in 1..(MaxLines - Len(lines)) : k <= 2 * MaxTextLines /\ \E p \in ParsedByLen[k] : ParseMC(p)
\* one named action per branch of ini_val_set, so that -coverage shows that each is taken
MCSetNewSect == /\ Deeper
                /\ \E s \in Sections, n \in Names, v \in Values :
                     SetPath(lines, s, n, v, RepairedFind) = "newsect" /\ Set(s, n, v)
                /\ Len(lines') <= MaxLines
MCSetInsert  == /\ Deeper
                /\ \E s \in Sections, n \in Names, v \in Values :
                     SetPath(lines, s, n, v, RepairedFind) = "insert" /\ Set(s, n, v)
                /\ Len(lines') <= MaxLines
MCSetInPlace == /\ Deeper
                /\ \E s \in Sections, n \in Names, v \in Values :
                     SetPath(lines, s, n, v, RepairedFind) = "inplace" /\ Set(s, n, v)
MCSetRealloc == /\ Deeper
                /\ \E s \in Sections, n \in Names, v \in Values :
                     SetPath(lines, s, n, v, RepairedFind) = "realloc" /\ Set(s, n, v)
MCNext == MCParse \/ MCSetNewSect \/ MCSetInsert \/ MCSetInPlace \/ MCSetRealloc
MCSpec == MCInit /\ [][MCNext]_vars

Inv_LookupS   == LookupIsLastWriteS(Sections, Names)
Inv_LookupI   == LookupIsLastWriteI(Sections, Names)
Inv_SetGet    == SetThenGet(Sections, Names, Values)
Inv_SetOrder  == SetKeepsOrder(Sections, Names, Values)
\* vacuity companions: each is EXPECTED TO BE VIOLATED (the situation is reachable), checked in the thorough tier
Reach_DictBig   == ~(~model.dupI /\ Len(model.secs) >= 2 /\ \E i \in 1..Len(model.secs) : Len(model.secs[i].ents) >= 2)
Reach_DupSOnly  == ~(model.dupS)
Reach_DupIOnly  == ~(model.dupI /\ ~model.dupS)
Reach_BlankTail == ~(\E i \in 1..Len(lines) : lines[i].type = T_VALUE /\ i > 2 /\ lines[i - 1].type = T_VALUE
                        /\ i < Len(lines) /\ lines[i + 1].type = T_EMPTY /\ lines[i].alloc > Len(lines[i].raw) + PAD)

=============================================================================
