----------------------------- MODULE MC_IniStore -----------------------------
(* Exhaustive configurations for IniStore: every history of Parse/Set operations within the bounds. *)
EXTENDS IniStore

CONSTANTS Sections, Names, Values, ExtraLines, Styles, MaxTextLines, MaxLines, MaxDepth

Menu == {<< LBR >> \o s \o << RBR >> : s \in Sections}
        \cup {n \o << EQC >> \o v : n \in Names, v \in Values}
        \cup ExtraLines
\* rendering of a sequence of lines with one of the end-of-line styles
RECURSIVE Render(_, _, _)
Render(ls, st, i) ==
   IF i > Len(ls) THEN << >>
   ELSE ls[i] \o (CASE st = "lf" -> << LF >>
                    [] st = "crlf" -> << CR, LF >>
                    [] st = "mix" -> IF i = Len(ls) THEN << >> ELSE IF i % 2 = 1 THEN << CR, LF >> ELSE << LF >>)
        \o Render(ls, st, i + 1)
Texts == UNION { { Render(ls, st, 1) : ls \in [1..k -> Menu], st \in Styles } : k \in 1..MaxTextLines }

MCInit == Init
\* Parse(t): the two splittings of t are evaluated once per text (constant-level, cached by TLC), not once per
\* state, and texts are grouped by the number of lines they add so that the line bound is a guard
\* (TLC evaluates invariants also on successors that a CONSTRAINT would discard).
ParsedTexts == { << Items(t), MapClassify(Split(t)) >> : t \in Texts }
ParsedByLen == [k \in 0..(2 * MaxTextLines) |-> { p \in ParsedTexts : Len(p[1]) = k }]
ParseMC(p) == lines' = lines \o p[1] /\ model' = DParse(model, p[2])
ASSUME \A p \in ParsedTexts : p[1] = p[2] /\ Len(p[1]) <= 2 * MaxTextLines
MCNext == /\ TLCGet("level") <= MaxDepth
          /\ \/ \E k \in 1..(MaxLines - Len(lines)) : k <= 2 * MaxTextLines /\ \E p \in ParsedByLen[k] : ParseMC(p)
             \/ /\ \E s \in Sections, n \in Names, v \in Values : Set(s, n, v)
                /\ Len(lines') <= MaxLines
MCSpec == MCInit /\ [][MCNext]_vars

Inv_LookupS   == LookupIsLastWriteS(Sections, Names)
Inv_LookupI   == LookupIsLastWriteI(Sections, Names)
Inv_SetGet    == SetThenGet(Sections, Names, Values)
Inv_SetOrder  == SetKeepsOrder(Sections, Names, Values)
\* vacuity companions (checked negated in the thorough tier): the guarded invariants have non-trivial instances
Reach_NoDupBig == ~(~model.dupI /\ Len(model.secs) >= 2 /\ \E i \in 1..Len(model.secs) : Len(model.secs[i].ents) >= 2)

\* ---- constant sets (cfg files cannot write tuples)
B(str) == str
S_Aa  == { <<65>>, <<97>> }
S_AaB == { <<65>>, <<97>>, <<66>> }
N_kK  == { <<107>>, <<75>> }
N_kKn == { <<107>>, <<75>>, <<110>> }
LongV == << 76,76,76,76,76,76,76,76,76,76,76,76,76,76,76,76,76,76,76,76 >>          \* 20 bytes > PAD
V_3   == { << >>, <<120>>, LongV }
V_4   == { << >>, <<120>>, <<121,121>>, LongV }
X_min == { << >>, <<59,99>> }                                      \* "", ";c"
X_all == { << >>, <<59,99>>, <<35>>, <<106>>, <<91,120>>, <<91,65,93,122>>, <<61,118>>, <<107,61,97,61,98>>, <<13>> }
   \* "", ";c", "#", "j", "[x", "[A]z", "=v", "k=a=b", CR
=============================================================================
