---------------------------- MODULE MC_RingBuf ----------------------------
(* Exhaustive exploration of ring histories: every interleaving of writer steps (get with several
   minimum sizes, commit with/without leading offset, set2 with/without gap, wrap) with reader steps
   (init at several distances back, avail, data_get with several size/iovec limits, inc by every amount
   up to what was handed out), from every initial value R0 of the round counter, so that the counter
   wraps inside the model. *)
EXTENDS RingBuf, Json
CONSTANTS R0s, GetMins, BlockSizes, Offsets, Set2Gaps, Set2Sizes, InitBacks, DataSizes, IovCnts,
          MaxWritten, MaxRounds, Allow, EmitMode

Init == \E r0 \in R0s : StInit(r0)

Next ==
  \/ \E m \in GetMins : DoGet(m)
  \/ \E off \in Offsets, ds \in BlockSizes : DoSet(off, off + ds)
  \/ \E gap \in Set2Gaps, bsz \in Set2Sizes, who \in Readers \cup {-1} : DoSet2(gap, bsz, who)
  \/ \E r \in Readers, ds \in InitBacks : DoInit(r, ds)
  \/ \E r \in Readers : DoAvail(r)
  \/ \E r \in Readers, dsz \in DataSizes, cnt \in IovCnts : DoDataGet(r, dsz, cnt)
  \/ \E r \in Readers, n \in 1..Size : DoInc(r, n)

Spec == Init /\ [][Next]_vars

(* bounds: history length via bytes written; fewer than RoundMod rounds per history (see RingBuf header) *)
Bound == wcount <= MaxWritten /\ rounds <= MaxRounds

(* THE PROPERTY: no step produced a violation class outside Allow (Allow = {} on a correct ring) *)
PropertyHolds == viol \subseteq Allow

(* sanity of the transcription's own assumptions *)
TypeOK == /\ rb.wpos \in 0..Size /\ rb.idx \in 0..(IovN - 2) /\ rb.imax \in 0..(IovN - 1)
          /\ wcount >= 0

(* corpus emission for the replay on the real r_buf_t: one line per visited state (simulation) *)
Emit == IF EmitMode THEN PrintT(ToJson([lvl |-> TLCGet("level"), ev |-> ev, st |-> Proj,
                                        rpos |-> [r \in Readers |-> rpos[r]], viol |-> viol,
                                        aux |-> [got |-> got, wcount |-> wcount]]))
        ELSE TRUE
BoundEmit == Bound /\ Emit
EmitInv == Bound => Emit      \* as an INVARIANT: evaluated once per distinct state (edge enumeration)
=============================================================================
