\* thorough: every history of <= 3 operations over a small alphabet
SPECIFICATION BehSpec
CONSTANTS
  RepairedFind = TRUE
  RepairedGen = TRUE
  Sections <- S_Aa
  Names <- N_kK
  Values <- V_4w
  ExtraLines <- X_min
  Styles = {"lf", "mix"}
  MaxTextLines = 1
  MaxLines = 1000
  MaxDepth = 3
  SimTextLines = 3
  Alphabet = {}
INVARIANTS EmitInv
CHECK_DEADLOCK FALSE
