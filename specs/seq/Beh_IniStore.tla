----------------------------- MODULE Beh_IniStore -----------------------------
(* Behaviours OUT of TLC for the conformance driver (binding direction i).
   State = one history `hist` of operations, the store `lines` the property demands after it, and `alt`, the store
   of the code AS SHIPPED after the same history (value names matched ignoring case; see IniStore.tla).  Every
   distinct state prints one JSON line  [hist, store, gen (, store0, gen0)]  from an invariant; the rig replays hist
   on a real ini_p and compares the driver's observation with `store`/`gen` for equality (store0/gen0 only serve to
   recognise the two registered defects on the unchanged tree - anything else is a violation).
   BehNext: every history up to MaxDepth (exhaustive).  SimNext: random walks for `tlc -simulate`. *)
EXTENDS IniMenu, Json

VARIABLES alt, hist
bvars == << lines, model, alt, hist >>

RECURSIVE SetToSeq(_)
SetToSeq(S) == IF S = {} THEN << >> ELSE LET x == CHOOSE y \in S : TRUE IN << x >> \o SetToSeq(S \ {x})
Q == SetToSeq({ << s, n >> : s \in Sections, n \in Names })          \* lookups made after every operation

DoParse(t)     == Parse(t) /\ alt' = ParseOf(alt, t) /\ hist' = Append(hist, [op |-> "P", text |-> t])
DoSet(s, n, v) == Set(s, n, v) /\ alt' = SetOf(alt, s, n, v, FALSE)
                  /\ hist' = Append(hist, [op |-> "S", s |-> s, n |-> n, v |-> v])
BehInit == Init /\ alt = << >> /\ hist = << >>
BehNext == /\ Len(hist) < MaxDepth
           /\ \/ \E t \in Texts : DoParse(t)
              \/ \E s \in Sections, n \in Names, v \in Values : DoSet(s, n, v)
BehSpec == BehInit /\ [][BehNext]_bvars

RandText == LET k == RandomElement(1..MaxTextLines) IN
            Render(TLCEval([i \in 1..k |-> RandomElement(Menu)]), RandomElement(Styles), 1)
SimNext == /\ Len(hist) < MaxDepth
           /\ \E c \in {RandomElement(1..10)} :
                IF c <= 4 THEN \E t \in {TLCEval(RandText)} : DoParse(t)
                ELSE \E s \in {RandomElement(Sections)}, n \in {RandomElement(Names)}, v \in {RandomElement(Values)} :
                        DoSet(s, n, v)
SimSpec == BehInit /\ [][SimNext]_bvars

Line0 ==
   LET st  == ObsStore(lines, Q, TRUE)    g  == ObsGen(lines, TRUE)
       st0 == ObsStore(alt, Q, FALSE)     g0 == ObsGen(alt, FALSE)
       base == [hist |-> hist, store |-> st, gen |-> g]
   IN IF st0 = st /\ g0 = g THEN base
      ELSE IF st0 = st THEN [hist |-> hist, store |-> st, gen |-> g, gen0 |-> g0]
      ELSE [hist |-> hist, store |-> st, gen |-> g, store0 |-> st0, gen0 |-> g0]
EmitInv == PrintT(ToJson(Line0))
ASSUME PrintT(ToJson([Q |-> Q]))
\* the properties hold along the emitted behaviours as well
BehInv == TypeOK /\ RoundTrip /\ CalcEqualsGen /\ GenRespectsCap /\ EnumIsFilter /\ EnumInFileOrder
          /\ LookupIsLastWriteS(Sections, Names) /\ LookupIsLastWriteI(Sections, Names)
=============================================================================
