----------------------------- MODULE Beh_IniStore -----------------------------
(* Behaviours OUT of TLC for the conformance driver (binding direction i).
   State = one history `hist` of operations, the store `lines` the property demands after it, and `alt`, the store
   of the code AS SHIPPED after the same history (value names matched ignoring case; see IniStore.tla).  Every
   distinct state prints one JSON line from an invariant:
        hist            the operations (Set operations carry the branch of ini_val_set the model takes)
        store, gen      what the driver must observe on a real ini_p after replaying hist (IniStore!ObsStore/ObsGen)
        genS            (only if different) gen under the shipped capacity test
        store0, gen0, gen0S   (only if they differ) the same three for the shipped name matching
   The rig compares the driver's observation with store/gen for EQUALITY; the other fields only serve to recognise the
   two registered defects on the unchanged tree - any other difference is a violation.
   BehNext: every history up to MaxDepth (exhaustive).  SimNext: random walks for `tlc -simulate`.
   TextNext: one Parse of EVERY byte string over Alphabet up to MaxDepth bytes (line splitting/classification). *)
EXTENDS IniMenu, Json

CONSTANTS Alphabet, SimTextLines        \* SimTextLines: lines per random text (Texts itself stays small there)
VARIABLES alt, hist
bvars == << lines, model, alt, hist >>

RECURSIVE SetToSeq(_)
SetToSeq(S) == IF S = {} THEN << >> ELSE LET x == CHOOSE y \in S : TRUE IN << x >> \o SetToSeq(S \ {x})
Q == SetToSeq({ << s, n >> : s \in Sections, n \in Names })          \* lookups made after every operation

DoParse(t)     == Parse(t) /\ alt' = ParseOf(alt, t) /\ hist' = Append(hist, [op |-> "P", text |-> t])
DoSet(s, n, v) == Set(s, n, v) /\ alt' = SetOf(alt, s, n, v, FALSE)
                  /\ hist' = Append(hist, [op |-> "S", s |-> s, n |-> n, v |-> v,
                                           path |-> SetPath(lines, s, n, v, RepairedFind)])
BehInit == Init /\ alt = << >> /\ hist = << >>
BehNext == /\ Len(hist) < MaxDepth
           /\ \/ \E t \in Texts : DoParse(t)
              \/ \E s \in Sections, n \in Names, v \in Values : DoSet(s, n, v)
BehSpec == BehInit /\ [][BehNext]_bvars

RandText == LET k == RandomElement(1..SimTextLines) IN
            Render(TLCEval([i \in 1..k |-> RandomElement(Menu)]), RandomElement(Styles), 1)
SimNext == /\ Len(hist) < MaxDepth
           /\ \E c \in {RandomElement(1..10)} :
                IF c <= 4 THEN \E t \in {TLCEval(RandText)} : DoParse(t)
                ELSE \E s \in {RandomElement(Sections)}, n \in {RandomElement(Names)}, v \in {RandomElement(Values)} :
                        DoSet(s, n, v)
SimSpec == BehInit /\ [][SimNext]_bvars

TextOf == IF hist = << >> THEN << >> ELSE hist[1].text
TextNext == /\ Len(TextOf) < MaxDepth
            /\ \E b \in Alphabet :
                 LET t == Append(TextOf, b) IN
                 /\ lines' = ParseOf(<< >>, t) /\ model' = DParse(EmptyModel, MapClassify(Split(t)))
                 /\ alt' = lines' /\ hist' = << [op |-> "P", text |-> t] >>
TextSpec == BehInit /\ [][TextNext]_bvars
\* algebra of the text layer, checked on every byte string of TextSpec
SplitAgree == CodeSplit(TextOf) = Split(TextOf)                       \* transcription of the C loop = mathematics
ParseConcat ==      \* parsing appends: cutting the text after any LF gives the same lines
   \A i \in 1..Len(TextOf) : TextOf[i] = LF =>
        Items(TextOf) = Items(SubSeq(TextOf, 1, i)) \o Items(SubSeq(TextOf, i + 1, Len(TextOf)))
ClassifyTotal == \A i \in 1..Len(lines) :
   /\ lines[i].type = T_SECTION => lines[i].raw[1] = LBR /\ lines[i].raw[Len(lines[i].name) + 2] = RBR
   /\ lines[i].type = T_VALUE => \A j \in 1..Len(lines[i].name) : lines[i].name[j] # EQC
   /\ \A j \in 1..Len(lines[i].raw) : lines[i].raw[j] # LF
TextInv == SplitAgree /\ ParseConcat /\ ClassifyTotal

Line0 ==
   LET st   == ObsStore(lines, Q, TRUE)
       g    == ObsGen(lines, TRUE)
       gS   == ObsGen(lines, FALSE)
       st0  == ObsStore(alt, Q, FALSE)
       r1   == [hist |-> hist, store |-> st, gen |-> g]
       r2   == IF gS = g THEN r1 ELSE [hist |-> hist, store |-> st, gen |-> g, genS |-> gS]
   IN IF st0 = st /\ CoreSeq(alt) = CoreSeq(lines) THEN r2
      ELSE [hist |-> hist, store |-> st, gen |-> g, genS |-> gS,
            store0 |-> st0, gen0 |-> ObsGen(alt, TRUE), gen0S |-> ObsGen(alt, FALSE)]
EmitInv == PrintT(ToJson(Line0))
ASSUME PrintT(ToJson([Q |-> Q]))
\* the properties hold along the emitted behaviours as well
BehInv == TypeOK /\ RoundTrip /\ CalcEqualsGen /\ GenRespectsCap /\ EnumIsFilter /\ EnumInFileOrder
          /\ LookupIsLastWriteS(Sections, Names) /\ LookupIsLastWriteI(Sections, Names)
=============================================================================
