\* thorough: every edge (pre-state, call, post-state) of the state graph is printed and replayed on the real ring
SPECIFICATION Spec
CONSTANTS
  Size = 6
  MinBlock = 1
  Readers = {0}
  RoundMod = 8
  Fix = {}
  Record = 2
  R0s = {6}
  GetMins = {1, 3}
  BlockSizes = {1, 2, 3}
  Offsets = {0, 1}
  Set2Gaps = {0, 1}
  Set2Sizes = {2}
  InitBacks = {0, 2, 100}
  DataSizes = {3, 10000}
  IovCnts = {1, 64}
  MaxWritten = 5
  MaxRounds = 3
  Allow = {}
  EmitMode = TRUE
INVARIANTS EmitInv
CONSTRAINT Bound
CHECK_DEADLOCK FALSE
