---------------------------- MODULE Trace_IniStore ----------------------------
(* Trace validation (binding direction ii): a history executed on the real ini_p and logged by harness/ini_drv.c
   (one JSON object per line: operation, arguments, results) is a behaviour of IniStore iff TLC can consume every
   line.  One trace action per event kind:  IsEv(kind) /\ logged fields bound /\ the specification's action/observer.
   Every step has exactly one successor: either the event agrees with the specification (l advances) or a
   "reject" line is printed and validation resumes at the next "Reset" event (executions are independent, so one
   rejected execution does not hide the verdict on the others).  The behaviour model is chosen in the initial state:
   mf/mg = TRUE is what the property demands; FALSE are the two registered defects of the shipped code.  The rig
   asks for (TRUE, TRUE) and looks at the other combinations only to name a known defect. *)
EXTENDS IniStore, Json, IOUtils

CONSTANTS FindModels, GenModels            \* subsets of BOOLEAN to try
Tr == ndJsonDeserialize(IOEnv.TRACE)
VARIABLES l, mf, mg
tvars == << lines, model, l, mf, mg >>

ev == Tr[l]
IsEv(k) == l <= Len(Tr) /\ ev.e = k
Has(f) == f \in DOMAIN ev
Keep == UNCHANGED << lines, model >>
NextReset(i) == LET S == {j \in (i + 1)..Len(Tr) : Tr[j].e = "Reset"} IN IF S = {} THEN Len(Tr) + 1 ELSE MinOf(S)
Reject(why, expected) ==
   /\ PrintT(ToJson([reject |-> l, mf |-> mf, mg |-> mg, why |-> why, expected |-> expected]))
   /\ l' = NextReset(l)
Check(cond, why, expected) == IF cond THEN l' = l + 1 ELSE Reject(why, expected)

\* decimal text of a number logged as sign + base-10^9 limbs (TLC integers are 32-bit)
RECURSIVE DigitsOf(_)
DigitsOf(x) == IF x < 10 THEN << 48 + x >> ELSE DigitsOf(x \div 10) \o << 48 + (x % 10) >>
Pad9(x) == LET d == DigitsOf(x) IN SubSeq(<< 48,48,48,48,48,48,48,48,48 >>, 1, 9 - Len(d)) \o d
RECURSIVE PadLimbs(_, _)
PadLimbs(ls, i) == IF i > Len(ls) THEN << >> ELSE Pad9(ls[i]) \o PadLimbs(ls, i + 1)
DecText(neg, ls) == (IF neg THEN << 45 >> ELSE << >>) \o DigitsOf(ls[1]) \o PadLimbs(ls, 2)
IsCanonDec(v) ==
   LET d == IF Len(v) > 0 /\ v[1] = 45 THEN SubSeq(v, 2, Len(v)) ELSE v IN
   /\ Len(d) >= 1 /\ Len(d) <= 18 /\ \A i \in 1..Len(d) : d[i] >= 48 /\ d[i] <= 57
   /\ (Len(d) > 1 => d[1] # 48) /\ ~(Len(v) > 0 /\ v[1] = 45 /\ d = << 48 >>)

TInit == Init /\ l = 1 /\ mf \in FindModels /\ mg \in GenModels
Mutate(s, n, v, rc) ==
   IF rc = 0 THEN /\ lines' = SetOf(lines, s, n, v, mf) /\ model' = DSet(model, s, n, v) /\ l' = l + 1
   ELSE Keep /\ Reject("Set-rc", 0)
TrParse == /\ IsEv("Parse") /\ UNCHANGED << mf, mg >>
           /\ IF ev.rc = 0 THEN /\ lines' = ParseOf(lines, ev.text)
                                 /\ model' = DParse(model, MapClassify(Split(ev.text))) /\ l' = l + 1
              ELSE Keep /\ Reject("Parse-rc", 0)
TrSet    == IsEv("Set") /\ UNCHANGED << mf, mg >> /\ Mutate(ev.s, ev.n, ev.v, ev.rc)
TrSetNum == (IsEv("SetInt") \/ IsEv("SetUint")) /\ UNCHANGED << mf, mg >>
            /\ Mutate(ev.s, ev.n, DecText(ev.neg, ev.limbs), ev.rc)
TrGet  == /\ IsEv("Get") /\ Keep /\ UNCHANGED << mf, mg >>
          /\ LET r == GetOf(lines, ev.s, ev.n, mf) IN
             Check(~Has("err") /\ [found |-> ev.found, val |-> ev.val] = r, "Get", r)
TrGetI == /\ IsEv("GetI") /\ Keep /\ UNCHANGED << mf, mg >>
          /\ LET r == GetIOf(lines, ev.s, ev.n) IN
             Check(~Has("err") /\ [found |-> ev.found, val |-> ev.val] = r, "GetI", r)
\* numeric getters: the number returned must print back to the stored text whenever that text is a plain decimal
\* of at most 18 digits (fits both ssize_t and size_t; other texts are the business of str2num, not of the store)
TrGetNum == /\ IsEv("GetNum") /\ Keep /\ UNCHANGED << mf, mg >>
            /\ LET r == IF ev.ins THEN GetIOf(lines, ev.s, ev.n) ELSE GetOf(lines, ev.s, ev.n, mf) IN
               Check(/\ ~Has("err") /\ ev.found = r.found
                     /\ ((r.found /\ IsCanonDec(r.val) /\ ~(ev.uns /\ r.val[1] = 45))
                            => DecText(ev.neg, ev.limbs) = r.val), "GetNum", r)
TrEnum == /\ IsEv("Enum") /\ Keep /\ UNCHANGED << mf, mg >>
          /\ Check(ev.sects = EnumAll(lines), "Enum", EnumAll(lines))
TrCalc == /\ IsEv("Calc") /\ Keep /\ UNCHANGED << mf, mg >>
          /\ Check(ev.size = CalcSize(lines), "Calc", CalcSize(lines))
TrGen  == /\ IsEv("Gen") /\ Keep /\ UNCHANGED << mf, mg >>
          /\ LET r == GenOf(lines, ev.cap, mg) IN
             Check(/\ ev.ok = r.ok /\ ev.over = r.over /\ (r.ok => ev.n = r.n)
                   /\ ((r.ok /\ r.over = 0) => (Has("out") /\ ev.out = GenText(lines))), "Gen", r)
\* the text round trip executed by the real code: generated text, enumeration of the re-parsed store, its text again
TrRoundTrip == /\ IsEv("RoundTrip") /\ Keep /\ UNCHANGED << mf, mg >>
               /\ LET t == GenText(lines)  back == ParseOf(<< >>, t) IN
                  Check(/\ ev.rc = 0 /\ ev.rc2 = 0 /\ ev.text = t
                        /\ ev.sects = EnumAll(back) /\ ev.text2 = t
                        /\ CoreSeq(back) = CoreSeq(lines) /\ EnumAll(back) = EnumAll(lines), "RoundTrip", EnumAll(lines))
TrReset == IsEv("Reset") /\ lines' = << >> /\ model' = EmptyModel /\ l' = l + 1 /\ UNCHANGED << mf, mg >>
TNext == TrParse \/ TrSet \/ TrSetNum \/ TrGet \/ TrGetI \/ TrGetNum \/ TrEnum \/ TrCalc \/ TrGen \/ TrRoundTrip \/ TrReset
TSpec == TInit /\ [][TNext]_tvars

\* end of trace: every behaviour reports itself (the invariant itself never fails); the rig requires this line for
\* each model and counts the reject lines before it
Accepted == l = Len(Tr) + 1 => PrintT(ToJson([done |-> TRUE, mf |-> mf, mg |-> mg, events |-> Len(Tr)]))
=============================================================================
