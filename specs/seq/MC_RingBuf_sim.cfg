\* behaviours OUT of TLC for the replay on the real r_buf_t (simulation; one JSON line per visited state)
SPECIFICATION Spec
CONSTANTS
  Size = 6
  MinBlock = 1
  Readers = {0, 1}
  RoundMod = 8
  Fix = {}
  Record = 1
  R0s = {0, 6, 7}
  GetMins = {1, 2, 3, 6}
  BlockSizes = {0, 1, 2, 3, 4}
  Offsets = {0, 1, 2}
  Set2Gaps = {0, 1}
  Set2Sizes = {1, 2, 3}
  InitBacks = {0, 2, 100}
  DataSizes = {2, 3, 10000}
  IovCnts = {1, 64}
  MaxWritten = 1000
  MaxRounds = 3
  Allow = {}
  EmitMode = TRUE
CONSTRAINT BoundEmit
CHECK_DEADLOCK FALSE
