--------------------------- MODULE Trace_RingBuf ---------------------------
(* Trace validation: every line of the ndjson file written by harness/ringbuf_drv.c (one line per call on the
   real r_buf_t) is one step of RingBuf.  The step is taken with the LOGGED ARGUMENTS only; everything the real
   code returned and the whole projected state after the call are then compared with what the specification
   computes (mismatch = names of the fields that differ, INVARIANT Conforms).  The ghost bookkeeping of RingBuf
   runs along, so the property itself (INVARIANT PropertyHolds) is evaluated on the real history. *)
EXTENDS RingBuf, Json, IOUtils
CONSTANTS TR0,      \* model value of the round counter at the real round0 (RoundMod - 3: wraps after 3 rounds)
          Allow
VARIABLES l, mismatch, seen     \* seen: <<class, first line>> of every violation class met so far
Tr == ndJsonDeserialize(IOEnv.TRACE)

MapRnd(rel) == (TR0 + rel + RoundMod) % RoundMod
Pair(e) == <<e.b, e.l>>
RpT(p) == IF p = NoPos THEN <<-1, -1, -1>> ELSE <<p.idx, p.off, p.rnd>>
LogRp(x) == IF x[1] = -1 THEN <<-1, -1, -1>> ELSE <<x[1], x[2], MapRnd(x[3])>>
B2I(b) == IF b THEN 1 ELSE 0

(* fields of the projected state that differ after the call *)
StDiff(e) ==
  LET s == e.st  n == Len(s.iov) IN
     (IF rb'.wpos # s.wpos THEN {"wpos"} ELSE {})
  \cup (IF rb'.idx # s.idx THEN {"iov_index"} ELSE {})
  \cup (IF rb'.imax # s.imax THEN {"iov_index_max"} ELSE {})
  \cup (IF rb'.rnd # MapRnd(s.rnd) THEN {"round_num"} ELSE {})
  \cup (IF B2I(rb'.frag) # s.frag \/ B2I(rb'.full) # s.full THEN {"flags"} ELSE {})
  \cup (IF s.tabok # 1 THEN {"iov_index-beyond-table"} ELSE {})
  \cup (IF \E i \in 1..n : Pair(rb'.iov[i - 1]) # s.iov[i] THEN {"iov"} ELSE {})
  \cup (IF \E c \in 1..Size : ByteOf(mem'[c - 1]) # s.mem[c] THEN {"ring-bytes"} ELSE {})
  \cup (IF \E r \in Readers : RpT(rpos'[r]) # LogRp(e.rpos[r + 1]) THEN {"rpos"} ELSE {})

Regs(rs) == [k \in 1..Len(rs) |-> Pair(rs[k])]
ResDiff(e) ==
  LET m == ev' IN
  CASE e.op = "get"   -> (IF m.ret # e.ret THEN {"ret"} ELSE {}) \cup (IF m.buf # e.buf THEN {"buf"} ELSE {})
    [] e.op = "set"   -> (IF m.rc # e.rc THEN {"rc"} ELSE {})
    [] e.op = "set2"  -> (IF m.rc # e.rc THEN {"rc"} ELSE {}) \cup (IF m.p # e.p THEN {"buf"} ELSE {})
    [] e.op = "init"  -> (IF e.rc # 0 THEN {"rc"} ELSE {})
    [] e.op = "avail" -> (IF m.ret # e.ret THEN {"ret"} ELSE {}) \cup (IF m.drop # e.drop THEN {"drop"} ELSE {})
                         \cup (IF m.full # e.full THEN {"full-read"} ELSE {}) \cup (IF m.cf # e.cf THEN {"check_fast"} ELSE {})
    [] e.op = "dget"  -> (IF Regs(m.regs) # e.regs THEN {"iovecs"} ELSE {}) \cup (IF m.drop # e.drop THEN {"drop"} ELSE {})
                         \cup (IF m.dsr # e.dsr THEN {"data_size_ret"} ELSE {})
                         \cup (IF e.oob # 0 THEN {"region-outside-ring"} ELSE {})
                         \cup (IF e.oob = 0 /\ m.bytes # e.bytes THEN {"bytes"} ELSE {})
    [] e.op = "inc"   -> (IF B2I(m.trap) # e.trap THEN {"trap"} ELSE {})
    [] OTHER -> {}

Reset == /\ rb' = InitB(TR0) /\ rpos' = [r \in Readers |-> NoPos] /\ got' = None
         /\ mem' = [c \in 0..(Size - 1) |-> Junk] /\ wcount' = 0
         /\ next' = [r \in Readers |-> Pending] /\ low' = [r \in Readers |-> 0]
         /\ lastret' = [r \in Readers |-> 0] /\ rounds' = 0 /\ viol' = {} /\ ev' = << >>

Init == /\ rb = InitB(TR0) /\ rpos = [r \in Readers |-> NoPos] /\ got = None
        /\ mem = [c \in 0..(Size - 1) |-> Junk] /\ wcount = 0
        /\ next = [r \in Readers |-> Pending] /\ low = [r \in Readers |-> 0]
        /\ lastret = [r \in Readers |-> 0] /\ rounds = 0 /\ viol = {} /\ ev = << >>
        /\ l = 1 /\ mismatch = {} /\ seen = {}

Step ==
  /\ l <= Len(Tr)
  /\ LET e == Tr[l] IN
     /\ CASE e.op = "new"   -> Reset /\ Assert(e.size = Size /\ e.minb = MinBlock /\ e.iovcount >= IovN, "trace/config mismatch")
          [] e.op = "get"   -> DoGet(e.m)
          [] e.op = "set"   -> DoSet(e.off, e.bsz)
          [] e.op = "set2"  -> DoSet2(e.gap, e.bsz, e.who)
          [] e.op = "init"  -> DoInit(e.r, e.ds)
          [] e.op = "avail" -> DoAvail(e.r)
          [] e.op = "dget"  -> DoDataGet(e.r, e.dsz, e.cnt)
          [] e.op = "inc"   -> DoInc(e.r, e.n)
     /\ mismatch' = { e.op \o ":" \o f : f \in ResDiff(e) \cup StDiff(e) }
  /\ seen' = seen \cup { <<c, l>> : c \in { v \in viol' : \A x \in seen : x[1] # v } }
  /\ l' = l + 1
  /\ (l = Len(Tr)) => PrintT(<<"TRACE-ACCEPTED", l, seen'>>)

Spec == Init /\ [][Step]_<<vars, l, mismatch, seen>>

Conforms == mismatch = {}
PropertyHolds == \A x \in seen : x[1] \in Allow
RoundsBound == rounds < RoundMod - 8       \* soundness of the modular mapping of round_num
(* statistics for the evidence *)
AtEnd == l > Len(Tr)
=============================================================================
