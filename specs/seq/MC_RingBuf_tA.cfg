\* thorough A: deeper histories, counter starting at 0 and at RoundMod-1
SPECIFICATION Spec
CONSTANTS
  Size = 6
  MinBlock = 1
  Readers = {0}
  RoundMod = 8
  Fix = {}
  Record = 0
  R0s = {0, 6}
  GetMins = {1, 3}
  BlockSizes = {1, 2, 3}
  Offsets = {0, 1}
  Set2Gaps = {0, 1}
  Set2Sizes = {2}
  InitBacks = {0, 2, 100}
  DataSizes = {3, 10000}
  IovCnts = {1, 64}
  MaxWritten = 7
  MaxRounds = 3
  Allow = {}
  EmitMode = FALSE
INVARIANTS PropertyHolds TypeOK
CONSTRAINT BoundEmit
CHECK_DEADLOCK FALSE
