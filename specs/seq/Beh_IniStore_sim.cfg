\* random walks (tlc -simulate) over the full alphabet; -depth bounds the walk
SPECIFICATION SimSpec
CONSTANTS
  RepairedFind = TRUE
  RepairedGen = TRUE
  Sections <- S_AaB
  Names <- N_kKn
  Values <- V_4
  ExtraLines <- X_all
  Styles = {"lf", "crlf", "mix"}
  MaxTextLines = 3
  MaxLines = 1000
  MaxDepth = 100000
  Alphabet = {}
INVARIANTS EmitInv
CHECK_DEADLOCK FALSE
