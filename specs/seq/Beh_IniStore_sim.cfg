\* random walks (tlc -simulate) over the full alphabet; -depth bounds the walk
SPECIFICATION SimSpec
CONSTANTS
  RepairedFind = TRUE
  RepairedGen = TRUE
  Sections <- S_AaB
  Names <- N_kKn
  Values <- V_5
  ExtraLines <- X_all
  Styles = {"lf", "crlf", "mix"}
  MaxTextLines = 1
  MaxLines = 1000
  MaxDepth = 100000
  SimTextLines = 3
  Alphabet = {}
INVARIANTS EmitInv
CHECK_DEADLOCK FALSE
