------------------------------- MODULE IniStore -------------------------------
(* The INI store of liblcb (src/utils/ini.c) as a state machine over byte sequences (property C17).

   lines  : the store, one record per text line, shaped after ini_line_t:
              [type, name, val, raw, alloc]     raw = the bytes of the line (ini_line_t.data[0..data_size)),
                                                alloc = data_allocated_size (decides in-place update vs realloc)
   model  : GHOST - the ordered map the property talks about, maintained from the operations alone
            (never from `lines`): an ordered dictionary  section -> ordered dictionary name -> value  with
            last-write-wins, plus two monotone flags saying whether the history ever defined the same key twice
            by PARSING (exactly / ignoring case).  For such histories the sentence "the value most recently parsed"
            has no single reading, so the literal dictionary laws are only demanded while the flags are down;
            the one-step laws (SetThenGet, SetFrame, ...) are demanded always.

   Bytes are naturals 0..255, texts/names/values are sequences of bytes.
   RepairedFind / RepairedGen select the behaviour the property demands (TRUE) or the behaviour of the code as
   shipped (FALSE: ini_sect_val_find compares with mem_cmpin; ini_buf_gen tests each line against the whole
   capacity).  The checks run with TRUE; FALSE exists so that TLC can exhibit both defects on the model
   and so that the rig can recognise them on the unchanged tree. *)
EXTENDS Integers, Sequences, FiniteSets, TLC

CONSTANTS RepairedFind, RepairedGen

LF == 10   CR == 13   LBR == 91   RBR == 93   EQC == 61   SEMI == 59   HASH == 35
T_EMPTY == "EMPTY"  T_INVALID == "INVALID"  T_COMMENT == "COMMENT"  T_SECTION == "SECTION"  T_VALUE == "VALUE"
PAD == 16                       \* INI_LINE_ALLOC_PADDING

VARIABLES lines, model
vars == << lines, model >>

----------------------------------------------------------------------------
(* bytes *)
Fold(c) == IF c >= 65 /\ c <= 90 THEN c + 32 ELSE c            \* ASCII, as strncasecmp in the C locale
EqS(a, b) == a = b                                                \* mem_cmpn
EqI(a, b) == Len(a) = Len(b) /\ \A i \in 1..Len(a) : Fold(a[i]) = Fold(b[i])     \* mem_cmpin
Eq(ins, a, b) == IF ins THEN EqI(a, b) ELSE EqS(a, b)

MinOf(S) == CHOOSE i \in S : \A j \in S : i <= j
MaxOf(S) == CHOOSE i \in S : \A j \in S : i >= j
FirstIdx(S) == IF S = {} THEN 0 ELSE MinOf(S)                     \* 0 = none (indices are 1-based)

----------------------------------------------------------------------------
(* line splitting: mathematics.  Lines are separated by LF; one CR directly before that LF is dropped;
   a last line without LF is kept as it is; nothing follows the final LF. *)
RECURSIVE SplitFrom(_, _)
SplitFrom(t, p) ==
   IF p > Len(t) THEN << >>
   ELSE LET q == FirstIdx({i \in p..Len(t) : t[i] = LF}) IN
        IF q = 0 THEN << SubSeq(t, p, Len(t)) >>
        ELSE LET e == IF q > p /\ t[q - 1] = CR THEN q - 1 ELSE q IN
             << SubSeq(t, p, e - 1) >> \o SplitFrom(t, q + 1)
Split(t) == SplitFrom(t, 1)

(* line splitting: transcription of buf_get_next_line (src/utils/buf_str.c) with 0-based offsets,
   and of the while loop of ini_buf_parse around it *)
GetNextLine(t, hasline, lo, lsz) ==
   LET n  == Len(t)
       p0 == IF hasline THEN lo + lsz ELSE 0
       p1 == IF hasline /\ p0 < n /\ t[p0 + 1] = CR THEN p0 + 1 ELSE p0
       p2 == IF hasline /\ p1 < n /\ t[p1 + 1] = LF THEN p1 + 1 ELSE p1
       q  == FirstIdx({i \in (p2 + 1)..n : t[i] = LF})                 \* mem_chr_ptr(ptr, buf, size, LF)
       e0 == IF q = 0 THEN n ELSE q - 1                                  \* 0-based `end`
       e  == IF q # 0 /\ e0 > p2 /\ t[e0] = CR THEN e0 - 1 ELSE e0       \* end[-1] is t[e0] (1-based)
   IN IF n = 0 \/ p2 = n THEN [eof |-> TRUE, off |-> 0, size |-> 0]
      ELSE [eof |-> FALSE, off |-> p2, size |-> e - p2]
RECURSIVE CodeSplitLoop(_, _, _, _)
CodeSplitLoop(t, hasline, lo, lsz) ==
   LET r == GetNextLine(t, hasline, lo, lsz) IN
   IF r.eof THEN << >>
   ELSE << SubSeq(t, r.off + 1, r.off + r.size) >> \o CodeSplitLoop(t, TRUE, r.off, r.size)
CodeSplit(t) == CodeSplitLoop(t, FALSE, 0, 0)

----------------------------------------------------------------------------
(* classification of one line, as the switch in ini_buf_parse *)
Line(ty, nm, vl, d) == [type |-> ty, name |-> nm, val |-> vl, raw |-> d, alloc |-> Len(d) + PAD]
Classify(d) ==
   IF Len(d) = 0 THEN Line(T_EMPTY, << >>, << >>, d)
   ELSE IF d[1] = SEMI \/ d[1] = HASH THEN Line(T_COMMENT, << >>, << >>, d)
   ELSE IF d[1] = LBR THEN
        LET S == {i \in 1..Len(d) : d[i] = RBR} IN                       \* mem_rchr: the LAST ']'
        IF S = {} THEN Line(T_INVALID, << >>, << >>, d)
        ELSE Line(T_SECTION, SubSeq(d, 2, MaxOf(S) - 1), << >>, d)
   ELSE LET p == FirstIdx({i \in 1..Len(d) : d[i] = EQC}) IN           \* mem_chr: the FIRST '='
        IF p = 0 THEN Line(T_INVALID, << >>, << >>, d)
        ELSE Line(T_VALUE, SubSeq(d, 1, p - 1), SubSeq(d, p + 1, Len(d)), d)

RECURSIVE MapClassify(_)
MapClassify(ss) == IF ss = << >> THEN << >> ELSE << Classify(Head(ss)) >> \o MapClassify(Tail(ss))
Items(text) == MapClassify(CodeSplit(text))           \* the lines ini_buf_parse appends for `text`

SectLine(s)   == Line(T_SECTION, s, << >>, << LBR >> \o s \o << RBR >>)
ValLine(n, v) == Line(T_VALUE, n, v, n \o << EQC >> \o v)
Core(l) == [type |-> l.type, name |-> l.name, val |-> l.val, raw |-> l.raw]        \* without the allocation ghost
RECURSIVE CoreSeq(_)
CoreSeq(ls) == IF ls = << >> THEN << >> ELSE << Core(Head(ls)) >> \o CoreSeq(Tail(ls))

----------------------------------------------------------------------------
(* lookups on a line sequence; indices 1-based, 0 = not found (INI_OFFSET_INVALID) *)
FindSect(ls, s, ins) ==                                   \* ini_sect_find / ini_sect_findi
   FirstIdx({i \in 1..Len(ls) : ls[i].type = T_SECTION /\ Eq(ins, ls[i].name, s)})
NextSect(ls, i) ==                                        \* first SECTION line after i, or Len+1
   LET S == {j \in (i + 1)..Len(ls) : ls[j].type = T_SECTION} IN IF S = {} THEN Len(ls) + 1 ELSE MinOf(S)
FindVal(ls, so, n, ins) ==                                \* ini_sect_val_find / ini_sect_val_findi
   FirstIdx({j \in (so + 1)..(NextSect(ls, so) - 1) : ls[j].type = T_VALUE /\ Eq(ins, ls[j].name, n)})

NotFound == [found |-> FALSE, val |-> << >>]
\* sins / vins: compare section names / value names ignoring case
Lookup(ls, s, n, sins, vins) ==
   LET so == FindSect(ls, s, sins) IN
   IF so = 0 THEN NotFound
   ELSE LET vo == FindVal(ls, so, n, vins) IN
        IF vo = 0 THEN NotFound ELSE [found |-> TRUE, val |-> ls[vo].val]
GetOf(ls, s, n, repfind)  == Lookup(ls, s, n, FALSE, ~repfind)     \* ini_val_get   (shipped: names ignore case)
GetIOf(ls, s, n)          == Lookup(ls, s, n, TRUE, TRUE)          \* ini_vali_get

(* enumeration, transcribed from ini_sect_enum / ini_sect_val_enum and the usual client loop
   ( off = 0; while (0 == enum(&off)) { use; off ++; } ); offsets are the 0-based ones of the C API *)
SectEnumC(ls, off0) ==          \* -> 0-based offset of the section found, or -1 (ENOENT)
   LET off == IF off0 > Len(ls) THEN 0 ELSE off0
       S == {i \in off..(Len(ls) - 1) : ls[i + 1].type = T_SECTION}
   IN IF S = {} THEN -1 ELSE MinOf(S)
ValEnumC(ls, so, off0) ==       \* so: 0-based section offset; -> 0-based offset of the value found, or -1
   LET off == IF so + 1 > off0 THEN so + 1 ELSE off0
       S == {i \in off..(Len(ls) - 1) : ls[i + 1].type \in {T_SECTION, T_VALUE}}
   IN IF S = {} THEN -1
      ELSE IF ls[MinOf(S) + 1].type = T_SECTION THEN -1 ELSE MinOf(S)
RECURSIVE ValLoopC(_, _, _)
ValLoopC(ls, so, off) ==
   LET i == ValEnumC(ls, so, off) IN
   IF i < 0 THEN << >>
   ELSE << [off |-> i, name |-> ls[i + 1].name, val |-> ls[i + 1].val] >> \o ValLoopC(ls, so, i + 1)
RECURSIVE SectLoopC(_, _)
SectLoopC(ls, off) ==
   LET i == SectEnumC(ls, off) IN
   IF i < 0 THEN << >>
   ELSE << [off |-> i, name |-> ls[i + 1].name, vals |-> ValLoopC(ls, i, 0)] >> \o SectLoopC(ls, i + 1)
EnumAll(ls) == SectLoopC(ls, 0)        \* what a client sees: every section with its entries

----------------------------------------------------------------------------
(* ini_val_set.  repfind = FALSE is the shipped matching (value names compared ignoring case). *)
RECURSIVE BackOverEmpty(_, _)
BackOverEmpty(ls, e) == IF e > 1 /\ ls[e - 1].type = T_EMPTY THEN BackOverEmpty(ls, e - 1) ELSE e
InsertAt(ls, e, x) == SubSeq(ls, 1, e - 1) \o << x >> \o SubSeq(ls, e, Len(ls))
Replaced(l, v) ==      \* existing VALUE line gets a new value; its own name bytes stay
   LET sz == Len(l.name) + 1 + Len(v) IN
   [l EXCEPT !.val = v, !.raw = l.name \o << EQC >> \o v,
             !.alloc = IF l.alloc > sz THEN l.alloc ELSE sz + PAD]   \* in place / realloc (block assumed to move)
SetPath(ls, s, n, v, repfind) ==       \* which branch of ini_val_set runs (for coverage)
   LET so0 == FindSect(ls, s, FALSE)
       ls1 == IF so0 = 0 THEN Append(ls, SectLine(s)) ELSE ls
       so  == IF so0 = 0 THEN Len(ls1) ELSE so0
       vo  == FindVal(ls1, so, n, ~repfind)
   IN IF so0 = 0 THEN "newsect" ELSE IF vo = 0 THEN "insert"
      ELSE IF ls1[vo].alloc > Len(n) + 1 + Len(v) THEN "inplace" ELSE "realloc"
SetOf(ls, s, n, v, repfind) ==
   LET so0 == FindSect(ls, s, FALSE)
       ls1 == IF so0 = 0 THEN Append(ls, SectLine(s)) ELSE ls
       so  == IF so0 = 0 THEN Len(ls1) ELSE so0
       vo  == FindVal(ls1, so, n, ~repfind)
   IN IF vo = 0 THEN InsertAt(ls1, BackOverEmpty(ls1, NextSect(ls1, so)), ValLine(n, v))
      ELSE [ls1 EXCEPT ![vo] = Replaced(@, v)]
ParseOf(ls, text) == ls \o Items(text)

----------------------------------------------------------------------------
(* serialisation *)
RECURSIVE GenText(_)
GenText(ls) == IF ls = << >> THEN << >> ELSE Head(ls).raw \o << CR, LF >> \o GenText(Tail(ls))
RECURSIVE CalcSize(_)
CalcSize(ls) == IF ls = << >> THEN 0 ELSE Len(Head(ls).raw) + 2 + CalcSize(Tail(ls))
(* the loop of ini_buf_gen: n = *buf_size_ret = number of bytes stored from buf[0] on *)
RECURSIVE GenLoop(_, _, _, _, _)
GenLoop(ls, i, off, cap, repgen) ==
   IF i > Len(ls) THEN [ok |-> TRUE, n |-> off]
   ELSE LET need == Len(ls[i].raw) + 2
            room == IF repgen THEN cap - off ELSE cap IN
        IF need > room THEN [ok |-> FALSE, n |-> off]
        ELSE GenLoop(ls, i + 1, off + need, cap, repgen)
GenOf(ls, cap, repgen) ==     \* over = bytes stored beyond buf[cap-1]
   IF cap = 0 THEN [ok |-> FALSE, n |-> 0, over |-> 0]                 \* EINVAL
   ELSE LET r == GenLoop(ls, 1, 0, cap, repgen) IN
        [ok |-> r.ok, n |-> r.n, over |-> IF r.n > cap THEN r.n - cap ELSE 0]

----------------------------------------------------------------------------
(* OBSERVATION of a store through the public interface - the value the conformance driver prints for the real
   ini_p (harness/ini_drv.c, op "O") and the rig compares for equality.  Q = sequence of << section, name >>. *)
RECURSIVE RLE(_, _, _, _)
RLE(f, i, n, acc) ==     \* run-length encoding of f[i..n] appended to acc: << [v, k] >>
   IF i > n THEN acc
   ELSE IF acc # << >> /\ acc[Len(acc)].v = f[i] THEN RLE(f, i + 1, n, [acc EXCEPT ![Len(acc)].k = @ + 1])
   ELSE RLE(f, i + 1, n, Append(acc, [v |-> f[i], k |-> 1]))
RECURSIVE ObsGets(_, _, _, _, _)
ObsGets(ls, Q, i, ins, repfind) ==
   IF i > Len(Q) THEN << >>
   ELSE << IF ins THEN GetIOf(ls, Q[i][1], Q[i][2]) ELSE GetOf(ls, Q[i][1], Q[i][2], repfind) >>
        \o ObsGets(ls, Q, i + 1, ins, repfind)
ObsStore(ls, Q, repfind) ==
   [sects |-> EnumAll(ls), get |-> ObsGets(ls, Q, 1, FALSE, repfind), geti |-> ObsGets(ls, Q, 1, TRUE, repfind),
    size |-> CalcSize(ls)]
ObsGen(ls, repgen) ==     \* ini_buf_gen for EVERY capacity 0..size+1 (index c = cap + 1)
   LET sz == CalcSize(ls)
       R  == TLCEval([c \in 1..(sz + 2) |-> GenOf(ls, c - 1, repgen)])
       okf   == TLCEval([c \in 1..(sz + 2) |-> R[c].ok])
       overf == TLCEval([c \in 1..(sz + 2) |-> R[c].over])
       nf    == TLCEval([c \in 1..(sz + 2) |-> IF R[c].ok THEN R[c].n ELSE -1])     \* n is only promised on success
   IN [ok |-> RLE(okf, 1, sz + 2, << >>), over |-> RLE(overf, 1, sz + 2, << >>), n |-> RLE(nf, 1, sz + 2, << >>),
       \* the distinct buffer contents [0, n) seen on success without overflow
       outs |-> IF \E c \in 1..(sz + 2) : R[c].ok /\ R[c].over = 0 THEN << GenText(ls) >> ELSE << >>]

----------------------------------------------------------------------------
(* GHOST: the ordered dictionary of the property.  secs = << [name, ents = << [name, val] >>] >> *)
EmptyModel == [secs |-> << >>, dupS |-> FALSE, dupI |-> FALSE]
DIdx(seq, nm, ins) == FirstIdx({i \in 1..Len(seq) : Eq(ins, seq[i].name, nm)})
DSet(m, s, n, v) ==           \* dictionary assignment d[s][n] = v (new keys go to the end)
   LET i0    == DIdx(m.secs, s, FALSE)
       secs1 == IF i0 = 0 THEN Append(m.secs, [name |-> s, ents |-> << >>]) ELSE m.secs
       i     == IF i0 = 0 THEN Len(secs1) ELSE i0
       j     == DIdx(secs1[i].ents, n, FALSE)
       ents1 == IF j = 0 THEN Append(secs1[i].ents, [name |-> n, val |-> v])
                ELSE [secs1[i].ents EXCEPT ![j].val = v]
       clash == \/ i0 = 0 /\ DIdx(m.secs, s, TRUE) # 0                   \* new key equal to an old one
                \/ j = 0 /\ DIdx(secs1[i].ents, n, TRUE) # 0             \*   up to letter case
   IN [secs |-> [secs1 EXCEPT ![i].ents = ents1], dupS |-> m.dupS, dupI |-> m.dupI \/ clash]
DParseItem(m, it) ==          \* one parsed line, appended to the text the dictionary stands for
   IF it.type = T_SECTION THEN
        IF DIdx(m.secs, it.name, FALSE) # 0 THEN [m EXCEPT !.dupS = TRUE, !.dupI = TRUE]   \* header repeated
        ELSE [secs |-> Append(m.secs, [name |-> it.name, ents |-> << >>]), dupS |-> m.dupS,
              dupI |-> m.dupI \/ DIdx(m.secs, it.name, TRUE) # 0]
   ELSE IF it.type = T_VALUE /\ Len(m.secs) > 0 THEN
        LET i == Len(m.secs)                                              \* the section the text is in
            j == DIdx(m.secs[i].ents, it.name, FALSE) IN
        IF j # 0 THEN [m EXCEPT !.secs[i].ents[j].val = it.val, !.dupS = TRUE, !.dupI = TRUE]   \* key repeated
        ELSE [secs |-> [m.secs EXCEPT ![i].ents = Append(@, [name |-> it.name, val |-> it.val])],
              dupS |-> m.dupS, dupI |-> m.dupI \/ DIdx(m.secs[i].ents, it.name, TRUE) # 0]
   ELSE m                                                                 \* other lines, and values before any section
RECURSIVE DParse(_, _)
DParse(m, items) == IF items = << >> THEN m ELSE DParse(DParseItem(m, Head(items)), Tail(items))
DGet(m, s, n, ins) ==
   LET i == DIdx(m.secs, s, ins) IN
   IF i = 0 THEN NotFound
   ELSE LET j == DIdx(m.secs[i].ents, n, ins) IN
        IF j = 0 THEN NotFound ELSE [found |-> TRUE, val |-> m.secs[i].ents[j].val]

----------------------------------------------------------------------------
(* the state machine *)
Init == lines = << >> /\ model = EmptyModel
Parse(text)  == /\ lines' = ParseOf(lines, text)
                /\ model' = DParse(model, MapClassify(Split(text)))
Set(s, n, v) == /\ lines' = SetOf(lines, s, n, v, RepairedFind)
                /\ model' = DSet(model, s, n, v)
\* observers (results are functions of the state)
Get(s, n)  == GetOf(lines, s, n, RepairedFind)
GetI(s, n) == GetIOf(lines, s, n)
Enum       == EnumAll(lines)
Calc       == CalcSize(lines)
Gen(cap)   == GenOf(lines, cap, RepairedGen)

----------------------------------------------------------------------------
(* PROPERTIES.  Keys(S, N) is the universe the configuration quantifies over. *)
StripOff(e) == [name |-> e.name, val |-> e.val]
RECURSIVE StripVals(_)
StripVals(vs) == IF vs = << >> THEN << >> ELSE << StripOff(Head(vs)) >> \o StripVals(Tail(vs))
RECURSIVE StripEnum(_)
StripEnum(es) == IF es = << >> THEN << >>
                 ELSE << [name |-> Head(es).name, ents |-> StripVals(Head(es).vals)] >> \o StripEnum(Tail(es))

\* looking up returns the value most recently parsed or set (literal dictionary), in both case modes
LookupIsLastWriteS(S, N) == ~model.dupS => \A s \in S, n \in N : Get(s, n) = DGet(model, s, n, FALSE)
LookupIsLastWriteI(S, N) == ~model.dupI => \A s \in S, n \in N : GetI(s, n) = DGet(model, s, n, TRUE)
\* one-step form, demanded of every reachable store (also those with repeated keys):
\* a set is seen by the next lookup of that key and by no lookup of another key
SetThenGet(S, N, V) == \A s \in S, n \in N, v \in V :
   LET l2 == SetOf(lines, s, n, v, RepairedFind) IN
   /\ GetOf(l2, s, n, RepairedFind) = [found |-> TRUE, val |-> v]
   /\ \A s2 \in S, n2 \in N : << s2, n2 >> # << s, n >> =>
         GetOf(l2, s2, n2, RepairedFind) = GetOf(lines, s2, n2, RepairedFind)
\* enumeration = the dictionary's items in insertion order (= file order) ...
EnumInFileOrder == ~model.dupS => StripEnum(Enum) = model.secs
\* ... and, for every store, the SECTION lines in line order, each with the VALUE lines up to the next header
EnumIsFilter ==
   LET e == Enum
       SI == {i \in 1..Len(lines) : lines[i].type = T_SECTION} IN
   /\ Len(e) = Cardinality(SI)
   /\ \A k \in 1..Len(e) :
        LET i == e[k].off + 1
            VI == {j \in (i + 1)..(NextSect(lines, i) - 1) : lines[j].type = T_VALUE} IN
        /\ i \in SI /\ e[k].name = lines[i].name
        /\ (k > 1 => e[k - 1].off < e[k].off)
        /\ Len(e[k].vals) = Cardinality(VI)
        /\ \A q \in 1..Len(e[k].vals) :
             LET j == e[k].vals[q].off + 1 IN
             /\ j \in VI /\ e[k].vals[q].name = lines[j].name /\ e[k].vals[q].val = lines[j].val
             /\ (q > 1 => e[k].vals[q - 1].off < e[k].vals[q].off)
\* a set changes the enumeration only by replacing that entry's value or appending the entry to its section
SetKeepsOrder(S, N, V) == \A s \in S, n \in N, v \in V :
   LET a == StripEnum(EnumAll(lines))
       b == StripEnum(EnumAll(SetOf(lines, s, n, v, RepairedFind)))
       i == DIdx(a, s, FALSE) IN
   IF i = 0 THEN b = Append(a, [name |-> s, ents |-> << [name |-> n, val |-> v] >>])
   ELSE LET j == DIdx(a[i].ents, n, FALSE) IN
        IF j = 0 THEN b = [a EXCEPT ![i].ents = Append(@, [name |-> n, val |-> v])]
        ELSE b = [a EXCEPT ![i].ents[j].val = v]
\* text round trip: parsing the generated text into an empty store gives the same lines
RoundTrip == CoreSeq(ParseOf(<< >>, GenText(lines))) = CoreSeq(lines)
\* the size calculation equals the bytes generation writes; a big enough buffer receives exactly the text
CalcEqualsGen ==
   /\ Calc = Len(GenText(lines))
   /\ \A cap \in {Calc, Calc + 1, Calc + 7} : cap > 0 => Gen(cap) = [ok |-> TRUE, n |-> Calc, over |-> 0]
\* every smaller buffer: failure, and nothing stored beyond it
GenRespectsCap ==
   /\ \A cap \in 0..(Calc + 1) : Gen(cap).over = 0
   /\ \A cap \in 0..(Calc - 1) : ~Gen(cap).ok
TypeOK ==
   /\ \A i \in 1..Len(lines) :
        /\ lines[i].type \in {T_EMPTY, T_INVALID, T_COMMENT, T_SECTION, T_VALUE}
        /\ lines[i].alloc > Len(lines[i].raw)                      \* the record's storage holds the line
        /\ lines[i].type = T_VALUE => lines[i].raw = lines[i].name \o << EQC >> \o lines[i].val
        /\ lines[i].type = T_EMPTY <=> lines[i].raw = << >>
=============================================================================
