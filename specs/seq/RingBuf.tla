------------------------------ MODULE RingBuf ------------------------------
(* C19 - packet ring (/repo/src/utils/ring_buffer.c, include/utils/ring_buffer.h).

   PART 1 is a line-by-line transcription of the C functions as pure operators over the REAL fields
       B  = [wpos, iov (0-based table of [b = iov_base - buf, l = iov_len]), idx = iov_index,
             imax = iov_index_max, rnd = round_num modulo RoundMod, frag, full]
       rp = [idx = iov_index, off = iov_off, rnd = round_num modulo RoundMod]
   It says what the code DOES (including its oddities); nothing in part 1 is "what it should do".
   Unsigned wrap-around of round_num is modelled by arithmetic modulo RoundMod (the real modulus is
   2^64; the conformance rig maps real values into the model by a monotone injection, which is sound as
   long as fewer than RoundMod rounds pass inside one history - CONSTRAINT in the MC/trace modules).

   PART 2 adds ghosts and the property:
       wcount   number of data bytes committed so far = next global byte number (writing order)
       mem[c]   which global byte ring cell c currently holds (Junk = never written / scribbled gap)
       next[r]  next global byte reader r is owed (Pending = not fixed yet: fresh reader or just
                told about a loss; the next delivery fixes it)
       low[r]   lower bound for the next delivery while next[r] is Pending (no repetition)
       lastret[r] bytes handed out by the reader's last data_get and not yet consumed by rpos_inc
       viol     classes of property violations produced by the LAST step (the invariant is viol = {})

   Fix is a set of names of proposed repairs (/verif/proposed_fixes/C19-*.diff); a name in Fix switches
   the transcription of that spot to the repaired code, so the same spec binds a patched tree.  *)
EXTENDS Integers, Sequences, FiniteSets, TLC

CONSTANTS Size, MinBlock, Readers, RoundMod, Fix, Record

ASSUME Size >= MinBlock /\ MinBlock >= 1 /\ RoundMod >= 4

IovN   == (Size \div MinBlock) + 3      \* table entries the model tracks (real: size/min_block + 32)
Big    == 10000                         \* "data_size larger than anything available"
BigCnt == 64                            \* "enough iovecs"
Junk    == -1
Null    == -100000                     \* iov_base never assigned (calloc/mmap zero = NULL)
Garbage == -2                          \* a size computed from a NULL base: an address, not a size
Pending == -1
NoPos  == [idx |-> -1, off |-> -1, rnd |-> -1]
None   == [b |-> -1, n |-> -1]
EINVAL == 22

Max(a, b) == IF a >= b THEN a ELSE b
Min(a, b) == IF a <= b THEN a ELSE b
Inc(r) == (r + 1) % RoundMod
Dec(r) == (r + RoundMod - 1) % RoundMod

RECURSIVE SumLen(_, _, _)
SumLen(iov, i, j) == IF i > j THEN 0 ELSE iov[i].l + SumLen(iov, i + 1, j)

InitB(r0) == [wpos |-> 0,
              iov |-> [i \in 0..(IovN - 1) |-> [b |-> IF i = 0 /\ "alloc-base" \in Fix THEN 0 ELSE Null, l |-> 0]],
              idx |-> 0, imax |-> 0,
              rnd |-> r0, frag |-> FALSE, full |-> FALSE]

(***************************************************************************)
(* PART 1 - the code                                                       *)
(***************************************************************************)

(* r_buf_wbuf_get(r_buf, min_buf_size, &buf) *)
WbufGet(B, m) ==
  IF Size < m THEN [B |-> B, ret |-> 0, buf |-> -1, wrapped |-> FALSE]
  ELSE LET bs0  == Size - B.wpos
           adv  == B.iov[B.idx].l # 0
           i1   == IF adv THEN B.idx + 1 ELSE B.idx
           iov1 == IF adv THEN [B.iov EXCEPT ![i1].l = 0] ELSE B.iov
           wrap == bs0 < m \/ bs0 < MinBlock
           i2   == IF wrap THEN 0 ELSE i1
           wp   == IF wrap THEN 0 ELSE B.wpos
           iov2 == IF wrap THEN [iov1 EXCEPT ![0].l = 0] ELSE iov1
           iov3 == [iov2 EXCEPT ![i2].b = wp]
       IN [B |-> [B EXCEPT !.wpos = wp, !.iov = iov3, !.idx = i2,
                           !.imax = IF wrap THEN i1 - 1 ELSE @,
                           !.rnd = IF wrap THEN Inc(@) ELSE @,
                           !.full = IF wrap THEN TRUE ELSE @],
           ret |-> IF wrap THEN Size ELSE bs0, buf |-> wp, wrapped |-> wrap]

(* r_buf_wbuf_set(r_buf, offset, buf_size) *)
WbufSet(B, off, bsz) ==
  IF off >= bsz THEN [B |-> B, rc |-> EINVAL]
  ELSE LET ds == bsz - off IN
       IF ds < MinBlock \/ ds > Size - B.wpos THEN [B |-> B, rc |-> EINVAL]
       ELSE [B |-> [B EXCEPT !.iov[B.idx] = [b |-> @.b + off, l |-> ds],
                             !.frag = @ \/ (off # 0),
                             !.wpos = @ + bsz,
                             !.imax = Max(@, B.idx)],
             rc |-> 0]

(* r_buf_wbuf_set2(r_buf, buf, buf_size, rpos);  p = buf - r_buf->buf *)
WbufSet2(B, p, bsz) ==
  IF bsz < MinBlock \/ p < B.iov[B.idx].b THEN [B |-> B, rc |-> EINVAL, rp |-> NoPos]
  ELSE IF p + bsz > Size THEN [B |-> B, rc |-> EINVAL, rp |-> NoPos]
  ELSE [B |-> [B EXCEPT !.iov = [@ EXCEPT ![B.idx] = [b |-> p, l |-> bsz],
                                          ![B.idx + 1] = [b |-> p + bsz, l |-> 0]],
                        !.frag = @ \/ (p # B.iov[B.idx].b),
                        !.wpos = p + bsz,
                        !.imax = Max(@, B.idx),
                        !.idx = @ + 1],
        rc |-> 0, rp |-> [idx |-> B.idx, off |-> 0, rnd |-> B.rnd]]

(* the two backward loops of r_buf_rpos_init *)
RECURSIVE Back(_, _, _, _)
Back(iov, i, d, lo) == IF i > lo /\ d >= iov[i].l THEN Back(iov, i - 1, d - iov[i].l, lo)
                       ELSE [i |-> i, d |-> d]

(* r_buf_rpos_init(r_buf, rpos, data_size) *)
RposInit(B, ds) ==
  LET a == Back(B.iov, B.idx + 1, ds, 0) IN
  IF a.d <= B.iov[a.i].l \/ ~B.full THEN [idx |-> a.i, off |-> 0, rnd |-> B.rnd]
  ELSE LET b == Back(B.iov, B.imax, a.d, B.idx) IN [idx |-> b.i, off |-> 0, rnd |-> Dec(B.rnd)]

(* previous-round reader still valid?  original: by table index only.
   Fix "stale-check": ... and the writer has not yet passed the memory of the reader's block *)
PrevOk(B, p) == p.idx > B.idx /\ (("stale-check" \in Fix) => B.iov[p.idx].b >= B.wpos)

(* r_buf_rpos_check_fast *)
CheckFast(B, rp) ==
  IF rp.rnd = B.rnd THEN (IF rp.idx <= B.idx + 1 THEN 1 ELSE 0)
  ELSE IF Inc(rp.rnd) = B.rnd THEN (IF rp.idx > B.imax THEN 1 ELSE IF PrevOk(B, rp) THEN 1 ELSE 0)
  ELSE 0

(* r_buf_rpos_check: [ok, rp (possibly modified), drop (-1 = *drop_size_ret not written), path (ghost:
   which branch decided)] *)
Check(B, rp0) ==
  LET p == IF B.iov[rp0.idx].l <= rp0.off THEN [rp0 EXCEPT !.off = 0] ELSE rp0 IN
  IF p.rnd = B.rnd THEN
       IF p.idx <= B.idx + 1 THEN [ok |-> 1, rp |-> p, drop |-> -1, path |-> "same-round"]
       ELSE [ok |-> 0, rp |-> [idx |-> B.idx + 1, off |-> 0, rnd |-> p.rnd], drop |-> 0,
             path |-> "same-round-ahead"]
  ELSE IF Inc(p.rnd) = B.rnd THEN
       IF p.idx > B.imax THEN [ok |-> 1, rp |-> [idx |-> 0, off |-> 0, rnd |-> B.rnd], drop |-> -1,
                               path |-> "prev-round-past-end"]
       ELSE IF PrevOk(B, p) THEN [ok |-> 1, rp |-> p, drop |-> -1, path |-> "prev-round"]
       ELSE [ok |-> 0, rp |-> p, drop |-> Size + SumLen(B.iov, p.idx, B.idx), path |-> "prev-round-slow"]
  ELSE IF (IF "round-lag" \in Fix THEN (B.rnd - p.rnd + RoundMod) % RoundMod > RoundMod \div 2
           ELSE Inc(p.rnd) >= B.rnd)
       THEN [ok |-> 0, rp |-> [idx |-> B.idx + 1, off |-> 0, rnd |-> B.rnd], drop |-> 0,
             path |-> "round-compares-ahead"]
       ELSE [ok |-> 0, rp |-> [idx |-> B.idx + 1, off |-> 0, rnd |-> B.rnd],
             drop |-> Size * ((B.rnd - p.rnd + RoundMod) % RoundMod), path |-> "rounds-behind"]

(* r_buf_data_avail_size *)
Avail(B, rp0) ==
  LET c == Check(B, rp0) p == c.rp IN
  IF c.ok = 0 THEN [rp |-> p, ret |-> 0, drop |-> c.drop]
  ELSE IF p.rnd = B.rnd THEN
       IF p.idx = B.idx + 1 THEN [rp |-> p, ret |-> 0, drop |-> 0]
       ELSE [rp |-> p, drop |-> 0,
             ret |-> IF ~B.frag /\ B.iov[p.idx].b = Null THEN Garbage
                     ELSE (IF B.frag THEN SumLen(B.iov, p.idx, B.idx) ELSE B.wpos - B.iov[p.idx].b) - p.off]
  ELSE [rp |-> p, drop |-> 0,
        ret |-> (IF B.frag THEN SumLen(B.iov, p.idx, B.imax) + SumLen(B.iov, 0, B.idx)
                 ELSE (B.iov[B.imax].b + B.iov[B.imax].l - B.iov[p.idx].b) + B.wpos) - p.off]

(* iovec_aggregate_ex over table entries i0 .. i0+n-1 *)
RECURSIVE AggLoop(_, _, _, _, _, _, _)
AggLoop(iov, i0, n, i, d, rc, regs) ==
  IF i < n /\ (Len(regs) - 1) < rc /\ d >= iov[i0 + i].l
  THEN LET e == iov[i0 + i]  q == iov[i0 + i - 1] IN
       IF q.b + q.l = e.b
       THEN AggLoop(iov, i0, n, i + 1, d - e.l, rc, [regs EXCEPT ![Len(regs)].l = @ + e.l])
       ELSE AggLoop(iov, i0, n, i + 1, d - e.l, rc, Append(regs, e))
  ELSE [regs |-> regs, rem |-> d, used |-> i]

Agg(iov, i0, n, dsz, off, cnt) ==
  IF n = 0 \/ cnt = 0 \/ dsz = 0 \/ (iov[i0].l - off) >= dsz \/ (n = 1 /\ iov[i0].l - off = 0)
  THEN [regs |-> << >>, rem |-> 0, used |-> 0]
  ELSE AggLoop(iov, i0, n, 1, dsz - (iov[i0].l - off), cnt - 1,
               << [b |-> iov[i0].b + off, l |-> iov[i0].l - off] >>)

(* r_buf_data_get (data_size > 0, iov_cnt > 0) *)
DataGet(B, rp0, dsz, cnt) ==
  LET c == Check(B, rp0) p == c.rp IN
  IF c.ok = 0 THEN [rp |-> p, regs |-> << >>, drop |-> c.drop, dsr |-> 0, hop |-> FALSE]
  ELSE IF p.rnd = B.rnd THEN
       IF p.idx = B.idx + 1 THEN [rp |-> p, regs |-> << >>, drop |-> 0, dsr |-> 0, hop |-> FALSE]
       ELSE LET a == Agg(B.iov, p.idx, 1 + B.idx - p.idx, dsz, p.off, cnt) IN
            [rp |-> p, regs |-> a.regs, drop |-> 0, dsr |-> dsz - a.rem, hop |-> FALSE]
  ELSE LET n1 == 1 + B.imax - p.idx
           a1 == Agg(B.iov, p.idx, n1, dsz, p.off, cnt)
           whole == dsz - a1.rem = SumLen(B.iov, p.idx, B.imax) - p.off
           a2 == IF "gather" \in Fix /\ ~whole THEN [regs |-> << >>, rem |-> a1.rem, used |-> 0]
                 ELSE Agg(B.iov, 0, 1 + B.idx, a1.rem, 0, cnt - Len(a1.regs))
       IN [rp |-> p, regs |-> a1.regs \o a2.regs, drop |-> 0, dsr |-> dsz - a2.rem,
           \* ghost: the second call produced regions although the first stopped before its last entry
           hop |-> a1.used < n1 /\ a2.regs # << >>]

(* r_buf_rpos_index_inc *)
IndexInc(B, p) ==
  IF p.rnd = B.rnd THEN (IF p.idx > B.idx THEN [ok |-> 0, rp |-> p]
                         ELSE [ok |-> 1, rp |-> [p EXCEPT !.idx = @ + 1]])
  ELSE IF p.idx + 1 > B.imax THEN [ok |-> 1, rp |-> [p EXCEPT !.idx = 0, !.rnd = B.rnd]]
  ELSE [ok |-> 1, rp |-> [p EXCEPT !.idx = @ + 1]]

RECURSIVE IncLoop(_, _, _)
IncLoop(B, p, d) ==
  IF d = 0 THEN [rp |-> p, trap |-> FALSE]
  ELSE IF B.iov[p.idx].l > d THEN [rp |-> [p EXCEPT !.off = d], trap |-> FALSE]
  ELSE LET s == IndexInc(B, p) IN
       IF s.ok = 0 THEN [rp |-> s.rp, trap |-> TRUE]     \* debug_break(): "must never happen"
       ELSE IncLoop(B, s.rp, d - B.iov[p.idx].l)

(* r_buf_rpos_inc(r_buf, rpos, data_size), data_size > 0 *)
RposInc(B, p, n) ==
  IF p.off # 0 THEN
       LET rem == B.iov[p.idx].l - p.off IN
       IF rem >= 0 /\ n >= rem THEN
            LET s == IndexInc(B, [p EXCEPT !.off = 0]) IN
            IF s.ok = 0 THEN [rp |-> s.rp, trap |-> FALSE] ELSE IncLoop(B, s.rp, n - rem)
       ELSE [rp |-> [p EXCEPT !.off = @ + n], trap |-> FALSE]
  ELSE IncLoop(B, p, n)

(***************************************************************************)
(* PART 2 - ghosts, calls, property                                        *)
(***************************************************************************)
VARIABLES rb, rpos, got, mem, wcount, next, low, lastret, rounds, viol, ev
vars == <<rb, rpos, got, mem, wcount, next, low, lastret, rounds, viol, ev>>

RECURSIVE CellsOf(_)
CellsOf(regs) == IF regs = << >> THEN << >>
                 ELSE [k \in 1..Head(regs).l |-> Head(regs).b + k - 1] \o CellsOf(Tail(regs))
RegsInRing(regs) == \A k \in 1..Len(regs) : regs[k].b >= 0 /\ regs[k].l >= 0 /\ regs[k].b + regs[k].l <= Size
RECURSIVE SumLenSeq(_)
SumLenSeq(regs) == IF regs = << >> THEN 0 ELSE Head(regs).l + SumLenSeq(Tail(regs))
Consecutive(D) == \A k \in 1..Len(D) : D[k] # Junk /\ D[k] = D[1] + k - 1
ByteOf(g) == IF g = Junk THEN 255 ELSE g % 251

(* what the ring cells look like after a commit of [base, base+gap) scribbled + [base+gap, base+gap+ds) data *)
Commit(m, base, gap, ds, g0) ==
  [c \in 0..(Size - 1) |-> IF c >= base /\ c < base + gap THEN Junk
                           ELSE IF c >= base + gap /\ c < base + gap + ds THEN g0 + (c - base - gap)
                           ELSE m[c]]

StInit(r0) ==
  /\ rb = InitB(r0)
  /\ rpos = [r \in Readers |-> NoPos]
  /\ got = None
  /\ mem = [c \in 0..(Size - 1) |-> Junk]
  /\ wcount = 0
  /\ next = [r \in Readers |-> Pending]
  /\ low = [r \in Readers |-> 0]
  /\ lastret = [r \in Readers |-> 0]
  /\ rounds = 0
  /\ viol = {}
  /\ ev = << >>

(* Record = 0: ev is not kept (plain model checking);  1: ev' = the call with everything the spec says it returns;
   2: additionally the projected state BEFORE the call, so that the distinct states of the exploration are
      exactly the edges (pre-state, call, post-state) of the state graph - used to replay every edge *)
PreInfo == [pre |-> [wpos |-> rb.wpos, idx |-> rb.idx, imax |-> rb.imax, rnd |-> rb.rnd,
                     frag |-> IF rb.frag THEN 1 ELSE 0, full |-> IF rb.full THEN 1 ELSE 0,
                     iov |-> [i \in 1..IovN |-> <<rb.iov[i - 1].b, rb.iov[i - 1].l>>],
                     mem |-> [c \in 1..Size |-> ByteOf(mem[c - 1])],
                     rpos |-> rpos, got |-> got, wcount |-> wcount]]
Ev(x) == IF Record = 0 THEN << >> ELSE IF Record = 1 THEN x ELSE x @@ PreInfo

NoReaderChange == UNCHANGED <<rpos, next, low, lastret>>
Invalidate == lastret' = [r \in Readers |-> 0]     \* a writer step ends the reader's get/inc pair

(* ---- writer calls ---- *)
DoGet(m) ==
  LET g == WbufGet(rb, m) IN
  /\ rb' = g.B
  /\ got' = IF g.ret = 0 THEN None ELSE [b |-> g.buf, n |-> g.ret]
  /\ rounds' = IF g.wrapped THEN rounds + 1 ELSE rounds
  /\ viol' = (IF g.ret > 0 /\ ~(g.buf >= 0 /\ g.buf + g.ret <= Size) THEN {"inring:wbuf_get"} ELSE {})
             \cup (IF g.B.idx + 1 >= IovN \/ g.B.imax < 0 THEN {"table:wbuf_get"} ELSE {})
  /\ ev' = Ev([op |-> "get", m |-> m, ret |-> g.ret, buf |-> g.buf])
  /\ Invalidate /\ UNCHANGED <<rpos, next, low, mem, wcount>>

(* environment precondition (Appendix E): a commit stays inside the space the preceding get returned *)
DoSet(off, bsz) ==
  /\ got # None /\ bsz <= got.n
  /\ LET s == WbufSet(rb, off, bsz) IN
     /\ rb' = s.B
     /\ ev' = Ev([op |-> "set", off |-> off, bsz |-> bsz, rc |-> s.rc])
     /\ IF s.rc = 0
        THEN /\ mem' = Commit(mem, rb.wpos, off, bsz - off, wcount)
             /\ wcount' = wcount + (bsz - off)
             /\ got' = None
             /\ Invalidate
        ELSE UNCHANGED <<mem, wcount, got, lastret>>
     /\ viol' = IF s.B.idx + 1 >= IovN THEN {"table:wbuf_set"} ELSE {}
  /\ UNCHANGED <<rpos, next, low, rounds>>

DoSet2(gap, bsz, who) ==      \* who \in Readers, or -1 = NULL: the optional rpos out-parameter
  /\ got # None /\ gap + bsz <= got.n
  /\ LET p == got.b + gap  s == WbufSet2(rb, p, bsz) IN
     /\ rb' = s.B
     /\ ev' = Ev([op |-> "set2", gap |-> gap, p |-> p, bsz |-> bsz, who |-> who, rc |-> s.rc])
     /\ IF s.rc = 0
        THEN /\ mem' = Commit(mem, got.b, gap, bsz, wcount)
             /\ wcount' = wcount + bsz
             /\ got' = IF got.n - gap - bsz > 0 THEN [b |-> p + bsz, n |-> got.n - gap - bsz] ELSE None
             /\ IF who \in Readers
                THEN /\ rpos' = [rpos EXCEPT ![who] = s.rp]
                     /\ next' = [next EXCEPT ![who] = wcount]
                     /\ low' = [low EXCEPT ![who] = 0]
                ELSE UNCHANGED <<rpos, next, low>>
             /\ Invalidate
        ELSE UNCHANGED <<mem, wcount, got, rpos, next, low, lastret>>
     /\ viol' = IF s.B.idx + 1 >= IovN THEN {"table:wbuf_set2"} ELSE {}
  /\ UNCHANGED rounds

(* ---- reader calls ---- *)
DoInit(r, ds) ==
  LET p == RposInit(rb, ds) IN
  /\ rpos' = [rpos EXCEPT ![r] = p]
  /\ next' = [next EXCEPT ![r] = Pending]
  /\ low' = [low EXCEPT ![r] = 0]
  /\ lastret' = [lastret EXCEPT ![r] = 0]
  /\ viol' = IF p.idx \notin 0..(IovN - 1) THEN {"table:rpos_init"} ELSE {}
  /\ ev' = Ev([op |-> "init", r |-> r, ds |-> ds, rp |-> p])
  /\ UNCHANGED <<rb, got, mem, wcount, rounds>>

(* bytes of the ring that reader r has not been given yet: what a resynchronisation can skip *)
Unread(r) == IF next[r] = Pending THEN 0 ELSE Cardinality({c \in 0..(Size - 1) : mem[c] >= next[r]})

(* ghost effect of the r_buf_rpos_check verdict inside avail/get:
   told = the call returned nothing and reported drop > 0  ->  the reader knows it lost data *)
Told(c) == c.drop > 0
DropViol(r, c) == IF c.ok = 1 THEN {}
                  ELSE IF c.drop > 0 /\ c.drop < Unread(r) THEN {"drop:less-than-skipped:" \o c.path}
                  ELSE IF c.drop = 0 /\ Unread(r) > 0 /\ c.rp # rpos[r]
                       THEN {"drop:silent-resync:" \o c.path}
                  ELSE {}

DoAvail(r) ==
  /\ rpos[r] # NoPos
  /\ LET a == Avail(rb, rpos[r])
         f == DataGet(rb, rpos[r], Big, BigCnt)
         full == SumLenSeq(f.regs)
         cf == CheckFast(rb, rpos[r])
         ck == Check(rb, rpos[r])
     IN /\ rpos' = [rpos EXCEPT ![r] = a.rp]
        /\ ev' = Ev([op |-> "avail", r |-> r, ret |-> a.ret, drop |-> a.drop, full |-> full, cf |-> cf, rp |-> a.rp])
        /\ viol' = (IF a.ret = Garbage THEN {"avail:null-base"}
                    ELSE IF a.ret # full THEN {"avail:differs-from-full-read"} ELSE {})
                   \cup DropViol(r, ck)
                   \cup (IF cf # ck.ok THEN {"fast:differs-from-check"} ELSE {})
                   \cup (IF a.rp.idx \notin 0..(IovN - 1) THEN {"table:rpos"} ELSE {})
        /\ IF a.drop > 0 \/ DropViol(r, ck) # {}
           THEN /\ next' = [next EXCEPT ![r] = Pending]
                /\ low' = [low EXCEPT ![r] = Max(@, next[r])]
                /\ lastret' = [lastret EXCEPT ![r] = 0]
           ELSE UNCHANGED <<next, low, lastret>>
  /\ UNCHANGED <<rb, got, mem, wcount, rounds>>

DoDataGet(r, dsz, cnt) ==
  /\ rpos[r] # NoPos
  /\ LET g == DataGet(rb, rpos[r], dsz, cnt)
         cells == CellsOf(g.regs)
         inring == RegsInRing(g.regs)
         D == IF inring THEN [k \in 1..Len(cells) |-> mem[cells[k]]] ELSE << >>
         n == Len(cells)
         \* root-cause tags (ghost): a previous-round reader accepted by index although the writer has
         \* already passed the memory of its block / the two-part gather jumped over unread entries
         stale == g.rp.rnd # rb.rnd /\ rb.iov[g.rp.idx].b < rb.wpos
         symptom == IF n = 0 THEN ""
                    ELSE IF ~Consecutive(D) THEN "not-a-run-of-the-stream"
                    ELSE IF next[r] # Pending /\ D[1] < next[r] THEN "repeat"
                    ELSE IF next[r] # Pending /\ D[1] > next[r] THEN "silent-skip"
                    ELSE IF next[r] = Pending /\ D[1] < low[r] THEN "repeat-after-resync"
                    ELSE ""
         bad == IF n = 0 THEN {}
                ELSE IF ~inring THEN {"inring:data_get"}
                ELSE IF g.rp.rnd # rb.rnd /\ cells[1] < rb.wpos   \* overwritten cells handed out
                     THEN {"order:prev-round-reader-overwritten"}
                ELSE IF symptom = "" THEN {}
                ELSE IF stale THEN {"order:prev-round-reader-overwritten"}
                ELSE IF g.hop THEN {"order:two-part-gather-skips-entries"}
                ELSE {"order:" \o symptom}
     IN /\ rpos' = [rpos EXCEPT ![r] = g.rp]
        /\ ev' = Ev([op |-> "dget", r |-> r, dsz |-> dsz, cnt |-> cnt, regs |-> g.regs, drop |-> g.drop,
                  dsr |-> g.dsr, rp |-> g.rp,
                  bytes |-> IF inring THEN [k \in 1..n |-> ByteOf(D[k])] ELSE << >>])
        /\ viol' = bad \cup DropViol(r, Check(rb, rpos[r]))
                   \cup (IF g.rp.idx \notin 0..(IovN - 1) THEN {"table:rpos"} ELSE {})
        /\ IF g.drop > 0 \/ DropViol(r, Check(rb, rpos[r])) # {}
           THEN /\ next' = [next EXCEPT ![r] = Pending]
                /\ low' = [low EXCEPT ![r] = Max(@, next[r])]
                /\ lastret' = [lastret EXCEPT ![r] = 0]
           ELSE IF n = 0 THEN /\ lastret' = [lastret EXCEPT ![r] = 0]
                              /\ UNCHANGED <<next, low>>
           ELSE IF bad # {}       \* forgive: restart the bookkeeping so one defect is reported once
                THEN /\ next' = [next EXCEPT ![r] = Pending]
                     /\ low' = [low EXCEPT ![r] = 0]
                     /\ lastret' = [lastret EXCEPT ![r] = IF inring THEN n ELSE 0]
           ELSE /\ next' = [next EXCEPT ![r] = D[1]]
                /\ low' = [low EXCEPT ![r] = D[1]]
                /\ lastret' = [lastret EXCEPT ![r] = n]
  /\ UNCHANGED <<rb, got, mem, wcount, rounds>>

DoInc(r, n) ==
  /\ rpos[r] # NoPos /\ n >= 1 /\ n <= lastret[r]
  /\ LET s == RposInc(rb, rpos[r], n) IN
     /\ rpos' = [rpos EXCEPT ![r] = s.rp]
     /\ ev' = Ev([op |-> "inc", r |-> r, n |-> n, rp |-> s.rp, trap |-> s.trap])
     /\ viol' = (IF s.trap THEN {"inc:debug-break"} ELSE {})
                \cup (IF s.rp.idx \notin 0..(IovN - 1) THEN {"table:rpos"} ELSE {})
  /\ next' = [next EXCEPT ![r] = IF @ = Pending THEN @ ELSE @ + n]
  /\ low' = [low EXCEPT ![r] = IF next[r] = Pending THEN @ ELSE next[r] + n]
  /\ lastret' = [lastret EXCEPT ![r] = @ - n]
  /\ UNCHANGED <<rb, got, mem, wcount, rounds>>

(* projection compared with the real r_buf_t / r_buf_rpos_t after every call *)
Proj == [wpos |-> rb.wpos, idx |-> rb.idx, imax |-> rb.imax, rnd |-> rb.rnd,
         frag |-> IF rb.frag THEN 1 ELSE 0, full |-> IF rb.full THEN 1 ELSE 0,
         iov |-> [i \in 1..IovN |-> <<rb.iov[i - 1].b, rb.iov[i - 1].l>>],
         mem |-> [c \in 1..Size |-> ByteOf(mem[c - 1])]]
=============================================================================
