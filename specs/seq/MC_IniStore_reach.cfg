\* base for the vacuity companions (the rig substitutes the INVARIANTS line): each Reach_* must be VIOLATED
SPECIFICATION MCSpec
CONSTANTS
  RepairedFind = TRUE
  RepairedGen = TRUE
  Sections <- S_AaB
  Names <- N_kKn
  Values <- V_3
  ExtraLines <- X_min
  Styles = {"lf"}
  MaxTextLines = 1
  MaxLines = 4
  MaxDepth = 1000
INVARIANTS TypeOK
CHECK_DEADLOCK FALSE
