\* model of the code AS SHIPPED (value names compared ignoring case): TLC must find a violation
SPECIFICATION MCSpec
CONSTANTS
  RepairedFind = FALSE
  RepairedGen = TRUE
  Sections <- S_Aa
  Names <- N_kK
  Values <- V_3
  ExtraLines <- X_min
  Styles = {"lf"}
  MaxTextLines = 1
  MaxLines = 3
  MaxDepth = 1000
INVARIANTS Inv_LookupS Inv_SetGet
CHECK_DEADLOCK FALSE
