\* quick tier: every history with at most 6 data bytes committed (ring of 6, so the ring wraps, and the round
\* counter starts at RoundMod-2, so it wraps too and a reader can be two rounds behind across the wrap); one reader.  c19.py rewrites Fix / Allow.
SPECIFICATION Spec
CONSTANTS
  Size = 6
  MinBlock = 1
  Readers = {0}
  RoundMod = 8
  Fix = {}
  Record = 0
  R0s = {6}
  GetMins = {1, 3}
  BlockSizes = {1, 2, 3}
  Offsets = {0, 1}
  Set2Gaps = {0, 1}
  Set2Sizes = {2}
  InitBacks = {0, 2, 100}
  DataSizes = {3, 10000}
  IovCnts = {1, 64}
  MaxWritten = 6
  MaxRounds = 3
  Allow = {}
  EmitMode = FALSE
INVARIANTS PropertyHolds TypeOK
CONSTRAINT BoundEmit
CHECK_DEADLOCK FALSE
