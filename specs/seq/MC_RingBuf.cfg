SPECIFICATION Spec
CONSTANTS
  Size = 6
  MinBlock = 1
  Readers = {0}
  RoundMod = 4
  Fix = {}
  Record = FALSE
  R0s = {0}
  GetMins = {1, 3}
  BlockSizes = {1, 2, 3}
  Offsets = {0, 1}
  Set2Gaps = {0, 1}
  Set2Sizes = {2}
  InitBacks = {0, 2, 100}
  DataSizes = {2, 10000}
  IovCnts = {1, 64}
  MaxWritten = 12
  MaxRounds = 3
  Allow = {}
  EmitMode = FALSE
INVARIANTS PropertyHolds TypeOK
CONSTRAINT BoundEmit
CHECK_DEADLOCK FALSE
