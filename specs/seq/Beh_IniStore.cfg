SPECIFICATION BehSpec
CONSTANTS
  RepairedFind = TRUE
  RepairedGen = TRUE
  Sections <- S_Aa
  Names <- N_kK
  Values <- V_3
  ExtraLines <- X_min
  Styles = {"lf", "mix"}
  MaxTextLines = 1
  MaxLines = 100
  MaxDepth = 2
INVARIANTS BehInv EmitInv
CHECK_DEADLOCK FALSE
