\* quick: every history of <= 2 operations over a small alphabet
SPECIFICATION BehSpec
CONSTANTS
  RepairedFind = TRUE
  RepairedGen = TRUE
  Sections <- S_Aa
  Names <- N_kK
  Values <- V_3
  ExtraLines <- X_min
  Styles = {"lf", "mix"}
  MaxTextLines = 1
  MaxLines = 1000
  MaxDepth = 2
  SimTextLines = 3
  Alphabet = {}
INVARIANTS EmitInv
CHECK_DEADLOCK FALSE
