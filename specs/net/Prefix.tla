------------------------------ MODULE Prefix ------------------------------
(* Reference definitions for property C18: prefix lengths, masks, truncation and network membership as
   integer arithmetic.  An address or mask is a sequence of 16-bit groups, most significant first
   (IPv4 = 2 groups, IPv6 = 8 groups); TLC integers are 32 bit, so nothing wider is ever formed.
   liblcb: src/net/utils.c  inet_len2mask, inet_mask2len, inet6_len2mask, inet6_mask2len,
   net_addr_truncate_preflen, net_addr_truncate_mask, is_addr_in_net. *)
EXTENDS Naturals, Sequences

RECURSIVE Pow2(_)
Pow2(n) == IF n = 0 THEN 1 ELSE 2 * Pow2(n - 1)

\* how many of the first l bits fall into group i (1-based)
KeepBits(l, i) == IF l >= 16 * i THEN 16 ELSE IF l <= 16 * (i - 1) THEN 0 ELSE l - 16 * (i - 1)

RECURSIVE MaskFrom(_, _, _)
MaskFrom(l, i, n) == IF i > n THEN << >> ELSE << 65536 - Pow2(16 - KeepBits(l, i)) >> \o MaskFrom(l, i + 1, n)
Len2Mask(l, n) == MaskFrom(l, 1, n)                 \* n groups, the first l bits set

IsMask(m) == \E l \in 0..(16 * Len(m)) : Len2Mask(l, Len(m)) = m
Mask2Len(m) == CHOOSE l \in 0..(16 * Len(m)) : Len2Mask(l, Len(m)) = m      \* defined for IsMask(m)

\* truncation to the first l bits: clear the low bits of every group by integer arithmetic
RECURSIVE TruncFrom(_, _, _)
TruncFrom(a, l, i) == IF i > Len(a) THEN << >>
                      ELSE << a[i] - (a[i] % Pow2(16 - KeepBits(l, i))) >> \o TruncFrom(a, l, i + 1)
Truncate(a, l) == TruncFrom(a, l, 1)

\* bitwise AND of two 16-bit numbers, bit by bit
RECURSIVE And16(_, _, _)
And16(x, y, bits) == IF bits = 0 THEN 0
                     ELSE 2 * And16(x \div 2, y \div 2, bits - 1) + (IF x % 2 = 1 /\ y % 2 = 1 THEN 1 ELSE 0)
RECURSIVE AndFrom(_, _, _)
AndFrom(a, m, i) == IF i > Len(a) THEN << >> ELSE << And16(a[i], m[i], 16) >> \o AndFrom(a, m, i + 1)
AndSeq(a, m) == AndFrom(a, m, 1)

InNet(net, mask, addr) == AndSeq(addr, mask) = net
=============================================================================
