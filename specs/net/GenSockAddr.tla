---------------------------- MODULE GenSockAddr ----------------------------
(* Generator for C18 (formatting + round trip).  One step from the start state reaches every case of the
   configured corpus; the reachable states ARE the corpus.  For every case TLC checks the reference's own
   algebra (Parse(Format(a,p)) = (a,p) for the three parsers) and emits the expected text with the output
   capacities from which success / failure is demanded. *)
EXTENDS SockAddr, TLC, Json
CONSTANTS Oct,        \* IPv4 octet values, full product Oct^4 (no port)
          G6,         \* IPv6 group values, full product G6^8 (no port)
          G6First,    \* partition: values of the first group handled by this run
          Ports,      \* port values crossed with the representative addresses below
          PathLens,   \* UNIX path lengths
          PortLo, PortHi,   \* every port PortLo..PortHi on one IPv4 and one IPv6 address (empty when PortLo > PortHi)
          Seed, NRand       \* NRand pseudo-random IPv4 and IPv6 addresses with pseudo-random ports, from Seed
VARIABLE c

\* representative addresses for the port sweep: every text length class / zero-run position
Rep4 == { <<0,0,0,0>>, <<1,2,3,4>>, <<10,0,0,1>>, <<9,10,99,100>>, <<192,168,1,1>>, <<199,200,255,0>>,
          <<255,255,255,255>>, <<100,100,100,9>> }
Rep6 == { <<0,0,0,0,0,0,0,0>>, <<0,0,0,0,0,0,0,1>>, <<8193,3512,0,0,0,0,0,1>>, <<8193,3512,0,0,0,0,0,0>>,
          <<1,0,0,0,0,0,0,0>>, <<1,2,3,4,5,6,7,8>>, <<65535,65535,65535,65535,65535,65535,65535,65535>>,
          <<0,1,0,0,1,0,0,0>>, <<1,0,0,1,0,0,1,0>>, <<0,0,1,0,0,0,1,0>>, <<4095,0,4095,0,0,4095,0,1>>,
          <<65152,0,0,0,513,4095,65279,1>>, <<0,0,0,0,0,1,0,0>>, <<1,0,1,0,1,0,1,0>> }

Path(n) == <<cSLASH>> \o [i \in 1..(n - 1) |-> IF i % 10 = 0 THEN cSLASH ELSE 97 + (i % 26)]

\* seeded pseudo-random 16-bit values: three steps of the 65537 Lehmer generator (everything < 2^31)
Mix(x) == ((x % 65537) * 75 + 74) % 65537
Rnd16(i, j) == Mix(Mix(Mix((Seed % 65536) * 7 + i * 131 + j * 31337))) % 65536

Init == c = [k |-> "start"]
NextV4 == c.k = "start" /\ \E o1 \in Oct, o2 \in Oct, o3 \in Oct, o4 \in Oct :
             c' = [k |-> "fmt", fam |-> "4", a |-> <<o1, o2, o3, o4>>, port |-> 0]
NextV6 == c.k = "start" /\ \E g1 \in G6First, g2 \in G6, g3 \in G6, g4 \in G6, g5 \in G6, g6 \in G6, g7 \in G6, g8 \in G6 :
             c' = [k |-> "fmt", fam |-> "6", a |-> <<g1, g2, g3, g4, g5, g6, g7, g8>>, port |-> 0]
NextPort4 == c.k = "start" /\ \E a \in Rep4, p \in Ports : c' = [k |-> "fmt", fam |-> "4", a |-> a, port |-> p]
NextPort6 == c.k = "start" /\ \E a \in Rep6, p \in Ports : c' = [k |-> "fmt", fam |-> "6", a |-> a, port |-> p]
NextUnix == c.k = "start" /\ \E n \in PathLens : c' = [k |-> "fmt", fam |-> "u", a |-> Path(n), port |-> 0]
NextSweep4 == c.k = "start" /\ \E p \in PortLo..PortHi : c' = [k |-> "fmt", fam |-> "4", a |-> <<192, 168, 1, 1>>, port |-> p]
NextSweep6 == c.k = "start" /\ \E p \in PortLo..PortHi :
                 c' = [k |-> "fmt", fam |-> "6", a |-> <<8193, 3512, 0, 0, 0, 0, 0, 1>>, port |-> p]
NextRand4 == c.k = "start" /\ \E i \in 1..NRand :
                 c' = [k |-> "fmt", fam |-> "4", port |-> Rnd16(i, 5),
                       a |-> <<Rnd16(i, 1) % 256, Rnd16(i, 2) % 256, Rnd16(i, 3) % 256, Rnd16(i, 4) % 256>>]
NextRand6 == c.k = "start" /\ \E i \in 1..NRand :
                 c' = [k |-> "fmt", fam |-> "6", port |-> Rnd16(i, 19),
                       a |-> <<Rnd16(i, 11), Rnd16(i, 12), Rnd16(i, 13), Rnd16(i, 14),
                               Rnd16(i, 15), Rnd16(i, 16), Rnd16(i, 17), Rnd16(i, 18)>>]
Next == NextV4 \/ NextV6 \/ NextPort4 \/ NextPort6 \/ NextUnix \/ NextSweep4 \/ NextSweep6 \/ NextRand4 \/ NextRand6
Spec == Init /\ [][Next]_c

IsCase == c.k = "fmt"
Decided == IsCase /\ ~(c.fam = "6" /\ V6Embedded(c.a))       \* text of ::a.b.c.d forms is Unspecified
TextA == FormatAddr(c.fam, c.a)
TextP == FormatAddrPort(c.fam, c.a, c.port)
TextPAlt == FormatAddrPortAlt(c.fam, c.a, c.port)

\* ---- algebra of the reference, checked by TLC on every generated case
RoundTripAddr == Decided => ParseAddr(TextA) = Ok(c.fam, c.a, 0, 0)
RoundTripAddrPort == Decided => /\ ParseAddrPort(TextP) = Ok(c.fam, c.a, c.port, 0)
                                /\ c.fam = "4" => ParseAddrPort(TextPAlt) = Ok(c.fam, c.a, c.port, 0)
RoundTripBracketed == (Decided /\ c.fam = "6") => ParseAddr(<<cLB>> \o TextA \o <<cRB>>) = Ok("6", c.a, 0, 0)
RoundTripNet == (Decided /\ c.fam # "u") =>
                   LET ta == TextA  m == MaxLenOf(c.fam) IN
                   /\ ParseNet(ta \o <<cSLASH>> \o Dec(m)) = Ok(c.fam, c.a, 0, m)
                   /\ ParseNet(ta \o <<cSLASH, 48>>) = Ok(c.fam, c.a, 0, 0)
                   /\ ParseNet(ta) = Ok(c.fam, c.a, 0, m)
Rfc5952Shape == (Decided /\ c.fam = "6") =>
                   LET ta == TextA  n == Cardinality(DblColons(ta)) IN
                   /\ n <= 1                                                    \* "::" at most once
                   /\ \A i \in 1..Len(ta) : ~(ta[i] >= 65 /\ ta[i] <= 70)       \* lower case
                   /\ Len(ta) <= 39
                   /\ (MaxRun(c.a) >= 2) = (n = 1)                              \* never for a single zero group
                   /\ \A i \in 1..(Len(ta) - 1) :                               \* no leading zeros in a group
                         (ta[i] = 48 /\ (i = 1 \/ ta[i - 1] = cCOLON)) => ta[i + 1] = cCOLON
CapsOrdered == Decided => LET ta == TextA  tp == TextP IN
                          /\ CapNeed(tp) <= CapSure(c.fam, tp, c.port, TRUE)
                          /\ CapNeed(ta) <= CapSure(c.fam, ta, 0, FALSE)

Emit == IF ~IsCase THEN TRUE
        ELSE LET ta == TextA  tp == TextP IN
             PrintT(ToJson([fam |-> c.fam, a |-> c.a, port |-> c.port, decided |-> Decided,
                 ta |-> ta, tp |-> tp, tpalt |-> TextPAlt,
                 needa |-> CapNeed(ta), surea |-> CapSure(c.fam, ta, 0, FALSE),
                 needp |-> CapNeed(tp), surep |-> CapSure(c.fam, tp, c.port, TRUE)]))
=============================================================================
