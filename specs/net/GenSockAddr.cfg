SPECIFICATION Spec
CONSTANTS
  Oct = {0, 1, 9, 10, 99, 100, 199, 200, 255}
  G6 = {0, 1, 65535}
  G6First = {0, 1, 65535}
  Ports = {0, 1, 9, 10, 99, 100, 999, 1000, 9999, 10000, 65535}
  PathLens = {1, 2, 50, 106, 107}
  PortLo = 1
  PortHi = 0
  Seed = 1
  NRand = 300
INVARIANTS RoundTripAddr RoundTripAddrPort RoundTripBracketed RoundTripNet Rfc5952Shape CapsOrdered
CONSTRAINT Emit
CHECK_DEADLOCK FALSE
