SPECIFICATION Spec
CONSTANTS
  Deep = FALSE
INVARIANTS Inverse InverseM OddIsNotMask TruncIsAnd TruncIdem MemberIff NetText
CONSTRAINT Emit
CHECK_DEADLOCK FALSE
