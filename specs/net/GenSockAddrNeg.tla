--------------------------- MODULE GenSockAddrNeg ---------------------------
(* Generator for the parser half of C18: every single-character edit (delete, insert, replace with a
   character of EditChars) of valid base texts, for each of the three parsers.  The reference classifies
   the edited text ("ok" with the value, "reject", or "unspec" = not decided by the property); TLC checks
   on every accepted text that re-formatting the parsed value and parsing again is the identity, and that
   the three parsers agree with each other where their documented spellings overlap. *)
EXTENDS SockAddr, TLC, Json
CONSTANTS EditChars,      \* characters inserted / substituted
          BaseSel         \* indexes of the base texts used by this run
VARIABLE c

A4a == <<1, 2, 3, 4>>
A4b == <<255, 100, 9, 0>>
A6a == <<8193, 3512, 0, 0, 0, 0, 0, 1>>                \* 2001:db8::1
A6b == <<65152, 0, 0, 0, 513, 4095, 65279, 1>>         \* fe80::201:fff:feff:1
A6c == <<1, 2, 3, 4, 5, 6, 7, 8>>
A6d == <<0, 0, 0, 0, 0, 0, 0, 1>>                      \* ::1
A6e == <<0, 0, 0, 0, 0, 0, 0, 0>>                      \* ::
A6f == <<8193, 3512, 0, 0, 0, 0, 0, 0>>                \* 2001:db8::
PathT == <<cSLASH, 116, 109, 112, cSLASH, 115>>        \* /tmp/s
Br(t) == <<cLB>> \o t \o <<cRB>>

Bases == <<
  [fn |-> "pa", t |-> FormatV4(A4a)],
  [fn |-> "pa", t |-> FormatV4(A4b)],
  [fn |-> "pa", t |-> FormatV6(A6a)],
  [fn |-> "pa", t |-> Br(FormatV6(A6b))],
  [fn |-> "pa", t |-> FormatV6(A6c)],
  [fn |-> "pa", t |-> <<cSP, cTAB>> \o FormatV4(A4a) \o <<cTAB, cSP>>],
  [fn |-> "pa", t |-> FormatV6(A6e)],
  [fn |-> "pa", t |-> PathT],
  [fn |-> "pp", t |-> FormatAddrPort("4", A4a, 80)],
  [fn |-> "pp", t |-> FormatAddrPort("4", A4b, 65535)],
  [fn |-> "pp", t |-> FormatAddrPort("6", A6a, 8080)],
  [fn |-> "pp", t |-> FormatAddrPort("6", A6d, 1)],
  [fn |-> "pp", t |-> FormatAddrPort("6", A6c, 443)],
  [fn |-> "pp", t |-> FormatAddrPort("6", A6e, 0)],
  [fn |-> "pp", t |-> FormatV4(A4a)],
  [fn |-> "pp", t |-> PathT],
  [fn |-> "pn", t |-> FormatV4(<<10, 0, 0, 0>>) \o <<cSLASH>> \o Dec(8)],
  [fn |-> "pn", t |-> FormatV4(A4a) \o <<cSLASH>> \o Dec(32)],
  [fn |-> "pn", t |-> Br(FormatV6(A6f)) \o <<cSLASH>> \o Dec(32)],
  [fn |-> "pn", t |-> FormatV6(A6f) \o <<cSLASH>> \o Dec(128)],
  [fn |-> "pn", t |-> FormatV6(A6e) \o <<cSLASH>> \o Dec(0)],
  [fn |-> "pn", t |-> FormatV4(<<0, 0, 0, 0>>) \o <<cSLASH>> \o Dec(0)]
>>

ParseBy(fn, t) == IF fn = "pa" THEN ParseAddr(t) ELSE IF fn = "pp" THEN ParseAddrPort(t) ELSE ParseNet(t)

Del(t, i) == SubSeq(t, 1, i - 1) \o SubSeq(t, i + 1, Len(t))
Ins(t, i, ch) == SubSeq(t, 1, i) \o <<ch>> \o SubSeq(t, i + 1, Len(t))        \* after position i (0 = front)
Rep(t, i, ch) == SubSeq(t, 1, i - 1) \o <<ch>> \o SubSeq(t, i + 1, Len(t))

\* texts around the length limits: sun_path (108 bytes with NUL) and the parsers' copy buffer (111 + NUL)
Path(n) == <<cSLASH>> \o [i \in 1..(n - 1) |-> IF i % 10 = 0 THEN cSLASH ELSE 97 + (i % 26)]
Rept(ch, n) == [i \in 1..n |-> ch]
LongTexts == { Path(106), Path(107), Path(108), Path(109), Path(111), Path(112), Path(113), Path(200),
               Rept(49, 111), Rept(49, 112), Rept(49, 300),
               Rept(cSP, 150) \o FormatV4(A4a) \o Rept(cTAB, 150),
               Rept(cSP, 120) \o Br(FormatV6(A6a)) \o Rept(cSP, 1) }

Init == c = [k |-> "start"]
NextLong == c.k = "start" /\ \E t \in LongTexts, fn \in {"pa", "pp"} : c' = [k |-> "neg", fn |-> fn, t |-> t, e |-> "long"]
NextBase == c.k = "start" /\ \E b \in BaseSel : LET B == Bases[b] IN
              c' = [k |-> "neg", fn |-> B.fn, t |-> B.t, e |-> "base"]
NextDel == c.k = "start" /\ \E b \in BaseSel : LET B == Bases[b] IN \E i \in 1..Len(B.t) :
              c' = [k |-> "neg", fn |-> B.fn, t |-> Del(B.t, i), e |-> "del"]
NextIns == c.k = "start" /\ \E b \in BaseSel : LET B == Bases[b] IN \E i \in 0..Len(B.t), ch \in EditChars :
              c' = [k |-> "neg", fn |-> B.fn, t |-> Ins(B.t, i, ch), e |-> "ins"]
NextRep == c.k = "start" /\ \E b \in BaseSel : LET B == Bases[b] IN \E i \in 1..Len(B.t), ch \in EditChars :
              c' = [k |-> "neg", fn |-> B.fn, t |-> Rep(B.t, i, ch), e |-> "rep"]
Next == NextBase \/ NextDel \/ NextIns \/ NextRep \/ NextLong
Spec == Init /\ [][Next]_c

\* ---- algebra of the reference
BasesValid == (c.k = "neg" /\ c.e = "base") => ParseBy(c.fn, c.t).v = "ok"
Refmt(fn, r) == IF fn = "pa" THEN FormatAddr(r.fam, r.a)
                ELSE IF fn = "pp" THEN FormatAddrPort(r.fam, r.a, r.port)
                ELSE FormatAddr(r.fam, r.a) \o <<cSLASH>> \o Dec(r.len)
Canonical == c.k = "neg" =>
   LET r == ParseBy(c.fn, c.t) IN
   (r.v = "ok" /\ ~(r.fam = "6" /\ V6Embedded(r.a))) => ParseBy(c.fn, Refmt(c.fn, r)) = r
\* the port parser and the net parser extend the plain address parser
Agree == c.k = "neg" =>
   LET ra == ParseAddr(c.t)  rp == ParseAddrPort(c.t)  rn == ParseNet(c.t) IN
   /\ (ra.v = "ok" /\ ~Has(c.t, cCOLON) /\ ra.fam = "4") => rp = ra
   /\ (ra.v = "ok" /\ ra.fam = "6" /\ Has(c.t, cLB)) => rp = ra
   /\ (ra.v = "ok" /\ ra.fam # "u") => rn = Ok(ra.fam, ra.a, 0, MaxLenOf(ra.fam))
   /\ (ra.v = "reject" /\ ~Has(c.t, cSLASH)) => rn.v = "reject"
   /\ (rp.v = "ok" /\ rp.fam = "4" /\ ~Has(c.t, cCOLON)) => ra = rp

Emit == IF c.k = "start" THEN TRUE
        ELSE PrintT(ToJson([fn |-> c.fn, t |-> c.t, e |-> c.e, r |-> ParseBy(c.fn, c.t)]))
=============================================================================
