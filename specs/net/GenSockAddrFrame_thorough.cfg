SPECIFICATION Spec
CONSTANTS
  Deep = TRUE
INVARIANTS TruncFrame FullLenIsIdentity ZeroLenKeepsFrame PortFrame AddrFrame InitFrame
CONSTRAINT Emit
CHECK_DEADLOCK FALSE
