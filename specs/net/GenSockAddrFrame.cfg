SPECIFICATION Spec
CONSTANTS
  Deep = FALSE
INVARIANTS TruncFrame FullLenIsIdentity ZeroLenKeepsFrame PortFrame AddrFrame InitFrame
CONSTRAINT Emit
CHECK_DEADLOCK FALSE
