SPECIFICATION Spec
CONSTANTS
  EditChars = {48, 53, 57, 97, 103, 58, 46, 91, 93, 32, 47}
  BaseSel = {1, 3, 4, 6, 8, 9, 11, 12, 14, 17, 19, 21}
INVARIANTS BasesValid Canonical Agree
CONSTRAINT Emit
CHECK_DEADLOCK FALSE
