------------------------- MODULE GenSockAddrPrefix -------------------------
(* Generator for the prefix half of C18: every prefix length 0..32 / 0..128 (plus out-of-range lengths),
   every valid mask, truncation by length and by mask, membership.  TLC checks the algebra of the
   reference (mask2len inverse of len2mask, truncation = AND with the mask, idempotence, monotonicity,
   an address is a member of its own truncated network) on every case and emits the expectations. *)
EXTENDS Prefix, SockAddr, TLC, Json
CONSTANT Deep                    \* FALSE: 4 sample addresses per family, TRUE: 7
VARIABLE c

\* sample addresses (2 / 8 groups of 16 bits)
Sample4 == {<<65535, 65535>>, <<52065, 738>>, <<32768, 1>>, <<32767, 65534>>} \cup
           (IF Deep THEN {<<0, 0>>, <<43690, 21845>>, <<2560, 255>>} ELSE {})
Sample6 == {<<65535, 65535, 65535, 65535, 65535, 65535, 65535, 65535>>,
            <<8193, 3512, 34211, 1, 32768, 35374, 880, 29492>>,
            <<43690, 21845, 43690, 21845, 43690, 21845, 43690, 21845>>,
            <<1, 0, 0, 32768, 1, 0, 0, 1>>} \cup
           (IF Deep THEN {<<0, 0, 0, 0, 0, 0, 0, 0>>, <<65152, 0, 0, 0, 513, 4095, 65279, 1>>,
                          <<21845, 43690, 21845, 43690, 21845, 43690, 21845, 43690>>} ELSE {})
\* non-contiguous masks (AND is still defined; mask2len is Unspecified)
OddMask4 == {<<65280, 65280>>, <<255, 0>>, <<65535, 1>>}
OddMask6 == {<<65535, 0, 65535, 0, 0, 0, 0, 0>>, <<65535, 65535, 32768, 0, 65535, 0, 0, 0>>, <<0, 0, 0, 0, 0, 0, 0, 1>>}

NG(fam) == IF fam = "4" THEN 2 ELSE 8
MaxLen(fam) == 16 * NG(fam)
Samples(fam) == IF fam = "4" THEN Sample4 ELSE Sample6
OddMasks(fam) == IF fam = "4" THEN OddMask4 ELSE OddMask6
Fams == {"4", "6"}

Init == c = [k |-> "start"]
NextL2M == c.k = "start" /\ \E f \in Fams : \E l \in (0..(MaxLen(f) + 2)) \cup {255, 65535} :
              c' = [k |-> "l2m", fam |-> f, l |-> l]
NextM2L == c.k = "start" /\ \E f \in Fams : \E l \in 0..MaxLen(f) : c' = [k |-> "m2l", fam |-> f, m |-> Len2Mask(l, NG(f))]
NextM2LOdd == c.k = "start" /\ \E f \in Fams : \E m \in OddMasks(f) : c' = [k |-> "m2l", fam |-> f, m |-> m]
NextTL == c.k = "start" /\ \E f \in Fams : \E a \in Samples(f), l \in 0..MaxLen(f) :
              c' = [k |-> "tl", fam |-> f, a |-> a, l |-> l]
NextTM == c.k = "start" /\ \E f \in Fams : \E a \in Samples(f) :
              \E m \in {Len2Mask(l, NG(f)) : l \in 0..MaxLen(f)} \cup OddMasks(f) :
              c' = [k |-> "tm", fam |-> f, a |-> a, m |-> m]
NextIN == c.k = "start" /\ \E f \in Fams : \E a \in Samples(f), b \in Samples(f), l \in 0..MaxLen(f), t \in BOOLEAN :
              c' = [k |-> "in", fam |-> f, a |-> a, l |-> l, m |-> Len2Mask(l, NG(f)),
                    net |-> IF t THEN Truncate(b, l) ELSE b]
\* "addr/len" texts for str_net_to_ss: every length, also out of range; IPv6 with and without brackets
AddrOf(f, a) == IF f = "4" THEN << a[1] \div 256, a[1] % 256, a[2] \div 256, a[2] % 256 >> ELSE a
NextPN == c.k = "start" /\ \E f \in Fams : \E a \in Samples(f), l \in (0..(MaxLen(f) + 2)) \cup {255, 999}, br \in BOOLEAN :
              (br => f = "6") /\
              c' = [k |-> "pn", fam |-> f, a |-> AddrOf(f, a), l |-> l,
                    t |-> (IF br THEN <<cLB>> \o FormatAddr(f, AddrOf(f, a)) \o <<cRB>> ELSE FormatAddr(f, AddrOf(f, a)))
                          \o <<cSLASH>> \o Dec(l)]
Next == NextL2M \/ NextM2L \/ NextM2LOdd \/ NextTL \/ NextTM \/ NextIN \/ NextPN
Spec == Init /\ [][Next]_c

\* ---- algebra of the reference
Inverse == (c.k = "l2m" /\ c.l <= MaxLen(c.fam)) =>
              LET m == Len2Mask(c.l, NG(c.fam)) IN IsMask(m) /\ Mask2Len(m) = c.l
InverseM == (c.k = "m2l" /\ IsMask(c.m)) => Len2Mask(Mask2Len(c.m), NG(c.fam)) = c.m
OddIsNotMask == (c.k = "m2l" /\ c.m \in OddMasks(c.fam)) => ~IsMask(c.m)
TruncIsAnd == c.k = "tl" => Truncate(c.a, c.l) = AndSeq(c.a, Len2Mask(c.l, NG(c.fam)))
TruncIdem == c.k = "tl" => LET t == Truncate(c.a, c.l) IN
                /\ Truncate(t, c.l) = t
                /\ InNet(t, Len2Mask(c.l, NG(c.fam)), c.a)
                /\ c.l > 0 => Truncate(t, c.l - 1) = Truncate(c.a, c.l - 1)
                /\ Truncate(c.a, MaxLen(c.fam)) = c.a
                /\ Truncate(c.a, 0) = Len2Mask(0, NG(c.fam))
NetText == c.k = "pn" => ParseNet(c.t) = (IF c.l <= MaxLen(c.fam) THEN Ok(c.fam, c.a, 0, c.l) ELSE Reject("bad-preflen"))
MemberIff == c.k = "in" => (InNet(c.net, c.m, c.a) <=> Truncate(c.a, c.l) = c.net)

Expect == IF c.k = "l2m" THEN (IF c.l <= MaxLen(c.fam) THEN [v |-> "ok", m |-> Len2Mask(c.l, NG(c.fam))]
                                                       ELSE [v |-> "reject", m |-> << >>])
          ELSE IF c.k = "m2l" THEN (IF IsMask(c.m) THEN [v |-> "ok", l |-> Mask2Len(c.m)] ELSE [v |-> "unspec", l |-> 0])
          ELSE IF c.k = "pn" THEN ParseNet(c.t)
          ELSE IF c.k = "tl" THEN [v |-> "ok", a |-> Truncate(c.a, c.l)]
          ELSE IF c.k = "tm" THEN [v |-> "ok", a |-> AndSeq(c.a, c.m)]
          ELSE [v |-> "ok", member |-> InNet(c.net, c.m, c.a)]
Emit == IF c.k = "start" THEN TRUE ELSE PrintT(ToJson([in |-> c, expect |-> Expect]))
=============================================================================
