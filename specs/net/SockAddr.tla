------------------------------ MODULE SockAddr ------------------------------
(* Reference definitions for property C18: text forms of socket addresses.
   Text = sequence of ASCII codes.  IPv4 address = <<o1,o2,o3,o4>> (octets), IPv6 address = 8 groups of
   16 bits (TLC integers are 32 bit, nothing here exceeds 99999), UNIX address = the path's characters.

   Format*  : dotted quad; RFC 5952 (longest run of >= 2 zero groups compressed, leftmost on a tie, lower
              case, no leading zeros); "[v6]:port" / "v4:port" when a port follows.
   Parse*   : three-valued.  v = "ok"     the text is one of the documented spellings -> family/address/port
                             v = "reject" the text is none of them -> the function must return an error
                             v = "unspec" the property does not decide (glibc inet_pton leniencies, the
                                          bracket/blank stripping the code performs on mixed wrappers,
                                          unbracketed IPv6 given to the port parser - "wrong, but work")
   liblcb: src/net/socket_address.c, src/net/utils.c (str_net_to_ss). *)
EXTENDS Naturals, Sequences, FiniteSets

cTAB == 9      cSP == 32      cDOT == 46     cSLASH == 47   cCOLON == 58   cLB == 91   cRB == 93
Blanks == {cSP, cTAB}
SunPathMax == 107          \* sizeof(sun_path) - 1 on Linux: longest path the library can represent
AddrTextMax == 111         \* STR_ADDR_LEN - 1: longest address text the parsers copy

IsDigit(c) == c >= 48 /\ c <= 57
IsHex(c)   == IsDigit(c) \/ (c >= 97 /\ c <= 102) \/ (c >= 65 /\ c <= 70)
HexVal(c)  == IF IsDigit(c) THEN c - 48 ELSE IF c >= 97 THEN c - 87 ELSE c - 55
HexChar(d) == IF d < 10 THEN 48 + d ELSE 87 + d

RECURSIVE Dec(_)
Dec(n) == IF n < 10 THEN << 48 + n >> ELSE Append(Dec(n \div 10), 48 + (n % 10))
RECURSIVE Hex(_)
Hex(n) == IF n < 16 THEN << HexChar(n) >> ELSE Append(Hex(n \div 16), HexChar(n % 16))

RECURSIVE DecVal(_)            \* all-digit text of at most 5 characters
DecVal(t) == IF Len(t) = 0 THEN 0 ELSE DecVal(SubSeq(t, 1, Len(t) - 1)) * 10 + (t[Len(t)] - 48)
RECURSIVE HexValue(_)          \* all-hex text of at most 4 characters
HexValue(t) == IF Len(t) = 0 THEN 0 ELSE HexValue(SubSeq(t, 1, Len(t) - 1)) * 16 + HexVal(t[Len(t)])

AllIn(t, P(_)) == \A i \in 1..Len(t) : P(t[i])
Count(t, c) == Cardinality({i \in 1..Len(t) : t[i] = c})
Has(t, c) == \E i \in 1..Len(t) : t[i] = c
RECURSIVE ScanUp(_, _, _)
ScanUp(t, c, i) == IF t[i] = c THEN i ELSE ScanUp(t, c, i + 1)
RECURSIVE ScanDown(_, _, _)
ScanDown(t, c, i) == IF t[i] = c THEN i ELSE ScanDown(t, c, i - 1)
FirstPos(t, c) == ScanUp(t, c, 1)          \* only used when Has(t, c)
LastPos(t, c)  == ScanDown(t, c, Len(t))

RECURSIVE LStrip(_, _)
LStrip(t, S) == IF Len(t) > 0 /\ t[1] \in S THEN LStrip(SubSeq(t, 2, Len(t)), S) ELSE t
RECURSIVE RStrip(_, _)
RStrip(t, S) == IF Len(t) > 0 /\ t[Len(t)] \in S THEN RStrip(SubSeq(t, 1, Len(t) - 1), S) ELSE t

RECURSIVE Split(_, _)          \* Split("a.b", ".") = <<"a","b">>;  Split("", ".") = <<"">>
Split(t, c) == IF ~Has(t, c) THEN << t >>
               ELSE LET p == FirstPos(t, c) IN << SubSeq(t, 1, p - 1) >> \o Split(SubSeq(t, p + 1, Len(t)), c)

\* ------------------------------------------------------------ formatting
FormatV4(o) == Dec(o[1]) \o <<cDOT>> \o Dec(o[2]) \o <<cDOT>> \o Dec(o[3]) \o <<cDOT>> \o Dec(o[4])

RECURSIVE RunLen(_, _)         \* number of consecutive zero groups starting at group i
RunLen(g, i) == IF i > 8 THEN 0 ELSE IF g[i] # 0 THEN 0 ELSE 1 + RunLen(g, i + 1)
MaxRun(g) == LET S == {RunLen(g, i) : i \in 1..8} IN CHOOSE m \in S : \A x \in S : x <= m
BestStart(g) == CHOOSE i \in 1..8 : RunLen(g, i) = MaxRun(g) /\ \A j \in 1..(i - 1) : RunLen(g, j) < MaxRun(g)

RECURSIVE JoinHex(_, _, _)     \* groups lo..hi as hex, ':' between
JoinHex(g, lo, hi) == IF lo > hi THEN << >>
                      ELSE IF lo = hi THEN Hex(g[lo])
                      ELSE Hex(g[lo]) \o <<cCOLON>> \o JoinHex(g, lo + 1, hi)

FormatV6(g) == IF MaxRun(g) < 2 THEN JoinHex(g, 1, 8)
               ELSE LET b == BestStart(g) m == MaxRun(g) IN
                    JoinHex(g, 1, b - 1) \o <<cCOLON, cCOLON>> \o JoinHex(g, b + m, 8)

(* Addresses which glibc (and RFC 5952 section 5) print with an embedded dotted quad:
   ::a.b.c.d, ::ffff:a.b.c.d.  The text of these is not decided by the property. *)
V6Embedded(g) == /\ \A i \in 1..5 : g[i] = 0
                 /\ \/ g[6] = 65535
                    \/ g[6] = 0 /\ g[7] # 0
                    \/ g[6] = 0 /\ g[7] = 0 /\ g[8] > 1

FormatAddr(fam, a) == IF fam = "4" THEN FormatV4(a) ELSE IF fam = "6" THEN FormatV6(a) ELSE a

(* with port: "v4:port", "[v6]:port"; port 0 means "no port" (the code omits it) and then the IPv6
   brackets are optional: the statement demands them only when a port follows *)
FormatAddrPort(fam, a, port) ==
   IF fam = "u" THEN a
   ELSE IF fam = "4" THEN (IF port = 0 THEN FormatV4(a) ELSE FormatV4(a) \o <<cCOLON>> \o Dec(port))
   ELSE IF port = 0 THEN <<cLB>> \o FormatV6(a) \o <<cRB>>
   ELSE <<cLB>> \o FormatV6(a) \o <<cRB, cCOLON>> \o Dec(port)
FormatAddrPortAlt(fam, a, port) == IF fam = "6" /\ port = 0 THEN FormatV6(a) ELSE FormatAddrPort(fam, a, port)

(* Output capacities.  need: the text plus its NUL - below it the call must fail.  sure: from here on the
   call must succeed.  Between them either outcome is accepted: the code documents that it reserves room
   for "5 digits + ':' + zero" whenever a port follows and hands inet_ntop one byte less than it has. *)
CapNeed(text) == Len(text) + 1
CapSure(fam, text, port, withport) ==
   IF fam = "u" THEN Len(text) + 1
   ELSE IF ~withport \/ port = 0 THEN Len(text) + 2
   ELSE Len(text) - Len(Dec(port)) + 6

\* ------------------------------------------------------------ parsing
Ok(fam, a, port, len) == [v |-> "ok", fam |-> fam, a |-> a, port |-> port, len |-> len, why |-> ""]
Reject(why) == [v |-> "reject", fam |-> "", a |-> << >>, port |-> 0, len |-> 0, why |-> why]
Unspec(why) == [v |-> "unspec", fam |-> "", a |-> << >>, port |-> 0, len |-> 0, why |-> why]

\* dotted quad: "ok" strict (no leading zeros), "unspec" leading zeros, "no" anything else
OctetOK(p) == Len(p) \in 1..3 /\ AllIn(p, IsDigit) /\ DecVal(p) <= 255
OctetStrict(p) == OctetOK(p) /\ (Len(p) = 1 \/ p[1] # 48)
V4Kind(t) == LET ps == Split(t, cDOT) IN
   IF Len(ps) = 4 /\ \A i \in 1..4 : OctetOK(ps[i])
   THEN (IF \A i \in 1..4 : OctetStrict(ps[i]) THEN "ok" ELSE "unspec") ELSE "no"
V4Val(t) == LET ps == Split(t, cDOT) IN << DecVal(ps[1]), DecVal(ps[2]), DecVal(ps[3]), DecVal(ps[4]) >>

\* RFC 4291 section 2.2 forms 1 and 2: groups of 1..4 hex digits (either case), "::" at most once and
\* standing for at least one group.  Anything with a '.' next to ':' (form 3, embedded IPv4) is "unspec".
GroupOK(p) == Len(p) \in 1..4 /\ AllIn(p, IsHex)
GroupsOf(t) == IF Len(t) = 0 THEN << >> ELSE Split(t, cCOLON)
DblColons(t) == {i \in 1..(Len(t) - 1) : t[i] = cCOLON /\ t[i + 1] = cCOLON}
V6Split(t, k) == << GroupsOf(SubSeq(t, 1, k - 1)), GroupsOf(SubSeq(t, k + 2, Len(t))) >>
V6Kind(t) ==
   IF Len(t) = 0 \/ ~Has(t, cCOLON) THEN "no"
   ELSE IF ~AllIn(t, LAMBDA c : IsHex(c) \/ c = cCOLON \/ c = cDOT) THEN "no"
   ELSE IF Has(t, cDOT) THEN "unspec"
   ELSE LET dc == DblColons(t)  n == Cardinality(dc) IN
   IF n > 1 THEN "no"
   ELSE IF n = 0
        THEN LET gs == GroupsOf(t) IN (IF Len(gs) = 8 /\ \A i \in 1..8 : GroupOK(gs[i]) THEN "ok" ELSE "no")
   ELSE LET lr == V6Split(t, CHOOSE i \in dc : TRUE)  l == lr[1]  r == lr[2] IN
        IF Len(l) + Len(r) <= 7 /\ (\A i \in 1..Len(l) : GroupOK(l[i])) /\ (\A i \in 1..Len(r) : GroupOK(r[i]))
        THEN "ok" ELSE "no"
RECURSIVE Vals(_)
Vals(ps) == IF Len(ps) = 0 THEN << >> ELSE << HexValue(ps[1]) >> \o Vals(Tail(ps))
RECURSIVE Zeros(_)
Zeros(n) == IF n = 0 THEN << >> ELSE << 0 >> \o Zeros(n - 1)
V6Val(t) ==                                   \* only used when V6Kind(t) = "ok"
   LET dc == DblColons(t) IN
   IF dc = {} THEN Vals(GroupsOf(t))
   ELSE LET lr == V6Split(t, CHOOSE i \in dc : TRUE)  l == lr[1]  r == lr[2] IN
        Vals(l) \o Zeros(8 - Len(l) - Len(r)) \o Vals(r)

LeadSet == {cSP, cTAB, cLB}      \* what the code skips before / after the address
TrailSet == {cSP, cTAB, cRB}
Core(t) == RStrip(LStrip(t, LeadSet), TrailSet)
Lead(t) == SubSeq(t, 1, Len(t) - Len(LStrip(t, LeadSet)))
Trail(t) == LET u == LStrip(t, LeadSet) IN SubSeq(u, Len(RStrip(u, TrailSet)) + 1, Len(u))
StartsPath(t) == LET u == LStrip(t, LeadSet) IN Len(u) > 0 /\ u[1] \in {cSLASH, cDOT}

UnixVerdict(p) == IF Len(p) <= SunPathMax THEN Ok("u", p, 0, 0) ELSE Reject("unix-path-too-long")

(* sa_addr_from_str: "127.0.0.1", "[2001:4f8:fff6::28]", "2001:4f8:fff6::28", blanks around *)
ParseAddr(t) ==
   IF Len(t) = 0 THEN Reject("empty")
   ELSE LET u == LStrip(t, LeadSet)
            c == RStrip(u, TrailSet)
            ld == SubSeq(t, 1, Len(t) - Len(u))
            tr == SubSeq(u, Len(c) + 1, Len(u))
            k4 == V4Kind(c)
            k6 == V6Kind(c) IN
   IF Len(c) = 0 THEN Reject("empty")
   ELSE IF k4 = "ok" THEN
        (IF AllIn(ld, LAMBDA x : x \in Blanks) /\ AllIn(tr, LAMBDA x : x \in Blanks)
         THEN Ok("4", V4Val(c), 0, 0) ELSE Unspec("bracketed-v4"))
   ELSE IF k4 = "unspec" THEN Unspec("v4-leading-zeros")
   ELSE IF k6 = "ok" THEN
        LET lb == Count(ld, cLB)  rb == Count(tr, cRB) IN
        IF lb = 0 /\ rb = 0 THEN Ok("6", V6Val(c), 0, 0)
        ELSE IF lb = 1 /\ rb = 1 /\ ld[Len(ld)] = cLB /\ tr[1] = cRB THEN Ok("6", V6Val(c), 0, 0)
        ELSE Unspec("odd-brackets")
   ELSE IF k6 = "unspec" THEN Unspec("v6-embedded-v4")
   ELSE IF c[1] \in {cSLASH, cDOT} THEN
        (IF Len(ld) = 0 /\ Len(tr) = 0 THEN UnixVerdict(c) ELSE Unspec("stripped-path"))
   ELSE Reject("bad-address")

\* decimal field (port, prefix length): "ok", "bad" or "unspec" (blanks, leading zeros)
NumKind(p, maxdigits, max) ==
   IF \E i \in 1..Len(p) : p[i] \in Blanks THEN "unspec"
   ELSE IF Len(p) = 0 THEN "bad"
   ELSE IF ~AllIn(p, IsDigit) THEN "bad"
   ELSE IF Len(p) > 1 /\ p[1] = 48 THEN "unspec"
   ELSE IF Len(p) > maxdigits THEN "bad"
   ELSE IF DecVal(p) > max THEN "bad" ELSE "ok"

(* sa_addr_port_from_str: "127.0.0.1:1234", "[2001:4f8:fff6::28]:1234", and the port-less forms *)
ParseAddrPort(t) ==
   IF Len(t) = 0 THEN Reject("empty")
   ELSE IF StartsPath(t) THEN
        (IF Len(Lead(t)) = 0 /\ Len(Trail(t)) = 0 /\ ~Has(t, cCOLON) /\ ~Has(t, cRB)
         THEN UnixVerdict(t) ELSE Unspec("path-with-specials"))
   ELSE IF Count(t, cLB) = 0 /\ Count(t, cRB) = 0 THEN
        IF Count(t, cCOLON) = 0 THEN ParseAddr(t)
        ELSE IF Count(t, cCOLON) > 1 THEN Unspec("unbracketed-v6")
        ELSE LET p == FirstPos(t, cCOLON)
                 l == LStrip(SubSeq(t, 1, p - 1), Blanks)
                 pt == SubSeq(t, p + 1, Len(t)) IN
             IF RStrip(l, Blanks) # l THEN Unspec("blank-before-colon")
             ELSE LET k4 == V4Kind(l)  nk == NumKind(pt, 5, 65535) IN
             IF k4 = "unspec" THEN Unspec("v4-leading-zeros")
             ELSE IF k4 = "no" THEN Reject("bad-address")
             ELSE IF nk = "ok" THEN Ok("4", V4Val(l), DecVal(pt), 0)
             ELSE IF nk = "unspec" THEN Unspec("port-spelling")
             ELSE Reject("bad-port")
   ELSE IF Count(t, cLB) = 1 /\ Count(t, cRB) = 1 /\ FirstPos(t, cLB) < FirstPos(t, cRB) THEN
        LET i == FirstPos(t, cLB)  j == FirstPos(t, cRB)
            pre == SubSeq(t, 1, i - 1)  x == SubSeq(t, i + 1, j - 1)  rest == SubSeq(t, j + 1, Len(t)) IN
        IF ~AllIn(pre, LAMBDA c : c \in Blanks) THEN Reject("bad-address")
        ELSE IF \E k \in 1..Len(x) : x[k] \in Blanks THEN Unspec("blank-in-brackets")
        ELSE LET k6 == V6Kind(x) IN
        IF k6 = "unspec" THEN Unspec("v6-embedded-v4")
        ELSE IF V4Kind(x) # "no" THEN Unspec("bracketed-v4")
        ELSE IF k6 = "no" THEN Reject("bad-address")
        ELSE IF AllIn(rest, LAMBDA c : c \in Blanks) THEN Ok("6", V6Val(x), 0, 0)
        ELSE IF rest[1] = cCOLON THEN
             LET pt == SubSeq(rest, 2, Len(rest))  nk == NumKind(pt, 5, 65535) IN
             IF nk = "ok" THEN Ok("6", V6Val(x), DecVal(pt), 0)
             ELSE IF nk = "unspec" THEN Unspec("port-spelling")
             ELSE Reject("bad-port")
        ELSE IF \E k \in 1..Len(rest) : rest[k] \in Blanks THEN Unspec("blank-after-bracket")
        ELSE Reject("junk-after-bracket")
   ELSE Unspec("odd-brackets")

(* str_net_to_ss: "127.0.0.0/8", "[2001:4f8:fff6::]/32", "2001:4f8:fff6::28/32"; without "/len" the
   code documents the host length (32 / 128) *)
MaxLenOf(fam) == IF fam = "4" THEN 32 ELSE 128
ParseNet(t) ==
   IF Len(t) = 0 THEN Reject("empty")
   ELSE IF StartsPath(t) THEN Unspec("path")
   ELSE IF ~Has(t, cSLASH) THEN
        LET r == ParseAddr(t) IN
        IF r.v = "ok" THEN Ok(r.fam, r.a, 0, MaxLenOf(r.fam)) ELSE r
   ELSE LET p == LastPos(t, cSLASH)
            r == ParseAddr(SubSeq(t, 1, p - 1))
            lt == SubSeq(t, p + 1, Len(t)) IN
        IF r.v # "ok" THEN r
        ELSE IF r.fam = "u" THEN Unspec("path")
        ELSE LET nk == NumKind(lt, 3, MaxLenOf(r.fam)) IN
        IF nk = "ok" THEN Ok(r.fam, r.a, 0, DecVal(lt))
        ELSE IF nk = "unspec" THEN Unspec("len-spelling")
        ELSE Reject("bad-preflen")
=============================================================================
