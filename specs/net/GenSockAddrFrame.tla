------------------------- MODULE GenSockAddrFrame -------------------------
(* C18, the WHOLE socket address: the operations that take a sockaddr_storage in place
   (net_addr_truncate_preflen, sa_port_set, sa_addr_set, sa_init, sa_copy) are specified on a record with EVERY
   field of the structure - family, port, flow info, address, scope id and the padding/tail pattern - so that the
   reference says which field an operation changes and, by omission, that everything else stays as it was.
   The frames carry non-zero port / flowinfo / scope id / padding; every prefix length 0..32 / 0..128 (the
   full length included: the identity on the whole record) plus out-of-range lengths is generated.
   TLC checks the frame algebra on the reference and emits before/after records; the driver renders the
   before record into a 128-byte sockaddr_storage image, calls the real function and returns the image after. *)
EXTENDS Prefix, TLC, Json
CONSTANT Deep
VARIABLE c

Z4 == <<0, 0, 0, 0>>
\* addresses as 16-bit groups (fe80::1 and ff02::fb are the link-local forms that carry a scope id in practice)
Sample4 == {<<65535, 65535>>, <<52065, 738>>, <<32768, 1>>} \cup (IF Deep THEN {<<0, 0>>, <<32767, 65534>>} ELSE {})
Sample6 == {<<65535, 65535, 65535, 65535, 65535, 65535, 65535, 65535>>,
            <<65152, 0, 0, 0, 0, 0, 0, 1>>,
            <<8193, 3512, 34211, 1, 32768, 35374, 880, 29492>>} \cup
           (IF Deep THEN {<<65282, 0, 0, 0, 0, 0, 0, 251>>, <<0, 0, 0, 0, 0, 0, 0, 0>>,
                          <<43690, 21845, 43690, 21845, 43690, 21845, 43690, 21845>>} ELSE {})
\* port, flowinfo bytes, scope-id bytes (as they lie in memory), seed of the padding/tail pattern (0 = zero bytes)
Frames == {[port |-> 5353,  flow |-> <<1, 2, 3, 4>>,         scope |-> <<4, 3, 2, 1>>,         pad |-> 165],
           [port |-> 65535, flow |-> <<255, 255, 255, 255>>, scope |-> <<255, 255, 255, 255>>, pad |-> 255],
           [port |-> 256,   flow |-> <<128, 0, 0, 1>>,       scope |-> <<5, 0, 0, 0>>,         pad |-> 1]} \cup
          (IF Deep THEN {[port |-> 0, flow |-> Z4, scope |-> Z4, pad |-> 0],
                         [port |-> 1, flow |-> <<0, 0, 0, 9>>, scope |-> <<1, 0, 0, 128>>, pad |-> 90]} ELSE {})
PortArgs == {0, 1, 255, 256, 5353, 65535}
Fams == {"4", "6"}
NG(fam) == IF fam = "4" THEN 2 ELSE 8
MaxLen(fam) == 16 * NG(fam)
Samples(fam) == IF fam = "4" THEN Sample4 ELSE Sample6

\* the abstract socket address: an AF_INET address has no flowinfo / scope id field (the bytes are padding there)
SA(f, a, fr) == [fam |-> f, addr |-> a, port |-> fr.port,
                 flow |-> IF f = "6" THEN fr.flow ELSE Z4, scope |-> IF f = "6" THEN fr.scope ELSE Z4, pad |-> fr.pad]
AllSA == {SA(f, a, fr) : f \in {"4"}, a \in Sample4, fr \in Frames} \cup {SA(f, a, fr) : f \in {"6"}, a \in Sample6, fr \in Frames}

\* ---- reference: what each operation does to the record
TruncLen(s, l) == IF l <= MaxLen(s.fam) THEN [s EXCEPT !.addr = Truncate(s.addr, l)] ELSE s
PortSet(s, p)  == [s EXCEPT !.port = p]
AddrSet(s, a)  == [s EXCEPT !.addr = a]
InitSA(f, a, p) == [fam |-> f, addr |-> a, port |-> p, flow |-> Z4, scope |-> Z4, pad |-> 0]

Init == c = [k |-> "start"]
NextTL == c.k = "start" /\ \E s \in AllSA : \E l \in (0..(MaxLen(s.fam) + 2)) \cup {255, 65535} : c' = [k |-> "tl", s |-> s, l |-> l]
NextPS == c.k = "start" /\ \E s \in AllSA : \E p \in PortArgs : c' = [k |-> "ps", s |-> s, p |-> p]
NextAS == c.k = "start" /\ \E s \in AllSA : \E a \in Samples(s.fam) : c' = [k |-> "as", s |-> s, a |-> a]
\* sa_init into a storage that holds the pattern s.pad everywhere: s is the record that must come out
NextSI == c.k = "start" /\ \E f \in Fams : \E a \in Samples(f), p \in PortArgs, fr \in Frames :
              c' = [k |-> "si", s |-> [InitSA(f, a, p) EXCEPT !.pad = fr.pad]]
\* sa_copy of s over a storage that holds the pattern dpad everywhere
NextCP == c.k = "start" /\ \E s \in AllSA : \E fr \in Frames : fr.pad # s.pad /\ c' = [k |-> "cp", s |-> s, dpad |-> fr.pad]
Next == NextTL \/ NextPS \/ NextAS \/ NextSI \/ NextCP
Spec == Init /\ [][Next]_c

\* ---- algebra of the reference (checked by TLC on every case)
OnlyAddr(s, t) == t = [s EXCEPT !.addr = t.addr]
OnlyPort(s, t) == t = [s EXCEPT !.port = t.port]
TruncFrame == c.k = "tl" => LET t == TruncLen(c.s, c.l) IN
                 /\ OnlyAddr(c.s, t)
                 /\ c.l <= MaxLen(c.s.fam) => t.addr = AndSeq(c.s.addr, Len2Mask(c.l, NG(c.s.fam)))
                 /\ TruncLen(t, c.l) = t
FullLenIsIdentity == c.k = "tl" => TruncLen(c.s, MaxLen(c.s.fam)) = c.s
ZeroLenKeepsFrame == c.k = "tl" => TruncLen(c.s, 0) = [c.s EXCEPT !.addr = Len2Mask(0, NG(c.s.fam))]
PortFrame == c.k = "ps" => /\ OnlyPort(c.s, PortSet(c.s, c.p))
                           /\ PortSet(PortSet(c.s, c.p), c.s.port) = c.s
                           /\ PortSet(c.s, c.s.port) = c.s
AddrFrame == c.k = "as" => /\ OnlyAddr(c.s, AddrSet(c.s, c.a))
                           /\ AddrSet(AddrSet(c.s, c.a), c.s.addr) = c.s
InitFrame == c.k = "si" => LET t == [c.s EXCEPT !.pad = 0] IN
                 t = AddrSet(PortSet(InitSA(c.s.fam, Len2Mask(0, NG(c.s.fam)), 0), c.s.port), c.s.addr)

\* expect: the record after the call; addrspec = FALSE: the address part is Unspecified (length out of range: only
\* the frame is demanded);  zeroed: every byte of the family's sockaddr that is not a field is zero (sa_init);
\* tailspec: the bytes of the storage behind the family's sockaddr must stay as they were (operations on an existing
\* address); FALSE for sa_init / sa_copy, which produce a new address: what lies behind it is not specified
E(after, addrspec, zeroed, tailspec) == [after |-> after, addrspec |-> addrspec, zeroed |-> zeroed, tailspec |-> tailspec]
Expect == IF c.k = "tl" THEN E(TruncLen(c.s, c.l), c.l <= MaxLen(c.s.fam), FALSE, TRUE)
          ELSE IF c.k = "ps" THEN E(PortSet(c.s, c.p), TRUE, FALSE, TRUE)
          ELSE IF c.k = "as" THEN E(AddrSet(c.s, c.a), TRUE, FALSE, TRUE)
          ELSE IF c.k = "si" THEN E([c.s EXCEPT !.pad = 0], TRUE, TRUE, FALSE)
          ELSE E(c.s, TRUE, FALSE, FALSE)
Emit == IF c.k = "start" THEN TRUE ELSE PrintT(ToJson([in |-> c, expect |-> Expect]))
=============================================================================
