SPECIFICATION Spec
CONSTANTS
  Deep = TRUE
INVARIANTS Inverse InverseM OddIsNotMask TruncIsAnd TruncIdem MemberIff NetText
CONSTRAINT Emit
CHECK_DEADLOCK FALSE
