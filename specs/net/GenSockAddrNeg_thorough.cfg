SPECIFICATION Spec
CONSTANTS
  EditChars = {48, 49, 53, 54, 57, 97, 102, 103, 70, 58, 46, 91, 93, 32, 9, 47, 45, 120}
  BaseSel = {1, 2, 3, 4, 5, 6, 7, 8, 9, 10, 11, 12, 13, 14, 15, 16, 17, 18, 19, 20, 21, 22}
INVARIANTS BasesValid Canonical Agree
CONSTRAINT Emit
CHECK_DEADLOCK FALSE
