SPECIFICATION Spec
CONSTANTS
  LabelLens = {61, 62, 63}
  MaxLabels = 4
INVARIANTS SplitAgrees RoundTrip SizeLaw ValidIsHost
CONSTRAINT Emit
CHECK_DEADLOCK FALSE
