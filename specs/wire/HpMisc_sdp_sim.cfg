SPECIFICATION Spec
CONSTANTS
  Tokens <- SdpTokens
  Pres <- SdpPres
  MaxLen = 10
INVARIANTS SizeLaw ByteLaw ClassLaw
CONSTRAINT Emit
CHECK_DEADLOCK FALSE
