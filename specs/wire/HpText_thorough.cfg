SPECIFICATION Spec
CONSTANTS
  Fams <- FamsThorough
INVARIANTS SizeLaw ByteLaw ClassLaw
CONSTRAINT Emit
CHECK_DEADLOCK FALSE
