SPECIFICATION Spec
CONSTANTS
  Tokens <- WspTokens
  Pres <- NoPres
  MaxLen = 12
INVARIANTS SizeLaw ByteLaw ClassLaw
CONSTRAINT Emit
CHECK_DEADLOCK FALSE
