------------------------------- MODULE HpDns -------------------------------
(* C13 (hostile packets) - reference semantics of DNS name expansion.

   A message is a sequence of byte values 0..255; offsets are 0-based as in the C code, so the
   byte at offset p is msg[p+1].  Walk() is RFC 1035 section 4.1.4 name expansion with the
   checks that include/proto/dns.h documents next to the code:
     - a compression pointer must point inside the message, not into the 12 byte header and
       not to itself ("pointer OK: in buf range, not pointed to self"),
     - at most MaxJumps (DNS_MAX_NAME_CYCLES = 64) pointers are followed, the 64th gives ELOOP,
     - label types 01 and 10 are not supported.
   What the reference adds is only what the property text asks for: EVERY byte that is looked
   at lies inside the received message (offset < Len(msg)); whenever expansion would need a
   byte at or after Len(msg) the result is an error.

   Result of a walk:
     ok    TRUE  -> name = the expanded name as the library prints it (labels joined by '.',
                    no trailing dot, no NUL), FALSE -> an error must be reported
     why   class of the input, used as the <shape> part of finding keys
     steps number of items visited, rd = 1 + highest offset read (0 = nothing read)        *)
EXTENDS Naturals, Sequences

HdrSize  == 12
MaxJumps == 64
Dot      == 46

Max(a, b) == IF a > b THEN a ELSE b
Res(ok, why, name, jumps, steps, rd) ==
   [ok |-> ok, why |-> why, name |-> name, jumps |-> jumps, steps |-> steps, rd |-> rd]

RECURSIVE WalkFrom(_, _, _, _, _, _)
WalkFrom(msg, p, jumps, acc, steps, rd) ==
   LET n == Len(msg) IN
   IF p >= n
   THEN Res(FALSE, IF steps = 0 THEN "start-at-end" ELSE "no-terminator", acc, jumps, steps, rd)
   ELSE
   LET b   == msg[p + 1]
       rd1 == Max(rd, p + 1)
       typ == b \div 64
   IN
   IF typ = 3 THEN
        IF p + 1 >= n THEN Res(FALSE, "ptr-cut", acc, jumps, steps + 1, rd1)
        ELSE LET t   == (b % 64) * 256 + msg[p + 2]
                 rd2 == Max(rd1, p + 2)
             IN IF t > n       THEN Res(FALSE, "ptr-beyond", acc, jumps, steps + 1, rd2)
                ELSE IF t = n  THEN Res(FALSE, "ptr-to-end", acc, jumps, steps + 1, rd2)
                ELSE IF t < HdrSize THEN Res(FALSE, "ptr-into-hdr", acc, jumps, steps + 1, rd2)
                ELSE IF t = p  THEN Res(FALSE, "ptr-self", acc, jumps, steps + 1, rd2)
                ELSE IF jumps + 1 >= MaxJumps
                               THEN Res(FALSE, "ptr-loop", acc, jumps + 1, steps + 1, rd2)
                ELSE WalkFrom(msg, t, jumps + 1, acc, steps + 1, rd2)
   ELSE IF typ # 0 THEN Res(FALSE, "rsv-label", acc, jumps, steps + 1, rd1)
   ELSE IF b = 0 THEN
        Res(TRUE, IF jumps = 0 THEN "plain" ELSE "compressed",
            IF Len(acc) = 0 THEN acc ELSE SubSeq(acc, 1, Len(acc) - 1), jumps, steps + 1, rd1)
   ELSE IF p + 1 + b > n THEN Res(FALSE, "label-cut", acc, jumps, steps + 1, rd1)
   ELSE WalkFrom(msg, p + 1 + b, jumps, acc \o SubSeq(msg, p + 2, p + 1 + b) \o <<Dot>>,
                 steps + 1, Max(rd1, p + 1 + b))

(* coarse class of a walk result, the <shape> of finding keys: what a parser has to notice *)
Coarse(why) == CASE why \in {"label-cut", "no-terminator"} -> "runs-past-end"   \* needs bytes after the message
                 [] why \in {"start-at-end", "ptr-to-end"} -> "at-end"            \* starts exactly at msg_size
                 [] OTHER -> why

(* the library refuses offsets inside the header and beyond the message before it looks at anything *)
Walk(msg, off) ==
   IF Len(msg) < HdrSize THEN Res(FALSE, "short-msg", <<>>, 0, 0, 0)
   ELSE IF off < HdrSize \/ off > Len(msg) THEN Res(FALSE, "bad-offset", <<>>, 0, 0, 0)
   ELSE WalkFrom(msg, off, 0, <<>>, 0, 0)

(* analytic bound used by the invariant: at most MaxJumps pointers, between two of them at most
   Len(msg) labels (each label moves forward by at least one byte) *)
StepBound(msg) == MaxJumps * (Len(msg) + 1)
WalkInside(msg, r) == r.rd <= Len(msg) /\ r.steps <= StepBound(msg) /\ r.jumps <= MaxJumps

(* SequenceOfLabelsGetSize(): where the encoded name that starts at offset p ends (compression is
   not followed: a pointer or a label of type 01/10 ends the name).  ok = FALSE when the
   encoding is not complete inside the message. *)
RECURSIVE LabelsEnd(_, _)
LabelsEnd(msg, p) ==
   LET n == Len(msg) IN
   IF p >= n THEN [ok |-> FALSE, end |-> p]
   ELSE LET b == msg[p + 1]  typ == b \div 64 IN
        IF typ = 3 THEN [ok |-> p + 2 <= n, end |-> p + 2]
        ELSE IF typ # 0 THEN [ok |-> TRUE, end |-> p + 1]
        ELSE IF b = 0 THEN [ok |-> TRUE, end |-> p + 1]
        ELSE IF p + 1 + b > n THEN [ok |-> FALSE, end |-> p]
        ELSE LabelsEnd(msg, p + 1 + b)

(* Structural validation of a whole message (dns_msg_info_get / dns_msg_validate): the header
   counts drive a walk over questions (name + 4 bytes) and resource records (name + 10 bytes +
   rdlength bytes); every record must lie inside the message.  offs = <<qd, an, ns, ar, end>>. *)
U16(msg, p) == msg[p + 1] * 256 + msg[p + 2]
VRes(ok, why, offs) == [ok |-> ok, why |-> why, offs |-> offs]

RECURSIVE VWalk(_, _, _, _, _)
VWalk(msg, off, sec, left, offs) ==       \* sec 1 = questions, 2..4 = RR sections
   LET n == Len(msg) IN
   IF left = 0 THEN
        IF sec = 4 THEN VRes(TRUE, "ok", Append(offs, off))
        ELSE VWalk(msg, off, sec + 1, U16(msg, 4 + 2 * (sec + 1) - 2), Append(offs, off))
   ELSE LET e == LabelsEnd(msg, off) IN
        IF ~e.ok THEN VRes(FALSE, "name-cut", offs)
        ELSE IF sec = 1 THEN
             IF e.end + 4 > n THEN VRes(FALSE, "q-fixed-cut", offs)
             ELSE VWalk(msg, e.end + 4, sec, left - 1, offs)
        ELSE IF e.end + 10 > n THEN VRes(FALSE, "rr-fixed-cut", offs)
        ELSE LET rdl == U16(msg, e.end + 8) IN
             IF e.end + 10 + rdl > n THEN VRes(FALSE, "rr-data-cut", offs)
             ELSE VWalk(msg, e.end + 10 + rdl, sec, left - 1, offs)

(* class of ONE record that starts at offset off, read as a question (isq) or as a resource record *)
RecClass(msg, off, isq) ==
   LET n == Len(msg)  e == LabelsEnd(msg, off) IN
   IF off >= n THEN "at-end"
   ELSE IF ~e.ok THEN "name-cut"
   ELSE IF isq THEN (IF e.end + 4 > n THEN "q-fixed-cut" ELSE "fits")
   ELSE IF e.end + 10 > n THEN "rr-fixed-cut"
   ELSE IF e.end + 10 + U16(msg, e.end + 8) > n THEN "rr-data-cut" ELSE "fits"

Validate(msg) ==
   IF Len(msg) < HdrSize THEN VRes(FALSE, "hdr-short", <<>>)
   ELSE VWalk(msg, HdrSize, 1, U16(msg, 4), <<HdrSize>>)
=============================================================================
