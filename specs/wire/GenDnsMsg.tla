----------------------------- MODULE GenDnsMsg -----------------------------
(* Generator + model check of the DNS message builder (C15).  State = a history of builder steps applied
   to an initially empty buffer of capacity cap, the resulting message bytes, and the outcome of every
   step.  A step that does not succeed ends the history (the buffer is unchanged, so continuing would only
   repeat a shorter history); this way the "does not fit" path is reached at every position of every
   reachable message.  Sections are filled in RFC order: header, questions, answers, authority, additional.

   Checked by TLC on the specification for every state:  Parse(Build(h)) = h (names, types, classes, TTLs,
   data, counters), Validate(Build(h)), and size accounting.  Every state is emitted as a JSON case that
   the rig replays on the real builder/parser. *)
EXTENDS DnsMsg, TLC, Json
CONSTANTS Caps,         \* buffer capacities
          Ids, Flags,   \* header id / flags (two octets each)
          QTpl,         \* question templates  [ll, t, c]            (ll = label lengths of the name)
          RRTpl,        \* RR templates        [ll, t, c, ttl, rd]
          OptTpl,       \* OPT templates       [udp, ver, exrc, exfl, rd]
          MaxOps,
          Chain,        \* TRUE: only histories that repeat one kind of step (long runs: the 16-bit counters carry)
          EmitFrom      \* emit only histories of at least this many steps
VARIABLES cap, hist, msg, phase, alive,
          alt        \* for an "unspec" last step: the message a label-by-label encoder would give (else << >>)
vars == <<cap, hist, msg, phase, alive, alt>>

\* phase: 0 nothing, 1 header done / questions, 2 answers, 3 authority, 4 additional
SecPhase(sec) == CASE sec = "an" -> 2 [] sec = "ns" -> 3 [] sec = "ar" -> 4

Init == cap \in Caps /\ hist = << >> /\ msg = << >> /\ phase = 0 /\ alive = TRUE /\ alt = << >>

ChainOk(op) == IF ~Chain THEN TRUE ELSE IF Len(hist) < 2 THEN TRUE
               ELSE (hist[Len(hist)].op = op.op /\ (IF op.op = "rr" THEN hist[Len(hist)].sec = op.sec ELSE TRUE))
Record(op, r, ph) ==
   /\ ChainOk(op)
   /\ hist' = Append(hist, op @@ [rc |-> r.rc, need |-> r.need])
   /\ msg' = IF r.rc = "ok" THEN r.msg ELSE msg
   /\ alt' = IF r.rc = "unspec" THEN r.msg ELSE << >>
   /\ alive' = (r.rc = "ok")
   /\ phase' = IF r.rc = "ok" THEN ph ELSE phase
   /\ UNCHANGED cap

DoHdr == /\ phase = 0
         /\ \E id \in Ids, fl \in Flags :
               Record([op |-> "hdr", id |-> id, flags |-> fl], HdrCreate(cap, id, fl), 1)
DoQ   == /\ phase = 1
         /\ \E q \in QTpl : LET nm == NameOfLens(q.ll) IN
               Record([op |-> "q", name |-> nm, t |-> q.t, c |-> q.c], AddQuestion(msg, cap, nm, q.t, q.c), 1)
DoRR  == /\ phase >= 1
         /\ \E sec \in {"an", "ns", "ar"}, r \in RRTpl :
               /\ SecPhase(sec) >= phase
               /\ LET nm == NameOfLens(r.ll) IN
                  Record([op |-> "rr", sec |-> sec, name |-> nm, t |-> r.t, c |-> r.c, ttl |-> r.ttl, rd |-> r.rd],
                         AddRR(msg, cap, sec, nm, r.t, r.c, r.ttl, r.rd), SecPhase(sec))
DoOpt == /\ phase >= 1
         /\ \E o \in OptTpl :
               Record([op |-> "opt", udp |-> o.udp, ver |-> o.ver, exrc |-> o.exrc, exfl |-> o.exfl, rd |-> o.rd],
                      AddOptRR(msg, cap, o.udp, o.ver, o.exrc, o.exfl, o.rd), 4)
Next == alive /\ Len(hist) < MaxOps /\ (DoHdr \/ DoQ \/ DoRR \/ DoOpt)
Spec == Init /\ [][Next]_vars

(* ---- the abstract content of a history: what a reader of the message must get back *)
OkOps == SelectSeq(hist, LAMBDA h : h.rc = "ok")
QOf(h) == [name |-> h.name, t |-> h.t, c |-> h.c]
RROf(h) == IF h.op = "opt"
           THEN [name |-> << >>, t |-> TypeOPT, c |-> h.udp, ttl |-> << h.exrc * 256 + h.ver, h.exfl[1] * 256 + h.exfl[2] >>, rd |-> h.rd]
           ELSE [name |-> h.name, t |-> h.t, c |-> h.c, ttl |-> h.ttl, rd |-> h.rd]
RECURSIVE Collect(_, _, _, _)
Collect(s, i, sec, acc) ==
   IF i > Len(s) THEN acc
   ELSE IF sec = "qd" /\ s[i].op = "q" THEN Collect(s, i + 1, sec, Append(acc, QOf(s[i])))
   ELSE IF (s[i].op = "rr" /\ s[i].sec = sec) \/ (s[i].op = "opt" /\ sec = "ar") THEN Collect(s, i + 1, sec, Append(acc, RROf(s[i])))
   ELSE Collect(s, i + 1, sec, acc)
Content(sec) == Collect(OkOps, 1, sec, << >>)

(* ---- constant values for the configurations (a .cfg file cannot hold tuples/records) *)
A1 == [ll |-> <<1>>, t |-> 1, c |-> 1]                                  \* "x"    A  IN
Q2 == [ll |-> <<2, 1>>, t |-> 255, c |-> 255]                           \* "xy.z" ANY ANY
QBad == [ll |-> <<1, 0, 1>>, t |-> 1, c |-> 1]                          \* empty middle label
RA == [ll |-> <<1>>, t |-> 1, c |-> 1, ttl |-> <<1, 20864>>, rd |-> <<192, 0, 2, 1>>]        \* TTL 86400
RX == [ll |-> <<1, 2>>, t |-> 65280, c |-> 32769, ttl |-> <<65535, 65534>>, rd |-> << >>]    \* extreme fields, empty RDATA
RT == [ll |-> <<2>>, t |-> 16, c |-> 1, ttl |-> <<0, 0>>, rd |-> <<6, 118, 61, 115, 112, 102, 49>>] \* TXT
O0 == [udp |-> 4096, ver |-> 0, exrc |-> 0, exfl |-> <<128, 0>>, rd |-> << >>]               \* what dns_resolv.c sends (DO bit)
O1 == [udp |-> 1232, ver |-> 0, exrc |-> 1, exfl |-> <<0, 0>>, rd |-> <<0, 10, 0, 1, 7>>]    \* BADVERS-style reply with one option
QuickIds == {<<18, 52>>}
QuickFlags == {<<1, 16>>, <<129, 128>>}
QuickQ == {A1, Q2, QBad}
QuickRR == {RA, RX}
QuickOpt == {O0, O1}
ThorIds == {<<18, 52>>, <<255, 0>>}
ThorQ == {A1, Q2, QBad, [ll |-> <<1, 1, 1>>, t |-> 28, c |-> 1]}
ThorRR == {RA, RX, RT}
\* label / name length boundaries: 63 | 64 octet labels, 253 | 254 | 255 octet names
L63 == [ll |-> <<63>>, t |-> 1, c |-> 1]
L64 == [ll |-> <<64>>, t |-> 1, c |-> 1]
N253 == [ll |-> <<63, 63, 63, 61>>, t |-> 1, c |-> 1]
N254 == [ll |-> <<63, 63, 63, 62>>, t |-> 1, c |-> 1]
N255 == [ll |-> <<63, 63, 63, 63>>, t |-> 1, c |-> 1]
WithRR(q) == q @@ [ttl |-> <<0, 300>>, rd |-> <<1, 2>>]
BoundQ == {L63, L64, N253, N254, N255, A1}
BoundRR == {WithRR(L63), WithRR(L64), WithRR(N253), WithRR(N254), WithRR(N255)}
BoundOpt == {O0}
ChainQ == {A1}
ChainRR == {[ll |-> <<1>>, t |-> 1, c |-> 1, ttl |-> <<0, 1>>, rd |-> << >>]}

\* Parse(Build(h)) = h
ParseBack == Len(OkOps) > 0 => LET parsed == Parse(msg) IN
   /\ parsed.ok
   /\ parsed.id = OkOps[1].id /\ parsed.flags = OkOps[1].flags
   /\ parsed.qd = Content("qd") /\ parsed.an = Content("an")
   /\ parsed.ns = Content("ns") /\ parsed.ar = Content("ar")
\* Validate(Build(h)) = ok, and the size the builder reported is the size of the message
Valid == Len(OkOps) > 0 => Validate(msg) /\ OkOps[Len(OkOps)].need = Len(msg)
\* the buffer is never exceeded and a refused step is refused for a reason
Fits == Len(msg) <= cap /\ Len(alt) <= cap
Refusal == \A i \in 1..Len(hist) : hist[i].rc \in {"nospace", "fail"} => hist[i].need > cap
NamesValid == \A i \in 1..Len(OkOps) : OkOps[i].op \in {"q", "rr"} => ValidHostName(OkOps[i].name)

\* long runs: the (quadratic) read-back is only evaluated where the histories are emitted
ChainInv == IF Len(hist) < EmitFrom THEN TRUE ELSE (ParseBack /\ Valid /\ Fits)
last == hist[Len(hist)]
Emit == Len(hist) < EmitFrom \/ PrintT(ToJson([cap |-> cap, ops |-> hist, msg |-> msg, alt |-> alt,
                       parsed |-> IF Len(hist) = 0 THEN Bad
                                  ELSE IF last.rc = "ok" THEN Parse(msg)
                                  ELSE IF last.rc = "unspec" THEN Parse(alt) ELSE Bad]))
=============================================================================
