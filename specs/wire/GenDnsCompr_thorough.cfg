SPECIFICATION Spec
CONSTANTS
  Counts = {1, 2, 3, 4, 31, 32, 33, 62, 63, 64, 65, 66, 96, 126, 127}
INVARIANTS RoundTrip BuilderAgrees Compresses NamesValid Limits
CONSTRAINT Emit
CHECK_DEADLOCK FALSE
