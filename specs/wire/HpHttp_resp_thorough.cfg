SPECIFICATION Spec
CONSTANTS
  Tokens <- RespTokens
  Pres <- RespPres
  MaxLen = 6
INVARIANTS SizeLaw ByteLaw ClassLaw
CONSTRAINT Emit
CHECK_DEADLOCK FALSE
