------------------------------- MODULE HpTok -------------------------------
(* C13: generic generator for the text protocols (HTTP pieces, SDP).  A packet is an optional
   fixed preamble followed by a sequence of TOKENS; every token is a short byte string that is
   meaningful to the scanner under test (delimiters, halves of delimiters, escapes cut short,
   numbers that overflow).  Because the halves of multi-byte tokens are tokens themselves, the
   reachable states contain every truncation of every generated packet.
   Tokens: sequence of records [n |-> name, b |-> bytes, hot |-> BOOLEAN]; `hot` marks tokens
   whose mere presence defines the class of the input (e.g. a chunk size that overflows).
   Class (the <shape> of finding keys): "has:<first hot token>", else "ends:<last token>".   *)
EXTENDS Naturals, Sequences, TLC, Json
CONSTANTS Tokens, Pres, MaxLen
VARIABLES pre, its, cs

RECURSIVE Bytes(_)
Bytes(s) == IF s = <<>> THEN <<>> ELSE Tokens[Head(s)].b \o Bytes(Tail(s))
RECURSIVE Names(_)
Names(s) == IF s = <<>> THEN <<>> ELSE <<Tokens[Head(s)].n>> \o Names(Tail(s))
RECURSIVE FirstHot(_)
FirstHot(s) == IF s = <<>> THEN "" ELSE IF Tokens[Head(s)].hot THEN Tokens[Head(s)].n ELSE FirstHot(Tail(s))

MkCase(p, s) ==
   LET h == FirstHot(s) IN
   [pre |-> Pres[p].n, items |-> Names(s), bytes |-> Pres[p].b \o Bytes(s),
    kind |-> IF h # "" THEN "has" ELSE "ends",
    tok  |-> IF h # "" THEN h ELSE IF s = <<>> THEN Pres[p].n ELSE Tokens[s[Len(s)]].n]

Init == /\ pre \in 1..Len(Pres) /\ its = <<>> /\ cs = MkCase(pre, <<>>)
Next == /\ Len(its) < MaxLen
        /\ \E t \in 1..Len(Tokens) : its' = Append(its, t)
        /\ pre' = pre
        /\ cs' = MkCase(pre, its')
Spec == Init /\ [][Next]_<<pre, its, cs>>

RECURSIVE SumLen(_)
SumLen(s) == IF s = <<>> THEN 0 ELSE Len(Tokens[Head(s)].b) + SumLen(Tail(s))
SizeLaw  == Len(cs.bytes) = Len(Pres[pre].b) + SumLen(its)
ByteLaw  == \A i \in 1..Len(cs.bytes) : cs.bytes[i] \in 0..255
ClassLaw == /\ cs.kind \in {"has", "ends"}
            /\ (cs.kind = "ends" /\ its # <<>>) => cs.tok = Tokens[its[Len(its)]].n
Emit == PrintT(ToJson(cs))
=============================================================================
