------------------------------- MODULE HpTok -------------------------------
(* C13: generic generator for the text protocols (HTTP pieces, SDP).  A packet is an optional
   fixed preamble followed by a sequence of TOKENS; every token is a short byte string that is
   meaningful to the scanner under test (delimiters, halves of delimiters, escapes cut short,
   numbers that overflow).  Because the halves of multi-byte tokens are tokens themselves, the
   reachable states contain every truncation of every generated packet.
   Fams: sequence of families [name, toks, pres, maxlen] - one per function family under test;
     toks: sequence of [n |-> name, b |-> bytes, hot |-> BOOLEAN]; `hot` marks tokens whose mere
           presence defines the class of the input (e.g. a chunk size that overflows);
     pres: sequence of [n |-> name, b |-> bytes] (preambles).
   Class (the <shape> of finding keys): "has:<first hot token>", else "ends:<last token>".   *)
EXTENDS Naturals, Sequences, TLC, Json
CONSTANTS Fams
VARIABLES fam, pre, its, cs

Toks(f) == Fams[f].toks
RECURSIVE Bytes(_, _)
Bytes(f, s) == IF s = <<>> THEN <<>> ELSE Toks(f)[Head(s)].b \o Bytes(f, Tail(s))
RECURSIVE Names(_, _)
Names(f, s) == IF s = <<>> THEN <<>> ELSE <<Toks(f)[Head(s)].n>> \o Names(f, Tail(s))
RECURSIVE FirstHot(_, _)
FirstHot(f, s) == IF s = <<>> THEN "" ELSE IF Toks(f)[Head(s)].hot THEN Toks(f)[Head(s)].n ELSE FirstHot(f, Tail(s))

MkCase(f, p, s) ==
   LET h == FirstHot(f, s)  P == Fams[f].pres[p] IN
   [fam |-> Fams[f].name, pre |-> P.n, items |-> Names(f, s), bytes |-> P.b \o Bytes(f, s),
    kind |-> IF h # "" THEN "has" ELSE "ends",
    tok  |-> IF h # "" THEN h ELSE IF s = <<>> THEN P.n ELSE Toks(f)[s[Len(s)]].n]

Init == /\ fam \in 1..Len(Fams) /\ pre \in 1..Len(Fams[fam].pres) /\ its = <<>>
        /\ cs = MkCase(fam, pre, <<>>)
Next == /\ Len(its) < Fams[fam].maxlen
        /\ \E t \in 1..Len(Toks(fam)) : its' = Append(its, t)
        /\ UNCHANGED <<fam, pre>>
        /\ cs' = MkCase(fam, pre, its')
Spec == Init /\ [][Next]_<<fam, pre, its, cs>>

RECURSIVE SumLen(_, _)
SumLen(f, s) == IF s = <<>> THEN 0 ELSE Len(Toks(f)[Head(s)].b) + SumLen(f, Tail(s))
SizeLaw  == Len(cs.bytes) = Len(Fams[fam].pres[pre].b) + SumLen(fam, its)
ByteLaw  == \A i \in 1..Len(cs.bytes) : cs.bytes[i] \in 0..255
ClassLaw == /\ cs.kind \in {"has", "ends"}
            /\ (cs.kind = "ends" /\ its # <<>>) => cs.tok = Toks(fam)[its[Len(its)]].n
Emit == PrintT(ToJson(cs))
=============================================================================
