------------------------------- MODULE HpTok -------------------------------
(* C13: generic generator for the text protocols (HTTP pieces, SDP).  A packet is an optional
   fixed preamble followed by a sequence of TOKENS; every token is a short byte string that is
   meaningful to the scanner under test (delimiters, halves of delimiters, escapes cut short,
   numbers that overflow).  Because the halves of multi-byte tokens are tokens themselves, the
   reachable states contain every truncation of every generated packet.
   Fams: sequence of families [name, toks, pres, maxlen, tail, tailcls] - one per function family;
     toks: sequence of [n |-> name, b |-> bytes, c |-> class, hot |-> BOOLEAN]; `hot` marks tokens
           whose mere presence defines the class of the input (a chunk size that overflows);
     pres: sequence of [n |-> name, b |-> bytes, c |-> class] (preambles);
     tail, tailcls: a token of class `tailcls` among the last `tail` elements defines the class
           (a '%' within the last two bytes, a CRLF right before the end).
   Class of an input (the <shape> of finding keys):
     "has:<class of the first hot token>", else "tail:<tailcls>", else "ends:<class of the last element>". *)
EXTENDS Naturals, Sequences, TLC, Json
CONSTANTS Fams
VARIABLES fam, pre, its, cs

Toks(f) == Fams[f].toks
RECURSIVE Bytes(_, _)
Bytes(f, s) == IF s = <<>> THEN <<>> ELSE Toks(f)[Head(s)].b \o Bytes(f, Tail(s))
RECURSIVE Names(_, _)
Names(f, s) == IF s = <<>> THEN <<>> ELSE <<Toks(f)[Head(s)].n>> \o Names(f, Tail(s))
RECURSIVE FirstHot(_, _)
FirstHot(f, s) == IF s = <<>> THEN "" ELSE IF Toks(f)[Head(s)].hot THEN Toks(f)[Head(s)].c ELSE FirstHot(f, Tail(s))
RECURSIVE Classes(_, _)
Classes(f, s) == IF s = <<>> THEN <<>> ELSE <<Toks(f)[Head(s)].c>> \o Classes(f, Tail(s))

Shape(f, p, s) ==
   LET h  == FirstHot(f, s)
       cl == <<Fams[f].pres[p].c>> \o Classes(f, s)          \* the preamble counts as the first element
       n  == Len(cl)
       lo == IF n > Fams[f].tail THEN n - Fams[f].tail + 1 ELSE 1
   IN IF h # "" THEN [kind |-> "has", tok |-> h]
      ELSE IF Fams[f].tailcls # "" /\ \E i \in lo..n : cl[i] = Fams[f].tailcls
           THEN [kind |-> "tail", tok |-> Fams[f].tailcls]
      ELSE [kind |-> "ends", tok |-> cl[n]]

MkCase(f, p, s) ==
   LET sh == Shape(f, p, s)  P == Fams[f].pres[p] IN
   [fam |-> Fams[f].name, pre |-> P.n, items |-> Names(f, s), bytes |-> P.b \o Bytes(f, s),
    kind |-> sh.kind, tok |-> sh.tok]

Init == /\ fam \in 1..Len(Fams) /\ pre \in 1..Len(Fams[fam].pres) /\ its = <<>>
        /\ cs = MkCase(fam, pre, <<>>)
Next == /\ Len(its) < Fams[fam].maxlen
        /\ \E t \in 1..Len(Toks(fam)) : its' = Append(its, t)
        /\ UNCHANGED <<fam, pre>>
        /\ cs' = MkCase(fam, pre, its')
Spec == Init /\ [][Next]_<<fam, pre, its, cs>>

RECURSIVE SumLen(_, _)
SumLen(f, s) == IF s = <<>> THEN 0 ELSE Len(Toks(f)[Head(s)].b) + SumLen(f, Tail(s))
SizeLaw  == Len(cs.bytes) = Len(Fams[fam].pres[pre].b) + SumLen(fam, its)
ByteLaw  == \A i \in 1..Len(cs.bytes) : cs.bytes[i] \in 0..255
ClassLaw == /\ cs.kind \in {"has", "tail", "ends"}
            /\ (cs.kind = "ends" /\ its # <<>>) => cs.tok = Toks(fam)[its[Len(its)]].c
            /\ (cs.kind = "tail") => cs.tok = Fams[fam].tailcls
Emit == PrintT(ToJson(cs))
=============================================================================
