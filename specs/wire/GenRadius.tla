----------------------------- MODULE GenRadius -----------------------------
(* Generator + model check of the RADIUS packet builder (C15): histories  init, add*, ...  on a buffer of
   capacity cap.  A step that is not accepted ends the history.  TLC checks on the specification that the
   attribute list read back from the built octets is the list of accepted steps, that the Length field
   is the size, that the buffer is never exceeded and that a packet built through the typed steps is
   well formed exactly when the attributes RFC 5997 / RFC 3579 make mandatory are present.  Every state is
   emitted as a JSON case that the rig replays on radius_pkt_init / radius_pkt_attr_add* and reads back with
   radius_pkt_chk / radius_pkt_attr_get_data_ptr_raw / radius_pkt_attr_find / radius_pkt_attr_get_data_to_buf. *)
EXTENDS Radius, TLC, Json
CONSTANTS Caps, Inits, Steps, InitOnly, MaxOps
VARIABLES cap, hist, pkt, alive, alt
vars == <<cap, hist, pkt, alive, alt>>

\* deterministic non-zero filler for attribute values
RECURSIVE ValAcc(_, _, _, _)
ValAcc(t, n, j, acc) == IF j > n THEN acc ELSE ValAcc(t, n, j + 1, Append(acc, ((t * 13 + j * 7) % 251) + 1))
Val(t, n) == ValAcc(t, n, 1, << >>)
TestAuth == <<161,178,195,212,229,246,7,24,41,58,75,92,109,126,143,160>>

Init == cap \in Caps /\ hist = << >> /\ pkt = << >> /\ alive = TRUE /\ alt = << >>

Record(op, r) ==
   /\ hist' = Append(hist, op @@ [rc |-> r.rc])
   /\ pkt' = IF r.rc = "ok" THEN r.pkt ELSE pkt
   /\ alt' = IF r.rc = "unspec" THEN r.pkt ELSE << >>
   /\ alive' = (r.rc = "ok")
   /\ UNCHANGED cap

PortValue(port) == <<0, 0, port \div 256, port % 256>>        \* RFC 2865 5.5: four-octet integer
Apply(o) == CASE o.op = "add" -> AddAttr(pkt, cap, o.t, o.v)
              [] o.op = "raw" -> AddRaw(pkt, cap, o.t, o.v)
              [] o.op = "u32" -> AddAttr(pkt, cap, o.t, o.v)
              [] o.op = "addr" -> AddAttr(pkt, cap, IF o.fam = 4 THEN o.t4 ELSE o.t6, o.a)
              [] o.op = "port" -> AddAttr(pkt, cap, o.t, PortValue(o.port))
DoInit == /\ hist = << >>
          /\ \E i \in Inits \cup InitOnly :
                Record([op |-> "init", code |-> i.code, id |-> i.id, auth |-> TestAuth, hasauth |-> i.hasauth, deep |-> (i \in Inits)],
                       PktInit(cap, i.code, i.id, TestAuth, i.hasauth))
DoStep == /\ Len(hist) > 0 /\ hist[1].deep
          /\ \E o \in Steps : Record(o, Apply(o))
Next == alive /\ Len(hist) < MaxOps /\ (DoInit \/ DoStep)
Spec == Init /\ [][Next]_vars

(* ---- what the accepted steps say the packet contains *)
Staged(o) == CASE o.op = "add" /\ o.t = TUserPassword -> [t |-> o.t, v |-> o.v \o Zeros(PadLen(Len(o.v)) - Len(o.v))]
               [] o.op = "add" /\ o.t = TMsgAuth -> [t |-> o.t, v |-> Z16]
               [] o.op \in {"add", "raw", "u32"} -> [t |-> o.t, v |-> o.v]
               [] o.op = "addr" -> [t |-> IF o.fam = 4 THEN o.t4 ELSE o.t6, v |-> o.a]
               [] o.op = "port" -> [t |-> o.t, v |-> PortValue(o.port)]
RECURSIVE StagedList(_, _, _)
StagedList(h, i, acc) == IF i > Len(h) THEN acc
                         ELSE StagedList(h, i + 1, IF h[i].rc = "ok" /\ h[i].op # "init" THEN Append(acc, Staged(h[i])) ELSE acc)
TV(items) == [i \in 1..Len(items) |-> [t |-> items[i].t, v |-> items[i].v]]
Built == Len(hist) > 0 /\ hist[1].rc = "ok"

ListBack == Built => LET a == Attrs(pkt) IN a.ok /\ TV(a.items) = StagedList(hist, 1, << >>)
LenField == Built => RLen(pkt) = Len(pkt) /\ Len(pkt) <= cap /\ pkt[1] = hist[1].code /\ pkt[2] = hist[1].id
AuthField == Built => RAuth(pkt) = (IF hist[1].code \in ZeroAuthCodes \/ ~hist[1].hasauth THEN Z16 ELSE TestAuth)
NoRaw == \A i \in 1..Len(hist) : hist[i].op # "raw"
TypedIsWellFormed == (Built /\ NoRaw) =>
   LET a == Attrs(pkt).items IN
   WellFormed(pkt) <=> ((pkt[1] = CStatusServer \/ Len(OfType(a, TEapMessage)) > 0) => Len(OfType(a, TMsgAuth)) = 1)
Refusal == \A i \in 1..Len(hist) : hist[i].rc = "nospace" => (i = 1 \/ RLen(pkt) + 2 + Len(Staged(hist[i]).v) > cap)

ProbeTypes == <<1, 2, 26, 79, 80, 200>>
Emit == PrintT(ToJson(
   [cap |-> cap, ops |-> hist, pkt |-> pkt, alt |-> alt,
    wf |-> IF Built THEN WellFormed(pkt) ELSE FALSE,
    attrs |-> IF Built THEN TV(Attrs(pkt).items) ELSE << >>,
    find |-> IF Built THEN [k \in 1..Len(ProbeTypes) |-> FirstOff(Attrs(pkt).items, ProbeTypes[k])] ELSE << >>,
    concat |-> IF Built THEN [k \in 1..Len(ProbeTypes) |-> ValuesOf(Attrs(pkt).items, ProbeTypes[k])] ELSE << >>]))

(* ---- constant values for the configurations *)
I(c, h) == [code |-> c, id |-> (c * 7) % 256, hasauth |-> h]
A(t, n) == [op |-> "add", t |-> t, v |-> Val(t, n)]
AllInits == {I(c, TRUE) : c \in KnownCodes \cup {0, 6, 46, 255}} \cup {I(c, FALSE) : c \in {1, 2, 4, 5, 12, 40, 43, 45}}
\* value-size rules at both edges of every kind of attribute (min-1, min, max, max+1)
RuleSteps == {A(1, 0), A(1, 1), A(1, 253), A(1, 254), A(0, 4), A(3, 16), A(3, 17), A(3, 18), A(4, 3), A(4, 4), A(4, 5),
              A(5, 4), A(5, 5), A(26, 4), A(26, 5), A(60, 4), A(60, 5), A(55, 4), A(55, 8), A(95, 15), A(95, 16), A(95, 17),
              A(96, 7), A(96, 8), A(96, 9), A(97, 1), A(97, 2), A(97, 18), A(97, 19), A(241, 1), A(241, 2), A(245, 2), A(245, 3),
              A(79, 1), A(80, 0), A(80, 16), A(2, 0), A(2, 1), A(2, 15), A(2, 16), A(2, 17), A(2, 128), A(2, 129),
              [op |-> "u32", t |-> 5, v |-> <<0, 0, 6, 20>>], [op |-> "u32", t |-> 96, v |-> <<1, 2, 3, 4>>],
              [op |-> "addr", t4 |-> 4, t6 |-> 95, fam |-> 4, a |-> <<192, 0, 2, 9>>],
              [op |-> "addr", t4 |-> 4, t6 |-> 95, fam |-> 6, a |-> <<32, 1, 13, 184, 0, 0, 0, 0, 0, 0, 0, 0, 0, 0, 0, 1>>],
              [op |-> "port", t |-> 5, fam |-> 4, port |-> 1812], [op |-> "port", t |-> 5, fam |-> 6, port |-> 65535],
              [op |-> "raw", t |-> 4, v |-> Val(4, 5)]}
DeepInits == {I(1, TRUE), I(12, TRUE)}
DeepSteps == {A(1, 2), A(2, 5), A(3, 17), A(80, 0), A(79, 3), A(4, 4), A(4, 5),
              [op |-> "u32", t |-> 5, v |-> <<0, 0, 0, 7>>]}
ThorSteps == DeepSteps \cup {A(26, 5), A(97, 2)}
=============================================================================
