SPECIFICATION Spec
CONSTANTS
  Caps = {3390}
  Ids <- QuickIds
  Flags <- QuickIds
  QTpl <- ChainQ
  RRTpl <- ChainRR
  OptTpl <- BoundOpt
  Chain = TRUE
  EmitFrom = 255
  MaxOps = 259
INVARIANTS ChainInv
CONSTRAINT Emit
CHECK_DEADLOCK FALSE
