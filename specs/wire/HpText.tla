------------------------------- MODULE HpText -------------------------------
(* C13: family tables for the text-protocol generator - which alphabet (HpHttp, HpMisc) goes to
   which function family of the driver, and how long the token sequences get in each tier.
   One TLC run enumerates all families (the family is part of the initial state).          *)
EXTENDS HpTok, HpHttp, HpMisc

FamsQuick == <<
   [name |-> "http_req", toks |-> ReqTokens, pres |-> ReqPres, maxlen |-> 4],
   [name |-> "http_resp", toks |-> RespTokens, pres |-> RespPres, maxlen |-> 4],
   [name |-> "http_hdr", toks |-> HdrTokens, pres |-> HdrPres, maxlen |-> 4],
   [name |-> "http_qry", toks |-> QryTokens, pres |-> NoPres, maxlen |-> 6],
   [name |-> "http_chk", toks |-> ChkTokens, pres |-> NoPres, maxlen |-> 4],
   [name |-> "http_url", toks |-> UrlTokens, pres |-> NoPres, maxlen |-> 5],
   [name |-> "wsp", toks |-> WspTokens, pres |-> NoPres, maxlen |-> 5],
   [name |-> "sdp", toks |-> SdpTokens, pres |-> SdpPres, maxlen |-> 3] >>

FamsThorough == <<
   [name |-> "http_req", toks |-> ReqTokens, pres |-> ReqPres, maxlen |-> 5],
   [name |-> "http_resp", toks |-> RespTokens, pres |-> RespPres, maxlen |-> 6],
   [name |-> "http_hdr", toks |-> HdrTokens, pres |-> HdrPres, maxlen |-> 5],
   [name |-> "http_qry", toks |-> QryTokens, pres |-> NoPres, maxlen |-> 8],
   [name |-> "http_chk", toks |-> ChkTokens, pres |-> NoPres, maxlen |-> 5],
   [name |-> "http_url", toks |-> UrlTokens, pres |-> NoPres, maxlen |-> 6],
   [name |-> "wsp", toks |-> WspTokens, pres |-> NoPres, maxlen |-> 6],
   [name |-> "sdp", toks |-> SdpTokens, pres |-> SdpPres, maxlen |-> 5] >>

FamsSim == <<
   [name |-> "http_req", toks |-> ReqTokens, pres |-> ReqPres, maxlen |-> 10],
   [name |-> "http_resp", toks |-> RespTokens, pres |-> RespPres, maxlen |-> 10],
   [name |-> "http_hdr", toks |-> HdrTokens, pres |-> HdrPres, maxlen |-> 12],
   [name |-> "http_qry", toks |-> QryTokens, pres |-> NoPres, maxlen |-> 14],
   [name |-> "http_chk", toks |-> ChkTokens, pres |-> NoPres, maxlen |-> 10],
   [name |-> "http_url", toks |-> UrlTokens, pres |-> NoPres, maxlen |-> 12],
   [name |-> "wsp", toks |-> WspTokens, pres |-> NoPres, maxlen |-> 12],
   [name |-> "sdp", toks |-> SdpTokens, pres |-> SdpPres, maxlen |-> 10] >>
=============================================================================
