------------------------------- MODULE HpText -------------------------------
(* C13: family tables for the text-protocol generator - which alphabet (HpHttp, HpMisc) goes to
   which function family of the driver, and how long the token sequences get in each tier.
   One TLC run enumerates all families (the family is part of the initial state).          *)
EXTENDS HpTok, HpHttp, HpMisc

FamsQuick == <<
   [name |-> "http_req", toks |-> ReqTokens, pres |-> ReqPres, maxlen |-> 4, tail |-> 1, tailcls |-> ""],
   [name |-> "http_resp", toks |-> RespTokens, pres |-> RespPres, maxlen |-> 4, tail |-> 1, tailcls |-> ""],
   [name |-> "http_hdr", toks |-> HdrTokens, pres |-> HdrPres, maxlen |-> 4, tail |-> 1, tailcls |-> ""],
   [name |-> "http_qry", toks |-> QryTokens, pres |-> NoPres, maxlen |-> 5, tail |-> 1, tailcls |-> ""],
   [name |-> "http_chk", toks |-> ChkTokens, pres |-> NoPres, maxlen |-> 4, tail |-> 1, tailcls |-> ""],
   [name |-> "http_url", toks |-> UrlTokens, pres |-> NoPres, maxlen |-> 4, tail |-> 2, tailcls |-> "pct"],
   [name |-> "wsp", toks |-> WspTokens, pres |-> NoPres, maxlen |-> 4, tail |-> 1, tailcls |-> ""],
   [name |-> "sdp", toks |-> SdpTokens, pres |-> SdpPres, maxlen |-> 3, tail |-> 2, tailcls |-> "crlf"] >>

FamsThorough == <<
   [name |-> "http_req", toks |-> ReqTokens, pres |-> ReqPres, maxlen |-> 5, tail |-> 1, tailcls |-> ""],
   [name |-> "http_resp", toks |-> RespTokens, pres |-> RespPres, maxlen |-> 5, tail |-> 1, tailcls |-> ""],
   [name |-> "http_hdr", toks |-> HdrTokens, pres |-> HdrPres, maxlen |-> 5, tail |-> 1, tailcls |-> ""],
   [name |-> "http_qry", toks |-> QryTokens, pres |-> NoPres, maxlen |-> 7, tail |-> 1, tailcls |-> ""],
   [name |-> "http_chk", toks |-> ChkTokens, pres |-> NoPres, maxlen |-> 5, tail |-> 1, tailcls |-> ""],
   [name |-> "http_url", toks |-> UrlTokens, pres |-> NoPres, maxlen |-> 6, tail |-> 2, tailcls |-> "pct"],
   [name |-> "wsp", toks |-> WspTokens, pres |-> NoPres, maxlen |-> 6, tail |-> 1, tailcls |-> ""],
   [name |-> "sdp", toks |-> SdpTokens, pres |-> SdpPres, maxlen |-> 4, tail |-> 2, tailcls |-> "crlf"] >>

FamsSim == <<
   [name |-> "http_req", toks |-> ReqTokens, pres |-> ReqPres, maxlen |-> 10, tail |-> 1, tailcls |-> ""],
   [name |-> "http_resp", toks |-> RespTokens, pres |-> RespPres, maxlen |-> 10, tail |-> 1, tailcls |-> ""],
   [name |-> "http_hdr", toks |-> HdrTokens, pres |-> HdrPres, maxlen |-> 12, tail |-> 1, tailcls |-> ""],
   [name |-> "http_qry", toks |-> QryTokens, pres |-> NoPres, maxlen |-> 14, tail |-> 1, tailcls |-> ""],
   [name |-> "http_chk", toks |-> ChkTokens, pres |-> NoPres, maxlen |-> 10, tail |-> 1, tailcls |-> ""],
   [name |-> "http_url", toks |-> UrlTokens, pres |-> NoPres, maxlen |-> 12, tail |-> 2, tailcls |-> "pct"],
   [name |-> "wsp", toks |-> WspTokens, pres |-> NoPres, maxlen |-> 12, tail |-> 1, tailcls |-> ""],
   [name |-> "sdp", toks |-> SdpTokens, pres |-> SdpPres, maxlen |-> 10, tail |-> 2, tailcls |-> "crlf"] >>
=============================================================================
