-------------------------------- MODULE HpTs --------------------------------
(* C13 generator + envelope: MPEG-2 transport stream packets (include/proto/mpeg2ts.h:
   mpeg2_ts_pkt_is_valid, mpeg2_ts_pkt_get_next, mpeg2_ts_pkt_size_detect).
   Packet of `size` bytes: sync byte, PID (13 bit), adaptation-field-exists / contains-payload
   bits, an adaptation field length byte `afl` (when AFE is set), filler `fill` up to `size`.
   For the stream functions the packet is also embedded in a buffer: `pre` zero bytes (no sync
   byte) in front of it and `cut` bytes removed from its end (stream); a search for the next
   packet may only report a position where a whole packet fits.
   Envelope (ISO 13818-1 2.4.3): an adaptation field must end inside the packet
   (5 + afl <= size, and leave one byte when a payload is announced); a PSI table header
   (3 bytes) looked at by the validator must lie inside the packet too.  `psi_off` is where a
   validator that follows the fields finds the first payload byte.                          *)
EXTENDS Naturals, Sequences, TLC, Json
CONSTANTS Sizes, Syncs, Pids, Afes, Cps, Afls, Fills, Pres, Cuts
VARIABLES f, cs
Rep(b, n) == [i \in 1..n |-> b]
PsiPids == {0, 1, 2, 17, 18}
Full(r) == LET h == <<r.sync, r.pid \div 256, r.pid % 256, r.afe * 32 + r.cp * 16 + 7>>
               a == IF r.afe = 1 THEN <<r.afl>> ELSE <<>>
           IN h \o a \o Rep(r.fill, r.size - Len(h) - Len(a))
Envelope(r) ==
   LET po == IF r.afe = 1 THEN 5 + r.afl ELSE 4 IN
   IF r.sync # 71 THEN [why |-> "no-sync", psi_off |-> po]
   ELSE IF r.pid = 8191 THEN [why |-> "null-pid", psi_off |-> po]
   ELSE IF r.afe = 1 /\ (5 + r.afl + r.cp > r.size) THEN [why |-> "af-beyond", psi_off |-> po]
   ELSE IF r.pid \in PsiPids /\ po + 3 > r.size THEN [why |-> "psi-hdr-beyond", psi_off |-> po]
   ELSE [why |-> "fits", psi_off |-> po]
Stream(r) == LET u == Rep(0, r.pre) \o Full(r) IN SubSeq(u, 1, Len(u) - r.cut)
(* is there an offset >= 0 where a 188 byte packet with a sync byte fits into the stream? *)
HasPkt(st) == \E i \in 0..(Len(st) - 188) : st[i + 1] = 71
MkCase(r) == LET v == Envelope(r)  st == Stream(r) IN
   [fields |-> r, bytes |-> Full(r), stream |-> st, has_pkt |-> HasPkt(st),
    why |-> v.why, psi_off |-> v.psi_off,
    must_refuse |-> (v.why \in {"no-sync", "af-beyond"})]
Init == /\ f \in [size : Sizes, sync : Syncs, pid : Pids, afe : Afes, cp : Cps, afl : Afls, fill : Fills,
                  pre : Pres, cut : Cuts]
        /\ (f.afe = 0 => f.afl = 0)
        /\ cs = MkCase(f)
Spec == Init /\ [][FALSE]_<<f, cs>>
SizeLaw == Len(cs.bytes) = f.size /\ Len(cs.stream) = f.pre + f.size - f.cut
Emit == PrintT(ToJson(cs))
=============================================================================
