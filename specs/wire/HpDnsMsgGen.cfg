SPECIFICATION Spec
CONSTANTS
  Items = {"QA", "QP", "RA", "RZ", "RL", "RH", "RS", "N1"}
  MaxItems = 2
  QdSet = {0, 1, 2}
  AnSet = {0, 1, 65535}
  NsSet = {0}
  ArSet = {0, 1}
  CutAll = TRUE
INVARIANTS RefConsistent RefErrHasClass SizeLaw
CONSTRAINT Emit
CHECK_DEADLOCK FALSE
