SPECIFICATION Spec
CONSTANTS
  Caps = {80, 81, 271, 272, 277, 296}
  Ids <- QuickIds
  Flags <- QuickFlags
  QTpl <- BoundQ
  RRTpl <- BoundRR
  OptTpl <- BoundOpt
  Chain = FALSE
  EmitFrom = 0
  MaxOps = 3
INVARIANTS ParseBack Valid Fits Refusal NamesValid
CONSTRAINT Emit
CHECK_DEADLOCK FALSE
