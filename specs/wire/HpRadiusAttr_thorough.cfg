SPECIFICATION Spec
CONSTANTS
  Codes = {1, 2, 4, 5, 11, 12, 13, 40, 43}
  Prefixes = {"none", "MA", "UN", "PW"}
  Fills = {"ramp", "zero", "ff", "sub-ok", "sub-zero", "sub-over"}
  AllLens = FALSE
  PwLens <- PwAll
INVARIANTS PktLaw PwLaw
CONSTRAINT Emit
CHECK_DEADLOCK FALSE
