SPECIFICATION Spec
CONSTANTS
  Fams <- FamsQuick
INVARIANTS SizeLaw ByteLaw ClassLaw
CONSTRAINT Emit
CHECK_DEADLOCK FALSE
