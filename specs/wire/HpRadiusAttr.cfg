SPECIFICATION Spec
CONSTANTS
  Codes = {1, 2, 12}
  Prefixes = {"none", "MA"}
  Fills = {"ramp", "zero", "sub-over"}
  AllLens = FALSE
  PwLens <- PwAll
INVARIANTS PktLaw PwLaw
CONSTRAINT Emit
CHECK_DEADLOCK FALSE
