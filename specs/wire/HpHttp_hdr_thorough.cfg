SPECIFICATION Spec
CONSTANTS
  Tokens <- HdrTokens
  Pres <- HdrPres
  MaxLen = 5
INVARIANTS SizeLaw ByteLaw ClassLaw
CONSTRAINT Emit
CHECK_DEADLOCK FALSE
