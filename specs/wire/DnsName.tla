------------------------------ MODULE DnsName ------------------------------
(* RFC 1035 section 3.1 / 2.3.4: domain names as text (bytes, labels separated by '.') and as the
   wire "sequence of labels" (length octet + label ... terminated by the zero-length root label).
   Reference for liblcb include/proto/dns.h: DomainNameToSequenceOfLabels, SequenceOfLabelsToDomainName,
   SequenceOfLabelsGetSize, dns_msg_name2sequence_of_labels, dns_msg_sequence_of_labels2name (C15).
   Names are sequences of byte values 0..255; no compression is produced by the builder. *)
EXTENDS Naturals, Sequences

Dot == 46
MaxLabel == 63          \* RFC 1035 2.3.4: labels 63 octets or less
MaxNameText == 253      \* 255 octets on the wire = text length + 2

\* ---- text -> labels (split at dots; "a..b" has an empty middle label, "" is the root = no labels)
RECURSIVE SplitFrom(_, _, _, _)
SplitFrom(s, i, cur, acc) ==
   IF i > Len(s) THEN Append(acc, cur)
   ELSE IF s[i] = Dot THEN SplitFrom(s, i + 1, << >>, Append(acc, cur))
   ELSE SplitFrom(s, i + 1, Append(cur, s[i]), acc)
Labels(s) == IF Len(s) = 0 THEN << >> ELSE SplitFrom(s, 1, << >>, << >>)

LabelsOk(ls) == \A i \in 1..Len(ls) : Len(ls[i]) >= 1 /\ Len(ls[i]) <= MaxLabel
\* every label can be written as a length octet followed by its bytes
Encodable(s) == LabelsOk(Labels(s))
\* what the property quantifies over
ValidHostName(s) == Len(s) >= 1 /\ Len(s) <= MaxNameText /\ Encodable(s)

\* ---- labels -> wire
RECURSIVE WireAcc(_, _, _)
WireAcc(ls, i, acc) == IF i > Len(ls) THEN Append(acc, 0)
                       ELSE WireAcc(ls, i + 1, (Append(acc, Len(ls[i]))) \o ls[i])
WireOfLabels(ls) == WireAcc(ls, 1, << >>)
Wire(s) == WireOfLabels(Labels(s))                 \* meaningful when Encodable(s)
WireLen(s) == IF Len(s) = 0 THEN 1 ELSE Len(s) + 2

\* ---- wire -> labels, starting at 1-based position p of byte sequence b (uncompressed names only:
\*      a length octet above 63 is a pointer / extended label and is not an RFC 1035 plain label)
RECURSIVE UnWireAcc(_, _, _)
UnWireAcc(b, p, acc) ==
   IF p > Len(b) THEN [ok |-> FALSE, labels |-> acc, next |-> p]
   ELSE LET l == b[p] IN
        IF l = 0 THEN [ok |-> TRUE, labels |-> acc, next |-> p + 1]
        ELSE IF l > MaxLabel \/ p + l > Len(b) THEN [ok |-> FALSE, labels |-> acc, next |-> p]
        ELSE UnWireAcc(b, p + 1 + l, Append(acc, SubSeq(b, p + 1, p + l)))
UnWire(b, p) == UnWireAcc(b, p, << >>)

\* ---- labels -> text
RECURSIVE JoinAcc(_, _, _)
JoinAcc(ls, i, acc) == IF i > Len(ls) THEN acc
                       ELSE JoinAcc(ls, i + 1, (IF i = 1 THEN acc ELSE Append(acc, Dot)) \o ls[i])
Join(ls) == JoinAcc(ls, 1, << >>)

\* ---- deterministic label filler used by the generators: letters and digits, position dependent
Alnum == << 97,98,99,100,101,102,103,104,105,106,107,108,109,110,111,112,113,114,115,116,117,118,119,120,121,122,
            48,49,50,51,52,53,54,55,56,57, 65, 90, 45 >>       \* a-z 0-9 A Z -
RECURSIVE FillAcc(_, _, _, _)
FillAcc(k, n, j, acc) == IF j > n THEN acc
                         ELSE FillAcc(k, n, j + 1, Append(acc, Alnum[((k * 7 + j * 5) % 39) + 1]))
FillLabel(k, n) == FillAcc(k, n, 1, << >>)          \* k = index of the label in the name, n = its length
RECURSIVE NameOfLensAcc(_, _, _)
NameOfLensAcc(ll, i, acc) == IF i > Len(ll) THEN acc
                             ELSE NameOfLensAcc(ll, i + 1, Append(acc, FillLabel(i, ll[i])))
\* text of the name whose labels have the lengths ll (a zero length gives an empty label)
NameOfLens(ll) == Join(NameOfLensAcc(ll, 1, << >>))

ASSUME Labels(<<97, 46, 98, 99>>) = << <<97>>, <<98, 99>> >>
ASSUME Labels(<<97, 46, 46, 98>>) = << <<97>>, << >>, <<98>> >>
ASSUME Labels(<<97, 46>>) = << <<97>>, << >> >>
ASSUME Wire(<<97, 46, 98, 99>>) = <<1, 97, 2, 98, 99, 0>>          \* RFC 1035 4.1.2 QNAME layout
ASSUME Wire(<< >>) = <<0>>
ASSUME UnWire(<<1, 97, 2, 98, 99, 0>>, 1) = [ok |-> TRUE, labels |-> << <<97>>, <<98, 99>> >>, next |-> 7]
ASSUME Join(<< <<97>>, <<98, 99>> >>) = <<97, 46, 98, 99>>
=============================================================================
