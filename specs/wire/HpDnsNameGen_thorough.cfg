SPECIFICATION Spec
CONSTANTS
  Items = {"L1", "L2", "Z", "LB", "R4", "R8", "PH", "Pself", "Pprev", "Pnext", "Pfirst", "Phdr", "Pend", "Pbey"}
  MaxItems = 4
  Cuts = {1, 2, 3}
  Prefix <- NoPrefix
INVARIANTS RefInside RefNameBytes SizeLaw
CONSTRAINT Emit
CHECK_DEADLOCK FALSE
