---------------------------- MODULE HpRadiusAttr ----------------------------
(* C13 generator: RADIUS attributes at the edges of their TYPE-SPECIFIC length rules, as the LAST attribute
   of an exact-size packet (the packet ends with the attribute, the buffer ends with the packet), and the
   User-Password un-hiding called directly with every length.

   HpRadius enumerates how attributes can fail to TILE a packet; its only User-Password item is the one
   well-formed 16-octet value.  A decoder that acts on the value of an attribute (un-hiding the password
   in 16-octet blocks, the 16-octet Message-Authenticator HMAC, strnlen over a decoded password, address
   and prefix values ...) meets the other hostile shape: an attribute that tiles perfectly but whose length
   is just outside - or just inside - what its type allows.  Rules (data length n = Length - 2) typed from
   the RFCs that define the attributes:
      RFC 2865  User-Name, Filter-Id, Reply-Message ... text/string >= 1;  User-Password 16..128 in steps of
                16 (5.2);  CHAP-Password 17 (5.3);  addresses / integers / time 4;  Vendor-Specific >= 5 (5.26);
                CHAP-Challenge >= 5 (5.40)
      RFC 2868  Tunnel-Password >= 3 (3.5: tag, salt(2) ...)          RFC 2869  ARAP-Password 16, ARAP-Features 14,
                ARAP-Challenge-Response 8, EAP-Message >= 1, Message-Authenticator 16 (5.14), Event-Timestamp 4
      RFC 3162  NAS-IPv6-Address 16, Framed-Interface-Id 8, Framed-IPv6-Prefix 2..18
      RFC 4372  CUI (>= 1 by the RFC, empty tolerated)               RFC 4675  User-Priority-Table 8, Egress-VLAN-Name >= 2
      RFC 6929  Extended-Type-n >= 2 (ext type + >= 1), Long-Extended-Type-n >= 3 (ext type, flags + >= 1)
      RFC 7155/5090 Originating-Line-Info 2, Digest-Nonce-Count 8;   RFC 5904 PKM-Auth-Key 133, PKM-Config-Settings 28
   For every rule the data lengths  0, 1, lo-1, lo, lo+1, hi-1, hi, hi+1, 253  and, when the rule has a step
   (User-Password), every multiple of the step with both neighbours up to hi+step are generated (all of
   0..253 when AllLens).  The value octets are a ramp, all zero or all 0xff; Vendor-Specific / extended
   values also carry a sub-attribute whose own length octet is consistent, zero or larger than the rest.

   Envelope: as in HpRadius (Struct: the attributes must tile the declared length) - a packet here always
   tiles, so nothing must be refused on structural grounds; whether the library refuses a length its type
   forbids is NOT compared (C13 speaks about memory safety and consistent spans).  `why` names the rule and
   the position of the length relative to it: <attribute>/<below-min|min|inside|max|above-max|off-step|empty>.

   "pw" cases: radius_pkt_attr_password_decode(authenticator, enc[n], n, key, buf, cap) for every n in PwLens:
   in place (buf = enc, cap = n: what radius_pkt_verify does on the received packet) and into a separate
   exact-size buffer of cap = n-1, n, n+1.  Envelope: either an error or a reported length <= min(n, cap). *)
EXTENDS Integers, Sequences, FiniteSets, TLC, Json
CONSTANTS Codes, Prefixes, Fills, AllLens, PwLens
VARIABLES cs

R(name, t, lo, hi, step) == [name |-> name, t |-> t, lo |-> lo, hi |-> hi, step |-> step]
Rules == {
   R("User-Name", 1, 1, 253, 1),            R("User-Password", 2, 16, 128, 16),     R("CHAP-Password", 3, 17, 17, 1),
   R("NAS-IP-Address", 4, 4, 4, 1),         R("NAS-Port", 5, 4, 4, 1),              R("Login-LAT-Group", 36, 32, 32, 1),
   R("Vendor-Specific", 26, 5, 253, 1),     R("Event-Timestamp", 55, 4, 4, 1),      R("Egress-VLAN-Name", 58, 2, 253, 1),
   R("User-Priority-Table", 59, 8, 8, 1),   R("CHAP-Challenge", 60, 5, 253, 1),     R("Tunnel-Password", 69, 3, 253, 1),
   R("ARAP-Password", 70, 16, 16, 1),       R("ARAP-Features", 71, 14, 14, 1),      R("EAP-Message", 79, 1, 253, 1),
   R("Message-Authenticator", 80, 16, 16, 1), R("ARAP-Challenge-Response", 84, 8, 8, 1), R("CUI", 89, 0, 253, 1),
   R("Originating-Line-Info", 94, 2, 2, 1), R("NAS-IPv6-Address", 95, 16, 16, 1),   R("Framed-Interface-Id", 96, 8, 8, 1),
   R("Framed-IPv6-Prefix", 97, 2, 18, 1),   R("Digest-Nonce-Count", 114, 8, 8, 1),  R("PKM-Config-Settings", 139, 28, 28, 1),
   R("PKM-Auth-Key", 143, 133, 133, 1),     R("Extended-Type-1", 241, 2, 253, 1),   R("Long-Extended-Type-1", 245, 3, 253, 1),
   R("unassigned-17", 17, 0, 253, 1),       R("type-255", 255, 0, 253, 1) }

MaxData == 253
Valid(r, n) == r.lo <= n /\ n <= r.hi /\ (n - r.lo) % r.step = 0
Pos(r, n) == IF n = 0 /\ r.lo > 0 THEN "empty"
             ELSE IF n < r.lo THEN "below-min"
             ELSE IF n > r.hi THEN "above-max"
             ELSE IF (n - r.lo) % r.step # 0 THEN "off-step"
             ELSE IF n = r.lo THEN "min" ELSE IF n = r.hi THEN "max" ELSE "inside"
Edge(r) == { 0, 1, r.lo - 1, r.lo, r.lo + 1, r.hi - 1, r.hi, r.hi + 1, MaxData }
Steps(r) == IF r.step = 1 THEN { }
            ELSE UNION { { k - 1, k, k + 1 } : k \in { r.lo + i * r.step : i \in 0..((r.hi - r.lo) \div r.step + 1) } }
Lens(r) == IF AllLens THEN 0..MaxData ELSE (Edge(r) \cup Steps(r)) \cap (0..MaxData)

(* ---- rendering ---- *)
Rep(b, n) == [i \in 1..n |-> b]
RECURSIVE RampAcc(_, _, _, _)
RampAcc(t, n, j, acc) == IF j > n THEN acc ELSE RampAcc(t, n, j + 1, Append(acc, ((t * 13 + j * 7) % 251) + 1))
Ramp(t, n) == RampAcc(t, n, 1, << >>)
\* Vendor-Specific: a vendor attribute (vendor type, its own length octet) in front of the filler - length consistent,
\* zero, or larger than what is left.  Extended-Type: the extended type octet 1 / 0 / 26 (Extended-Vendor-Specific, which
\* would need five more octets).  Long-Extended-Type: flags 0 / all ones / More (0x80) although nothing follows.
SubHead(f, n) == CASE f = "sub-ok" -> << 1, n >>  [] f = "sub-zero" -> << 1, 0 >>  [] f = "sub-over" -> << 1, 255 >>
ExtType(f) == CASE f = "sub-ok" -> 1 [] f = "sub-zero" -> 0 [] f = "sub-over" -> 26
ExtFlags(f) == CASE f = "sub-ok" -> 0 [] f = "sub-zero" -> 255 [] f = "sub-over" -> 128
Value(r, n, f) ==
   CASE f = "ramp" -> Ramp(r.t, n)
     [] f = "zero" -> Rep(0, n)
     [] f = "ff"   -> Rep(255, n)
     [] f \in { "sub-ok", "sub-zero", "sub-over" } ->
          IF r.t = 26                                    \* Vendor-Id (4) then the vendor's attribute
          THEN IF n >= 6 THEN << 0, 0, 0, 9 >> \o SubHead(f, n - 4) \o Ramp(r.t, n - 6) ELSE Ramp(r.t, n)
          ELSE IF r.t = 241
          THEN IF n >= 1 THEN << ExtType(f) >> \o Ramp(r.t, n - 1) ELSE << >>
          ELSE IF n >= 2 THEN << ExtType(f), ExtFlags(f) >> \o Ramp(r.t, n - 2) ELSE Ramp(r.t, n)
HasSub(r) == r.t \in { 26, 241, 245 }
FillsOf(r) == { f \in Fills : f \in { "ramp", "zero", "ff" } \/ HasSub(r) }

AttrBytes(r, n, f) == << r.t, n + 2 >> \o Value(r, n, f)
PB(k) == CASE k = "none" -> << >>
           [] k = "MA"   -> << 80, 18 >> \o Rep(0, 16)          \* a well-formed Message-Authenticator in front
           [] k = "UN"   -> << 1, 3, 97 >>                       \* a User-Name in front
           [] k = "PW"   -> << 2, 18 >> \o Rep(65, 16)           \* a well-formed User-Password in front (found first)
HdrSize == 20
Packet(c, k, r, n, f) ==
   LET body == PB(k) \o AttrBytes(r, n, f)
       l == HdrSize + Len(body)
   IN << c, 7, l \div 256, l % 256 >> \o Rep(17, 16) \o body

(* ---- structural envelope (same reading as HpRadius.Struct) ---- *)
RECURSIVE Tiles(_, _, _)
Tiles(p, off, end) == IF off = end THEN TRUE
                      ELSE IF end - off < 2 THEN FALSE
                      ELSE LET l == p[off + 2] IN l >= 2 /\ l <= end - off /\ Tiles(p, off + l, end)
StructOk(p) == /\ Len(p) >= HdrSize /\ p[3] * 256 + p[4] = Len(p) /\ Len(p) <= 4096
               /\ Tiles(p, HdrSize, Len(p))

PktCase(c, k, r, n, f) ==
   LET p == Packet(c, k, r, n, f) IN
   [kind |-> "pkt", code |-> c, prefix |-> k, attr |-> r.name, t |-> r.t, n |-> n, fill |-> f, bytes |-> p,
    last_off |-> Len(p) - (n + 2), valid_len |-> Valid(r, n),
    why |-> r.name \o "/" \o Pos(r, n), must_err |-> ~StructOk(p)]

PwAll == 0..200
PwRule == CHOOSE r \in Rules : r.t = 2
PwCase(n, v) ==
   LET cap == CASE v = "inplace" -> n [] v = "sep" -> n [] v = "sep+1" -> n + 1 [] v = "sep-1" -> n - 1
   IN [kind |-> "pw", n |-> n, variant |-> v, cap |-> cap, bytes |-> Ramp(2, n),
       valid_len |-> Valid(PwRule, n), why |-> "User-Password/" \o Pos(PwRule, n), max_out |-> IF cap < n THEN cap ELSE n]
PwVariants(n) == { "inplace", "sep", "sep+1" } \cup (IF n > 0 THEN { "sep-1" } ELSE { })

Init == \/ \E c \in Codes, k \in Prefixes, r \in Rules :
              \E n \in Lens(r) : \E f \in FillsOf(r) : cs = PktCase(c, k, r, n, f)
        \/ \E n \in PwLens : \E v \in PwVariants(n) : cs = PwCase(n, v)
Next == FALSE /\ UNCHANGED cs
Spec == Init /\ [][Next]_cs

(* ---- checked on the spec ---- *)
\* every generated packet tiles (so nothing here must be refused structurally) and ends exactly with the attribute
PktLaw == cs.kind = "pkt" =>
             /\ ~cs.must_err
             /\ Len(cs.bytes) = cs.last_off + cs.n + 2
             /\ cs.bytes[cs.last_off + 1] = cs.t /\ cs.bytes[cs.last_off + 2] = cs.n + 2
             /\ cs.last_off >= HdrSize
\* the classification is total and agrees with Valid; every rule that has an outside is generated on both sides
ASSUME \A r \in Rules : \A n \in 0..MaxData : Valid(r, n) <=> Pos(r, n) \in { "min", "inside", "max" }
ASSUME \A r \in Rules : /\ \E n \in (Edge(r) \cup Steps(r)) \cap (0..MaxData) : Valid(r, n)
                         /\ (r.lo > 0 \/ r.hi < MaxData) => \E m \in (Edge(r) \cup Steps(r)) \cap (0..MaxData) : ~Valid(r, m)
ASSUME Cardinality({ r.t : r \in Rules }) = Cardinality(Rules)
PwLaw == cs.kind = "pw" => Len(cs.bytes) = cs.n /\ cs.max_out <= cs.n /\ cs.max_out <= cs.cap
Emit == PrintT(ToJson(cs))
=============================================================================
