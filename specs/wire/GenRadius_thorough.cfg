SPECIFICATION Spec
CONSTANTS
  Caps = {44, 51, 62}
  Inits <- DeepInits
  InitOnly <- DeepInits
  Steps <- ThorSteps
  MaxOps = 6
INVARIANTS ListBack LenField AuthField TypedIsWellFormed Refusal
CONSTRAINT Emit
CHECK_DEADLOCK FALSE
