SPECIFICATION Spec
CONSTANTS
  Items = {"QA", "QP", "QT", "RA", "RZ", "RL", "RH", "RN", "RS", "N1", "PH"}
  MaxItems = 3
  QdSet = {0, 1, 2}
  AnSet = {0, 1, 2, 65535}
  NsSet = {0, 1}
  ArSet = {0, 1}
  CutAll = FALSE
INVARIANTS RefConsistent RefErrHasClass SizeLaw
CONSTRAINT Emit
CHECK_DEADLOCK FALSE
