SPECIFICATION Spec
CONSTANTS
  Items = {"QA", "QP", "QT", "RA", "RZ", "RL", "RH", "RS", "N1"}
  MaxItems = 3
  QdSet = {0, 1, 2}
  AnSet = {0, 1, 65535}
  NsSet = {0, 1}
  ArSet = {0}
  CutAll = FALSE
INVARIANTS RefConsistent RefErrHasClass SizeLaw
CONSTRAINT Emit
CHECK_DEADLOCK FALSE
