------------------------------ MODULE DnsCompr ------------------------------
(* RFC 1035 section 4.1.4 message compression, and domain names inside RDATA (section 3.3: CNAME, NS, PTR = one name;
   MX = preference(2) + name; SOA = mname + rname + five 32-bit numbers), as plain mathematics over DnsMsg / DnsName.
   Reference for the name decoding of liblcb include/proto/dns.h (dns_msg_sequence_of_labels2name follows pointers;
   the builder writes names uncompressed) for property C15.

   A name is a sequence of labels (each a non-empty sequence of at most 63 octets); its text is DnsName!Join.
   A record is  [sec, owner, t, c, ttl, rd]  with sec in {"qd","an","ns","ar"} (questions carry no ttl / rd) and
   rd a sequence of parts  [k |-> "b", v |-> octets]  |  [k |-> "n", v |-> name].

   Enc(hdr, recs, compress) writes the records in order.  compress = FALSE: every name label by label (exactly what
   DnsMsg!AddQuestion / AddRR produce when the RDATA octets are the parts written one after the other).
   compress = TRUE: every name is cut at its LONGEST suffix that was already written at an offset below 2^14 and
   ends in a two-octet pointer to it (11xxxxxx xxxxxxxx); the other suffixes of the name become pointer targets.
   Dec reads such a message back; a pointer must point below the position where the current name started, so
   decoding terminates.                                                                                          *)
EXTENDS DnsMsg

PtrLimit == 16384
Ptr(off) == << 192 + (off \div 256), off % 256 >>
Suffix(ls, i) == SubSeq(ls, i, Len(ls))                    \* labels i .. end
NameWireLen(ls) == Len(WireOfLabels(ls))

\* dictionary: sequence of [sfx |-> labels, off |-> 0-based offset of its first length octet]
Lookup(dict, sfx) == LET S == { i \in 1..Len(dict) : dict[i].sfx = sfx } IN
                     IF S = { } THEN 0 ELSE dict[CHOOSE i \in S : \A j \in S : i <= j].off       \* 0 = unknown (offsets are >= 12)
\* first label index whose suffix is in the dictionary (Len+1: none)
RECURSIVE FirstKnown(_, _, _)
FirstKnown(ls, dict, i) == IF i > Len(ls) THEN i ELSE IF Lookup(dict, Suffix(ls, i)) > 0 THEN i ELSE FirstKnown(ls, dict, i + 1)
\* offsets of the labels 1 .. upto-1 of a name written at offset off
RECURSIVE AddSfx(_, _, _, _, _)
AddSfx(ls, off, i, upto, dict) ==
   IF i >= upto THEN dict
   ELSE AddSfx(ls, off + 1 + Len(ls[i]), i + 1, upto, IF off < PtrLimit THEN Append(dict, [sfx |-> Suffix(ls, i), off |-> off]) ELSE dict)
\* one name at offset off -> [bytes, dict]
EncName(ls, off, dict, compress) ==
   IF ~compress THEN [bytes |-> WireOfLabels(ls), dict |-> dict]
   ELSE LET i == FirstKnown(ls, dict, 1) IN
        IF i > Len(ls) THEN [bytes |-> WireOfLabels(ls), dict |-> AddSfx(ls, off, 1, Len(ls) + 1, dict)]
        ELSE LET own == WireOfLabels(SubSeq(ls, 1, i - 1))                       \* ends in 0: replaced by the pointer
             IN [bytes |-> SubSeq(own, 1, Len(own) - 1) \o Ptr(Lookup(dict, Suffix(ls, i))), dict |-> AddSfx(ls, off, 1, i, dict)]
RECURSIVE EncParts(_, _, _, _, _, _)
EncParts(rd, i, off, dict, compress, acc) ==
   IF i > Len(rd) THEN [bytes |-> acc, dict |-> dict]
   ELSE IF rd[i].k = "b" THEN EncParts(rd, i + 1, off + Len(rd[i].v), dict, compress, acc \o rd[i].v)
   ELSE LET e == EncName(rd[i].v, off, dict, compress) IN EncParts(rd, i + 1, off + Len(e.bytes), e.dict, compress, acc \o e.bytes)
EncRec(r, off, dict, compress) ==
   LET o == EncName(r.owner, off, dict, compress)   p == off + Len(o.bytes) IN
   IF r.sec = "qd" THEN [bytes |-> o.bytes \o Be16(r.t) \o Be16(r.c), dict |-> o.dict]
   ELSE LET d == EncParts(r.rd, 1, p + 10, o.dict, compress, << >>)
        IN [bytes |-> o.bytes \o Be16(r.t) \o Be16(r.c) \o Be16(r.ttl[1]) \o Be16(r.ttl[2]) \o Be16(Len(d.bytes)) \o d.bytes, dict |-> d.dict]
SecNo(sec) == CASE sec = "qd" -> 1 [] sec = "an" -> 2 [] sec = "ns" -> 3 [] sec = "ar" -> 4
RECURSIVE EncRecs(_, _, _, _, _)
EncRecs(recs, i, m, dict, compress) ==
   IF i > Len(recs) THEN m
   ELSE LET e == EncRec(recs[i], Len(m), dict, compress) IN EncRecs(recs, i + 1, IncCount(m \o e.bytes, SecNo(recs[i].sec)), e.dict, compress)
Enc(id, flags, recs, compress) == EncRecs(recs, 1, id \o flags \o << 0, 0, 0, 0, 0, 0, 0, 0 >>, << >>, compress)

(* ---------------------------------------------------------------- reading back *)
\* name at 1-based position p: labels, then 0 or a pointer.  lim = the position the name (or the last pointer) started
\* at: a pointer must point below it.  next = position after the first pointer / the terminating 0.
RECURSIVE DecNameR(_, _, _, _, _)
DecNameR(m, p, lim, acc, next) ==
   IF p > Len(m) THEN [ok |-> FALSE, labels |-> acc, next |-> p]
   ELSE LET l == m[p] IN
        IF l = 0 THEN [ok |-> TRUE, labels |-> acc, next |-> IF next = 0 THEN p + 1 ELSE next]
        ELSE IF l >= 192 THEN
             (IF p + 1 > Len(m) THEN [ok |-> FALSE, labels |-> acc, next |-> p]
              ELSE LET t == ((l - 192) * 256 + m[p + 1]) + 1 IN                  \* 1-based target
                   IF t >= lim \/ t <= HdrSize THEN [ok |-> FALSE, labels |-> acc, next |-> p]
                   ELSE DecNameR(m, t, t, acc, IF next = 0 THEN p + 2 ELSE next))
        ELSE IF l > MaxLabel \/ p + l > Len(m) THEN [ok |-> FALSE, labels |-> acc, next |-> p]
        ELSE DecNameR(m, p + 1 + l, lim, Append(acc, SubSeq(m, p + 1, p + l)), next)
DecName(m, p) == DecNameR(m, p, p, << >>, 0)
\* RDATA layout by type: the kinds of its parts (0 = a name, k > 0 = k plain octets, Rest = all octets)
Rest == 65536
Shape(t) == IF t \in { 2, 5, 12 } THEN << 0 >> ELSE IF t = 15 THEN << 2, 0 >> ELSE IF t = 6 THEN << 0, 0, 20 >> ELSE << Rest >>
RECURSIVE DecParts(_, _, _, _, _, _)
DecParts(m, p, end, sh, i, acc) ==          \* end = position after the RDATA
   IF i > Len(sh) THEN [ok |-> p = end, parts |-> acc]
   ELSE IF sh[i] = 0 THEN LET n == DecName(m, p) IN
           IF ~n.ok \/ n.next > end THEN [ok |-> FALSE, parts |-> acc]
           ELSE DecParts(m, n.next, end, sh, i + 1, Append(acc, [k |-> "n", v |-> n.labels]))
   ELSE LET cnt == IF sh[i] = Rest THEN end - p ELSE sh[i] IN
        IF p + cnt > end THEN [ok |-> FALSE, parts |-> acc]
        ELSE DecParts(m, p + cnt, end, sh, i + 1, Append(acc, [k |-> "b", v |-> SubSeq(m, p, p + cnt - 1)]))
SecName(k) == << "qd", "an", "ns", "ar" >>[k]
RECURSIVE DecRecs(_, _, _, _, _)
DecRecs(m, p, k, left, acc) ==               \* k = section number, left = records left in it
   IF k > 4 THEN [ok |-> TRUE, recs |-> acc, next |-> p]
   ELSE IF left = 0 THEN DecRecs(m, p, k + 1, IF k < 4 THEN Count(m, k + 1) ELSE 0, acc)
   ELSE LET n == DecName(m, p) IN
        IF ~n.ok THEN [ok |-> FALSE, recs |-> acc, next |-> p]
        ELSE IF k = 1 THEN
             (IF n.next + 3 > Len(m) THEN [ok |-> FALSE, recs |-> acc, next |-> p]
              ELSE DecRecs(m, n.next + 4, k, left - 1, Append(acc, [sec |-> "qd", owner |-> n.labels, t |-> U16At(m, n.next), c |-> U16At(m, n.next + 2)])))
        ELSE IF n.next + 9 > Len(m) THEN [ok |-> FALSE, recs |-> acc, next |-> p]
        ELSE LET rdl == U16At(m, n.next + 8)   t == U16At(m, n.next)   end == n.next + 10 + rdl IN
             IF end - 1 > Len(m) THEN [ok |-> FALSE, recs |-> acc, next |-> p]
             ELSE LET d == DecParts(m, n.next + 10, end, Shape(t), 1, << >>) IN
                  IF ~d.ok THEN [ok |-> FALSE, recs |-> acc, next |-> p]
                  ELSE DecRecs(m, end, k, left - 1, Append(acc, [sec |-> SecName(k), owner |-> n.labels, t |-> t, c |-> U16At(m, n.next + 2),
                                                                   ttl |-> << U16At(m, n.next + 4), U16At(m, n.next + 6) >>, rd |-> d.parts]))
Dec(m) == IF Len(m) < HdrSize THEN [ok |-> FALSE, recs |-> << >>, next |-> 1] ELSE DecRecs(m, HdrSize + 1, 1, Count(m, 1), << >>)

\* RFC 1035 4.1.4 example: F.ISI.ARPA at 20, FOO.F.ISI.ARPA at 40 = FOO + pointer to 20, ARPA at 64 = pointer to 26
ASSUME LET F == << << 70 >>, << 73, 83, 73 >>, << 65, 82, 80, 65 >> >>   dict == AddSfx(F, 20, 1, 4, << >>) IN
          /\ EncName(<< << 70, 79, 79 >> >> \o F, 40, dict, TRUE).bytes = << 3, 70, 79, 79, 192, 20 >>
          /\ EncName(<< << 65, 82, 80, 65 >> >>, 64, dict, TRUE).bytes = << 192, 26 >>
          /\ EncName(<< >>, 92, dict, TRUE).bytes = << 0 >>
=============================================================================
