SPECIFICATION Spec
CONSTANTS
  Items = {"Pprev"}
  MaxItems = 69
  Cuts <- NoCuts
  Prefix <- ChainPrefix
INVARIANTS RefInside RefNameBytes SizeLaw
CONSTRAINT Emit
CHECK_DEADLOCK FALSE
