SPECIFICATION Spec
CONSTANTS
  Items = {"U3", "L0", "L1", "L2", "LB", "T0", "MA", "MS", "PW", "EA", "H1", "VS", "VB", "VT", "TF"}
  MaxItems = 3
  Codes = {1, 12}
  LenModes = {"fit", "eq", "m1", "p1", "l19", "l20", "big"}
  CutAll = TRUE
INVARIANTS SizeLaw EnvelopeSound
CONSTRAINT Emit
CHECK_DEADLOCK FALSE
