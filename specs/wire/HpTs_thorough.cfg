SPECIFICATION Spec
CONSTANTS
  Sizes = {188, 192, 204, 208}
  Syncs = {71, 70}
  Pids = {0, 1, 2, 17, 18, 256, 8191}
  Afes = {0, 1}
  Cps = {0, 1}
  Afls = {0, 1, 180, 181, 182, 183, 184, 202, 203, 255}
  Fills = {0, 66, 255}
  Pres = {0, 1, 100, 187}
  Cuts = {0, 1, 2}
INVARIANTS SizeLaw
CONSTRAINT Emit
CHECK_DEADLOCK FALSE
