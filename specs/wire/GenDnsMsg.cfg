SPECIFICATION Spec
CONSTANTS
  Caps = {11, 12, 36, 47}
  Ids <- QuickIds
  Flags <- QuickFlags
  QTpl <- QuickQ
  RRTpl <- QuickRR
  OptTpl <- QuickOpt
  Chain = FALSE
  EmitFrom = 0
  MaxOps = 6
INVARIANTS ParseBack Valid Fits Refusal NamesValid
CONSTRAINT Emit
CHECK_DEADLOCK FALSE
