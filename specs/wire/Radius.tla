------------------------------- MODULE Radius -------------------------------
(* RADIUS packets (RFC 2865, 2866, 2869/3579, 5176, 5997, 6929) as plain mathematics over byte sequences.
   Reference for liblcb include/proto/radius.h (C15): radius_pkt_init, radius_pkt_attr_add*,
   radius_attr_len_chk, radius_pkt_chk, attribute listing, User-Password hiding (RFC 2865 5.2),
   Request/Response Authenticators (RFC 2865 3, RFC 2866 3) and Message-Authenticator (RFC 2869 5.14,
   HMAC-MD5 of RFC 2104) over module Md5.

   Packet = Code(1) Identifier(1) Length(2, big endian) Authenticator(16) Attributes...
   Attribute = Type(1) Length(1, includes the two header octets) Value(Length-2).               *)
EXTENDS Md5

RadHdr == 20
RadMaxPkt == 4096
RadMaxData == 253
RBe16(v) == << v \div 256, v % 256 >>
RLen(p) == p[3] * 256 + p[4]
RSetLen(p, n) == [p EXCEPT ![3] = n \div 256, ![4] = n % 256]
RAuth(p) == SubSeq(p, 5, 20)
RSetAuth(p, a) == SubSeq(p, 1, 4) \o a \o SubSeq(p, 21, Len(p))
Z16 == Zeros(16)

(* ------------------------------------------------------------------ codes *)
CAccessRequest == 1   CAccessAccept == 2   CAccessReject == 3   CAcctRequest == 4   CAcctResponse == 5
CAccessChallenge == 11   CStatusServer == 12   CStatusClient == 13
CDiscRequest == 40   CDiscAck == 41   CDiscNak == 42   CCoaRequest == 43   CCoaAck == 44   CCoaNak == 45
KnownCodes == {1, 2, 3, 4, 5, 11, 12, 13, 40, 41, 42, 43, 44, 45}
\* the Authenticator of these is an unpredictable value chosen by the sender (RFC 2865 3, RFC 5997 3)
RandomAuthCodes == {CAccessRequest, CStatusServer, CStatusClient}
\* computed over the packet with a zero Authenticator field (RFC 2866 3, RFC 5176 2.3)
ZeroAuthCodes == {CAcctRequest, CDiscRequest, CCoaRequest}
\* computed over the packet with the Request Authenticator of the request (RFC 2865 3, RFC 2866 3, RFC 5176 2.3)
ReplyCodes == {CAccessAccept, CAccessReject, CAccessChallenge, CAcctResponse, CDiscAck, CDiscNak, CCoaAck, CCoaNak}

(* ------------------------------------------------------------------ attribute types and their value sizes *)
TUserName == 1   TUserPassword == 2   TChapPassword == 3   TEapMessage == 79   TMsgAuth == 80
\* [lo, hi] bounds of the value size in octets, from the attribute definitions in the RFCs
\* (text/string >= 1, address 4, integer 4, ...).  Types not listed: no rule known to this reference.
ValueRule(t) ==
   CASE t \in {1, 11, 18, 19, 20, 22, 24, 25, 30, 31, 32, 33, 44, 77, 79, 87} -> <<1, 253>>   \* text / string
     [] t = 2 -> <<16, 128>>                       \* User-Password: hidden, 1..8 chunks of 16 (RFC 2865 5.2)
     [] t = 3 -> <<17, 17>>                        \* CHAP-Password: ident + 16
     [] t \in {4, 8, 9, 14} -> <<4, 4>>              \* IPv4 address
     [] t \in {5, 6, 7, 10, 12, 13, 15, 16, 27, 28, 29, 40, 41, 42, 43, 45, 46, 47, 48, 49, 55, 61, 62, 85} -> <<4, 4>>  \* integer / time
     [] t = 26 -> <<5, 253>>                       \* Vendor-Specific: vendor id + at least one octet (Length >= 7)
     [] t = 60 -> <<5, 253>>                       \* CHAP-Challenge (Length >= 7)
     [] t = 80 -> <<16, 16>>                       \* Message-Authenticator
     [] t \in {95, 98} -> <<16, 16>>                \* IPv6 address
     [] t = 96 -> <<8, 8>>                         \* Framed-Interface-Id
     [] t \in {97, 123} -> <<2, 18>>                \* IPv6 prefix: reserved + prefix-length + 0..16
     [] t \in {241, 242, 243, 244} -> <<2, 253>>    \* RFC 6929 Extended-Type + value
     [] t \in {245, 246} -> <<3, 253>>              \* RFC 6929 Long-Extended: type + flags + value
     [] OTHER -> <<1, 253>>
HasRule(t) == t \in ({2, 1, 11, 18, 19, 20, 22, 24, 25, 30, 31, 32, 33, 44, 77, 79, 87, 3, 4, 8, 9, 14, 26, 60, 80, 95, 98, 96, 97, 123}
                     \cup {5, 6, 7, 10, 12, 13, 15, 16, 27, 28, 29, 40, 41, 42, 43, 45, 46, 47, 48, 49, 55, 61, 62, 85}
                     \cup {241, 242, 243, 244, 245, 246})
ValueLenOk(t, n) == t >= 1 /\ t <= 255 /\ n >= ValueRule(t)[1] /\ n <= ValueRule(t)[2]

(* ------------------------------------------------------------------ attribute list of a packet *)
\* attributes of bytes p between 1-based positions from..to  ->  [ok, items = << [t, v, off] >>]   (off 0-based)
RECURSIVE AttrsAcc(_, _, _, _)
AttrsAcc(p, pos, to, acc) ==
   IF pos > to THEN [ok |-> TRUE, items |-> acc]
   ELSE IF pos + 1 > to THEN [ok |-> FALSE, items |-> acc]                      \* no room for the header
   ELSE LET l == p[pos + 1] IN
        IF l < 2 \/ pos + l - 1 > to THEN [ok |-> FALSE, items |-> acc]          \* too short / runs out of the packet
        ELSE AttrsAcc(p, pos + l, to, Append(acc, [t |-> p[pos], v |-> SubSeq(p, pos + 2, pos + l - 1), off |-> pos - 1]))
Attrs(p) == AttrsAcc(p, RadHdr + 1, RLen(p), << >>)
\* header and attribute framing are consistent within the received octets
Framed(p) == /\ Len(p) >= RadHdr /\ RLen(p) >= RadHdr /\ RLen(p) <= Len(p) /\ RLen(p) <= RadMaxPkt
             /\ Attrs(p).ok
OfType(items, t) == SelectSeq(items, LAMBDA a : a.t = t)
NoOff == 65535
FirstOff(items, t) == LET s == OfType(items, t) IN IF Len(s) = 0 THEN NoOff ELSE s[1].off
RECURSIVE ConcatV(_, _, _)
ConcatV(s, i, acc) == IF i > Len(s) THEN acc ELSE ConcatV(s, i + 1, acc \o s[i].v)
ValuesOf(items, t) == ConcatV(OfType(items, t), 1, << >>)

\* a packet a RADIUS peer may put on the wire / must accept structurally
WellFormed(p) ==
   /\ Framed(p) /\ p[1] \in KnownCodes
   /\ LET a == Attrs(p).items IN
      /\ \A i \in 1..Len(a) : ValueLenOk(a[i].t, Len(a[i].v))
      /\ Len(OfType(a, TMsgAuth)) <= 1                                            \* RFC 2869 5.19: 0-1
      /\ (p[1] = CStatusServer \/ Len(OfType(a, TEapMessage)) > 0) => Len(OfType(a, TMsgAuth)) = 1   \* RFC 5997 3, RFC 3579 3.2

(* ------------------------------------------------------------------ builder steps: [rc, pkt] *)
\*  "ok" | "nospace" (does not fit in cap) | "invalid" (value size / type / code not allowed) |
\*  "exists" (a second User-Password / Message-Authenticator, or User-Password next to CHAP-Password) |
\*  "fail" (invalid and no space at once) | "unspec" (RFC forbids the combination, the API has no rule)
PktInit(cap, code, id, auth, hasauth) ==
   IF cap < RadHdr THEN [rc |-> IF code \in KnownCodes THEN "nospace" ELSE "fail", pkt |-> << >>]
   ELSE IF code \notin KnownCodes THEN [rc |-> "invalid", pkt |-> << >>]
   ELSE IF code \in ZeroAuthCodes THEN [rc |-> "ok", pkt |-> <<code, id>> \o RBe16(RadHdr) \o Z16]
   ELSE IF code = CAcctResponse /\ ~hasauth THEN [rc |-> "ok", pkt |-> <<code, id>> \o RBe16(RadHdr) \o Z16]
   ELSE IF ~hasauth THEN [rc |-> "invalid", pkt |-> << >>]      \* the request authenticator must be supplied
   ELSE [rc |-> "ok", pkt |-> <<code, id>> \o RBe16(RadHdr) \o auth]

Append1(p, cap, t, v) ==      \* raw append of one attribute
   IF Len(v) > RadMaxData THEN [rc |-> "invalid", pkt |-> p]
   ELSE IF RLen(p) + 2 + Len(v) > cap THEN [rc |-> "nospace", pkt |-> p]
   ELSE [rc |-> "ok", pkt |-> RSetLen(SubSeq(p, 1, RLen(p)) \o <<t, 2 + Len(v)>> \o v, RLen(p) + 2 + Len(v))]
AddRaw(p, cap, t, v) == Append1(p, cap, t, v)

PadLen(n) == IF n = 0 THEN 16 ELSE ((n + 15) \div 16) * 16
AddAttr(p, cap, t, v) ==
   LET items == Attrs(p).items IN
   IF t = 0 THEN [rc |-> "invalid", pkt |-> p]
   ELSE IF t = TUserPassword THEN
      IF Len(v) > 128 THEN [rc |-> "invalid", pkt |-> p]
      ELSE IF Len(OfType(items, TUserPassword)) > 0 \/ Len(OfType(items, TChapPassword)) > 0 THEN [rc |-> "exists", pkt |-> p]
      ELSE Append1(p, cap, t, v \o Zeros(PadLen(Len(v)) - Len(v)))      \* staged in clear, hidden when the packet is signed
   ELSE IF t = TMsgAuth THEN
      IF Len(OfType(items, TMsgAuth)) > 0 THEN [rc |-> "exists", pkt |-> p]
      ELSE Append1(p, cap, t, Z16)                                      \* placeholder, computed when the packet is signed
   ELSE IF ~ValueLenOk(t, Len(v)) THEN
      [rc |-> IF Len(v) <= RadMaxData /\ RLen(p) + 2 + Len(v) > cap THEN "fail" ELSE "invalid", pkt |-> p]
   ELSE IF t = TChapPassword /\ (Len(OfType(items, TUserPassword)) > 0 \/ Len(OfType(items, TChapPassword)) > 0)
      THEN [rc |-> "unspec", pkt |-> Append1(p, cap, t, v).pkt]
   ELSE Append1(p, cap, t, v)

(* ------------------------------------------------------------------ HMAC-MD5 (RFC 2104) *)
RECURSIVE XorConstAcc(_, _, _, _)
XorConstAcc(b, c, i, acc) == IF i > Len(b) THEN acc ELSE XorConstAcc(b, c, i + 1, Append(acc, b[i] ^^ c))
XorConst(b, c) == XorConstAcc(b, c, 1, << >>)
RECURSIVE XorSeqAcc(_, _, _, _)
XorSeqAcc(a, b, i, acc) == IF i > Len(a) THEN acc ELSE XorSeqAcc(a, b, i + 1, Append(acc, a[i] ^^ b[i]))
XorSeq(a, b) == XorSeqAcc(a, b, 1, << >>)             \* Len(a) = Len(b)
RadHmacMd5(key, msg) ==
   LET k0 == IF Len(key) > 64 THEN Md5(key) ELSE key
       k == k0 \o Zeros(64 - Len(k0))
   IN Md5(XorConst(k, 92) \o Md5(XorConst(k, 54) \o msg))

(* ------------------------------------------------------------------ User-Password hiding, RFC 2865 5.2 *)
\* p: the password padded with nulls to a multiple of 16 (at least 16); s: shared secret; ra: Request Authenticator
RECURSIVE HideAcc(_, _, _, _, _)
HideAcc(p, s, prev, i, acc) ==         \* prev = RA for the first chunk, then the previous ciphertext chunk
   IF i > Len(p) THEN acc
   ELSE LET c == XorSeq(SubSeq(p, i, i + 15), Md5(s \o prev)) IN HideAcc(p, s, c, i + 16, acc \o c)
Hide(p, s, ra) == HideAcc(p, s, ra, 1, << >>)
RECURSIVE UnhideAcc(_, _, _, _, _)
UnhideAcc(c, s, prev, i, acc) ==
   IF i > Len(c) THEN acc
   ELSE LET ci == SubSeq(c, i, i + 15) IN UnhideAcc(c, s, ci, i + 16, acc \o XorSeq(ci, Md5(s \o prev)))
Unhide(c, s, ra) == UnhideAcc(c, s, ra, 1, << >>)

(* ------------------------------------------------------------------ authenticators *)
\* replace the value of the attribute at 0-based offset off (value size n) by v
SetValue(p, off, v) == SubSeq(p, 1, off + 2) \o v \o SubSeq(p, off + 3 + Len(v), Len(p))
\* the 16 octets that stand in the Authenticator field while digests are computed
AuthInput(p, req) == IF p[1] \in RandomAuthCodes THEN RAuth(p)
                     ELSE IF p[1] \in ZeroAuthCodes THEN Z16
                     ELSE RAuth(req)                                 \* replies: Request Authenticator of the request
\* Message-Authenticator = HMAC-MD5(secret; Code Id Length AuthInput Attributes-with-this-attribute-zeroed)
MsgAuthValue(p, s, req, off) ==
   LET q == SubSeq(SetValue(RSetAuth(p, AuthInput(p, req)), off, Z16), 1, RLen(p)) IN RadHmacMd5(s, q)
\* Request Authenticator of accounting-style requests, Response Authenticator of replies
AuthValue(p, s, req) == Md5(SubSeq(RSetAuth(p, AuthInput(p, req)), 1, RLen(p)) \o s)

\* what signing must produce from a staged packet (password in clear, Message-Authenticator placeholder)
\*  -> [rc, pkt].  req = the request packet (only its Authenticator is used) for replies, << >> otherwise.
SignSpec(pre, cap, s, addma, req) ==
   LET a0 == Attrs(pre).items
       pw == OfType(a0, TUserPassword)
       p1 == IF Len(pw) = 0 THEN pre ELSE SetValue(pre, pw[1].off, Hide(pw[1].v, s, RAuth(pre)))
       ma0 == OfType(a0, TMsgAuth)
   IN IF addma /\ Len(ma0) > 0 THEN [rc |-> "exists", pkt |-> pre]
      ELSE IF addma /\ RLen(pre) + 18 > cap THEN [rc |-> "nospace", pkt |-> pre]
      ELSE LET p2 == IF addma THEN Append1(p1, cap, TMsgAuth, Z16).pkt ELSE p1
               ma == OfType(Attrs(p2).items, TMsgAuth)
               p3 == IF Len(ma) = 0 THEN p2 ELSE SetValue(p2, ma[1].off, MsgAuthValue(p2, s, req, ma[1].off))
               p4 == IF p3[1] \in RandomAuthCodes THEN p3 ELSE RSetAuth(p3, AuthValue(p3, s, req))
           IN [rc |-> "ok", pkt |-> p4]

\* what a receiver holding secret s (and, for replies, the request) must conclude about received octets p
AuthOk(p, s, req) == \/ p[1] \in RandomAuthCodes
                     \/ /\ p[1] \in ZeroAuthCodes \cup ReplyCodes
                        /\ (p[1] \in ReplyCodes => Len(req) >= RadHdr)
                        /\ RAuth(p) = AuthValue(p, s, req)
MsgAuthOk(p, s, req) == LET ma == OfType(Attrs(p).items, TMsgAuth) IN
                        Len(ma) = 0 \/ (Len(ma[1].v) = 16 /\ (p[1] \in ReplyCodes => Len(req) >= RadHdr)
                                        /\ ma[1].v = MsgAuthValue(p, s, req, ma[1].off))
Authentic(p, s, req) == Framed(p) /\ p[1] \in KnownCodes /\ AuthOk(p, s, req) /\ MsgAuthOk(p, s, req)

(* ------------------------------------------------------------------ self validation *)
\* RFC 2202 test cases 1 and 2 for HMAC-MD5
ASSUME RadHmacMd5(<<11,11,11,11,11,11,11,11,11,11,11,11,11,11,11,11>>, <<72,105,32,84,104,101,114,101>>)
       = <<146,148,114,122,54,56,187,28,19,244,142,248,21,139,252,157>>           \* 9294727a3638bb1c13f48ef8158bfc9d
ASSUME RadHmacMd5(<<74,101,102,101>>, <<119,104,97,116,32,100,111,32,121,97,32,119,97,110,116,32,102,111,114,32,110,111,116,104,105,110,103,63>>)
       = <<117,12,120,62,106,176,181,3,234,168,110,49,10,93,183,56>>              \* 750c783e6ab0b503eaa86e310a5db738
\* RFC 2865 7.1: secret "xyzzy5461", password "arctangent", the Access-Request and its Access-Accept
LOCAL Ex71Secret == <<120,121,122,122,121,53,52,54,49>>
LOCAL Ex71RA == <<15,64,63,148,115,151,128,87,189,131,213,203,152,244,34,122>>
LOCAL Ex71Pw == <<97,114,99,116,97,110,103,101,110,116,0,0,0,0,0,0>>
ASSUME Hide(Ex71Pw, Ex71Secret, Ex71RA) = <<13,190,112,141,147,212,19,206,49,150,228,63,120,42,10,238>>
ASSUME Unhide(Hide(Ex71Pw, Ex71Secret, Ex71RA), Ex71Secret, Ex71RA) = Ex71Pw
LOCAL Ex71Req == <<1,0,0,56>> \o Ex71RA \o <<1,6,110,101,109,111, 2,18>> \o Ex71Pw \o <<4,6,192,168,1,16, 5,6,0,0,0,3>>
LOCAL Ex71RepStaged == <<2,0,0,38>> \o Ex71RA \o <<6,6,0,0,0,1, 15,6,0,0,0,0, 14,6,192,168,1,3>>
ASSUME SignSpec(Ex71Req, 56, Ex71Secret, FALSE, << >>).pkt =
       <<1,0,0,56>> \o Ex71RA \o <<1,6,110,101,109,111, 2,18, 13,190,112,141,147,212,19,206,49,150,228,63,120,42,10,238,
                                   4,6,192,168,1,16, 5,6,0,0,0,3>>
ASSUME RAuth(SignSpec(Ex71RepStaged, 38, Ex71Secret, FALSE, Ex71Req).pkt) =
       <<134,254,34,14,118,36,186,42,16,5,246,191,155,85,224,178>>               \* 86fe220e7624ba2a1005f6bf9b55e0b2
ASSUME Authentic(SignSpec(Ex71RepStaged, 38, Ex71Secret, FALSE, Ex71Req).pkt, Ex71Secret, Ex71Req)
ASSUME ~Authentic(SignSpec(Ex71RepStaged, 38, Ex71Secret, FALSE, Ex71Req).pkt, <<120>>, Ex71Req)
=============================================================================
