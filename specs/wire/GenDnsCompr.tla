---------------------------- MODULE GenDnsCompr ----------------------------
(* Generator for C15: domain names at the RFC 1035 limits (1, 2, 63, 64, 65 and 127 labels; labels of 1, 61, 62 and 63
   octets; 253 octets of text) in the question, as owner names and inside RDATA (CNAME / NS / PTR / MX / SOA), written
   without and with compression pointers to earlier names.  One state per scenario (a list of records).

   TLC checks on the reference for every scenario: Dec(Enc(recs, FALSE)) = recs = Dec(Enc(recs, TRUE)); the plain
   encoding is what the DnsMsg builder steps produce when the caller hands over the RDATA octets; the compressed
   encoding is never longer and really contains pointers where names repeat; every name is a valid host name.
   The rig has the real builder assemble the plain message (names inside RDATA through DomainNameToSequenceOfLabels)
   and the real parser read back both encodings; names, types, classes, TTLs and data must be the scenario's.   *)
EXTENDS DnsCompr, TLC, Json
CONSTANTS Counts        \* label counts of the one-octet-label names
VARIABLES vNo
\* one-octet labels with position dependent content; T(j) = the last j of 127 labels, so T(i) is a suffix of T(j) for i < j
U == [i \in 1..127 |-> FillLabel(i, 1)]
T(j) == SubSeq(U, 128 - j, 127)
\* a sibling of T(j): same last j-1 labels, another first label (j >= 2)
X(j) == << << 45 >> >> \o T(j - 1)
\* long labels: V(k) = the last k of the labels of 61, 63, 63, 63 octets (text 253 when k = 4)
VL == << FillLabel(201, 61), FillLabel(202, 63), FillLabel(203, 63), FillLabel(204, 63) >>
V(k) == SubSeq(VL, 5 - k, 4)

Q(nm) == [sec |-> "qd", owner |-> nm, t |-> 1, c |-> 1]
RR(sec, nm, t, rd) == [sec |-> sec, owner |-> nm, t |-> t, c |-> 1, ttl |-> << 1, 20864 >>, rd |-> rd]
Bts(v) == [k |-> "b", v |-> v]
Nm(v) == [k |-> "n", v |-> v]
Serial == << 120, 1, 2, 3, 0, 0, 14, 16, 0, 0, 3, 132, 0, 9, 58, 128, 0, 0, 1, 44 >>
\* (a) the same name as question and as owner; (b) the name inside RDATA, one name per RDATA; (c) MX and SOA
ScA(j) == << Q(T(j)), RR("an", T(j), 1, << Bts(<< 192, 0, 2, 1 >>) >>), RR("ar", T(j), 16, << Bts(<< 2, 104, 105 >>) >>) >>
ScB(j) == << Q(T(1)), RR("an", T(2), 5, << Nm(T(j)) >>), RR("ns", T(j), 2, << Nm(T(j)) >>), RR("ar", T(1), 12, << Nm(T(j)) >>) >>
ScC(j) == << Q(T(2)), RR("an", T(2), 15, << Bts(<< 0, 10 >>), Nm(T(j)) >>),
             RR("ns", T(1), 6, << Nm(T(j)), Nm(IF j >= 2 THEN X(j) ELSE << << 45 >> >>), Bts(Serial) >>) >>
\* (d) own labels followed by a pointer into the middle of an earlier name; (e) long labels
ScD == << Q(T(64)), RR("an", T(127), 5, << Nm(T(65)) >>), RR("an", X(127), 15, << Bts(<< 255, 255 >>), Nm(X(64)) >>), RR("ar", T(63), 1, << Bts(<< 10, 0, 0, 1 >>) >>) >>
ScE == << Q(V(3)), RR("an", V(4), 5, << Nm(<< FillLabel(9, 1) >> \o V(3)) >>), RR("ns", V(2), 15, << Bts(<< 0, 0 >>), Nm(<< FillLabel(8, 62) >> \o V(2)) >>),
          RR("ar", V(1), 6, << Nm(V(4)), Nm(<< FillLabel(7, 61) >> \o V(3)), Bts(Serial) >>) >>
CountSeq == LET RECURSIVE F(_, _)
                F(S, acc) == IF S = { } THEN acc ELSE LET x == CHOOSE y \in S : \A z \in S : y <= z IN F(S \ { x }, Append(acc, x))
            IN F(Counts, << >>)
Scenarios == [i \in 1..Len(CountSeq) |-> ScA(CountSeq[i])] \o [i \in 1..Len(CountSeq) |-> ScB(CountSeq[i])]
             \o [i \in 1..Len(CountSeq) |-> ScC(CountSeq[i])] \o << ScD, ScE >>
NSc == 3 * Len(CountSeq) + 2
Init == vNo \in 1..NSc
Next == FALSE /\ UNCHANGED vNo
Spec == Init /\ [][Next]_vNo

Id == << 18, 52 >>
Fl == << 129, 128 >>
Recs == Scenarios[vNo]
Plain == Enc(Id, Fl, Recs, FALSE)
Comp == Enc(Id, Fl, Recs, TRUE)

\* the RDATA octets the caller of dns_msg_rr_add hands over: the parts one after the other, names label by label
RECURSIVE Flat(_, _, _)
Flat(rd, i, acc) == IF i > Len(rd) THEN acc ELSE Flat(rd, i + 1, acc \o (IF rd[i].k = "b" THEN rd[i].v ELSE WireOfLabels(rd[i].v)))
RECURSIVE BuildR(_, _, _)
BuildR(recs, i, m) ==
   IF i > Len(recs) THEN m
   ELSE LET r == recs[i]
            s == IF r.sec = "qd" THEN AddQuestion(m, 65535, Join(r.owner), r.t, r.c)
                 ELSE AddRR(m, 65535, r.sec, Join(r.owner), r.t, r.c, r.ttl, Flat(r.rd, 1, << >>))
        IN IF s.rc # "ok" THEN << >> ELSE BuildR(recs, i + 1, s.msg)
Built == BuildR(Recs, 1, HdrCreate(65535, Id, Fl).msg)

AllNames == { Recs[i].owner : i \in 1..Len(Recs) }
            \cup UNION { { Recs[i].rd[q].v : q \in { q \in 1..Len(Recs[i].rd) : Recs[i].rd[q].k = "n" } } : i \in { i \in 1..Len(Recs) : Recs[i].sec # "qd" } }
RoundTrip == LET dp == Dec(Plain)   dc == Dec(Comp) IN
   /\ dp.ok /\ dp.recs = Recs /\ dp.next = Len(Plain) + 1
   /\ dc.ok /\ dc.recs = Recs /\ dc.next = Len(Comp) + 1
BuilderAgrees == Built = Plain /\ Validate(Plain) /\ Parse(Plain).size = Len(Plain)
Compresses == Len(Comp) < Len(Plain) /\ \E p \in (HdrSize + 1)..Len(Comp) : Comp[p] >= 192
NamesValid == \A nm \in AllNames : ValidHostName(Join(nm)) /\ Labels(Join(nm)) = nm /\ Len(WireOfLabels(nm)) <= 255
Limits == vNo = NSc - 1 => { Len(nm) : nm \in AllNames } = { 63, 64, 65, 127 }

Txt(r) == [sec |-> r.sec, name |-> Join(r.owner), nlabels |-> Len(r.owner), t |-> r.t, c |-> r.c] @@
          (IF r.sec = "qd" THEN [ttl |-> << 0, 0 >>, rd |-> << >>]
           ELSE [ttl |-> r.ttl, rd |-> [q \in 1..Len(r.rd) |-> [k |-> r.rd[q].k, v |-> IF r.rd[q].k = "b" THEN r.rd[q].v ELSE Join(r.rd[q].v)]]])
Emit == PrintT(ToJson([no |-> vNo, recs |-> [i \in 1..Len(Recs) |-> Txt(Recs[i])], plain |-> Plain, comp |-> Comp]))
=============================================================================
