------------------------------- MODULE HpMisc -------------------------------
(* C13: token alphabet for SDP (include/proto/sdp.h: sdp_msg_type_get, sdp_msg_type_get_count,
   sdp_msg_feilds_get, sdp_msg_sec_chk); definitions only, the generator is HpTok and the family
   tables are in HpText.  The preambles let short token sequences reach the code behind the
   "starts with v=0 CRLF" and "at least 16 bytes" gates.  RTP, SAP and MPEG-TS have their own
   field-product generators: HpRtp, HpSap, HpTs.                                          *)

SdpTokens == <<
   (* CRLF='\r\n'  CR='\r'  LF='\n'  A='a'  EQ='='  V0='v=0'  SP=' '  M='m' *)
   [n |-> "CRLF", b |-> <<13, 10>>, c |-> "crlf", hot |-> FALSE],
   [n |-> "CR", b |-> <<13>>, c |-> "cr", hot |-> FALSE],
   [n |-> "LF", b |-> <<10>>, c |-> "lf", hot |-> FALSE],
   [n |-> "A", b |-> <<97>>, c |-> "text", hot |-> FALSE],
   [n |-> "EQ", b |-> <<61>>, c |-> "eq", hot |-> FALSE],
   [n |-> "V0", b |-> <<118, 61, 48>>, c |-> "text", hot |-> FALSE],
   [n |-> "SP", b |-> <<32>>, c |-> "ws", hot |-> FALSE],
   [n |-> "M", b |-> <<109>>, c |-> "text", hot |-> FALSE] >>

SdpPres == <<
   [n |-> "none", b |-> <<>>, c |-> "empty"],
   [n |-> "V0LINE", b |-> <<118, 61, 48, 13, 10>>, c |-> "crlf"],
   [n |-> "VALID", b |-> <<118, 61, 48, 13, 10, 111, 61, 120, 13, 10, 115, 61, 120, 13, 10, 116, 61, 48, 32, 48, 13, 10, 99, 61, 120, 13, 10, 109, 61, 120>>, c |-> "text"] >>
=============================================================================
