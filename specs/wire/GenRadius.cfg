SPECIFICATION Spec
CONSTANTS
  Caps = {44, 62}
  Inits <- DeepInits
  InitOnly <- DeepInits
  Steps <- DeepSteps
  MaxOps = 5
INVARIANTS ListBack LenField AuthField TypedIsWellFormed Refusal
CONSTRAINT Emit
CHECK_DEADLOCK FALSE
