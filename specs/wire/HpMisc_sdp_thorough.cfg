SPECIFICATION Spec
CONSTANTS
  Tokens <- SdpTokens
  Pres <- SdpPres
  MaxLen = 5
INVARIANTS SizeLaw ByteLaw ClassLaw
CONSTRAINT Emit
CHECK_DEADLOCK FALSE
