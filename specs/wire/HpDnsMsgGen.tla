--------------------------- MODULE HpDnsMsgGen ---------------------------
(* C13 generator: DNS messages whose header counts may disagree with the content, records that
   are cut or declare more data than follows, and truncation at every byte.
   State = header counts + a sequence of record ITEMS + a cut (bytes removed from the end).
   For every state the reference validation (HpDns!Validate) gives the expected verdict, the
   section offsets and the class of the input.

   Rendering table (hex):
     QA  01 61 00 0001 0001                 question "a" A IN
     QP  c0 0c 0001 0001                    question, name = pointer to offset 12
     QT  01 61 00 0001                      question, fixed part cut after 2 bytes
     RA  c0 0c 0001 0001 00000000 0004 7f000001          RR, 4 data bytes
     RZ  00 0029 1000 00000000 0000                      OPT-like RR, root name, no data
     RL  c0 0c 0001 0001 00000000 0008 aabb              RR declaring 8 data bytes, 2 present
     RH  c0 0c 0001 0001 00000000 ffff                   RR declaring 65535 data bytes
     RN  01 61 00 0010 0001 00000000 0000                RR with a plain name
     RS  c0 0c 0001 0001 00                              RR, fixed part cut after 5 bytes
     N1  01 61                                           a label and nothing else
     PH  c0                                              half of a pointer
   Header: 12 34 01 00 qd an ns ar (16 bit each, big endian)                               *)
EXTENDS HpDns, TLC, Json
CONSTANTS Items, MaxItems, QdSet, AnSet, NsSet, ArSet, CutAll
VARIABLES hdr, its, cut, cs

IB(k) == CASE k = "QA" -> <<1, 97, 0, 0, 1, 0, 1>>
           [] k = "QP" -> <<192, 12, 0, 1, 0, 1>>
           [] k = "QT" -> <<1, 97, 0, 0, 1>>
           [] k = "RA" -> <<192, 12, 0, 1, 0, 1, 0, 0, 0, 0, 0, 4, 127, 0, 0, 1>>
           [] k = "RZ" -> <<0, 0, 41, 16, 0, 0, 0, 0, 0, 0, 0>>
           [] k = "RL" -> <<192, 12, 0, 1, 0, 1, 0, 0, 0, 0, 0, 8, 170, 187>>
           [] k = "RH" -> <<192, 12, 0, 1, 0, 1, 0, 0, 0, 0, 255, 255>>
           [] k = "RN" -> <<1, 97, 0, 0, 16, 0, 1, 0, 0, 0, 0, 0, 0>>
           [] k = "RS" -> <<192, 12, 0, 1, 0, 1, 0>>
           [] k = "N1" -> <<1, 97>>
           [] k = "PH" -> <<192>>

W16(v) == <<v \div 256, v % 256>>
Hdr(h) == <<18, 52, 1, 0>> \o W16(h[1]) \o W16(h[2]) \o W16(h[3]) \o W16(h[4])
RECURSIVE Body(_)
Body(s) == IF s = <<>> THEN <<>> ELSE IB(Head(s)) \o Body(Tail(s))
Full(h, s) == Hdr(h) \o Body(s)

MkCase(h, s, c) ==
   LET f == Full(h, s)
       m == SubSeq(f, 1, Len(f) - c)
       v == Validate(m)
   IN [counts |-> h, items |-> s, cut |-> c, bytes |-> m, full |-> Len(f),
       ok |-> v.ok, why |-> v.why, offs |-> v.offs,
       q12 |-> IF Len(m) >= HdrSize THEN RecClass(m, HdrSize, TRUE) ELSE "hdr-short",
       rr12 |-> IF Len(m) >= HdrSize THEN RecClass(m, HdrSize, FALSE) ELSE "hdr-short"]

(* cuts that reach into the header give the same bytes whatever the items are: only for its = <<>> *)
CutSet(full, s) == {c \in 1..full : /\ (full - c >= HdrSize \/ s = <<>>)
                                    /\ (CutAll \/ c <= 12 \/ c > full - 12)}
Init == /\ hdr \in QdSet \X AnSet \X NsSet \X ArSet
        /\ its = <<>> /\ cut = 0 /\ cs = MkCase(hdr, <<>>, 0)
Grow == /\ cut = 0 /\ Len(its) < MaxItems
        /\ \E k \in Items : its' = Append(its, k)
        /\ UNCHANGED <<hdr, cut>>
        /\ cs' = MkCase(hdr, its', 0)
Chop == /\ cut = 0
        /\ \E c \in CutSet(cs.full, its) : cut' = c
        /\ UNCHANGED <<hdr, its>>
        /\ cs' = MkCase(hdr, its, cut')
Next == Grow \/ Chop
Spec == Init /\ [][Next]_<<hdr, its, cut, cs>>

(* ---- checked on the spec ---- *)
Mono(q) == \A i \in 1..(Len(q) - 1) : q[i] <= q[i + 1]
RefConsistent == cs.ok => /\ Len(cs.offs) = 5 /\ cs.offs[1] = HdrSize
                          /\ Mono(cs.offs) /\ cs.offs[5] <= Len(cs.bytes)
RefErrHasClass == (~cs.ok) <=> (cs.why # "ok")
SizeLaw == Len(cs.bytes) = cs.full - cut
Emit == PrintT(ToJson(cs))
=============================================================================
