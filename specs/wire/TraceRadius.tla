----------------------------- MODULE TraceRadius -----------------------------
(* Mode C trace evaluation for the RADIUS MD5 chains (C15).  The driver logs, one JSON object per line
   (file named by the environment variable TRACE):
     {"e":"sign", cap, pre, secret, addma, req, rc, post, chk, ver, vpost}
          a staged packet `pre` signed with radius_pkt_sign -> `post`; radius_pkt_chk / radius_pkt_verify of
          the result (vpost = the octets after verification, i.e. with the User-Password un-hidden)
     {"e":"recv", pkt, secret, req, chk, ver}
          octets received (a corrupted signed packet, or a good one checked under another secret)
     {"e":"pw", auth, pw, secret, rc, enc, short, drc, dec}
          radius_pkt_attr_password_encode / _decode
   TLC evaluates the RFC reference (module Radius over Md5) on every line and prints a verdict record; the
   rig only collects the booleans.  State = the line number; there is no other state space.            *)
EXTENDS Radius, TLC, Json, IOUtils
Tr == ndJsonDeserialize(IOEnv.TRACE)
VARIABLE l
Init == l = 1
Next == l <= Len(Tr) /\ l' = l + 1
Spec == Init /\ [][Next]_l

SignVerdict(ev) ==
   LET x == SignSpec(ev.pre, ev.cap, ev.secret, ev.addma = 1, ev.req)
       pw == OfType(Attrs(ev.pre).items, TUserPassword)
       wf == x.rc = "ok" /\ WellFormed(x.pkt)
   IN [e |-> "sign", class |-> x.rc, wf |-> wf,
       ma |-> x.rc = "ok" /\ Len(OfType(Attrs(x.pkt).items, TMsgAuth)) > 0,
       rc_ok |-> (x.rc = "ok") = (ev.rc = 0),
       nospace_ok |-> (x.rc = "nospace") => ev.rc = 75,
       bytes_ok |-> (x.rc = "ok" /\ ev.rc = 0) => ev.post = x.pkt,
       expect |-> IF x.rc = "ok" THEN x.pkt ELSE << >>,
       \* a packet this reference calls well formed and authentic must be accepted by the receiver side
       accept_ok |-> (wf /\ ev.rc = 0) => (ev.chk = 0 /\ ev.ver = 0),
       chk_ok |-> (x.rc = "ok" /\ ev.rc = 0) => ((ev.chk = 0) = wf),
       \* un-hiding inverts hiding: after verification the User-Password value is the staged clear text again
       unhide_ok |-> (wf /\ ev.rc = 0 /\ ev.ver = 0 /\ Len(pw) > 0) =>
                        ev.vpost = SetValue(x.pkt, pw[1].off, pw[1].v),
       \* on the reference itself: the signed packet is authentic, and un-hiding inverts hiding
       self_ok |-> (x.rc = "ok" /\ ev.deep = 1) =>
                       /\ Authentic(x.pkt, ev.secret, ev.req)
                       /\ (Len(pw) > 0 => Unhide(OfType(Attrs(x.pkt).items, TUserPassword)[1].v, ev.secret, RAuth(x.pkt)) = pw[1].v)]
RecvVerdict(ev) ==
   LET a == Authentic(ev.pkt, ev.secret, ev.req)
       rejected == ev.chk # 0 \/ ev.ver # 0
   IN [e |-> "recv", authentic |-> a, rejected |-> rejected, ok |-> (~a => rejected)]
PwVerdict(ev) ==
   LET n == Len(ev.pw)
       padded == ev.pw \o Zeros(PadLen(n) - n)
       h == IF n <= 128 THEN Hide(padded, ev.secret, ev.auth) ELSE << >>
   IN [e |-> "pw", n |-> n,
       rc_ok |-> (n <= 128) = (ev.rc = 0),
       enc_ok |-> (n <= 128 /\ ev.rc = 0) => ev.enc = h,
       short_ok |-> n <= 128 => ev.short # 0,
       dec_ok |-> (n <= 128 /\ ev.rc = 0) => (ev.drc = 0 /\ ev.dec = padded),
       self_ok |-> n <= 128 => Unhide(h, ev.secret, ev.auth) = padded,
       expect |-> h]
Verdict(ev) == CASE ev.e = "sign" -> SignVerdict(ev) [] ev.e = "recv" -> RecvVerdict(ev) [] ev.e = "pw" -> PwVerdict(ev)
Emit == l > Len(Tr) \/ PrintT(ToJson([i |-> l] @@ Verdict(Tr[l])))
=============================================================================
