SPECIFICATION Spec
CONSTANTS
  Tokens <- UrlTokens
  Pres <- NoPres
  MaxLen = 5
INVARIANTS SizeLaw ByteLaw ClassLaw
CONSTRAINT Emit
CHECK_DEADLOCK FALSE
