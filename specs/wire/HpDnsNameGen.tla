--------------------------- MODULE HpDnsNameGen ---------------------------
(* C13 generator: hostile DNS names.  State = a message body as a sequence of abstract ITEMS
   (after a fixed 12 byte header) and a number of bytes cut from the end.  The reachable
   states are the corpus; for every state TLC evaluates the reference walk (HpDns!Walk) from
   every item offset and from offset = msg_size, checks ON THE SPEC that each walk terminates
   within the analytic bound and never looks at a byte outside the message, and prints the case.

   Rendering table (item -> bytes; o = offset of the item, T = uncut message size):
     L1    01 61            label "a"                 L2   02 62 63   label "bc"
     Z     00               end of name               LB   3f         label length 63, data = whatever follows
     R4    40               label type 01             R8   80         label type 10
     PH    c0               first half of a pointer
     Pself c0|o             pointer to itself         Pprev pointer to the previous item (or 12)
     Pnext pointer to o+2 (forward; = T when last)    Pfirst c0 0c  pointer to offset 12
     Phdr  c0 0b            pointer into the header   Pend  pointer to T      Pbey pointer to T+1
   Header: 12 34 01 00 00 00 00 00 00 00 00 00                                              *)
EXTENDS HpDns, TLC, Json
CONSTANTS Items, MaxItems, Cuts, Prefix
VARIABLES its, cut, cs

Header == <<18, 52, 1, 0, 0, 0, 0, 0, 0, 0, 0, 0>>

ISize(k) == CASE k = "L1" -> 2 [] k = "L2" -> 3 [] k \in {"Z", "LB", "R4", "R8", "PH"} -> 1 [] OTHER -> 2

RECURSIVE Offs(_, _, _)          \* offsets of all items, as a sequence
Offs(s, i, o) == IF i > Len(s) THEN <<>> ELSE <<o>> \o Offs(s, i + 1, o + ISize(s[i]))
RECURSIVE Total(_, _)
Total(s, i) == IF i > Len(s) THEN HdrSize ELSE ISize(s[i]) + Total(s, i + 1)

Ptr(t) == <<192 + (t \div 256), t % 256>>
IBytes(k, o, prev, T) ==
   CASE k = "L1" -> <<1, 97>>      [] k = "L2" -> <<2, 98, 99>>  [] k = "Z" -> <<0>>
     [] k = "LB" -> <<63>>         [] k = "R4" -> <<64>>         [] k = "R8" -> <<128>>
     [] k = "PH" -> <<192>>
     [] k = "Pself" -> Ptr(o)      [] k = "Pprev" -> Ptr(prev)   [] k = "Pnext" -> Ptr(o + 2)
     [] k = "Pfirst" -> Ptr(12)    [] k = "Phdr" -> Ptr(11)      [] k = "Pend" -> Ptr(T)
     [] k = "Pbey" -> Ptr(T + 1)

RECURSIVE Body(_, _, _, _)
Body(s, offs, i, T) ==
   IF i > Len(s) THEN <<>>
   ELSE IBytes(s[i], offs[i], IF i = 1 THEN 12 ELSE offs[i - 1], T) \o Body(s, offs, i + 1, T)

Render(s, c) == LET T == Total(s, 1)
                    full == Header \o Body(s, Offs(s, 1, HdrSize), 1, T)
                IN SubSeq(full, 1, Len(full) - c)

RECURSIVE SetToSeq(_)
SetToSeq(S) == IF S = {} THEN <<>> ELSE LET x == CHOOSE y \in S : \A z \in S : y <= z
                                        IN <<x>> \o SetToSeq(S \ {x})
Wk(m, o) == LET r == Walk(m, o) IN
            [off |-> o, ok |-> r.ok, why |-> r.why, cls |-> Coarse(r.why), name |-> r.name, jumps |-> r.jumps,
             inside |-> WalkInside(m, r)]
RECURSIVE Walks(_, _)
Walks(m, st) == IF st = <<>> THEN <<>> ELSE <<Wk(m, Head(st))>> \o Walks(m, Tail(st))

MkCase(s, c) ==
   LET m    == Render(s, c)
       n    == Len(m)
       offs == Offs(s, 1, HdrSize)
       st   == SetToSeq({ offs[i] : i \in {j \in 1..Len(offs) : offs[j] < n} } \cup {HdrSize, n})
       le   == LabelsEnd(m, HdrSize)
   IN [items |-> s, cut |-> c, bytes |-> m, total |-> Total(s, 1), walks |-> Walks(m, st),
       lbl_ok |-> le.ok, lbl_end |-> le.end]

(* values for the CONSTANT Prefix / Cuts that a .cfg file cannot spell *)
NoPrefix == <<>>
(* "a" + a pointer to it + 58 pointers each to the one before: the chain configuration appends up to 8 more,
   so the walks from the last items make 60..67 jumps and cross the limit of 64 *)
ChainPrefix == <<"L1", "Z", "Pfirst">> \o [i \in 1..58 |-> "Pprev"]
NoCuts == {}

Init == its = Prefix /\ cut = 0 /\ cs = MkCase(Prefix, 0)
Grow == /\ cut = 0 /\ Len(its) < MaxItems
        /\ \E k \in Items : its' = Append(its, k)
        /\ cut' = 0
        /\ cs' = MkCase(its', 0)
Chop == /\ cut = 0 /\ Len(its) > 0
        /\ \E c \in Cuts : c < cs.total - HdrSize /\ cut' = c
        /\ its' = its
        /\ cs' = MkCase(its, cut')
Next == Grow \/ Chop
Spec == Init /\ [][Next]_<<its, cut, cs>>

(* ---- checked by TLC on the spec, for every generated packet and every start offset ---- *)
RefInside == \A i \in 1..Len(cs.walks) : cs.walks[i].inside
RefNameBytes == \A i \in 1..Len(cs.walks) : LET w == cs.walks[i] IN
                   /\ \A j \in 1..Len(w.name) : w.name[j] \in 0..255
                   /\ (~w.ok => w.why \notin {"plain", "compressed"})
SizeLaw == Len(cs.bytes) = cs.total - cut /\ Len(cs.bytes) >= HdrSize
Emit == PrintT(ToJson(cs))
=============================================================================
