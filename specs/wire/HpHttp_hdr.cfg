SPECIFICATION Spec
CONSTANTS
  Tokens <- HdrTokens
  Pres <- HdrPres
  MaxLen = 4
INVARIANTS SizeLaw ByteLaw ClassLaw
CONSTRAINT Emit
CHECK_DEADLOCK FALSE
