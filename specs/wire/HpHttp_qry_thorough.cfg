SPECIFICATION Spec
CONSTANTS
  Tokens <- QryTokens
  Pres <- NoPres
  MaxLen = 8
INVARIANTS SizeLaw ByteLaw ClassLaw
CONSTRAINT Emit
CHECK_DEADLOCK FALSE
