SPECIFICATION Spec
CONSTANTS
  Tokens <- SdpTokens
  Pres <- SdpPres
  MaxLen = 3
INVARIANTS SizeLaw ByteLaw ClassLaw
CONSTRAINT Emit
CHECK_DEADLOCK FALSE
