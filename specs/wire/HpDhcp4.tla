------------------------------- MODULE HpDhcp4 -------------------------------
(* C13 generator + envelope: DHCPv4 messages (include/proto/dhcpv4.h, dhcp4_hdr_check - the only
   parser the header offers; the option items below still vary what follows the fixed header).
   Packet = BOOTP header (236 bytes: op, htype, hlen, hops, 24 zero bytes of xid..giaddr,
   chaddr 16, sname 64, file 128) + magic cookie (4) + option ITEMS; then the packet is cut to
   `size` bytes (size = -1: not cut).
   Options:  PAD 00 | END ff | MT 35 01 01 (message type) | OVL 34 01 03 (overload file+sname)
             | RUN 3d 40 01 (declares 64 bytes, 1 present) | HALF 35 (code without length)
   Envelope: fewer than 240 bytes cannot hold the header and the cookie: must be refused.     *)
EXTENDS Integers, Sequences, TLC, Json
CONSTANTS Ops, Htypes, Hlens, Cookies, Opts, MaxOpts, CutTo
VARIABLES f, opts, size, cs
Rep(b, n) == [i \in 1..n |-> b]
OB(k) == CASE k = "PAD" -> <<0>> [] k = "END" -> <<255>> [] k = "MT" -> <<53, 1, 1>>
           [] k = "OVL" -> <<52, 1, 3>> [] k = "RUN" -> <<61, 64, 1>> [] k = "HALF" -> <<53>>
CookieB(c) == CASE c = "good" -> <<99, 130, 83, 99>> [] c = "bad4" -> <<99, 130, 83, 98>>
                [] c = "zero" -> <<0, 0, 0, 0>>
RECURSIVE Body(_)
Body(s) == IF s = <<>> THEN <<>> ELSE OB(Head(s)) \o Body(Tail(s))
Full(r, s) == <<r.op, r.htype, r.hlen, 0>> \o Rep(0, 24) \o Rep(2, 16) \o Rep(0, 64) \o Rep(0, 128)
              \o CookieB(r.cookie) \o Body(s)
MkCase(r, s, z) == LET u == Full(r, s)
                       m == IF z < 0 \/ z >= Len(u) THEN u ELSE SubSeq(u, 1, z) IN
   [fields |-> r, opts |-> s, bytes |-> m, full |-> Len(u),
    why |-> IF Len(m) < 240 THEN "hdr-cut" ELSE IF Len(m) = 240 THEN "no-options" ELSE "hdr-full",
    must_refuse |-> Len(m) < 240]
Init == /\ f \in [op : Ops, htype : Htypes, hlen : Hlens, cookie : Cookies]
        /\ opts = <<>> /\ size = -1 /\ cs = MkCase(f, <<>>, -1)
Grow == /\ size = -1 /\ Len(opts) < MaxOpts
        /\ \E k \in Opts : opts' = Append(opts, k)
        /\ UNCHANGED <<f, size>> /\ cs' = MkCase(f, opts', -1)
Chop == /\ size = -1
        /\ \E z \in CutTo : z < cs.full /\ (z >= 240 \/ opts = <<>>) /\ size' = z
        /\ UNCHANGED <<f, opts>> /\ cs' = MkCase(f, opts, size')
Next == Grow \/ Chop
Spec == Init /\ [][Next]_<<f, opts, size, cs>>
SizeLaw == Len(cs.bytes) = (IF size < 0 THEN cs.full ELSE size) /\ cs.full >= 240
Emit == PrintT(ToJson(cs))
=============================================================================
