SPECIFICATION Spec
CONSTANTS
  Tokens <- ChkTokens
  Pres <- NoPres
  MaxLen = 4
INVARIANTS SizeLaw ByteLaw ClassLaw
CONSTRAINT Emit
CHECK_DEADLOCK FALSE
