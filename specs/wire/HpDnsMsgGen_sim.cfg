SPECIFICATION Spec
CONSTANTS
  Items = {"QA", "QP", "QT", "RA", "RZ", "RL", "RH", "RN", "RS", "N1", "PH"}
  MaxItems = 8
  QdSet = {0, 1, 2, 3}
  AnSet = {0, 1, 2, 3, 65535}
  NsSet = {0, 1, 2}
  ArSet = {0, 1, 2}
  CutAll = TRUE
INVARIANTS RefConsistent RefErrHasClass SizeLaw
CONSTRAINT Emit
CHECK_DEADLOCK FALSE
