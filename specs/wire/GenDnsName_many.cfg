SPECIFICATION Spec
CONSTANTS
  LabelLens = {1}
  MaxLabels = 128
INVARIANTS SplitAgrees RoundTrip SizeLaw ValidIsHost
CONSTRAINT Emit
CHECK_DEADLOCK FALSE
