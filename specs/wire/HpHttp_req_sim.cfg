SPECIFICATION Spec
CONSTANTS
  Tokens <- ReqTokens
  Pres <- ReqPres
  MaxLen = 10
INVARIANTS SizeLaw ByteLaw ClassLaw
CONSTRAINT Emit
CHECK_DEADLOCK FALSE
