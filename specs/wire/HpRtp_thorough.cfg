SPECIFICATION Spec
CONSTANTS
  Versions = {1, 2, 3}
  PBits = {0, 1}
  XBits = {0, 1}
  CCs = {0, 1, 2, 15}
  Csrcs = {0, 1}
  Exts = {"none", "H2", "E0", "E1", "E1c", "EF"}
  Pays = {0, 1, 3}
  Lasts = {0, 1, 4, 255}
  Cuts = {1, 2, 3, 4, 5, 6, 7, 8, 9, 10, 11, 12, 13, 14, 15, 16, 17, 18, 19, 20, 21, 22, 23, 24, 25, 26, 27, 28}
INVARIANTS EnvInside SizeLaw
CONSTRAINT Emit
CHECK_DEADLOCK FALSE
