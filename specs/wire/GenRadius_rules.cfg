SPECIFICATION Spec
CONSTANTS
  Caps = {19, 20, 21, 300}
  Inits <- DeepInits
  InitOnly <- AllInits
  Steps <- RuleSteps
  MaxOps = 2
INVARIANTS ListBack LenField AuthField TypedIsWellFormed Refusal
CONSTRAINT Emit
CHECK_DEADLOCK FALSE
