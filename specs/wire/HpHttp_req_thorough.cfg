SPECIFICATION Spec
CONSTANTS
  Tokens <- ReqTokens
  Pres <- ReqPres
  MaxLen = 5
INVARIANTS SizeLaw ByteLaw ClassLaw
CONSTRAINT Emit
CHECK_DEADLOCK FALSE
