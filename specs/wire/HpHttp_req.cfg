SPECIFICATION Spec
CONSTANTS
  Tokens <- ReqTokens
  Pres <- ReqPres
  MaxLen = 4
INVARIANTS SizeLaw ByteLaw ClassLaw
CONSTRAINT Emit
CHECK_DEADLOCK FALSE
