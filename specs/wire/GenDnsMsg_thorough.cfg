SPECIFICATION Spec
CONSTANTS
  Caps = {11, 12, 13, 30, 36, 47, 59, 64}
  Ids <- ThorIds
  Flags <- QuickFlags
  QTpl <- ThorQ
  RRTpl <- ThorRR
  OptTpl <- QuickOpt
  Chain = FALSE
  EmitFrom = 0
  MaxOps = 7
INVARIANTS ParseBack Valid Fits Refusal NamesValid
CONSTRAINT Emit
CHECK_DEADLOCK FALSE
