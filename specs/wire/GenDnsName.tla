----------------------------- MODULE GenDnsName -----------------------------
(* Generator for the name <-> label-sequence part of C15.  State = the list of label lengths of one
   name (labels are filled deterministically); the reachable states are the corpus.  TLC checks on the
   reference that every valid host name round-trips through the wire form and obeys the RFC 1035 size
   laws, and emits (text, class, wire) for the conformance driver. *)
EXTENDS DnsName, TLC, Json
CONSTANTS LabelLens, MaxLabels
VARIABLES ll, name      \* name = NameOfLens(ll), kept in the state so that it is evaluated once
Init == ll = << >> /\ name = << >>
Next == /\ Len(ll) < MaxLabels
        /\ \E n \in LabelLens : ll' = Append(ll, n) /\ name' = NameOfLens(ll')
Spec == Init /\ [][Next]_<<ll, name>>

Class == IF Len(name) = 0 THEN "root"                      \* no labels (or the single empty label): the root
         ELSE IF ~Encodable(name) THEN "invalid"            \* an empty or > 63 byte label: no RFC encoding exists
         ELSE IF Len(name) > MaxNameText THEN "toolong"     \* encodable label by label but over 255 octets
         ELSE "valid"

SplitAgrees == Len(name) > 0 => LET L == Labels(name) IN (Len(L) = Len(ll) /\ \A i \in 1..Len(ll) : Len(L[i]) = ll[i])
RoundTrip == Class \in {"valid", "toolong", "root"} =>
                LET w == Wire(name) u == UnWire(w, 1) IN
                /\ u.ok /\ u.next = Len(w) + 1
                /\ Join(u.labels) = name
                /\ Len(w) = WireLen(name)
SizeLaw == Class = "valid" <=> (Len(name) > 0 /\ Encodable(name) /\ Len(Wire(name)) <= 255)
ValidIsHost == Class = "valid" <=> ValidHostName(name)
Emit == PrintT(ToJson([lens |-> ll, name |-> name, class |-> Class,
                       wire |-> IF Class = "invalid" THEN << >> ELSE Wire(name)]))
=============================================================================
