------------------------------- MODULE DnsMsg -------------------------------
(* RFC 1035 section 4 message format: the BUILDER side as a state machine over the byte sequence, and an
   independent PARSER/validator, both as plain mathematics.  Reference for liblcb include/proto/dns.h:
   dns_hdr_create, dns_msg_question_add, dns_msg_rr_add (+ dns_hdr_an/ns/ar_inc), dns_msg_optrr_add (C15).

   A message is a sequence of bytes 0..255.  Header (12 octets): ID(2) FLAGS(2) QDCOUNT ANCOUNT NSCOUNT
   ARCOUNT (big-endian 16 bit each).  ID and FLAGS are opaque two-octet strings here (the library stores
   them exactly as given).  Question = QNAME QTYPE(2) QCLASS(2).  RR = NAME TYPE(2) CLASS(2) TTL(4)
   RDLENGTH(2) RDATA.  OPT pseudo-RR (RFC 2671 4.3) = root NAME, TYPE 41, CLASS = UDP payload size,
   TTL = ext-rcode, version, flags(2), RDLENGTH, RDATA.  32-bit TTLs are pairs << hi16, lo16 >>.

   Every builder step takes (message, capacity of the buffer) and yields [rc, need, msg]:
     "ok"       appended (msg is the new message, need = its size)
     "nospace"  the step does not fit in the buffer (need = size it would have had); msg unchanged
     "invalid"  the name has an empty or > 63 octet label (no RFC encoding exists); msg unchanged
     "fail"     both of the above; which of the two the library reports is not prescribed
     "unspec"   the name is encodable label by label but longer than 255 octets on the wire: outside the
                property's quantifier; msg = what a label-by-label encoder would produce *)
EXTENDS DnsName

HdrSize == 12
TypeOPT == 41
Be16(v) == << v \div 256, v % 256 >>
U16At(m, p) == m[p] * 256 + m[p + 1]               \* 1-based position

\* counters live in the header bytes: index 1=QD 2=AN 3=NS 4=AR
CountPos(k) == 3 + 2 * k
Count(m, k) == U16At(m, CountPos(k))
IncCount(m, k) == LET v == (Count(m, k) + 1) % 65536 p == CountPos(k) IN
   [m EXCEPT ![p] = v \div 256, ![p + 1] = v % 256]
SecIdx(sec) == CASE sec = "an" -> 2 [] sec = "ns" -> 3 [] sec = "ar" -> 4

HdrCreate(cap, id, flags) ==
   IF cap < HdrSize THEN [rc |-> "nospace", need |-> HdrSize, msg |-> << >>]
   ELSE [rc |-> "ok", need |-> HdrSize, msg |-> id \o flags \o <<0, 0, 0, 0, 0, 0, 0, 0>>]

\* common part of question / RR: fixed = number of octets after the name
NameStep(m, cap, nm, fixed, tail, cnt) ==
   LET need == Len(m) + WireLen(nm) + fixed IN
   IF need > cap THEN [rc |-> IF Encodable(nm) THEN "nospace" ELSE "fail", need |-> need, msg |-> m]
   ELSE IF ~Encodable(nm) THEN [rc |-> "invalid", need |-> need, msg |-> m]
   ELSE [rc |-> IF Len(nm) > MaxNameText THEN "unspec" ELSE "ok", need |-> need,
         msg |-> IncCount(m \o Wire(nm) \o tail, cnt)]

AddQuestion(m, cap, nm, t, c) == NameStep(m, cap, nm, 4, Be16(t) \o Be16(c), 1)
AddRR(m, cap, sec, nm, t, c, ttl, rd) ==
   NameStep(m, cap, nm, 10 + Len(rd), Be16(t) \o Be16(c) \o Be16(ttl[1]) \o Be16(ttl[2]) \o Be16(Len(rd)) \o rd,
            SecIdx(sec))
AddOptRR(m, cap, udp, ver, exrc, exfl, rd) ==
   LET need == Len(m) + 11 + Len(rd) IN
   IF need > cap THEN [rc |-> "nospace", need |-> need, msg |-> m]
   ELSE [rc |-> "ok", need |-> need,
         msg |-> IncCount(m \o <<0>> \o Be16(TypeOPT) \o Be16(udp) \o <<exrc, ver>> \o exfl \o Be16(Len(rd)) \o rd, 4)]

(* ---------------------------------------------------------------- parser (independent of the builder) *)
\* one question at position p -> [ok, q, next]
ParseQ(m, p) ==
   LET u == UnWire(m, p) IN
   IF ~u.ok \/ u.next + 3 > Len(m) THEN [ok |-> FALSE, next |-> p]
   ELSE [ok |-> TRUE, next |-> u.next + 4,
         q |-> [name |-> Join(u.labels), t |-> U16At(m, u.next), c |-> U16At(m, u.next + 2)]]
ParseRR(m, p) ==
   LET u == UnWire(m, p) IN
   IF ~u.ok \/ u.next + 9 > Len(m) THEN [ok |-> FALSE, next |-> p]
   ELSE LET rdl == U16At(m, u.next + 8) IN
        IF u.next + 9 + rdl > Len(m) THEN [ok |-> FALSE, next |-> p]
        ELSE [ok |-> TRUE, next |-> u.next + 10 + rdl,
              rr |-> [name |-> Join(u.labels), t |-> U16At(m, u.next), c |-> U16At(m, u.next + 2),
                      ttl |-> << U16At(m, u.next + 4), U16At(m, u.next + 6) >>,
                      rd |-> SubSeq(m, u.next + 10, u.next + 9 + rdl)]]

RECURSIVE ParseQs(_, _, _, _)
ParseQs(m, p, n, acc) ==
   IF n = 0 THEN [ok |-> TRUE, next |-> p, items |-> acc]
   ELSE LET r == ParseQ(m, p) IN
        IF ~r.ok THEN [ok |-> FALSE, next |-> p, items |-> acc]
        ELSE ParseQs(m, r.next, n - 1, Append(acc, r.q))
RECURSIVE ParseRRs(_, _, _, _)
ParseRRs(m, p, n, acc) ==
   IF n = 0 THEN [ok |-> TRUE, next |-> p, items |-> acc]
   ELSE LET r == ParseRR(m, p) IN
        IF ~r.ok THEN [ok |-> FALSE, next |-> p, items |-> acc]
        ELSE ParseRRs(m, r.next, n - 1, Append(acc, r.rr))

Bad == [ok |-> FALSE]
\* offsets are 0-based octet offsets from the start of the message (what dns_msg_info_get reports)
Parse(m) ==
   IF Len(m) < HdrSize THEN Bad ELSE
   LET qs == ParseQs(m, HdrSize + 1, Count(m, 1), << >>) IN IF ~qs.ok THEN Bad ELSE
   LET an == ParseRRs(m, qs.next, Count(m, 2), << >>) IN IF ~an.ok THEN Bad ELSE
   LET ns == ParseRRs(m, an.next, Count(m, 3), << >>) IN IF ~ns.ok THEN Bad ELSE
   LET ar == ParseRRs(m, ns.next, Count(m, 4), << >>) IN IF ~ar.ok THEN Bad ELSE
   [ok |-> TRUE, id |-> SubSeq(m, 1, 2), flags |-> SubSeq(m, 3, 4),
    qd |-> qs.items, an |-> an.items, ns |-> ns.items, ar |-> ar.items,
    qd_off |-> HdrSize, an_off |-> qs.next - 1, ns_off |-> an.next - 1, ar_off |-> ns.next - 1,
    size |-> ar.next - 1]
\* well-formed and nothing left over
Validate(m) == LET p == Parse(m) IN p.ok /\ p.size = Len(m)

\* RFC 1035 4.1.1 example-style self checks
ASSUME AddQuestion(HdrCreate(64, <<18, 52>>, <<1, 0>>).msg, 64, <<97, 46, 98, 99>>, 1, 1).msg =
       <<18, 52, 1, 0, 0, 1, 0, 0, 0, 0, 0, 0,  1, 97, 2, 98, 99, 0,  0, 1, 0, 1>>
ASSUME Parse(<<18, 52, 1, 0, 0, 1, 0, 0, 0, 0, 0, 0,  1, 97, 2, 98, 99, 0,  0, 1, 0, 1>>).qd =
       << [name |-> <<97, 46, 98, 99>>, t |-> 1, c |-> 1] >>
ASSUME AddOptRR(HdrCreate(64, <<0, 0>>, <<0, 0>>).msg, 64, 4096, 0, 0, <<128, 0>>, << >>).msg =
       <<0, 0, 0, 0, 0, 0, 0, 0, 0, 0, 0, 1,  0, 0, 41, 16, 0, 0, 0, 128, 0, 0, 0>>
=============================================================================
