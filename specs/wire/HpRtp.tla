-------------------------------- MODULE HpRtp --------------------------------
(* C13 generator + envelope: RTP headers (include/proto/rtp.h, rtp_payload_get).
   Packet = byte0 (version, padding, extension, CSRC count) + 11 fixed bytes + `csrc` CSRC words
   actually present + an extension part + payload bytes + a last byte (the padding count when P
   is set); then `cut` bytes are removed from the end.
   Extension part:  none | H2 (2 of the 4 header bytes) | E0 (header, length 0) |
                    E1 (header, length 1, the word present) | E1c (length 1, word missing) |
                    EF (header, length 65535)
   Envelope (RFC 3550 5.1/5.3.1): the CSRC list, the extension header and the extension words
   must lie inside the packet and the padding count must not exceed what is left.  When the
   structure fits, start/end are what a successful call has to report.                     *)
EXTENDS Naturals, Sequences, TLC, Json
CONSTANTS Versions, PBits, XBits, CCs, Csrcs, Exts, Pays, Lasts, Cuts
VARIABLES f, cut, cs

Rep(b, n) == [i \in 1..n |-> b]
ExtB(e) == CASE e = "none" -> <<>> [] e = "H2" -> <<190, 222>> [] e = "E0" -> <<190, 222, 0, 0>>
             [] e = "E1" -> <<190, 222, 0, 1, 9, 9, 9, 9>> [] e = "E1c" -> <<190, 222, 0, 1>>
             [] e = "EF" -> <<190, 222, 255, 255>>
Full(r) == <<r.v * 64 + r.p * 32 + r.x * 16 + r.cc, 96>> \o <<0, 1, 0, 0, 0, 2, 0, 0, 0, 3>>
           \o Rep(7, 4 * r.csrc) \o ExtB(r.ext) \o Rep(85, r.pay) \o <<r.last>>

Envelope(m) ==
   LET n == Len(m) IN
   IF n < 12 THEN [why |-> "hdr-cut", fits |-> FALSE, s |-> 0, e |-> 0]
   ELSE LET b0 == m[1]  cc == b0 % 16  x == (b0 \div 16) % 2  p == (b0 \div 32) % 2
            s0 == 12 + 4 * cc
        IN IF x = 1 /\ s0 + 4 > n THEN [why |-> "ext-hdr-cut", fits |-> FALSE, s |-> 0, e |-> 0]
           ELSE LET s1 == IF x = 1 THEN s0 + 4 + 4 * (m[s0 + 3] * 256 + m[s0 + 4]) ELSE s0
                    e1 == IF p = 1 THEN m[n] ELSE 0
                IN IF s1 > n THEN [why |-> IF x = 1 THEN "ext-words-beyond" ELSE "csrc-beyond",
                                   fits |-> FALSE, s |-> 0, e |-> 0]
                   ELSE IF s1 + e1 > n THEN [why |-> "pad-beyond", fits |-> FALSE, s |-> 0, e |-> 0]
                   ELSE [why |-> IF (b0 \div 64) = 2 THEN "fits" ELSE "fits-bad-version",
                         fits |-> TRUE, s |-> s1, e |-> e1]

MkCase(r, c) == LET u == Full(r)  m == SubSeq(u, 1, Len(u) - c)  v == Envelope(m) IN
   [fields |-> r, cut |-> c, bytes |-> m, full |-> Len(u), why |-> v.why, fits |-> v.fits,
    start |-> v.s, end |-> v.e]

Init == /\ f \in [v : Versions, p : PBits, x : XBits, cc : CCs, csrc : Csrcs, ext : Exts,
                  pay : Pays, last : Lasts]
        /\ cut = 0 /\ cs = MkCase(f, 0)
Chop == /\ cut = 0
        /\ \E c \in Cuts : c <= cs.full /\ (cs.full - c >= 12 \/ cs.full - c \in {0, 1, 11}) /\ cut' = c
        /\ f' = f /\ cs' = MkCase(f, cut')
Spec == Init /\ [][Chop]_<<f, cut, cs>>

EnvInside == cs.fits => cs.start + cs.end <= Len(cs.bytes) /\ cs.start >= 12
SizeLaw   == Len(cs.bytes) = cs.full - cut
Emit == PrintT(ToJson(cs))
=============================================================================
