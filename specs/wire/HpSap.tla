-------------------------------- MODULE HpSap --------------------------------
(* C13 generator + envelope: SAP announcements (include/proto/sap.h: sap_packet_is_valid,
   sap_packet_get_payload / _get_auth_data).
   Packet = flags byte (version, address type A, ...) + auth_len + 16 bit hash + origin (4 or
   16 bytes actually present: `org`) + `auth` authentication bytes + payload (a MIME type
   string with or without its NUL, then `pay` bytes); then `cut` bytes are removed.
   Envelope, with the library's reading of the header (auth_len counted in bytes): a packet is
   acceptable only if 4 + (A ? 16 : 4) + auth_len + 16 <= size.  Everything shorter must be
   refused, whatever the other fields say.                                                 *)
EXTENDS Naturals, Sequences, TLC, Json
CONSTANTS Versions, ABits, AuthLens, Hashes, Orgs, Auths, Mimes, Pays, Cuts
VARIABLES f, cut, cs

Rep(b, n) == [i \in 1..n |-> b]
MimeB(m) == CASE m = "none" -> <<>>
              [] m = "sdp0" -> <<97, 112, 112, 108, 105, 99, 97, 116, 105, 111, 110, 47, 115, 100, 112, 0>>
              [] m = "sdp"  -> <<97, 112, 112, 108, 105, 99, 97, 116, 105, 111, 110, 47, 115, 100, 112>>
              [] m = "nul"  -> <<0>>
Full(r) == <<r.v * 32 + r.a * 16, r.al, 0, r.h>> \o Rep(10, r.org) \o Rep(170, r.auth)
           \o MimeB(r.mime) \o Rep(118, r.pay)
Envelope(m) ==
   LET n == Len(m) IN
   IF n < 4 THEN "hdr-cut"
   ELSE LET need == 4 + (IF (m[1] \div 16) % 2 = 1 THEN 16 ELSE 4) + m[2] + 16 IN
        IF need > n THEN "payload-cut" ELSE "fits"
MkCase(r, c) == LET u == Full(r)  m == SubSeq(u, 1, Len(u) - c)  w == Envelope(m) IN
   [fields |-> r, cut |-> c, bytes |-> m, full |-> Len(u), why |-> w, must_refuse |-> (w # "fits")]
Init == /\ f \in [v : Versions, a : ABits, al : AuthLens, h : Hashes, org : Orgs, auth : Auths,
                  mime : Mimes, pay : Pays]
        /\ cut = 0 /\ cs = MkCase(f, 0)
Chop == /\ cut = 0 /\ \E c \in Cuts : c <= cs.full /\ cut' = c
        /\ f' = f /\ cs' = MkCase(f, cut')
Spec == Init /\ [][Chop]_<<f, cut, cs>>
SizeLaw == Len(cs.bytes) = cs.full - cut
EnvLaw  == (~cs.must_refuse) => Len(cs.bytes) >= 24
Emit == PrintT(ToJson(cs))
=============================================================================
