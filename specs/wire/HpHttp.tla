------------------------------- MODULE HpHttp -------------------------------
(* C13: token alphabets for the HTTP scanners of src/proto/http.c (definitions only; the generator
   is HpTok, the family tables are in HpText):
     req   http_parse_req_line                                   (ReqPres,  ReqTokens)
     resp  http_parse_resp_line                                  (RespPres, RespTokens)
     hdr   http_hdr_val_get_ex/_count/_remove, http_req_sec_chk  (HdrPres,  HdrTokens)
     qry   http_query_val_get_ex / http_query_val_del            (NoPres,   QryTokens)
     chk   http_data_decode_chunked                              (NoPres,   ChkTokens)
     url   http_url_decode                                       (NoPres,   UrlTokens)
     wsp   skip_spwsp, skip_spwsp2, wsp2sp, ht2sp                (NoPres,   WspTokens)
   The byte strings are spelled as numbers because TLC has no string-to-bytes operator; the
   comment in front of each alphabet gives them as text.  The safety envelope of these
   functions (error, or every returned pointer/length inside the input) is decided by the
   conformance driver on the span itself; the spec side supplies the corpus and the class of
   each input and checks its own rendering laws.                                          *)

ReqTokens == <<
   (* SL='/'  A6='aaaaaa'  Q='?'  SCH='://'  SP=' '  V11='HTTP/1.1'  V1='HTTP/1.'  CRLF='\r\n' *)
   [n |-> "SL", b |-> <<47>>, c |-> "sl", hot |-> FALSE],
   [n |-> "A6", b |-> <<97, 97, 97, 97, 97, 97>>, c |-> "text", hot |-> FALSE],
   [n |-> "Q", b |-> <<63>>, c |-> "q", hot |-> FALSE],
   [n |-> "SCH", b |-> <<58, 47, 47>>, c |-> "sch", hot |-> FALSE],
   [n |-> "SP", b |-> <<32>>, c |-> "ws", hot |-> FALSE],
   [n |-> "V11", b |-> <<72, 84, 84, 80, 47, 49, 46, 49>>, c |-> "ver", hot |-> FALSE],
   [n |-> "V1", b |-> <<72, 84, 84, 80, 47, 49, 46>>, c |-> "ver-cut", hot |-> FALSE],
   [n |-> "CRLF", b |-> <<13, 10>>, c |-> "crlf", hot |-> FALSE] >>

ReqPres == <<
   [n |-> "none", b |-> <<>>, c |-> "empty"],
   [n |-> "GET_", b |-> <<71, 69, 84, 32>>, c |-> "ws"],
   [n |-> "CONNECT_", b |-> <<67, 79, 78, 78, 69, 67, 84, 32>>, c |-> "ws"] >>

RespTokens == <<
   (* O='O'  SP=' '  CRLF='\r\n'  CR='\r'  LF='\n' *)
   [n |-> "O", b |-> <<79>>, c |-> "text", hot |-> FALSE],
   [n |-> "SP", b |-> <<32>>, c |-> "ws", hot |-> FALSE],
   [n |-> "CRLF", b |-> <<13, 10>>, c |-> "crlf", hot |-> FALSE],
   [n |-> "CR", b |-> <<13>>, c |-> "cr", hot |-> FALSE],
   [n |-> "LF", b |-> <<10>>, c |-> "lf", hot |-> FALSE] >>

RespPres == <<
   [n |-> "S13", b |-> <<72, 84, 84, 80, 47, 49, 46, 49, 32, 50, 48, 48, 32>>, c |-> "ws"],
   [n |-> "S12", b |-> <<72, 84, 84, 80, 47, 49, 46, 49, 32, 50, 48, 48>>, c |-> "text"],
   [n |-> "S14", b |-> <<72, 84, 84, 80, 47, 49, 46, 49, 32, 50, 48, 48, 48, 32>>, c |-> "ws"] >>

HdrTokens == <<
   (* CRLF='\r\n'  CR='\r'  LF='\n'  H='H'  COLON=':'  SP=' '  TAB='\t'  V='v' *)
   [n |-> "CRLF", b |-> <<13, 10>>, c |-> "crlf", hot |-> FALSE],
   [n |-> "CR", b |-> <<13>>, c |-> "cr", hot |-> FALSE],
   [n |-> "LF", b |-> <<10>>, c |-> "lf", hot |-> FALSE],
   [n |-> "H", b |-> <<72>>, c |-> "name", hot |-> FALSE],
   [n |-> "COLON", b |-> <<58>>, c |-> "colon", hot |-> FALSE],
   [n |-> "SP", b |-> <<32>>, c |-> "ws", hot |-> FALSE],
   [n |-> "TAB", b |-> <<9>>, c |-> "ws", hot |-> FALSE],
   [n |-> "V", b |-> <<118>>, c |-> "text", hot |-> FALSE] >>

HdrPres == <<
   [n |-> "none", b |-> <<>>, c |-> "empty"],
   [n |-> "LINE1", b |-> <<71, 69, 84, 32, 47, 32, 72, 84, 84, 80, 47, 49, 46, 49>>, c |-> "text"] >>

QryTokens == <<
   (* AMP='&'  EQ='='  A='a'  B='b' *)
   [n |-> "AMP", b |-> <<38>>, c |-> "amp", hot |-> FALSE],
   [n |-> "EQ", b |-> <<61>>, c |-> "eq", hot |-> FALSE],
   [n |-> "A", b |-> <<97>>, c |-> "name", hot |-> FALSE],
   [n |-> "B", b |-> <<98>>, c |-> "text", hot |-> FALSE] >>

NoPres == <<
   [n |-> "none", b |-> <<>>, c |-> "empty"] >>

ChkTokens == <<
   (* Z='0'  N1='1'  N3='3'  HUGE_F='ffffffffffffffff'  HUGE_E='fffffffffffffffe'  HUGE_8='8000000000000000'  CRLF='\r\n'  CR='\r'  LF='\n'  D='X' *)
   [n |-> "Z", b |-> <<48>>, c |-> "digit", hot |-> FALSE],
   [n |-> "N1", b |-> <<49>>, c |-> "digit", hot |-> FALSE],
   [n |-> "N3", b |-> <<51>>, c |-> "digit", hot |-> FALSE],
   [n |-> "HUGE_F", b |-> <<102, 102, 102, 102, 102, 102, 102, 102, 102, 102, 102, 102, 102, 102, 102, 102>>, c |-> "HUGE", hot |-> TRUE],
   [n |-> "HUGE_E", b |-> <<102, 102, 102, 102, 102, 102, 102, 102, 102, 102, 102, 102, 102, 102, 102, 101>>, c |-> "HUGE", hot |-> TRUE],
   [n |-> "HUGE_8", b |-> <<56, 48, 48, 48, 48, 48, 48, 48, 48, 48, 48, 48, 48, 48, 48, 48>>, c |-> "HUGE", hot |-> TRUE],
   [n |-> "CRLF", b |-> <<13, 10>>, c |-> "crlf", hot |-> FALSE],
   [n |-> "CR", b |-> <<13>>, c |-> "cr", hot |-> FALSE],
   [n |-> "LF", b |-> <<10>>, c |-> "lf", hot |-> FALSE],
   [n |-> "D", b |-> <<88>>, c |-> "data", hot |-> FALSE] >>

UrlTokens == <<
   (* A='a'  PLUS='+'  PCT='%'  H4='4'  H1='1'  Z='z' *)
   [n |-> "A", b |-> <<97>>, c |-> "text", hot |-> FALSE],
   [n |-> "PLUS", b |-> <<43>>, c |-> "plus", hot |-> FALSE],
   [n |-> "PCT", b |-> <<37>>, c |-> "pct", hot |-> FALSE],
   [n |-> "H4", b |-> <<52>>, c |-> "hex", hot |-> FALSE],
   [n |-> "H1", b |-> <<49>>, c |-> "hex", hot |-> FALSE],
   [n |-> "Z", b |-> <<122>>, c |-> "text", hot |-> FALSE] >>

WspTokens == <<
   (* SP=' '  TAB='\t'  CR='\r'  LF='\n'  A='a'  NUL='\x00' *)
   [n |-> "SP", b |-> <<32>>, c |-> "ws", hot |-> FALSE],
   [n |-> "TAB", b |-> <<9>>, c |-> "ws", hot |-> FALSE],
   [n |-> "CR", b |-> <<13>>, c |-> "ws", hot |-> FALSE],
   [n |-> "LF", b |-> <<10>>, c |-> "ws", hot |-> FALSE],
   [n |-> "A", b |-> <<97>>, c |-> "text", hot |-> FALSE],
   [n |-> "NUL", b |-> <<0>>, c |-> "ws", hot |-> FALSE] >>
=============================================================================
