SPECIFICATION Spec
CONSTANTS
  Versions = {0, 1, 2, 7}
  ABits = {0, 1}
  AuthLens = {0, 1, 3, 4, 5, 255}
  Hashes = {0, 1}
  Orgs = {0, 4, 16}
  Auths = {0, 4}
  Mimes = {"none", "sdp0", "sdp", "nul"}
  Pays = {0, 1, 17}
  Cuts = {1, 2, 3, 4, 15, 16, 17, 18}
INVARIANTS SizeLaw EnvLaw
CONSTRAINT Emit
CHECK_DEADLOCK FALSE
