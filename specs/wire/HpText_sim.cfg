SPECIFICATION Spec
CONSTANTS
  Fams <- FamsSim
INVARIANTS SizeLaw ByteLaw ClassLaw
CONSTRAINT Emit
CHECK_DEADLOCK FALSE
