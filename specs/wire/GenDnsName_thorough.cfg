SPECIFICATION Spec
CONSTANTS
  LabelLens = {0, 1, 2, 3, 31, 62, 63, 64, 65}
  MaxLabels = 4
INVARIANTS SplitAgrees RoundTrip SizeLaw ValidIsHost
CONSTRAINT Emit
CHECK_DEADLOCK FALSE
