------------------------------ MODULE HpRadius ------------------------------
(* C13 generator + safety envelope: hostile RADIUS packets (include/proto/radius.h).
   State = code, mode of the header length field, a sequence of attribute ITEMS, a cut (bytes
   removed from the end).  Struct() is the structural reading of RFC 2865 section 3/5 that any
   validator must agree with: the length field must cover the 20 byte header, must not exceed
   the received size nor 4096, and the attributes (type, length >= 2, value) must tile the
   first `length` bytes exactly.  Where Struct says "must refuse", radius_pkt_chk has to return
   an error; where the structure is fine the library may still refuse (type specific rules) -
   that is not compared.  `why` is the class of the input (the <shape> of finding keys).

   Rendering table (hex): header = code 07 LEN(2) 11*16
     U3 01 03 61   L0 01 00   L1 01 01   L2 01 02   LB 01 c8 61 (declares 200)   T0 00 03 61
     MA 50 12 00*16   MS 50 0a 00*8   PW 02 12 41*16   EA 4f 03 01   H1 01 (stray byte)
     VS 1a 0c 00000009 01 06 61626364   VB 1a 08 00000009 01 ff   VT 1a 04 0000
     TF ff 03 61 (highest type)   F255 01 ff 61*253 (largest attribute; 16 of them pass 4096)
   LEN modes: fit = size after the cut, eq = real size, m1 = real-1, p1 = real+1, l19 = 19, l20 = 20, big = 4097      *)
EXTENDS Naturals, Sequences, TLC, Json
CONSTANTS Items, MaxItems, Codes, LenModes, CutAll
VARIABLES code, lm, its, cut, cs

HdrSize == 20
MaxPkt  == 4096
Rep(b, n) == [i \in 1..n |-> b]
IB(k) == CASE k = "U3" -> <<1, 3, 97>>   [] k = "L0" -> <<1, 0>>   [] k = "L1" -> <<1, 1>>
           [] k = "L2" -> <<1, 2>>       [] k = "LB" -> <<1, 200, 97>>  [] k = "T0" -> <<0, 3, 97>>
           [] k = "MA" -> <<80, 18>> \o Rep(0, 16)   [] k = "MS" -> <<80, 10>> \o Rep(0, 8)
           [] k = "PW" -> <<2, 18>> \o Rep(65, 16)   [] k = "EA" -> <<79, 3, 1>>
           [] k = "H1" -> <<1>>
           [] k = "VS" -> <<26, 12, 0, 0, 0, 9, 1, 6, 97, 98, 99, 100>>
           [] k = "VB" -> <<26, 8, 0, 0, 0, 9, 1, 255>>
           [] k = "VT" -> <<26, 4, 0, 0>>
           [] k = "TF" -> <<255, 3, 97>>
           [] k = "F255" -> <<1, 255>> \o Rep(97, 253)
RECURSIVE Body(_)
Body(s) == IF s = <<>> THEN <<>> ELSE IB(Head(s)) \o Body(Tail(s))
LenVal(m, real, k) == CASE m = "eq" -> real [] m = "m1" -> real - 1 [] m = "p1" -> real + 1
                        [] m = "l19" -> 19 [] m = "l20" -> 20 [] m = "big" -> 4097
                        [] m = "fit" -> real - k     \* the length field matches the cut packet
Full(c, m, s, k) == LET b == Body(s)  l == LenVal(m, HdrSize + Len(b), k) IN
                    <<c, 7, l \div 256, l % 256>> \o Rep(17, 16) \o b

(* ---- structural envelope ---- *)
RECURSIVE Attrs(_, _, _)
Attrs(p, off, end) ==                 \* attributes must tile [off, end)
   IF off = end THEN "struct-ok"
   ELSE IF end - off < 2 THEN "attr-hdr-cut"
   ELSE LET l == p[off + 2] IN
        IF l < 2 THEN "attr-len<2"
        ELSE IF l > end - off THEN "attr-overrun"
        ELSE Attrs(p, off + l, end)
Struct(p) ==
   LET n == Len(p) IN
   IF n < 4 THEN "len-field-cut"
   ELSE LET l == p[3] * 256 + p[4] IN
        IF l < HdrSize THEN "len<20"
        ELSE IF l > MaxPkt THEN "len>4096"
        ELSE IF l > n THEN (IF n < HdrSize THEN "hdr-cut" ELSE "len>size")
        ELSE Attrs(p, HdrSize, l)

MkCase(c, m, s, k) ==
   LET f == Full(c, m, s, k)
       p == SubSeq(f, 1, Len(f) - k)
       w == Struct(p)
   IN [code |-> c, lenmode |-> m, items |-> s, cut |-> k, bytes |-> p, full |-> Len(f),
       why |-> w, must_err |-> (w # "struct-ok")]

(* every cut for the "fit" mode; otherwise the last two bytes, and the header cuts once (no items) *)
CutSet(full, s, m) == {c \in 1..full : /\ (full - c >= HdrSize \/ s = <<>>)
                                       /\ (m = "fit" \/ c <= 2 \/ s = <<>>)
                                       /\ (CutAll \/ c <= 4 \/ c > full - 4)}
Init == /\ code \in Codes /\ lm \in LenModes
        /\ its = <<>> /\ cut = 0 /\ cs = MkCase(code, lm, <<>>, 0)
Grow == /\ cut = 0 /\ Len(its) < MaxItems
        /\ \E k \in Items : its' = Append(its, k)
        /\ UNCHANGED <<code, lm, cut>>
        /\ cs' = MkCase(code, lm, its', 0)
Chop == /\ cut = 0
        /\ \E c \in CutSet(cs.full, its, lm) : cut' = c
        /\ UNCHANGED <<code, lm, its>>
        /\ cs' = MkCase(code, lm, its, cut')
Next == Grow \/ Chop
Spec == Init /\ [][Next]_<<code, lm, its, cut, cs>>

(* ---- checked on the spec ---- *)
SizeLaw == Len(cs.bytes) = cs.full - cut /\ Len(cs.bytes) <= MaxPkt + 64
(* a packet the envelope accepts really is covered by its attributes: re-walk and sum *)
RECURSIVE SumLens(_, _, _)
SumLens(p, off, end) == IF off >= end THEN 0 ELSE p[off + 2] + SumLens(p, off + p[off + 2], end)
EnvelopeSound == (~cs.must_err) =>
                    LET p == cs.bytes  l == p[3] * 256 + p[4] IN
                    /\ HdrSize <= l /\ l <= Len(p) /\ l <= MaxPkt
                    /\ SumLens(p, HdrSize, l) = l - HdrSize
Emit == PrintT(ToJson(cs))
=============================================================================
