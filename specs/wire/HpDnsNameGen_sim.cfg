SPECIFICATION Spec
CONSTANTS
  Items = {"L1", "L2", "Z", "LB", "R4", "R8", "PH", "Pself", "Pprev", "Pnext", "Pfirst", "Phdr", "Pend", "Pbey"}
  MaxItems = 12
  Cuts = {1, 2, 3, 4, 5}
  Prefix <- NoPrefix
INVARIANTS RefInside RefNameBytes SizeLaw
CONSTRAINT Emit
CHECK_DEADLOCK FALSE
