SPECIFICATION Spec
CONSTANTS
  Ops = {0, 1, 2, 3}
  Htypes = {0, 1, 38, 39}
  Hlens = {6, 16, 17}
  Cookies = {"good", "bad4", "zero"}
  Opts = {"PAD", "END", "MT", "OVL", "RUN", "HALF"}
  MaxOpts = 2
  CutTo = {0, 1, 2, 3, 4, 236, 237, 238, 239, 240, 241, 242}
INVARIANTS SizeLaw
CONSTRAINT Emit
CHECK_DEADLOCK FALSE
