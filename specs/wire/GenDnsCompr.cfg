SPECIFICATION Spec
CONSTANTS
  Counts = {1, 2, 63, 64, 65, 127}
INVARIANTS RoundTrip BuilderAgrees Compresses NamesValid Limits
CONSTRAINT Emit
CHECK_DEADLOCK FALSE
