SPECIFICATION Spec
CONSTANTS
  LabelLens = {0, 1, 2, 63, 64}
  MaxLabels = 3
INVARIANTS SplitAgrees RoundTrip SizeLaw ValidIsHost
CONSTRAINT Emit
CHECK_DEADLOCK FALSE
