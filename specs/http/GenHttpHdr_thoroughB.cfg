SPECIFICATION Spec
CONSTANTS
  Alpha <- EdAlphaThorough
  MaxLen = 3
  EdAlpha <- EdAlphaThorough
  EdMaxLen = 3
  CtlPairs <- CtlPairsThorough
  InsAlpha <- InsAlphaThorough
INVARIANTS WellFormedHasSpans EveryEditFlips EditedIsRejected TextMatches PatchesPointAtMarks AcceptIffNoPattern
CONSTRAINT Emit
CHECK_DEADLOCK FALSE
