SPECIFICATION Spec
CONSTANTS
  MaxPairs = 3
INVARIANTS SpansRedelimitQ FoundIffCarried
CONSTRAINT Emit
CHECK_DEADLOCK FALSE
