SPECIFICATION Spec
CONSTANTS
  ReqSet <- ReqSetQuick
  RespSet <- RespSetQuick
INVARIANTS GrammarSide SpansRedelimit
CONSTRAINT Emit
CHECK_DEADLOCK FALSE
