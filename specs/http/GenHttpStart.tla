--------------------------- MODULE GenHttpStart ---------------------------
(* Generator for start lines (property C20, first sentence): request lines from the RFC 7230/3986
   grammar - every known method and unknown tokens, the four request-target forms, empty, single,
   multi-segment paths with repeated slashes at head, tail and inside, queries - and status lines.
   One state = one line (optionally followed by header fields in the same buffer).  For every state
   TLC checks that the expected spans re-delimit the rendered text and emits
   [kind, text, shape, expect].  There are no transitions: the initial states are the corpus. *)
EXTENDS HttpMsg, TLC, Json
CONSTANTS ReqSet, RespSet
VARIABLE c

R(m, form, scheme, auth, L, core, T, hasq, q, vmaj, vmin, ctx) ==
  [m |-> m, form |-> form, scheme |-> scheme, auth |-> auth, L |-> L, core |-> core, T |-> T,
   hasq |-> hasq, q |-> q, vmaj |-> vmaj, vmin |-> vmin, ctx |-> ctx]

(* ------------------------------------------------------------ alphabets *)
KnownSet == {KnownMethods[i] : i \in 1..Len(KnownMethods)}
(* tokens that are not registered with the library (RFC 7230: method = token = 1*tchar) *)
UnknownUpper == {"PATCH", "GE", "GETX", "PUTT", "TRACK", "M-SEARCH2", "X-1!#$%&'*+-.^_`|~", "G"}
UnknownOther == {"get", "3PO", "m-search"}      \* tokens whose first character is not A..Z
Methods == (KnownSet \ {"CONNECT"}) \cup UnknownUpper

Cores   == {"a", "a/b", "a//b", "a.b/c-d/e_f~", "x:80/y", "a://b", "%41/%2F"}
(* <<L, core, T>> with L >= 1 *)
PathsFull  == {<<l, "", 0>> : l \in 1..3} \cup {<<l, k, t>> : l \in 1..3, k \in Cores, t \in 0..2}
PathsSmall == {<<1, "", 0>>, <<3, "", 0>>, <<1, "a", 0>>, <<1, "a/b", 1>>, <<2, "a", 2>>, <<3, "a//b", 0>>,
               <<1, "a://b", 0>>, <<2, "x:80/y", 1>>}
(* <<hasq, q>> *)
QueriesFull  == {<<FALSE, "">>, <<TRUE, "">>, <<TRUE, "a=1">>, <<TRUE, "a=1&b=2">>, <<TRUE, "x?y/z">>,
                 <<TRUE, "/">>, <<TRUE, "u=s://h/p">>, <<TRUE, "//">>}
QueriesSmall == {<<FALSE, "">>, <<TRUE, "a=1">>, <<TRUE, "u=s://h/p">>}
(* <<scheme, authority>> *)
Origins == {<<"http", "h">>, <<"https", "u@h.example:8080">>, <<"http", "[::1]:80">>, <<"ftp", "10.0.0.1:21">>}
ConnectAuths == {"h:443", "example.com:80", "[::1]:443", "10.0.0.1:8080"}
Ctxs == {"", "\r\nHost: h\r\nX-Foo: a b"}
Versions == {<<1, 1>>, <<1, 0>>, <<2, 0>>, <<0, 9>>}

OriginTargets(paths, queries) ==
  {<<"origin", "", "", p[1], p[2], p[3], qq[1], qq[2]>> : p \in paths, qq \in queries}
AbsTargets(paths, queries) ==
  {<<"absolute", o[1], o[2], p[1], p[2], p[3], qq[1], qq[2]>> :
     o \in Origins, p \in paths \cup {<<0, "", 0>>}, qq \in queries}
Mk(m, t, v, ctx) == R(m, t[1], t[2], t[3], t[4], t[5], t[6], t[7], t[8], v[1], v[2], ctx)

SpecialReqs ==
  {R("CONNECT", "authority", "", a, 0, "", 0, FALSE, "", v[1], v[2], x) :
     a \in ConnectAuths, v \in {<<1, 1>>, <<1, 0>>}, x \in Ctxs}
  \cup {R("OPTIONS", "asterisk", "", "", 0, "", 0, FALSE, "", v[1], v[2], x) :
          v \in {<<1, 1>>, <<1, 0>>}, x \in Ctxs}

(* tokens that do not start with an upper-case letter, against a few plain targets *)
OtherTokenReqs ==
  {Mk(m, t, <<1, 1>>, x) : m \in UnknownOther, x \in Ctxs,
     t \in {<<"origin", "", "", 1, "", 0, FALSE, "">>, <<"origin", "", "", 1, "a/b", 0, TRUE, "a=1">>,
            <<"absolute", "http", "h", 1, "a", 0, FALSE, "">>}}

(* every method against a few targets; a few methods against every target *)
ReqSetQuick ==
  SpecialReqs
  \cup {Mk(m, t, v, x) : m \in Methods,
          t \in OriginTargets(PathsSmall, QueriesSmall) \cup AbsTargets({<<1, "a", 1>>}, QueriesSmall),
          v \in {<<1, 1>>}, x \in {""}}
  \cup {Mk(m, t, v, "") : m \in {"GET", "UNSUBSCRIBE"}, t \in {<<"origin", "", "", 1, "", 0, FALSE, "">>},
          v \in Versions}
  \cup OtherTokenReqs
  \cup {Mk("GET", t, <<1, 1>>, x) :
          t \in OriginTargets(PathsFull, QueriesFull) \cup AbsTargets(PathsFull, QueriesSmall), x \in Ctxs}
  \cup {Mk("POST", t, <<1, 0>>, "") : t \in AbsTargets(PathsSmall, QueriesFull)}

S(vmaj, vmin, d1, d2, d3, reason, ctx) ==
  [vmaj |-> vmaj, vmin |-> vmin, d1 |-> d1, d2 |-> d2, d3 |-> d3, reason |-> reason, ctx |-> ctx]
Reasons == {"", "OK", "Not Found", "a  b", "tab\there", "OK ", " ", "Non-Authoritative Information", "200 OK HTTP/1.1"}
Codes   == {<<1, 0, 0>>, <<2, 0, 0>>, <<2, 0, 4>>, <<4, 0, 4>>, <<5, 9, 9>>, <<0, 0, 0>>, <<9, 9, 9>>, <<3, 0, 7>>}
RespSetQuick ==
  {S(v[1], v[2], k[1], k[2], k[3], rs, x) : v \in {<<1, 1>>, <<1, 0>>}, k \in Codes, rs \in Reasons, x \in Ctxs}

(* ------------------------------------------------------------ behaviour *)
Init == \/ \E r \in ReqSet  : c = [kind |-> "req",  v |-> r]
        \/ \E s \in RespSet : c = [kind |-> "resp", v |-> s]
Next == FALSE /\ UNCHANGED c
Spec == Init /\ [][Next]_c

(* ------------------------------------------------------------ invariants on the reference *)
GrammarSide == c.kind = "req" => WellFormedReq(c.v)
SpansRedelimit == IF c.kind = "req" THEN ReqSpansOK(c.v) ELSE StatusSpansOK(c.v)

(* ------------------------------------------------------------ input shapes
   A structural tag of the input, used only to NAME what fails when something fails. *)
Contains(t, w) == \E i \in 1..(Len(t) - Len(w) + 1) : SubSeq(t, i, i + Len(w) - 1) = w
UpperAZ == {SubSeq("ABCDEFGHIJKLMNOPQRSTUVWXYZ", i, i) : i \in 1..26}
ReqShape(r) ==
  IF SubSeq(r.m, 1, 1) \notin UpperAZ THEN "method-token-not-starting-with-A-Z"
  ELSE IF r.form = "origin" /\ Contains(Target(r), "://") THEN "origin-form-with-colon-slash-slash"
  ELSE IF r.form = "absolute" /\ r.L = 0 /\ r.hasq THEN "absolute-form-empty-path-with-query"
  ELSE "plain"
RespShape(s) == IF Len(StatusText(s)) = 13 THEN "13-byte-status-line-with-empty-reason" ELSE "plain"

Case ==
  IF c.kind = "req"
  THEN [kind |-> "req",  text |-> ReqText(c.v),    shape |-> ReqShape(c.v),  form |-> c.v.form,
        expect |-> ReqExpect(c.v)]
  ELSE [kind |-> "resp", text |-> StatusText(c.v), shape |-> RespShape(c.v), form |-> "status",
        expect |-> StatusExpect(c.v)]
Emit == PrintT(ToJson(Case))
=============================================================================
