SPECIFICATION Spec
CONSTANTS
  ReqSet <- ReqSetThorough
  RespSet <- RespSetThorough
INVARIANTS GrammarSide SpansRedelimit
CONSTRAINT Emit
CHECK_DEADLOCK FALSE
