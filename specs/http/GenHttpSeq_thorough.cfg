SPECIFICATION Spec
CONSTANTS
  MaxLen = 3
  Deep = TRUE
INVARIANTS EachWellFormed PresenceByForm NeighboursDiffer
CONSTRAINT Emit
CHECK_DEADLOCK FALSE
