SPECIFICATION Spec
CONSTANTS
  Alpha <- AlphaQuick
  MaxLen = 3
  EdAlpha <- EdAlphaQuick
  EdMaxLen = 3
  CtlPairs <- CtlPairsQuick
  InsAlpha <- InsAlphaQuick
INVARIANTS WellFormedHasSpans EveryEditFlips EditedIsRejected TextMatches PatchesPointAtMarks AcceptIffNoPattern
CONSTRAINT Emit
CHECK_DEADLOCK FALSE
