--------------------------- MODULE GenHttpStartT ---------------------------
(* The larger start-line corpus of the thorough tier.  Kept in its own module because TLC evaluates
   every constant definition of a module at start-up, whether the configuration uses it or not. *)
EXTENDS GenHttpStart

ReqSetThorough ==
  SpecialReqs \cup OtherTokenReqs
  \cup {Mk(m, t, v, x) : m \in Methods,
          t \in OriginTargets(PathsFull, QueriesSmall) \cup AbsTargets(PathsSmall, QueriesSmall),
          v \in {<<1, 1>>}, x \in {""}}
  \cup {Mk(m, t, v, x) : m \in {"GET", "UNSUBSCRIBE", "PATCH"},
          t \in {<<"origin", "", "", 1, "", 0, FALSE, "">>, <<"absolute", "http", "h", 0, "", 0, FALSE, "">>},
          v \in Versions, x \in Ctxs}
  \cup {Mk(m, t, v, x) : m \in {"GET", "POST", "M-SEARCH", "X-1!#$%&'*+-.^_`|~"},
          t \in OriginTargets(PathsFull, QueriesFull) \cup AbsTargets(PathsFull, QueriesFull),
          v \in {<<1, 1>>, <<1, 0>>}, x \in Ctxs}

RespSetThorough ==
  {S(v[1], v[2], k[1], k[2], k[3], rs, x) : v \in Versions, k \in Codes, rs \in Reasons,
                                           x \in Ctxs \cup {"\r\n", "\r\n\r\n"}}

=============================================================================
