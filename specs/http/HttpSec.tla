------------------------------ MODULE HttpSec ------------------------------
(* Reference verdict for http_req_sec_chk (property C20, second sentence), decided on the
   STRUCTURE of a header block (HttpMsg!Field records), not on its text:

     reject  iff  a control byte is present                                   ("ctl")
              \/  a space stands directly before the colon of a field         ("spcolon")
              \/  Host, Content-Length or Transfer-Encoding occurs twice      ("dup-...")
              \/  Content-Length and Transfer-Encoding occur together         ("cl+te")
              \/  Content-Length occurs and the method is GET                 ("cl-on-get")

   Field names are compared case-insensitively (RFC 7230 3.2); look-alike names (Hos, Host2,
   X-Host, ...) are different names.  Only accept/reject is part of the property, not the rule
   number the implementation returns.

   A control byte is a C0 control other than HT and other than CR LF used as the line break, or
   DEL (RFC 5234 CTL).  Bytes above 126 other than DEL are not generated (the library documents
   them as rejected, RFC 7230 calls them obs-text; the property does not decide). *)
EXTENDS HttpMsg

KeyHost == "host"
KeyCL   == "content-length"
KeyTE   == "transfer-encoding"
FramingKeys == {KeyHost, KeyCL, KeyTE}

Patterns(b, method) ==
     {"ctl"       : i \in {j \in 1..Len(b) : b[j].ctl # NoCtl}}
  \cup {"spcolon" : i \in {j \in 1..Len(b) : b[j].sp}}
  \cup {"dup-" \o k : k \in {x \in FramingKeys : Count(b, x) > 1}}
  \cup (IF Count(b, KeyCL) > 0 /\ Count(b, KeyTE) > 0 THEN {"cl+te"} ELSE {})
  \cup (IF Count(b, KeyCL) > 0 /\ method = "GET" THEN {"cl-on-get"} ELSE {})

Reject(b, method) == Patterns(b, method) # {}
Accept(b, method) == ~Reject(b, method)

(* ---------------------------------------------------------------- single edits
   <<"none">>                      the block itself
   <<"ctl", i, pos, byte>>         put one control byte into field i
   <<"sp", i>>                     put a space before the colon of field i
   <<"ins", at, f>>                insert field f so that it becomes field number `at`        *)
NoEdit == << "none" >>
InsertAt(b, at, f) == SubSeq(b, 1, at - 1) \o << f >> \o SubSeq(b, at, Len(b))
Apply(ed, b) ==
  CASE ed[1] = "none" -> b
    [] ed[1] = "ctl"  -> [b EXCEPT ![ed[2]].ctl = << ed[3], ed[4] >>]
    [] ed[1] = "sp"   -> [b EXCEPT ![ed[2]].sp = TRUE]
    [] ed[1] = "ins"  -> InsertAt(b, ed[2], ed[3])

(* The pattern an edit introduces into an accepted block (relative to the method), or "" when
   the edited block contains none (then it is simply another grammar-generated block). *)
Introduces(ed, b, method) == Patterns(Apply(ed, b), method) \ Patterns(b, method)

(* Every single edit that introduces a smuggling pattern into an accepted block flips the verdict. *)
EditFlips(ed, b) ==
  \A method \in {"GET", "PUT"} :
     (Accept(b, method) /\ Introduces(ed, b, method) # {}) => Reject(Apply(ed, b), method)

(* ---------------------------------------------------------------- text-level cross-check
   A second, textual definition of the two byte-level patterns, used as an invariant on the
   generators so that no value alphabet smuggles a pattern in by accident. *)
TextHasSpColon(t) == \E i \in 1..(Len(t) - 1) : SubSeq(t, i, i + 1) = " :"
TextHasMark(t)    == \E i \in 1..Len(t) : SubSeq(t, i, i) = CtlMark
(* bare CR or bare LF cannot be produced by the field alphabet itself *)
TextHasBareCRLF(t) ==
  \/ \E i \in 1..Len(t) : SubSeq(t, i, i) = "\r" /\ SubSeq(t, i + 1, i + 1) # "\n"
  \/ \E i \in 1..Len(t) : SubSeq(t, i, i) = "\n" /\ (i = 1 \/ SubSeq(t, i - 1, i - 1) # "\r")
TextAgreesWithStructure(start, b) ==
  LET t == HdrText(start, b) IN
  /\ TextHasSpColon(t) <=> \E i \in 1..Len(b) : b[i].sp
  /\ TextHasMark(t)    <=> \E i \in 1..Len(b) : b[i].ctl # NoCtl
  /\ ~TextHasBareCRLF(t)
=============================================================================
