SPECIFICATION Spec
CONSTANTS
  Alpha <- AlphaThorough
  MaxLen = 3
  EdAlpha <- NoFields
  EdMaxLen = 0
  CtlPairs <- CtlPairsThorough
  InsAlpha <- InsAlphaThorough
INVARIANTS WellFormedHasSpans EveryEditFlips EditedIsRejected TextMatches PatchesPointAtMarks AcceptIffNoPattern
CONSTRAINT Emit
CHECK_DEADLOCK FALSE
