--------------------------- MODULE GenHttpQuery ---------------------------
(* C20, query access (http_query_val_get_ex / http_query_val_get, documented as "Get: [&]val_name=val[&]"):
   a query is a sequence of name=value pairs joined by "&", optionally with a leading and / or a trailing "&".
   Looking a name up returns the FIRST pair with exactly that name: the span of the name and the span of the
   value (up to the next "&" or the end), both sub-spans of the query; a name that no pair carries is not found.
   Only what the comment documents is generated: every item has "=", names are non-empty, no two names of the
   corpus differ only in case, values contain neither "&" nor "=".  A name may be a proper prefix / suffix of
   another one (ab / a / b).  TLC checks that the spans re-delimit the text and emits [text, name, expectation];
   the driver hands poisoned result variables to the getters. *)
EXTENDS Naturals, Sequences, TLC, Json
CONSTANT MaxPairs
VARIABLE c

NamesQ  == {"a", "b", "ab", "id"}
ValuesQ == {"", "1", "xy z"}
Lookups == NamesQ \cup {"c", "i", "abc"}

RECURSIVE Join(_, _)
Join(ps, i) == IF i > Len(ps) THEN "" ELSE (IF i > 1 THEN "&" ELSE "") \o ps[i].n \o "=" \o ps[i].v \o Join(ps, i + 1)
Text(q) == (IF q.lead THEN "&" ELSE "") \o Join(q.ps, 1) \o (IF q.trail THEN "&" ELSE "")

RECURSIVE PairOff(_, _)
(* 0-based offset of the first name byte of pair i *)
PairOff(q, i) == IF i = 1 THEN (IF q.lead THEN 1 ELSE 0)
                 ELSE PairOff(q, i - 1) + Len(q.ps[i - 1].n) + 1 + Len(q.ps[i - 1].v) + 1
Matches(q, name) == {i \in 1..Len(q.ps) : q.ps[i].n = name}
First(S) == CHOOSE i \in S : \A j \in S : i <= j
Find(q, name) ==
  IF Matches(q, name) = {} THEN [found |-> FALSE, name |-> << >>, val |-> << >>]
  ELSE LET i == First(Matches(q, name)) IN
       [found |-> TRUE, name |-> <<PairOff(q, i), Len(name)>>,
        val |-> <<PairOff(q, i) + Len(name) + 1, Len(q.ps[i].v)>>]

Init == c = [ps |-> << >>, lead |-> FALSE, trail |-> FALSE, done |-> FALSE]
AddPair == /\ ~c.done /\ Len(c.ps) < MaxPairs
           /\ \E n \in NamesQ, v \in ValuesQ : c' = [c EXCEPT !.ps = Append(c.ps, [n |-> n, v |-> v])]
Close == /\ ~c.done /\ Len(c.ps) >= 1
         /\ \E l \in BOOLEAN, t \in BOOLEAN : <<l, t>> # <<FALSE, FALSE>> /\ c' = [c EXCEPT !.lead = l, !.trail = t, !.done = TRUE]
Next == AddPair \/ Close
Spec == Init /\ [][Next]_c

Cut(text, sp) == SubSeq(text, sp[1] + 1, sp[1] + sp[2])
SpansRedelimitQ == \A name \in Lookups :
  LET t == Text(c)  f == Find(c, name) IN
  f.found => /\ Cut(t, f.name) = name
             /\ Cut(t, <<f.name[1] + f.name[2], 1>>) = "="
             /\ f.name[1] = 0 \/ Cut(t, <<f.name[1] - 1, 1>>) = "&"
             /\ f.val[1] + f.val[2] <= Len(t)
             /\ f.val[1] + f.val[2] = Len(t) \/ Cut(t, <<f.val[1] + f.val[2], 1>>) = "&"
             /\ \A k \in 1..f.val[2] : Cut(t, <<f.val[1] + k - 1, 1>>) \notin {"&", "="}
FoundIffCarried == \A name \in Lookups : Find(c, name).found <=> (\E i \in 1..Len(c.ps) : c.ps[i].n = name)

Case == [kind |-> "qry", text |-> Text(c), look |-> [name \in Lookups |-> Find(c, name)]]
Emit == IF Len(c.ps) = 0 THEN TRUE ELSE PrintT(ToJson(Case))
=============================================================================
