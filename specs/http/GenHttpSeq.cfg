SPECIFICATION Spec
CONSTANTS
  MaxLen = 3
  Deep = FALSE
INVARIANTS EachWellFormed PresenceByForm NeighboursDiffer
CONSTRAINT Emit
CHECK_DEADLOCK FALSE
