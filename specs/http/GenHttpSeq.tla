---------------------------- MODULE GenHttpSeq ----------------------------
(* C20, request lines parsed ONE AFTER THE OTHER into the same result structure (a server keeps one
   http_req_line_data_t per connection and parses every request of the connection into it).
   A state is a sequence of 1..MaxLen requests (a single request = a never-initialised structure) whose neighbours differ in the form of the request-target
   (origin with / without query, absolute with / without path, authority, asterisk), i.e. in WHICH optional
   components are present.  The reference says that what the parser reports for a request is a function of
   that request alone: the expectation of element i is ReqExpect(c[i]), every present span lies inside the
   text of request i, and a component the target form does not have is Absent whatever the structure held
   before.  TLC checks this on every sequence and emits [texts, forms, expectations]; the driver parses the
   texts in order into one structure (poisoned before the first call), each text in its own exact-size
   mapping that is made inaccessible before the next one is parsed. *)
EXTENDS HttpMsg, TLC, Json
CONSTANT MaxLen, Deep
VARIABLE c

R(m, form, scheme, auth, L, core, T, hasq, q, vmaj, vmin, ctx) ==
  [m |-> m, form |-> form, scheme |-> scheme, auth |-> auth, L |-> L, core |-> core, T |-> T,
   hasq |-> hasq, q |-> q, vmaj |-> vmaj, vmin |-> vmin, ctx |-> ctx]
Hdrs == "\r\nHost: h\r\nX-Foo: a b"

Pool ==
  { R("GET",     "origin",    "",      "",                  1, "a/b", 0, FALSE, "",        1, 1, ""),
    R("HEAD",    "origin",    "",      "",                  2, "a",   1, TRUE,  "a=1&b=2", 1, 1, Hdrs),
    R("GET",     "absolute",  "http",  "h",                 1, "a",   0, FALSE, "",        1, 1, Hdrs),
    R("POST",    "absolute",  "https", "u@h.example:8080",  1, "a/b", 1, TRUE,  "a=1",     1, 0, ""),
    R("GET",     "absolute",  "http",  "[::1]:80",          0, "",    0, FALSE, "",        1, 1, ""),
    R("CONNECT", "authority", "",      "example.com:80",    0, "",    0, FALSE, "",        1, 1, Hdrs),
    R("OPTIONS", "asterisk",  "",      "",                  0, "",    0, FALSE, "",        1, 1, "") }
  \cup (IF Deep THEN
  { R("DELETE",  "origin",    "",      "",                  1, "",    0, FALSE, "",        1, 0, ""),
    R("PUT",     "origin",    "",      "",                  1, "x:80/y", 0, TRUE, "",      1, 1, ""),
    R("GET",     "absolute",  "ftp",   "10.0.0.1:21",       3, "a//b", 2, TRUE, "x?y/z",   1, 1, Hdrs),
    R("CONNECT", "authority", "",      "[::1]:443",         0, "",    0, FALSE, "",        1, 0, ""),
    R("OPTIONS", "asterisk",  "",      "",                  0, "",    0, FALSE, "",        1, 0, Hdrs) } ELSE {})

(* which optional components the target has: neighbours in a sequence differ in it *)
Comps(r) == << r.form, r.hasq >>

Init == c = << >>
Next == /\ Len(c) < MaxLen
        /\ \E r \in Pool : /\ (IF c = << >> THEN TRUE ELSE Comps(r) # Comps(c[Len(c)]))
                           /\ c' = Append(c, r)
Spec == Init /\ [][Next]_c

(* ---- the reference's own algebra *)
EachWellFormed == \A i \in 1..Len(c) : WellFormedReq(c[i]) /\ ReqSpansOK(c[i])
(* history independence: presence of every optional component is decided by the request's own form *)
PresenceByForm == \A i \in 1..Len(c) :
  LET e == ReqExpect(c[i]) IN
  /\ IsPresent(e.scheme) <=> c[i].form = "absolute"
  /\ IsPresent(e.auth)   <=> c[i].form \in {"absolute", "authority"}
  /\ IsPresent(e.path)   <=> c[i].form \in {"origin", "absolute"}
  /\ IsPresent(e.query)  <=> c[i].hasq
  /\ \A sp \in {e.method, e.target, e.scheme, e.auth, e.path, e.query} : IsPresent(sp) => Inside(sp, 0, e.lineSize)
(* neighbours really differ in some optional component (the sequences are not vacuous) *)
NeighboursDiffer == \A i \in 2..Len(c) :
  LET a == ReqExpect(c[i - 1])  b == ReqExpect(c[i]) IN
  \E f \in {"scheme", "auth", "path", "query"} : IsPresent(a[f]) # IsPresent(b[f])

Item(r) == [text |-> ReqText(r), form |-> r.form, hasq |-> r.hasq, expect |-> ReqExpect(r)]
Case == [kind |-> "seq", items |-> [i \in 1..Len(c) |-> Item(c[i])]]
Emit == IF Len(c) < 1 THEN TRUE ELSE PrintT(ToJson(Case))
=============================================================================
