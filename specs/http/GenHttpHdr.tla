---------------------------- MODULE GenHttpHdr ----------------------------
(* Generator for header sections (property C20).  The reachable states ARE the corpus:
     - every sequence of at most MaxLen fields over the well-formed field alphabet Alpha, in every
       order (duplicates, look-alike names, case patterns, blanks, folds included);
     - for every such block that lies over EdAlpha, has at most EdMaxLen fields and is accepted for
       GET or for another method: every single edit that puts one smuggling pattern into it
       (a control byte in a name / at the head, middle or tail of a value, a space before a colon,
       a second Host/Content-Length/Transfer-Encoding, the other framing field, a body length on GET).
   For every state TLC checks the reference's own algebra (spans re-delimit the rendered text, counts
   are structural, each edit flips the verdict, the text carries a byte-level pattern iff the structure
   says so) and emits one JSON line: the rendered text, the control-byte patches, the verdict for GET
   and for PUT, and - for well-formed blocks - the expected spans of every lookup. *)
EXTENDS HttpSec, TLC, Json
CONSTANTS Alpha, MaxLen, EdAlpha, EdMaxLen, CtlPairs, InsAlpha
VARIABLES blk, ed

(* The block is rendered behind this request line.  The verdict for a non-GET method is for the
   same text with the method token replaced by AltMethod, which has the same length, so every
   offset is unchanged. *)
Start     == "GET / HTTP/1.1"
AltMethod == "PUT"
ASSUME Len(AltMethod) = 3 /\ SubSeq(Start, 1, 3) = "GET"
(* The expectations do not depend on whether the caller's buffer stops before the terminating
   empty line or includes (part of) it: the rendered text may be followed by any of these. *)
Tails == << "", "\r\n", "\r\n\r\n" >>
Queries == {"host", "content-length", "transfer-encoding", "x-foo", "hos"}

F(n, c, lead, body, trail) ==
  [n |-> n, c |-> c, sp |-> FALSE, lead |-> lead, body |-> body, trail |-> trail, ctl |-> NoCtl]

(* ------------------------------------------------------------ alphabets *)
AlphaQuick ==
  { F(1, 1, " ", "a.example", ""),       F(1, 2, "", "h:80", " "),
    F(1, 3, "\t", "a.example", "\t"),    F(1, 4, "\r\n ", "h:80", ""),
    F(2, 1, " ", "5", ""),               F(2, 2, "", "0", ""),
    F(2, 3, "  ", "5", " \t"),
    F(3, 1, " ", "chunked", ""),         F(3, 2, "", "gzip,\r\n chunked", ""),
    F(3, 4, "\t", "chunked", "\r\n "),
    F(4, 1, " ", "v", ""),               F(4, 1, "", "", ""),
    F(4, 3, " ", "a b\tc", " "),         F(4, 1, " ", "x\r\n\ty\r\n z", ""),
    F(4, 2, " ", "", ""),
    F(5, 1, " ", "z", ""),               F(6, 1, " ", "z", ""),
    F(7, 1, " ", "z", ""),               F(8, 2, " ", "7", ""),
    F(9, 1, " ", "7", ""),               F(10, 1, " ", "chunked", ""),
    F(11, 1, " ", "chunked", "") }

AlphaThorough ==
  AlphaQuick \cup
  { F(1, 1, "", "", ""),                 F(1, 2, " \t ", "[::1]:8080", "\r\n\t"),
    F(2, 4, "\r\n\t", "10", ""),         F(2, 1, "", "", " "),
    F(3, 3, " ", "gzip, chunked", " "),  F(3, 1, "", "", ""),
    F(4, 4, "\t\t", "a:b", "\t"),        F(4, 1, " \r\n ", "q", " \r\n "),
    F(4, 2, " ", "Host: x", ""),         F(4, 1, " ", "w", "\r\n \r\n\t"),
    F(5, 3, "", "z", ""),                F(6, 4, "", "z", ""),
    F(7, 2, "", "z", ""),                F(12, 1, " ", "1", ""),
    F(8, 1, "", "", ""),                 F(10, 4, "", "", "") }

EdAlphaQuick ==
  { F(1, 1, " ", "a.example", ""),       F(2, 2, "", "0", ""),
    F(3, 1, " ", "chunked", ""),         F(4, 1, " ", "x\r\n\ty\r\n z", ""),
    F(4, 1, "", "", ""),                 F(6, 1, " ", "z", ""),
    F(9, 1, " ", "7", "") }

EdAlphaThorough ==
  EdAlphaQuick \cup
  { F(1, 4, "\r\n ", "h:80", ""),        F(2, 3, "  ", "5", " \t"),
    F(3, 2, "", "gzip,\r\n chunked", ""), F(4, 3, " ", "a b\tc", " "),
    F(10, 1, " ", "chunked", "") }

NoFields == {}

InsAlphaQuick ==
  { F(1, 2, " ", "b.example", ""), F(2, 3, " ", "3", ""), F(3, 4, " ", "chunked", "") }
InsAlphaThorough ==
  InsAlphaQuick \cup
  { F(1, 1, "", "b", " "), F(2, 1, "\r\n ", "3", ""), F(3, 1, "", "gzip", ""),
    F(1, 3, "", "", ""),   F(2, 4, "", "", ""),       F(3, 2, "", "", "") }

(* C0 controls other than HT (CR and LF here are bare: never a CR LF pair), and DEL *)
CtlBytes == {0, 1, 8, 10, 11, 12, 13, 14, 31, 127}
CtlPairsQuick ==
  {<<"vmid", x>> : x \in CtlBytes} \cup {<<p, x>> : p \in {"name", "vhead", "vtail"}, x \in {1, 127}}
CtlPairsThorough == {<<p, x>> : p \in {"name", "vhead", "vmid", "vtail"}, x \in CtlBytes}

(* ------------------------------------------------------------ behaviour *)
Init == blk = << >> /\ ed = NoEdit

Grow == /\ ed = NoEdit /\ Len(blk) < MaxLen
        /\ \E f \in Alpha : blk' = Append(blk, f)
        /\ UNCHANGED ed

IsEdBase(b) == /\ Len(b) <= EdMaxLen
               /\ \A i \in 1..Len(b) : b[i] \in EdAlpha
               /\ {m \in {"GET", "PUT"} : Accept(b, m)} # {}   \* (a set, so that TLC does not
                                                              \*  generate the successor twice)

EditCtl == /\ ed = NoEdit /\ IsEdBase(blk)
           /\ \E i \in 1..Len(blk), p \in CtlPairs : ed' = << "ctl", i, p[1], p[2] >>
           /\ UNCHANGED blk
EditSp  == /\ ed = NoEdit /\ IsEdBase(blk)
           /\ \E i \in 1..Len(blk) : ed' = << "sp", i >>
           /\ UNCHANGED blk
EditIns == /\ ed = NoEdit /\ IsEdBase(blk)
           /\ \E at \in 1..(Len(blk) + 1), f \in InsAlpha :
                /\ {m \in {"GET", "PUT"} :
                      Accept(blk, m) /\ Introduces(<< "ins", at, f >>, blk, m) # {}} # {}
                /\ ed' = << "ins", at, f >>
           /\ UNCHANGED blk
Next == Grow \/ EditCtl \/ EditSp \/ EditIns
Spec == Init /\ [][Next]_<<blk, ed>>

Cur == Apply(ed, blk)

(* ------------------------------------------------------------ invariants on the reference *)
WellFormedHasSpans == ed = NoEdit => WellFormedBlock(blk) /\ HdrSpansOK(Start, blk, Queries)
EveryEditFlips     == EditFlips(ed, blk)
EditedIsRejected   == ed # NoEdit => \E m \in {"GET", "PUT"} : Accept(blk, m) /\ Reject(Cur, m)
TextMatches        == TextAgreesWithStructure(Start, Cur)
PatchesPointAtMarks ==
  LET t == HdrText(Start, Cur)  p == Patches(Start, Cur) IN
  /\ Len(p) = Cardinality({i \in 1..Len(Cur) : Cur[i].ctl # NoCtl})
  /\ \A k \in 1..Len(p) : Cut(t, Sp(p[k][1], 1)) = CtlMark /\ p[k][2] \in CtlBytes
(* accepted blocks are exactly the grammar-generated ones without any pattern *)
AcceptIffNoPattern ==
  \A m \in {"GET", "PUT"} :
    Accept(Cur, m) <=> /\ WellFormedBlock(Cur)
                       /\ \A k \in FramingKeys : Count(Cur, k) <= 1
                       /\ ~(Count(Cur, KeyCL) = 1 /\ Count(Cur, KeyTE) = 1)
                       /\ ~(Count(Cur, KeyCL) = 1 /\ m = "GET")

(* ------------------------------------------------------------ corpus emission *)
(* Input shape, used only to NAME what fails: the names whose last matching field has an empty
   value and is the last thing in the rendered text (nothing of the buffer follows the blanks). *)
EndsEmpty ==
  {q \in Queries : LET m == Lookup(Start, blk, q) IN
                   Len(m) > 0 /\ m[Len(m)][3] = 0 /\ m[Len(m)][2] = Len(HdrText(Start, blk))}
Case ==
  [ text   |-> HdrText(Start, Cur),
    patch  |-> Patches(Start, Cur),
    alt    |-> AltMethod,
    tails  |-> Tails,
    ed     |-> ed[1],
    patGet |-> Patterns(Cur, "GET"),
    patPut |-> Patterns(Cur, "PUT"),
    rejGet |-> Reject(Cur, "GET"),
    rejPut |-> Reject(Cur, "PUT"),
    look   |-> IF ed = NoEdit THEN [q \in Queries |-> Lookup(Start, blk, q)] ELSE << >>,
    endsEmpty |-> IF ed = NoEdit THEN EndsEmpty ELSE {} ]
Emit == PrintT(ToJson(Case))
=============================================================================
