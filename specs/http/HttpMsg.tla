------------------------------ MODULE HttpMsg ------------------------------
(* Reference for property C20: HTTP/1.x start lines and header sections as STRUCTURED values
   (RFC 7230 section 3, RFC 3986 section 3), their rendering to text, and - computed from the
   structure, never by re-parsing the text - where every component lies in the rendered text.

   Text is a TLA+ string (TLC evaluates Len, \o and SubSeq on strings).  Offsets are 0-based byte
   offsets as a C caller sees them; a span is <<off, len>>, an absent component is << >>.

   What the library documents and this module therefore models (include/proto/http.h, the comments
   in http_parse_req_line / http_hdr_val_get_ex of src/proto/http.c):
     - the buffer handed to the header functions starts with the start line; fields follow, each
       preceded by CRLF; the CRLFCRLF terminator may or may not be inside the buffer;
     - abs_path: "Skip slash~s from head" (a run of leading slashes collapses to its last one) and,
       in the branch without a query, "Remove slash~s from tail" (never below one byte);
     - the value returned by a header lookup is the field value without surrounding SP/HT and
       without surrounding line folds (LWS = [CRLF] 1*( SP | HT )), as a sub-span of the input.  *)
EXTENDS Naturals, Sequences, FiniteSets

CRLF == "\r\n"

RECURSIVE Rep(_, _)
Rep(s, n) == IF n = 0 THEN "" ELSE s \o Rep(s, n - 1)

Sp(off, len) == <<off, len>>
Absent       == << >>
IsPresent(sp) == sp # << >>
(* the piece of text a span delimits *)
Cut(text, sp) == SubSeq(text, sp[1] + 1, sp[1] + sp[2])
Inside(sp, lo, hi) == sp[1] >= lo /\ sp[1] + sp[2] <= hi

Digit(d) == SubSeq("0123456789", d + 1, d + 1)
Version(maj, min) == "HTTP/" \o Digit(maj) \o "." \o Digit(min)

(* ------------------------------------------------------------------ request line
   request-line = method SP request-target SP HTTP-version CRLF          (RFC 7230 3.1.1)
   request-target = origin-form / absolute-form / authority-form / asterisk-form   (5.3)
   A request is the record
     [m, form, scheme, auth, L, core, T, hasq, q, vmaj, vmin, ctx]
   path = L slashes, then `core` (no slash at either end; may contain inner slashes and
   empty segments), then T slashes.  ctx is whatever follows the line in the buffer
   ("" or CRLF + fields).                                                              *)
KnownMethods == << "OPTIONS", "GET", "HEAD", "POST", "PUT", "DELETE", "TRACE", "CONNECT",
                   "NOTIFY", "M-SEARCH", "M-POST", "SUBSCRIBE", "UNSUBSCRIBE" >>
(* the numeric code include/proto/http.h assigns (the HTTP_REQ_METHOD_ constants); 0 = unknown token *)
MethodCode(m) == IF \E i \in 1..Len(KnownMethods) : KnownMethods[i] = m
                 THEN CHOOSE i \in 1..Len(KnownMethods) : KnownMethods[i] = m
                 ELSE 0

HasPath(r)  == r.form \in {"origin", "absolute"}
PathStr(r)  == Rep("/", r.L) \o r.core \o Rep("/", r.T)
QueryStr(r) == IF r.hasq THEN "?" \o r.q ELSE ""
Target(r) ==
  CASE r.form = "origin"    -> PathStr(r) \o QueryStr(r)
    [] r.form = "absolute"  -> r.scheme \o "://" \o r.auth \o PathStr(r) \o QueryStr(r)
    [] r.form = "authority" -> r.auth
    [] r.form = "asterisk"  -> "*"
ReqLine(r) == r.m \o " " \o Target(r) \o " " \o Version(r.vmaj, r.vmin)
ReqText(r) == ReqLine(r) \o r.ctx

(* grammar side conditions *)
WellFormedReq(r) ==
  /\ r.form = "origin"    => r.L >= 1                       \* absolute-path = 1*( "/" segment )
  /\ r.core = ""          => r.T = 0                        \* all-slash paths are counted in L
  /\ ~HasPath(r)          => (r.L = 0 /\ r.core = "" /\ r.T = 0 /\ ~r.hasq)
  /\ r.L = 0              => r.core = ""                    \* path-abempty starts with "/"
  /\ r.form = "authority" <=> r.m = "CONNECT"               \* 5.3.3
  /\ r.form = "asterisk"  => r.m = "OPTIONS"                \* 5.3.4
  /\ r.form # "absolute"  => r.scheme = ""
  /\ r.form \in {"absolute", "authority"} <=> r.auth # ""

(* documented trimming of the path, as a string *)
TrimmedPathStr(r) ==
  IF r.L = 0 THEN ""
  ELSE "/" \o r.core \o (IF r.hasq THEN Rep("/", r.T) ELSE "")

TargetOff(r) == Len(r.m) + 1
AuthOff(r)   == IF r.form = "absolute" THEN TargetOff(r) + Len(r.scheme) + 3 ELSE TargetOff(r)
PathOff(r)   == IF r.form = "absolute" THEN AuthOff(r) + Len(r.auth) ELSE TargetOff(r)
PathFullSpan(r) == Sp(PathOff(r), r.L + Len(r.core) + r.T)
PathTrimSpan(r) ==
  IF r.L = 0 THEN Sp(PathOff(r), 0)
  ELSE Sp(PathOff(r) + r.L - 1, 1 + Len(r.core) + (IF r.hasq THEN r.T ELSE 0))

(* What http_parse_req_line must report.  pathAny: the statement fixes no path for the
   asterisk form (anything inside the target, or nothing, is accepted there). *)
ReqExpect(r) ==
  [ rc       |-> 0,
    lineSize |-> Len(ReqLine(r)),
    method   |-> Sp(0, Len(r.m)),
    mcode    |-> MethodCode(r.m),
    target   |-> Sp(TargetOff(r), Len(Target(r))),
    scheme   |-> IF r.form = "absolute" THEN Sp(TargetOff(r), Len(r.scheme)) ELSE Absent,
    auth     |-> IF r.form \in {"absolute", "authority"} THEN Sp(AuthOff(r), Len(r.auth)) ELSE Absent,
    path     |-> IF HasPath(r) THEN PathTrimSpan(r) ELSE Absent,
    pathAny  |-> r.form = "asterisk",
    query    |-> IF r.hasq THEN Sp(PathOff(r) + r.L + Len(r.core) + r.T + 1, Len(r.q)) ELSE Absent,
    vmaj     |-> r.vmaj,
    vmin     |-> r.vmin ]

(* The spans re-delimit the text: cutting the rendered text at a span gives back the structural
   component, the delimiters sit where the grammar puts them, everything is inside the line. *)
ReqSpansOK(r) ==
  LET t == ReqText(r)  e == ReqExpect(r)  n == e.lineSize
      chk(sp, s) == IF IsPresent(sp) THEN Inside(sp, 0, n) /\ Cut(t, sp) = s ELSE s = ""
  IN /\ SubSeq(t, 1, n) = ReqLine(r) /\ SubSeq(t, n + 1, Len(t)) = r.ctx
     /\ chk(e.method, r.m) /\ Cut(t, Sp(Len(r.m), 1)) = " "
     /\ Inside(e.target, 0, n) /\ Cut(t, e.target) = Target(r)
     /\ Cut(t, Sp(e.target[1] + e.target[2], 1)) = " "
     /\ chk(e.scheme, r.scheme)
     /\ IsPresent(e.scheme) => Cut(t, Sp(e.scheme[1] + e.scheme[2], 3)) = "://"
     /\ chk(e.auth, r.auth)
     /\ HasPath(r) => /\ Cut(t, PathFullSpan(r)) = PathStr(r)
                      /\ Cut(t, e.path) = TrimmedPathStr(r)
                      /\ Inside(e.path, PathFullSpan(r)[1], PathFullSpan(r)[1] + PathFullSpan(r)[2])
                      /\ Inside(PathFullSpan(r), e.target[1], e.target[1] + e.target[2])
     /\ IF r.hasq THEN /\ Inside(e.query, 0, n) /\ Cut(t, e.query) = r.q
                       /\ Cut(t, Sp(e.query[1] - 1, 1)) = "?"
                       /\ e.query[1] + e.query[2] = e.target[1] + e.target[2]
        ELSE e.query = Absent
     /\ Cut(t, Sp(n - 8, 8)) = Version(r.vmaj, r.vmin)

(* ------------------------------------------------------------------ status line
   status-line = HTTP-version SP status-code SP reason-phrase CRLF        (RFC 7230 3.1.2)
   [vmaj, vmin, d1, d2, d3, reason, ctx]; the reason phrase may be empty.            *)
StatusLine(s) == Version(s.vmaj, s.vmin) \o " " \o Digit(s.d1) \o Digit(s.d2) \o Digit(s.d3)
                 \o " " \o s.reason
StatusText(s) == StatusLine(s) \o s.ctx
StatusExpect(s) ==
  [ rc |-> 0, lineSize |-> Len(StatusLine(s)), vmaj |-> s.vmaj, vmin |-> s.vmin,
    code |-> 100 * s.d1 + 10 * s.d2 + s.d3, reason |-> Sp(13, Len(s.reason)) ]
StatusSpansOK(s) ==
  LET t == StatusText(s)  e == StatusExpect(s) IN
  /\ SubSeq(t, 1, e.lineSize) = StatusLine(s) /\ SubSeq(t, e.lineSize + 1, Len(t)) = s.ctx
  /\ Cut(t, e.reason) = s.reason /\ e.reason[1] + e.reason[2] = e.lineSize
  /\ Cut(t, Sp(0, 8)) = Version(s.vmaj, s.vmin) /\ Cut(t, Sp(8, 1)) = " " /\ Cut(t, Sp(12, 1)) = " "
  /\ Cut(t, Sp(9, 3)) = Digit(s.d1) \o Digit(s.d2) \o Digit(s.d3)

(* ------------------------------------------------------------------ header fields
   header-field = field-name ":" OWS field-value OWS ;  field-value = *( field-content / obs-fold )
   A field is [n, c, sp, lead, body, trail, ctl]:
     n     index into Names, c index of the spelling (case pattern) of that name;
     sp    TRUE = a space between the name and the colon (forbidden by 3.2.4: a smuggling pattern);
     lead / trail  blanks around the value: SP, HT and folds (CRLF followed by SP/HT);
     body  the value proper: empty, or starts and ends with a visible character; may contain
           SP/HT and folds inside;
     ctl   <<>> or <<pos, byte>>: one control byte put into the name or the value
           (pos in "name","vhead","vmid","vtail").  The text carries the placeholder "\f" there and
           Patches() tells the renderer which byte value to store at that offset.              *)
Names == << << "Host",               "host",               "HOST",               "hOsT" >>,
            << "Content-Length",     "content-length",     "CONTENT-LENGTH",     "cOnTeNt-lEnGtH" >>,
            << "Transfer-Encoding",  "transfer-encoding",  "TRANSFER-ENCODING",  "tRaNsFeR-eNcOdInG" >>,
            << "X-Foo",              "x-foo",              "X-FOO",              "x-fOO" >>,
            << "Hos",                "hos",                "HOS",                "hOs" >>,
            << "Host2",              "host2",              "HOST2",              "hOsT2" >>,
            << "X-Host",             "x-host",             "X-HOST",             "x-hOsT" >>,
            << "Content-Lengt",      "content-lengt",      "CONTENT-LENGT",      "cOnTeNt-lEnGt" >>,
            << "X-Content-Length",   "x-content-length",   "X-CONTENT-LENGTH",   "x-cOnTeNt-lEnGtH" >>,
            << "Transfer-Encodings", "transfer-encodings", "TRANSFER-ENCODINGS", "tRaNsFeR-eNcOdInGs" >>,
            << "Ransfer-Encoding",   "ransfer-encoding",   "RANSFER-ENCODING",   "rAnSfEr-eNcOdInG" >>,
            << "Content-Length-Host","content-length-host","CONTENT-LENGTH-HOST","cOnTeNt-lEnGtH-hOsT" >> >>
(* the case-insensitive identity of a field name = its all-lowercase spelling *)
Canon(n) == Names[n][2]
NoCtl == << >>
CtlMark == "\f"

NameText(f) ==
  LET s == Names[f.n][f.c] IN
  IF f.ctl # NoCtl /\ f.ctl[1] = "name" THEN SubSeq(s, 1, 1) \o CtlMark \o SubSeq(s, 2, Len(s)) ELSE s
BodyText(f) ==
  IF f.ctl = NoCtl \/ f.ctl[1] = "name" THEN f.body
  ELSE CASE f.ctl[1] = "vhead" -> CtlMark \o f.body
         [] f.ctl[1] = "vtail" -> f.body \o CtlMark
         [] f.ctl[1] = "vmid"  -> SubSeq(f.body, 1, Len(f.body) \div 2) \o CtlMark
                                  \o SubSeq(f.body, Len(f.body) \div 2 + 1, Len(f.body))
FieldText(f) == NameText(f) \o (IF f.sp THEN " " ELSE "") \o ":" \o f.lead \o BodyText(f) \o f.trail
(* offset of the control byte inside FieldText(f) *)
CtlOffInField(f) ==
  IF f.ctl[1] = "name" THEN 1
  ELSE Len(Names[f.n][f.c]) + (IF f.sp THEN 1 ELSE 0) + 1 + Len(f.lead)
       + (CASE f.ctl[1] = "vhead" -> 0 [] f.ctl[1] = "vmid" -> Len(f.body) \div 2
            [] f.ctl[1] = "vtail" -> Len(f.body))

RECURSIVE FieldsText(_)
FieldsText(b) == IF b = << >> THEN "" ELSE CRLF \o FieldText(Head(b)) \o FieldsText(Tail(b))
(* start line, then CRLF + field for every field; no terminator (the caller appends a tail) *)
HdrText(start, b) == start \o FieldsText(b)

RECURSIVE FieldStart(_, _, _)
(* offset of the first name byte of field i *)
FieldStart(start, b, i) == IF i = 1 THEN Len(start) + 2
                           ELSE FieldStart(start, b, i - 1) + Len(FieldText(b[i - 1])) + 2

(* Lookup expectation for the field at offset fs: <<lo, hi, len>>; a non-empty value is the
   span <<lo, len>> with lo = hi; an empty value has len 0 and may be reported anywhere
   between the colon and the end of the field (RFC 7230 does not place an empty string). *)
ValueSpan(f, fs) ==
  LET v0 == fs + Len(Names[f.n][f.c]) + 1 IN
  IF f.body = "" THEN << v0, fs + Len(FieldText(f)), 0 >>
  ELSE << v0 + Len(f.lead), v0 + Len(f.lead), Len(f.body) >>

RECURSIVE LookupFrom(_, _, _, _)
LookupFrom(b, q, i, fs) ==
  IF i > Len(b) THEN << >>
  ELSE (IF Canon(b[i].n) = q THEN << ValueSpan(b[i], fs) >> ELSE << >>)
       \o LookupFrom(b, q, i + 1, fs + Len(FieldText(b[i])) + 2)
(* all values of the fields whose name is q case-insensitively, in order of appearance *)
Lookup(start, b, q) == LookupFrom(b, q, 1, Len(start) + 2)

Count(b, q) == Cardinality({i \in 1..Len(b) : Canon(b[i].n) = q})

RECURSIVE PatchesFrom(_, _, _)
PatchesFrom(b, i, fs) ==
  IF i > Len(b) THEN << >>
  ELSE (IF b[i].ctl # NoCtl THEN << << fs + CtlOffInField(b[i]), b[i].ctl[2] >> >> ELSE << >>)
       \o PatchesFrom(b, i + 1, fs + Len(FieldText(b[i])) + 2)
(* <<offset, byte>> pairs: the renderer stores `byte` at `offset` (where the text has "\f") *)
Patches(start, b) == PatchesFrom(b, 1, Len(start) + 2)

WellFormedField(f) == ~f.sp /\ f.ctl = NoCtl
WellFormedBlock(b) == \A i \in 1..Len(b) : WellFormedField(b[i])

(* the spans of a well-formed block re-delimit the text *)
HdrSpansOK(start, b, queries) ==
  LET t == HdrText(start, b) IN
  /\ \A i \in 1..Len(b) :
       LET fs == FieldStart(start, b, i) IN
       /\ Cut(t, Sp(fs - 2, 2)) = CRLF
       /\ Cut(t, Sp(fs, Len(FieldText(b[i])))) = FieldText(b[i])
       /\ Cut(t, Sp(fs + Len(Names[b[i].n][b[i].c]), 1)) = ":"
  /\ \A q \in queries :
       LET m  == Lookup(start, b, q)
           mf == SelectSeq(b, LAMBDA f : Canon(f.n) = q) IN
       /\ Len(m) = Count(b, q) /\ Len(mf) = Len(m)
       /\ \A k \in 1..Len(m) :
            /\ m[k][1] <= m[k][2] /\ m[k][2] + m[k][3] <= Len(t)
            /\ Cut(t, Sp(m[k][1], m[k][3])) = mf[k].body
            /\ m[k][3] > 0 => LET v == Cut(t, Sp(m[k][1], m[k][3])) IN
                              /\ SubSeq(v, 1, 1) \notin {" ", "\t", "\r", "\n"}
                              /\ SubSeq(v, Len(v), Len(v)) \notin {" ", "\t", "\r", "\n"}
                              /\ Cut(t, Sp(m[k][1] - 1, 1)) \in {" ", "\t", ":"}
            /\ k > 1 => m[k - 1][2] + m[k - 1][3] < m[k][1]
=============================================================================
