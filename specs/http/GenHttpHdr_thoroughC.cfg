SPECIFICATION Spec
CONSTANTS
  Alpha <- EdAlphaQuick
  MaxLen = 4
  EdAlpha <- NoFields
  EdMaxLen = 0
  CtlPairs <- CtlPairsQuick
  InsAlpha <- InsAlphaQuick
INVARIANTS WellFormedHasSpans EveryEditFlips EditedIsRejected TextMatches PatchesPointAtMarks AcceptIffNoPattern
CONSTRAINT Emit
CHECK_DEADLOCK FALSE
