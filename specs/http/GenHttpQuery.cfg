SPECIFICATION Spec
CONSTANTS
  MaxPairs = 2
INVARIANTS SpansRedelimitQ FoundIffCarried
CONSTRAINT Emit
CHECK_DEADLOCK FALSE
