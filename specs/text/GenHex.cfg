SPECIFICATION Spec
CONSTANTS
  Bytes = {0, 9, 10, 15, 16, 154, 169, 175, 240, 255}
  MaxLen = 3
  RandLens = {4, 5, 6, 7, 8, 15, 16, 17, 31, 32, 33, 64}
INVARIANTS RoundTrip LenLaw AllHex
CONSTRAINT Emit
CHECK_DEADLOCK FALSE
