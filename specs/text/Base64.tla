------------------------------ MODULE Base64 ------------------------------
(* RFC 4648 section 4 as plain mathematics over sequences of byte values 0..255.
   Reference definition for liblcb include/utils/base64.h (properties C14, C12). *)
EXTENDS Naturals, Sequences

Alphabet == <<65,66,67,68,69,70,71,72,73,74,75,76,77,78,79,80,81,82,83,84,85,86,87,88,89,90,
              97,98,99,100,101,102,103,104,105,106,107,108,109,110,111,112,113,114,115,116,
              117,118,119,120,121,122, 48,49,50,51,52,53,54,55,56,57, 43, 47>>
Pad == 61            \* '='
Sym(v) == Alphabet[v + 1]                         \* 6-bit value -> character code
IsSym(c) == \E i \in 1..64 : Alphabet[i] = c
Val(c) == (CHOOSE i \in 1..64 : Alphabet[i] = c) - 1

EncLen(n) == 4 * ((n + 2) \div 3)

\* 24-bit group arithmetic; everything stays far below 2^31
Enc3(a, b, c) == LET w == a * 65536 + b * 256 + c IN
   << Sym(w \div 262144), Sym((w \div 4096) % 64), Sym((w \div 64) % 64), Sym(w % 64) >>

RECURSIVE Encode(_)
Encode(s) ==
   IF Len(s) = 0 THEN << >>
   ELSE IF Len(s) = 1 THEN LET q == Enc3(s[1], 0, 0) IN << q[1], q[2], Pad, Pad >>
   ELSE IF Len(s) = 2 THEN LET q == Enc3(s[1], s[2], 0) IN << q[1], q[2], q[3], Pad >>
   ELSE Enc3(s[1], s[2], s[3]) \o Encode(SubSeq(s, 4, Len(s)))

\* strict decoder: inverse of Encode on its range
RECURSIVE StripPad(_)
StripPad(t) == IF Len(t) > 0 /\ t[Len(t)] = Pad THEN StripPad(SubSeq(t, 1, Len(t) - 1)) ELSE t

RECURSIVE DecodeSyms(_)
DecodeSyms(t) ==      \* t: sequence of alphabet characters without padding, Len % 4 # 1
   IF Len(t) < 2 THEN << >>
   ELSE IF Len(t) = 2 THEN << (Val(t[1]) * 4 + Val(t[2]) \div 16) % 256 >>
   ELSE IF Len(t) = 3 THEN << (Val(t[1]) * 4 + Val(t[2]) \div 16) % 256,
                              ((Val(t[2]) % 16) * 16 + Val(t[3]) \div 4) % 256 >>
   ELSE << (Val(t[1]) * 4 + Val(t[2]) \div 16) % 256,
           ((Val(t[2]) % 16) * 16 + Val(t[3]) \div 4) % 256,
           ((Val(t[3]) % 4) * 64 + Val(t[4])) % 256 >> \o DecodeSyms(SubSeq(t, 5, Len(t)))

Decode(t) == DecodeSyms(StripPad(t))
OnlySyms(t) == SelectSeq(t, IsSym)                 \* what the tolerant decoder keeps
DecodeTolerant(t) == DecodeSyms(OnlySyms(t))
=============================================================================
