SPECIFICATION Spec
CONSTANTS
  Bytes = {0, 9, 10, 15, 16, 154, 169, 175, 240, 255}
  MaxLen = 4
  RandLens = {5, 6, 7, 8, 9, 10, 11, 12, 13, 14, 15, 16, 17, 31, 32, 33, 63, 64, 65, 127, 128, 129, 255, 256, 300}
INVARIANTS RoundTrip LenLaw AllHex
CONSTRAINT Emit
CHECK_DEADLOCK FALSE
