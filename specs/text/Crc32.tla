------------------------------- MODULE Crc32 -------------------------------
(* 32-bit cyclic redundancy checks as bit-serial polynomial division over GF(2) (the parametrised model of
   Williams' "Painless guide" / the reveng catalogue: width=32, poly, init, refin=refout, xorout).
   No tables, no nibble or byte steps: one shift and one conditional xor per message bit.
   A 32-bit register is a pair << hi, lo >> of 16-bit halves (TLC integers are 32-bit signed); xor of
   halves comes from the community module Bitwise.
   Reference for include/math/crc32.h of liblcb (C14): crc32_normal4/8, crc32_reflect4/8 with each table,
   and the eight named variants. *)
EXTENDS Naturals, Sequences, Bitwise

XorW(a, b) == << a[1] ^^ b[1], a[2] ^^ b[2] >>
Shl1(w) == << ((w[1] * 2) % 65536) + (w[2] \div 32768), (w[2] * 2) % 65536 >>
Top(w) == w[1] \div 32768
Ones == << 65535, 65535 >>
ZeroW == << 0, 0 >>

\* one message bit b enters at the top of the register (MSB-first division, "direct" form)
Step(w, b, poly) == IF (Top(w) + b) % 2 = 1 THEN XorW(Shl1(w), poly) ELSE Shl1(w)

P2 == << 1, 2, 4, 8, 16, 32, 64, 128 >>
BitOf(byte, k) == (byte \div P2[k + 1]) % 2           \* bit k (0 = least significant) of a byte
\* the eight bits of one byte, most significant first (refin = FALSE) or least significant first (refin = TRUE)
RECURSIVE ByteStep(_, _, _, _, _)
ByteStep(w, byte, i, refin, poly) ==
   IF i = 8 THEN w
   ELSE ByteStep(Step(w, BitOf(byte, IF refin THEN i ELSE 7 - i), poly), byte, i + 1, refin, poly)
RECURSIVE Divide(_, _, _, _, _)
Divide(w, s, i, refin, poly) ==
   IF i > Len(s) THEN w ELSE Divide(ByteStep(w, s[i], 0, refin, poly), s, i + 1, refin, poly)

\* bit reversal of 16 and 32 bit quantities
RECURSIVE Rev16Acc(_, _, _)
Rev16Acc(x, k, acc) == IF k = 0 THEN acc ELSE Rev16Acc(x \div 2, k - 1, acc * 2 + (x % 2))
Rev16(x) == Rev16Acc(x, 16, 0)
Reflect32(w) == << Rev16(w[2]), Rev16(w[1]) >>

(* What the library's table functions keep in their "crc" variable:
     normal    : the division register itself
     reflected : the bit-reversed register (refin = refout = TRUE)                                  *)
RegUpdate(poly, refl, reg, s) ==
   IF refl THEN Reflect32(Divide(Reflect32(reg), s, 1, TRUE, poly))
   ELSE Divide(reg, s, 1, FALSE, poly)

\* the five generator polynomials for which crc32.h carries tables (normal representation), with direction
Poly04C11DB7 == << 1217, 7607 >>        \* 0x04c1 0x1db7
Poly1EDC6F41 == << 7900, 28481 >>       \* 0x1edc 0x6f41
PolyA833982B == << 43059, 38955 >>      \* 0xa833 0x982b
Poly814141AB == << 33089, 16811 >>      \* 0x8141 0x41ab
\* index = table index used by the conformance driver
Tables == << [poly |-> Poly04C11DB7, refl |-> FALSE],     \* 0: crc32_tbl256_04c11db7
             [poly |-> Poly04C11DB7, refl |-> TRUE],      \* 1: crc32_tbl{16,256}_edb88320
             [poly |-> Poly1EDC6F41, refl |-> TRUE],      \* 2: crc32_tbl{16,256}_1edc6f41
             [poly |-> PolyA833982B, refl |-> TRUE],      \* 3: crc32_tbl{16,256}_a833982b
             [poly |-> Poly814141AB, refl |-> FALSE] >>   \* 4: crc32_tbl256_814141ab

\* catalogue models: table, init, xorout (index = model index used by the conformance driver)
Models == << [name |-> "crc32a",      tbl |-> 1, init |-> Ones,  xorout |-> Ones ],   \* CRC-32/BZIP2
             [name |-> "crc32cksum",  tbl |-> 1, init |-> ZeroW, xorout |-> Ones ],   \* CRC-32/CKSUM
             [name |-> "crc32mpeg2",  tbl |-> 1, init |-> Ones,  xorout |-> ZeroW],   \* CRC-32/MPEG-2
             [name |-> "crc32b",      tbl |-> 2, init |-> Ones,  xorout |-> Ones ],   \* CRC-32/ISO-HDLC
             [name |-> "crc32jamcrc", tbl |-> 2, init |-> Ones,  xorout |-> ZeroW],   \* CRC-32/JAMCRC
             [name |-> "crc32c",      tbl |-> 3, init |-> Ones,  xorout |-> Ones ],   \* CRC-32/ISCSI
             [name |-> "crc32d",      tbl |-> 4, init |-> Ones,  xorout |-> Ones ],   \* CRC-32/BASE91-D
             [name |-> "crc32q",      tbl |-> 5, init |-> ZeroW, xorout |-> ZeroW] >> \* CRC-32/AIXM
ModelCrc(m, s) == XorW(RegUpdate(Tables[Models[m].tbl].poly, Tables[Models[m].tbl].refl, Models[m].init, s),
                       Models[m].xorout)

\* the catalogue's check values ("123456789"), as << hi, lo >>
Check9 == << 49, 50, 51, 52, 53, 54, 55, 56, 57 >>
CheckValues == << << 64649, 6424 >>,     \* 0xfc891918
                  << 30302, 30336 >>,    \* 0x765e7680
                  << 886, 59111 >>,      \* 0x0376e6e7
                  << 52212, 14630 >>,    \* 0xcbf43926
                  << 13323, 50905 >>,    \* 0x340bc6d9
                  << 58118, 37507 >>,    \* 0xe3069283
                  << 34609, 21878 >>,    \* 0x87315576
                  << 12304, 49023 >> >>  \* 0x3010bf7f
ASSUME CatalogueCheckValues == \A m \in 1..8 : ModelCrc(m, Check9) = CheckValues[m]
=============================================================================
