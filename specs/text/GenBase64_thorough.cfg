SPECIFICATION Spec
CONSTANTS
  Bytes = {0, 62, 63, 251, 255, 65}
  MaxLen = 6
INVARIANTS RoundTrip LenLaw TolerantIgnoresJunk
CONSTRAINT Emit
CHECK_DEADLOCK FALSE
