SPECIFICATION Spec
CONSTANTS
  Bytes = {0, 62, 63, 251, 255, 65}
  MaxLen = 6
  RandLens = {7, 8, 9, 10, 11, 12, 13, 14, 15, 16, 17, 18, 19, 20, 21, 22, 23, 24, 25, 26, 27, 28, 29, 30, 31, 32, 33, 34, 35, 36, 37, 38, 39, 40, 47, 49, 63, 64, 65, 100, 127, 128, 129, 255, 256, 257}
INVARIANTS RoundTrip RoundTripNoPad LenLaw DecLenLaw PadLaw Canonical TolerantIgnoresJunk FilterLaw
CONSTRAINT Emit
CHECK_DEADLOCK FALSE
