SPECIFICATION Spec
CONSTANTS
  Bytes = {0, 32, 37, 43, 47, 65, 122, 126, 127, 128, 255}
  MaxLen = 4
  RandLens = {5, 6, 7, 8, 9, 10, 11, 12, 13, 14, 15, 16, 17, 31, 32, 33, 63, 64, 65, 127, 128, 129, 255, 256, 300}
INVARIANTS Inverse Shape NoPlus
CONSTRAINT Emit
CHECK_DEADLOCK FALSE
