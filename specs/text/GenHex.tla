------------------------------ MODULE GenHex ------------------------------
(* Generator for the hex codec: every single byte 0..255 (every table entry / nibble pair), every string
   over the boundary bytes up to MaxLen, seeded random strings.  The empty string is NOT part of the corpus:
   cvt_bin2hex documents "empty = the number 0" ("00") and cvt_hex2bin refuses empty input. *)
EXTENDS Hex, TextRand, TLC, Json, IOUtils
CONSTANTS Bytes, MaxLen, RandLens
VARIABLE s
Seed == atoi(IOEnv.SEED)
Init == s \in ({ << b >> : b \in 0..255 } \cup { RandBytes(Mix(Seed, 300 + n), n) : n \in RandLens })
Next == /\ Len(s) < MaxLen
        /\ s[1] \in Bytes            \* only the boundary-byte strings are extended
        /\ \E b \in Bytes : s' = Append(s, b)
Spec == Init /\ [][Next]_s
RoundTrip == UnHex(HexL(s)) = s /\ UnHex(HexU(s)) = s /\ UnHex(HexM(s)) = s
LenLaw    == Len(HexL(s)) = 2 * Len(s)
AllHex    == \A i \in 1..Len(HexL(s)) : IsHexChar(HexL(s)[i]) /\ IsHexChar(HexU(s)[i])
Emit == PrintT(ToJson([in |-> s, hexl |-> HexL(s), hexu |-> HexU(s), hexm |-> HexM(s)]))
=============================================================================
