------------------------------ MODULE GenXml ------------------------------
(* Generator: strings built from TOKENS (the five special characters, a letter, ';', whole entity
   references and fragments of them), so that short token sequences already contain nested and
   broken references such as "&amp;lt;", "&am", "&&lt;;".  The state is the flat byte string. *)
EXTENDS XmlEnt, TLC, Json
CONSTANTS MaxTok, Tokens
VARIABLES s, n
TokensQuick == { <<39>>, <<34>>, <<38>>, <<60>>, <<62>>, <<97>>, <<59>>,
                 <<38, 97, 109, 112, 59>>, <<38, 108, 116, 59>>, <<97, 109, 112, 59>>, <<38, 97>>,
                 <<108, 116, 59>>, <<38, 97, 112, 111, 115, 59>>, <<38, 113, 117, 111, 116>> }
TokensThorough == TokensQuick \cup { <<38, 103, 116, 59>>, <<103, 116>> }
Init == s = << >> /\ n = 0
Next == /\ n < MaxTok
        /\ \E k \in Tokens : s' = s \o k
        /\ n' = n + 1
Spec == Init /\ [][Next]_<<s, n>>
View == s
E == XmlEncode(s)
Inverse     == XmlDecode(E) = s
LenLaw      == Len(E) = XmlEncLen(s)
NoRawInEnc  == \A i \in 1..Len(E) : E[i] \notin {39, 34, 60, 62}
AmpStartsEntity == \A i \in 1..Len(E) : E[i] = 38 =>
                       \E k \in 1..5 : IsPrefix(Entities[k], SubSeq(E, i, Len(E)))
DecodeShrinks == Len(XmlDecode(s)) <= Len(s)
Emit == PrintT(ToJson([in |-> s, enc |-> E, dec |-> XmlDecode(s)]))
=============================================================================
