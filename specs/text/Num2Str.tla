------------------------------ MODULE Num2Str ------------------------------
(* Integers of the ten liblcb integer types and their texts, as plain mathematics (C14, C12).
   TLC integers are 32-bit, so a magnitude is a little-endian vector of FIVE 16-bit limbs (80 bits: room to
   range-check 20..24 digit strings), and a machine value is the low FOUR limbs (64 bit two's complement,
   sign-extended for the narrower types).
   Both directions between value and text are defined here, independently of each other:
      FromDigits  digit string  -> limbs   (Horner)
      ToDigits    limbs         -> canonical digit string   (repeated long division)
      NumDigits   limbs         -> length of the canonical decimal text, by comparison with powers of ten
   Reference for include/utils/num2str.h (UNUM2STR/SNUM2STR), str2num.h (STR2UNUM/STR2SNUM) and
   strh2num.h (STRH2UNUM/STRH2SNUM). *)
EXTENDS Naturals, Sequences
B == 65536
Zero5 == << 0, 0, 0, 0, 0 >>

\* l * m + a  for small m (<= 16) and a (< 16); the result must fit 80 bits
MulAdd(l, m, a) ==
   LET x1 == l[1] * m + a
       x2 == l[2] * m + x1 \div B
       x3 == l[3] * m + x2 \div B
       x4 == l[4] * m + x3 \div B
       x5 == l[5] * m + x4 \div B
   IN << x1 % B, x2 % B, x3 % B, x4 % B, x5 % B >>
RECURSIVE HornerAcc(_, _, _, _)
HornerAcc(d, i, base, acc) == IF i > Len(d) THEN acc ELSE HornerAcc(d, i + 1, base, MulAdd(acc, base, d[i]))
FromDigits(d, base) == HornerAcc(d, 1, base, Zero5)              \* Len(d) <= 24 (base 10), <= 20 (base 16)

\* long division by a small m:  << quotient, remainder >>
DivMod(l, m) ==
   LET c5 == l[5]
       c4 == (c5 % m) * B + l[4]
       c3 == (c4 % m) * B + l[3]
       c2 == (c3 % m) * B + l[2]
       c1 == (c2 % m) * B + l[1]
   IN << << c1 \div m, c2 \div m, c3 \div m, c4 \div m, c5 \div m >>, c1 % m >>
RECURSIVE ToDigitsAcc(_, _, _)
ToDigitsAcc(l, base, acc) == IF l = Zero5 THEN acc
                             ELSE LET qr == DivMod(l, base) IN ToDigitsAcc(qr[1], base, << qr[2] >> \o acc)
ToDigits(l, base) == IF l = Zero5 THEN << 0 >> ELSE ToDigitsAcc(l, base, << >>)

\* comparison, most significant limb first
RECURSIVE LtFrom(_, _, _)
LtFrom(a, b, i) == IF i = 0 THEN FALSE ELSE IF a[i] # b[i] THEN a[i] < b[i] ELSE LtFrom(a, b, i - 1)
Lt(a, b) == LtFrom(a, b, 5)
Le(a, b) == ~Lt(b, a)

Add(a, b) ==
   LET x1 == a[1] + b[1]
       x2 == a[2] + b[2] + x1 \div B
       x3 == a[3] + b[3] + x2 \div B
       x4 == a[4] + b[4] + x3 \div B
       x5 == a[5] + b[5] + x4 \div B
   IN << x1 % B, x2 % B, x3 % B, x4 % B, x5 % B >>
One5 == << 1, 0, 0, 0, 0 >>
\* a - 1 for a > 0: the lowest non-zero limb is decremented, the zero limbs below it become 0xffff
RECURSIVE Dec1From(_, _)
Dec1From(a, i) == IF a[i] > 0 THEN [a EXCEPT ![i] = a[i] - 1] ELSE Dec1From([a EXCEPT ![i] = 65535], i + 1)
Dec1(a) == Dec1From(a, 1)

P2tab == << 1, 2, 4, 8, 16, 32, 64, 128, 256, 512, 1024, 2048, 4096, 8192, 16384, 32768 >>
Pow2L(k) == [ Zero5 EXCEPT ![(k \div 16) + 1] = P2tab[(k % 16) + 1] ]          \* 2^k, k < 80
RECURSIVE Pow10L(_)
Pow10L(k) == IF k = 0 THEN One5 ELSE MulAdd(Pow10L(k - 1), 10, 0)                \* 10^k, k <= 24
\* length of the canonical decimal text: the least n >= 1 with l < 10^n
RECURSIVE NumDigitsFrom(_, _)
NumDigitsFrom(l, n) == IF Lt(l, Pow10L(n)) THEN n ELSE NumDigitsFrom(l, n + 1)
NumDigits(l) == NumDigitsFrom(l, 1)

(* ------------------------------------------------------------------ the ten types *)
TypeNames  == << "u8", "u16", "u32", "u64", "usize", "s8", "s16", "s32", "s64", "ssize" >>
TypeBits   == << 8, 16, 32, 64, 64, 8, 16, 32, 64, 64 >>        \* size_t/ssize_t: LP64
TypeSigned == << FALSE, FALSE, FALSE, FALSE, FALSE, TRUE, TRUE, TRUE, TRUE, TRUE >>
\* largest magnitude of a non-negative / negative value of type t
MaxMag(t, neg) == IF TypeSigned[t] THEN (IF neg THEN Pow2L(TypeBits[t] - 1) ELSE Dec1(Pow2L(TypeBits[t] - 1)))
                  ELSE Dec1(Pow2L(TypeBits[t]))
InType(t, neg, mag) == (neg => TypeSigned[t] /\ mag # Zero5) /\ Le(mag, MaxMag(t, neg))

\* 64-bit two's complement image (sign-extended), four limbs little-endian
Low4(l) == << l[1], l[2], l[3], l[4] >>
Value64(neg, mag) ==
   IF ~neg THEN Low4(mag)
   ELSE Low4(Add(<< 65535 - mag[1], 65535 - mag[2], 65535 - mag[3], 65535 - mag[4], 0 >>, One5))

(* ------------------------------------------------------------------ texts *)
DigL == << 48,49,50,51,52,53,54,55,56,57, 97,98,99,100,101,102 >>
DigU == << 48,49,50,51,52,53,54,55,56,57, 65,66,67,68,69,70 >>
RECURSIVE CharsAcc(_, _, _, _)
CharsAcc(d, i, tbl, acc) == IF i > Len(d) THEN acc ELSE CharsAcc(d, i + 1, tbl, Append(acc, tbl[d[i] + 1]))
Chars(d, tbl) == CharsAcc(d, 1, tbl, << >>)
Minus == 45
PlusC == 43
\* canonical decimal text of (neg, magnitude): optional '-', no leading zeros, "0" for zero
DecText(neg, mag) == (IF neg THEN << Minus >> ELSE << >>) \o Chars(ToDigits(mag, 10), DigL)
HexText(neg, mag, tbl) == (IF neg THEN << Minus >> ELSE << >>) \o Chars(ToDigits(mag, 16), tbl)

\* reference parsers for sign + digits texts:  << neg, magnitude >>
CharVal(c) == IF c >= 48 /\ c <= 57 THEN c - 48 ELSE IF c >= 97 /\ c <= 102 THEN c - 87 ELSE c - 55
RECURSIVE ParseAcc(_, _, _, _)
ParseAcc(t, i, base, acc) == IF i > Len(t) THEN acc ELSE ParseAcc(t, i + 1, base, MulAdd(acc, base, CharVal(t[i])))
Parse(t, base) ==
   LET signed == Len(t) > 0 /\ (t[1] = Minus \/ t[1] = PlusC)
   IN << signed /\ t[1] = Minus, ParseAcc(t, IF signed THEN 2 ELSE 1, base, Zero5) >>
=============================================================================
