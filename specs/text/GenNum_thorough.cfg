SPECIFICATION Spec
CONSTANTS
  NRand = 1000
INVARIANTS InRange TextRoundTrip LenLaw ParseInverse HexInverse TwosComplement
CONSTRAINT Emit
CHECK_DEADLOCK FALSE
