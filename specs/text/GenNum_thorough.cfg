SPECIFICATION Spec
CONSTANTS
  NRand = 300
INVARIANTS InRange TextRoundTrip LenLaw ParseInverse HexInverse TwosComplement
CONSTRAINT Emit
CHECK_DEADLOCK FALSE
