SPECIFICATION Spec
CONSTANTS
  Bytes = {0, 62, 63, 251, 255, 65}
  MaxLen = 4
  RandLens = {5, 6, 7, 8, 9, 10, 11, 12, 13, 14, 15, 16, 17, 18, 19, 20, 21, 22, 23, 24, 31, 32, 33, 47, 49, 64, 100}
INVARIANTS RoundTrip RoundTripNoPad LenLaw DecLenLaw PadLaw Canonical TolerantIgnoresJunk FilterLaw
CONSTRAINT Emit
CHECK_DEADLOCK FALSE
