------------------------------ MODULE XmlEnt ------------------------------
(* The five predefined XML entities (XML 1.0 section 4.6) as plain mathematics over byte sequences.
   Reference for xml_encode / xml_decode of liblcb src/utils/xml.c (C14, C12).
   Encode replaces each special character by its entity reference; Decode scans left to right and
   replaces each entity reference by its character, exactly once (no re-scanning of produced text). *)
EXTENDS Naturals, Sequences
Specials == << 39, 34, 38, 60, 62 >>                            \* ' " & < >
Entities == << << 38, 97, 112, 111, 115, 59 >>,                  \* &apos;
               << 38, 113, 117, 111, 116, 59 >>,                 \* &quot;
               << 38, 97, 109, 112, 59 >>,                       \* &amp;
               << 38, 108, 116, 59 >>,                           \* &lt;
               << 38, 103, 116, 59 >> >>                         \* &gt;
IsSpecial(c) == \E k \in 1..5 : Specials[k] = c
EntOf(c) == Entities[CHOOSE k \in 1..5 : Specials[k] = c]

RECURSIVE XmlEncode(_)
XmlEncode(s) == IF Len(s) = 0 THEN << >>
                ELSE (IF IsSpecial(s[1]) THEN EntOf(s[1]) ELSE << s[1] >>) \o XmlEncode(Tail(s))

IsPrefix(p, t) == Len(p) <= Len(t) /\ SubSeq(t, 1, Len(p)) = p
RECURSIVE XmlDecode(_)
XmlDecode(t) ==
   IF Len(t) = 0 THEN << >>
   ELSE IF \E k \in 1..5 : IsPrefix(Entities[k], t)
        THEN LET k == CHOOSE k \in 1..5 : IsPrefix(Entities[k], t)
             IN << Specials[k] >> \o XmlDecode(SubSeq(t, Len(Entities[k]) + 1, Len(t)))
        ELSE << t[1] >> \o XmlDecode(Tail(t))

RECURSIVE Count(_, _)
Count(s, c) == IF Len(s) = 0 THEN 0 ELSE (IF s[1] = c THEN 1 ELSE 0) + Count(Tail(s), c)
XmlEncLen(s) == Len(s) + 5 * Count(s, 39) + 5 * Count(s, 34) + 4 * Count(s, 38) + 3 * Count(s, 60) + 3 * Count(s, 62)
=============================================================================
