SPECIFICATION Spec
CONSTANTS
  Bytes = {0, 32, 37, 43, 47, 65, 122, 126, 127, 128, 255}
  MaxLen = 3
  RandLens = {4, 5, 6, 7, 8, 15, 16, 17, 32, 64}
INVARIANTS Inverse Shape NoPlus
CONSTRAINT Emit
CHECK_DEADLOCK FALSE
