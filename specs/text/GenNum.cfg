SPECIFICATION Spec
CONSTANTS
  NRand = 12
INVARIANTS InRange TextRoundTrip LenLaw ParseInverse HexInverse TwosComplement
CONSTRAINT Emit
CHECK_DEADLOCK FALSE
