SPECIFICATION Spec
CONSTANTS
  Bytes = {0, 255, 128, 1}
  MaxLen = 5
  RandLens = {2, 3, 4, 5, 6, 7, 8, 9, 10, 11, 12, 13, 14, 15, 16, 17, 18, 19, 20, 21, 22, 23, 24, 25, 31, 32, 33, 47, 48, 49, 61, 62, 63, 64, 65, 66, 67, 95, 96, 97, 127, 128, 129, 191, 192, 193, 255, 256, 257, 500}
INVARIANTS ChainLaw ResidueLaw ModelsFromRaw
CONSTRAINT Emit
CHECK_DEADLOCK FALSE
