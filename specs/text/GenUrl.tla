------------------------------ MODULE GenUrl ------------------------------
(* Generator for URL unescaping: every single byte, every string over the boundary bytes up to MaxLen,
   seeded random strings; each in four standard encodings (minimal / encode-all, upper / lower hex). *)
EXTENDS UrlDecode, TextRand, TLC, Json, IOUtils
CONSTANTS Bytes, MaxLen, RandLens
VARIABLE s
Seed == atoi(IOEnv.SEED)
Init == s \in ({ << b >> : b \in 0..255 } \cup { RandBytes(Mix(Seed, 500 + n), n) : n \in RandLens })
Next == /\ Len(s) < MaxLen
        /\ s[1] \in Bytes
        /\ \E b \in Bytes : s' = Append(s, b)
Spec == Init /\ [][Next]_s
MinU == PctEncode(s, FALSE, DigU)
MinL == PctEncode(s, FALSE, DigL)
AllU == PctEncode(s, TRUE, DigU)
AllL == PctEncode(s, TRUE, DigL)
Inverse == PctDecode(MinU) = s /\ PctDecode(MinL) = s /\ PctDecode(AllU) = s /\ PctDecode(AllL) = s
Shape   == WellFormed(MinU) /\ WellFormed(AllL) /\ Len(AllU) = 3 * Len(s)
           /\ \A i \in 1..Len(MinU) : MinU[i] = 37 \/ Unreserved(MinU[i]) \/ IsHexChar(MinU[i])
NoPlus  == \A i \in 1..Len(MinU) : MinU[i] # 43
Emit == PrintT(ToJson([in |-> s, minu |-> MinU, minl |-> MinL, allu |-> AllU, alll |-> AllL]))
=============================================================================
