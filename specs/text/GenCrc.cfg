SPECIFICATION Spec
CONSTANTS
  Bytes = {0, 255, 128, 1}
  MaxLen = 3
  RandLens = {2, 3, 4, 5, 6, 7, 8, 9, 10, 11, 12, 13, 15, 16, 17, 31, 32, 33, 62, 63, 64, 65, 66, 127, 128, 129}
INVARIANTS ChainLaw ResidueLaw ModelsFromRaw
CONSTRAINT Emit
CHECK_DEADLOCK FALSE
