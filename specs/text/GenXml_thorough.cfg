SPECIFICATION Spec
CONSTANTS
  MaxTok = 4
  Tokens <- TokensThorough
VIEW View
INVARIANTS Inverse LenLaw NoRawInEnc AmpStartsEntity DecodeShrinks
CONSTRAINT Emit
CHECK_DEADLOCK FALSE
