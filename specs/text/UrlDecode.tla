----------------------------- MODULE UrlDecode -----------------------------
(* Percent-encoding of RFC 3986 section 2.1 as plain mathematics over byte sequences, and its inverse.
   Reference for http_url_decode of liblcb src/proto/http.c (C14).  The library has no encoder (it is
   under "#if 0"), so the standard encoder lives here: unreserved characters may stay literal, every other
   byte becomes "%HH" (either letter case); "encode everything" is the other legal extreme. *)
EXTENDS Naturals, Sequences, Hex
Unreserved(c) == (c >= 65 /\ c <= 90) \/ (c >= 97 /\ c <= 122) \/ (c >= 48 /\ c <= 57)
                 \/ c = 45 \/ c = 95 \/ c = 46 \/ c = 126                       \* - _ . ~
Pct(c, tbl) == << 37, tbl[(c \div 16) + 1], tbl[(c % 16) + 1] >>
RECURSIVE PctEncode(_, _, _)
PctEncode(s, all, tbl) ==
   IF Len(s) = 0 THEN << >>
   ELSE (IF all \/ ~Unreserved(s[1]) THEN Pct(s[1], tbl) ELSE << s[1] >>) \o PctEncode(Tail(s), all, tbl)

\* inverse: defined on well-formed texts ("%" is always followed by two hex digits);
\* application/x-www-form-urlencoded additionally reads a literal "+" as a space - a literal "+" never
\* occurs in PctEncode output ("+" is not unreserved), so both readings invert the encoder.
RECURSIVE PctDecode(_)
PctDecode(t) ==
   IF Len(t) = 0 THEN << >>
   ELSE IF t[1] = 37 THEN << HexVal(t[2]) * 16 + HexVal(t[3]) >> \o PctDecode(SubSeq(t, 4, Len(t)))
   ELSE << t[1] >> \o PctDecode(Tail(t))
WellFormed(t) == \A i \in 1..Len(t) : t[i] = 37 => (i + 2 <= Len(t) /\ IsHexChar(t[i+1]) /\ IsHexChar(t[i+2]))
=============================================================================
