SPECIFICATION Spec
CONSTANTS
  MaxTok = 3
  Tokens <- TokensQuick
VIEW View
INVARIANTS Inverse LenLaw NoRawInEnc AmpStartsEntity DecodeShrinks
CONSTRAINT Emit
CHECK_DEADLOCK FALSE
