------------------------------- MODULE Hex -------------------------------
(* Base-16 text of a byte string (RFC 4648 section 8 "base16", both letter cases) as plain mathematics.
   Reference for cvt_bin2hex / cvt_hex2bin of liblcb src/utils/buf_str.c (C14, C12). *)
EXTENDS Naturals, Sequences
DigL == << 48,49,50,51,52,53,54,55,56,57, 97,98,99,100,101,102 >>     \* 0-9 a-f
DigU == << 48,49,50,51,52,53,54,55,56,57, 65,66,67,68,69,70 >>        \* 0-9 A-F
IsHexChar(c) == (c >= 48 /\ c <= 57) \/ (c >= 97 /\ c <= 102) \/ (c >= 65 /\ c <= 70)
HexVal(c) == IF c <= 57 THEN c - 48 ELSE IF c >= 97 THEN c - 87 ELSE c - 55

RECURSIVE HexWith(_, _)
HexWith(s, tbl) == IF Len(s) = 0 THEN << >>
                   ELSE << tbl[(s[1] \div 16) + 1], tbl[(s[1] % 16) + 1] >> \o HexWith(Tail(s), tbl)
HexL(s) == HexWith(s, DigL)
HexU(s) == HexWith(s, DigU)
\* mixed case: upper-case letters in the high nibble, lower-case in the low nibble
RECURSIVE HexM(_)
HexM(s) == IF Len(s) = 0 THEN << >>
           ELSE << DigU[(s[1] \div 16) + 1], DigL[(s[1] % 16) + 1] >> \o HexM(Tail(s))

\* strict decoder: defined on even-length sequences of hex characters
RECURSIVE UnHex(_)
UnHex(t) == IF Len(t) < 2 THEN << >>
            ELSE << HexVal(t[1]) * 16 + HexVal(t[2]) >> \o UnHex(SubSeq(t, 3, Len(t)))
=============================================================================
