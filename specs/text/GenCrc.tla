------------------------------ MODULE GenCrc ------------------------------
(* Generator for the CRC-32 family: every single byte (=> every entry of every 256- and 16-entry table is
   consulted), every string over Bytes up to MaxLen, the catalogue check string, seeded random strings of
   every length in RandLens (chosen around the 64-byte switch between the nibble and the byte table).
   For every state the expectation is the bit-serial division of Crc32.tla. *)
EXTENDS Crc32, TextRand, TLC, Json, IOUtils
CONSTANTS Bytes, MaxLen, RandLens
VARIABLE s
Seed == atoi(IOEnv.SEED)
Init == s \in ({ << >>, Check9 } \cup { << b >> : b \in 0..255 }
               \cup { RandBytes(Mix(Seed, 700 + n), n) : n \in RandLens })
Next == /\ Len(s) < MaxLen
        /\ \A i \in 1..Len(s) : s[i] \in Bytes
        /\ s # Check9
        /\ \E b \in Bytes : s' = Append(s, b)
Spec == Init /\ [][Next]_s

Odd == << 4660, 43981 >>                        \* 0x1234abcd, an init value no catalogue model uses
Inits == << ZeroW, Ones, Odd >>
Raw(k, j) == RegUpdate(Tables[k].poly, Tables[k].refl, Inits[j], s)
BE(w) == << w[1] \div 256, w[1] % 256, w[2] \div 256, w[2] % 256 >>
LE(w) == << w[2] % 256, w[2] \div 256, w[1] % 256, w[1] \div 256 >>
Half == Len(s) \div 2
\* the *_update macros rely on this: feeding a message in two pieces equals feeding it at once
ChainLaw == \A k \in {1, 2} :
   RegUpdate(Tables[k].poly, Tables[k].refl,
             RegUpdate(Tables[k].poly, Tables[k].refl, Odd, SubSeq(s, 1, Half)), SubSeq(s, Half + 1, Len(s)))
   = Raw(k, 3)
\* appending the CRC (xorout = 0 models) leaves remainder zero: it really is a polynomial remainder
ResidueLaw == /\ ModelCrc(3, s \o BE(ModelCrc(3, s))) = ZeroW        \* CRC-32/MPEG-2
              /\ ModelCrc(8, s \o BE(ModelCrc(8, s))) = ZeroW        \* CRC-32/AIXM
              /\ ModelCrc(5, s \o LE(ModelCrc(5, s))) = ZeroW        \* CRC-32/JAMCRC (reflected: little-endian)
ModelOfRaw(m) == XorW(Raw(Models[m].tbl, IF Models[m].init = ZeroW THEN 1 ELSE 2), Models[m].xorout)
ModelsFromRaw == Len(s) <= 16 => \A m \in 1..8 : ModelCrc(m, s) = ModelOfRaw(m)
Emit == PrintT(ToJson([in |-> s,
                       raw |-> << << Raw(1,1), Raw(1,2), Raw(1,3) >>, << Raw(2,1), Raw(2,2), Raw(2,3) >>,
                                  << Raw(3,1), Raw(3,2), Raw(3,3) >>, << Raw(4,1), Raw(4,2), Raw(4,3) >>,
                                  << Raw(5,1), Raw(5,2), Raw(5,3) >> >>,
                       inits |-> Inits,
                       model |-> << ModelOfRaw(1), ModelOfRaw(2), ModelOfRaw(3), ModelOfRaw(4),
                                    ModelOfRaw(5), ModelOfRaw(6), ModelOfRaw(7), ModelOfRaw(8) >>,
                       names |-> << Models[1].name, Models[2].name, Models[3].name, Models[4].name,
                                    Models[5].name, Models[6].name, Models[7].name, Models[8].name >>]))
=============================================================================
