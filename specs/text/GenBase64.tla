---------------------------- MODULE GenBase64 ----------------------------
(* Generator: the reachable states ARE the test corpus. State = one byte string; Next appends a
   boundary byte. TLC checks the algebra on the reference (Decode(Encode(x)) = x, length law) for
   every state, and emits  [in, enc]  as JSON for the conformance harness. *)
EXTENDS Base64, TLC, Json
CONSTANTS Bytes, MaxLen
VARIABLE s
Init == s = << >>
Next == /\ Len(s) < MaxLen
        /\ \E b \in Bytes : s' = Append(s, b)
Spec == Init /\ [][Next]_s
RoundTrip == Decode(Encode(s)) = s
LenLaw    == Len(Encode(s)) = EncLen(Len(s))
TolerantIgnoresJunk == DecodeTolerant(<<10>> \o Encode(s) \o <<32, 13>>) = s
Emit == PrintT(ToJson([in |-> s, enc |-> Encode(s)]))
=============================================================================
