---------------------------- MODULE GenBase64 ----------------------------
(* Generator: the reachable states ARE the test corpus. State = one byte string.
     - Init: the empty string and one seeded pseudo-random string for every length in RandLens (> MaxLen)
     - Next: append a boundary byte while Len(s) < MaxLen  (=> every string over Bytes up to MaxLen)
   TLC checks the algebra of the RFC 4648 reference for every state (inverse laws with and without padding,
   length laws, canonical shape, tolerant decoder on three junk interleavings) and emits the case
   for the conformance harness.  The junk-interleaved texts are built HERE, not in the rig. *)
EXTENDS Base64, TextRand, TLC, Json, IOUtils
CONSTANTS Bytes, MaxLen, RandLens
VARIABLE s
Seed == atoi(IOEnv.SEED)
\* 48 bytes whose 6-bit groups are 0, 1, ..., 63: every symbol of the alphabet (every entry of both tables) occurs
RECURSIVE AllSymsFrom(_, _)
AllSymsFrom(g, acc) ==
   IF g = 64 THEN acc
   ELSE LET w == g * 262144 + (g + 1) * 4096 + (g + 2) * 64 + (g + 3)
        IN AllSymsFrom(g + 4, acc \o << w \div 65536, (w \div 256) % 256, w % 256 >>)
AllSyms == AllSymsFrom(0, << >>)
Init == s \in ({ << >>, AllSyms } \cup { RandBytes(Mix(Seed, n), n) : n \in RandLens })
Next == /\ Len(s) < MaxLen
        /\ \E b \in Bytes : s' = Append(s, b)
Spec == Init /\ [][Next]_s

\* non-alphabet characters: LF CR SP TAB @ - _ NUL 0xff ! . (none of them is '=' or an alphabet symbol)
Junk == << 10, 13, 32, 9, 64, 45, 95, 0, 255, 33, 46 >>
JunkAt(i) == Junk[(i % Len(Junk)) + 1]
\* J1: one junk byte before every character and one at the end
RECURSIVE J1From(_, _, _)
J1From(t, i, acc) == IF i > Len(t) THEN Append(acc, JunkAt(i))
                     ELSE J1From(t, i + 1, Append(Append(acc, JunkAt(i)), t[i]))
J1(t) == J1From(t, 1, << >>)
\* J2: CR LF after every third character (line-wrapped text, odd line length so that groups are split)
RECURSIVE J2From(_, _, _)
J2From(t, i, acc) == IF i > Len(t) THEN acc
                     ELSE J2From(t, i + 1, IF i % 3 = 0 THEN acc \o << t[i], 13, 10 >> ELSE Append(acc, t[i]))
J2(t) == J2From(t, 1, << >>)
\* J3: junk only in front and behind; for the shortest inputs the front part is EVERY byte value that is
\* neither an alphabet symbol nor '=' (191 values), so every "skip" entry of the decoder's table is consulted
RECURSIVE NonSymsFrom(_, _)
NonSymsFrom(b, acc) == IF b = 256 THEN acc
                       ELSE NonSymsFrom(b + 1, IF IsSym(b) \/ b = Pad THEN acc ELSE Append(acc, b))
NonSyms == NonSymsFrom(0, << >>)
J3(t) == (IF Len(s) <= 1 THEN NonSyms ELSE << 32, 9, 0 >>) \o t \o << 255, 10 >>

E == Encode(s)
RoundTrip        == Decode(E) = s
RoundTripNoPad   == DecodeSyms(StripPad(E)) = s
LenLaw           == Len(E) = EncLen(Len(s))
DecLenLaw        == Len(s) = (3 * Len(StripPad(E))) \div 4
PadLaw           == Len(E) - Len(StripPad(E)) = (3 - (Len(s) % 3)) % 3
Canonical        == \A i \in 1..Len(E) : IsSym(E[i]) \/ (E[i] = Pad /\ i > Len(E) - 2)
ASSUME JunkIsJunk == /\ \A i \in 1..Len(Junk) : ~IsSym(Junk[i]) /\ Junk[i] # Pad
                     /\ Len(NonSyms) = 191
                     /\ \A v \in 0..63 : \E i \in 1..64 : Encode(AllSyms)[i] = Sym(v)
TolerantIgnoresJunk == /\ DecodeTolerant(J1(E)) = s
                       /\ DecodeTolerant(J2(E)) = s
                       /\ DecodeTolerant(J3(E)) = s
FilterLaw        == OnlySyms(J1(E)) = StripPad(E) /\ OnlySyms(J3(E)) = StripPad(E)
Emit == PrintT(ToJson([in |-> s, enc |-> E, encnp |-> StripPad(E),
                       j1 |-> J1(E), j2 |-> J2(E), j3 |-> J3(E), syms |-> OnlySyms(J1(E))]))
=============================================================================
