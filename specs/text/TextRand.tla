------------------------------ MODULE TextRand ------------------------------
(* Seeded pseudo-random material for the text/codec generator specs (C14).  A 16-bit Lehmer generator
   (x' = 75 x + 74 mod 65537, period 65536) keeps every intermediate value far below 2^31.  The seed
   arrives through the environment (IOEnv.SEED, set by the rig from VERIF_SEED) so that the "random" part
   of a corpus is still a reachable-state set computed by TLC, reproducible from the seed alone. *)
EXTENDS Naturals, Sequences
LcgNext(x) == (x * 75 + 74) % 65537
Mix(seed, idx) == LcgNext(LcgNext((seed * 31 + idx * 977 + 1) % 65537))

RECURSIVE RandBytesAcc(_, _, _)
RandBytesAcc(x, n, acc) == IF n = 0 THEN acc ELSE RandBytesAcc(LcgNext(x), n - 1, Append(acc, (x \div 7) % 256))
RandBytes(x, n) == RandBytesAcc(LcgNext(x), n, << >>)       \* n pseudo-random bytes

RECURSIVE RandDigitsAcc(_, _, _)
RandDigitsAcc(x, n, acc) == IF n = 0 THEN acc ELSE RandDigitsAcc(LcgNext(x), n - 1, Append(acc, (x \div 7) % 10))
\* n decimal digits, first one non-zero (canonical magnitude)
RandDigits(x, n) == LET d == RandDigitsAcc(LcgNext(x), n, << >>)
                    IN IF d[1] = 0 THEN << 1 + (x % 9) >> \o SubSeq(d, 2, n) ELSE d
=============================================================================
