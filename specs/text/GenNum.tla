------------------------------ MODULE GenNum ------------------------------
(* Generator for integer <-> text: one state per (type, sign, canonical decimal digit string).
   For each of the ten types the corpus holds 0, 1, 2, EVERY power of ten that fits and its two neighbours,
   2^k and its neighbours for k = 7, 8, 15, 16, 31, 32, 63, 64 (so every type's minimum and maximum and the
   maxima of the narrower types), all with both signs where the type is signed, plus NRand seeded random
   magnitudes per type, and every value of the two 8-bit types.  The value is GIVEN as its decimal digits; the spec computes the machine value
   (limbs, two's complement) by Horner, recomputes the digits from the limbs by long division, and the
   length from the powers of ten - the three must agree (invariants below). *)
EXTENDS Num2Str, TextRand, TLC, Json, IOUtils
CONSTANTS NRand
VARIABLE c
Seed == atoi(IOEnv.SEED)

RECURSIVE Rep(_, _)
Rep(x, k) == IF k = 0 THEN << >> ELSE << x >> \o Rep(x, k - 1)
Pow(k)   == << 1 >> \o Rep(0, k)                                            \* 10^k
PowM1(k) == IF k = 0 THEN << 0 >> ELSE Rep(9, k)                            \* 10^k - 1
PowP1(k) == IF k = 0 THEN << 2 >> ELSE << 1 >> \o Rep(0, k - 1) \o << 1 >>  \* 10^k + 1
PowSet == UNION { { Pow(k), PowM1(k), PowP1(k) } : k \in 0..19 }
TwoExps == { 7, 8, 15, 16, 31, 32, 63, 64 }
TwoSet == UNION { { ToDigits(Pow2L(k), 10), ToDigits(Dec1(Pow2L(k)), 10), ToDigits(Add(Pow2L(k), One5), 10) }
                  : k \in TwoExps }
MaxLenOf(t) == Len(ToDigits(MaxMag(t, FALSE), 10))
RandSet(t) == { RandDigits(Mix(Seed, 1000 * t + i), 1 + (Mix(Seed, 1000 * t + 500 + i) % MaxLenOf(t)))
                : i \in 1..NRand }
\* the 8-bit types are small enough to take every value
Small(t) == IF TypeBits[t] = 8 THEN { ToDigits(<< k, 0, 0, 0, 0 >>, 10) : k \in 0..255 } ELSE { }
Cands(t) == PowSet \cup TwoSet \cup RandSet(t) \cup Small(t)
Cases == UNION { { x \in { [t |-> t, neg |-> n, d |-> d] : n \in BOOLEAN, d \in Cands(t) } :
                   InType(x.t, x.neg, FromDigits(x.d, 10)) } : t \in 1..10 }

Init == c \in Cases
Next == FALSE /\ c' = c
Spec == Init /\ [][Next]_c

Mag == FromDigits(c.d, 10)
Cls == IF Mag = Zero5 THEN "zero"
       ELSE IF Mag = MaxMag(c.t, c.neg) THEN (IF c.neg THEN "min" ELSE "max")
       ELSE IF Len(c.d) > 1 /\ c.d = Pow(Len(c.d) - 1) THEN "pow10"
       ELSE IF c.d = PowM1(Len(c.d)) THEN "pow10m1"
       ELSE IF Len(c.d) > 1 /\ c.d = PowP1(Len(c.d) - 1) THEN "pow10p1"
       ELSE "other"

InRange        == InType(c.t, c.neg, Mag)
TextRoundTrip  == ToDigits(Mag, 10) = c.d                       \* digits -> limbs -> digits
LenLaw         == Len(DecText(c.neg, Mag)) = NumDigits(Mag) + (IF c.neg THEN 1 ELSE 0)
ParseInverse   == /\ Parse(DecText(c.neg, Mag), 10) = << c.neg, Mag >>
                  /\ Parse(<< PlusC >> \o DecText(FALSE, Mag), 10) = << FALSE, Mag >>
HexInverse     == /\ Parse(HexText(c.neg, Mag, DigL), 16) = << c.neg, Mag >>
                  /\ Parse(HexText(c.neg, Mag, DigU), 16) = << c.neg, Mag >>
TwosComplement == c.neg => Low4(Add(Value64(TRUE, Mag) \o << 0 >>, Mag)) = << 0, 0, 0, 0 >>
\* vacuity guard: the corpus really contains what the property's quantifier names
ASSUME CorpusHasBoundaries ==
   \A t \in 1..10 :
      /\ [t |-> t, neg |-> FALSE, d |-> << 0 >>] \in Cases
      /\ [t |-> t, neg |-> FALSE, d |-> ToDigits(MaxMag(t, FALSE), 10)] \in Cases
      /\ TypeSigned[t] => [t |-> t, neg |-> TRUE, d |-> ToDigits(MaxMag(t, TRUE), 10)] \in Cases
      /\ \A k \in 0..19 : \A n \in BOOLEAN :
            InType(t, n, Pow10L(k)) =>
               /\ [t |-> t, neg |-> n, d |-> Pow(k)] \in Cases
               /\ [t |-> t, neg |-> n, d |-> PowM1(k)] \in Cases \/ k = 0
               /\ InType(t, n, Add(Pow10L(k), One5)) => [t |-> t, neg |-> n, d |-> PowP1(k)] \in Cases
Emit == PrintT(ToJson([t |-> c.t - 1, name |-> TypeNames[c.t], signed |-> TypeSigned[c.t], neg |-> c.neg,
                       cls |-> Cls, text |-> DecText(c.neg, Mag), v |-> Value64(c.neg, Mag),
                       hexl |-> HexText(c.neg, Mag, DigL), hexu |-> HexText(c.neg, Mag, DigU)]))
=============================================================================
