SPECIFICATION Spec
CONSTANTS
  Workers = {0, 1, 2}
  Caller = 100
  Kind = "sync"
  SelfSkip = FALSE
  MaxFail = 2
  FixedRead = FALSE
INVARIANTS NoTouchAfterDeath CountNonNegative CountsAddUp SyncReturnsAfterAll DoneAtMostOnce DoneAfterAll
CHECK_DEADLOCK FALSE
