SPECIFICATION Spec
CONSTANT Seed = 1
INVARIANTS NsecInRange Recompose
CONSTRAINT Emit
CHECK_DEADLOCK FALSE
