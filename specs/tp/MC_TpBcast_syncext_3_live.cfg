SPECIFICATION FairSpec
CONSTANTS
  Workers = {0, 1, 2}
  Caller = 100
  Kind = "sync"
  SelfSkip = FALSE
  MaxFail = 2
  FixedRead = TRUE
PROPERTY Terminates
CHECK_DEADLOCK FALSE
