SPECIFICATION FairSpec
CONSTANTS
  Workers = {0, 1}
  PVT = 2
  Cap = 1
  BatchMax = 2
  Senders = {100, 0}
  Plan <- PlanB
  MaxInj = 0
  MaxStop = 0
PROPERTY EventuallyRuns
CHECK_DEADLOCK FALSE
