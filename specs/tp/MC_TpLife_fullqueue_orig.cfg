SPECIFICATION FairSpec
CONSTANTS
  Workers = {0, 1}
  Callers = {100}
  Repaired = TRUE
  QueueFull = TRUE
PROPERTY Terminates
CHECK_DEADLOCK FALSE
