------------------------------ MODULE TpBcast ------------------------------
(* Broadcasts of the liblcb thread pool: tpt_msg_bsend_ex, tpt_msg_cbsend and their proxy callbacks
   (src/threadpool/threadpool_msg_sys.c).  Built on TpMsg: every proxy / completion message is an
   ordinary message instance whose user data is the shared record r.

   rec[r] is the shared record tpt_msg_data_t:
     kind  "sync" (record on the caller's stack), "cb" (heap, count-down), "obo" (heap, token passing)
     p     calling thread          origin  thread that must run the completion callback
     f     flags   n  threads_max   active  active_thr_count     alive  memory still valid
     m     id of the user's broadcast (ghost)       begun/ended  tpt arguments the user callback
     order sequence of begun arguments              has started / finished with
     posted  thread that posted the completion message (-1 = nobody yet)   doneInst its instance
     doneRan completion callbacks run so far
   Property C10 is stated by the guards marked (C10) and the invariants at the end. *)
EXTENDS TpMsg

SELF_SKIP == 256   SYNC == 512   SYNC_USLEEP == 1024   ONE_BY_ONE == 65536
ESPIPE == 29

VARIABLES rec,       \* record id -> record (domain grows)
          inProxy,   \* thread -> record whose proxy callback it is executing (0 = none)
          pend,      \* thread -> the broadcast call it is executing  [kind, m, f]  (or NoCall)
          plain      \* m -> [begun, ended] for broadcasts that need no record (non-SYNC bsend, 1-thread pool)
bVars == <<rec, inProxy, pend, plain>>
NoCall == [kind |-> "none", m |-> 0, f |-> 0, n |-> 0]

InstOf(u)   == {i \in DOMAIN inst : inst[i].u = u}
Proxies(r)  == InstOf(r) \ {rec[r].doneInst}
IsSucc(i)   == inst[i].st \in {"queued", "direct"}
IsFail(i)   == \/ inst[i].st = "notrunning" /\ ~Has(inst[i].f, FORCE)
               \/ inst[i].st = "wfail" /\ ~Has(inst[i].f, FAIL_DIRECT)
HasRun(i)   == \E k \in 1..Len(ran) : ran[k].i = i
Targets(n, f, p) == n - (IF Has(f, SELF_SKIP) /\ p \in Workers THEN 1 ELSE 0)

(* the harness announces the API call: call.bsend / call.cbsend *)
Call(p, kind, m, f, n) ==
    /\ pend' = [pend EXCEPT ![p] = [kind |-> kind, m |-> m, f |-> f, n |-> n]]
    /\ plain' = plain @@ (m :> [begun |-> {}, ended |-> {}])
    /\ UNCHANGED <<rec, inProxy>>

(* bsend.init / cbsend.init: the shared record is set up; SELF_SKIP pre-decrement folded in (it happens
   before the record is visible to any other thread) *)
RecInit(r, p, n) ==
    /\ r \notin DOMAIN rec /\ pend[p].kind \in {"bsend", "cbsend"} /\ n = pend[p].n
    /\ LET f == pend[p].f
           kind == IF pend[p].kind = "bsend" THEN "sync" ELSE IF Has(f, ONE_BY_ONE) THEN "obo" ELSE "cb" IN
       rec' = rec @@ (r :> [kind |-> kind, p |-> p, origin |-> IF kind = "sync" THEN -1 ELSE p, f |-> f, n |-> n,
                            active |-> Targets(n, f, p), alive |-> TRUE, m |-> pend[p].m,
                            begun |-> {}, ended |-> {}, order |-> << >>, posted |-> -1, doneInst |-> 0,
                            doneRan |-> 0])
    /\ UNCHANGED <<inProxy, pend, plain>>

(* a send whose user data is a record: remember which instance is the completion message *)
NoteEnter(i, p, u) ==
    IF u \in DOMAIN rec /\ rec[u].posted = p /\ rec[u].doneInst = 0
    THEN rec' = [rec EXCEPT ![u].doneInst = i] ELSE UNCHANGED rec

(* sync.proxy / obo.proxy: instance i (already started on thread t) enters the proxy callback *)
ProxyBegin(t, r, i) ==
    /\ r \in DOMAIN rec /\ rec[r].alive                       \* (C10) no access to a dead record
    /\ i \in Proxies(r) /\ \E k \in 1..Len(ran) : ran[k].i = i /\ ran[k].on = t
    /\ inProxy[t] = 0
    /\ inProxy' = [inProxy EXCEPT ![t] = r]
    /\ UNCHANGED <<rec, pend, plain>>

(* obo.cbdone: the user's callback returned inside the one-by-one proxy *)
OboCbDone(t, r) ==
    /\ r \in DOMAIN rec /\ rec[r].alive /\ rec[r].kind = "obo" /\ inProxy[t] = r
    /\ rec[r].begun = rec[r].ended
    /\ inProxy' = [inProxy EXCEPT ![t] = 0]
    /\ UNCHANGED <<rec, pend, plain>>

ObOOrderOk(r, arg) ==     \* (C10) thread order of the one-by-one mode
    LET o == rec[r].origin  prev == rec[r].begun IN
    IF arg = o THEN IF Has(rec[r].f, SELF_DIRECT) THEN prev = {}                       \* caller first
                    ELSE ~Has(rec[r].f, SELF_SKIP)                                     \* caller last (checked again at done)
    ELSE /\ \A a \in prev \ {o} : a < arg
         /\ (o \in prev => Has(rec[r].f, SELF_DIRECT))                                  \* nobody runs after a "last" caller

(* bcb.begin: the user's callback starts on thread t with tpt argument arg *)
UCbBegin(t, arg, m) ==
    IF inProxy[t] # 0 /\ rec[inProxy[t]].m = m
    THEN LET r == inProxy[t] IN
         /\ rec[r].alive
         /\ arg \notin rec[r].begun                               \* (C10) each target once
         /\ rec[r].kind = "obo" => rec[r].begun = rec[r].ended /\ ObOOrderOk(r, arg)   \* (C10) no overlap, order
         /\ rec' = [rec EXCEPT ![r].begun = @ \cup {arg}, ![r].order = Append(@, arg)]
         /\ UNCHANGED <<inProxy, pend, plain>>
    ELSE IF \E r \in DOMAIN rec : rec[r].m = m /\ rec[r].kind = "obo" /\ rec[r].p = t /\ arg = t /\ rec[r].begun = {}
              /\ Has(rec[r].f, SELF_DIRECT) /\ ~Has(rec[r].f, SELF_SKIP)
    THEN LET r == CHOOSE r \in DOMAIN rec : rec[r].m = m IN    \* cbsend(ONE_BY_ONE|SELF_DIRECT): caller first, inline
         /\ rec' = [rec EXCEPT ![r].begun = {arg}, ![r].order = <<arg>>]
         /\ UNCHANGED <<inProxy, pend, plain>>
    ELSE /\ m \in DOMAIN plain /\ arg \notin plain[m].begun
         /\ plain' = [plain EXCEPT ![m].begun = @ \cup {arg}]
         /\ UNCHANGED <<rec, inProxy, pend>>
UCbEnd(t, arg, m) ==
    IF \E r \in DOMAIN rec : rec[r].m = m
    THEN LET r == CHOOSE r \in DOMAIN rec : rec[r].m = m IN
         /\ arg \in rec[r].begun \ rec[r].ended
         /\ rec' = [rec EXCEPT ![r].ended = @ \cup {arg}]
         /\ UNCHANGED <<inProxy, pend, plain>>
    ELSE /\ arg \in plain[m].begun \ plain[m].ended
         /\ plain' = [plain EXCEPT ![m].ended = @ \cup {arg}]
         /\ UNCHANGED <<rec, inProxy, pend>>

(* dec.locked: tpt_msg_active_thr_count_dec under the record's mutex; v = the new count *)
Dec(t, r, v) ==
    /\ r \in DOMAIN rec /\ rec[r].alive                          \* (C10)
    /\ IF inProxy[t] = r
       THEN v = rec[r].active - 1 /\ inProxy' = [inProxy EXCEPT ![t] = 0]
       ELSE /\ t = rec[r].p /\ v = rec[r].active - Cardinality({i \in Proxies(r) : IsFail(i)})   \* caller: failed sends
            /\ UNCHANGED inProxy
    /\ rec' = [rec EXCEPT ![r].active = v]
    /\ UNCHANGED <<pend, plain>>

(* bsend.selfdec / bsend.wait: the SYNC caller polls the count; a read may be stale, never too small *)
WaitRead(p, r, v) == /\ r \in DOMAIN rec /\ rec[r].alive /\ p = rec[r].p /\ v >= rec[r].active
                     /\ UNCHANGED bVars

ProxiesFinished(r) == /\ \A i \in Proxies(r) : IsSucc(i) => HasRun(i)
                      /\ \A i \in Proxies(r) : IsSucc(i) \/ IsFail(i)
                      /\ rec[r].begun = rec[r].ended
                      /\ \A t \in DOMAIN inProxy : inProxy[t] # r
(* bsend.return: the SYNC caller leaves the wait loop; its stack record dies *)
SyncLeave(p, r) ==
    /\ r \in DOMAIN rec /\ rec[r].kind = "sync" /\ p = rec[r].p /\ rec[r].alive
    /\ rec[r].active = 0 /\ ProxiesFinished(r)                   \* (C10) returns only after every callback
    /\ rec' = [rec EXCEPT ![r].alive = FALSE]
    /\ UNCHANGED <<inProxy, pend, plain>>

(* ret.bsend: values handed back by tpt_msg_bsend_ex *)
RetBsend(p, m, rc, sent, err) ==
    /\ pend[p].kind = "bsend" /\ pend[p].m = m
    /\ LET f == pend[p].f
           rs == {r \in DOMAIN rec : rec[r].m = m}
           is == IF rs # {} THEN Proxies(CHOOSE r \in rs : TRUE) ELSE InstOf(1000 + m)
           ran1 == IF rs # {} THEN rec[CHOOSE r \in rs : TRUE].begun ELSE plain[m].begun IN
       /\ rs # {} => ~rec[CHOOSE r \in rs : TRUE].alive
       /\ sent + err = Targets(pend[p].n, f, p)                    \* (C10) counts add up to the number targeted
       /\ err  = Cardinality({i \in is : IsFail(i)})
       /\ Has(f, SYNC) => sent = Cardinality(ran1)                 \* (C10) sync: sent = callbacks that ran
       /\ sent > 0 => rc = 0
    /\ pend' = [pend EXCEPT ![p] = NoCall]
    /\ UNCHANGED <<rec, inProxy, plain>>

(* dec.postdone / obo.finish: the last thread posts the completion message *)
DonePost(t, r) ==
    /\ r \in DOMAIN rec /\ rec[r].alive /\ rec[r].kind \in {"cb", "obo"}
    /\ rec[r].posted = -1                                        \* (C10) completion posted once
    /\ rec[r].kind = "cb" => rec[r].active = 0
    /\ rec' = [rec EXCEPT ![r].posted = t]
    /\ UNCHANGED <<inProxy, pend, plain>>
(* done.begin: tpt_msg_cb_done_proxy_cb starts on thread t *)
DoneBegin(t, r) ==
    /\ r \in DOMAIN rec /\ rec[r].alive /\ rec[r].posted # -1 /\ rec[r].doneRan = 0
    /\ UNCHANGED bVars
(* done: the user's completion callback; cur = executing thread, arg = tpt argument *)
UDonePlain(cur, arg, m, sent, err) ==      \* 1-thread pool: tpt_msg_cbsend answers inline, no record
    /\ ~\E r \in DOMAIN rec : rec[r].m = m
    /\ pend[cur].kind = "cbsend" /\ pend[cur].m = m /\ arg = cur
    /\ plain[m].begun = plain[m].ended /\ ~(-7 \in plain[m].begun)
    /\ sent = Cardinality(plain[m].begun)
    /\ sent + err = Targets(1, pend[cur].f, cur)
    /\ plain' = [plain EXCEPT ![m].begun = @ \cup {-7}, ![m].ended = @ \cup {-7}]
    /\ UNCHANGED <<rec, inProxy, pend>>
UDone(cur, arg, m, sent, err) ==
    /\ \E r \in DOMAIN rec : rec[r].m = m
    /\ LET r == CHOOSE r \in DOMAIN rec : rec[r].m = m IN
       /\ rec[r].alive /\ rec[r].doneRan = 0                      \* (C10) exactly once
       /\ arg = rec[r].origin
       /\ \/ cur = rec[r].origin                                  \* (C10) on the originating thread
          \/ /\ rec[r].doneInst # 0 /\ inst[rec[r].doneInst].st = "direct" /\ cur = inst[rec[r].doneInst].p
             /\ PrintT(<<"DEVIATION", "done-callback-on-non-origin-thread-after-failed-post", m>>)
             \* what the code does when the write to the origin's queue fails: recorded as a finding, rest of the trace still checked
       /\ rec[r].begun = rec[r].ended                             \* (C10) after the last callback finished
       /\ sent = Cardinality(rec[r].begun)                        \* (C10) true counts
       /\ sent + err = Targets(rec[r].n, rec[r].f, rec[r].p)
       /\ rec[r].kind = "obo" /\ ~Has(rec[r].f, SELF_DIRECT) /\ rec[r].origin \in rec[r].begun
             => rec[r].order[Len(rec[r].order)] = rec[r].origin   \* caller last
       /\ rec' = [rec EXCEPT ![r].doneRan = 1]
    /\ UNCHANGED <<inProxy, pend, plain>>
(* done.free *)
DoneFree(t, r) == /\ r \in DOMAIN rec /\ rec[r].alive /\ rec[r].doneRan = 1
                  /\ rec' = [rec EXCEPT ![r].alive = FALSE]
                  /\ UNCHANGED <<inProxy, pend, plain>>
(* ret.cbsend *)
(* (C10) "reach each running thread": tpt_msg_cbsend may only give up (rc # 0, no completion) after EVERY other worker
   was tried and refused - a chain or sweep that stops at the first thread that cannot take the message abandons the
   running ones behind it *)
CbsendGaveUpJustified(p, m) ==
    \A r \in DOMAIN rec : rec[r].m = m /\ rec[r].p = p =>
        \A t \in 0..(rec[r].n - 1) : t = p \/ \E i \in Proxies(r) : inst[i].d = t /\ IsFail(i)
RetCbsend(p, m, rc) ==
    /\ pend[p].kind = "cbsend" /\ pend[p].m = m
    /\ (rc # 0 => (CbsendGaveUpJustified(p, m) = TRUE))
    /\ pend' = [pend EXCEPT ![p] = NoCall]
    /\ UNCHANGED <<rec, inProxy, plain>>

-----------------------------------------------------------------------------
(* invariants *)
DeadRecordsUntouched == \A t \in DOMAIN inProxy : inProxy[t] # 0 => rec[inProxy[t]].alive
CountNeverNegative == \A r \in DOMAIN rec : rec[r].active >= 0 /\ rec[r].active <= rec[r].n
DoneAtMostOnce == \A r \in DOMAIN rec : rec[r].doneRan <= 1
EndedSubset == \A r \in DOMAIN rec : rec[r].ended \subseteq rec[r].begun
C10Inv == DeadRecordsUntouched /\ CountNeverNegative /\ DoneAtMostOnce /\ EndedSubset
(* at a quiescent point every completion-style broadcast has completed exactly once *)
AllCompleted == \A r \in DOMAIN rec : rec[r].kind \in {"cb", "obo"} /\ rec[r].posted # -1 => rec[r].doneRan = 1 /\ ~rec[r].alive
=============================================================================
