SPECIFICATION FairSpec
CONSTANTS
  Workers = {0, 1, 2}
  Caller = 0
  Kind = "cb"
  SelfSkip = FALSE
  MaxFail = 2
  FixedRead = TRUE
PROPERTY Terminates
CHECK_DEADLOCK FALSE
