SPECIFICATION Spec
CONSTANTS
  Workers = {0, 1}
  Callers = {100}
  Repaired = FALSE
  QueueFull = FALSE
INVARIANTS AllJoinedBeforeFree
CHECK_DEADLOCK FALSE
