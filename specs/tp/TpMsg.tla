------------------------------- MODULE TpMsg -------------------------------
(* Message system of the liblcb thread pool: src/threadpool/threadpool_msg_sys.c
   (tpt_msg_send, tpt_msg_recv_and_process) on the epoll back end.

   One action per critical section of the C code.  Every action takes the facts that the
   implementation decides (which instance, what the unsynchronised state read returned, whether the
   kernel accepted the write) as PARAMETERS; the model checker quantifies over them (MC_TpMsg), the
   trace specification binds them to logged fields (TpTrace).  Property C05 is stated as invariants
   over the ghost history `ran`.

   A "message instance" i is one call of tpt_msg_send: inst[i] = [p sender thread, d destination
   (a worker or PVT), f flags, c callback class, u user-data id, st stage, err errno of a failed write].
   Thread ids: workers 0..N-1, PVT = N (the pool's shared virtual thread), external threads >= 100. *)
EXTENDS Integers, Sequences, FiniteSets, TLC

CONSTANTS Workers,      \* set of worker thread ids
          PVT,          \* id of the virtual thread
          Cap,          \* packets a message pipe can hold (65536/32 by default; 128 with a 4 KiB pipe)
          BatchMax      \* packets taken by one read() (TPT_MSG_COUNT_TO_READ = 1024)

Threads == Workers \cup {PVT}

SELF_DIRECT == 1    FORCE == 2    FAIL_DIRECT == 4
Has(f, bit) == (f \div bit) % 2 = 1
EAGAIN == 11   EBADF == 9   EPIPE == 32   EHOSTDOWN == 112

RunningStates == {"RUNNING", "STARTING"}

VARIABLES tstate,   \* [Threads -> {"STOP","STOPING","STARTING","RUNNING"}]
          wopen,    \* [Threads -> BOOLEAN] message pipe of the thread exists (not yet closed by teardown)
          inst,     \* instance id -> record (see above); the domain grows
          pipe,     \* [Threads -> Seq(instance id)]  packets in the kernel pipe, FIFO
          batch,    \* [Workers -> Seq(<<instance, queue owner>>)] packets a receiver took with one read()
          ran,      \* ghost: sequence of [i, on, arg, how]  - every callback invocation so far
          ret       \* ghost: instance id -> value returned to the caller (where observed)

msgVars == <<tstate, wopen, inst, pipe, batch, ran, ret>>

InitMsg(st0) ==
    /\ tstate = [t \in Threads |-> st0]
    /\ wopen  = [t \in Threads |-> TRUE]
    /\ inst   = << >>
    /\ pipe   = [t \in Threads |-> << >>]
    /\ batch  = [t \in Workers |-> << >>]
    /\ ran    = << >>
    /\ ret    = << >>

ResetMsg(st0) ==            \* same values as InitMsg, as a step (trace specs restart between executions)
    /\ tstate' = [t \in Threads |-> st0]
    /\ wopen'  = [t \in Threads |-> TRUE]
    /\ inst'   = << >>
    /\ pipe'   = [t \in Threads |-> << >>]
    /\ batch'  = [t \in Workers |-> << >>]
    /\ ran'    = << >>
    /\ ret'    = << >>

St(i) == inst[i].st
SetSt(i, s) == inst' = [inst EXCEPT ![i].st = s]

(* tpt_msg_send() entry: msg_sys.c "send.enter" *)
(* s = the src argument (-1 = NULL: the library substitutes the calling pool thread, if it is one) *)
Enter(i, p, d, f, c, u, s) ==
    /\ i \notin DOMAIN inst
    /\ d \in Threads
    /\ inst' = inst @@ (i :> [p |-> p, d |-> d, f |-> f, c |-> c, u |-> u, st |-> "enter", err |-> 0,
                            src |-> IF s = -1 THEN (IF p \in Workers THEN p ELSE -1) ELSE s])
    /\ UNCHANGED <<tstate, wopen, pipe, batch, ran, ret>>

(* the three places where the callback is invoked synchronously in the caller: "send.direct" 1/2/3 *)
Direct(i, why) ==
    /\ i \in DOMAIN inst
    /\ CASE why = 1 -> St(i) = "enter" /\ Has(inst[i].f, SELF_DIRECT) /\ inst[i].src = inst[i].d
         [] why = 2 -> St(i) = "notrunning" /\ Has(inst[i].f, FORCE)
         [] why = 3 -> St(i) = "wfail" /\ Has(inst[i].f, FAIL_DIRECT)
         [] OTHER   -> FALSE
    /\ ran' = Append(ran, [i |-> i, on |-> inst[i].p, arg |-> inst[i].d, how |-> "direct"])
    /\ SetSt(i, "direct")
    /\ UNCHANGED <<tstate, wopen, pipe, batch, ret>>

(* unsynchronised read of the destination's state: "send.running" / "send.notrunning".
   `running` is what the read returned; the model checker ties it to tstate, a trace supplies it. *)
ReadState(i, running) ==
    /\ i \in DOMAIN inst /\ St(i) = "enter"
    /\ ~(Has(inst[i].f, SELF_DIRECT) /\ inst[i].src = inst[i].d)    \* else the self-direct branch was taken
    /\ SetSt(i, IF running THEN "running" ELSE "notrunning")
    /\ UNCHANGED <<tstate, wopen, pipe, batch, ran, ret>>

(* write() of one 32-byte packet: atomic w.r.t. the pipe (< PIPE_BUF) *)
WriteOk(i, c) ==                       \* c: callback class carried by the packet
    /\ i \in DOMAIN inst /\ St(i) = "running"
    /\ LET d == inst[i].d IN
         /\ wopen[d] /\ Len(pipe[d]) < Cap
         /\ pipe' = [pipe EXCEPT ![d] = Append(@, i)]
    /\ inst' = [inst EXCEPT ![i].st = "queued", ![i].c = c]
    /\ UNCHANGED <<tstate, wopen, batch, ran, ret>>

(* failing write: EAGAIN only when the pipe holds data (page-granular kernel buffers may report full
   below Cap), EPIPE/EBADF only after teardown closed the pipe; `inj` = fault injected by the rig *)
WriteFail(i, err, inj) ==
    /\ i \in DOMAIN inst /\ St(i) = "running"
    /\ LET d == inst[i].d IN
         \/ inj
         \/ err = EAGAIN /\ Len(pipe[d]) > 0
         \/ err \in {EPIPE, EBADF} /\ ~wopen[d]
    /\ inst' = [inst EXCEPT ![i].st = "wfail", ![i].err = err]
    /\ UNCHANGED <<tstate, wopen, pipe, batch, ran, ret>>

(* value tpt_msg_send hands back *)
RcOf(i) == CASE St(i) \in {"direct", "queued"} -> 0
             [] St(i) = "notrunning" /\ ~Has(inst[i].f, FORCE) -> EHOSTDOWN
             [] St(i) = "wfail" /\ ~Has(inst[i].f, FAIL_DIRECT) -> inst[i].err
             [] OTHER -> 999999        \* a return here is not a behaviour of the code
Return(i, rc) ==
    /\ i \in DOMAIN inst /\ i \notin DOMAIN ret
    /\ rc = RcOf(i)
    /\ ret' = ret @@ (i :> rc)
    /\ UNCHANGED <<tstate, wopen, inst, pipe, batch, ran>>

(* tpt_msg_recv_and_process: one read() on queue q (own pipe, or the PVT pipe through the nested
   epoll descriptor) by worker t; `n` packets come back *)
Read(t, q, n) ==
    /\ t \in Workers /\ q \in {t, PVT}
    /\ batch[t] = << >>                                 \* the previous batch was processed completely
    /\ n >= 1 /\ n <= BatchMax /\ n <= Len(pipe[q])
    /\ (n < Len(pipe[q]) => n = BatchMax)               \* a pipe read returns all it has, up to the buffer
    /\ batch' = [batch EXCEPT ![t] = [k \in 1..n |-> <<pipe[q][k], q>>]]
    /\ pipe'  = [pipe EXCEPT ![q] = SubSeq(@, n + 1, Len(@))]
    /\ UNCHANGED <<tstate, wopen, inst, ran, ret>>

(* the callback of the head packet runs on the reading thread with tpt argument = queue owner: "recv.run" *)
Run(t) ==
    /\ t \in Workers /\ batch[t] # << >>
    /\ LET h == Head(batch[t]) IN
         ran' = Append(ran, [i |-> h[1], on |-> t, arg |-> h[2], how |-> "queued"])
    /\ batch' = [batch EXCEPT ![t] = Tail(@)]
    /\ UNCHANGED <<tstate, wopen, inst, pipe, ret>>

-----------------------------------------------------------------------------
(* Property C05 as state predicates over the ghost history *)
RanOf(i) == {k \in 1..Len(ran) : ran[k].i = i}

AtMostOnce  == \A i \in DOMAIN inst : Cardinality(RanOf(i)) <= 1
RightThread == \A k \in 1..Len(ran) :
                  LET r == ran[k] IN
                  /\ r.arg = inst[r.i].d                                   \* caller's destination as tpt argument
                  /\ r.how = "queued" => IF r.arg = PVT THEN r.on \in Workers ELSE r.on = r.arg
                  /\ r.how = "direct" => r.on = inst[r.i].p                \* synchronously in the caller
FailureMeansNoRun == \A i \in DOMAIN ret : ret[i] # 0 => RanOf(i) = {}
SuccessMeansRunOrPending ==
    \A i \in DOMAIN ret : ret[i] = 0 =>
        \/ RanOf(i) # {}
        \/ \E k \in 1..Len(pipe[inst[i].d]) : pipe[inst[i].d][k] = i
        \/ \E t \in Workers : \E k \in 1..Len(batch[t]) : batch[t][k][1] = i
DirectBeforeReturn == \A i \in DOMAIN inst : St(i) = "direct" => Cardinality(RanOf(i)) = 1
(* FIFO per (sender, real destination): instance ids are allocated in send order *)
Fifo == \A j, k \in 1..Len(ran) :
           (j < k /\ ran[j].how = "queued" /\ ran[k].how = "queued" /\ ran[j].arg # PVT
            /\ ran[j].arg = ran[k].arg /\ inst[ran[j].i].p = inst[ran[k].i].p)
           => ran[j].i < ran[k].i
(* every packet is in exactly one place *)
InBatches(i) == UNION {{<<t, k>> : k \in {k \in 1..Len(batch[t]) : batch[t][k][1] = i}} : t \in Workers}
Accounted == \A i \in DOMAIN inst : St(i) = "queued" =>
    Cardinality(RanOf(i))
      + Cardinality({k \in 1..Len(pipe[inst[i].d]) : pipe[inst[i].d][k] = i})
      + Cardinality(InBatches(i)) = 1

Drained == /\ \A t \in Threads : pipe[t] = << >>
           /\ \A t \in Workers : batch[t] = << >>
(* cheap form for long traces: only the newest history entry can break the invariants *)
LastIsFresh == Len(ran) > 0 =>
    LET r == ran[Len(ran)] IN
    /\ \A k \in 1..(Len(ran) - 1) : ran[k].i # r.i
    /\ r.arg = inst[r.i].d
    /\ r.how = "queued" => IF r.arg = PVT THEN r.on \in Workers ELSE r.on = r.arg
    /\ r.how = "direct" => r.on = inst[r.i].p
C05Safety == AtMostOnce /\ RightThread /\ FailureMeansNoRun /\ SuccessMeansRunOrPending
             /\ DirectBeforeReturn /\ Fifo /\ Accounted
=============================================================================
