SPECIFICATION Spec
CONSTANTS
  Workers = {0}
  Callers = {100, 101}
  Repaired = FALSE
  QueueFull = FALSE
INVARIANTS PvtStopOnce
CHECK_DEADLOCK FALSE
