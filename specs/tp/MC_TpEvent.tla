------------------------------ MODULE MC_TpEvent ------------------------------
(* One registration on one pool thread: every sequence of add / enable / disable / delete issued by the
   owning thread (between loop iterations, i.e. also from inside its callback) or by a foreign thread,
   interleaved with kernel reports and the loop's gate/deliver steps.  The kernel side (epoll interest,
   EPOLLONESHOT disarming, level-triggered readiness) is part of this module, the library side is TpEvent. *)
EXTENDS TpEvent
CONSTANTS Owner, Foreign, MaxOps, Flags

VARIABLES armed,      \* epoll will report the object (interest bits set and not consumed by EPOLLONESHOT)
          ready,      \* readiness condition (environment)
          lpc,        \* loop of the owner: "wait" | "gate" | "deliver"
          fpc,        \* foreign thread: -1 idle, else the op it is inside of
          nops,
          ownerQuiet  \* the owner issued disable/delete and it returned; no enable/add since
vars == <<eVars, armed, ready, lpc, fpc, nops, ownerQuiet>>
U == 0

Init == /\ ereg = [u \in {U} |-> EvNoReg] /\ busy = [u \in {U} |-> -1] /\ fired = [u \in {U} |-> 0]
        /\ armed = FALSE /\ ready \in BOOLEAN /\ lpc = "wait" /\ fpc = -1 /\ nops = 0 /\ ownerQuiet = FALSE

Apply(t, op, fl) ==          \* the whole call as seen by the kernel + library (rc = 0 paths)
    /\ EvPost(U, t, op, 0, fl, 0, Owner, IF op \in {OP_ENABLE, OP_DISABLE, OP_DEL} /\ ~ereg[U].present /\ op = OP_DISABLE THEN 2 ELSE 0,
              op # OP_DEL)
    /\ armed' = (op \in {OP_ADD, OP_ENABLE})
(* owner-thread operation: atomic w.r.t. its own loop (runs between iterations / inside a callback) *)
OwnerOp == /\ lpc = "wait" /\ nops < MaxOps /\ fpc = -1
           /\ \E op \in {OP_ADD, OP_ENABLE, OP_DISABLE, OP_DEL}, fl \in Flags :
                /\ (op = OP_DISABLE => ereg[U].present)
                /\ busy[U] = -1
                /\ LET b1 == [busy EXCEPT ![U] = Owner] IN
                     \* enter + return in one step
                     /\ IF op = OP_DISABLE
                        THEN ereg' = [ereg EXCEPT ![U].dis = TRUE, ![U].pdis = TRUE, ![U].inflight = FALSE, ![U].fl = fl] /\ fired' = [fired EXCEPT ![U] = 0]
                        ELSE IF op = OP_DEL
                        THEN ereg' = [ereg EXCEPT ![U] = [EvNoReg EXCEPT !.owner = Owner]] /\ fired' = fired
                        ELSE /\ ereg' = [ereg EXCEPT ![U] = [present |-> TRUE, ev |-> 0, fl |-> fl, dis |-> FALSE,
                                                           owner |-> Owner, inflight |-> FALSE, armedBy |-> "post", early |-> 0, pdis |-> FALSE]]
                             /\ fired' = [fired EXCEPT ![U] = 0]
                     /\ busy' = busy
                /\ armed' = (op \in {OP_ADD, OP_ENABLE})
                /\ ownerQuiet' = (op \in {OP_DISABLE, OP_DEL})
           /\ nops' = nops + 1 /\ UNCHANGED <<ready, lpc, fpc>>
(* foreign-thread operation: enter and return are separate steps, the loop may run in between *)
FEnter == /\ fpc = -1 /\ nops < MaxOps /\ busy[U] = -1
          /\ \E op \in {OP_ENABLE, OP_DISABLE, OP_DEL} : (op = OP_DISABLE => ereg[U].present) /\ fpc' = op
          /\ EvEnter(U, Foreign) /\ nops' = nops + 1 /\ UNCHANGED <<armed, ready, lpc, ownerQuiet>>
FReturn == /\ fpc # -1 /\ \E fl \in Flags : Apply(Foreign, fpc, fl)
           /\ fpc' = -1 /\ ownerQuiet' = (IF fpc = OP_ENABLE THEN FALSE ELSE ownerQuiet)
           /\ UNCHANGED <<ready, lpc, nops>>
(* kernel + loop *)
KReport == /\ lpc = "wait" /\ armed /\ ready
           /\ armed' = IF ereg[U].present /\ ereg[U].fl \in {ONESHOT, DISPATCH} THEN FALSE ELSE armed   \* EPOLLONESHOT
           /\ lpc' = "gate" /\ UNCHANGED <<eVars, ready, fpc, nops, ownerQuiet>>
LGate == /\ lpc = "gate" /\ EvGate(Owner, U, ereg[U].dis, ereg[U].present)
         /\ lpc' = IF ereg[U].dis THEN "wait" ELSE "deliver"
         /\ UNCHANGED <<armed, ready, fpc, nops, ownerQuiet>>
LDeliver == /\ lpc = "deliver" /\ (EvDeliver(Owner, U, 0) \/ EvDeliverEarly(Owner, U, 0)) /\ lpc' = "wait"
            /\ UNCHANGED <<armed, ready, fpc, nops, ownerQuiet>>
Env == /\ ready' = ~ready /\ UNCHANGED <<eVars, armed, lpc, fpc, nops, ownerQuiet>>

Next == OwnerOp \/ FEnter \/ FReturn \/ KReport \/ LGate \/ LDeliver \/ Env
Spec == Init /\ [][Next]_vars

(* (C06) once the owning thread has disabled or deleted the event, no callback until it is enabled again *)
SilentAfterOwnerDisable == [][ownerQuiet /\ ownerQuiet' => fired' = fired]_vars
Bounded == fired[U] <= 2 /\ ereg[U].early <= 2
NoDeliverWhenDisabled == lpc = "deliver" => ereg[U].inflight
=============================================================================
