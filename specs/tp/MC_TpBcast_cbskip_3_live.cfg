SPECIFICATION FairSpec
CONSTANTS
  Workers = {0, 1, 2}
  Caller = 1
  Kind = "cb"
  SelfSkip = TRUE
  MaxFail = 2
  FixedRead = TRUE
PROPERTY Terminates
CHECK_DEADLOCK FALSE
