SPECIFICATION TSpec
CONSTANTS
  Workers = {0,1,2,3,4,5,6,7,8,9,10,11,12,13,14,15}
  PVT = 50
  Cap = 2048
  BatchMax = 1024
INVARIANTS LastIsFresh FailureMeansNoRun C10Inv
POSTCONDITION Accepted
CHECK_DEADLOCK FALSE
