------------------------------- MODULE TpLife -------------------------------
(* Life cycle of a liblcb thread pool: tp_create, tp_threads_create, tp_thread_proc, tp_shutdown,
   tp_shutdown_wait, tp_destroy (src/threadpool/threadpool.c), observed through the guarded hooks and the
   resource ledger of the driver (calloc/free, descriptors, threads).

   Property C11 is stated by the guards marked (C11).  Where the unchanged code is known to leave the
   property (see known_findings.json) the specification has a NAMED DEVIATION action that prints
   <<"DEVIATION", name>> and lets the rest of the trace be checked; every other departure makes the
   trace a non-behaviour (rejected). *)
EXTENDS TpBcast

EDEADLK == 35   EBUSY == 16

VARIABLES phase,     \* "none" | "creating" | "created" | "down" (shutdown called) | "freeing"
          hstart, hstop,   \* [Threads -> number of start / stop hook calls]
          made,      \* workers for which pthread_create succeeded (or that were attached)
          exited,    \* workers whose tp_thread_proc has returned
          joined,    \* workers successfully joined
          ptid0,     \* workers that cleared their own pt_id
          shut,      \* value of tp->shutdown
          tcfail,    \* a pthread_create failed inside the current tp_threads_create call
          attached,  \* workers whose body runs on a borrowed thread (tp_thread_attach_first): never joined
          strag      \* threads of EARLIER pools of this process that were never joined (they may still be running)
lVars == <<phase, hstart, hstop, made, exited, joined, ptid0, shut, tcfail, attached, strag>>

InitLife == /\ phase = "none" /\ hstart = [t \in Threads |-> 0] /\ hstop = [t \in Threads |-> 0]
            /\ made = {} /\ exited = {} /\ joined = {} /\ ptid0 = {} /\ shut = 0 /\ tcfail = FALSE /\ attached = {} /\ strag = 0
Dev(name) == PrintT(<<"DEVIATION", name>>)

CallCreate == /\ phase = "none" /\ phase' = "creating"
              /\ hstart' = [t \in Threads |-> 0] /\ hstop' = [t \in Threads |-> 0]
              /\ made' = {} /\ exited' = {} /\ joined' = {} /\ ptid0' = {} /\ shut' = 0 /\ tcfail' = FALSE /\ attached' = {} /\ UNCHANGED strag
HookStart(a) == /\ phase \in {"creating", "created", "down"}
                /\ hstart[a] = 0                                  \* (C11) start hook once per thread
                /\ hstart' = [hstart EXCEPT ![a] = 1]
                /\ UNCHANGED <<phase, hstop, made, exited, joined, ptid0, shut, tcfail, attached, strag>>
HookStop(a) == /\ phase \in {"creating", "created", "down"}
               /\ \/ hstart[a] = 1 /\ hstop[a] = 0                \* (C11) stop hook once, after the start hook
                  \/ /\ hstart[a] = 0 /\ hstop[a] = 0 /\ a = PVT /\ phase = "creating"
                     /\ Dev("stop-hook-without-start-hook-on-failed-create")
                  \/ /\ hstop[a] = 1 /\ a = PVT /\ shut > 1
                     /\ Dev("concurrent-tp_shutdown-runs-pvt-stop-hook-twice")
               /\ hstop' = [hstop EXCEPT ![a] = @ + 1]
               /\ UNCHANGED <<phase, hstart, made, exited, joined, ptid0, shut, tcfail, attached, strag>>
HooksBalanced == \A t \in Threads : hstart[t] = hstop[t] \/ (t = PVT /\ hstop[t] > hstart[t])  \* deviations already reported
(* ret.create: rc, and what the ledger still holds *)
RetCreate(rc, mem, fds, thr) ==
    /\ phase \in {"creating", "freeing"}
    /\ (rc = 0 => phase = "creating")
    /\ IF rc = 0 THEN /\ phase' = "created" /\ hstart[PVT] = 1
       ELSE /\ phase' = "none"
            /\ mem = 0 /\ fds = 0 /\ thr = 0                       \* (C11) a failed create leaves nothing behind
            /\ HooksBalanced
    /\ UNCHANGED <<hstart, hstop, made, exited, joined, ptid0, shut, tcfail, attached, strag>>
Starting(t)   == /\ phase \in {"created"} /\ made' = made \cup {t}
                 /\ UNCHANGED <<phase, hstart, hstop, exited, joined, ptid0, shut, tcfail, attached, strag>>
StartFailed(t) == /\ made' = made \ {t} /\ tcfail' = TRUE /\ UNCHANGED <<phase, hstart, hstop, exited, joined, ptid0, shut, attached, strag>>
CallTCreate == tcfail' = FALSE /\ UNCHANGED <<phase, hstart, hstop, made, exited, joined, ptid0, shut, attached, strag>>
(* call.attach_first: the caller lends its own thread to worker 0 *)
Attach(t) == /\ phase = "created" /\ t \notin made
             /\ made' = made \cup {t} /\ attached' = attached \cup {t}
             /\ UNCHANGED <<phase, hstart, hstop, exited, joined, ptid0, shut, tcfail, strag>>
RetTCreate(rc) == /\ \/ ~tcfail \/ rc # 0                           \* (C11) a failed thread creation is reported
                     \/ tcfail /\ rc = 0 /\ Dev("tp_threads_create-reports-success-although-pthread_create-failed")
                  /\ UNCHANGED lVars
ProcStep(t, what) ==
    /\ t \in made
    /\ CASE what = "proc.ptid0" -> ptid0' = ptid0 \cup {t} /\ UNCHANGED exited
         [] what = "proc.exit"  -> exited' = exited \cup {t} /\ UNCHANGED ptid0
         [] OTHER -> UNCHANGED <<exited, ptid0>>
    /\ phase # "none"                                              \* (C11) no pool code runs on a destroyed pool
    /\ UNCHANGED <<phase, hstart, hstop, made, joined, shut, tcfail, attached, strag>>
ShutdownSet(v) == /\ phase \in {"creating", "created", "down"} /\ shut' = v
                  /\ phase' = IF phase = "creating" THEN phase ELSE "down"
                  /\ UNCHANGED <<hstart, hstop, made, exited, joined, ptid0, tcfail, attached, strag>>
Join0 == /\ Dev("tp_shutdown_wait-joins-a-thread-id-the-exiting-thread-already-cleared")
         /\ UNCHANGED lVars
Joined(t, rc) == /\ joined' = IF rc = 0 THEN joined \cup {t} ELSE joined
                 /\ UNCHANGED <<phase, hstart, hstop, made, exited, ptid0, shut, tcfail, attached, strag>>
DestroyFree == /\ phase \in {"down", "creating"}
               /\ attached \subseteq exited                          \* (C11) a borrowed thread has left the pool
               /\ \/ (made \ attached) \subseteq joined              \* (C11) every created thread was joined before the pool is freed
                  \/ /\ ~((made \ attached) \subseteq joined) /\ Dev("tp_destroy-frees-the-pool-with-threads-never-joined")
               /\ phase' = "freeing"
               /\ UNCHANGED <<hstart, hstop, made, exited, joined, ptid0, shut, tcfail, attached, strag>>
RetDestroy(rc, mem, fds, thr) ==
    /\ IF rc = 0
       THEN /\ phase = "freeing" /\ phase' = "none"
            /\ mem = 0 /\ fds = 0                                   \* (C11) everything released
            /\ thr = Cardinality((made \ attached) \ joined)        \* unjoined threads were reported at DestroyFree
            /\ \A t \in Workers : t \in made => hstart[t] = 1 /\ hstop[t] = 1   \* (C11) hooks exactly once per started thread
            /\ \A t \in Workers : t \notin made => hstart[t] = 0 /\ hstop[t] = 0
            /\ hstart[PVT] = 1 /\ hstop[PVT] >= 1
       ELSE /\ phase' = phase
    /\ strag' = IF rc = 0 THEN strag + Cardinality((made \ attached) \ joined) ELSE strag
    /\ UNCHANGED <<hstart, hstop, made, exited, joined, ptid0, shut, tcfail, attached>>
(* (C11) destroy / shutdown_wait issued from OUTSIDE the pool must not be refused as "would deadlock" *)
OutsideNotRefused(p, rc) == p \notin Workers => rc \in {0, EBUSY}
(* calls that must be refused from a pool thread *)
RetGuarded(p, rc) == /\ (p \in Workers => rc # 0)                  \* (C11) refused from a pool thread (would deadlock)
                     /\ OutsideNotRefused(p, rc)
                     /\ UNCHANGED lVars
Crashed(t) == /\ \/ phase \in {"freeing", "none"} /\ t \in (made \ attached) \ joined
                 \/ strag > 0            \* a never-joined thread of an earlier, already freed pool
              /\ Dev("pool-freed-while-an-unjoined-thread-was-still-inside-tp_thread_proc")
              /\ UNCHANGED lVars
(* a hang is the known finding only if a shutdown message (NULL user data) really could not be queued *)
Hung(where) == /\ where = "watchdog" /\ phase = "down"
               /\ \E i \in DOMAIN inst : inst[i].u = -1 /\ inst[i].st = "wfail"
               /\ Dev("shutdown-message-lost-on-a-full-queue-thread-never-stops")
               /\ UNCHANGED lVars
PoolAlive == phase \in {"creating", "created", "down"}
=============================================================================
