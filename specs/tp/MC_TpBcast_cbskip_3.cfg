SPECIFICATION Spec
CONSTANTS
  Workers = {0, 1, 2}
  Caller = 1
  Kind = "cb"
  SelfSkip = TRUE
  MaxFail = 2
  FixedRead = TRUE
INVARIANTS NoTouchAfterDeath CountNonNegative CountsAddUp SyncReturnsAfterAll DoneAtMostOnce DoneAfterAll
CHECK_DEADLOCK FALSE
