------------------------------- MODULE TpTask -------------------------------
(* I/O tasks of the liblcb thread pool (src/threadpool/threadpool_task.c, Linux/epoll back end):
   tp_task_start_ex / tp_task_restart / tp_task_stop / tp_task_enable / tp_task_destroy,
   tp_task_handler_pre_int, the transfer loop of tp_task_handler, the callback, tp_task_handler_post_int.

   The whole state of ONE task, its buffer, its two registrations (tp_data = "io", tp_timer = "tmr"),
   the stream behind the descriptor and the ghosts of property C16 is one record `s`; every step of the C
   code is a pure operator  s -> s.  MC_TpTask explores the operators with a nondeterministic
   environment; TraceTpTask applies them to the events logged from the real code.

   Steps that make tpt_ev_* calls are applied at the END of the phase, with the sequence `obs` of
   calls that was made (ev.post hook: object, op, event, flags; timerfd_settime wrapper: St(ms);
   failing epoll_ctl/timerfd_create: Fail).  The operator compares `obs` with what the step must do.
   Findings go to s.notes:  "PROPERTY:<clause>:<what>"  = a clause of C16 does not hold,
                            "DEVIATION:<name>"          = a known defect of the code, modelled exactly
                                                          (the state follows what the code did). *)
EXTENDS Integers, Sequences, FiniteSets, TLC

READ == 0  WRITE == 1  TIMER == 2
ONESHOT == 1  DISPATCH == 2
ADD == 0  DEL == 1  ENABLE == 2  DISABLE == 3
CB_ERROR == -1  CB_NONE == 0  CB_EOF == 1  CB_CONTINUE == 2
EOF_SYS == 1  EOF_BUF == 2
ETIMEDOUT == 110  EINVAL == 22  ENOENT == 2
BIG == 100000000                              \* how the rig logs SIZE_MAX ("transfer as much as you can")
ANYERR == -1                                  \* "some non-zero socket error" (SO_ERROR is not visible to the rig)
ErrFilter(e) == IF e \in {4, 11, 16} THEN 0 ELSE e      \* SKT_ERR_FILTER: EINTR, EAGAIN = EWOULDBLOCK, EBUSY

Min(a, b) == IF a < b THEN a ELSE b
P(o, op, ev, fl) == [o |-> o, op |-> op, ev |-> ev, fl |-> fl]
St(ms) == P("st", ms, 0, 0)
Fail == P("fail", 0, 0, 0)
Note(s, n) == [s EXCEPT !.notes = @ \cup {n}]
Chk(s, ok, n) == IF ok THEN s ELSE Note(s, n)

NoCfg == [typ |-> "sr", every |-> FALSE, ev |-> READ, efl |-> 0, tmo |-> 0, off0 |-> 0, tr0 |-> 0, used0 |-> 0]
NoReg == [present |-> FALSE, fl |-> 0, dis |-> FALSE]
NoH == [xfer |-> 0, err |-> 0, eof |-> 0, direct |-> FALSE, timer |-> FALSE, ferr |-> FALSE, ret |-> CB_NONE, n |-> 0, ph |-> ""]
LoopTyp == {"pkt", "acc"}            \* tp_task_pkt_rcvr_handler / tp_task_accept_handler: one callback per datagram / connection

NewTask(size, used, off, tr, mem0) ==
  [cfg |-> NoCfg, tot |-> 0, foff |-> 0, buf |-> [size |-> size, used |-> used, off |-> off, tr |-> tr], mem |-> mem0,
   io |-> NoReg, tmr |-> NoReg, pc |-> "none", h |-> NoH,
   q |-> << >>, peof |-> FALSE, perr |-> FALSE, out |-> << >>,               \* the stream behind the descriptor
   sent |-> << >>, pend |-> << >>, deliv |-> << >>, outw |-> << >>,           \* ghosts: bytes written by the peer / taken but not yet
                                                                            \* reported / reported; bytes emitted from the current window
   ioEver |-> FALSE, tmrEver |-> FALSE,                                     \* tp_data / tp_timer were handed to tpt_ev_add at least once
   arm |-> 0, reps |-> {},   \* reps: conditions already reported in the current arming
   stopped |-> FALSE, lastret |-> CB_NONE, ncb |-> 0, devs |-> {}, notes |-> {}]

IoArmed(s) == s.io.present /\ ~s.io.dis
TmrArmed(s) == s.tmr.present /\ ~s.tmr.dis
HasT(s) == s.cfg.tmo # 0
IsRead(s) == s.cfg.ev = READ
Ready(s) == IF s.cfg.typ \in LoopTyp THEN s.q # << >> ELSE IF IsRead(s) THEN s.q # << >> \/ s.peof \/ s.perr ELSE TRUE

(* ---------------------------------------------------------------- the calls each step must make *)
TmrOn(s) == <<P("tmr", ENABLE, TIMER, DISPATCH), St(s.cfg.tmo)>>
RestartOk(s) == (IF HasT(s) THEN <<P("tmr", ADD, TIMER, DISPATCH), St(s.cfg.tmo)>> ELSE << >>) \o <<P("io", ADD, s.cfg.ev, s.cfg.efl)>>
RestartFailT(s) == <<P("tmr", ADD, TIMER, DISPATCH), Fail>>
RestartFailIo(s) == RestartOk(s) \o <<Fail>>
\* (a tp_udata_t that was never given to tpt_ev_add has no thread yet: the call is refused before anything is posted)
StopPosts(s) == (IF s.ioEver THEN <<P("io", DEL, s.cfg.ev, 0)>> ELSE << >>) \o (IF HasT(s) /\ s.tmrEver THEN <<P("tmr", DEL, TIMER, 0)>> ELSE << >>)
PreIoPosts(s) == IF ~HasT(s) THEN << >>
                 ELSE IF s.cfg.efl = ONESHOT THEN <<P("tmr", DEL, TIMER, 0)>>
                 ELSE IF s.tmr.present THEN <<P("tmr", DISABLE, TIMER, 0), St(0)>> ELSE <<P("tmr", DISABLE, TIMER, 0)>>
PreTmrPosts(s) == IF s.cfg.efl = ONESHOT THEN {StopPosts(s)}
                  ELSE {<<P("io", DISABLE, s.cfg.ev, f)>> : f \in {0, s.cfg.efl}}
NeedIoRearm(s) == s.cfg.efl # 0 \/ s.h.timer             \* a persistent registration stays armed by itself
PostPosts(s) == (IF HasT(s) THEN TmrOn(s) ELSE << >>) \o (IF NeedIoRearm(s) THEN <<P("io", ENABLE, s.cfg.ev, s.cfg.efl)>> ELSE << >>)
EnableTPosts(s, en) == IF ~HasT(s) THEN << >>
                       ELSE IF en THEN TmrOn(s)
                       ELSE IF s.tmr.present THEN <<P("tmr", DISABLE, TIMER, DISPATCH), St(0)>> ELSE <<P("tmr", DISABLE, TIMER, DISPATCH)>>
EnablePosts(s, en) == EnableTPosts(s, en) \o <<P("io", IF en THEN ENABLE ELSE DISABLE, s.cfg.ev, s.cfg.efl)>>

(* ---------------------------------------------------------------- environment: the peer *)
PeerWrite(s, ids) == [s EXCEPT !.q = @ \o ids, !.sent = @ \o ids]
PeerItems(s, items, flat) == [s EXCEPT !.q = @ \o items, !.sent = @ \o flat]       \* datagrams / connections: the queue holds whole items
PeerClose(s, reset) == [s EXCEPT !.peof = TRUE, !.perr = @ \/ reset]

(* ---------------------------------------------------------------- tp_task_start_ex *)
ApiStart(s, direct, typ, every, ev, efl, tmo, foff) ==
  LET c == [typ |-> typ, every |-> every, ev |-> ev, efl |-> efl, tmo |-> tmo, off0 |-> s.buf.off, tr0 |-> s.buf.tr, used0 |-> s.buf.used]
      \* a start opens a new account: octets a stopped run took from the descriptor without reporting them stay where they
      \* were stored (the caller sees them through buf->used) and are not counted by the new run's callbacks
      s1 == [s EXCEPT !.cfg = c, !.tot = 0, !.foff = foff, !.stopped = FALSE, !.outw = << >>,
                      !.deliv = @ \o s.pend, !.pend = << >>,
                      !.q = IF typ = "rw" /\ ev = READ THEN SubSeq(s.sent, foff + 1, Len(s.sent)) ELSE @]
  IN IF direct /\ typ \in {"sr", "rw"} /\ s.buf.tr # 0
     THEN [s1 EXCEPT !.pc = "xfer", !.h = [NoH EXCEPT !.direct = TRUE]]        \* first I/O without scheduling
     ELSE [s1 EXCEPT !.pc = "restart", !.h = NoH]

(* tp_task_restart (also the tail of tp_task_start_ex); rc = what the call returned *)
Armed(s) == [s EXCEPT !.io = [present |-> TRUE, fl |-> s.cfg.efl, dis |-> FALSE],
                      !.tmr = IF HasT(s) THEN [NoReg EXCEPT !.present = TRUE] ELSE @,
                      !.arm = 1, !.reps = {}, !.stopped = FALSE, !.pc = "idle"]
RestartEnd(sx, obs, rc) ==
  LET s == [sx EXCEPT !.ioEver = @ \/ (\E i \in 1..Len(obs) : obs[i].o = "io" /\ obs[i].op = ADD),
                      !.tmrEver = @ \/ (\E i \in 1..Len(obs) : obs[i].o = "tmr" /\ obs[i].op = ADD)]
      s0 == [s EXCEPT !.pc = "idle", !.lastret = CB_NONE] IN
  CASE rc = 0 /\ obs = RestartOk(s) -> Armed(s)
    [] rc # 0 /\ HasT(s) /\ obs = RestartFailT(s) -> [s0 EXCEPT !.tmr = NoReg]
    [] rc # 0 /\ obs = RestartFailIo(s) \o <<P("tmr", DEL, TIMER, 0)>> -> [s0 EXCEPT !.io = NoReg, !.tmr = NoReg]
    [] rc # 0 /\ ~HasT(s) /\ obs \in {RestartFailIo(s), RestartFailIo(s) \o <<P("io", DEL, TIMER, 0)>>} -> [s0 EXCEPT !.io = NoReg]
    [] rc # 0 /\ HasT(s) /\ obs = RestartFailIo(s) \o <<P("io", DEL, TIMER, 0)>> ->
         \* the code deletes the timer through tp_data: the timer of tp_timer stays armed
         Note([s0 EXCEPT !.io = NoReg, !.tmr = [NoReg EXCEPT !.present = TRUE], !.devs = @ \cup {"timer-left"}],
              "DEVIATION:tp_task_restart:error-path-deletes-timer-through-tp_data")
    [] OTHER -> Note(IF rc = 0 THEN Armed(s) ELSE [s0 EXCEPT !.io = NoReg, !.tmr = NoReg], "PROPERTY:ArmingOps:restart")

(* tp_task_stop / the stop inside tp_task_destroy *)
StopEnd(s, obs) ==
  Chk([s EXCEPT !.io = NoReg, !.tmr = IF HasT(s) THEN NoReg ELSE @, !.stopped = TRUE],
      obs = StopPosts(s), "PROPERTY:ArmingOps:stop")
DestroyEnd(s, obs) == [StopEnd(s, obs) EXCEPT !.pc = "dead"]

(* tp_task_enable *)
EnableEnd(s, en, obs, rc) ==
  LET T == EnableTPosts(s, en)
      IoOp == IF en THEN ENABLE ELSE DISABLE
      on(fl) == [s EXCEPT !.io = [present |-> TRUE, fl |-> fl, dis |-> FALSE],
                          !.tmr = IF HasT(s) THEN [NoReg EXCEPT !.present = TRUE] ELSE @, !.arm = 1, !.reps = {}, !.stopped = FALSE]
      off == [s EXCEPT !.lastret = CB_NONE, !.io = [@ EXCEPT !.present = TRUE, !.dis = TRUE], !.tmr = IF HasT(s) /\ @.present THEN [@ EXCEPT !.dis = TRUE] ELSE @]
      ioFail(f) == T \o <<P("io", IoOp, s.cfg.ev, f), Fail>>
  IN
  CASE ~(IF HasT(s) THEN s.tmrEver ELSE s.ioEver) /\ rc = EINVAL /\ obs = << >> -> s         \* never scheduled: tpt_ev_validate refuses (no thread yet)
    [] ~en /\ HasT(s) /\ ~s.tmr.present /\ s.tmrEver /\ rc = ENOENT /\ obs = T -> s     \* no timer to disable: the call gives up before the descriptor
    [] rc = 0 /\ obs = EnablePosts(s, en) -> IF en THEN on(s.cfg.efl) ELSE off
    [] rc = 0 /\ ~en /\ obs = T \o <<P("io", DISABLE, s.cfg.ev, 0)>> -> off
    [] rc = 0 /\ en /\ s.cfg.efl # 0 /\ obs = T \o <<P("io", ENABLE, s.cfg.ev, 0)>> ->
         \* tpt_ev_enable_args1() re-arms with flags 0: the registration becomes persistent
         Note([on(0) EXCEPT !.devs = @ \cup {"flags-lost"}], "DEVIATION:tp_task_enable:rearm-drops-event-flags")
    [] rc # 0 /\ HasT(s) /\ obs = <<T[1], Fail>> -> [s EXCEPT !.tmr = NoReg]
    [] rc # 0 /\ \E f \in {0, s.cfg.efl} : obs = ioFail(f) \o (IF HasT(s) THEN <<P("tmr", DISABLE, TIMER, 0), St(0)>> ELSE << >>) ->
         [s EXCEPT !.io = NoReg, !.tmr = IF HasT(s) THEN [@ EXCEPT !.dis = TRUE] ELSE @]
    [] rc # 0 /\ ~HasT(s) /\ \E f \in {0, s.cfg.efl} : obs \in {ioFail(f) \o <<P("io", DISABLE, TIMER, 0)>>, ioFail(f) \o <<P("tmr", DISABLE, TIMER, 0)>>} ->
         [s EXCEPT !.io = NoReg]
    [] rc # 0 /\ HasT(s) /\ \E f \in {0, s.cfg.efl} : obs = ioFail(f) \o <<P("io", DISABLE, TIMER, 0)>> ->
         \* the code disables the timer through tp_data: the timer of tp_timer keeps running
         Note([s EXCEPT !.io = NoReg, !.tmr = IF en THEN [NoReg EXCEPT !.present = TRUE] ELSE @, !.devs = @ \cup {"timer-left"}],
              "DEVIATION:tp_task_enable:error-path-disables-timer-through-tp_data")
    [] OTHER -> Note(IF rc = 0 THEN (IF en THEN on(s.cfg.efl) ELSE off) ELSE [s EXCEPT !.io = NoReg], "PROPERTY:ArmingOps:enable")

(* ---------------------------------------------------------------- tpt_loop delivers an event to the task *)
DeliverIo(s, feof, ferr) ==
  LET s1 == IF IoArmed(s) THEN s
            ELSE Note(s, IF s.stopped THEN "PROPERTY:NoCallbackAfterStop:io-event" ELSE "PROPERTY:NoCallbackWhenNotArmed:io-event")
  IN [s1 EXCEPT !.io = IF s.io.fl = DISPATCH THEN [@ EXCEPT !.dis = TRUE] ELSE IF s.io.fl = ONESHOT THEN NoReg ELSE @,
                !.pc = "pre",
                !.perr = IF ferr THEN FALSE ELSE @,            \* the loop read (and thereby cleared) SO_ERROR
                !.h = [NoH EXCEPT !.eof = IF feof THEN EOF_SYS ELSE 0, !.ferr = ferr, !.err = IF ferr THEN ANYERR ELSE 0]]
DeliverTmr(s) ==
  LET s1 == IF TmrArmed(s) /\ "timer-left" \in s.devs /\ ~s.io.present
              THEN Note(s, "DEVIATION:timeout-callback-after-failed-arm")
            ELSE IF TmrArmed(s) THEN s
            ELSE Note(s, IF s.stopped THEN "PROPERTY:NoCallbackAfterStop:timer-event" ELSE "PROPERTY:NoCallbackWhenNotArmed:timer-event")
  IN [s1 EXCEPT !.tmr = [@ EXCEPT !.dis = TRUE], !.pc = "pre", !.h = [NoH EXCEPT !.timer = TRUE, !.err = ETIMEDOUT]]

(* tp_task_handler_pre_int and the test before the transfer loop *)
Inc(v, max, n) == IF max > v /\ max - v > n THEN v + n ELSE max       \* IO_BUF_VALUE_IN_RANGE_INC
Dec(v, n) == IF v > n THEN v - n ELSE 0
Store(m, at, ids) == [i \in 1..Len(m) |-> IF i > at /\ i <= at + Len(ids) THEN ids[i - at] ELSE m[i]]
ToCb(s, err, eof, n) == [s EXCEPT !.pc = "cbwait", !.h = [@ EXCEPT !.err = err, !.eof = eof, !.n = n], !.tot = 0]
PreEnd(s, obs) ==
  IF s.cfg.typ = "conn"          \* tp_task_connect_handler: stop first, then report (no pre_int / post_int)
  THEN ToCb(Chk([s EXCEPT !.io = NoReg, !.tmr = IF HasT(s) THEN NoReg ELSE @], obs = StopPosts(s), "PROPERTY:ArmingOps:connect-stop"),
            s.h.err, 0, 0)
  ELSE IF s.h.timer
  THEN LET s1 == IF s.cfg.efl = ONESHOT THEN [s EXCEPT !.io = NoReg, !.tmr = NoReg]
                 ELSE [s EXCEPT !.io = [@ EXCEPT !.present = TRUE, !.dis = TRUE]]
           s2 == ToCb(Chk(s1, obs \in PreTmrPosts(s), "PROPERTY:ArmingOps:pre-timer"), ETIMEDOUT, 0, s.tot)
       IN IF s.cfg.typ \in LoopTyp THEN [s2 EXCEPT !.h = [@ EXCEPT !.ph = "errcb"]] ELSE s2
  ELSE LET s1 == IF ~HasT(s) THEN s
                 ELSE IF s.cfg.efl = ONESHOT THEN [s EXCEPT !.tmr = NoReg]
                 ELSE [s EXCEPT !.tmr = IF @.present THEN [@ EXCEPT !.dis = TRUE] ELSE @]
           s2 == Chk(s1, obs = PreIoPosts(s), "PROPERTY:ArmingOps:pre-io")
       IN IF s.cfg.typ = "notify" THEN ToCb(s2, s.h.err, s.h.eof, BIG)         \* tp_task_notify_handler: no I/O, the callback does it
          ELSE IF s.cfg.typ \in LoopTyp
            THEN (IF s.h.err # 0 THEN [ToCb(s2, s.h.err, 0, 0) EXCEPT !.h = [@ EXCEPT !.ph = "errcb"]]   \* the error is reported first
                  ELSE [s2 EXCEPT !.pc = "xferL", !.h = [@ EXCEPT !.eof = 0, !.ret = CB_CONTINUE]])
          ELSE IF s.buf.tr = 0 THEN ToCb(s2, s.h.err, s.h.eof, s.tot) ELSE [s2 EXCEPT !.pc = "xfer"]

(* one recvfrom / accept of tp_task_pkt_rcvr_handler / tp_task_accept_handler *)
ToPost(s, ret) == [s EXCEPT !.h = [@ EXCEPT !.ret = ret], !.lastret = ret, !.pc = "post"]
XferL(s, r) ==
  LET pkt == s.cfg.typ = "pkt"
      argsOk == IF pkt THEN r.fn = "recvfrom" /\ r.poff = s.buf.off /\ r.len = s.buf.tr /\ r.dontwait = 1 ELSE r.fn = "accept4" /\ r.dontwait = 1
      inWin == ~pkt \/ (r.poff >= 0 /\ r.poff + r.len <= s.buf.size)
      s0 == Chk(Chk(s, argsOk, "PROPERTY:WindowRespected:io-call-arguments"), inWin, "PROPERTY:WindowRespected:io-call-outside-window")
      n == r.rc
  IN
  IF n > 0 THEN
    LET b1 == IF pkt THEN [s.buf EXCEPT !.used = Inc(@, s.buf.size, n), !.off = Inc(@, s.buf.size, n), !.tr = Dec(@, n)] ELSE s.buf
        s1 == [s0 EXCEPT !.buf = b1, !.q = Tail(@), !.pend = r.ids,
                         !.mem = IF pkt /\ r.poff >= 0 /\ r.poff + n <= Len(@) THEN Store(@, r.poff, r.ids) ELSE @]
    IN [ToCb(s1, 0, 0, n) EXCEPT !.h = [@ EXCEPT !.ph = "item"]]
  ELSE IF n = 0 THEN ToPost([s0 EXCEPT !.q = IF @ # << >> THEN Tail(@) ELSE @], s.h.ret)   \* (a datagram read into an empty window is gone)
  ELSE LET e == ErrFilter(IF r.err = 0 THEN EINVAL ELSE r.err) IN
    IF e = 0 THEN ToPost(s0, CB_CONTINUE)
    ELSE [ToCb(s0, e, 0, 0) EXCEPT !.h = [@ EXCEPT !.ph = "errcb"]]
XferLEnv(s, r) == /\ (r.rc > 0 => s.q # << >> /\ r.ids = SubSeq(Head(s.q), 1, Len(r.ids)) /\ (s.cfg.typ = "acc" => r.ids = Head(s.q)))
                  /\ (r.rc > 0 /\ s.cfg.typ = "pkt" => r.rc = Len(r.ids) /\ r.rc = Min(r.cap, Len(Head(s.q))))

(* one recv / send / pread / pwrite of the transfer loop; r = what the wrapper saw *)
FnOf(s) == IF s.cfg.typ = "sr" THEN (IF IsRead(s) THEN "recv" ELSE "send") ELSE (IF IsRead(s) THEN "pread" ELSE "pwrite")
Xfer(s, r) ==
  LET argsOk == /\ r.fn = FnOf(s) /\ r.poff = s.buf.off /\ r.len = s.buf.tr
                /\ (s.cfg.typ = "rw" => r.fo = s.foff) /\ (s.cfg.typ = "sr" => r.dontwait = 1)
      inWin == r.poff >= s.cfg.off0 /\ r.poff + r.len <= s.cfg.off0 + s.cfg.tr0 /\ r.poff + r.len <= s.buf.size
      s0 == Chk(Chk(s, argsOk, "PROPERTY:WindowRespected:io-call-arguments"), inWin, "PROPERTY:WindowRespected:io-call-outside-window")
      n == r.rc
  IN
  IF n > 0 THEN
    LET b1 == [s.buf EXCEPT !.used = IF IsRead(s) THEN Inc(@, s.buf.size, n) ELSE @, !.off = Inc(@, s.buf.size, n), !.tr = Dec(@, n)]
        s1 == [s0 EXCEPT !.buf = b1, !.foff = @ + n, !.h = [@ EXCEPT !.xfer = @ + n],
                         !.mem = IF IsRead(s) /\ r.poff >= 0 /\ r.poff + n <= Len(@) THEN Store(@, r.poff, r.ids) ELSE @,
                         !.q = IF IsRead(s) THEN SubSeq(@, n + 1, Len(@)) ELSE @,
                         !.pend = IF IsRead(s) THEN @ \o r.ids ELSE @,
                         !.out = IF IsRead(s) THEN @ ELSE @ \o r.ids,
                         !.outw = IF IsRead(s) THEN @ ELSE @ \o r.ids]
    IN IF b1.tr = 0 \/ (IsRead(s) /\ s.cfg.every) THEN ToCb(s1, s.h.err, s.h.eof, s1.h.xfer + s.tot) ELSE s1
  ELSE IF n = 0 THEN
    ToCb(s0, s.h.err, IF IsRead(s) /\ s.h.eof \in {0, EOF_SYS} THEN s.h.eof + EOF_BUF ELSE s.h.eof, s.h.xfer + s.tot)
  ELSE LET e == ErrFilter(IF r.err = 0 THEN EINVAL ELSE r.err) IN
    IF e = 0 THEN [s0 EXCEPT !.tot = @ + s.h.xfer, !.h = [@ EXCEPT !.ret = CB_CONTINUE], !.lastret = CB_CONTINUE,
                             !.pc = IF s.h.direct THEN "dstart" ELSE "post"]
    ELSE ToCb(s0, e, s.h.eof, s.h.xfer + s.tot)
(* what the kernel may answer (hard guard of the trace: the log must be consistent with the stream) *)
XferEnv(s, r) == IF IsRead(s) THEN /\ (r.rc > 0 => r.rc <= Len(s.q) /\ r.ids = SubSeq(s.q, 1, r.rc))
                                   /\ (r.rc = 0 /\ r.inj = 0 => s.q = << >> /\ s.peof)
                 ELSE (r.rc > 0 /\ r.poff >= 0 /\ r.poff + r.rc <= Len(s.mem) => r.ids = SubSeq(s.mem, r.poff + 1, r.poff + r.rc))

(* the callback is entered; o = its arguments and the buffer as the callback sees it *)
Kinds(o) == (IF o.eof # 0 THEN {"eof"} ELSE {}) \cup (IF o.err = ETIMEDOUT THEN {"timeout"} ELSE IF o.err # 0 THEN {"error"} ELSE {})
CbBegin(s, o) ==
  LET argsOk == o.same = 1 /\ o.eof = s.h.eof /\ o.nb = s.h.n /\ (IF s.h.err = ANYERR THEN o.err # 0 ELSE o.err = s.h.err)
      curOk == o.size = s.buf.size /\ o.used = s.buf.used /\ o.off = s.buf.off /\ o.tr = s.buf.tr /\ o.foff = s.foff
               /\ o.off + o.tr <= o.size /\ o.used <= o.size
      bytesOk == /\ o.mem = s.mem                                                 \* every byte where it belongs, nothing else touched
                 /\ (s.cfg.typ = "acc" /\ o.nb = 1 => o.port = s.pend[1] /\ o.nonblock = 1)   \* the connection that was accepted, non-blocking
                 /\ (IsRead(s) /\ s.cfg.typ \in {"sr", "rw", "pkt"} =>
                       ( (o.nb = Len(s.pend))                                        \* counts add up to the data taken from the descriptor
                         /\ (o.off >= o.nb) /\ (SubSeq(o.mem, o.off - o.nb + 1, o.off) = s.pend)
                         /\ ((s.cfg.typ # "sr") \/ (s.deliv \o s.pend \o s.q = s.sent)) ))
      wrOk == ~IsRead(s) => o.off >= s.cfg.off0 /\ s.outw = SubSeq(o.mem, s.cfg.off0 + 1, o.off)   \* exactly the window, in order
      again == Kinds(o) \cap s.reps
      s1 == Chk(Chk(Chk(Chk(s, argsOk, "PROPERTY:CallbackArguments"), curOk, "PROPERTY:BufferCursors"),
                    bytesOk, "PROPERTY:BytesConserved"), wrOk, "PROPERTY:WriteEmitsWindow")
      s2 == IF again = {} THEN s1
            ELSE IF "flags-lost" \in s.devs THEN Note(s1, "DEVIATION:condition-reported-again:registration-became-persistent")
            ELSE Note(s1, "PROPERTY:EachConditionReportedOnce:reported-twice-in-one-arming")
      s3 == Chk(s2, ~s.stopped \/ "timer-left" \in s.devs, "PROPERTY:NoCallbackAfterStop:callback")
  IN [s3 EXCEPT !.pc = "cb", !.ncb = @ + 1,
                !.buf = [size |-> o.size, used |-> o.used, off |-> o.off, tr |-> o.tr], !.mem = o.mem, !.foff = o.foff,
                !.deliv = @ \o s.pend, !.pend = << >>,
                !.reps = @ \cup Kinds(o)]
(* the arguments a conforming library passes (used by the model checker) *)
CbArgs(s) == [same |-> 1, err |-> IF s.h.err = ANYERR THEN 104 ELSE s.h.err, eof |-> s.h.eof, nb |-> s.h.n, size |-> s.buf.size, used |-> s.buf.used,
              off |-> s.buf.off, tr |-> s.buf.tr, foff |-> s.foff, mem |-> s.mem]

CbRead(s, ids) == [s EXCEPT !.q = SubSeq(@, Len(ids) + 1, Len(@)), !.deliv = @ \o ids]     \* a notify callback reads by itself
CbRewind(s) == [s EXCEPT !.buf = [@ EXCEPT !.used = s.cfg.used0, !.off = s.cfg.off0, !.tr = s.cfg.tr0], !.outw = << >>]
CbEnd(s, ret) ==
  LET r == IF s.cfg.typ = "conn" THEN CB_NONE ELSE ret                      \* the connect callback's return code is ignored
      pc == IF s.pc = "dead" THEN "dead"
            ELSE IF s.h.direct THEN "dstart"
            ELSE IF s.cfg.typ \in LoopTyp /\ r = CB_CONTINUE /\ (s.h.ph = "item" \/ (s.h.ph = "errcb" /\ s.cfg.typ = "pkt" /\ ~s.h.timer))
              THEN "xferL"                                                    \* the loop goes on with the next datagram / connection
            ELSE "post"
  IN [s EXCEPT !.h = [@ EXCEPT !.ret = r], !.lastret = r, !.pc = pc]

(* tp_task_handler_post_int (the handler returns to the loop) *)
PostEnd(s, obs) ==
  LET s0 == [s EXCEPT !.pc = "idle"]
      T == IF HasT(s) THEN TmrOn(s) ELSE << >>
      tm(x) == [x EXCEPT !.tmr = IF HasT(s) THEN [NoReg EXCEPT !.present = TRUE] ELSE @, !.arm = 1, !.reps = {}]
      io(x, fl) == [x EXCEPT !.io = [present |-> TRUE, fl |-> fl, dis |-> FALSE]]
  IN
  IF s.h.ret # CB_CONTINUE THEN Chk(s0, obs = << >>, "PROPERTY:ArmingOps:post-no-continue")
  ELSE CASE obs = PostPosts(s) -> IF NeedIoRearm(s) THEN io(tm(s0), s.cfg.efl) ELSE tm(s0)
         [] NeedIoRearm(s) /\ s.cfg.efl # 0 /\ (s.cfg.efl = DISPATCH \/ s.h.timer) /\ obs = T \o <<P("io", ENABLE, s.cfg.ev, 0)>> ->
              Note([io(tm(s0), 0) EXCEPT !.devs = @ \cup {"flags-lost"}], "DEVIATION:tp_task_handler_post_int:rearm-drops-event-flags")
         [] s.cfg.efl = ONESHOT /\ ~s.h.timer /\ obs = T ->
              \* a one-shot registration is gone after its event; after EAGAIN the task is left without one
              Note([tm(s0) EXCEPT !.devs = @ \cup {"oneshot-dead"}], "DEVIATION:tp_task_handler_post_int:oneshot-not-rearmed-on-continue")
         [] OTHER -> Note(IF NeedIoRearm(s) THEN io(tm(s0), s.cfg.efl) ELSE tm(s0), "PROPERTY:RearmOnContinue")
(* the tail of tp_task_start_ex after the direct first I/O *)
DStartEnd(s, obs, rc) ==
  IF s.h.ret = CB_CONTINUE THEN RestartEnd(s, obs, rc)
  ELSE Chk([s EXCEPT !.pc = "idle"], obs = << >> /\ rc = 0, "PROPERTY:ArmingOps:direct-start-no-continue")

(* end of an observation window: the pool thread went twice through its loop after the last stimulus *)
QuietDead(s) ==
  LET dead == s.pc = "idle" /\ ~IoArmed(s) /\ ~TmrArmed(s) /\ ~s.stopped IN
  IF dead /\ "oneshot-dead" \in s.devs /\ (s.pend # << >> \/ s.q # << >> \/ s.peof)
    THEN Note(s, "DEVIATION:bytes-never-delivered:oneshot-task-left-unarmed")
  ELSE IF dead /\ s.lastret = CB_CONTINUE /\ (s.pend # << >> \/ (IsRead(s) /\ s.q # << >>))
    THEN Note(s, "PROPERTY:BytesConserved:bytes-never-delivered")
  ELSE s
Quiet(s) == QuietDead(IF s.pc = "idle" /\ IoArmed(s) /\ Ready(s)
                      THEN Note(s, "PROPERTY:EachConditionReportedOnce:pending-condition-not-delivered") ELSE s)
TimeoutWaited(s, ok) == Chk(s, ok \/ ~(s.pc = "idle" /\ TmrArmed(s)), "PROPERTY:EachConditionReportedOnce:timeout-not-reported")
PeerRead(s, ids, hole) == Chk(s, ids = [i \in 1..hole |-> 0] \o s.out, "PROPERTY:WriteEmitsWindow:peer-received-other-bytes")

(* ---------------------------------------------------------------- invariants of the model (checked by TLC on MC_TpTask) *)
NoFinding(s) == s.notes = {}
WindowRespected(s) == /\ s.buf.off + s.buf.tr <= s.buf.size /\ s.buf.used <= s.buf.size
                      /\ (s.pc \notin {"none"} /\ IsRead(s) =>
                            \A i \in 1..s.buf.size : (i <= s.cfg.off0 \/ i > s.cfg.off0 + s.cfg.tr0) => s.mem[i] = 0)
Accounting(s) == /\ (IsRead(s) /\ s.pc \in {"xfer", "idle", "post", "pre"} => Len(s.pend) = s.tot + (IF s.pc = "xfer" THEN s.h.xfer ELSE 0))
                 /\ (IsRead(s) /\ s.pc = "cbwait" => Len(s.pend) = s.h.n)
                 /\ (IsRead(s) /\ s.cfg.typ = "sr" => s.deliv \o s.pend \o s.q = s.sent)
                 /\ (IsRead(s) /\ s.pc # "none" /\ s.buf.off >= Len(s.pend) => SubSeq(s.mem, s.buf.off - Len(s.pend) + 1, s.buf.off) = s.pend)
WriteEmits(s) == ~IsRead(s) /\ s.pc # "none" => s.outw = SubSeq(s.mem, s.cfg.off0 + 1, s.buf.off) /\ s.out = SubSeq(s.out, 1, Len(s.out) - Len(s.outw)) \o s.outw
RearmOnContinue(s) == s.pc = "idle" /\ s.lastret = CB_CONTINUE /\ ~s.stopped =>
                        IoArmed(s) /\ (HasT(s) => TmrArmed(s))
SilentAfterStop(s) == s.stopped => ~IoArmed(s) /\ (HasT(s) => ~TmrArmed(s)) /\ s.pc \notin {"pre", "xfer", "cbwait"}
=============================================================================
