------------------------------ MODULE MC_TpTask ------------------------------
(* Exhaustive exploration of one I/O task (TpTask) against a nondeterministic environment:
   every fragmentation of the arrival (how the peer's writes are cut, how much each recv/send moves),
   every position of the peer's close/reset, timer expiry at any moment the timer is armed, every callback
   return code with every action the task contract allows inside the callback, stop/enable issued by the
   owning thread between events.  The steps that call tpt_ev_* are given the calls a conforming
   implementation makes (the deviations of the real code are exercised by the trace spec only). *)
EXTENDS TpTask
CONSTANTS Size,        \* buffer size
          Off0,        \* window start
          Trs,         \* window sizes
          Payload,     \* bytes the peer may write (ids 1..Payload)
          MaxFrag,     \* number of peer writes
          MaxCb,       \* bound on callbacks
          MaxOps,      \* bound on owner operations (stop / enable) and injected hard errors
          Evs, Efls, Everys, Tmos, Directs

VARIABLES s, nfrag, nops
vars == <<s, nfrag, nops>>

Mem0(ev, tr) == [i \in 1..Size |-> IF ev = WRITE /\ i > Off0 /\ i <= Off0 + tr THEN i - Off0 ELSE 0]

Init == /\ nfrag = 0 /\ nops = 0
        /\ \E ev \in Evs, tr \in Trs : s = [NewTask(Size, Off0, Off0, tr, Mem0(ev, tr)) EXCEPT !.cfg = [NoCfg EXCEPT !.ev = ev]]

(* tp_task_start_ex, scheduled or with the first I/O done directly; one start per behaviour *)
Start == /\ s.pc = "none"
         /\ \E efl \in Efls, every \in Everys, tmo \in Tmos, direct \in Directs :
              LET s1 == ApiStart(s, direct, "sr", every, s.cfg.ev, efl, tmo, 0)
              IN s' = IF s1.pc = "restart" THEN RestartEnd(s1, RestartOk(s1), 0) ELSE s1
         /\ UNCHANGED <<nfrag, nops>>
StartFails == /\ s.pc = "none" /\ nops < MaxOps
              /\ \E efl \in Efls, tmo \in Tmos, which \in {"t", "io"} :
                   LET s1 == ApiStart(s, FALSE, "sr", FALSE, s.cfg.ev, efl, tmo, 0)
                   IN /\ (which = "t" => tmo # 0)
                      /\ s' = RestartEnd(s1, IF which = "t" THEN RestartFailT(s1) ELSE RestartFailIo(s1) \o <<P("tmr", DEL, TIMER, 0)>>, 12)
              /\ nops' = nops + 1 /\ UNCHANGED nfrag

(* the kernel reports the descriptor / the timer; pre_int runs *)
KIo == /\ s.pc = "idle" /\ IoArmed(s) /\ Ready(s)
       /\ LET s1 == DeliverIo(s, s.peof, s.perr) IN s' = PreEnd(s1, PreIoPosts(s1))
       /\ UNCHANGED <<nfrag, nops>>
KTmr == /\ s.pc = "idle" /\ TmrArmed(s)
        /\ LET s1 == DeliverTmr(s) IN \E p \in PreTmrPosts(s1) : s' = PreEnd(s1, p)
        /\ UNCHANGED <<nfrag, nops>>

(* one I/O call of the transfer loop *)
R(rc, err, ids) == [fn |-> FnOf(s), poff |-> s.buf.off, len |-> s.buf.tr, fo |-> s.foff, dontwait |-> 1, rc |-> rc, err |-> err, ids |-> ids, inj |-> 0]
XferStep ==
  /\ s.pc = "xfer"
  /\ \/ /\ IsRead(s) /\ s.q # << >>
        /\ \E n \in 1..Min(s.buf.tr, Len(s.q)) : s' = Xfer(s, R(n, 0, SubSeq(s.q, 1, n)))        \* the fragmentation oracle
     \/ /\ IsRead(s) /\ s.q = << >> /\ s' = Xfer(s, IF s.peof THEN R(0, 0, << >>) ELSE R(-1, 11, << >>))
     \/ /\ ~IsRead(s) /\ ~s.peof
        /\ \E n \in 1..s.buf.tr : s' = Xfer(s, R(n, 0, SubSeq(s.mem, s.buf.off + 1, s.buf.off + n)))
     \/ /\ ~IsRead(s) /\ s' = Xfer(s, IF s.peof THEN R(-1, 32, << >>) ELSE R(-1, 11, << >>))       \* EPIPE / socket buffer full
  /\ UNCHANGED <<nfrag, nops>>
XferHardError == /\ s.pc = "xfer" /\ nops < MaxOps
                 /\ \E e \in {104, 4} : s' = Xfer(s, R(-1, e, << >>))                               \* ECONNRESET; EINTR is filtered
                 /\ nops' = nops + 1 /\ UNCHANGED nfrag

(* the callback: what the task contract allows (threadpool_task.h): CONTINUE is not returned by one-shot tasks;
   a task without TP_F_DISPATCH stops / disables itself before returning anything else *)
Callback ==
  /\ s.pc = "cbwait" /\ s.ncb < MaxCb
  /\ LET s1 == CbBegin(s, CbArgs(s)) IN
     \E act \in {"none", "stop", "disable", "rewind"}, ret \in {CB_ERROR, CB_NONE, CB_EOF, CB_CONTINUE} :
       LET s2 == CASE act = "stop" -> StopEnd(s1, StopPosts(s1))
                   [] act = "disable" -> EnableEnd(s1, FALSE, EnablePosts(s1, FALSE), 0)
                   [] act = "rewind" -> CbRewind(s1)
                   [] OTHER -> s1
       IN /\ (ret = CB_CONTINUE => s.cfg.efl # ONESHOT /\ act \in {"none", "rewind"} /\ s2.buf.tr # 0)
          /\ (ret # CB_CONTINUE /\ s.cfg.efl = 0 => act \in {"stop", "disable"})
          /\ (act = "disable" => ~(HasT(s1) /\ ~s1.tmr.present))
          /\ (act = "rewind" => ret = CB_CONTINUE)
          /\ s' = CbEnd(s2, ret)
  /\ UNCHANGED <<nfrag, nops>>
Post == /\ s.pc = "post" /\ s' = PostEnd(s, IF s.h.ret = CB_CONTINUE THEN PostPosts(s) ELSE << >>) /\ UNCHANGED <<nfrag, nops>>
DStart == /\ s.pc = "dstart" /\ s' = DStartEnd(s, IF s.h.ret = CB_CONTINUE THEN RestartOk(s) ELSE << >>, 0) /\ UNCHANGED <<nfrag, nops>>

(* operations of the owning thread between two events *)
OwnerOp == /\ s.pc = "idle" /\ nops < MaxOps /\ s.ioEver
           /\ \/ s' = StopEnd(s, StopPosts(s))
              \/ ~(HasT(s) /\ ~s.tmr.present) /\ s' = EnableEnd(s, FALSE, EnablePosts(s, FALSE), 0)
              \/ s' = EnableEnd(s, TRUE, EnablePosts(s, TRUE), 0)
              \/ s' = RestartEnd(s, RestartOk(s), 0)
           /\ nops' = nops + 1 /\ UNCHANGED nfrag

(* the peer *)
PeerW == /\ IsRead(s) /\ nfrag < MaxFrag /\ ~s.peof /\ Len(s.sent) < Payload
         /\ \E n \in 1..(Payload - Len(s.sent)) : s' = PeerWrite(s, [i \in 1..n |-> Len(s.sent) + i])
         /\ nfrag' = nfrag + 1 /\ UNCHANGED nops
PeerC == /\ ~s.peof /\ \E reset \in BOOLEAN : s' = PeerClose(s, reset) /\ UNCHANGED <<nfrag, nops>>

Next == Start \/ StartFails \/ KIo \/ KTmr \/ XferStep \/ XferHardError \/ Callback \/ Post \/ DStart \/ OwnerOp \/ PeerW \/ PeerC
Spec == Init /\ [][Next]_vars

(* C16 on the model *)
InvNoFinding == NoFinding(s)                 \* BytesConserved, WriteEmitsWindow, EachConditionReportedOnce, NoCallbackAfterStop, ArmingOps at every step
InvWindow == WindowRespected(s)
InvAccounting == Accounting(s)
InvWrite == WriteEmits(s)
InvRearm == RearmOnContinue(s)
InvSilent == SilentAfterStop(s)
InvQuiet == NoFinding(QuietDead(s))              \* nothing taken from the descriptor is left unreported in a task that cannot run any more
(* reachability companions (thorough tier: each must be VIOLATED, i.e. the antecedents are not vacuous) *)
ReachTot == ~(s.tot > 0 /\ s.pc = "idle")
ReachEofAndErr == ~({"eof", "error"} \subseteq s.reps)
ReachTimeoutWithBytes == ~(s.pc = "cbwait" /\ s.h.err = ETIMEDOUT /\ s.h.n > 0)
ReachWriteDone == ~(~IsRead(s) /\ s.pc = "cbwait" /\ s.buf.tr = 0 /\ Len(s.out) = s.cfg.tr0 /\ s.ncb >= 1)
=============================================================================
