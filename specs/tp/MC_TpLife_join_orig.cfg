SPECIFICATION Spec
CONSTANTS
  Workers = {0, 1}
  Callers = {100}
  Repaired = FALSE
  QueueFull = FALSE
INVARIANTS NoJoinOfClearedId
CHECK_DEADLOCK FALSE
