----------------------------- MODULE TraceTpTask -----------------------------
(* Trace validation of the real I/O-task code (harness/task_drv.c) against TpTask: one trace action per logged
   event,  IsEv(name) /\ <logged fields bound> /\ s' = Step(s, fields).  Every event is logged, the search is
   linear.  Hard guards (an event that cannot happen in the state = the trace is rejected at that line) concern
   the order of the steps and the consistency of the log with the stream; the clauses of C16 are evaluated by
   the TpTask operators and reported as NOTE lines (PROPERTY:... / DEVIATION:...), after which validation goes on
   from the state the real code is in.  One task is alive at a time (tknew ... tkfree), segments are
   concatenated. *)
EXTENDS TpTask, Json, IOUtils

Tr == ndJsonDeserialize(IOEnv.TRACE)

VARIABLES s,     \* the task (TpTask)
          l,     \* next trace line
          op,    \* tpt_ev_* calls observed since the current phase began
          aux    \* [typ, api, en, rd]: handler type of the task, API call in progress (stop/enable/destroy), its argument, bytes the peer read
tvars == <<s, l, op, aux>>

IsEv(e) == l <= Len(Tr) /\ Tr[l].e = e /\ l' = l + 1
E == Tr[l]
NoAux == [typ |-> "sr", api |-> "", en |-> FALSE, rd |-> << >>, foff0 |-> 0]
Zeros(n) == [i \in 1..n |-> 0]
Tup(x) == [i \in 1..Len(x) |-> x[i]]

TInit == s = NewTask(0, 0, 0, 0, << >>) /\ l = 1 /\ op = << >> /\ aux = NoAux
KeepOp == UNCHANGED op
Clr == op' = << >>

TNew      == IsEv("tknew") /\ s' = NewTask(E.size, E.used, E.off, E.tr, Zeros(E.size)) /\ Clr /\ aux' = NoAux
TFill     == IsEv("tkfill") /\ s.pc = "none" /\ s' = [s EXCEPT !.mem = Tup(E.mem)] /\ KeepOp /\ UNCHANGED aux
TCreate   == IsEv("tkcreate") /\ E.rc = 0 /\ aux' = [aux EXCEPT !.typ = CASE E.h = 0 -> "sr" [] E.h = 1 -> "rw" [] E.h = 2 -> "notify" [] E.h = 3 -> "pkt" [] E.h = 4 -> "acc" [] OTHER -> "conn"]
             /\ UNCHANGED s /\ KeepOp
TCallStart == IsEv("call.start") /\ s.pc \in {"none", "idle"} /\ op = << >> /\ aux.api = ""
              /\ s' = ApiStart(s, E.direct = 1, aux.typ, (E.tflags \div 2) % 2 = 1, E.ev, E.efl, E.tmo, E.foff)
              /\ aux' = [aux EXCEPT !.foff0 = E.foff] /\ KeepOp
TRetStart == IsEv("ret.start") /\ s.pc \in {"restart", "dstart", "dead"}       \* dead: destroyed inside the callback of the direct first I/O
             /\ s' = (IF s.pc = "restart" THEN RestartEnd(s, op, E.rc)
                      ELSE IF s.pc = "dstart" THEN DStartEnd(s, op, E.rc)
                      ELSE Chk(s, op = << >> /\ E.rc = 0, "PROPERTY:ArmingOps:start-after-destroy"))
             /\ Clr /\ UNCHANGED aux
TCallRestart == IsEv("call.restart") /\ s.pc = "idle" /\ op = << >> /\ aux.api = ""
                /\ s' = [s EXCEPT !.pc = "restart"] /\ KeepOp /\ UNCHANGED aux
TRetRestart == IsEv("ret.restart") /\ s.pc = "restart" /\ s' = RestartEnd(s, op, E.rc) /\ Clr /\ UNCHANGED aux
TCallApi  == \E a \in {"stop", "enable", "destroy"} :
               /\ IsEv("call." \o a) /\ s.pc \in {"none", "idle", "cb"} /\ op = << >> /\ aux.api = ""
               /\ aux' = [aux EXCEPT !.api = a, !.en = IF a = "enable" THEN E.en = 1 ELSE FALSE]
               /\ UNCHANGED s /\ KeepOp
TRetStop  == IsEv("ret.stop") /\ aux.api = "stop" /\ s' = StopEnd(s, op) /\ Clr /\ aux' = [aux EXCEPT !.api = ""]
TRetEnable == IsEv("ret.enable") /\ aux.api = "enable" /\ s' = EnableEnd(s, aux.en, op, E.rc) /\ Clr /\ aux' = [aux EXCEPT !.api = ""]
TRetDestroy == IsEv("ret.destroy") /\ aux.api = "destroy" /\ s' = DestroyEnd(s, op) /\ Clr /\ aux' = [aux EXCEPT !.api = ""]

TPost     == IsEv("ev.post") /\ op' = Append(op, P(E.o, E.op, E.ev, E.fl)) /\ UNCHANGED <<s, aux>>
TSettime  == IsEv("sys.settime") /\ UNCHANGED <<s, aux>>
             /\ op' = Append(op, IF E.exact = 1 /\ E.abs = 0 /\ E.ims = 0 /\ E.rc = 0 THEN St(E.ms) ELSE P("st-bad", E.ms, E.ims, E.abs))
TFail     == IsEv("sys.fail") /\ UNCHANGED <<s, aux>>
             /\ op' = IF s.pc \in {"restart", "dstart"} \/ aux.api = "enable" THEN Append(op, Fail) ELSE op

TLoopCb   == IsEv("loop.cb") /\ s.pc = "idle" /\ op = << >> /\ aux.api = "" /\ UNCHANGED aux /\ KeepOp
             /\ IF E.o = "io" THEN /\ (E.eof = 1 => s.peof) /\ (E.err = 1 => s.perr)      \* the kernel reports only what the peer did
                                   /\ E.ev = s.cfg.ev
                                   /\ s' = DeliverIo(s, E.eof = 1, E.err = 1)
                ELSE E.ev = TIMER /\ s' = DeliverTmr(s)
TIo       == IsEv("sys.io") /\ UNCHANGED aux /\ Clr
             /\ LET s1 == IF s.pc = "pre" THEN PreEnd(s, op) ELSE s IN
                  /\ (s.pc # "pre" => op = << >>)
                  /\ IF s1.pc = "xferL" THEN XferLEnv(s1, [E EXCEPT !.ids = Tup(E.ids)]) /\ s' = XferL(s1, [E EXCEPT !.ids = Tup(E.ids)])
                     ELSE s1.pc = "xfer" /\ XferEnv(s1, E) /\ s' = Xfer(s1, [E EXCEPT !.ids = Tup(E.ids)])
TCbBegin  == IsEv("taskcb.begin") /\ UNCHANGED aux /\ Clr
             /\ LET s1 == IF s.pc = "pre" THEN PreEnd(s, op) ELSE s IN
                  /\ (s.pc # "pre" => op = << >>)
                  /\ s1.pc = "cbwait"
                  /\ (s1.h.direct \/ E.cur = E.t)                 \* on the task's pool thread
                  /\ s' = CbBegin(s1, [E EXCEPT !.mem = Tup(E.mem)])
TCbRead   == IsEv("cb.read") /\ s.pc = "cb" /\ Len(E.ids) <= Len(s.q) /\ Tup(E.ids) = SubSeq(s.q, 1, Len(E.ids))
             /\ s' = CbRead(s, Tup(E.ids)) /\ KeepOp /\ UNCHANGED aux
TRewind   == IsEv("cb.rewind") /\ s.pc = "cb" /\ s' = CbRewind(s) /\ KeepOp /\ UNCHANGED aux
TCbEnd    == IsEv("taskcb.end") /\ s.pc \in {"cb", "dead"} /\ op = << >> /\ aux.api = "" /\ s' = CbEnd(s, E.ret) /\ KeepOp /\ UNCHANGED aux
TLoopTurn == IsEv("loop.turn") /\ UNCHANGED aux
             /\ IF s.pc = "post" /\ aux.api = "" THEN s' = PostEnd(s, op) /\ Clr ELSE UNCHANGED <<s, op>>

TPeerW    == IsEv("peer.write") /\ KeepOp /\ UNCHANGED aux
             /\ s' = IF aux.typ = "pkt" \/ s.cfg.typ = "pkt" THEN PeerItems(s, <<Tup(E.ids)>>, Tup(E.ids)) ELSE PeerWrite(s, Tup(E.ids))
TPeerConn == IsEv("peer.conn") /\ KeepOp /\ UNCHANGED aux
             /\ s' = PeerItems(s, [i \in 1..Len(E.ids) |-> <<E.ids[i]>>], Tup(E.ids))
TConnect  == IsEv("connect") /\ E.rc = 0 /\ KeepOp /\ UNCHANGED aux                 \* skt_connect(): a closed port answers with a reset
             /\ s' = IF E.mode = 1 THEN PeerClose(s, TRUE) ELSE s
TPeerC    == IsEv("peer.close") /\ s' = PeerClose(s, E.how = "reset") /\ KeepOp /\ UNCHANGED aux
TPeerR    == IsEv("peer.read") /\ KeepOp
             /\ aux' = [aux EXCEPT !.rd = @ \o Tup(E.ids)]
             /\ s' = PeerRead(s, aux'.rd, IF aux.typ = "rw" THEN aux.foff0 ELSE 0)
TWaited   == IsEv("waited") /\ KeepOp /\ UNCHANGED aux
             /\ s' = IF E.what = 1 THEN TimeoutWaited(s, E.ok = 1) ELSE s
TQuiesce  == IsEv("quiesce") /\ UNCHANGED <<s, op, aux>>
TCount    == IsEv("tkcount") /\ E.cbs = s.ncb /\ s' = Quiet(s) /\ KeepOp /\ UNCHANGED aux
TReset    == IsEv("Reset") /\ s' = NewTask(0, 0, 0, 0, << >>) /\ Clr /\ aux' = NoAux

Report == \A n \in s'.notes \ s.notes : PrintT(ToJson([note |-> n, line |-> l]))
TNext == /\ \/ TNew \/ TFill \/ TCreate \/ TCallStart \/ TRetStart \/ TCallRestart \/ TRetRestart \/ TCallApi \/ TRetStop
            \/ TRetEnable \/ TRetDestroy \/ TPost \/ TSettime \/ TFail \/ TLoopCb \/ TIo \/ TCbBegin \/ TRewind \/ TCbRead \/ TCbEnd
            \/ TLoopTurn \/ TPeerW \/ TPeerConn \/ TConnect \/ TPeerC \/ TPeerR \/ TWaited \/ TQuiesce \/ TCount \/ TReset
         /\ Report
TSpec == TInit /\ [][TNext]_tvars

TAccepted == IF TLCGet("stats").diameter - 1 = Len(Tr) THEN TRUE
             ELSE Print(<<"REJECTED_AT_LINE", TLCGet("stats").diameter, Tr[TLCGet("stats").diameter]>>, FALSE)
(* structural invariants of the model hold along the behaviour the real code produced *)
TInvWindow == s.buf.off + s.buf.tr <= s.buf.size /\ s.buf.used <= s.buf.size
=============================================================================
