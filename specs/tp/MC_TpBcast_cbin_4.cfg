SPECIFICATION Spec
CONSTANTS
  Workers = {0, 1, 2, 3}
  Caller = 0
  Kind = "cb"
  SelfSkip = FALSE
  MaxFail = 2
  FixedRead = TRUE
INVARIANTS NoTouchAfterDeath CountNonNegative CountsAddUp SyncReturnsAfterAll DoneAtMostOnce DoneAfterAll
CHECK_DEADLOCK FALSE
