SPECIFICATION Spec
CONSTANTS
  Size = 5
  Off0 = 1
  Trs = {2}
  Payload = 3
  MaxFrag = 2
  MaxCb = 3
  MaxOps = 1
  Evs = {0,1}
  Efls = {0, 1, 2}
  Everys = {FALSE, TRUE}
  Tmos = {0, 7}
  Directs = {FALSE,TRUE}
INVARIANTS InvNoFinding InvWindow InvAccounting InvWrite InvRearm InvSilent InvQuiet
CHECK_DEADLOCK FALSE
