SPECIFICATION Spec
CONSTANTS
  Workers = {0, 1}
  Callers = {100}
  Repaired = FALSE
  QueueFull = FALSE
INVARIANTS NoUseAfterFree
CHECK_DEADLOCK FALSE
