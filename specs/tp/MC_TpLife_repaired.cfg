SPECIFICATION Spec
CONSTANTS
  Workers = {0, 1}
  Callers = {100, 101}
  Repaired = TRUE
  QueueFull = FALSE
INVARIANTS NoJoinOfClearedId AllJoinedBeforeFree NoUseAfterFree PvtStopOnce
CHECK_DEADLOCK FALSE
