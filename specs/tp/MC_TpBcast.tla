----------------------------- MODULE MC_TpBcast -----------------------------
(* Count-down / completion protocol of tpt_msg_bsend_ex(SYNC) and tpt_msg_cbsend at the granularity of
   the C statements of tpt_msg_active_thr_count_dec, tpt_msg_sync_proxy_cb, the SYNC wait loop and
   tpt_msg_cb_done_proxy_cb: lock / decrement / unlock / (read done_cb) / post completion / return.
   FixedRead = TRUE  : done_cb is sampled while the lock is held (repository after the "fix:" commit)
   FixedRead = FALSE : done_cb is read after the unlock (the original code) - TLC then finds the
                       access to the caller's dead stack record (NoTouchAfterDeath violated).
   Kind = "sync" (record on the caller's stack, caller waits) or "cb" (heap record, completion message).
   One broadcast; targets = Workers, minus the caller when SelfSkip; up to MaxFail sends fail. *)
EXTENDS Integers, Sequences, FiniteSets, TLC
CONSTANTS Workers, Caller, Kind, SelfSkip, MaxFail, FixedRead

Ext == 100
Targets == IF SelfSkip /\ Caller \in Workers THEN Workers \ {Caller} ELSE Workers
N == Cardinality(Workers)

VARIABLES q,        \* [Workers -> Seq of "proxy"/"done"] message queues
          active, alive, lock,     \* the shared record
          sent, errs,              \* counters owned by the caller's loop
          todo,                    \* targets the caller still has to send to
          cpc,                     \* caller pc
          wpc, wtm,                \* worker pc and its local copy tm
          cbRan, doneRan, donePosted, touchedDead, returnedWith
vars == <<q, active, alive, lock, sent, errs, todo, cpc, wpc, wtm, cbRan, doneRan, donePosted, touchedDead, returnedWith>>

Init == /\ q = [w \in Workers |-> << >>]
        /\ active = N - (IF SelfSkip /\ Caller \in Workers THEN 1 ELSE 0)
        /\ alive = TRUE /\ lock = 0
        /\ sent = 0 /\ errs = 0 /\ todo = Targets
        /\ cpc = "send"
        /\ wpc = [w \in Workers |-> "idle"] /\ wtm = [w \in Workers |-> -1]
        /\ cbRan = {} /\ doneRan = 0 /\ donePosted = 0 /\ touchedDead = FALSE /\ returnedWith = << >>

Touch == touchedDead' = (touchedDead \/ ~alive)
CallerBusy(w) == w = Caller /\ cpc \notin {"returned"}     \* a pool thread inside the API call does not receive

(* ---- caller ---- *)
CSend == /\ cpc = "send" /\ todo # {}
         /\ \E t \in todo :
              /\ todo' = todo \ {t}
              /\ \/ /\ q' = [q EXCEPT ![t] = Append(@, "proxy")] /\ sent' = sent + 1 /\ UNCHANGED errs
                 \/ /\ errs < MaxFail /\ errs' = errs + 1 /\ UNCHANGED <<q, sent>>
         /\ UNCHANGED <<active, alive, lock, cpc, wpc, wtm, cbRan, doneRan, donePosted, touchedDead, returnedWith>>
CSendDone == /\ cpc = "send" /\ todo = {}
             /\ cpc' = IF Kind = "sync" \/ errs > 0 THEN "declock" ELSE "returned"
             /\ returnedWith' = IF Kind = "cb" /\ errs = 0 THEN <<sent, errs>> ELSE returnedWith
             /\ UNCHANGED <<q, active, alive, lock, sent, errs, todo, wpc, wtm, cbRan, doneRan, donePosted, touchedDead>>
CDecLock == /\ cpc = "declock" /\ lock = 0 /\ lock' = Ext /\ cpc' = "decapply"
            /\ UNCHANGED <<q, active, alive, sent, errs, todo, wpc, wtm, cbRan, doneRan, donePosted, touchedDead, returnedWith>>
CDecApply == /\ cpc = "decapply" /\ active' = active - errs /\ lock' = 0 /\ Touch
             /\ cpc' = IF Kind = "sync" THEN "wait" ELSE (IF active - errs = 0 THEN "cpost" ELSE "returned")
             /\ returnedWith' = IF Kind = "cb" /\ active - errs # 0 THEN <<sent, errs>> ELSE returnedWith
             /\ UNCHANGED <<q, alive, sent, errs, todo, wpc, wtm, cbRan, doneRan, donePosted>>
CPost == /\ cpc = "cpost"                                   \* cbsend, every remaining send failed: caller posts completion
         /\ donePosted' = donePosted + 1
         /\ IF Caller \in Workers THEN q' = [q EXCEPT ![Caller] = Append(@, "done")] ELSE UNCHANGED q
         /\ cpc' = "returned" /\ returnedWith' = <<sent, errs>>
         /\ UNCHANGED <<active, alive, lock, sent, errs, todo, wpc, wtm, cbRan, doneRan, touchedDead>>
CWait == /\ cpc = "wait" /\ lock = 0 /\ Touch               \* lock; tm = active; unlock  (one step: nothing in between)
         /\ cpc' = IF active = 0 THEN "leave" ELSE "wait"
         /\ UNCHANGED <<q, active, alive, lock, sent, errs, todo, wpc, wtm, cbRan, doneRan, donePosted, returnedWith>>
CLeave == /\ cpc = "leave" /\ alive' = FALSE /\ cpc' = "returned"   \* MTX_DESTROY, return: the stack record is gone
          /\ returnedWith' = <<sent, errs>>
          /\ UNCHANGED <<q, active, lock, sent, errs, todo, wpc, wtm, cbRan, doneRan, donePosted, touchedDead>>

(* ---- workers ---- *)
WTake(w) == /\ wpc[w] = "idle" /\ q[w] # << >> /\ ~CallerBusy(w)
            /\ wpc' = [wpc EXCEPT ![w] = IF Head(q[w]) = "proxy" THEN "cb" ELSE "donecb"]
            /\ q' = [q EXCEPT ![w] = Tail(@)]
            /\ UNCHANGED <<active, alive, lock, sent, errs, todo, cpc, wtm, cbRan, doneRan, donePosted, touchedDead, returnedWith>>
WCb(w) == /\ wpc[w] = "cb" /\ cbRan' = cbRan \cup {w} /\ Touch          \* msg_data->msg_cb(tpt, msg_data->udata)
          /\ wpc' = [wpc EXCEPT ![w] = "lock"]
          /\ UNCHANGED <<q, active, alive, lock, sent, errs, todo, cpc, wtm, doneRan, donePosted, returnedWith>>
WLock(w) == /\ wpc[w] = "lock" /\ lock = 0 /\ lock' = w + 1 /\ Touch
            /\ wpc' = [wpc EXCEPT ![w] = "dec"]
            /\ UNCHANGED <<q, active, alive, sent, errs, todo, cpc, wtm, cbRan, doneRan, donePosted, returnedWith>>
WDec(w) == /\ wpc[w] = "dec" /\ active' = active - 1 /\ wtm' = [wtm EXCEPT ![w] = active - 1] /\ Touch
           /\ wpc' = [wpc EXCEPT ![w] = "unlock"]
           /\ UNCHANGED <<q, alive, lock, sent, errs, todo, cpc, cbRan, doneRan, donePosted, returnedWith>>
WUnlock(w) == /\ wpc[w] = "unlock" /\ lock' = 0
              /\ wpc' = [wpc EXCEPT ![w] = IF FixedRead THEN (IF wtm[w] = 0 /\ Kind = "cb" THEN "post" ELSE "idle")
                                                       ELSE (IF wtm[w] # 0 THEN "idle" ELSE "readdone")]
              /\ UNCHANGED <<q, active, alive, sent, errs, todo, cpc, wtm, cbRan, doneRan, donePosted, touchedDead, returnedWith>>
WReadDone(w) == /\ wpc[w] = "readdone" /\ Touch                          \* NULL == msg_data->done_cb, after the unlock
                /\ wpc' = [wpc EXCEPT ![w] = IF Kind = "cb" THEN "post" ELSE "idle"]
                /\ UNCHANGED <<q, active, alive, lock, sent, errs, todo, cpc, wtm, cbRan, doneRan, donePosted, returnedWith>>
WPost(w) == /\ wpc[w] = "post" /\ donePosted' = donePosted + 1 /\ Touch
            /\ IF Caller \in Workers THEN q' = [q EXCEPT ![Caller] = Append(@, "done")] ELSE UNCHANGED q
            /\ wpc' = [wpc EXCEPT ![w] = "idle"]
            /\ UNCHANGED <<active, alive, lock, sent, errs, todo, cpc, wtm, cbRan, doneRan, touchedDead, returnedWith>>
WDoneCb(w) == /\ wpc[w] = "donecb" /\ Touch /\ doneRan' = doneRan + 1 /\ alive' = FALSE    \* done_cb(...); free(msg_data)
              /\ wpc' = [wpc EXCEPT ![w] = "idle"]
              /\ UNCHANGED <<q, active, lock, sent, errs, todo, cpc, wtm, cbRan, donePosted, returnedWith>>

Next == \/ CSend \/ CSendDone \/ CDecLock \/ CDecApply \/ CPost \/ CWait \/ CLeave
        \/ \E w \in Workers : WTake(w) \/ WCb(w) \/ WLock(w) \/ WDec(w) \/ WUnlock(w) \/ WReadDone(w) \/ WPost(w) \/ WDoneCb(w)
Spec == Init /\ [][Next]_vars
FairSpec == Spec /\ WF_vars(Next)

(* ---- property C10 on the model ---- *)
NoTouchAfterDeath == ~touchedDead
CountNonNegative  == active >= 0
CountsAddUp       == returnedWith # << >> => returnedWith[1] + returnedWith[2] = Cardinality(Targets)
SyncReturnsAfterAll == Kind = "sync" /\ cpc = "returned" =>
                          /\ Cardinality(cbRan) = sent
                          /\ \A w \in Workers : wpc[w] \in {"idle"} \/ (~FixedRead /\ wpc[w] = "readdone")
DoneAtMostOnce    == doneRan <= 1 /\ donePosted <= 1
DoneAfterAll      == doneRan = 1 => Cardinality(cbRan) = sent /\ \A w \in Workers : wpc[w] = "idle"
DoneOnOrigin      == TRUE      \* the completion message is appended to q[Caller] only (by construction of WPost/CPost)
Terminates        == <>(cpc = "returned" /\ (Kind = "cb" /\ Caller \in Workers => doneRan = 1))
=============================================================================
