------------------------------ MODULE GenTimer ------------------------------
(* Timer programming of tpt_ev_post (TP_EV_TIMER): which itimerspec must reach timerfd_settime for a value
   given in seconds / milliseconds / microseconds / nanoseconds, relative or absolute, one-shot or periodic.
   The 64-bit data value is a little-endian sequence of base-1000 digits (TLC integers are 32-bit), so the
   unit conversion is digit shifting; everything below stays < 10^9.
   The reachable states ARE the test table; each state is emitted with its expectation. *)
EXTENDS Integers, Sequences, TLC, Json
CONSTANT Seed

Values == {  <<0>>, <<1>>, <<999>>, <<0, 1>>, <<500, 1>>, <<999, 999>>, <<0, 0, 1>>, <<0, 500, 1>>, <<1, 0, 1>>,
             <<999, 999, 999>>, <<0, 0, 0, 1>>, <<1, 0, 0, 1>>, <<295, 967, 294, 4>>, <<296, 967, 294, 4>>,
             <<297, 967, 294, 4>>, <<123, 456, 789, 12, 345>>, <<807, 775, 854, 36, 372, 223, 9>>,
             <<615, 551, 709, 73, 744, 446, 18>>, <<999, 999, 999, 999, 999, 999, 17>> }
RandVals == { [i \in 1..(1 + ((Seed + k) % 6)) |-> ((Seed * 7919 + k * 104729 + i * 611953) % 1000)] : k \in 1..24 }
Units == 0..3           \* TP_FF_T_SEC, _MSEC, _USEC, _NSEC
Modes == {"persist", "oneshot", "dispatch"}

VARIABLES c, fresh
Init == c = [unit |-> 0, d |-> <<0>>, abs |-> FALSE, mode |-> "persist"] /\ fresh = TRUE
Next == /\ fresh /\ fresh' = FALSE
        /\ \E u \in Units, v \in Values \cup RandVals, a \in BOOLEAN, m \in Modes :
              c' = [unit |-> u, d |-> v, abs |-> a, mode |-> m]
Spec == Init /\ [][Next]_<<c, fresh>>

D(d, i) == IF i <= Len(d) THEN d[i] ELSE 0
RECURSIVE Strip(_)
Strip(s) == IF Len(s) > 1 /\ s[Len(s)] = 0 THEN Strip(SubSeq(s, 1, Len(s) - 1)) ELSE s
Shift(d, k) == IF Len(d) <= k THEN <<0>> ELSE Strip(SubSeq(d, k + 1, Len(d)))
Sec(unit, d)  == Shift(d, unit)
Nsec(unit, d) == CASE unit = 0 -> 0
                   [] unit = 1 -> D(d, 1) * 1000000
                   [] unit = 2 -> (D(d, 2) * 1000 + D(d, 1)) * 1000
                   [] unit = 3 -> D(d, 3) * 1000000 + D(d, 2) * 1000 + D(d, 1)
IsZero(d) == \A i \in 1..Len(d) : d[i] = 0
(* classes: "exact" = must be accepted and programmed exactly; "may-refuse" = seconds beyond time_t, the
   kernel may say EINVAL, if accepted it must be exact; "unspecified" = data 0 (disarms) or periodic+absolute *)
Class(x) == IF IsZero(x.d) \/ (x.abs /\ x.mode = "persist") THEN "unspecified"
            ELSE IF Len(Sec(x.unit, x.d)) = 7 /\ Sec(x.unit, x.d)[7] >= 9 THEN "may-refuse" ELSE "exact"
Expect(x) == [sec |-> Sec(x.unit, x.d), nsec |-> Nsec(x.unit, x.d),
              isec |-> IF x.mode = "persist" THEN Sec(x.unit, x.d) ELSE <<0>>,
              insec |-> IF x.mode = "persist" THEN Nsec(x.unit, x.d) ELSE 0,
              abs |-> x.abs, class |-> Class(x)]
(* algebra of the reference: the sub-second part is < 1 s and (sec, nsec) recompose to the data digits *)
NsecInRange == Nsec(c.unit, c.d) < 1000000000
Low(unit, d) == [i \in 1..unit |-> D(d, i)]
Recompose == LET n == Nsec(c.unit, c.d)
                 lowFromNsec == CASE c.unit = 0 -> << >>
                                  [] c.unit = 1 -> << n \div 1000000 >>
                                  [] c.unit = 2 -> << (n \div 1000) % 1000, n \div 1000000 >>
                                  [] c.unit = 3 -> << n % 1000, (n \div 1000) % 1000, n \div 1000000 >>
             IN  /\ \A i \in 1..c.unit : lowFromNsec[i] = D(c.d, i)
                 /\ Strip(c.d) = Strip(Low(c.unit, c.d) \o Sec(c.unit, c.d)) \/ Len(c.d) <= c.unit
Emit == PrintT(ToJson([in |-> c, expect |-> Expect(c)]))
=============================================================================
