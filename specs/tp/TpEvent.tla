------------------------------- MODULE TpEvent -------------------------------
(* Event and timer registrations of the liblcb thread pool on the epoll back end:
   tpt_ev_validate, tpt_ev_post and the delivery part of tpt_loop (src/threadpool/threadpool.c).

   ereg[u] is the library-side registration of user object u (its tp_udata_t.tpdata):
     present   a registration exists (tpdata # 0 for read/write; timer/pid descriptor open)
     ev, fl    event kind (0 read, 1 write, 2 timer, 3 proc) and set-flags (1 ONESHOT, 2 DISPATCH)
     dis       TPDATA_F_DISABLED
     owner     the pool thread it was added to
     inflight  the loop of the owner passed the disabled-gate for one kernel report and is about to
               call the callback
   Property C06 is stated by the guards marked (C06) and the invariants at the end. *)
EXTENDS Integers, Sequences, FiniteSets, TLC

ONESHOT == 1   DISPATCH == 2
OP_ADD == 0  OP_DEL == 1  OP_ENABLE == 2  OP_DISABLE == 3

VARIABLES ereg,     \* u -> record, see above
          busy,     \* u -> thread currently inside an add/enable/disable/delete call on u (-1 = none)
          fired     \* ghost: u -> number of callbacks since the last add/enable/disable
eVars == <<ereg, busy, fired>>

EvNoReg == [present |-> FALSE, ev |-> 0, fl |-> 0, dis |-> FALSE, owner |-> -1, inflight |-> FALSE, armedBy |-> "none", early |-> 0, pdis |-> FALSE]

(* tpt_ev_validate: the registrations that must be refused *)
EvMalformed(ev, fl, ff) ==
    \/ ev \notin 0..3
    \/ fl \notin 0..15                                                        \* unknown flag bits
    \/ ((fl % 2 = 1) /\ ((fl \div 2) % 2 = 1))                                 \* ONESHOT together with DISPATCH
    \/ (ev \in {0, 1} /\ ff \notin 0..1)
    \/ (ev = 2 /\ ff \notin 0..7)
    \/ (ev = 3 /\ ff \notin 0..1)

(* call.ev: a thread enters tpt_ev_add / _enable / _del on object u *)
EvEnter(u, t) == /\ busy' = [busy EXCEPT ![u] = t] /\ ereg' = [ereg EXCEPT ![u].early = 0] /\ UNCHANGED fired

(* ret.ev: the call returns rc; `tpd` = registration still recorded in the object afterwards *)
EvPost(u, t, op, ev, fl, ff, thr, rc, tpd) ==
    /\ busy[u] = t
    /\ busy' = [busy EXCEPT ![u] = -1]
    /\ IF EvMalformed(ev, fl, ff)
       THEN rc # 0 /\ UNCHANGED <<ereg, fired>>                                \* (C06) refused, nothing installed
       ELSE IF rc # 0
       THEN /\ ereg' = [ereg EXCEPT ![u] = [EvNoReg EXCEPT !.owner = ereg[u].owner, !.inflight = ereg[u].inflight]]  \* a failed kernel call drops the registration
            /\ UNCHANGED fired
       ELSE CASE op = OP_ADD \/ op = OP_ENABLE ->
                   \* the kernel is armed before the call returns: callbacks seen meanwhile (`early`) already count
                   /\ ereg' = [ereg EXCEPT ![u] = [present |-> ~(@.early > 0 /\ fl % 2 = 1), ev |-> ev, fl |-> fl,
                                                   dis |-> (@.early > 0 /\ (fl \div 2) % 2 = 1),
                                                   owner |-> IF op = OP_ADD THEN thr ELSE @.owner,
                                                   inflight |-> @.inflight, armedBy |-> "post", early |-> 0,
                                                   pdis |-> IF t = @.owner THEN FALSE ELSE @.dis]]
                   /\ fired' = [fired EXCEPT ![u] = 0]
              [] op = OP_DISABLE ->
                   /\ ereg[u].present
                   /\ ereg' = [ereg EXCEPT ![u].dis = TRUE, ![u].pdis = IF t = ereg[u].owner THEN TRUE ELSE ereg[u].dis,
                                           ![u].fl = IF ereg[u].ev \in {0, 1} THEN fl ELSE @,
                                           ![u].inflight = IF t = ereg[u].owner THEN FALSE ELSE @]
                   /\ fired' = [fired EXCEPT ![u] = 0]         \* the flags are re-recorded: counting restarts
              [] op = OP_DEL ->
                   /\ ereg' = [ereg EXCEPT ![u] = [EvNoReg EXCEPT !.inflight = IF t = ereg[u].owner THEN FALSE ELSE ereg[u].inflight,
                                                                !.owner = ereg[u].owner,
                                                                !.armedBy = IF t = ereg[u].owner THEN "none" ELSE "foreign-del"]]
                   /\ UNCHANGED fired
              [] OTHER -> FALSE

(* registrations added to the pool's VIRTUAL thread live in a queue that every worker polls: whichever worker finds it
   ready runs the callback *)
VirtualOwner == 50
OwnerOk(t, u) == IF ereg[u].owner = VirtualOwner THEN TRUE ELSE t = ereg[u].owner

(* loop.gate: the owner's loop received a kernel report for u and tests TPDATA_F_DISABLED.
   `dis`/`set` are what the loop read; they may be stale only while another thread is inside a call on u *)
EvGate(t, u, dis, set) ==
    \* the loop reads tpdata without synchronisation: it may still see the value from before the latest call of
    \* ANOTHER thread (pdis) - the hook logs after the read; (`set` is informational: tpdata of a persistent read
    \* registration is all zero)
    /\ (busy[u] \in {-1, t} => dis \in {ereg[u].dis, ereg[u].pdis})
    /\ ereg' = [ereg EXCEPT ![u].inflight = ~dis, ![u].pdis = ereg[u].dis]
    /\ UNCHANGED <<busy, fired>>

(* loop.cb: the callback is invoked on thread t with event kind ev and result flags *)
EvDeliverEarly(t, u, ev) ==        \* while another thread is still inside add/enable on u
    /\ busy[u] \notin {-1, t} /\ ereg[u].inflight
    /\ ereg' = [ereg EXCEPT ![u].inflight = FALSE, ![u].early = @ + 1]
    /\ UNCHANGED <<busy, fired>>
EvDeliver(t, u, ev) ==
    /\ busy[u] \in {-1, t}
    /\ ereg[u].inflight                                           \* (C06) only past the gate: a disabled event never fires
    /\ ereg[u].present \/ ereg[u].armedBy = "foreign-del"          \* (C06) a deleted / consumed one-shot event is gone; only a
                                                                  \*        report already dequeued when ANOTHER thread deleted may still arrive
    /\ ereg[u].present => OwnerOk(t, u) /\ ev = ereg[u].ev        \* (C06) on the owning thread, as registered
    /\ ereg' = [ereg EXCEPT ![u].inflight = FALSE, ![u].armedBy = IF @ = "foreign-del" THEN "none" ELSE @,
                            ![u].dis = IF @ \/ (ereg[u].present /\ (ereg[u].fl \div 2) % 2 = 1) THEN TRUE ELSE FALSE,  \* DISPATCH
                            ![u].present = IF ereg[u].present /\ ereg[u].fl % 2 = 1 THEN FALSE ELSE @]                \* ONESHOT
    /\ fired' = [fired EXCEPT ![u] = @ + 1]
    /\ UNCHANGED busy

(* invariants *)
OneShotAtMostOnce == \A u \in DOMAIN ereg : ereg[u].present /\ ereg[u].fl % 2 = 1 => fired[u] = 0
DispatchOnce == \A u \in DOMAIN ereg : ereg[u].present /\ (ereg[u].fl \div 2) % 2 = 1 /\ ~ereg[u].dis => fired[u] = 0
C06Inv == OneShotAtMostOnce /\ DispatchOnce
=============================================================================
