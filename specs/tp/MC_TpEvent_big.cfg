SPECIFICATION Spec
CONSTANTS
  Owner = 0
  Foreign = 100
  MaxOps = 7
  Flags = {0, 1, 2}
INVARIANTS C06Inv NoDeliverWhenDisabled
PROPERTY SilentAfterOwnerDisable
CONSTRAINT Bounded
CHECK_DEADLOCK FALSE
