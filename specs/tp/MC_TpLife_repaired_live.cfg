SPECIFICATION FairSpec
CONSTANTS
  Workers = {0, 1}
  Callers = {100, 101}
  Repaired = TRUE
  QueueFull = FALSE
PROPERTY Terminates
CHECK_DEADLOCK FALSE
