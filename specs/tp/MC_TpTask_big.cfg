SPECIFICATION Spec
CONSTANTS
  Size = 6
  Off0 = 1
  Trs = {2, 3, 4}
  Payload = 4
  MaxFrag = 3
  MaxCb = 4
  MaxOps = 2
  Evs = {0, 1}
  Efls = {0, 1, 2}
  Everys = {FALSE, TRUE}
  Tmos = {0, 7}
  Directs = {FALSE, TRUE}
INVARIANTS InvNoFinding InvWindow InvAccounting InvWrite InvRearm InvSilent InvQuiet
CHECK_DEADLOCK FALSE
