SPECIFICATION TSpec
INVARIANTS TInvWindow
POSTCONDITION TAccepted
CHECK_DEADLOCK FALSE
