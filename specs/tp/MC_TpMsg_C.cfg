SPECIFICATION Spec
CONSTANTS
  Workers = {0, 1}
  PVT = 2
  Cap = 1
  BatchMax = 2
  Senders = {100, 101, 0}
  Plan <- PlanC
  MaxInj = 1
  MaxStop = 1
INVARIANTS C05Safety NoLossAtQuiescence
CHECK_DEADLOCK FALSE
