------------------------------ MODULE MC_TpLife ------------------------------
(* Teardown protocol of the pool at C-statement granularity: tp_shutdown (check / set / stop hook of the
   virtual thread / one shutdown message per running worker), the tail of tp_thread_proc (stop hook,
   clear pt_id, state = STOP, threads_cnt--), tp_shutdown_wait (read state, read pt_id, join) and
   tp_destroy (free).  Up to two threads call tp_shutdown concurrently; one of them goes on to
   tp_shutdown_wait + tp_destroy.
     Repaired = FALSE : the unchanged code.  TLC finds the known findings (join of a cleared id, threads
                        never joined, pool freed under a running thread, stop hook of the virtual thread
                        twice) - these configurations are kept as sensitivity checks.
     Repaired = TRUE  : the repair sketched in DESIGN.md (join every created thread by its id, which only
                        the joiner clears; check-and-set of tp->shutdown atomic): all invariants hold. *)
EXTENDS Integers, FiniteSets, TLC
CONSTANTS Workers, Callers, Repaired, QueueFull

VARIABLES wpc,      \* worker: "loop" | "onstop" | "ptid0" | "stop" | "cnt" | "exited"
          wstate,   \* tpt->state as others read it: "RUNNING" | "STOPING" | "STOP"
          ptid,     \* tpt->pt_id # 0
          msg,      \* shutdown message queued for the worker
          shut,     \* tp->shutdown
          cpc,      \* caller pc
          ci,       \* caller loop index (next worker)
          cseen,    \* what the waiter read for the current worker
          freed, joined, pvtStops, bad
vars == <<wpc, wstate, ptid, msg, shut, cpc, ci, cseen, freed, joined, pvtStops, bad>>
W == Cardinality(Workers)
Waiter == CHOOSE c \in Callers : TRUE

Init == /\ wpc = [w \in Workers |-> "loop"] /\ wstate = [w \in Workers |-> "RUNNING"]
        /\ ptid = [w \in Workers |-> TRUE] /\ msg = [w \in Workers |-> FALSE]
        /\ shut = 0 /\ cpc = [c \in Callers |-> "check"] /\ ci = [c \in Callers |-> 0]
        /\ cseen = "none" /\ freed = FALSE /\ joined = {} /\ pvtStops = 0 /\ bad = {}

Mark(x) == bad' = bad \cup {x}
UseAfterFree == IF freed THEN Mark("worker-ran-after-free") ELSE UNCHANGED bad

(* ---- worker ---- *)
WGetMsg(w) == /\ wpc[w] = "loop" /\ msg[w] /\ msg' = [msg EXCEPT ![w] = FALSE]
              /\ wstate' = [wstate EXCEPT ![w] = "STOPING"] /\ wpc' = [wpc EXCEPT ![w] = "onstop"]
              /\ UseAfterFree /\ UNCHANGED <<ptid, shut, cpc, ci, cseen, freed, joined, pvtStops>>
WOnStop(w) == /\ wpc[w] = "onstop" /\ wpc' = [wpc EXCEPT ![w] = "ptid0"] /\ UseAfterFree
              /\ UNCHANGED <<wstate, ptid, msg, shut, cpc, ci, cseen, freed, joined, pvtStops>>
WPtid0(w) == /\ wpc[w] = "ptid0" /\ wpc' = [wpc EXCEPT ![w] = "stop"] /\ UseAfterFree
             /\ ptid' = IF Repaired THEN ptid ELSE [ptid EXCEPT ![w] = FALSE]     \* memset(&tpt->pt_id, 0, ...)
             /\ UNCHANGED <<wstate, msg, shut, cpc, ci, cseen, freed, joined, pvtStops>>
WStop(w) == /\ wpc[w] = "stop" /\ wpc' = [wpc EXCEPT ![w] = "cnt"] /\ UseAfterFree
            /\ wstate' = [wstate EXCEPT ![w] = "STOP"]
            /\ UNCHANGED <<ptid, msg, shut, cpc, ci, cseen, freed, joined, pvtStops>>
WCnt(w) == /\ wpc[w] = "cnt" /\ wpc' = [wpc EXCEPT ![w] = "exited"] /\ UseAfterFree      \* tpt->tp->threads_cnt --
           /\ UNCHANGED <<wstate, ptid, msg, shut, cpc, ci, cseen, freed, joined, pvtStops>>

(* ---- tp_shutdown ---- *)
CCheck(c) == /\ cpc[c] = "check"
             /\ IF Repaired
                THEN IF shut # 0 THEN cpc' = [cpc EXCEPT ![c] = "aftershut"] /\ UNCHANGED shut
                     ELSE shut' = 1 /\ cpc' = [cpc EXCEPT ![c] = "pvtstop"]           \* atomic check-and-set
                ELSE cpc' = [cpc EXCEPT ![c] = IF shut # 0 THEN "aftershut" ELSE "set"] /\ UNCHANGED shut
             /\ UNCHANGED <<wpc, wstate, ptid, msg, ci, cseen, freed, joined, pvtStops, bad>>
CSet(c) == /\ cpc[c] = "set" /\ shut' = shut + 1 /\ cpc' = [cpc EXCEPT ![c] = "pvtstop"]
           /\ UNCHANGED <<wpc, wstate, ptid, msg, ci, cseen, freed, joined, pvtStops, bad>>
CPvtStop(c) == /\ cpc[c] = "pvtstop" /\ pvtStops' = pvtStops + 1 /\ cpc' = [cpc EXCEPT ![c] = "send"]
               /\ ci' = [ci EXCEPT ![c] = 0]
               /\ UNCHANGED <<wpc, wstate, ptid, msg, shut, cseen, freed, joined, bad>>
CSend(c) == /\ cpc[c] = "send"
            /\ IF ci[c] = W THEN cpc' = [cpc EXCEPT ![c] = "aftershut"] /\ UNCHANGED <<msg, ci>>
               ELSE /\ ci' = [ci EXCEPT ![c] = @ + 1] /\ UNCHANGED cpc
                    /\ msg' = IF wstate[ci[c]] = "RUNNING" /\ ~(QueueFull /\ ci[c] = 0)
                              THEN [msg EXCEPT ![ci[c]] = TRUE] ELSE msg      \* a full queue loses the message
            /\ UNCHANGED <<wpc, wstate, ptid, shut, cseen, freed, joined, pvtStops, bad>>
(* ---- tp_shutdown_wait + tp_destroy, by the waiter only ---- *)
CAfter(c) == /\ cpc[c] = "aftershut"
             /\ cpc' = [cpc EXCEPT ![c] = IF c = Waiter THEN "wstate" ELSE "done"] /\ ci' = [ci EXCEPT ![c] = 0]
             /\ UNCHANGED <<wpc, wstate, ptid, msg, shut, cseen, freed, joined, pvtStops, bad>>
CWState(c) == /\ cpc[c] = "wstate"
              /\ IF ci[c] = W THEN cpc' = [cpc EXCEPT ![c] = "free"] /\ UNCHANGED <<ci, cseen>>
                 ELSE IF Repaired
                      THEN cpc' = [cpc EXCEPT ![c] = "join"] /\ UNCHANGED <<ci, cseen>>       \* join every created thread
                      ELSE IF wstate[ci[c]] = "STOP"
                           THEN ci' = [ci EXCEPT ![c] = @ + 1] /\ UNCHANGED <<cpc, cseen>>       \* "already stopped": no join
                           ELSE cpc' = [cpc EXCEPT ![c] = "join"] /\ UNCHANGED <<ci, cseen>>
              /\ UNCHANGED <<wpc, wstate, ptid, msg, shut, freed, joined, pvtStops, bad>>
CJoin(c) == /\ cpc[c] = "join"
            /\ IF ~ptid[ci[c]]
               THEN /\ Mark("join-of-cleared-thread-id") /\ UNCHANGED joined                 \* pthread_join(0)
                    /\ ci' = [ci EXCEPT ![c] = @ + 1] /\ cpc' = [cpc EXCEPT ![c] = "wstate"]
               ELSE /\ wpc[ci[c]] = "exited"                                                  \* blocks until the thread ends
                    /\ joined' = joined \cup {ci[c]} /\ UNCHANGED bad
                    /\ ci' = [ci EXCEPT ![c] = @ + 1] /\ cpc' = [cpc EXCEPT ![c] = "wstate"]
            /\ UNCHANGED <<wpc, wstate, ptid, msg, shut, cseen, freed, pvtStops>>
CFree(c) == /\ cpc[c] = "free" /\ freed' = TRUE /\ cpc' = [cpc EXCEPT ![c] = "done"]
            /\ bad' = IF joined # Workers THEN bad \cup {"freed-with-unjoined-threads"} ELSE bad
            /\ UNCHANGED <<wpc, wstate, ptid, msg, shut, ci, cseen, joined, pvtStops>>

Next == \/ \E w \in Workers : WGetMsg(w) \/ WOnStop(w) \/ WPtid0(w) \/ WStop(w) \/ WCnt(w)
        \/ \E c \in Callers : CCheck(c) \/ CSet(c) \/ CPvtStop(c) \/ CSend(c) \/ CAfter(c) \/ CWState(c) \/ CJoin(c) \/ CFree(c)
Spec == Init /\ [][Next]_vars
FairSpec == Spec /\ WF_vars(Next)

NoJoinOfClearedId == "join-of-cleared-thread-id" \notin bad
AllJoinedBeforeFree == "freed-with-unjoined-threads" \notin bad
NoUseAfterFree == "worker-ran-after-free" \notin bad
PvtStopOnce == pvtStops <= 1
Terminates == <>(\A c \in Callers : cpc[c] = "done")
=============================================================================
