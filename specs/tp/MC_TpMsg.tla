------------------------------ MODULE MC_TpMsg ------------------------------
(* Exhaustive exploration of TpMsg for a small plan of sends: every interleaving of senders
   (external threads and workers), receivers, queue-full conditions, injected write failures and a
   thread that stops.  Plan[s] is the sequence of [d, f] that sender s issues in program order. *)
EXTENDS TpMsg
CONSTANTS Senders, Plan, MaxInj, MaxStop

VARIABLES nextIdx,   \* [Senders -> index of the next planned send]
          cur,       \* [Senders -> instance in progress, 0 = none]
          nextInst, injected, stopped
vars == <<msgVars, nextIdx, cur, nextInst, injected, stopped>>

Init == /\ InitMsg("RUNNING")
        /\ nextIdx = [s \in Senders |-> 1]
        /\ cur = [s \in Senders |-> 0]
        /\ nextInst = 1 /\ injected = 0 /\ stopped = 0

Aux == UNCHANGED <<nextIdx, nextInst, injected, stopped>>

Start(s) == /\ cur[s] = 0 /\ nextIdx[s] <= Len(Plan[s])
            /\ LET e == Plan[s][nextIdx[s]] IN Enter(nextInst, s, e.d, e.f, "user", nextInst, -1)
            /\ cur' = [cur EXCEPT ![s] = nextInst]
            /\ nextIdx' = [nextIdx EXCEPT ![s] = @ + 1]
            /\ nextInst' = nextInst + 1
            /\ UNCHANGED <<injected, stopped>>
Step(s) == /\ cur[s] # 0
           /\ LET i == cur[s] IN
              \/ Direct(i, 1) /\ UNCHANGED cur /\ Aux
              \/ Direct(i, 2) /\ UNCHANGED cur /\ Aux
              \/ Direct(i, 3) /\ UNCHANGED cur /\ Aux
              \/ ReadState(i, tstate[inst[i].d] \in RunningStates) /\ UNCHANGED cur /\ Aux
              \/ WriteOk(i, "user") /\ UNCHANGED cur /\ Aux
              \/ /\ St(i) = "running" /\ Len(pipe[inst[i].d]) = Cap      \* kernel: full
                 /\ WriteFail(i, EAGAIN, FALSE) /\ UNCHANGED cur /\ Aux
              \/ /\ St(i) = "running" /\ ~wopen[inst[i].d]
                 /\ WriteFail(i, EPIPE, FALSE) /\ UNCHANGED cur /\ Aux
              \/ /\ injected < MaxInj /\ WriteFail(i, EAGAIN, TRUE)
                 /\ injected' = injected + 1 /\ UNCHANGED <<cur, nextIdx, nextInst, stopped>>
              \/ /\ Return(i, RcOf(i)) /\ RcOf(i) # 999999
                 /\ cur' = [cur EXCEPT ![s] = 0] /\ Aux
(* a worker that is sending (inside a callback) does not receive *)
Idle(t) == IF t \in Senders THEN cur[t] = 0 ELSE TRUE
Recv(t) == /\ Idle(t) /\ tstate[t] = "RUNNING"
           /\ \/ \E q \in {t, PVT} : \E n \in 1..BatchMax : Read(t, q, n)
              \/ Run(t)
           /\ UNCHANGED <<nextIdx, cur, nextInst, injected, stopped>>
(* environment: a thread leaves the RUNNING state (teardown); its pipe is closed later *)
Stop(t) == /\ stopped < MaxStop /\ tstate[t] = "RUNNING" /\ Idle(t) /\ batch[t] = << >>
           /\ tstate' = [tstate EXCEPT ![t] = "STOP"] /\ stopped' = stopped + 1
           /\ UNCHANGED <<wopen, inst, pipe, batch, ran, ret, nextIdx, cur, nextInst, injected>>
Close(t) == /\ tstate[t] = "STOP" /\ wopen[t]
            /\ wopen' = [wopen EXCEPT ![t] = FALSE]
            /\ UNCHANGED <<tstate, inst, pipe, batch, ran, ret, nextIdx, cur, nextInst, injected, stopped>>

Next == \/ \E s \in Senders : Start(s) \/ Step(s)
        \/ \E t \in Workers : Recv(t) \/ Stop(t) \/ Close(t)
Spec == Init /\ [][Next]_vars
FairSpec == Spec /\ \A t \in Workers : WF_vars(Recv(t)) /\ \A s \in Senders : WF_vars(Start(s) \/ Step(s))

AllSent == \A s \in Senders : cur[s] = 0 /\ nextIdx[s] > Len(Plan[s])
(* liveness: with no thread stopping, every accepted message eventually runs *)
EventuallyRuns == <>[](AllSent => \A i \in DOMAIN ret : ret[i] = 0 => RanOf(i) # {})
(* plans used by the configurations: 100,101 external threads, 0 a worker sending from a callback *)
PlanA == [s \in {100, 101, 0} |->
            IF s = 100 THEN <<[d |-> 1, f |-> 0], [d |-> 1, f |-> FAIL_DIRECT]>>
            ELSE IF s = 101 THEN <<[d |-> 1, f |-> FORCE]>>
            ELSE <<[d |-> 0, f |-> SELF_DIRECT]>>]
PlanB == [s \in {100, 0} |->
            IF s = 100 THEN <<[d |-> 2, f |-> 0], [d |-> 2, f |-> 0], [d |-> 0, f |-> FORCE + FAIL_DIRECT]>>
            ELSE <<[d |-> 1, f |-> SELF_DIRECT]>>]
PlanC == [s \in {100, 101, 0} |->
            IF s = 100 THEN <<[d |-> 1, f |-> 0], [d |-> 1, f |-> FAIL_DIRECT], [d |-> 2, f |-> 0]>>
            ELSE IF s = 101 THEN <<[d |-> 1, f |-> FORCE], [d |-> 2, f |-> 0]>>
            ELSE <<[d |-> 0, f |-> SELF_DIRECT]>>]
Quiescent == AllSent /\ Drained
NoLossAtQuiescence == Quiescent /\ stopped = 0 => \A i \in DOMAIN ret : ret[i] = 0 => Cardinality(RanOf(i)) = 1
=============================================================================
