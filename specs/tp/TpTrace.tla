------------------------------- MODULE TpTrace -------------------------------
(* Trace validation: an execution of the real thread pool (harness/tp_drv.c, hooks + link-time
   wrappers) is a behaviour of the specification.  One trace action per logged event:
       IsEv(name) /\ <logged fields bound> /\ SpecAction(args)
   Every event is logged, so the search is linear; all invariants of the specification are evaluated
   in every state of the trace-induced behaviour.  Executions are concatenated with Reset events. *)
EXTENDS TpBcast, Json, IOUtils

Tr == ndJsonDeserialize(IOEnv.TRACE)

Procs == Workers \cup (100..140)
VARIABLES l,         \* next trace line to consume
          lastRan,   \* [Procs -> index into ran of the latest callback entered on that thread, 0 = none]
          ucb        \* user messages whose harness callback has been observed
tvars == <<msgVars, bVars, l, lastRan, ucb>>

IsEv(e) == l <= Len(Tr) /\ Tr[l].e = e /\ l' = l + 1
E == Tr[l]

BInit0 == /\ rec = << >> /\ inProxy = [p \in Procs |-> 0]
          /\ pend = [p \in Procs |-> NoCall] /\ plain = << >>
TInit == /\ InitMsg("RUNNING") /\ BInit0 /\ l = 1
         /\ lastRan = [p \in Procs |-> 0] /\ ucb = {}

NoteRan == lastRan' = IF Len(ran') > Len(ran) THEN [lastRan EXCEPT ![ran'[Len(ran')].on] = Len(ran')] ELSE lastRan
Keep == UNCHANGED <<lastRan, ucb>>
KeepB == UNCHANGED bVars
KeepM == UNCHANGED <<msgVars, lastRan, ucb>>

InstOfMsg(m) == CHOOSE i \in DOMAIN inst : inst[i].u = 1000 + m

TEnter     == IsEv("send.enter") /\ Enter(E.i, E.t, E.d, E.f, "?", E.u, E.s) /\ Keep
              /\ NoteEnter(E.i, E.t, E.u) /\ UNCHANGED <<inProxy, pend, plain>>
TDirect    == IsEv("send.direct") /\ Direct(E.i, E.v) /\ NoteRan /\ UNCHANGED ucb /\ KeepB
TRunning   == IsEv("send.running") /\ ReadState(E.i, TRUE) /\ Keep /\ KeepB
TNotRun    == IsEv("send.notrunning") /\ ReadState(E.i, FALSE) /\ Keep /\ KeepB
TWrite     == IsEv("wr") /\ Keep /\ KeepB
              /\ IF E.rc = 0 THEN WriteOk(E.i, E.c) ELSE WriteFail(E.i, E.rc, E.inj = 1)
TReturn    == IsEv("ret.send") /\ Keep /\ KeepB
              /\ \E i \in DOMAIN inst : inst[i].u = 1000 + E.m
              /\ Return(InstOfMsg(E.m), E.rc)
TRead      == IsEv("rd") /\ Keep /\ KeepB /\ Read(E.t, E.q, E.cnt)
              /\ \A k \in 1..E.cnt : batch'[E.t][k][1] = E.is[k]       \* rig's shadow FIFO agrees
TRun       == IsEv("recv.run") /\ UNCHANGED ucb /\ KeepB
              /\ batch[E.t] # << >>
              /\ LET h == Head(batch[E.t]) IN
                    h[2] = E.q /\ inst[h[1]].u = E.u /\ inst[h[1]].c = E.c    \* the packet at the head, nothing else
              /\ Run(E.t) /\ NoteRan
(* the harness' own callback reports who it is: must be the callback the spec just started there *)
TUserCb    == IsEv("cb") /\ UNCHANGED <<msgVars, lastRan>> /\ KeepB
              /\ lastRan[E.t] # 0
              /\ LET r == ran[lastRan[E.t]] IN
                    /\ inst[r.i].u = 1000 + E.m /\ r.arg = E.arg /\ r.on = E.t
                    /\ r.how = "queued" => E.cur = E.t
              /\ E.m \notin ucb /\ ucb' = ucb \cup {E.m}
TQuiesce   == IsEv("quiesce") /\ Drained /\ C05Safety /\ AllCompleted /\ C10Inv /\ UNCHANGED <<msgVars, lastRan, ucb>> /\ KeepB
TReset     == IsEv("Reset") /\ ResetMsg("RUNNING") /\ lastRan' = [p \in Procs |-> 0] /\ ucb' = {}
              /\ rec' = << >> /\ inProxy' = [p \in Procs |-> 0] /\ pend' = [p \in Procs |-> NoCall] /\ plain' = << >>

(* ---- broadcasts (TpBcast) ---- *)
TCallB     == IsEv("call.bsend") /\ Call(E.t, "bsend", E.m, E.f, E.nthr) /\ KeepM
TCallCb    == IsEv("call.cbsend") /\ Call(E.t, "cbsend", E.m, E.f, E.nthr) /\ KeepM
TRecInit   == (IsEv("bsend.init") \/ IsEv("cbsend.init")) /\ RecInit(E.a, E.t, E.v) /\ KeepM
TProxy     == (IsEv("sync.proxy") \/ IsEv("obo.proxy")) /\ KeepM
              /\ lastRan[E.t] # 0 /\ ProxyBegin(E.t, E.b, ran[lastRan[E.t]].i)
              /\ rec[E.b].kind = (IF Tr[l].e = "obo.proxy" THEN "obo" ELSE rec[E.b].kind)
              /\ (Tr[l].e = "sync.proxy" => rec[E.b].kind \in {"sync", "cb"})
TOboCbDone == IsEv("obo.cbdone") /\ OboCbDone(E.t, E.b) /\ KeepM
TBcbBegin  == IsEv("bcb.begin") /\ UCbBegin(E.t, E.arg, E.m) /\ KeepM
              /\ (E.cur # -1 => E.cur = E.t)
TBcbEnd    == IsEv("bcb.end") /\ UCbEnd(E.t, E.arg, E.m) /\ KeepM
TDec       == IsEv("dec.locked") /\ Dec(E.t, E.a, E.v) /\ KeepM
TWait      == (IsEv("bsend.selfdec") \/ IsEv("bsend.wait")) /\ WaitRead(E.t, E.a, E.v) /\ KeepM
TSyncLeave == IsEv("bsend.return") /\ SyncLeave(E.t, E.a) /\ KeepM
TRetB      == IsEv("ret.bsend") /\ RetBsend(E.t, E.m, E.rc, E.sent, E.err) /\ KeepM
TDonePost  == (IsEv("dec.postdone") \/ IsEv("obo.finish")) /\ DonePost(E.t, IF Tr[l].e = "dec.postdone" THEN E.a ELSE E.b) /\ KeepM
TDoneBegin == IsEv("done.begin") /\ DoneBegin(E.t, E.b) /\ KeepM
TUDone     == IsEv("done") /\ (UDone(E.cur, E.arg, E.m, E.sent, E.err) \/ UDonePlain(E.cur, E.arg, E.m, E.sent, E.err)) /\ KeepM
TDoneFree  == IsEv("done.free") /\ DoneFree(E.t, E.b) /\ KeepM
TRetCb     == IsEv("ret.cbsend") /\ RetCbsend(E.t, E.m, E.rc) /\ KeepM

TNext == \/ TEnter \/ TDirect \/ TRunning \/ TNotRun \/ TWrite \/ TReturn
         \/ TRead \/ TRun \/ TUserCb \/ TQuiesce \/ TReset
         \/ TCallB \/ TCallCb \/ TRecInit \/ TProxy \/ TBcbBegin \/ TBcbEnd \/ TDec \/ TWait \/ TSyncLeave
         \/ TOboCbDone \/ TRetB \/ TDonePost \/ TDoneBegin \/ TUDone \/ TDoneFree \/ TRetCb
TSpec == TInit /\ [][TNext]_tvars

Accepted == IF TLCGet("stats").diameter - 1 = Len(Tr) THEN TRUE
            ELSE Print(<<"REJECTED_AT_LINE", TLCGet("stats").diameter, Tr[TLCGet("stats").diameter]>>, FALSE)
=============================================================================
