------------------------------- MODULE TpTrace -------------------------------
(* Trace validation: an execution of the real thread pool (harness/tp_drv.c, hooks + link-time
   wrappers) is a behaviour of the specification.  One trace action per logged event:
       IsEv(name) /\ <logged fields bound> /\ SpecAction(args)
   Every event is logged, so the search is linear; all invariants of the specification are evaluated
   in every state of the trace-induced behaviour.  Executions are concatenated with Reset events. *)
EXTENDS TpMsg, Json, IOUtils

Tr == ndJsonDeserialize(IOEnv.TRACE)

Procs == Workers \cup (100..140)
VARIABLES l,         \* next trace line to consume
          lastRan,   \* [Procs -> index into ran of the latest callback entered on that thread, 0 = none]
          ucb        \* user messages whose harness callback has been observed
tvars == <<msgVars, l, lastRan, ucb>>

IsEv(e) == l <= Len(Tr) /\ Tr[l].e = e /\ l' = l + 1
E == Tr[l]

TInit == /\ InitMsg("RUNNING") /\ l = 1
         /\ lastRan = [p \in Procs |-> 0] /\ ucb = {}

NoteRan == lastRan' = IF Len(ran') > Len(ran) THEN [lastRan EXCEPT ![ran'[Len(ran')].on] = Len(ran')] ELSE lastRan
Keep == UNCHANGED <<lastRan, ucb>>

InstOfMsg(m) == CHOOSE i \in DOMAIN inst : inst[i].u = 1000 + m

TEnter     == IsEv("send.enter") /\ Enter(E.i, E.t, E.d, E.f, "?", E.u) /\ Keep
TDirect    == IsEv("send.direct") /\ Direct(E.i, E.v) /\ NoteRan /\ UNCHANGED ucb
TRunning   == IsEv("send.running") /\ ReadState(E.i, TRUE) /\ Keep
TNotRun    == IsEv("send.notrunning") /\ ReadState(E.i, FALSE) /\ Keep
TWrite     == IsEv("wr") /\ Keep
              /\ IF E.rc = 0 THEN WriteOk(E.i, E.c) ELSE WriteFail(E.i, E.rc, E.inj = 1)
TReturn    == IsEv("ret.send") /\ Keep
              /\ \E i \in DOMAIN inst : inst[i].u = 1000 + E.m
              /\ Return(InstOfMsg(E.m), E.rc)
TRead      == IsEv("rd") /\ Keep /\ Read(E.t, E.q, E.cnt)
              /\ \A k \in 1..E.cnt : batch'[E.t][k][1] = E.is[k]       \* rig's shadow FIFO agrees
TRun       == IsEv("recv.run") /\ UNCHANGED ucb
              /\ batch[E.t] # << >>
              /\ LET h == Head(batch[E.t]) IN
                    h[2] = E.q /\ inst[h[1]].u = E.u /\ inst[h[1]].c = E.c    \* the packet at the head, nothing else
              /\ Run(E.t) /\ NoteRan
(* the harness' own callback reports who it is: must be the callback the spec just started there *)
TUserCb    == IsEv("cb") /\ UNCHANGED <<msgVars, lastRan>>
              /\ lastRan[E.t] # 0
              /\ LET r == ran[lastRan[E.t]] IN
                    /\ inst[r.i].u = 1000 + E.m /\ r.arg = E.arg /\ r.on = E.t
                    /\ r.how = "queued" => E.cur = E.t
              /\ E.m \notin ucb /\ ucb' = ucb \cup {E.m}
TQuiesce   == IsEv("quiesce") /\ Drained /\ C05Safety /\ UNCHANGED <<msgVars, lastRan, ucb>>
TReset     == IsEv("Reset") /\ ResetMsg("RUNNING") /\ lastRan' = [p \in Procs |-> 0] /\ ucb' = {}

TNext == \/ TEnter \/ TDirect \/ TRunning \/ TNotRun \/ TWrite \/ TReturn
         \/ TRead \/ TRun \/ TUserCb \/ TQuiesce \/ TReset
TSpec == TInit /\ [][TNext]_tvars

Accepted == IF TLCGet("stats").diameter - 1 = Len(Tr) THEN TRUE
            ELSE Print(<<"REJECTED_AT_LINE", TLCGet("stats").diameter, Tr[TLCGet("stats").diameter]>>, FALSE)
=============================================================================
