------------------------------- MODULE TpTrace -------------------------------
(* Trace validation: an execution of the real thread pool (harness/tp_drv.c: guarded hooks + link-time
   wrappers) must be a behaviour of the specification TpMsg + TpBcast + TpLife.  One trace action per
   logged event:   IsEv(name) /\ <logged fields bound> /\ SpecAction(args).
   Every event is logged, so the search is linear; the invariants are evaluated in every state of the
   trace-induced behaviour.  Executions are concatenated with Reset events. *)
EXTENDS TpLife, TpEvent, Json, IOUtils

Tr == ndJsonDeserialize(IOEnv.TRACE)
ASSUME VirtualOwner = PVT      \* TpEvent's name for the virtual thread as owner of a registration

Procs == Workers \cup (100..140)
VARIABLES l,         \* next trace line to consume
          lastRan,   \* [Procs -> index into ran of the latest callback entered on that thread, 0 = none]
          ucb,       \* user messages whose harness callback has been observed
          ecall,     \* event object -> arguments of the add/enable/disable/delete call in progress
          eenv       \* event object -> [eof, eofSeen, kmin, lastDeliv] (environment / expectations of the scenario)
tvars == <<msgVars, bVars, lVars, eVars, l, lastRan, ucb, ecall, eenv>>
EvObjs == 0..31
NoECall == [op |-> -1, ev |-> 0, fl |-> 0, ff |-> 0, thr |-> -1]
NoEnv == [eof |-> FALSE, eofSeen |-> FALSE, kmin |-> 0, cbs |-> 0, pendcb |-> FALSE, err |-> FALSE, errSeen |-> FALSE, eofAt |-> 0]

IsEv(e) == l <= Len(Tr) /\ Tr[l].e = e /\ l' = l + 1
E == Tr[l]

BInit0 == /\ rec = << >> /\ inProxy = [p \in Procs |-> 0]
          /\ pend = [p \in Procs |-> NoCall] /\ plain = << >>
EInit0 == /\ ereg = [u \in EvObjs |-> EvNoReg] /\ busy = [u \in EvObjs |-> -1] /\ fired = [u \in EvObjs |-> 0]
          /\ ecall = [u \in EvObjs |-> NoECall] /\ eenv = [u \in EvObjs |-> NoEnv]
TInit == /\ InitMsg("STOP") /\ BInit0 /\ InitLife /\ EInit0 /\ l = 1
         /\ lastRan = [p \in Procs |-> 0] /\ ucb = {}

NoteRan == lastRan' = IF Len(ran') > Len(ran) THEN [lastRan EXCEPT ![ran'[Len(ran')].on] = Len(ran')] ELSE lastRan
Keep  == UNCHANGED <<lastRan, ucb>>
KeepB == UNCHANGED bVars
KeepL == UNCHANGED <<lVars, eVars, ecall, eenv>>      \* life-cycle and event registrations untouched
KeepLL == UNCHANGED lVars
KeepM == UNCHANGED <<msgVars, lastRan, ucb>>

InstOfMsg(m) == CHOOSE i \in DOMAIN inst : inst[i].u = 1000 + m

(* ---- messages (TpMsg) ---- *)
TEnter     == IsEv("send.enter") /\ Enter(E.i, E.t, E.d, E.f, "?", E.u, E.s) /\ Keep /\ KeepL
              /\ NoteEnter(E.i, E.t, E.u) /\ UNCHANGED <<inProxy, pend, plain>>
TDirect    == IsEv("send.direct") /\ Direct(E.i, E.v) /\ NoteRan /\ UNCHANGED ucb /\ KeepB /\ KeepL /\ PoolAlive
(* The state read in tpt_msg_send is unsynchronised: the value seen must be the destination's state as the
   specification knows it, unless that state changed after the sender's previous event (window semantics). *)
StateEvents == {"tcreate.starting", "tcreate.failed", "proc.running", "proc.stop", "shutdown.cb", "create.pvt_running",
                "shutdown.set", "call.attach_first", "Reset"}
StateEvThread(k) == IF Tr[k].e \in {"tcreate.starting", "tcreate.failed"} THEN Tr[k].b
                    ELSE IF Tr[k].e \in {"create.pvt_running", "shutdown.set"} THEN PVT
                    ELSE IF Tr[k].e = "call.attach_first" THEN 0
                    ELSE IF Tr[k].e = "Reset" THEN -7 ELSE Tr[k].a
Lo(k) == IF k > 400 THEN k - 400 ELSE 1
Hi(k) == IF k + 300 < Len(Tr) THEN k + 300 ELSE Len(Tr)
LastEvOf(p)   == LET ks == {k \in Lo(l)..(l - 1) : Tr[k].t = p} IN
                 IF ks = {} THEN 0 ELSE CHOOSE k \in ks : \A j \in ks : j <= k
PrevBy(w, k)  == LET ks == {j \in Lo(k)..(k - 1) : Tr[j].t = w} IN
                 IF ks = {} THEN 0 ELSE CHOOSE j \in ks : \A i \in ks : i <= j
NextBy(w, k)  == LET ks == {j \in (k + 1)..Hi(k) : Tr[j].t = w} IN
                 IF ks = {} THEN Len(Tr) + 1 ELSE CHOOSE j \in ks : \A i \in ks : j <= i
(* A state announcement at line k (logged by thread w) stands for a write that happened somewhere between w's
   previous and w's next event - the hook may sit before or after the assignment.  The read of sender p happened
   between p's previous event and this line.  If the two intervals overlap the reader may have seen either value. *)
Racing(d, p) == \E k \in Lo(l)..Hi(l) :
                   /\ k # l /\ Tr[k].e \in StateEvents /\ StateEvThread(k) \in {d, -7}
                   /\ PrevBy(Tr[k].t, k) < l /\ LastEvOf(p) < NextBy(Tr[k].t, k)
FreshOrRacing(d, p, wantRunning) == \/ (tstate[d] \in RunningStates) = wantRunning
                                    \/ Racing(d, p)
TRunning   == IsEv("send.running") /\ ReadState(E.i, TRUE) /\ Keep /\ KeepB /\ KeepL
              /\ FreshOrRacing(E.d, E.t, TRUE)
TNotRun    == IsEv("send.notrunning") /\ ReadState(E.i, FALSE) /\ Keep /\ KeepB /\ KeepL
              /\ FreshOrRacing(E.d, E.t, FALSE)
TWrite     == IsEv("wr") /\ Keep /\ KeepB /\ KeepL
              /\ IF E.rc = 0 THEN WriteOk(E.i, E.c) ELSE WriteFail(E.i, E.rc, E.inj = 1)
TReturn    == IsEv("ret.send") /\ Keep /\ KeepB /\ KeepL
              /\ \E i \in DOMAIN inst : inst[i].u = 1000 + E.m
              /\ Return(InstOfMsg(E.m), E.rc)
TRead      == IsEv("rd") /\ Keep /\ KeepB /\ KeepL /\ Read(E.t, E.q, E.cnt)
              /\ \A k \in 1..E.cnt : batch'[E.t][k][1] = E.is[k]       \* rig's shadow FIFO agrees
TRun       == IsEv("recv.run") /\ UNCHANGED ucb /\ KeepB /\ KeepL
              /\ PoolAlive                                               \* (C11) no callback after destroy returned
              /\ batch[E.t] # << >>
              /\ LET h == Head(batch[E.t]) IN
                    h[2] = E.q /\ inst[h[1]].u = E.u /\ inst[h[1]].c = E.c    \* the packet at the head, nothing else
              /\ Run(E.t) /\ NoteRan
(* the harness' own callback reports who it is: must be the callback the spec just started there *)
TUserCb    == IsEv("cb") /\ UNCHANGED <<msgVars, lastRan>> /\ KeepB /\ KeepL
              /\ lastRan[E.t] # 0
              /\ LET r == ran[lastRan[E.t]] IN
                    /\ inst[r.i].u = 1000 + E.m /\ r.arg = E.arg /\ r.on = E.t
                    /\ r.how = "queued" => E.cur = E.t
              /\ E.m \notin ucb /\ ucb' = ucb \cup {E.m}
\* "= TRUE": evaluated as ONE state-level expression. As bare conjuncts of an action TLC unrolls every \A into a
\* list of conjuncts and recurses once per element (Java stack proportional to the number of message instances).
TQuiesce   == IsEv("quiesce") /\ ((Drained /\ C05Safety /\ AllCompleted /\ C10Inv) = TRUE)
              /\ UNCHANGED <<msgVars, lastRan, ucb>> /\ KeepB /\ KeepL
TReset     == IsEv("Reset") /\ ResetMsg("STOP") /\ lastRan' = [p \in Procs |-> 0] /\ ucb' = {}
              /\ rec' = << >> /\ inProxy' = [p \in Procs |-> 0] /\ pend' = [p \in Procs |-> NoCall] /\ plain' = << >>
              /\ phase' = "none" /\ hstart' = [t \in Threads |-> 0] /\ hstop' = [t \in Threads |-> 0]
              /\ made' = {} /\ exited' = {} /\ joined' = {} /\ ptid0' = {} /\ shut' = 0 /\ tcfail' = FALSE /\ attached' = {} /\ UNCHANGED strag
              /\ ereg' = [u \in EvObjs |-> EvNoReg] /\ busy' = [u \in EvObjs |-> -1] /\ fired' = [u \in EvObjs |-> 0]
              /\ ecall' = [u \in EvObjs |-> NoECall] /\ eenv' = [u \in EvObjs |-> NoEnv]

(* ---- broadcasts (TpBcast) ---- *)
TCallB     == IsEv("call.bsend") /\ Call(E.t, "bsend", E.m, E.f, E.nthr) /\ KeepM /\ KeepL
TCallCb    == IsEv("call.cbsend") /\ Call(E.t, "cbsend", E.m, E.f, E.nthr) /\ KeepM /\ KeepL
TRecInit   == (IsEv("bsend.init") \/ IsEv("cbsend.init")) /\ RecInit(E.a, E.t, E.v) /\ KeepM /\ KeepL
TProxy     == (IsEv("sync.proxy") \/ IsEv("obo.proxy")) /\ KeepM /\ KeepL
              /\ lastRan[E.t] # 0 /\ ProxyBegin(E.t, E.b, ran[lastRan[E.t]].i)
              /\ (Tr[l].e = "obo.proxy" => rec[E.b].kind = "obo")
              /\ (Tr[l].e = "sync.proxy" => rec[E.b].kind \in {"sync", "cb"})
TOboCbDone == IsEv("obo.cbdone") /\ OboCbDone(E.t, E.b) /\ KeepM /\ KeepL
TBcbBegin  == IsEv("bcb.begin") /\ UCbBegin(E.t, E.arg, E.m) /\ KeepM /\ KeepL /\ PoolAlive
              /\ (E.cur # -1 => E.cur = E.t)
TBcbEnd    == IsEv("bcb.end") /\ UCbEnd(E.t, E.arg, E.m) /\ KeepM /\ KeepL
TDec       == IsEv("dec.locked") /\ Dec(E.t, E.a, E.v) /\ KeepM /\ KeepL
TWait      == (IsEv("bsend.selfdec") \/ IsEv("bsend.wait")) /\ WaitRead(E.t, E.a, E.v) /\ KeepM /\ KeepL
TSyncLeave == IsEv("bsend.return") /\ SyncLeave(E.t, E.a) /\ KeepM /\ KeepL
TRetB      == IsEv("ret.bsend") /\ RetBsend(E.t, E.m, E.rc, E.sent, E.err) /\ KeepM /\ KeepL
TDonePost  == (IsEv("dec.postdone") \/ IsEv("obo.finish")) /\ KeepM /\ KeepL
              /\ DonePost(E.t, IF Tr[l].e = "dec.postdone" THEN E.a ELSE E.b)
TDoneBegin == IsEv("done.begin") /\ DoneBegin(E.t, E.b) /\ KeepM /\ KeepL
TUDone     == IsEv("done") /\ KeepM /\ KeepL /\ PoolAlive
              /\ (UDone(E.cur, E.arg, E.m, E.sent, E.err) \/ UDonePlain(E.cur, E.arg, E.m, E.sent, E.err))
TDoneFree  == IsEv("done.free") /\ DoneFree(E.t, E.b) /\ KeepM /\ KeepL
TRetCb     == IsEv("ret.cbsend") /\ RetCbsend(E.t, E.m, E.rc) /\ KeepM /\ KeepL

(* ---- life cycle (TpLife) ---- *)
KeepMB == KeepM /\ KeepB /\ UNCHANGED <<eVars, ecall, eenv>>
SetT(t, s) == tstate' = [tstate EXCEPT ![t] = s] /\ UNCHANGED <<wopen, inst, pipe, batch, ran, ret, lastRan, ucb>> /\ KeepB
              /\ UNCHANGED <<eVars, ecall, eenv>>
TCallCreate == IsEv("call.create") /\ CallCreate /\ KeepMB
THookStart  == IsEv("hook.start") /\ HookStart(E.a) /\ KeepMB
THookStop   == IsEv("hook.stop") /\ HookStop(E.a) /\ KeepMB
TRetCreate  == IsEv("ret.create") /\ RetCreate(E.rc, E.mem, E.fds, E.thr) /\ KeepMB
               /\ (E.rc = 0 => E.nmax = E.want)          \* (C11) the pool has the requested number of workers (0 = one per CPU)
TCallTC     == IsEv("call.threads_create") /\ CallTCreate /\ KeepMB
TRetTC      == IsEv("ret.threads_create") /\ RetTCreate(E.rc) /\ KeepMB
TStarting   == IsEv("tcreate.starting") /\ Starting(E.b) /\ SetT(E.b, "STARTING")
TStartFail  == IsEv("tcreate.failed") /\ StartFailed(E.b) /\ SetT(E.b, "STOP")
TProc       == \E w \in {"proc.enter", "proc.running", "proc.onstart", "proc.onstop", "proc.ptid0", "proc.stop", "proc.exit"} :
                 /\ IsEv(w) /\ ProcStep(E.a, w)
                 \* (C05) a worker leaves its loop only through its own shutdown message: everything queued before it
                 \* (FIFO) was read and run; a loop that ends for any other reason abandons accepted messages
                 /\ (w = "proc.onstop" => tstate[E.a] = "STOPING")
                 /\ IF w = "proc.running" THEN SetT(E.a, "RUNNING")
                    ELSE IF w = "proc.stop" THEN SetT(E.a, "STOP") ELSE KeepMB
(* a never-joined thread of an EARLIER pool (its memory is gone: the hook argument maps to no current thread)
   is still executing the tail of tp_thread_proc: the known use-after-free, reported and skipped *)
TProcStrag  == \E w \in {"proc.onstop", "proc.ptid0", "proc.stop", "proc.exit", "hook.stop"} :
                 /\ IsEv(w) /\ E.a >= 100000 /\ strag > 0
                 /\ Dev("pool-freed-while-an-unjoined-thread-was-still-inside-tp_thread_proc")
                 /\ KeepMB /\ KeepLL
TShutCb     == IsEv("shutdown.cb") /\ SetT(E.a, "STOPING") /\ KeepLL
TShutSet    == IsEv("shutdown.set") /\ ShutdownSet(E.v) /\ SetT(PVT, "STOP")
TPvtRun     == IsEv("create.pvt_running") /\ SetT(PVT, "RUNNING") /\ KeepLL
TJoin0      == IsEv("sys.join0") /\ Join0 /\ KeepMB
TJoined     == IsEv("wait.joined") /\ Joined(E.b, E.v) /\ KeepMB
TDestroyFree == IsEv("destroy.free") /\ DestroyFree /\ KeepMB
TRetDestroy == IsEv("ret.destroy") /\ RetDestroy(E.rc, E.mem, E.fds, E.thr) /\ KeepMB
               /\ (E.t \notin Workers => E.rc \in {0, EBUSY})               \* (C11) from outside the pool destroy is not refused
TAttach     == IsEv("call.attach_first") /\ Attach(0) /\ SetT(0, "STARTING")
TRetAttach  == IsEv("ret.attach_first") /\ E.rc = 0 /\ KeepMB /\ KeepLL
TRetWait    == IsEv("ret.shutdown_wait") /\ RetGuarded(E.t, E.rc) /\ KeepMB
TClose      == IsEv("sys.close") /\ KeepL /\ KeepB /\ Keep
               /\ wopen' = [wopen EXCEPT ![E.pipe] = FALSE]
               /\ UNCHANGED <<tstate, inst, pipe, batch, ran, ret>>
TCrash      == IsEv("Crash") /\ Crashed(E.t) /\ KeepMB
THang       == IsEv("Hang") /\ Hung(E.where) /\ KeepMB

(* ---- event and timer registrations (TpEvent) ---- *)
KeepAllButE == KeepM /\ KeepB /\ KeepLL
TEvNew     == IsEv("evnew") /\ KeepAllButE /\ UNCHANGED eVars /\ UNCHANGED ecall
              /\ eenv' = [eenv EXCEPT ![E.u] = [NoEnv EXCEPT !.kmin = E.k]]
TEvMin     == IsEv("evmin") /\ KeepAllButE /\ UNCHANGED <<eVars, ecall>> /\ eenv' = [eenv EXCEPT ![E.u].kmin = E.k]
TEvCall    == IsEv("call.ev") /\ KeepAllButE /\ EvEnter(E.u, E.t) /\ UNCHANGED eenv
              /\ ecall' = [ecall EXCEPT ![E.u] = [op |-> E.op, ev |-> E.ev, fl |-> E.fl, ff |-> E.ff, thr |-> E.thr]]
TEvRet     == IsEv("ret.ev") /\ KeepAllButE /\ UNCHANGED eenv
              /\ LET c == ecall[E.u] IN EvPost(E.u, E.t, c.op, c.ev, c.fl, c.ff, c.thr, E.rc, E.tpd = 1)
              /\ ecall' = [ecall EXCEPT ![E.u] = NoECall]
TEvGate    == IsEv("loop.gate") /\ KeepAllButE /\ UNCHANGED <<ecall, eenv>> /\ EvGate(E.t, E.u, E.dis = 1, E.set = 1)
TEvDeliver == IsEv("loop.cb") /\ KeepAllButE /\ UNCHANGED ecall /\ (EvDeliver(E.t, E.u, E.evk) \/ EvDeliverEarly(E.t, E.u, E.evk))
              /\ eenv' = [eenv EXCEPT ![E.u].pendcb = TRUE]
TEvCb      == IsEv("evcb") /\ KeepAllButE /\ UNCHANGED <<eVars, ecall>>
              /\ eenv[E.u].pendcb /\ E.cur = E.t                          \* the callback the loop just started, on that thread
              /\ ((E.fl \div 256) % 2 = 1 => eenv[E.u].eof)               \* (C06) EOF flag only after the peer closed
              /\ ((E.fl \div 512) % 2 = 1 => eenv[E.u].eof \/ eenv[E.u].err)   \* (C06) ERROR flag only on an error condition
              /\ eenv' = [eenv EXCEPT ![E.u].pendcb = FALSE, ![E.u].cbs = @ + 1,
                                      ![E.u].eofSeen = @ \/ ((E.fl \div 256) % 2 = 1),
                                      ![E.u].errSeen = @ \/ ((E.fl \div 512) % 2 = 1)]
TEvEnv     == (IsEv("mkready") \/ IsEv("drained")) /\ KeepAllButE /\ UNCHANGED <<eVars, ecall, eenv>>
TEvPeer    == IsEv("peerclose") /\ KeepAllButE /\ UNCHANGED <<eVars, ecall>>
              /\ eenv' = [eenv EXCEPT ![E.u].eof = TRUE, ![E.u].eofAt = eenv[E.u].cbs]
(* readerclose: the read end of a pipe whose WRITE end is registered goes away: the kernel reports an error condition *)
TEvPeerErr == IsEv("readerclose") /\ KeepAllButE /\ UNCHANGED <<eVars, ecall>> /\ eenv' = [eenv EXCEPT ![E.u].err = TRUE]
(* evreopen: the descriptor was closed behind the library's back and its number reused; the registration record stays *)
TEvReopen  == IsEv("evreopen") /\ KeepAllButE /\ UNCHANGED <<eVars, ecall, eenv>>
(* evcount: end of the observation window of object u *)
TEvCount   == IsEv("evcount") /\ KeepAllButE /\ UNCHANGED <<eVars, ecall, eenv>>
              /\ E.cnt = eenv[E.u].cbs
              /\ E.cnt >= eenv[E.u].kmin                                   \* (C06) a persistent event kept firing
              /\ (eenv[E.u].eof /\ ereg[E.u].present /\ ~ereg[E.u].dis => eenv[E.u].eofSeen)   \* (C06) EOF reported
              \* (C06) end of stream (full or half close) is level triggered: at most one callback can have been in flight
              \* when the peer closed, so from the second callback after it on the EOF flag must have been seen
              /\ (eenv[E.u].eof /\ eenv[E.u].cbs >= eenv[E.u].eofAt + 2 => eenv[E.u].eofSeen)
              /\ (eenv[E.u].err /\ eenv[E.u].cbs > 0 => eenv[E.u].errSeen)                       \* (C06) error condition carries its flag
              /\ C06Inv

TNext == \/ TEvMin \/ TEvPeerErr \/ TEvReopen \/ TEvNew \/ TEvCall \/ TEvRet \/ TEvGate \/ TEvDeliver \/ TEvCb \/ TEvEnv \/ TEvPeer \/ TEvCount
         \/ TEnter \/ TDirect \/ TRunning \/ TNotRun \/ TWrite \/ TReturn
         \/ TRead \/ TRun \/ TUserCb \/ TQuiesce \/ TReset
         \/ TCallB \/ TCallCb \/ TRecInit \/ TProxy \/ TOboCbDone \/ TBcbBegin \/ TBcbEnd \/ TDec \/ TWait \/ TSyncLeave
         \/ TRetB \/ TDonePost \/ TDoneBegin \/ TUDone \/ TDoneFree \/ TRetCb
         \/ TCallCreate \/ THookStart \/ THookStop \/ TRetCreate \/ TStarting \/ TStartFail \/ TProc \/ TShutCb
         \/ TShutSet \/ TPvtRun \/ TJoin0 \/ TJoined \/ TDestroyFree \/ TRetDestroy \/ TRetWait \/ TClose
         \/ TCrash \/ THang \/ TCallTC \/ TRetTC \/ TAttach \/ TRetAttach \/ TProcStrag
TSpec == TInit /\ [][TNext]_tvars

Accepted == IF TLCGet("stats").diameter - 1 = Len(Tr) THEN TRUE
            ELSE Print(<<"REJECTED_AT_LINE", TLCGet("stats").diameter, Tr[TLCGet("stats").diameter]>>, FALSE)
=============================================================================
